/-
  fbdriver — line-protocol driver of the executable model.  One JSON document per input line,
  one JSON document per output line.  A malformed or unsupported line answers {"bad-op": msg}:
  the model never defaults.
-/
import FB.Wire
import FB.Codec
import FB.CreatedFiles
import FB.BuildDirs
import FB.PathNorm
import FB.Backups
import FB.Overlay
import FB.Rollback
import FB.MakeDirs
import FB.MakeRoom
import FB.MakeRoomF
import FB.MakeDirsF
import FB.Commit
import FB.PrepareF
import FB.Conc
import FB.ConcDirs
import FB.ConcDirsF
import FB.HeapDriver
open FB FB.Wire
open Lean (Json)

/-- external change between builds -/
def applyMut (fs : FS) (kind : String) (p : Path) (bytes : Option String) (mtime : Option Nat) :
    Except String FS :=
  match kind with
  | "write" =>
    match bytes, mtime with
    | some b, some m => .ok (if fs.isDir p || !fs.isDir p.dropLast || p = [] then fs else fs.write p b m)
    | _, _ => .error "write needs bytes and mtime"
  | "delete" => .ok (if fs.isFile p then fs.erase p else fs)
  | "rmtree" => .ok (if fs.isDir p && p ≠ [] then fs.rmtree p else fs)
  | "mkdir" => .ok (match fs.mkdir p with | .ok fs' => fs' | .error _ => fs)
  | "touch" =>
    match mtime with
    | some m => .ok (match fs.get p with | some (.file b _) => fs.set p (.file b m) | _ => fs)
    | none => .error "touch needs mtime"
  | "samemeta" =>
    -- content changes, size and mtime are preserved
    .ok (match fs.get p with
      | some (.file b m) =>
        if b.length = 0 then fs
        else
          let last := b.back
          let c := if last = 'x' then 'y' else 'x'
          fs.set p (.file ((b.dropEnd 1).toString.push c) m)
      | _ => fs)
  | "corrupt" =>
    -- the cache file is replaced by something `read_immutable` rejects (class named in `bytes`)
    .ok (match fs.get p with | some (.file _ _) => fs.set p (.file ("CORRUPT:" ++ bytes.getD "") 1) | _ => fs)
  | "todir" =>
    -- a regular file is replaced by an empty directory
    .ok (match fs.get p with | some (.file _ _) => fs.set p .dir | _ => fs)
  | k => .error s!"bad mutation {k}"

/-- the record the cache file currently stands for (null: none / unreadable) -/
def showRec (w : World) (cf : Path) : Lean.Json :=
  match w.cacheState cf with
  | .valid r => Json.mkObj [("outputs", .arr (r.outputs.map fun p => .str (showPath p)).toArray),
                            ("created", .arr (r.createdDirs.map fun p => .str (showPath p)).toArray),
                            ("name", .str r.buildName)]
  | _ => .null

def lookupVersion (versions : List (String × FB.Json)) (name : String) : FB.Json :=
  match versions.find? (·.1 = name) with
  | some (_, v) => v
  | none => .null

def runHist (j : Lean.Json) : Except String Lean.Json := do
  let dirSize ← getNat (← j.getObjVal? "dirsize")
  let cf := parsePath (← (← j.getObjVal? "cache").getStr?)
  let fs ← parseTree (← j.getObjVal? "tree")
  let funcs ← (← (← j.getObjVal? "funcs").getArr?).mapM parseFunc
  let steps ← (← j.getObjVal? "steps").getArr?
  let mut w : World := { fs := fs, dirSize := dirSize }
  let mut kw : KWorld := { fs := fs, dirSize := dirSize }
  let mut outs : Array Lean.Json := #[]
  for st in steps do
    let a ← st.getArr?
    if h0 : a.size = 0 then throw "empty step" else
    match ← a[0].getStr? with
    | "mut" =>
      if h : a.size = 5 then
        let bytes := match a[3] with | .str s => some s | _ => none
        let mtime := match getNat a[4] with | .ok n => some n | .error _ => none
        let fs' ← applyMut w.fs (← a[1].getStr?) (parsePath (← a[2].getStr?)) bytes mtime
        w := { w with fs := fs' }
        let kfs' ← applyMut kw.fs (← a[1].getStr?) (parsePath (← a[2].getStr?)) bytes mtime
        kw := { kw with fs := kfs' }
        outs := outs.push (Json.mkObj [("tree", showTree w.fs), ("rec", showRec w cf),
          ("impl", Json.mkObj [("tree", showTree kw.fs)])])
      else throw "bad mut"
    | "build" =>
      -- ["build", buildName, versions(wire dict), rootIdx, arg]
      if h : a.size = 5 ∨ a.size = 6 then
        have h5 : 4 < a.size := by omega
        -- optional 6th element: injected fault {"files":[..], "subs":[[fname,args,kwargs]..], "abort":bool}
        let fault := if h6 : a.size = 6 then a[5] else Lean.Json.null
        let failFiles := match fault.getObjVal? "files" with
          | .ok (.arr xs) => xs.toList.filterMap fun x => match x with | .str s => some (parsePath s) | _ => none
          | _ => []
        let failSubs ← match fault.getObjVal? "subs" with
          | .ok (.arr xs) => xs.toList.mapM fun x => do
              let t ← x.getArr?
              if ht : t.size = 3 then
                pure (subKey (← t[0].getStr?) (← parseJson t[1]) (← parseJson t[2]))
              else throw "bad sub fault"
          | _ => pure []
        let abort : Nat := match fault.getObjVal? "abort" with
          | .ok (.str "start") => 1
          | .ok (.str "end") => 2
          | _ => 0
        let name ← a[1].getStr?
        let versions ← match ← parseJson a[2] with
          | .obj kvs => pure kvs
          | _ => throw "versions must be a dict"
        let rootIdx ← getNat a[3]
        let arg ← parseJson a[4]
        -- function bodies see their own version (behaviour changes only with the version)
        let funcs' := funcs.map fun f =>
          { f with stmts := f.stmts }
        let verOf := lookupVersion versions
        let prog := denoteFunc verOf (funcs'.size + 1) funcs' rootIdx none arg (.obj [])
        let out := Spec.build w cf name prog failFiles failSubs abort
        w := out.world
        let kout := Impl.build kw cf name versions prog failFiles failSubs abort
        kw := kout.world
        let implJ := Json.mkObj [("res", showRes kout.res), ("tree", showTree kw.fs),
          ("inv", .arr (kout.invLog.map showInv).toArray),
          ("cache", match kout.written with | some c => showCache c | none => .null)]
        outs := outs.push (Json.mkObj [("impl", implJ),
          ("res", showRes out.res), ("tree", showTree w.fs),
          ("inv", .arr (out.invLog.map showInv).toArray), ("obl", .bool out.obligation),
          ("trace", .arr (out.trace.map showCall).toArray), ("rec", showRec w cf)])
      else throw "bad build"
    | "clean" =>
      if h : a.size = 2 then
        let name := match a[1] with | .str s => some s | _ => none
        let out := Spec.clean w cf name
        w := out.world
        let kout := Impl.clean kw cf name
        kw := kout.world
        outs := outs.push (Json.mkObj [("res", showRes out.res), ("tree", showTree w.fs), ("rec", showRec w cf),
          ("impl", Json.mkObj [("res", showRes kout.res), ("tree", showTree kw.fs)])])
      else throw "bad clean"
    | k => throw s!"bad step {k}"
  return Json.mkObj [("steps", .arr outs)]

partial def toJsonT : PyVal → Except String FB.Json
    | .null => pure .null
    | .bool b => pure (.bool b)
    | .int false i => pure (.num (.int i))
    | .flt false n => pure (.num n)
    | .str false s => pure (.str s)
    | .list false xs => do pure (.arr (← xs.mapM toJsonT))
    | .tuple false xs => do pure (.tup (← xs.mapM toJsonT))
    | .dict false kvs => do
      let r ← kvs.mapM fun (k, v) => do
        match k with
        | .str false s => pure (s, ← toJsonT v)
        | _ => throw "is_equal: non-string key"
      pure (.obj r)
    | _ => throw "is_equal: value outside the documented domain"


def runJsonUnit (j : Lean.Json) : Except String Lean.Json := do
  let op ← (← j.getObjVal? "op").getStr?
  match op with
  | "sanitize" =>
    let v ← parseVal (← j.getObjVal? "a")
    match sanitize v with
    | some r => return Json.mkObj [("ok", showJson r)]
    | none => return Json.mkObj [("exc", "TypeError")]
  | "is_equal" =>
    let a ← parseJsonT (← j.getObjVal? "a")
    let b ← parseJsonT (← j.getObjVal? "b")
    return Json.mkObj [("ok", .bool (isEqual a b))]
  | "hash_eq" =>
    let a ← parseJson (← j.getObjVal? "a")
    let b ← parseJson (← j.getObjVal? "b")
    return Json.mkObj [("ok", .bool (heq (toH a) (toH b)))]
  | "to_hashable" =>
    let a ← parseJson (← j.getObjVal? "a")
    return Json.mkObj [("ok", showH (toH a))]
  | k => throw s!"bad json op {k}"
where
  /-- a value that may contain tuples (inputs of `is_equal`): sanitized shape except for tuples -/
  parseJsonT (j : Lean.Json) : Except String FB.Json := do
    toJsonT (← parseVal j)

/-- all interleavings of threads 0..n-1 doing `steps[i]` steps each -/
partial def interleavings (remaining : List Nat) : List (List Nat) :=
  if remaining.all (· == 0) then [[]]
  else
    (List.range remaining.length).flatMap fun i =>
      match remaining[i]? with
      | some (k+1) => (interleavings (remaining.set i k)).map (i :: ·)
      | _ => []

def dedupStr (xs : List String) : List String :=
  xs.foldl (fun acc x => if acc.contains x then acc else acc ++ [x]) []

/-- exhaustive enumeration of a protocol model: the set of outcomes over all schedules -/
def runConc (j : Lean.Json) : Except String Lean.Json := do
  let proto ← (← j.getObjVal? "proto").getStr?
  let n ← getNat (← j.getObjVal? "threads")
  match proto with
  | "P1" =>
    let scheds := interleavings (List.replicate n 3)
    let outs := scheds.map fun sc =>
      let s := FB.Conc.P1.run {} sc
      let ran := ((List.range n).filter fun i => s.pc i == .done).length
      let rej := ((List.range n).filter fun i => s.pc i == .rejected).length
      s!"executions={s.executions} done={ran} rejected={rej}"
    return Json.mkObj [("schedules", .num (.fromNat scheds.length)), ("outcomes", .arr ((dedupStr outs).map .str).toArray)]
  | "P2" =>
    let scheds := interleavings (List.replicate n 3)
    let outs := scheds.map fun sc =>
      let s := FB.Conc.P2.run {} sc
      s!"created={s.created} count={s.count} exists={s.dirExists}"
    return Json.mkObj [("schedules", .num (.fromNat scheds.length)), ("outcomes", .arr ((dedupStr outs).map .str).toArray)]
  | "P3" =>
    -- thread 0 = owner (1 step), threads 1..n-1 = stragglers (3 steps)
    let scheds := interleavings (1 :: List.replicate (n - 1) 3)
    let outs := scheds.map fun sc =>
      let s := FB.Conc.P3.run {} sc
      let show1 := match s.pc 1 with
        | .appended => "completed-in-record"
        | .rejectedAtEntry => "fenced-no-effect"
        | .rejectedAtAppend => if s.effectsAfterClose.contains 1 then "fenced-after-effect-after-close" else "fenced-after-effect-before-close"
        | _ => "unfinished"
      s!"{show1} inrecord={s.record.contains 1}"
    return Json.mkObj [("schedules", .num (.fromNat scheds.length)), ("outcomes", .arr ((dedupStr outs).map .str).toArray)]
  | "DIRS" =>
    -- FB.ConcDirs: thread i builds the file paths[i]; every interleaving of the is_dir / mkdir / register steps
    let paths ← (← (← j.getObjVal? "paths").getArr?).toList.mapM fun x => do pure (parsePath (← x.getStr?))
    let p : Nat → FB.Path := fun i => paths.getD i ["unused"]
    let steps := paths.map fun q => 2 * q.length + 1
    let scheds := interleavings steps
    let showL := fun (l : List FB.Path) => ",".intercalate ((l.map fun d => "/".intercalate d).toArray.qsort (· < ·)).toList
    let outs := scheds.map fun sc =>
      let s := FB.ConcDirs.run p (FB.ConcDirs.init p []) sc
      let done := (List.range paths.length).all fun i => s.pc i == .registered
      s!"created={showL s.b.created} dirs={showL s.dirs} done={done}"
    return Json.mkObj [("schedules", .num (.fromNat scheds.length)), ("outcomes", .arr ((dedupStr outs).map .str).toArray)]
  | "DIRSF" =>
    -- FB.ConcDirsF: as DIRS, and the threads listed in "fails" run error_building_file after registering
    let paths ← (← (← j.getObjVal? "paths").getArr?).toList.mapM fun x => do pure (parsePath (← x.getStr?))
    let failsL ← (← (← j.getObjVal? "fails").getArr?).toList.mapM fun x => getNat x
    let p : Nat → FB.Path := fun i => paths.getD i ["unused"]
    let fails : Nat → Bool := fun i => failsL.contains i
    let steps := paths.map fun q => 2 * q.length + 2
    let scheds := interleavings steps
    let showL := fun (l : List FB.Path) => ",".intercalate ((l.map fun d => "/".intercalate d).toArray.qsort (· < ·)).toList
    let outs := scheds.map fun sc =>
      let s := FB.ConcDirsF.run p fails (FB.ConcDirsF.init p []) sc
      let done := (List.range paths.length).all fun i => s.pc i == (if fails i then .failed else .registered)
      -- the directories that are virtually removed are `rmdir`ed when the build commits
      let left := s.dirs.filter fun d => !s.b.errorCreated.contains d
      s!"created={showL s.b.created} dirs={showL left} done={done}"
    return Json.mkObj [("schedules", .num (.fromNat scheds.length)), ("outcomes", .arr ((dedupStr outs).map .str).toArray)]
  | p => throw s!"unknown protocol {p}"

/-- the cache file's codec (`FB.Codec`): decode a document, re-encode it, list what gets registered -/
def runCodec (j : Lean.Json) : Except String Lean.Json := do
  let docs ← (← j.getObjVal? "docs").getArr?
  let outs ← docs.toList.mapM fun d => do
    let v ← parseJson d
    match FB.Codec.decodeOp 200 (FB.Codec.textRT v) with
    | none => pure (Json.mkObj [("err", .bool true)])
    | some op =>
      let reg := registered op
      let files := reg.filterMap fun
        | .buildFile p _ _ _ _ _ _ _ _ _ _ => some (Lean.Json.str (showPath p))
        | _ => none
      let nsubs := (reg.filter fun | .subbuild _ _ _ _ _ _ _ => true | _ => false).length
      pure (Json.mkObj [("ok", showJson (FB.Codec.encodeOp op)), ("files", .arr files.toArray), ("nsubs", .num (.fromNat nsubs))])
  return Json.mkObj [("outs", .arr outs.toArray)]

def showCF (c : FB.CreatedFiles.CF) : Lean.Json :=
  Json.mkObj [("files", .arr (c.files.map fun p => .str (showPath p)).toArray),
    ("dirs", .arr (c.dirs.map fun p => .str (showPath p)).toArray),
    ("subfiles", .arr (c.subfiles.map fun (d, ns) => Lean.Json.arr #[.str (showPath d), .arr (ns.map .str).toArray]).toArray),
    ("count", .arr (c.count.map fun (d, n) => Lean.Json.arr #[.str (showPath d), .num (.fromNat n)]).toArray)]

/-- the `CreatedFiles` data structure (`FB.CreatedFiles`): run a command sequence, print every state -/
def runCF (j : Lean.Json) : Except String Lean.Json := do
  let cmds ← (← j.getObjVal? "cmds").getArr?
  let mut c : Option FB.CreatedFiles.CF := some {}
  let mut outs : Array Lean.Json := #[]
  for cmd in cmds do
    let a ← cmd.getArr?
    let k ← (a[0]?.getD Lean.Json.null).getStr?
    let p := parsePath (← (a[1]?.getD Lean.Json.null).getStr?)
    match c with
    | none => outs := outs.push (.str "dead")
    | some st =>
      let next ← match k with
        | "s" => pure (FB.CreatedFiles.step st (.started p))
        | "f" => pure (FB.CreatedFiles.step st (.finished p))
        | "e" => pure (FB.CreatedFiles.step st (.error p))
        | x => throw s!"bad cf command {x}"
      match next with
      | none => outs := outs.push (.str "KeyError"); c := none
      | some st' =>
        let q ← match a[2]? with
          | some qp => do
            let qq := parsePath (← qp.getStr?)
            pure (Json.mkObj [("hasFile", .bool (FB.CreatedFiles.hasFile st' qq)), ("hasDir", .bool (FB.CreatedFiles.hasDir st' qq)),
              ("listDir", .arr ((FB.CreatedFiles.listDir st' qq).map .str).toArray)])
          | none => pure .null
        outs := outs.push (Json.mkObj [("state", showCF st'), ("query", q)])
        c := some st'
  return Json.mkObj [("outs", .arr outs)]

def showPaths (l : List Path) : Lean.Json := .arr (l.map fun p => Lean.Json.str (showPath p)).toArray

def showBD (b : FB.BuildDirs.BD) : Lean.Json :=
  Json.mkObj [("counts", .arr (b.counts.map fun (d, n) => Lean.Json.arr #[.str (showPath d), .num (.fromNat n)]).toArray),
    ("created", showPaths b.created), ("errorCreated", showPaths b.errorCreated), ("removedDirs", showPaths b.removedDirs),
    ("existsDirs", showPaths b.existsDirs), ("maybeRemoved", showPaths b.maybeRemoved), ("removedFiles", showPaths b.removedFiles)]

def getPaths (j : Lean.Json) : Except String (List Path) := do
  (← j.getArr?).toList.mapM fun x => do pure (parsePath (← x.getStr?))

/-- the `BuildDirs` data structure (`FB.BuildDirs`) over a fixed tree: run a command sequence, print every
    state and return value -/
def runBD (j : Lean.Json) : Except String Lean.Json := do
  let fs ← parseTree (← j.getObjVal? "tree")
  let oldDirs ← getPaths (← j.getObjVal? "oldDirs")
  let oldFiles ← getPaths (← j.getObjVal? "oldFiles")
  let cmds ← (← j.getObjVal? "cmds").getArr?
  let mut b : Option FB.BuildDirs.BD := some (FB.BuildDirs.init oldDirs oldFiles)
  let mut outs : Array Lean.Json := #[]
  for cmd in cmds do
    let a ← cmd.getArr?
    let k ← (a[0]?.getD Lean.Json.null).getStr?
    let p := parsePath (← (a[1]?.getD Lean.Json.null).getStr?)
    match b with
    | none => outs := outs.push (.str "dead")
    | some st =>
      match k with
      | "isRemoved" =>
        match FB.BuildDirs.isRemoved fs st p with
        | none => outs := outs.push (.str "KeyError"); b := none
        | some (st', r) => outs := outs.push (Json.mkObj [("state", showBD st'), ("ret", .bool r)]); b := some st'
      | "exists" =>
        let st' := FB.BuildDirs.handleDirExists st p
        outs := outs.push (Json.mkObj [("state", showBD st'), ("ret", .null)]); b := some st'
      | "started" =>
        let cds ← getPaths (a[2]?.getD (Lean.Json.arr #[]))
        let (st', locked) := FB.BuildDirs.started st p cds
        outs := outs.push (Json.mkObj [("state", showBD st'), ("ret", showPaths locked)]); b := some st'
      | "error" =>
        match FB.BuildDirs.error st p with
        | none => outs := outs.push (.str "KeyError"); b := none
        | some st' => outs := outs.push (Json.mkObj [("state", showBD st'), ("ret", .null)]); b := some st'
      | x => throw s!"bad bd command {x}"
  return Json.mkObj [("outs", .arr outs)]

/-- `_sanitize_filename` (`FB.PathNorm.abspath`) on a list of spellings -/
def runPath (j : Lean.Json) : Except String Lean.Json := do
  let cwd ← (← (← j.getObjVal? "cwd").getArr?).toList.mapM (·.getStr?)
  let items ← (← j.getObjVal? "items").getArr?
  let outs ← items.toList.mapM fun it => do
    let a ← it.getArr?
    let n ← getNat (a[0]?.getD Lean.Json.null)
    let comps ← (← (a[1]?.getD Lean.Json.null).getArr?).toList.mapM (·.getStr?)
    let r := FB.PathNorm.abspath cwd n comps
    pure (Lean.Json.arr #[.num (.fromNat r.1), .arr (r.2.map Lean.Json.str).toArray])
  return Json.mkObj [("outs", .arr outs.toArray)]

/-- the undo log (`FB.Backups`, `file_backups.py`): a command sequence mixing the class's methods with
    environment actions on the tree; prints tree, log and return value after every command -/
def runBK (j : Lean.Json) : Except String Lean.Json := do
  let mut fs ← parseTree (← j.getObjVal? "tree")
  let cmds ← (← j.getObjVal? "cmds").getArr?
  let mut b : FB.Backups.BK := {}
  let mut outs : Array Lean.Json := #[]
  let showBK (b : FB.Backups.BK) : Lean.Json := Json.mkObj [
    ("saved", .arr (b.saved.map fun (p, e) => match e with
        | .file c m => Lean.Json.arr #[.str (showPath p), .str c, .num (.fromNat m)]
        | .dir => Lean.Json.arr #[.str (showPath p), .str "dir"]).toArray),
    ("absent", showPaths b.absent)]
  for cmd in cmds do
    let a ← cmd.getArr?
    let k ← (a[0]?.getD Lean.Json.null).getStr?
    let p := parsePath (← (a[1]?.getD (Lean.Json.str "")).getStr?)
    let mut ret : Lean.Json := .null
    match k with
    | "backup" =>
      if FB.Backups.backUpRaises fs p then ret := .str "NotADirectoryError"
      else
        let r := FB.Backups.backUpAndRemove fs b p
        fs := r.1; b := r.2.1; ret := .bool r.2.2
    | "absent" => b := FB.Backups.recordAbsent b p
    | "wasAbsent" => ret := .bool (FB.Backups.wasAbsent b p)
    | "restore" =>
      let r := FB.Backups.restoreAll fs b
      fs := r.1; b := r.2
    | "write" =>
      let c ← (a[2]?.getD Lean.Json.null).getStr?
      let m ← getNat (a[3]?.getD Lean.Json.null)
      if p ≠ [] ∧ fs.isDir p.dropLast ∧ ¬ fs.isDir p then fs := fs.set p (.file c m)
    | "mkdir" =>
      if p ≠ [] ∧ fs.isDir p.dropLast ∧ (fs.get p).isNone then fs := fs.set p .dir
    | "rmtree" =>
      if p ≠ [] then fs := fs.rmtree p
    | x => throw s!"bad bk command {x}"
    outs := outs.push (Json.mkObj [("tree", showTree fs), ("log", showBK b), ("ret", ret)])
  return Json.mkObj [("outs", .arr outs)]

/-- `SimpleOperationExecutor` (`FB.Overlay`): set the `BuildDirs` and `CreatedFiles` objects up by command
    sequences, then run queries (each with or without the overlay); print every answer and `BuildDirs` state -/
def runOV (j : Lean.Json) : Except String Lean.Json := do
  let fs ← parseTree (← j.getObjVal? "tree")
  let dirSize ← getNat (← j.getObjVal? "dirSize")
  let cacheFile := parsePath (← (← j.getObjVal? "cacheFile").getStr?)
  let building ← getPaths (← j.getObjVal? "building")
  let finished ← getPaths (← j.getObjVal? "finished")
  let oldCreated ← getPaths (← j.getObjVal? "oldCreated")
  let oldDirs ← getPaths (← j.getObjVal? "oldDirs")
  -- BuildDirs: constructor, then started/error commands
  let mut b : FB.BuildDirs.BD := FB.BuildDirs.init oldDirs oldCreated
  for cmd in (← (← j.getObjVal? "bdCmds").getArr?) do
    let a ← cmd.getArr?
    let k ← (a[0]?.getD Lean.Json.null).getStr?
    let p := parsePath (← (a[1]?.getD Lean.Json.null).getStr?)
    match k with
    | "started" =>
      let cds ← getPaths (a[2]?.getD (Lean.Json.arr #[]))
      b := (FB.BuildDirs.started b p cds).1
    | "error" =>
      match FB.BuildDirs.error b p with
      | some b' => b := b'
      | none => return Json.mkObj [("setup", .str "KeyError")]
    | x => throw s!"bad bd setup command {x}"
  -- CreatedFiles
  let mut cf : FB.CreatedFiles.CF := {}
  for cmd in (← (← j.getObjVal? "cfCmds").getArr?) do
    let a ← cmd.getArr?
    let k ← (a[0]?.getD Lean.Json.null).getStr?
    let p := parsePath (← (a[1]?.getD Lean.Json.null).getStr?)
    let next := match k with
      | "s" => FB.CreatedFiles.step cf (.started p)
      | "f" => FB.CreatedFiles.step cf (.finished p)
      | _ => FB.CreatedFiles.step cf (.error p)
    match next with
    | some c' => cf := c'
    | none => return Json.mkObj [("setup", .str "KeyError")]
  let mut outs : Array Lean.Json := #[]
  let mut dead := false
  for qj in (← (← j.getObjVal? "queries").getArr?) do
    let a ← qj.getArr?
    let q ← parseQuery (a.extract 0 4)
    let useCf ← (a[4]?.getD (Lean.Json.bool false)).getBool?
    if dead then outs := outs.push (.str "dead") else
    let ctx : FB.Overlay.Ctx := { fs, dirSize, cacheFile, building, finished, oldCreated, cf := if useCf then some cf else none }
    match FB.Overlay.exec ctx b q with
    | none => outs := outs.push (.str "KeyError"); dead := true
    | some (r, b') =>
      let rj := match r with
        | .ok v => Json.mkObj [("ok", showJson v)]
        | .error e => Json.mkObj [("exc", .str e.name)]
      outs := outs.push (Json.mkObj [("res", rj), ("state", showBD b')])
      b := b'
  return Json.mkObj [("outs", .arr outs)]

/-- `_roll_back` (`FB.Rollback`) on a captured state: tree at the moment of the failure + bookkeeping -/
def runRB (j : Lean.Json) : Except String Lean.Json := do
  let fs ← parseTree (← j.getObjVal? "tree")
  let createdDirs ← getPaths (← j.getObjVal? "createdDirs")
  let newOutputs ← getPaths (← j.getObjVal? "newOutputs")
  let oldOutputs ← getPaths (← j.getObjVal? "oldOutputs")
  let oldCreatedDirs ← getPaths (← j.getObjVal? "oldCreatedDirs")
  let absent ← getPaths (← j.getObjVal? "absent")
  let saved ← (← (← j.getObjVal? "saved").getArr?).toList.mapM fun x => do
    let a ← x.getArr?
    let p := parsePath (← (a[0]?.getD Lean.Json.null).getStr?)
    let c ← (a[1]?.getD Lean.Json.null).getStr?
    let m ← getNat (a[2]?.getD Lean.Json.null)
    pure (p, FB.Entry.file c m)
  let r : FB.Rollback.RB := { createdDirs, newOutputs, oldOutputs, oldCreatedDirs, bk := { saved, absent } }
  return Json.mkObj [("tree", showTree (FB.Rollback.rollBack fs r))]

/-- `_prepare_file_creation` (`FB.PrepareF`): `_make_room` where the target is an unknown directory, then `_make_dirs`;
    the `failAt`-th mutating call of either fails -/
def runPR (j : Lean.Json) : Except String Lean.Json := do
  let fs ← parseTree (← j.getObjVal? "tree")
  let target := parsePath (← (← j.getObjVal? "target").getStr?)
  let dirs ← getPaths (← j.getObjVal? "dirs")
  let oldCreated ← getPaths (← j.getObjVal? "oldCreated")
  let virtDirs ← getPaths (← j.getObjVal? "virtDirs")
  let virtFiles ← getPaths (← j.getObjVal? "virtFiles")
  let k ← (← j.getObjVal? "failAt").getNat?
  let o := FB.PrepareF.prepare (fun p => virtDirs.contains p) (fun p => virtFiles.contains p) oldCreated (some k) 64 fs {} target dirs
  return Json.mkObj [
    ("outcome", .str (match o.kind with | .ok => "ok" | .isADir => "IsADirectoryError" | .osError => "OSError")),
    ("tree", showTree o.st.fs), ("calls", .num (.fromNat o.n)),
    ("saved", .arr (o.st.bk.saved.map fun (p, e) => match e with
        | .file c m => Lean.Json.arr #[.str (showPath p), .str c, .num (.fromNat m)]
        | .dir => Lean.Json.arr #[.str (showPath p), .str "dir"]).toArray)]

/-- `_commit` (`FB.Commit`): the physical tree, the answers of the virtual tree, the bookkeeping it reads -/
def runCM (j : Lean.Json) : Except String Lean.Json := do
  let fs ← parseTree (← j.getObjVal? "tree")
  let cf := parsePath (← (← j.getObjVal? "cf").getStr?)
  let oldFiles ← getPaths (← j.getObjVal? "oldFiles")
  let oldDirs ← getPaths (← j.getObjVal? "oldDirs")
  let errDirs ← getPaths (← j.getObjVal? "errDirs")
  let virtFiles ← getPaths (← j.getObjVal? "virtFiles")
  let virtDirs ← getPaths (← j.getObjVal? "virtDirs")
  return Json.mkObj [("tree", showTree (FB.Commit.commit (fun p => virtFiles.contains p) (fun p => virtDirs.contains p) cf
    oldFiles oldDirs errDirs fs))]

/-- `_make_dirs` (`FB.MakeDirs`): directories to make, old outputs, optional fault at the k-th `mkdir` -/
def runMD (j : Lean.Json) : Except String Lean.Json := do
  let fs ← parseTree (← j.getObjVal? "tree")
  let dirs ← getPaths (← j.getObjVal? "dirs")
  let oldCreated ← getPaths (← j.getObjVal? "oldCreated")
  let failAt : Option Nat := match j.getObjVal? "failAt" with
    | .ok (.num n) => some n.mantissa.toNat
    | _ => none
  let showSt (st : FB.MakeDirs.St) (kind : String) : Lean.Json := Json.mkObj [
    ("outcome", .str kind), ("tree", showTree st.fs), ("made", showPaths st.made),
    ("saved", .arr (st.bk.saved.map fun (p, e) => match e with
        | .file c m => Lean.Json.arr #[.str (showPath p), .str c, .num (.fromNat m)]
        | .dir => Lean.Json.arr #[.str (showPath p), .str "dir"]).toArray)]
  match (j.getObjVal? "failAny").toOption with
  | some fa =>
    -- C14: the k-th mutating call - a mkdir or the rename that moves an old output aside - fails (`FB.MakeDirsF`)
    let k ← fa.getNat?
    match FB.MakeDirsF.makeDirs fs {} dirs oldCreated (some k) with
    | .ok (st, n) => return (showSt st "ok").setObjVal! "calls" (.num (.fromNat n))
    | .error (st, n) => return (showSt st "OSError").setObjVal! "calls" (.num (.fromNat n))
  | none =>
  match FB.MakeDirs.makeDirs fs {} dirs oldCreated failAt with
  | .ok st => return showSt st "ok"
  | .error st => return showSt st "OSError"

/-- `_make_room` (`FB.MakeRoom`): the directory to clear, and which paths exist in the virtual tree -/
def runMR (j : Lean.Json) : Except String Lean.Json := do
  let fs ← parseTree (← j.getObjVal? "tree")
  let d := parsePath (← (← j.getObjVal? "dir").getStr?)
  let virtDirs ← getPaths (← j.getObjVal? "virtDirs")
  let virtFiles ← getPaths (← j.getObjVal? "virtFiles")
  let showSt (st : FB.MakeRoom.St) (kind : String) : Lean.Json := Json.mkObj [
    ("outcome", .str kind), ("tree", showTree st.fs),
    ("saved", .arr (st.bk.saved.map fun (p, e) => match e with
        | .file c m => Lean.Json.arr #[.str (showPath p), .str c, .num (.fromNat m)]
        | .dir => Lean.Json.arr #[.str (showPath p), .str "dir"]).toArray)]
  match (j.getObjVal? "failAt").toOption with
  | some fa =>
    -- C14: the `failAt`-th mutating call (rename of a file moved aside, rmdir) fails with OSError (`FB.MakeRoomF`)
    let k ← fa.getNat?
    match FB.MakeRoomF.makeRoom (fun p => virtDirs.contains p) (fun p => virtFiles.contains p) (some k) 64 { st := { fs := fs, bk := {} } } d with
    | .ok c => return (showSt c.st "ok").setObjVal! "calls" (.num (.fromNat c.n))
    | .error c => return (showSt c.st (if c.raw then "OSError" else "IsADirectoryError")).setObjVal! "calls" (.num (.fromNat c.n))
  | none =>
  match FB.MakeRoom.makeRoom (fun p => virtDirs.contains p) (fun p => virtFiles.contains p) 64 { fs := fs, bk := {} } d with
  | .ok st => return showSt st "ok"
  | .error st => return showSt st "IsADirectoryError"

def handle (line : String) : Lean.Json :=
  match Lean.Json.parse line with
  | .error e => Json.mkObj [("bad-op", .str e)]
  | .ok j =>
    let id := (j.getObjVal? "id").toOption.getD .null
    let r : Except String Lean.Json := do
      match ← (← j.getObjVal? "kind").getStr? with
      | "hist" => runHist j
      | "json" => runJsonUnit j
      | "conc" => runConc j
      | "codec" => runCodec j
      | "cf" => runCF j
      | "bd" => runBD j
      | "path" => runPath j
      | "bk" => runBK j
      | "ov" => runOV j
      | "rb" => runRB j
      | "md" => runMD j
      | "mr" => runMR j
      | "cm" => runCM j
      | "pr" => runPR j
      | "heap" => FB.Heap.heapRequest j
      | k => throw s!"unknown kind {k}"
    match r with
    | .ok out => out.setObjVal! "id" id
    | .error e => Json.mkObj [("bad-op", .str e), ("id", id)]

partial def loop (h : IO.FS.Stream) (out : IO.FS.Stream) : IO Unit := do
  let line ← h.getLine
  if line.isEmpty then return ()
  if line.trimAscii.isEmpty then loop h out else
  out.putStrLn (handle line).compress
  loop h out

def main : IO Unit := do
  let out ← IO.getStdout
  loop (← IO.getStdin) out
  out.flush
