/-
  Frame lemmas for the abstract tree FB.FS: an operation at `p` changes nothing elsewhere.
-/
import FB.FS
namespace FB
namespace FS

theorem get_nil (fs : FS) : fs.get [] = some .dir := by
  cases fs <;> simp [get]

theorem get_cons (q : Path) (e : Entry) (r : FS) (p : Path) (hp : p ≠ []) :
    get ((q, e) :: r) p = if q = p then some e else get r p := by
  simp [get, hp]

theorem get_erase_self (fs : FS) (p : Path) (hp : p ≠ []) : (fs.erase p).get p = none := by
  induction fs with
  | nil => simp [erase, get, hp]
  | cons x r ih =>
    obtain ⟨q, e⟩ := x
    by_cases h : q = p
    · subst h; simpa [erase, List.filter] using ih
    · simp only [erase, List.filter, ne_eq, h, not_false_eq_true, decide_true]
      rw [get_cons _ _ _ _ hp]; simp only [h, if_false]; exact ih

theorem get_erase_ne (fs : FS) (p q : Path) (h : q ≠ p) : (fs.erase p).get q = fs.get q := by
  by_cases hq : q = []
  · subst hq; simp [get_nil]
  induction fs with
  | nil => simp [erase, get]
  | cons x r ih =>
    obtain ⟨a, e⟩ := x
    by_cases ha : a = p
    · subst ha
      simp only [erase, List.filter, ne_eq, not_true_eq_false, decide_false]
      rw [get_cons _ _ _ _ hq]
      have : ¬ a = q := fun e => h e.symm
      simp only [this, if_false]; exact ih
    · simp only [erase, List.filter, ne_eq, ha, not_false_eq_true, decide_true]
      rw [get_cons _ _ _ _ hq, get_cons _ _ _ _ hq]
      split
      · rfl
      · exact ih

theorem get_set_self (fs : FS) (p : Path) (e : Entry) (hp : p ≠ []) : (fs.set p e).get p = some e := by
  simp [set, get_cons _ _ _ _ hp]

theorem get_set_ne (fs : FS) (p q : Path) (e : Entry) (h : q ≠ p) : (fs.set p e).get q = fs.get q := by
  by_cases hq : q = []
  · subst hq; simp [get_nil]
  · simp only [set]; rw [get_cons _ _ _ _ hq]
    have : ¬ p = q := fun e => h e.symm
    simp only [this, if_false]; exact get_erase_ne fs p q h

/-- `mkdir` only adds a directory at `p`, and only where nothing was -/
theorem get_mkdir (fs fs' : FS) (p q : Path) (h : fs.mkdir p = .ok fs') :
    fs'.get q = if q = p then some .dir else fs.get q := by
  unfold mkdir at h
  split at h
  · cases h
  · rename_i hp
    split at h <;> try cases h
    split at h <;> try cases h
    by_cases hq : q = p
    · subst hq; simp [get_set_self _ _ _ hp]
    · simp [hq, get_set_ne _ _ _ _ hq]

theorem mkdir_absent (fs fs' : FS) (p : Path) (h : fs.mkdir p = .ok fs') : fs.get p = none := by
  unfold mkdir at h
  split at h
  · cases h
  · split at h <;> try cases h
    split at h <;> try cases h
    assumption

/-- `rmdir` only removes the directory at `p` -/
theorem get_rmdir (fs fs' : FS) (p q : Path) (h : fs.rmdir p = .ok fs') :
    fs'.get q = if q = p then none else fs.get q := by
  unfold rmdir at h
  split at h
  · cases h
  · rename_i hp
    split at h <;> try cases h
    split at h <;> try cases h
    by_cases hq : q = p
    · subst hq; simp [get_erase_self _ _ hp]
    · simp [hq, get_erase_ne _ _ _ hq]

theorem rmdir_was_empty_dir (fs fs' : FS) (p : Path) (h : fs.rmdir p = .ok fs') :
    fs.get p = some .dir ∧ fs.childNames p = [] := by
  unfold rmdir at h
  split at h
  · cases h
  · split at h <;> try cases h
    rename_i hg
    split at h <;> try cases h
    rename_i hc
    exact ⟨hg, hc⟩

theorem isFile_root (fs : FS) : fs.isFile [] = false := by simp [isFile, get_nil]

theorem isFile_erase_self (fs : FS) (p : Path) : (fs.erase p).isFile p = false := by
  by_cases hp : p = []
  · subst hp; exact isFile_root _
  · simp [isFile, get_erase_self _ _ hp]

/-- "delete the file if it is there" leaves no regular file at `p` -/
theorem isFile_eraseIfFile (fs : FS) (p : Path) :
    (if fs.isFile p = true then fs.erase p else fs).isFile p = false := by
  by_cases hf : fs.isFile p = true
  · rw [if_pos hf]; exact isFile_erase_self fs p
  · rw [if_neg hf]; simpa using hf

end FS
end FB
