/-
  What a from-scratch run (`Spec.run`) leaves alone: the pending content of targets that are already
  claimed by an enclosing call, and the set of claims only grows.
-/
import FB.Lemmas.Spec
namespace FB
open FS Spec

theorem pendingFind_cons_ne (p q : Path) (b : String) (m : Nat) (pend : List (Path × String × Nat))
    (h : p ≠ q) : pendingFind ((p, b, m) :: pend) q = pendingFind pend q := by
  simp [pendingFind, List.find?, h]

theorem pendingFind_cons_self (p : Path) (b : String) (m : Nat) (pend : List (Path × String × Nat)) :
    pendingFind ((p, b, m) :: pend) p = some (b, m) := by
  simp [pendingFind, List.find?]

theorem pendingFind_filter_ne (path q : Path) (pend : List (Path × String × Nat)) (h : q ≠ path) :
    pendingFind (pend.filter (fun x => x.1 ≠ path)) q = pendingFind pend q := by
  induction pend with
  | nil => rfl
  | cons x r ih =>
    obtain ⟨p, b, m⟩ := x
    by_cases hp : p = path
    · subst hp
      have : ¬ (p ≠ p) := by simp
      simp only [List.filter, ne_eq, not_true_eq_false, decide_false]
      rw [ih, pendingFind_cons_ne _ _ _ _ _ (Ne.symm h)]
    · simp only [List.filter, ne_eq, hp, not_false_eq_true, decide_true]
      by_cases hq : p = q
      · subst hq; simp [pendingFind, List.find?]
      · rw [pendingFind_cons_ne _ _ _ _ _ hq, pendingFind_cons_ne _ _ _ _ _ hq, ih]

theorem bfSetup_ok_fields (s s1 : SpecSt) (path : Path) (made : List Path)
    (h : bfSetup s path = .ok (s1, made)) :
    s1 = setupState s path made ∧ path ∉ s.claimedFiles ∧ path ≠ s.cacheFile ∧ s.fs.isDir path = false ∧
    dirsToMake (visible s) s.cacheFile s.inProg path.dropLast = .ok made ∧ path ∉ s.failFiles := by
  unfold bfSetup at h
  split at h; · cases h
  rename_i hc
  split at h; · cases h
  rename_i hcf
  split at h; · cases h
  rename_i hd
  split at h; · cases h
  rename_i ds hdm
  split at h; · cases h
  rename_i hff
  split at h; · cases h
  simp only [Except.ok.injEq, Prod.mk.injEq] at h
  obtain ⟨h1, h2⟩ := h
  subst h2
  exact ⟨h1.symm, by simpa using hc, hcf, by simpa using hd, hdm, by simpa using hff⟩

theorem bfFinish_claimed (s : SpecSt) (path : Path) (made : List Path) (r : CallRes) :
    (bfFinish s path made r).2.claimedFiles = s.claimedFiles := by
  unfold bfFinish
  cases r with
  | error e => rfl
  | ok j => simp only; split <;> rfl

theorem bfFinish_pending (s : SpecSt) (path : Path) (made : List Path) (r : CallRes) :
    (bfFinish s path made r).2.pending = s.pending.filter (fun x => x.1 ≠ path) := by
  unfold bfFinish
  cases r with
  | error e => rfl
  | ok j => simp only; split <;> rfl

/-- A from-scratch run does not touch what an enclosing call has written into its (claimed) target,
    and never un-claims anything. -/
theorem run_keeps_claimed (prog : Prog) : ∀ (t : Option Path) (sp : SpecSt),
    (∀ x ∈ sp.claimedFiles, x ∈ (run prog t sp).2.1.claimedFiles) ∧
    (∀ q ∈ sp.claimedFiles, t ≠ some q →
      pendingFind (run prog t sp).2.1.pending q = pendingFind sp.pending q) := by
  induction prog with
  | ret v =>
    intro t sp
    simp only [run]
    split <;> exact ⟨fun _ h => h, fun _ _ _ => rfl⟩
  | raise e => intro t sp; exact ⟨fun _ h => h, fun _ _ _ => rfl⟩
  | query q k ih => intro t sp; simp only [run]; exact ih _ t sp
  | write b mt k ih =>
    intro t sp
    simp only [run]
    cases t with
    | none => exact ih none sp
    | some p =>
      simp only
      have := ih (some p) { sp with pending := (p, b, mt.getD sp.clock) :: sp.pending, clock := sp.clock + 1 }
      refine ⟨this.1, fun q hq hne => ?_⟩
      rw [this.2 q hq hne]
      exact pendingFind_cons_ne _ _ _ _ _ (fun e => hne (by rw [e]))
  | buildFile path cmp fname args kwargs body k ihb ihk =>
    intro t sp
    simp only [run]
    cases hs : bfSetup sp path with
    | error e =>
      simp only
      exact ihk _ t (setupFailState sp path e)
    | ok r =>
      obtain ⟨s1, made⟩ := r
      simp only
      obtain ⟨hs1, hncl, _, _, _, _⟩ := bfSetup_ok_fields _ _ _ _ hs
      subst hs1
      generalize hst : ({ setupState sp path made with
        invLog := { fname := fname, target := some path, args := args, kwargs := kwargs } ::
          (setupState sp path made).invLog } : SpecSt) = s1'
      have hcl1 : ∀ x ∈ sp.claimedFiles, x ∈ s1'.claimedFiles := by
        intro x hx; subst hst; simp [setupState, hx]
      have hpend1 : s1'.pending = sp.pending := by subst hst; rfl
      have hb := ihb (some path) s1'
      generalize hrb : run body (some path) s1' = rb at hb ⊢
      obtain ⟨r2, sp2, tr2⟩ := rb
      simp only at hb ⊢
      generalize hfin : bfFinish sp2 path made r2 = fin
      obtain ⟨r3, sp3⟩ := fin
      simp only
      have hcl3 : ∀ x ∈ sp2.claimedFiles, x ∈ sp3.claimedFiles := by
        intro x hx
        have : sp3.claimedFiles = sp2.claimedFiles := by
          have := bfFinish_claimed sp2 path made r2
          rw [hfin] at this; exact this
        rw [this]; exact hx
      have hpend3 : ∀ q, q ≠ path → pendingFind sp3.pending q = pendingFind sp2.pending q := by
        intro q hq
        have : sp3.pending = sp2.pending.filter (fun x => x.1 ≠ path) := by
          have := bfFinish_pending sp2 path made r2
          rw [hfin] at this; exact this
        rw [this]; exact pendingFind_filter_ne _ _ _ hq
      have hk := ihk r3 t sp3
      refine ⟨fun x hx => hk.1 x (hcl3 x (hb.1 x (hcl1 x hx))), fun q hq hne => ?_⟩
      have hqp : q ≠ path := fun e => hncl (e ▸ hq)
      rw [hk.2 q (hcl3 q (hb.1 q (hcl1 q hq))) hne, hpend3 q hqp,
        hb.2 q (hcl1 q hq) (fun e => hqp (by injection e with e; exact e.symm)), hpend1]
  | subbuild fname args kwargs body k ihb ihk =>
    intro t sp
    simp only [run]
    split
    · exact ihk _ t sp
    · split
      · exact ihk _ t (consumeSubFault sp _)
      · generalize hs1 : ({ sp with
          claimedSubs := subKey fname args kwargs :: sp.claimedSubs,
          invLog := { fname := fname, target := none, args := args, kwargs := kwargs } :: sp.invLog } : SpecSt) = s1
        have hb := ihb none s1
        generalize hrb : run body none s1 = rb at hb ⊢
        obtain ⟨r2, sp2, tr2⟩ := rb
        simp only at hb ⊢
        have hk := ihk r2 t sp2
        have hcl1 : ∀ x ∈ sp.claimedFiles, x ∈ s1.claimedFiles := by intro x hx; subst hs1; exact hx
        have hp1 : s1.pending = sp.pending := by subst hs1; rfl
        refine ⟨fun x hx => hk.1 x (hb.1 x (hcl1 x hx)), fun q hq hne => ?_⟩
        rw [hk.2 q (hb.1 q (hcl1 q hq)) hne, hb.2 q (hcl1 q hq) (by simp), hp1]

end FB
