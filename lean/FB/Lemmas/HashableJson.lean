/-
  `to_hashable` of JSON values: equal hashable forms iff JSON-equal (helper lemmas for Props/C18).
-/
import FB.Lemmas.Hashable
namespace FB

theorem keysDistinct_iff_nodup (l : List (String × Json)) : keysDistinct l = true ↔ (keysOf l).Nodup := by
  induction l with
  | nil => simp [keysDistinct, keysOf]
  | cons x r ih =>
    obtain ⟨k, v⟩ := x
    simp only [keysDistinct, Bool.and_eq_true, Bool.not_eq_true', keysOf, List.map_cons, List.nodup_cons]
    rw [ih]
    constructor
    · rintro ⟨h1, h2⟩
      refine ⟨?_, h2⟩
      intro hm
      obtain ⟨y, hy, e⟩ := List.mem_map.mp hm
      have : (r.any fun x => x.1 == k) = true := List.any_eq_true.mpr ⟨y, hy, by simp [e]⟩
      rw [h1] at this; cases this
    · rintro ⟨h1, h2⟩
      refine ⟨?_, h2⟩
      cases ha : (r.any fun x => x.1 == k) with
      | false => rfl
      | true =>
        exfalso
        obtain ⟨y, hy, e⟩ := List.any_eq_true.mp ha
        exact h1 (List.mem_map.mpr ⟨y, hy, by simpa using e⟩)

theorem keysOf_toHO (l : List (String × Json)) : keysOf (toHO l) = keysOf l := by
  induction l with
  | nil => rfl
  | cons x r ih => obtain ⟨k, v⟩ := x; simp only [toHO, keysOf, List.map_cons] at ih ⊢; rw [ih]

theorem length_toHO (l : List (String × Json)) : (toHO l).length = l.length := by
  induction l with
  | nil => rfl
  | cons x r ih => obtain ⟨k, v⟩ := x; simp [toHO, ih]

theorem heqL_num_flatten (n : Num) (l : List H) (X : HA) : heqL (.num n :: l) (flattenKV X) = false := by
  cases X with
  | nil => simp [flattenKV, heqL]
  | cons x r => obtain ⟨k, h⟩ := x; simp [flattenKV, heqL, heq]

theorem heqL_flatten_num (n : Num) (l : List H) (X : HA) : heqL (flattenKV X) (.num n :: l) = false := by
  cases X with
  | nil => simp [flattenKV, heqL]
  | cons x r => obtain ⟨k, h⟩ := x; simp [flattenKV, heqL, heq]

theorem numEq_01 : (Num.int 0).eq (Num.int 1) = false ∧ (Num.int 0).eq (Num.int 2) = false ∧
    (Num.int 1).eq (Num.int 0) = false ∧ (Num.int 2).eq (Num.int 0) = false ∧
    (Num.int 1).eq (Num.int 2) = false ∧ (Num.int 2).eq (Num.int 1) = false ∧
    (Num.int 0).eq (Num.int 0) = true ∧ (Num.int 1).eq (Num.int 1) = true ∧ (Num.int 2).eq (Num.int 2) = true := by
  decide

end FB
