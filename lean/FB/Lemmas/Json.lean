/-
  Helper lemmas about FB.Json (used by Props/C18 and Props/C07).
-/
import FB.Json
namespace FB

/-- keys of an object are pairwise distinct -/
def keysDistinct : List (String × Json) → Bool
  | [] => true
  | (k, _) :: r => !(r.any (fun x => x.1 == k)) && keysDistinct r

mutual
/-- "sanitized": what `json.loads(json.dumps(v))` can return — no tuples, distinct keys -/
def Json.wf : Json → Bool
  | .arr xs => Json.wfL xs
  | .tup _ => false
  | .obj kvs => Json.wfO kvs && keysDistinct kvs
  | _ => true
def Json.wfL : List Json → Bool
  | [] => true
  | x :: xs => x.wf && Json.wfL xs
def Json.wfO : List (String × Json) → Bool
  | [] => true
  | (_, v) :: r => v.wf && Json.wfO r
end

def hasKey (k : String) (kvs : List (String × Json)) : Bool := kvs.any (fun x => x.1 == k)

theorem hasKey_dictSet (k k' : String) (v : Json) (acc : List (String × Json)) :
    hasKey k' (dictSet k v acc) = (hasKey k' acc || k == k') := by
  induction acc with
  | nil => simp [dictSet, hasKey]
  | cons a r ih =>
    obtain ⟨ka, va⟩ := a
    simp only [dictSet]
    split
    · rename_i h; subst h; simp [hasKey, List.any_cons, Bool.or_comm]
    · simp only [hasKey, List.any_cons] at ih ⊢
      rw [ih]; simp [Bool.or_assoc]

theorem keysDistinct_dictSet (k : String) (v : Json) (acc : List (String × Json))
    (h : keysDistinct acc = true) : keysDistinct (dictSet k v acc) = true := by
  induction acc with
  | nil => simp [dictSet, keysDistinct]
  | cons a r ih =>
    obtain ⟨ka, va⟩ := a
    simp only [keysDistinct, Bool.and_eq_true, Bool.not_eq_true'] at h
    simp only [dictSet]
    split
    · rename_i hk; subst hk
      simp only [keysDistinct, Bool.and_eq_true, Bool.not_eq_true']
      exact h
    · rename_i hk
      simp only [keysDistinct, Bool.and_eq_true, Bool.not_eq_true']
      refine ⟨?_, ih h.2⟩
      have := hasKey_dictSet k ka v r
      simp only [hasKey] at this
      rw [this, h.1]
      simp; exact hk

theorem wfO_dictSet (k : String) (v : Json) (acc : List (String × Json))
    (hv : v.wf = true) (h : Json.wfO acc = true) : Json.wfO (dictSet k v acc) = true := by
  induction acc with
  | nil => simp [dictSet, Json.wfO, hv]
  | cons a r ih =>
    obtain ⟨ka, va⟩ := a
    simp only [Json.wfO, Bool.and_eq_true] at h
    simp only [dictSet]
    split
    · simp [Json.wfO, hv, h.2]
    · simp [Json.wfO, h.1, ih h.2]

theorem dictSet_append_of_not_hasKey (k : String) (v : Json) (acc : List (String × Json))
    (h : hasKey k acc = false) : dictSet k v acc = acc ++ [(k, v)] := by
  induction acc with
  | nil => simp [dictSet]
  | cons a r ih =>
    obtain ⟨ka, va⟩ := a
    simp only [hasKey, List.any_cons, Bool.or_eq_false_iff] at h
    simp only [dictSet]
    have hne : ¬ k = ka := by
      intro e; subst e; simp at h
    simp only [hne, if_false, List.cons_append]
    congr 1
    exact ih (by simpa [hasKey] using h.2)

end FB
