/-
  Auxiliary lemmas for the soundness of replay (Props/C01).
-/
import FB.Lemmas.ReplayBasic
import FB.Lemmas.RunPending
namespace FB
open FS Spec

theorem Entry.sim_trans {a b c : Option Entry} (h1 : Entry.sim a b) (h2 : Entry.sim b c) : Entry.sim a c := by
  cases a with
  | none => cases b with
    | none => exact h2
    | some y => cases y <;> simp [Entry.sim] at h1
  | some x => cases b with
    | none => cases x <;> simp [Entry.sim] at h1
    | some y => cases c with
      | none => cases y <;> simp [Entry.sim] at h2
      | some z => cases x <;> cases y <;> cases z <;> simp_all [Entry.sim]

theorem SpecSt.Sim.trans {a b c : SpecSt} (h1 : SpecSt.Sim a b) (h2 : SpecSt.Sim b c) : SpecSt.Sim a c :=
  ⟨fun p => Entry.sim_trans (h1.fs p) (h2.fs p), h1.cacheFile.trans h2.cacheFile, h1.dirSize.trans h2.dirSize,
   h1.claimedFiles.trans h2.claimedFiles, h1.claimedSubs.trans h2.claimedSubs, h1.inProg.trans h2.inProg,
   h1.outputs.trans h2.outputs, h1.createdDirs.trans h2.createdDirs, h1.failFiles.trans h2.failFiles,
   h1.failSubs.trans h2.failSubs⟩

theorem SpecSt.Sim.refl (a : SpecSt) : SpecSt.Sim a a :=
  ⟨FS.Sim.refl _, rfl, rfl, rfl, rfl, rfl, rfl, rfl, rfl, rfl⟩

theorem dirsToMake_length (vfs : FS) (cf : Path) (bl : List Path) (d : Path) (made : List Path)
    (h : dirsToMake vfs cf bl d = .ok made) : ∀ x ∈ made, x.length ≤ d.length := by
  induction hn : d.length using Nat.strong_induction_on generalizing d made with
  | _ n ih =>
    rw [dirsToMake] at h
    by_cases hd : d = []
    · simp [hd] at h; subst h; intro x hx; cases hx
    · simp only [hd, dite_false] at h
      split at h
      · simp at h; subst h; intro x hx; cases hx
      · split at h
        · cases h
        · split at h
          · cases h
          · split at h
            · cases h
            · split at h
              · cases h
              · rename_i r hr
                simp at h; subst h
                have hlen : d.dropLast.length = d.length - 1 := List.length_dropLast
                have hlt : d.dropLast.length < n := by
                  rw [← hn, hlen]
                  have : d.length ≠ 0 := by simpa using hd
                  omega
                intro x hx
                rcases List.mem_append.mp hx with hx | hx
                · have := ih _ hlt d.dropLast r hr rfl x hx
                  omega
                · simp at hx; subst hx; omega

/-- the target itself is never among the directories made for it -/
theorem path_not_in_made (vfs : FS) (cf : Path) (bl : List Path) (path : Path) (made : List Path)
    (hp : path ≠ []) (h : dirsToMake vfs cf bl path.dropLast = .ok made) : path ∉ made := by
  intro hm
  have := dirsToMake_length _ _ _ _ _ h path hm
  rw [List.length_dropLast] at this
  have : path.length ≠ 0 := by simpa using hp
  omega

theorem pendingFind_filter_self (path : Path) (pend : List (Path × String × Nat)) :
    pendingFind (pend.filter (fun x => x.1 ≠ path)) path = none := by
  induction pend with
  | nil => rfl
  | cons x r ih =>
    obtain ⟨p, b, m⟩ := x
    by_cases hp : p = path
    · subst hp; simpa [List.filter] using ih
    · simp only [List.filter, ne_eq, hp, not_false_eq_true, decide_true]
      rw [pendingFind_cons_ne _ _ _ _ _ hp]; exact ih

/-- pending content exists only for claimed targets -/
def PendClaimed (sp : SpecSt) : Prop := ∀ q, q ∉ sp.claimedFiles → pendingFind sp.pending q = none

theorem isEqual_cmpResult_null (cmp : Cmp) (b : String) (m : Nat) :
    isEqual (View.cmpResult cmp b m) .null = false := by
  cases cmp <;> simp [View.cmpResult, isEqual]

/-- a leftover that matches a recorded comparison result is a regular file on the shelf -/
theorem outputMatches_shelf (s : KSt) (path : Path) (cmp : Cmp) (c : String) (m0 : Nat)
    (h : Impl.outputMatches s path cmp (View.cmpResult cmp c m0) = true) :
    path ≠ [] ∧ ∃ b m, s.shelf.get path = some (.file b m) ∧
      isEqual (View.cmpResult cmp c m0) (View.cmpResult cmp b m) = true := by
  unfold Impl.outputMatches Impl.cmpShelf at h
  cases hg : s.shelf.get path with
  | none => simp [hg, isEqual_cmpResult_null] at h
  | some e =>
    cases e with
    | dir => simp [hg, isEqual_cmpResult_null] at h
    | file b m =>
      simp only [hg] at h
      by_cases hp : path = []
      · simp [hp, isEqual_cmpResult_null] at h
      · simp only [hp, if_false] at h
        exact ⟨hp, b, m, rfl, h⟩

end FB
