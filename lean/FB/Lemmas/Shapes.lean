/-
  On the values the simple operations record, JSON equality (`isEqual`) is equality: two recorded
  answers that compare equal were the same answer.
-/
import FB.View
namespace FB

theorem Num.eq_int (a b : Int) : (Num.int a).eq (Num.int b) = true ↔ a = b := by
  simp [Num.eq, Num.key]

theorem isEqualL_strs (l l0 : List String) (h : isEqualL (l.map .str) (l0.map .str) = true) : l = l0 := by
  induction l generalizing l0 with
  | nil => cases l0 with
    | nil => rfl
    | cons _ _ => simp [isEqualL] at h
  | cons x r ih => cases l0 with
    | nil => simp [isEqualL] at h
    | cons y r0 =>
      simp only [List.map, isEqualL, isEqual, Bool.and_eq_true, beq_iff_eq] at h
      rw [h.1, ih r0 h.2]

theorem isEqual_strArr (l l0 : List String) (h : isEqual (strArr l) (strArr l0) = true) : l = l0 := by
  simp only [strArr, isEqual] at h
  exact isEqualL_strs l l0 h

/-- one entry of a `walk` result -/
def walkEntry (p : String) (ds fs : List String) : Json := .tup [.str p, strArr ds, strArr fs]

theorem isEqual_walkEntry (p p0 : String) (ds ds0 fs fs0 : List String)
    (h : isEqual (walkEntry p ds fs) (walkEntry p0 ds0 fs0) = true) : p = p0 ∧ ds = ds0 ∧ fs = fs0 := by
  simp only [walkEntry, isEqual, isEqualL, Bool.and_eq_true, beq_iff_eq, Bool.and_true] at h
  exact ⟨h.1, isEqual_strArr _ _ h.2.1, isEqual_strArr _ _ h.2.2⟩

def IsWalkList (l : List Json) : Prop := ∀ x ∈ l, ∃ p ds fs, x = walkEntry p ds fs

theorem isEqualL_walk (l l0 : List Json) (hl : IsWalkList l) (hl0 : IsWalkList l0)
    (h : isEqualL l l0 = true) : l = l0 := by
  induction l generalizing l0 with
  | nil => cases l0 with
    | nil => rfl
    | cons _ _ => simp [isEqualL] at h
  | cons x r ih => cases l0 with
    | nil => simp [isEqualL] at h
    | cons y r0 =>
      simp only [isEqualL, Bool.and_eq_true] at h
      obtain ⟨p, ds, fs, rfl⟩ := hl x (by simp)
      obtain ⟨p0, ds0, fs0, rfl⟩ := hl0 y (by simp)
      obtain ⟨h1, h2, h3⟩ := isEqual_walkEntry _ _ _ _ _ _ h.1
      subst h1 h2 h3
      rw [ih r0 (fun z hz => hl z (List.mem_cons_of_mem _ hz)) (fun z hz => hl0 z (List.mem_cons_of_mem _ hz)) h.2]

theorem isWalkList_walkAux (fuel : Nat) (fs : FS) (d : Path) (td : Bool) :
    IsWalkList (View.walkAux fuel fs d td) := by
  induction fuel generalizing d with
  | zero => intro x hx; simp [View.walkAux] at hx
  | succ n ih =>
    intro x hx
    simp only [View.walkAux] at hx
    have hbelow : ∀ y, y ∈ (List.filter (fun n => !fs.isFile (d ++ [n]) && fs.isDir (d ++ [n])) (View.names fs d)).flatMap
        (fun m => View.walkAux n fs (d ++ [m]) td) → ∃ p ds fs', y = walkEntry p ds fs' := by
      intro y hy
      obtain ⟨m, _, hm⟩ := List.mem_flatMap.mp hy
      exact ih _ y hm
    split at hx
    · rcases List.mem_cons.mp hx with rfl | hx
      · exact ⟨_, _, _, rfl⟩
      · exact hbelow x hx
    · rcases List.mem_append.mp hx with hx | hx
      · exact hbelow x hx
      · simp at hx; subst hx; exact ⟨_, _, _, rfl⟩

theorem isWalkList_walk (fs : FS) (d : Path) (td : Bool) : IsWalkList (View.walk fs d td) := by
  unfold View.walk
  split
  · exact isWalkList_walkAux _ _ _ _
  · intro x hx; cases hx

/-- for every query except `read`, two recorded values that are JSON-equal are equal -/
theorem recVal_isEqual_eq (ds : Nat) (f f0 : FS) (q : Query) (v v0 : Json)
    (hq : ∀ p c, q ≠ .read p c)
    (h : View.recVal ds f q = .ok v) (h0 : View.recVal ds f0 q = .ok v0)
    (he : isEqual v v0 = true) : v = v0 := by
  cases q with
  | isFile p =>
    simp [View.recVal] at h h0; subst h h0
    simp [isEqual] at he; rw [he]
  | isDir p =>
    simp [View.recVal] at h h0; subst h h0
    simp [isEqual] at he; rw [he]
  | exists_ p =>
    simp [View.recVal] at h h0; subst h h0
    simp [isEqual] at he; rw [he]
  | listDir p =>
    simp only [View.recVal] at h h0
    cases hl : View.listDir f p with
    | error e => simp [hl] at h
    | ok l =>
      cases hl0 : View.listDir f0 p with
      | error e => simp [hl0] at h0
      | ok l0 =>
        simp [hl] at h; simp [hl0] at h0
        subst h h0
        rw [isEqual_strArr _ _ he]
  | walk p td =>
    simp [View.recVal] at h h0; subst h h0
    simp only [isEqual] at he
    rw [isEqualL_walk _ _ (isWalkList_walk _ _ _) (isWalkList_walk _ _ _) he]
  | getSize p =>
    simp only [View.recVal] at h h0
    cases hl : View.getSize ds f p with
    | error e => simp [hl] at h
    | ok n =>
      cases hl0 : View.getSize ds f0 p with
      | error e => simp [hl0] at h0
      | ok n0 =>
        simp [hl] at h; simp [hl0] at h0
        subst h h0
        simp only [isEqual] at he
        have := (Num.eq_int _ _).mp he
        rw [this]
  | read p c => exact absurd rfl (hq p c)

/-- HASH comparison results are equal exactly when the bytes are (SHA-256 modelled as injective) -/
theorem cmpResult_hash_inj (b b0 : String) (m m0 : Nat)
    (h : isEqual (View.cmpResult .hash b m) (View.cmpResult .hash b0 m0) = true) : b = b0 := by
  simp only [View.cmpResult, isEqual, beq_iff_eq] at h
  have : ("sha:" ++ b).toList = ("sha:" ++ b0).toList := by rw [h]
  simp only [String.toList_append, List.append_cancel_left_eq] at this
  exact String.ext this

/-- METADATA comparison results are equal exactly when size and modification time are -/
theorem cmpResult_metadata_iff (b b0 : String) (m m0 : Nat) :
    isEqual (View.cmpResult .metadata b m) (View.cmpResult .metadata b0 m0) = true ↔
      (b.utf8ByteSize = b0.utf8ByteSize ∧ m = m0) := by
  simp [View.cmpResult, isEqual, subObj, lookupWith, Num.eq_int]
  omega

end FB
