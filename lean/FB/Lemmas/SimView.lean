/-
  Every answer user code can see is the same on trees that are equal up to modification times;
  `visible`, `dirsToMake`, `bfSetup` and `bfFinish` respect the relation.
-/
import FB.Lemmas.Sim
namespace FB
open FS Spec

namespace View

theorem sim_exists {a b : FS} (h : FS.Sim a b) (p : Path) : exists_ a p = exists_ b p := by
  simp [exists_, h.isFile, h.isDir]

theorem sim_names {a b : FS} (h : FS.Sim a b) (d : Path) : names a d = names b d := by
  unfold names
  rw [h.listdir d]
  congr 1
  funext n
  exact sim_exists h _

theorem sim_listDir {a b : FS} (h : FS.Sim a b) (d : Path) : listDir a d = listDir b d := by
  simp [listDir, h.isFile, h.isDir, sim_names h]

theorem sim_walkAux {a b : FS} (h : FS.Sim a b) (fuel : Nat) (d : Path) (td : Bool) :
    walkAux fuel a d td = walkAux fuel b d td := by
  induction fuel generalizing d with
  | zero => simp [walkAux]
  | succ n ih =>
    simp only [walkAux, sim_names h d]
    have hf : (fun n => a.isFile (d ++ [n])) = (fun n => b.isFile (d ++ [n])) := by
      funext n; exact h.isFile _
    have hd : (fun n => !a.isFile (d ++ [n]) && a.isDir (d ++ [n])) =
        (fun n => !b.isFile (d ++ [n]) && b.isDir (d ++ [n])) := by
      funext n; rw [h.isFile, h.isDir]
    rw [hf, hd]
    have hb : (fun n_1 => walkAux n a (d ++ [n_1]) td) = (fun n_1 => walkAux n b (d ++ [n_1]) td) := by
      funext m; exact ih _
    rw [hb]

theorem sim_walk {a b : FS} (h : FS.Sim a b) (d : Path) (td : Bool) : walk a d td = walk b d td := by
  simp [walk, h.isDir, sim_walkAux h]

theorem sim_getSize {a b : FS} (h : FS.Sim a b) (ds : Nat) (p : Path) : getSize ds a p = getSize ds b p := by
  have := h p
  unfold getSize
  cases ha : a.get p with
  | none => cases hb : b.get p <;> simp_all [Entry.sim]
  | some x => cases hb : b.get p with
    | none => cases x <;> simp_all [Entry.sim]
    | some y => cases x <;> cases y <;> simp_all [Entry.sim]

/-- what user code sees does not depend on modification times -/
theorem sim_answer {a b : FS} (h : FS.Sim a b) (ds : Nat) (q : Query) : answer ds a q = answer ds b q := by
  cases q with
  | isFile p => simp [answer, recVal, h.isFile]
  | isDir p => simp [answer, recVal, h.isDir]
  | exists_ p => simp [answer, recVal, sim_exists h]
  | listDir p => simp [answer, recVal, sim_listDir h]
  | walk p td => simp [answer, recVal, sim_walk h]
  | getSize p => simp [answer, recVal, sim_getSize h]
  | read p c =>
    have := h p
    simp only [answer]
    cases ha : a.get p with
    | none => cases hb : b.get p <;> simp_all [Entry.sim]
    | some x => cases hb : b.get p with
      | none => cases x <;> simp_all [Entry.sim]
      | some y => cases x <;> cases y <;> simp_all [Entry.sim]

end View

/-- the reference states of two runs that differ only in modification times, clocks, logs and in
    what the functions currently running have written so far -/
structure SpecSt.Sim (a b : SpecSt) : Prop where
  fs : FS.Sim a.fs b.fs
  cacheFile : a.cacheFile = b.cacheFile
  dirSize : a.dirSize = b.dirSize
  claimedFiles : a.claimedFiles = b.claimedFiles
  claimedSubs : a.claimedSubs = b.claimedSubs
  inProg : a.inProg = b.inProg
  outputs : a.outputs = b.outputs
  createdDirs : a.createdDirs = b.createdDirs
  failFiles : a.failFiles = b.failFiles
  failSubs : a.failSubs = b.failSubs

namespace Spec

theorem sim_foldl_erase (ps : List Path) {a b : FS} (h : FS.Sim a b) :
    FS.Sim (ps.foldl (fun fs p => fs.erase p) a) (ps.foldl (fun fs p => fs.erase p) b) := by
  induction ps generalizing a b with
  | nil => exact h
  | cons p r ih => exact ih (h.erase p)

theorem sim_visible {a b : SpecSt} (h : SpecSt.Sim a b) : FS.Sim (visible a) (visible b) := by
  unfold visible
  rw [h.inProg, h.cacheFile]
  exact (sim_foldl_erase _ h.fs).erase _

theorem sim_dirsToMake {a b : FS} (h : FS.Sim a b) (cf : Path) (bl : List Path) (d : Path) :
    dirsToMake a cf bl d = dirsToMake b cf bl d := by
  induction hn : d.length using Nat.strong_induction_on generalizing d with
  | _ n ih =>
    conv => lhs; rw [dirsToMake]
    conv => rhs; rw [dirsToMake]
    by_cases hd : d = []
    · simp [hd]
    · simp only [hd, dite_false, h.isDir, h.isFile]
      have hlt : d.dropLast.length < n := by
        rw [← hn, List.length_dropLast]
        have : d.length ≠ 0 := by simpa using hd
        omega
      rw [ih _ hlt d.dropLast rfl]

theorem sim_bfSetup {a b : SpecSt} (h : SpecSt.Sim a b) (path : Path) :
    (∃ e, bfSetup a path = .error e ∧ bfSetup b path = .error e) ∨
    (∃ a1 b1 made, bfSetup a path = .ok (a1, made) ∧ bfSetup b path = .ok (b1, made) ∧ SpecSt.Sim a1 b1 ∧
      a1.pending = a.pending ∧ b1.pending = b.pending) := by
  unfold bfSetup
  rw [← h.claimedFiles, ← h.cacheFile, ← h.inProg, ← h.failFiles, ← h.fs.isDir path,
    sim_dirsToMake (sim_visible h)]
  by_cases h1 : path ∈ a.claimedFiles
  · left; exact ⟨.runtime .dupFile, by simp [h1], by simp [h1]⟩
  by_cases h2 : path = a.cacheFile
  · left; exact ⟨.runtime .cacheTarget, by simp [← h2, h1], by simp [← h2, h1]⟩
  by_cases h3 : a.fs.isDir path = true
  · left; exact ⟨.os .isADir, by simp [h1, h2, h3], by simp [h1, h2, h3]⟩
  cases hdm : dirsToMake (visible b) a.cacheFile a.inProg path.dropLast with
  | error e => left; exact ⟨.os e, by simp [h1, h2, h3], by simp [h1, h2, h3]⟩
  | ok ds =>
    by_cases h4 : path ∈ a.failFiles
    · left; exact ⟨.os .other, by simp [h1, h2, h3, h4], by simp [h1, h2, h3, h4]⟩
    by_cases h5 : ds.any Path.tooLong = true
    · left; exact ⟨.os .other, by simp [h1, h2, h3, h4, h5], by simp [h1, h2, h3, h4, h5]⟩
    right
    have hm := sim_mkdirs ds h.fs
    have hfile : (mkdirs a.fs ds).isFile path = (mkdirs b.fs ds).isFile path := hm.isFile path
    refine ⟨setupState a path ds, setupState b path ds, ds, by simp [h1, h2, h3, h4, h5], ?_, ?_, rfl, rfl⟩
    · simp [h1, h2, h3, h4, h5]
    constructor
    · simp only [setupState]
      rw [hfile]
      by_cases hf : (mkdirs b.fs ds).isFile path = true
      · simp only [hf, if_true]; exact hm.erase path
      · simp only [hf]; exact hm
    all_goals simp [setupState, h.cacheFile, h.dirSize, h.claimedFiles, h.claimedSubs, h.inProg, h.outputs,
      h.createdDirs, h.failFiles, h.failSubs]

end Spec
end FB
