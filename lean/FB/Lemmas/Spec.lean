/-
  Helper lemmas about the reference semantics: what `mkdirs`, `rmEmpty` and `preClean` can change.
-/
import FB.Spec
import FB.Lemmas.FS
namespace FB
namespace Spec
open FS

theorem mkdirStep_get (fs : FS) (d q : Path) :
    (mkdirStep fs d).get q = fs.get q ∨ (fs.get q = none ∧ (mkdirStep fs d).get q = some .dir) := by
  unfold mkdirStep
  cases h : fs.mkdir d with
  | error e => simp
  | ok fs' =>
    simp only
    rw [get_mkdir fs fs' d q h]
    by_cases hq : q = d
    · subst hq; right; simp [mkdir_absent fs fs' q h]
    · left; simp [hq]

theorem mkdirs_get (ds : List Path) (fs : FS) (q : Path) :
    (mkdirs fs ds).get q = fs.get q ∨ (fs.get q = none ∧ (mkdirs fs ds).get q = some .dir) := by
  induction ds generalizing fs with
  | nil => simp [mkdirs]
  | cons d r ih =>
    have hstep : mkdirs fs (d :: r) = mkdirs (mkdirStep fs d) r := rfl
    rw [hstep]
    rcases ih (mkdirStep fs d) with h | ⟨h1, h2⟩
    · rcases mkdirStep_get fs d q with h' | ⟨h1', h2'⟩
      · left; rw [h, h']
      · right; exact ⟨h1', by rw [h, h2']⟩
    · rcases mkdirStep_get fs d q with h' | ⟨h1', h2'⟩
      · right; exact ⟨by rw [← h', h1], h2⟩
      · rw [h2'] at h1; cases h1

/-- `mkdirs` never touches a regular file -/
theorem mkdirs_file (ds : List Path) (fs : FS) (q : Path) (b : String) (m : Nat)
    (h : fs.get q = some (.file b m)) : (mkdirs fs ds).get q = some (.file b m) := by
  rcases mkdirs_get ds fs q with h' | ⟨h1, _⟩
  · rw [h', h]
  · rw [h] at h1; cases h1

theorem rmdirStep_get (fs : FS) (d q : Path) :
    (rmdirStep fs d).get q = fs.get q ∨
      (q = d ∧ fs.get q = some .dir ∧ fs.childNames q = [] ∧ (rmdirStep fs d).get q = none) := by
  unfold rmdirStep
  cases h : fs.rmdir d with
  | error e => simp
  | ok fs' =>
    simp only
    rw [get_rmdir fs fs' d q h]
    by_cases hq : q = d
    · subst hq; right
      have := rmdir_was_empty_dir fs fs' q h
      simp [this.1, this.2]
    · left; simp [hq]

theorem foldl_rmdir_get (ds : List Path) (fs : FS) (q : Path) :
    (ds.foldl rmdirStep fs).get q = fs.get q ∨
      (q ∈ ds ∧ fs.get q = some .dir ∧ (ds.foldl rmdirStep fs).get q = none) := by
  induction ds generalizing fs with
  | nil => simp
  | cons d r ih =>
    simp only [List.foldl]
    rcases ih (rmdirStep fs d) with h | ⟨hm, h1, h2⟩
    · rcases rmdirStep_get fs d q with h' | ⟨he, h1', _, h2'⟩
      · left; rw [h, h']
      · right; exact ⟨by simp [he], h1', by rw [h, h2']⟩
    · rcases rmdirStep_get fs d q with h' | ⟨_, _, _, h2'⟩
      · right; exact ⟨by simp [hm], by rw [← h', h1], h2⟩
      · rw [h2'] at h1; cases h1

theorem rmEmpty_eq (fs : FS) (ds : List Path) :
    rmEmpty fs ds = (ds.mergeSort (fun a b => a.length ≥ b.length)).foldl rmdirStep fs := rfl

/-- `rmEmpty` removes only directories it was given, and never a regular file -/
theorem rmEmpty_get (ds : List Path) (fs : FS) (q : Path) :
    (rmEmpty fs ds).get q = fs.get q ∨
      (q ∈ ds ∧ fs.get q = some .dir ∧ (rmEmpty fs ds).get q = none) := by
  rw [rmEmpty_eq]
  rcases foldl_rmdir_get _ fs q with h | ⟨hm, h1, h2⟩
  · left; exact h
  · right; exact ⟨(List.mem_mergeSort).mp hm, h1, h2⟩

theorem rmEmpty_file (ds : List Path) (fs : FS) (q : Path) (b : String) (m : Nat)
    (h : fs.get q = some (.file b m)) : (rmEmpty fs ds).get q = some (.file b m) := by
  rcases rmEmpty_get ds fs q with h' | ⟨_, h1, _⟩
  · rw [h', h]
  · rw [h] at h1; cases h1

theorem rmEmpty_none (ds : List Path) (fs : FS) (q : Path) (h : fs.get q = none) :
    (rmEmpty fs ds).get q = none := by
  rcases rmEmpty_get ds fs q with h' | ⟨_, h1, _⟩
  · rw [h', h]
  · rw [h] at h1; cases h1

end Spec
end FB
