/-
  Basic facts about `Impl.replayOp` / `replayOps`: what replay leaves alone.
-/
import FB.Lemmas.Replay
namespace FB
open FS Spec

theorem replayOps_cons (o : Op) (os : List Op) (s s' : KSt) :
    Impl.replayOps (o :: os) s = some s' ↔
      ∃ sm, Impl.replayOp o s = some sm ∧ Impl.replayOps os sm = some s' := by
  simp only [Impl.replayOps]
  cases h : Impl.replayOp o s with
  | none => simp
  | some sm => simp

/-- the pieces of the state replay of a `build_file` record goes through -/
def replayS1 (s : KSt) (path : Path) (made : List Path) (raised : Bool) : KSt :=
  let sp := s.sp
  { s with
    shelf := if raised then s.shelf else s.shelf.filter (fun x => !(made.contains x.1))
    sp := { sp with
      fs := Spec.mkdirs sp.fs made, claimedFiles := path :: sp.claimedFiles, inProg := path :: sp.inProg } }

/-- replay of a `build_file` record, spelled out -/
theorem replayOp_buildFile_some (path : Path) (cmp : Cmp) (fname : String) (args kwargs : Json)
    (subs : List Op) (ret cmpRes : Json) (raised sf : Bool) (content : String) (s s' : KSt)
    (h : Impl.replayOp (.buildFile path cmp fname args kwargs subs ret cmpRes raised sf content) s = some s') :
    Impl.versionOk s fname = true ∧ (raised = false → Impl.outputMatches s path cmp cmpRes = true) ∧
    sf = false ∧ ¬ path ∈ s.sp.claimedFiles ∧ path ≠ s.sp.cacheFile ∧ s.sp.fs.get path = none ∧
    ∃ made s2, Spec.dirsToMake (Spec.visible s.sp) s.sp.cacheFile s.sp.inProg path.dropLast = .ok made ∧
      made.any Path.tooLong = false ∧
      Impl.replayOps subs (replayS1 s path made raised) = some s2 ∧
      s' = (if raised then Impl.unwind s2 path made else Impl.adopt s2 path made) := by
  unfold Impl.replayOp at h
  split at h; · cases h
  rename_i hv
  split at h; · cases h
  rename_i hm
  split at h; · cases h
  rename_i hsf
  split at h; · cases h
  rename_i hcl
  split at h; · cases h
  rename_i hab
  split at h
  · cases h
  · rename_i made hdm
    simp only at h
    split at h; · cases h
    rename_i hlong
    split at h
    · cases h
    · rename_i s2 hs2
      refine ⟨by simpa using hv, ?_, by simpa using hsf, ?_, ?_, ?_, made, s2, hdm, by simpa using hlong, hs2, ?_⟩
      · intro hr; subst hr; simpa using hm
      · intro hc; apply hcl; simp [hc]
      · intro hc; apply hcl; simp [hc]
      · cases hg : s.sp.fs.get path with
        | none => rfl
        | some e => simp [hg] at hab
      · split at h <;> simp_all

/-- the state in which the operations recorded inside a subbuild are replayed -/
def claimSub (s : KSt) (key : H) : KSt :=
  { s with sp := { s.sp with claimedSubs := key :: s.sp.claimedSubs } }

theorem replayOp_subbuild_some (fname : String) (args kwargs : Json) (subs : List Op) (ret : Json)
    (raised sf : Bool) (s s' : KSt)
    (h : Impl.replayOp (.subbuild fname args kwargs subs ret raised sf) s = some s') :
    Impl.versionOk s fname = true ∧ sf = false ∧
    (s.sp.claimedSubs.any (heq (subKey fname args kwargs))) = false ∧
    Impl.replayOps subs (claimSub s (subKey fname args kwargs)) = some s' := by
  unfold Impl.replayOp at h
  split at h; · cases h
  rename_i hv
  simp only at h
  split at h; · cases h
  rename_i hc
  simp only [Bool.or_eq_true, not_or, Bool.not_eq_true, Bool.not_eq_eq_eq_not, Bool.not_true] at hv
  exact ⟨by simpa using hv.1, hv.2, by simpa using hc, h⟩

/-! ### what replay leaves alone -/

theorem get_filter_key (fs : FS) (f : Path → Bool) (p : Path) (hp : p ≠ []) :
    FS.get (fs.filter (fun x => f x.1)) p = if f p then fs.get p else none := by
  induction fs with
  | nil => simp [FS.get, hp]
  | cons x r ih =>
    obtain ⟨q, e⟩ := x
    simp only [List.filter]
    by_cases hq : f q = true
    · simp only [hq]
      rw [get_cons _ _ _ _ hp, get_cons _ _ _ _ hp, ih]
      by_cases hqp : q = p
      · subst hqp; simp [hq]
      · simp [hqp]
    · simp only [hq]
      rw [ih, get_cons _ _ _ _ hp]
      by_cases hqp : q = p
      · subst hqp; simp [hq]
      · simp [hqp]

theorem get_filter_key_some (fs : FS) (f : Path → Bool) (p : Path) (e : Entry)
    (h : FS.get (fs.filter (fun x => f x.1)) p = some e) : fs.get p = some e := by
  by_cases hp : p = []
  · subst hp; rw [get_nil] at h ⊢; exact h
  · rw [get_filter_key _ _ _ hp] at h
    split at h
    · exact h
    · cases h

theorem mkdirs_file_rev (ds : List Path) (fs : FS) (q : Path) (b : String) (m : Nat)
    (h : (mkdirs fs ds).get q = some (.file b m)) : fs.get q = some (.file b m) := by
  rcases mkdirs_get ds fs q with h' | ⟨_, h2⟩
  · rw [← h', h]
  · rw [h] at h2; cases h2

theorem rmEmpty_file_rev (ds : List Path) (fs : FS) (q : Path) (b : String) (m : Nat)
    (h : (rmEmpty fs ds).get q = some (.file b m)) : fs.get q = some (.file b m) := by
  rcases rmEmpty_get ds fs q with h' | ⟨_, _, h2⟩
  · rw [← h', h]
  · rw [h] at h2; cases h2

theorem dirsToMake_not_blocked (vfs : FS) (cf : Path) (bl : List Path) (d : Path) (made : List Path)
    (h : dirsToMake vfs cf bl d = .ok made) : ∀ x ∈ made, x ∉ bl := by
  induction hn : d.length using Nat.strong_induction_on generalizing d made with
  | _ n ih =>
    rw [dirsToMake] at h
    by_cases hd : d = []
    · simp [hd] at h; subst h; intro x hx; cases hx
    · simp only [hd, dite_false] at h
      split at h
      · simp at h; subst h; intro x hx; cases hx
      · split at h
        · cases h
        · split at h
          · cases h
          · split at h
            · cases h
            · rename_i hbl
              split at h
              · cases h
              · rename_i r hr
                simp at h; subst h
                have hlt : d.dropLast.length < n := by
                  rw [← hn, List.length_dropLast]
                  have : d.length ≠ 0 := by simpa using hd
                  omega
                intro x hx
                rcases List.mem_append.mp hx with hx | hx
                · exact ih _ hlt d.dropLast r hr rfl x hx
                · simp at hx; subst hx
                  intro hc; apply hbl; simp [hc]

/-- the state is well formed: targets whose function is running are claimed -/
def KSt.WF (s : KSt) : Prop := ∀ p ∈ s.sp.inProg, p ∈ s.sp.claimedFiles

structure Keeps (s s' : KSt) : Prop where
  old : s'.old = s.old
  newVersions : s'.newVersions = s.newVersions
  dirSize : s'.sp.dirSize = s.sp.dirSize
  cacheFile : s'.sp.cacheFile = s.sp.cacheFile
  failFiles : s'.sp.failFiles = s.sp.failFiles
  failSubs : s'.sp.failSubs = s.sp.failSubs
  inProg : s'.sp.inProg = s.sp.inProg
  claimed : ∀ p ∈ s.sp.claimedFiles, p ∈ s'.sp.claimedFiles
  univ : ∀ p b m, s'.InU p b m → s.InU p b m
  shelfInProg : ∀ p ∈ s.sp.inProg, s'.shelf.get p = s.shelf.get p

theorem Keeps.refl (s : KSt) : Keeps s s :=
  ⟨rfl, rfl, rfl, rfl, rfl, rfl, rfl, fun _ h => h, fun _ _ _ h => h, fun _ _ => rfl⟩

theorem Keeps.wf {s s' : KSt} (k : Keeps s s') (h : s.WF) : s'.WF := by
  intro p hp
  rw [k.inProg] at hp
  exact k.claimed p (h p hp)

mutual
theorem replayOp_keeps : (o : Op) → (s s' : KSt) → s.WF → Impl.replayOp o s = some s' → Keeps s s'
  | .simple q ret exc ans, s, s', _, h => by
    unfold Impl.replayOp at h
    have : s' = s := by
      split at h
      · split at h <;> simp_all
      · split at h <;> simp_all
      · cases h
    subst this; exact Keeps.refl _
  | .buildFile path cmp fname args kwargs subs ret cmpRes raised sf content, s, s', hwf, h => by
    obtain ⟨_, _, _, hncl, _, _, made, s2, hdm, _, hs2, hs'⟩ := replayOp_buildFile_some _ _ _ _ _ _ _ _ _ _ _ _ _ h
    have hwf1 : (replayS1 s path made raised).WF := by
      intro p hp
      simp only [replayS1, List.mem_cons] at hp ⊢
      rcases hp with rfl | hp
      · exact Or.inl rfl
      · exact Or.inr (hwf p hp)
    have k12 := replayOps_keeps subs (replayS1 s path made raised) s2 hwf1 hs2
    have hnb := dirsToMake_not_blocked _ _ _ _ _ hdm
    -- facts about s -> s1
    have u01 : ∀ p b m, (replayS1 s path made raised).InU p b m → s.InU p b m := by
      intro p b m hu
      rcases hu with hu | hu
      · exact Or.inl (mkdirs_file_rev _ _ _ _ _ hu)
      · right
        simp only [replayS1] at hu
        split at hu
        · exact hu
        · exact get_filter_key_some s.shelf (fun q => !made.contains q) _ _ hu
    have sh01 : ∀ p ∈ s.sp.inProg, (replayS1 s path made raised).shelf.get p = s.shelf.get p := by
      intro p hp
      simp only [replayS1]
      split
      · rfl
      · by_cases hr : p = []
        · subst hr; simp [get_nil]
        · rw [get_filter_key s.shelf (fun q => !made.contains q) _ hr]
          have hnm : p ∉ made := fun hm => hnb p hm hp
          simp [hnm]
    have hpne : ∀ p ∈ s.sp.inProg, p ≠ path := fun p hp e => hncl (e ▸ hwf p hp)
    subst hs'
    cases raised with
    | true =>
      simp only [if_true]
      refine ⟨k12.old, k12.newVersions, k12.dirSize, k12.cacheFile, k12.failFiles, k12.failSubs, ?_, ?_, ?_, ?_⟩
      · simp only [Impl.unwind]
        rw [k12.inProg]; simp [replayS1]
      · intro p hp
        simp only [Impl.unwind]
        exact k12.claimed p (by simp [replayS1, hp])
      · intro p b m hu
        apply u01; apply k12.univ
        rcases hu with hu | hu
        · exact Or.inl (rmEmpty_file_rev _ _ _ _ _ hu)
        · exact Or.inr (get_filter_key_some s2.shelf
            (fun q => !(made.contains q && (rmEmpty s2.sp.fs made).isDir q)) _ _ hu)
      · intro p hp
        rw [← sh01 p hp, ← k12.shelfInProg p (by simp [replayS1, hp])]
        simp only [Impl.unwind]
        by_cases hr : p = []
        · subst hr; simp [get_nil]
        · rw [get_filter_key s2.shelf (fun q => !(made.contains q && (rmEmpty s2.sp.fs made).isDir q)) _ hr]
          have hnm : p ∉ made := fun hm => hnb p hm hp
          simp [hnm]
    | false =>
      simp only [Bool.false_eq_true, if_false]
      refine ⟨k12.old, k12.newVersions, k12.dirSize, k12.cacheFile, k12.failFiles, k12.failSubs, ?_, ?_, ?_, ?_⟩
      · simp only [Impl.adopt]
        rw [k12.inProg]; simp [replayS1]
      · intro p hp
        simp only [Impl.adopt]
        exact k12.claimed p (by simp [replayS1, hp])
      · intro p b m hu
        apply u01; apply k12.univ
        simp only [Impl.adopt, KSt.InU] at hu
        rcases hu with hu | hu
        · cases hsh : s2.shelf.get path with
          | none => simp only [hsh] at hu; exact Or.inl hu
          | some e =>
            simp only [hsh] at hu
            by_cases hroot : path = []
            · simp only [hroot, if_true] at hu; exact Or.inl hu
            · simp only [hroot, if_false] at hu
              by_cases hpp : p = path
              · subst hpp
                rw [get_set_self _ _ _ hroot] at hu
                right; rw [hsh, hu]
              · rw [get_set_ne _ _ _ _ hpp] at hu; exact Or.inl hu
        · exact Or.inr (get_erase_some _ _ _ _ hu)
      · intro p hp
        rw [← sh01 p hp, ← k12.shelfInProg p (by simp [replayS1, hp])]
        simp only [Impl.adopt]
        exact get_erase_ne _ _ _ (hpne p hp)
  | .subbuild fname args kwargs subs ret raised sf, s, s', hwf, h => by
    obtain ⟨_, _, _, hs⟩ := replayOp_subbuild_some _ _ _ _ _ _ _ _ _ h
    have k := replayOps_keeps subs _ s' (by intro p hp; exact hwf p hp) hs
    exact ⟨k.old, k.newVersions, k.dirSize, k.cacheFile, k.failFiles, k.failSubs, k.inProg, k.claimed,
      k.univ, k.shelfInProg⟩
theorem replayOps_keeps : (os : List Op) → (s s' : KSt) → s.WF → Impl.replayOps os s = some s' → Keeps s s'
  | [], s, s', _, h => by
    simp [Impl.replayOps] at h; subst h; exact Keeps.refl _
  | o :: os, s, s', hwf, h => by
    obtain ⟨sm, h1, h2⟩ := (replayOps_cons o os s s').mp h
    have k1 := replayOp_keeps o s sm hwf h1
    have k2 := replayOps_keeps os sm s' (k1.wf hwf) h2
    exact ⟨k2.old.trans k1.old, k2.newVersions.trans k1.newVersions, k2.dirSize.trans k1.dirSize,
      k2.cacheFile.trans k1.cacheFile, k2.failFiles.trans k1.failFiles, k2.failSubs.trans k1.failSubs,
      k2.inProg.trans k1.inProg, fun p hp => k2.claimed p (k1.claimed p hp),
      fun p b m hu => k1.univ p b m (k2.univ p b m hu),
      fun p hp => (k2.shelfInProg p (k1.inProg ▸ hp)).trans (k1.shelfInProg p hp)⟩
end

end FB
