/-
  Trees "equal up to modification times of files": the relation between the tree of a from-scratch
  run (which rewrites every output) and the tree of a run that reuses outputs.  Every answer user
  code can see is invariant under it.
-/
import FB.Lemmas.Sort
import FB.Lemmas.Spec
import FB.Props.C04
namespace FB
open FS Spec

def Entry.sim : Option Entry → Option Entry → Prop
  | none, none => True
  | some .dir, some .dir => True
  | some (.file b _), some (.file b' _) => b = b'
  | _, _ => False

theorem Entry.sim_refl (e : Option Entry) : Entry.sim e e := by
  cases e with
  | none => trivial
  | some e => cases e <;> simp [Entry.sim]

theorem Entry.sim_isSome {a b : Option Entry} (h : Entry.sim a b) : a.isSome = b.isSome := by
  cases a with
  | none => cases b <;> simp_all [Entry.sim]
  | some x => cases b with
    | none => cases x <;> simp_all [Entry.sim]
    | some y => simp

namespace FS

/-- same paths, same kinds, same bytes -/
def Sim (a b : FS) : Prop := ∀ p, Entry.sim (a.get p) (b.get p)

theorem Sim.refl (a : FS) : Sim a a := fun _ => Entry.sim_refl _

theorem Sim.isFile {a b : FS} (h : Sim a b) (p : Path) : a.isFile p = b.isFile p := by
  have := h p
  unfold FS.isFile
  cases ha : a.get p with
  | none => cases hb : b.get p <;> simp_all [Entry.sim]
  | some x => cases hb : b.get p with
    | none => cases x <;> simp_all [Entry.sim]
    | some y => cases x <;> cases y <;> simp_all [Entry.sim]

theorem Sim.isDir {a b : FS} (h : Sim a b) (p : Path) : a.isDir p = b.isDir p := by
  have := h p
  unfold FS.isDir
  cases ha : a.get p with
  | none => cases hb : b.get p <;> simp_all [Entry.sim]
  | some x => cases hb : b.get p with
    | none => cases x <;> simp_all [Entry.sim]
    | some y => cases x <;> cases y <;> simp_all [Entry.sim]

theorem Sim.isNone {a b : FS} (h : Sim a b) (p : Path) : a.get p = none ↔ b.get p = none := by
  have := Entry.sim_isSome (h p)
  cases ha : a.get p <;> cases hb : b.get p <;> simp_all

theorem Sim.erase {a b : FS} (h : Sim a b) (p : Path) : Sim (a.erase p) (b.erase p) := by
  intro q
  by_cases hq : q = p
  · subst hq
    by_cases hr : q = []
    · subst hr; simp [get_nil, Entry.sim]
    · simp [get_erase_self _ _ hr, Entry.sim]
  · rw [get_erase_ne _ _ _ hq, get_erase_ne _ _ _ hq]; exact h q

theorem Sim.set {a b : FS} (h : Sim a b) (p : Path) (e e' : Entry) (he : Entry.sim (some e) (some e')) :
    Sim (a.set p e) (b.set p e') := by
  intro q
  by_cases hq : q = p
  · subst hq
    by_cases hr : q = []
    · subst hr; simp [get_nil, Entry.sim]
    · rw [get_set_self _ _ _ hr, get_set_self _ _ _ hr]; exact he
  · rw [get_set_ne _ _ _ _ hq, get_set_ne _ _ _ _ hq]; exact h q

theorem childNames_eq_nil_iff (fs : FS) (d : Path) :
    fs.childNames d = [] ↔ ∀ n, fs.get (d ++ [n]) = none := by
  constructor
  · intro h n
    cases hg : fs.get (d ++ [n]) with
    | none => rfl
    | some e =>
      have : n ∈ fs.childNames d := (mem_childNames fs d n).mpr ⟨e, mem_of_get fs _ e (by simp) hg⟩
      rw [h] at this; cases this
  · intro h
    cases hc : fs.childNames d with
    | nil => rfl
    | cons n r =>
      have : n ∈ fs.childNames d := by rw [hc]; simp
      obtain ⟨e, he⟩ := (mem_childNames fs d n).mp this
      have := get_isSome_of_mem fs _ e he
      rw [h n] at this; cases this

theorem Sim.childNames_nil {a b : FS} (h : Sim a b) (d : Path) :
    a.childNames d = [] ↔ b.childNames d = [] := by
  rw [childNames_eq_nil_iff, childNames_eq_nil_iff]
  constructor
  · intro ha n; exact (h.isNone _).mp (ha n)
  · intro hb n; exact (h.isNone _).mpr (hb n)

theorem Sim.mem_childNames {a b : FS} (h : Sim a b) (d : Path) (n : String) :
    n ∈ a.childNames d ↔ n ∈ b.childNames d := by
  have key : ∀ (fs : FS), n ∈ fs.childNames d ↔ fs.get (d ++ [n]) ≠ none := by
    intro fs
    rw [FB.mem_childNames]
    constructor
    · rintro ⟨e, he⟩ hn
      have := get_isSome_of_mem fs _ e he
      rw [hn] at this; cases this
    · intro hne
      cases hg : fs.get (d ++ [n]) with
      | none => exact absurd hg hne
      | some e => exact ⟨e, mem_of_get fs _ e (by simp) hg⟩
  rw [key a, key b, ne_eq, ne_eq, h.isNone]

theorem Sim.listdir {a b : FS} (h : Sim a b) (d : Path) : a.listdir d = b.listdir d := by
  unfold FS.listdir
  exact sortStrs_congr _ _ (fun n => h.mem_childNames d n)

/-- `mkdir` behaves alike on similar trees -/
theorem Sim.mkdir {a b : FS} (h : Sim a b) (p : Path) :
    (∃ e, a.mkdir p = .error e ∧ b.mkdir p = .error e) ∨
    (∃ a' b', a.mkdir p = .ok a' ∧ b.mkdir p = .ok b' ∧ Sim a' b') := by
  unfold FS.mkdir
  by_cases hp : p = []
  · left; exact ⟨.fileExists, by simp [hp], by simp [hp]⟩
  · simp only [hp, if_false]
    have hpar := h (parent p)
    have hself := h p
    cases ha : a.get (parent p) with
    | none =>
      cases hb : b.get (parent p) with
      | none => left; exact ⟨.notFound, rfl, rfl⟩
      | some y => rw [ha, hb] at hpar; cases y <;> simp [Entry.sim] at hpar
    | some x =>
      cases hb : b.get (parent p) with
      | none => rw [ha, hb] at hpar; cases x <;> simp [Entry.sim] at hpar
      | some y =>
        rw [ha, hb] at hpar
        cases x with
        | file _ _ => cases y with
          | file _ _ => left; exact ⟨.notADir, rfl, rfl⟩
          | dir => simp [Entry.sim] at hpar
        | dir => cases y with
          | file _ _ => simp [Entry.sim] at hpar
          | dir =>
            simp only
            cases hsa : a.get p with
            | none =>
              have hsb : b.get p = none := (h.isNone p).mp hsa
              right
              exact ⟨a.set p .dir, b.set p .dir, by simp, by simp [hsb], h.set p _ _ (by simp [Entry.sim])⟩
            | some z =>
              have : b.get p ≠ none := fun hn => by
                have := (h.isNone p).mpr hn; rw [hsa] at this; cases this
              cases hsb : b.get p with
              | none => exact absurd hsb this
              | some w => left; exact ⟨.fileExists, by simp, by simp⟩

/-- `rmdir` behaves alike on similar trees -/
theorem Sim.rmdir {a b : FS} (h : Sim a b) (p : Path) :
    (∃ e, a.rmdir p = .error e ∧ b.rmdir p = .error e) ∨
    (∃ a' b', a.rmdir p = .ok a' ∧ b.rmdir p = .ok b' ∧ Sim a' b') := by
  unfold FS.rmdir
  by_cases hp : p = []
  · left; exact ⟨.other, by simp [hp], by simp [hp]⟩
  · simp only [hp, if_false]
    have hself := h p
    cases ha : a.get p with
    | none =>
      have hb : b.get p = none := (h.isNone p).mp ha
      left; exact ⟨.notFound, by simp, by simp [hb]⟩
    | some x =>
      cases hb : b.get p with
      | none => rw [ha, hb] at hself; cases x <;> simp [Entry.sim] at hself
      | some y =>
        rw [ha, hb] at hself
        cases x with
        | file _ _ => cases y with
          | file _ _ => left; exact ⟨.notADir, rfl, rfl⟩
          | dir => simp [Entry.sim] at hself
        | dir => cases y with
          | file _ _ => simp [Entry.sim] at hself
          | dir =>
            simp only
            by_cases hc : a.childNames p = []
            · have hc' : b.childNames p = [] := (h.childNames_nil p).mp hc
              right; exact ⟨a.erase p, b.erase p, by simp [hc], by simp [hc'], h.erase p⟩
            · have hc' : ¬ b.childNames p = [] := fun hn => hc ((h.childNames_nil p).mpr hn)
              left; exact ⟨.other, by simp [hc], by simp [hc']⟩

end FS

namespace Spec

theorem sim_mkdirStep {a b : FS} (h : FS.Sim a b) (d : Path) : FS.Sim (mkdirStep a d) (mkdirStep b d) := by
  unfold mkdirStep
  rcases h.mkdir d with ⟨e, ha, hb⟩ | ⟨a', b', ha, hb, hs⟩
  · rw [ha, hb]; exact h
  · rw [ha, hb]; exact hs

theorem sim_mkdirs (ds : List Path) {a b : FS} (h : FS.Sim a b) : FS.Sim (mkdirs a ds) (mkdirs b ds) := by
  induction ds generalizing a b with
  | nil => exact h
  | cons d r ih => exact ih (sim_mkdirStep h d)

theorem sim_rmdirStep {a b : FS} (h : FS.Sim a b) (d : Path) : FS.Sim (rmdirStep a d) (rmdirStep b d) := by
  unfold rmdirStep
  rcases h.rmdir d with ⟨e, ha, hb⟩ | ⟨a', b', ha, hb, hs⟩
  · rw [ha, hb]; exact h
  · rw [ha, hb]; exact hs

theorem sim_rmEmpty (ds : List Path) {a b : FS} (h : FS.Sim a b) : FS.Sim (rmEmpty a ds) (rmEmpty b ds) := by
  unfold rmEmpty
  generalize (ds.mergeSort fun a b => decide (a.length ≥ b.length)) = l
  induction l generalizing a b with
  | nil => exact h
  | cons d r ih => exact ih (sim_rmdirStep h d)

end Spec
end FB
