/-
  Records that *follow* a program, faithfulness of the comparison modes, and the basic facts about
  replay (`Impl.replayOp`): it never changes the old cache, the versions or the identity of the
  state, and it only ever moves leftovers — it creates no content.
-/
import FB.Lemmas.SimView
import FB.Lemmas.Shapes
import FB.Impl
namespace FB
open FS Spec

/-- the recorded value / exception of a simple operation and what the user code saw fit together -/
def RecOK (ds : Nat) (q : Query) (ret : Json) (exc : Option OSErr) (ans : UAns) : Prop :=
  match exc with
  | some e => ret = .null ∧ ans = .error e
  | none =>
    match q with
    | .read _ cmp => ∃ c m, ret = View.cmpResult cmp c m ∧ ans = .ok (.str c)
    | _ => (∃ fs0, View.recVal ds fs0 q = .ok ret) ∧ ans = .ok ret

/-- `Follows ds prog t ops r w`: `ops` is a list of records the function `prog` (called for target `t`)
    can produce — the continuations were taken along the recorded answers — ending with outcome `r`,
    having last written `w` into its target. -/
inductive Follows (ds : Nat) : Prog → Option Path → List Op → CallRes → Option String → Prop
  | retOk (v t j) : sanitize v = some j → Follows ds (.ret v) t [] (.ok j) none
  | retBad (v t) : sanitize v = none → Follows ds (.ret v) t [] (.error .typeErr) none
  | raise (e t) : Follows ds (.raise e) t [] (.error e) none
  | query (q k t ops r w ret exc ans) : RecOK ds q ret exc ans → Follows ds (k ans) t ops r w →
      Follows ds (.query q k) t (.simple q ret exc ans :: ops) r w
  | writeSome (b mt k p ops r w) : Follows ds k (some p) ops r w →
      Follows ds (.write b mt k) (some p) ops r (some (w.getD b))
  | writeNone (b mt k ops r w) : Follows ds k none ops r w → Follows ds (.write b mt k) none ops r w
  | bfSetupFail (path cmp fname args kwargs body k t ops r w e) :
      Follows ds (k (.error e)) t ops r w →
      Follows ds (.buildFile path cmp fname args kwargs body k) t
        (.buildFile path cmp fname args kwargs [] .null .null true true "" :: ops) r w
  | bfOk (path cmp fname args kwargs body k t subs j c m0 ops r w) :
      Follows ds body (some path) subs (.ok j) (some c) →
      Follows ds (k (.ok j)) t ops r w →
      Follows ds (.buildFile path cmp fname args kwargs body k) t
        (.buildFile path cmp fname args kwargs subs j (View.cmpResult cmp c m0) false false c :: ops) r w
  | bfRaise (path cmp fname args kwargs body k t subs e kept wb ops r w) :
      Follows ds body (some path) subs (.error e) wb →
      Follows ds (k (.error e)) t ops r w →
      Follows ds (.buildFile path cmp fname args kwargs body k) t
        (.buildFile path cmp fname args kwargs subs kept .null true false "" :: ops) r w
  | bfNotCreated (path cmp fname args kwargs body k t subs j ops r w) :
      Follows ds body (some path) subs (.ok j) none →
      Follows ds (k (.error (notCreatedExc path))) t ops r w →
      Follows ds (.buildFile path cmp fname args kwargs body k) t
        (.buildFile path cmp fname args kwargs subs j .null true false "" :: ops) r w
  | sbSetupFail (fname args kwargs body k t ops r w e) :
      Follows ds (k (.error e)) t ops r w →
      Follows ds (.subbuild fname args kwargs body k) t
        (.subbuild fname args kwargs [] .null true true :: ops) r w
  | sbOk (fname args kwargs body k t subs j wb ops r w) :
      Follows ds body none subs (.ok j) wb →
      Follows ds (k (.ok j)) t ops r w →
      Follows ds (.subbuild fname args kwargs body k) t
        (.subbuild fname args kwargs subs j false false :: ops) r w
  | sbRaise (fname args kwargs body k t subs e wb ops r w) :
      Follows ds body none subs (.error e) wb →
      Follows ds (k (.error e)) t ops r w →
      Follows ds (.subbuild fname args kwargs body k) t
        (.subbuild fname args kwargs subs .null true false :: ops) r w

/-- the regular files that exist physically in state `s`: in the virtual tree or as leftovers -/
def KSt.InU (s : KSt) (p : Path) (b : String) (m : Nat) : Prop :=
  s.sp.fs.get p = some (.file b m) ∨ s.shelf.get p = some (.file b m)

mutual
/-- The obligation the comparison modes put on the world: a file that compares equal to what was
    recorded has the recorded content.  For HASH this always holds (`faithful_hash`); for METADATA it
    is the user's assumption that size and modification time identify the content. -/
def FaithfulOp (U : Path → String → Nat → Prop) : Op → Prop
  | .simple q ret exc ans =>
    match q, exc, ans with
    | .read p cmp, none, .ok (.str c) =>
      ∀ b m, U p b m → isEqual (View.cmpResult cmp b m) ret = true → b = c
    | _, _, _ => True
  | .buildFile p cmp _ _ _ subs _ cmpRes raised _ content =>
    (raised = false → ∀ b m, U p b m → isEqual cmpRes (View.cmpResult cmp b m) = true → b = content) ∧
    FaithfulOps U subs
  | .subbuild _ _ _ subs _ _ _ => FaithfulOps U subs
def FaithfulOps (U : Path → String → Nat → Prop) : List Op → Prop
  | [] => True
  | o :: os => FaithfulOp U o ∧ FaithfulOps U os
end

mutual
theorem FaithfulOp.mono {U U' : Path → String → Nat → Prop} (h : ∀ p b m, U' p b m → U p b m) :
    (o : Op) → FaithfulOp U o → FaithfulOp U' o
  | .simple q ret exc ans, hf => by
    unfold FaithfulOp at hf ⊢
    split at hf
    · intro b m hu; exact hf b m (h _ _ _ hu)
    · trivial
  | .buildFile p cmp _ _ _ subs _ cmpRes raised _ content, hf => by
    unfold FaithfulOp at hf ⊢
    exact ⟨fun hr b m hu => hf.1 hr b m (h _ _ _ hu), FaithfulOps.mono h subs hf.2⟩
  | .subbuild _ _ _ subs _ _ _, hf => by
    unfold FaithfulOp at hf ⊢
    exact FaithfulOps.mono h subs hf
theorem FaithfulOps.mono {U U' : Path → String → Nat → Prop} (h : ∀ p b m, U' p b m → U p b m) :
    (os : List Op) → FaithfulOps U os → FaithfulOps U' os
  | [], _ => by unfold FaithfulOps; trivial
  | o :: os, hf => by
    unfold FaithfulOps at hf ⊢
    exact ⟨FaithfulOp.mono h o hf.1, FaithfulOps.mono h os hf.2⟩
end

/-! ### replay of a simple operation -/

theorem get_erase_some (fs : FS) (q p : Path) (e : Entry) (h : (fs.erase q).get p = some e) :
    fs.get p = some e := by
  by_cases hp : p = q
  · subst hp
    by_cases hr : p = []
    · subst hr; rw [get_nil] at h ⊢; exact h
    · rw [get_erase_self _ _ hr] at h; cases h
  · rwa [get_erase_ne _ _ _ hp] at h

theorem foldl_erase_some (ps : List Path) (fs : FS) (p : Path) (e : Entry)
    (h : (ps.foldl (fun fs q => fs.erase q) fs).get p = some e) : fs.get p = some e := by
  induction ps generalizing fs with
  | nil => exact h
  | cons q r ih => exact get_erase_some fs q p e (ih _ h)

/-- whatever build functions can see is on the tree -/
theorem visible_get_some (s : SpecSt) (p : Path) (e : Entry) (h : (visible s).get p = some e) :
    s.fs.get p = some e := by
  unfold visible at h
  exact foldl_erase_some _ _ _ _ (get_erase_some _ _ _ _ h)

theorem answer_of_recVal_error (ds : Nat) (f : FS) (q : Query) (e : OSErr)
    (h : View.recVal ds f q = .error e) : View.answer ds f q = .error e := by
  cases q with
  | read p c =>
    simp only [View.recVal, View.answer] at h ⊢
    cases hg : f.get p with
    | none => simp [hg] at h ⊢; exact h
    | some x => cases x with
      | dir => simp [hg] at h ⊢; exact h
      | file b m => simp [hg] at h
  | _ => simpa [View.answer] using h

theorem answer_of_recVal_ok (ds : Nat) (f : FS) (q : Query) (v : Json)
    (hq : ∀ p c, q ≠ .read p c) (h : View.recVal ds f q = .ok v) : View.answer ds f q = .ok v := by
  cases q with
  | read p c => exact absurd rfl (hq p c)
  | _ => simpa [View.answer] using h

/-- C01/C05 for one recorded query: if replay accepts it, the query answers now what it answered then -/
theorem replay_simple_sound (s s' : KSt) (q : Query) (ret : Json) (exc : Option OSErr) (ans : UAns)
    (hrec : RecOK s.sp.dirSize q ret exc ans) (hf : FaithfulOp s.InU (.simple q ret exc ans))
    (h : Impl.replayOp (.simple q ret exc ans) s = some s') :
    s' = s ∧ View.answer s.sp.dirSize (visible s.sp) q = ans := by
  unfold Impl.replayOp at h
  cases hrv : View.recVal s.sp.dirSize (visible s.sp) q with
  | error e =>
    cases exc with
    | none => simp [hrv] at h
    | some e' =>
      simp only [hrv] at h
      split at h
      · rename_i hc
        simp at h
        unfold RecOK at hrec
        simp only at hrec
        refine ⟨h.symm, ?_⟩
        rw [answer_of_recVal_error _ _ _ _ hrv, hrec.2, hc.1]
      · cases h
  | ok v =>
    cases exc with
    | some e' => simp [hrv] at h
    | none =>
      simp only [hrv] at h
      split at h
      · rename_i hc
        simp at h
        refine ⟨h.symm, ?_⟩
        unfold RecOK at hrec
        simp only at hrec
        cases q with
        | read p cmp =>
          simp only at hrec
          obtain ⟨c, m, hret, hans⟩ := hrec
          simp only [View.recVal] at hrv
          cases hg : (visible s.sp).get p with
          | none => simp [hg] at hrv
          | some x =>
            cases x with
            | dir => simp [hg] at hrv
            | file b m' =>
              simp [hg] at hrv
              subst hrv
              have hfs := visible_get_some _ _ _ hg
              subst hans
              unfold FaithfulOp at hf
              simp only at hf
              have := hf b m' (Or.inl hfs) hc
              simp [View.answer, hg, this]
        | isFile p =>
          obtain ⟨⟨fs0, h0⟩, hans⟩ := hrec
          rw [hans, ← recVal_isEqual_eq _ _ _ _ _ _ (by intro p c hh; cases hh) hrv h0 hc]
          exact answer_of_recVal_ok _ _ _ _ (by intro p c hh; cases hh) hrv
        | isDir p =>
          obtain ⟨⟨fs0, h0⟩, hans⟩ := hrec
          rw [hans, ← recVal_isEqual_eq _ _ _ _ _ _ (by intro p c hh; cases hh) hrv h0 hc]
          exact answer_of_recVal_ok _ _ _ _ (by intro p c hh; cases hh) hrv
        | exists_ p =>
          obtain ⟨⟨fs0, h0⟩, hans⟩ := hrec
          rw [hans, ← recVal_isEqual_eq _ _ _ _ _ _ (by intro p c hh; cases hh) hrv h0 hc]
          exact answer_of_recVal_ok _ _ _ _ (by intro p c hh; cases hh) hrv
        | listDir p =>
          obtain ⟨⟨fs0, h0⟩, hans⟩ := hrec
          rw [hans, ← recVal_isEqual_eq _ _ _ _ _ _ (by intro p c hh; cases hh) hrv h0 hc]
          exact answer_of_recVal_ok _ _ _ _ (by intro p c hh; cases hh) hrv
        | walk p td =>
          obtain ⟨⟨fs0, h0⟩, hans⟩ := hrec
          rw [hans, ← recVal_isEqual_eq _ _ _ _ _ _ (by intro p c hh; cases hh) hrv h0 hc]
          exact answer_of_recVal_ok _ _ _ _ (by intro p c hh; cases hh) hrv
        | getSize p =>
          obtain ⟨⟨fs0, h0⟩, hans⟩ := hrec
          rw [hans, ← recVal_isEqual_eq _ _ _ _ _ _ (by intro p c hh; cases hh) hrv h0 hc]
          exact answer_of_recVal_ok _ _ _ _ (by intro p c hh; cases hh) hrv
      · cases h

end FB
