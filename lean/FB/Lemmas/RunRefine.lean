/-
  Lemmas for the refinement of a whole run (`FB.Props.C01Run`): what both semantics do to the pending
  writes, `bfFinish` under `Sim`, what a cache lookup that succeeds means.
-/
import FB.Props.C01
namespace FB
open FS Spec

/-- the two states agree on what the running functions have written into their targets (the
    modification times may differ: the clocks of the two semantics are not synchronised) -/
def PendSim (a b : SpecSt) : Prop :=
  ∀ p, (pendingFind a.pending p).map (·.1) = (pendingFind b.pending p).map (·.1)

theorem PendSim.refl (a : SpecSt) : PendSim a a := fun _ => rfl

theorem pendingFind_filter (path q : Path) (pend : List (Path × String × Nat)) :
    pendingFind (pend.filter (fun x => x.1 ≠ path)) q = if q = path then none else pendingFind pend q := by
  by_cases h : q = path
  · subst h; rw [if_pos rfl]; exact pendingFind_filter_self _ _
  · rw [if_neg h]; exact pendingFind_filter_ne _ _ _ h

/-- A from-scratch run changes the pending content of no target but its own, and keeps pending
    content confined to claimed targets. -/
theorem run_pending (prog : Prog) : ∀ (t : Option Path) (sp : SpecSt),
    PendClaimed sp → (∀ p, t = some p → p ∈ sp.claimedFiles) →
    PendClaimed (run prog t sp).2.1 ∧
    (∀ q, t ≠ some q → pendingFind (run prog t sp).2.1.pending q = pendingFind sp.pending q) := by
  induction prog with
  | ret v => intro t sp h _; simp only [run]; split <;> exact ⟨h, fun _ _ => rfl⟩
  | raise e => intro t sp h _; exact ⟨h, fun _ _ => rfl⟩
  | query q k ih => intro t sp h ht; simp only [run]; exact ih _ t sp h ht
  | write b mt k ih =>
    intro t sp h ht
    cases t with
    | none => simp only [run]; exact ih none sp h ht
    | some p =>
      simp only [run]
      have hpcl : p ∈ sp.claimedFiles := ht p rfl
      have h' : PendClaimed { sp with pending := (p, b, mt.getD sp.clock) :: sp.pending, clock := sp.clock + 1 } := by
        intro q hq
        have hne : p ≠ q := fun e => hq (e ▸ hpcl)
        show pendingFind ((p, b, mt.getD sp.clock) :: sp.pending) q = none
        rw [pendingFind_cons_ne _ _ _ _ _ hne]; exact h q hq
      have := ih (some p) _ h' ht
      refine ⟨this.1, fun q hq => ?_⟩
      rw [this.2 q hq]
      exact pendingFind_cons_ne _ _ _ _ _ (fun e => hq (by rw [e]))
  | buildFile path cmp fname args kwargs body k ihb ihk =>
    intro t sp h ht
    simp only [run]
    cases hs : bfSetup sp path with
    | error e =>
      simp only
      exact ihk _ t (setupFailState sp path e) h ht
    | ok r =>
      obtain ⟨s1, made⟩ := r
      simp only
      obtain ⟨hs1, hncl, _, _, _, _⟩ := bfSetup_ok_fields _ _ _ _ hs
      subst hs1
      generalize hst : ({ setupState sp path made with
        invLog := { fname := fname, target := some path, args := args, kwargs := kwargs } ::
          (setupState sp path made).invLog } : SpecSt) = s1'
      have hcl1 : s1'.claimedFiles = path :: sp.claimedFiles := by subst hst; rfl
      have hpend1 : s1'.pending = sp.pending := by subst hst; rfl
      have hpc1 : PendClaimed s1' := by
        intro q hq
        rw [hpend1]; apply h q
        intro hc; apply hq; rw [hcl1]; exact List.mem_cons_of_mem _ hc
      have hb := ihb (some path) s1' hpc1 (fun p hp => by injection hp with hp; subst hp; rw [hcl1]; simp)
      have hkc := (run_keeps_claimed body (some path) s1').1
      generalize hrb : run body (some path) s1' = rb at hb hkc ⊢
      obtain ⟨r2, sp2, tr2⟩ := rb
      simp only at hb hkc ⊢
      have hcl3 : (bfFinish sp2 path made r2).2.claimedFiles = sp2.claimedFiles := bfFinish_claimed _ _ _ _
      have hp3 : (bfFinish sp2 path made r2).2.pending = sp2.pending.filter (fun x => x.1 ≠ path) :=
        bfFinish_pending _ _ _ _
      have hpath0 : pendingFind sp.pending path = none := h path hncl
      have hpc3 : PendClaimed (bfFinish sp2 path made r2).2 := by
        intro q hq
        rw [hcl3] at hq
        rw [hp3, pendingFind_filter]
        split
        · rfl
        · exact hb.1 q hq
      have hpend3 : ∀ q, pendingFind (bfFinish sp2 path made r2).2.pending q = pendingFind sp.pending q := by
        intro q
        rw [hp3, pendingFind_filter]
        split
        · rename_i e; subst e; exact hpath0.symm
        · rename_i hq
          rw [hb.2 q (fun e => hq (by injection e with e; exact e.symm)), hpend1]
      generalize hfin : bfFinish sp2 path made r2 = fin at hcl3 hpc3 hpend3 ⊢
      obtain ⟨r3, sp3⟩ := fin
      simp only at hcl3 hpc3 hpend3 ⊢
      have hk := ihk r3 t sp3 hpc3 (fun p hp => by
        rw [hcl3]; apply hkc; rw [hcl1]; exact List.mem_cons_of_mem _ (ht p hp))
      exact ⟨hk.1, fun q hq => by rw [hk.2 q hq, hpend3 q]⟩
  | subbuild fname args kwargs body k ihb ihk =>
    intro t sp h ht
    simp only [run]
    split
    · exact ihk _ t sp h ht
    · split
      · exact ihk _ t (consumeSubFault sp _) h ht
      · generalize hs1 : ({ sp with
          claimedSubs := subKey fname args kwargs :: sp.claimedSubs,
          invLog := { fname := fname, target := none, args := args, kwargs := kwargs } :: sp.invLog } : SpecSt) = s1
        have hpc1 : PendClaimed s1 := by subst hs1; exact h
        have hb := ihb none s1 hpc1 (fun p hp => by cases hp)
        have hkc := (run_keeps_claimed body none s1).1
        generalize hrb : run body none s1 = rb at hb hkc ⊢
        obtain ⟨r2, sp2, tr2⟩ := rb
        simp only at hb hkc ⊢
        have hk := ihk r2 t sp2 hb.1 (fun p hp => hkc p (by subst hs1; exact ht p hp))
        refine ⟨hk.1, fun q hq => ?_⟩
        rw [hk.2 q hq, hb.2 q (by simp)]
        subst hs1; rfl

mutual
/-- re-enacting a record writes nothing into any target -/
theorem replayOp_pending : (o : Op) → (s s' : KSt) → Impl.replayOp o s = some s' → s'.sp.pending = s.sp.pending
  | .simple q ret exc ans, s, s', h => by
    unfold Impl.replayOp at h
    have : s' = s := by
      split at h
      · split at h <;> simp_all
      · split at h <;> simp_all
      · cases h
    subst this; rfl
  | .buildFile path cmp fname args kwargs subs ret cmpRes raised sf content, s, s', h => by
    obtain ⟨_, _, _, _, _, _, made, s2, _, _, hs2, hs'⟩ := replayOp_buildFile_some _ _ _ _ _ _ _ _ _ _ _ _ _ h
    have := replayOps_pending subs _ s2 hs2
    subst hs'
    cases raised <;> simpa [Impl.unwind, Impl.adopt, replayS1] using this
  | .subbuild fname args kwargs subs ret raised sf, s, s', h => by
    obtain ⟨_, _, _, hs⟩ := replayOp_subbuild_some _ _ _ _ _ _ _ _ _ h
    exact replayOps_pending subs (claimSub s (subKey fname args kwargs)) s' hs
theorem replayOps_pending : (os : List Op) → (s s' : KSt) → Impl.replayOps os s = some s' → s'.sp.pending = s.sp.pending
  | [], s, s', h => by simp [Impl.replayOps] at h; subst h; rfl
  | o :: os, s, s', h => by
    obtain ⟨sm, h1, h2⟩ := (replayOps_cons o os s s').mp h
    rw [replayOps_pending os sm s' h2, replayOp_pending o s sm h1]
end

/-- `bfFinish` in two states that agree up to modification times -/
theorem sim_bfFinish {a b : SpecSt} (h : SpecSt.Sim a b) (hp : PendSim a b) (path : Path) (made : List Path)
    (r : CallRes) :
    (bfFinish a path made r).1 = (bfFinish b path made r).1 ∧
    SpecSt.Sim (bfFinish a path made r).2 (bfFinish b path made r).2 ∧
    PendSim (bfFinish a path made r).2 (bfFinish b path made r).2 := by
  have hps : ∀ (x y : SpecSt), x.pending = a.pending.filter (fun x => x.1 ≠ path) →
      y.pending = b.pending.filter (fun x => x.1 ≠ path) → PendSim x y := by
    intro x y hx hy q
    rw [hx, hy, pendingFind_filter, pendingFind_filter]
    split
    · rfl
    · exact hp q
  have hfail : SpecSt.Sim (failSt a path made) (failSt b path made) := by
    have hfs := sim_rmEmpty made h.fs
    have hfilter : made.filter (rmEmpty a.fs made).isDir = made.filter (rmEmpty b.fs made).isDir := by
      apply List.filter_congr
      intro x _; exact hfs.isDir x
    simp only [failSt]
    exact ⟨hfs, h.cacheFile, h.dirSize, h.claimedFiles, h.claimedSubs, by simp [h.inProg], h.outputs,
      by simp [hfilter, h.createdDirs], h.failFiles, h.failSubs⟩
  cases r with
  | error e =>
    rw [bfFinish_error, bfFinish_error]
    exact ⟨rfl, hfail, hps _ _ rfl rfl⟩
  | ok j =>
    have hpp := hp path
    cases ha : pendingFind a.pending path with
    | none =>
      have hb : pendingFind b.pending path = none := by
        rw [ha] at hpp
        cases hb' : pendingFind b.pending path with
        | none => rfl
        | some x => rw [hb'] at hpp; cases hpp
      rw [bfFinish_notCreated _ _ _ _ ha, bfFinish_notCreated _ _ _ _ hb]
      exact ⟨rfl, hfail, hps _ _ rfl rfl⟩
    | some x =>
      obtain ⟨c, m⟩ := x
      have hb : ∃ m', pendingFind b.pending path = some (c, m') := by
        rw [ha] at hpp
        cases hb' : pendingFind b.pending path with
        | none => rw [hb'] at hpp; cases hpp
        | some y =>
          obtain ⟨c', m'⟩ := y
          rw [hb'] at hpp
          simp at hpp; subst hpp; exact ⟨m', rfl⟩
      obtain ⟨m', hb⟩ := hb
      unfold bfFinish
      simp only [ha, hb]
      refine ⟨trivial, ?_, hps _ _ rfl rfl⟩
      exact ⟨h.fs.set path _ _ (by simp [Entry.sim]), h.cacheFile, h.dirSize, h.claimedFiles, h.claimedSubs,
        by simp [h.inProg], by simp [h.outputs], by simp [h.createdDirs], h.failFiles, h.failSubs⟩

end FB
