/-
  `sortStrs` (the model of `sorted(os.listdir(d))`) depends only on the set of names.
  Uses Mathlib's linear order on `String` (core `<`).
-/
import Mathlib.Data.String.Basic
import FB.FS
namespace FB
namespace FS

theorem mem_insertStr' (s n : String) (l : List String) : n ∈ insertStr s l ↔ n = s ∨ n ∈ l := by
  induction l with
  | nil => simp [insertStr]
  | cons t r ih =>
    simp only [insertStr]
    split
    · simp
    · split
      · rename_i h; subst h; simp
      · simp [ih, or_left_comm]

theorem mem_sortStrs' (n : String) (l : List String) : n ∈ sortStrs l ↔ n ∈ l := by
  induction l with
  | nil => simp [sortStrs]
  | cons t r ih => simp [sortStrs, mem_insertStr', ih]

theorem pairwise_insertStr (s : String) (l : List String) (h : l.Pairwise (· < ·)) :
    (insertStr s l).Pairwise (· < ·) := by
  induction l with
  | nil => simp [insertStr]
  | cons t r ih =>
    simp only [insertStr]
    rw [List.pairwise_cons] at h
    split
    · rename_i hst
      rw [List.pairwise_cons]
      refine ⟨?_, List.pairwise_cons.mpr h⟩
      intro x hx
      rcases List.mem_cons.mp hx with rfl | hx
      · exact hst
      · exact lt_trans hst (h.1 x hx)
    · split
      · exact List.pairwise_cons.mpr h
      · rename_i hst hne
        rw [List.pairwise_cons]
        refine ⟨?_, ih h.2⟩
        intro x hx
        rcases (mem_insertStr' s x r).mp hx with rfl | hx
        · exact lt_of_le_of_ne (not_lt.mp hst) (Ne.symm hne)
        · exact h.1 x hx

theorem pairwise_sortStrs (l : List String) : (sortStrs l).Pairwise (· < ·) := by
  induction l with
  | nil => simp [sortStrs]
  | cons t r ih => exact pairwise_insertStr t _ ih

/-- the sorted listing is a function of the set of names -/
theorem sortStrs_congr (l l' : List String) (h : ∀ n, n ∈ l ↔ n ∈ l') : sortStrs l = sortStrs l' := by
  have p1 := pairwise_sortStrs l
  have p2 := pairwise_sortStrs l'
  have nd : ∀ {m : List String}, m.Pairwise (· < ·) → m.Nodup := by
    intro m hm
    exact hm.imp (fun hab => ne_of_lt hab)
  apply List.Perm.eq_of_pairwise (le := (· < ·)) _ p1 p2
  · exact (List.perm_ext_iff_of_nodup (nd p1) (nd p2)).mpr (fun a => by
      rw [mem_sortStrs', mem_sortStrs', h])
  · intro a b _ _ hab hba
    exact absurd hab (lt_asymm hba)

end FS
end FB
