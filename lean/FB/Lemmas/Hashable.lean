/-
  Assoc lists of hashable forms with distinct keys: the flattened sorted tuple `to_hashable` builds
  for a dict is equal (Python `==`) to another one iff the dicts have the same keys with equal values.
-/
import Mathlib.Data.String.Basic
import Mathlib.Data.List.Perm.Subperm
import FB.Lemmas.Json
namespace FB

abbrev HA := List (String × H)

def keysOf {α} (l : List (String × α)) : List String := l.map (·.1)

/-- `key in B and f(B[key])` -/
def lookupH (f : H → Bool) (k : String) : HA → Bool
  | [] => false
  | (k', h') :: b => if k = k' then f h' else lookupH f k b

/-- same length, and every entry of `A` has a `heq`-equal entry in `B` -/
def objEqH (A B : HA) : Bool := A.length == B.length && A.all (fun x => lookupH (heq x.2) x.1 B)

/-! ### `heq` is an equivalence -/
mutual
theorem heq_refl : (a : H) → heq a a = true
  | .null => by simp [heq]
  | .num n => by simp [heq, Num.eq]
  | .str s => by simp [heq]
  | .tup xs => by simpa [heq] using heqL_refl xs
theorem heqL_refl : (xs : List H) → heqL xs xs = true
  | [] => by simp [heqL]
  | x :: xs => by simp [heqL, heq_refl x, heqL_refl xs]
end

mutual
theorem heq_symm : (a b : H) → heq a b = heq b a
  | .null, b => by cases b <;> simp [heq]
  | .num n, b => by
    cases b <;> simp [heq, Num.eq]
    exact eq_comm
  | .str s, b => by
    cases b <;> simp [heq]
    exact eq_comm
  | .tup xs, b => by
    cases b with
    | tup ys => simpa [heq] using heqL_symm xs ys
    | _ => simp [heq]
theorem heqL_symm : (xs ys : List H) → heqL xs ys = heqL ys xs
  | [], [] => rfl
  | [], _ :: _ => by simp [heqL]
  | _ :: _, [] => by simp [heqL]
  | x :: xs, y :: ys => by simp [heqL, heq_symm x y, heqL_symm xs ys]
end

mutual
theorem heq_trans : (a b c : H) → heq a b = true → heq b c = true → heq a c = true
  | .null, b, c, h1, h2 => by cases b <;> cases c <;> simp_all [heq]
  | .num n, b, c, h1, h2 => by
    cases b <;> cases c <;> simp_all [heq, Num.eq]
  | .str s, b, c, h1, h2 => by cases b <;> cases c <;> simp_all [heq]
  | .tup xs, b, c, h1, h2 => by
    cases b with
    | tup ys => cases c with
      | tup zs => simp only [heq] at h1 h2 ⊢; exact heqL_trans xs ys zs h1 h2
      | _ => simp [heq] at h2
    | _ => simp [heq] at h1
theorem heqL_trans : (xs ys zs : List H) → heqL xs ys = true → heqL ys zs = true → heqL xs zs = true
  | [], ys, zs, h1, h2 => by cases ys <;> cases zs <;> simp_all [heqL]
  | x :: xs, ys, zs, h1, h2 => by
    cases ys with
    | nil => simp [heqL] at h1
    | cons y ys => cases zs with
      | nil => simp [heqL] at h2
      | cons z zs =>
        simp only [heqL, Bool.and_eq_true] at h1 h2 ⊢
        exact ⟨heq_trans x y z h1.1 h2.1, heqL_trans xs ys zs h1.2 h2.2⟩
end

/-! ### sorting by key -/

theorem keysOf_insertKey {α} (k : String) (v : α) (l : List (String × α)) :
    (keysOf (insertKey k v l)).Perm (k :: keysOf l) := by
  induction l with
  | nil => simp [insertKey, keysOf]
  | cons x r ih =>
    obtain ⟨k', v'⟩ := x
    simp only [insertKey]
    split
    · simp [keysOf]
    · simp only [keysOf, List.map_cons] at ih ⊢
      exact (List.Perm.cons k' ih).trans (List.Perm.swap k k' _)

theorem insertKey_perm {α} (k : String) (v : α) (l : List (String × α)) :
    (insertKey k v l).Perm ((k, v) :: l) := by
  induction l with
  | nil => simp [insertKey]
  | cons x r ih =>
    obtain ⟨k', v'⟩ := x
    simp only [insertKey]
    split
    · exact List.Perm.refl _
    · exact (List.Perm.cons _ ih).trans (List.Perm.swap _ _ _)

theorem sortKeys_perm {α} (l : List (String × α)) : (sortKeys l).Perm l := by
  induction l with
  | nil => simp [sortKeys]
  | cons x r ih =>
    obtain ⟨k, v⟩ := x
    exact (insertKey_perm k v _).trans (List.Perm.cons _ ih)

/-- keys strictly increasing -/
def SortedK {α} (l : List (String × α)) : Prop := (keysOf l).Pairwise (· < ·)

theorem sortedK_insertKey {α} (k : String) (v : α) (l : List (String × α)) (hs : SortedK l)
    (hk : k ∉ keysOf l) : SortedK (insertKey k v l) := by
  induction l with
  | nil => simp [insertKey, SortedK, keysOf]
  | cons x r ih =>
    obtain ⟨k', v'⟩ := x
    simp only [SortedK, keysOf, List.map_cons, List.pairwise_cons] at hs
    simp only [keysOf, List.map_cons, List.mem_cons, not_or] at hk
    simp only [insertKey]
    split
    · rename_i hlt
      simp only [SortedK, keysOf, List.map_cons, List.pairwise_cons]
      refine ⟨?_, hs⟩
      intro a ha
      rcases List.mem_cons.mp ha with rfl | ha
      · exact hlt
      · exact lt_trans hlt (hs.1 a ha)
    · rename_i hnlt
      have hlt : k' < k := lt_of_le_of_ne (not_lt.mp hnlt) (Ne.symm hk.1)
      have ih' := ih hs.2 hk.2
      simp only [SortedK, keysOf, List.map_cons, List.pairwise_cons]
      refine ⟨?_, ih'⟩
      intro a ha
      have := (keysOf_insertKey k v r).subset ha
      rcases List.mem_cons.mp this with rfl | ha'
      · exact hlt
      · exact hs.1 a ha'

theorem sortedK_sortKeys {α} (l : List (String × α)) (hd : (keysOf l).Nodup) : SortedK (sortKeys l) := by
  induction l with
  | nil => simp [sortKeys, SortedK, keysOf]
  | cons x r ih =>
    obtain ⟨k, v⟩ := x
    simp only [keysOf, List.map_cons, List.nodup_cons] at hd
    simp only [sortKeys]
    apply sortedK_insertKey k v _ (ih hd.2)
    intro hm
    have : (keysOf (sortKeys r)).Perm (keysOf r) := (sortKeys_perm r).map _
    exact hd.1 (this.subset hm)

/-! ### lookup in lists with distinct keys -/

theorem lookupH_of_mem (f : H → Bool) (B : HA) (hd : (keysOf B).Nodup) (k : String) (h : H)
    (hm : (k, h) ∈ B) : lookupH f k B = f h := by
  induction B with
  | nil => cases hm
  | cons x r ih =>
    obtain ⟨k', h'⟩ := x
    simp only [keysOf, List.map_cons, List.nodup_cons] at hd
    simp only [lookupH]
    rcases List.mem_cons.mp hm with e | hm'
    · injection e with e1 e2; subst e1 e2; simp
    · have hne : k ≠ k' := by
        intro e; subst e
        exact hd.1 (List.mem_map.mpr ⟨(k, h), hm', rfl⟩)
      simp only [hne, if_false]
      exact ih hd.2 hm'

theorem lookupH_false_of_not_mem (f : H → Bool) (B : HA) (k : String) (hk : k ∉ keysOf B) :
    lookupH f k B = false := by
  induction B with
  | nil => rfl
  | cons x r ih =>
    obtain ⟨k', h'⟩ := x
    simp only [keysOf, List.map_cons, List.mem_cons, not_or] at hk
    simp only [lookupH, hk.1, if_false]
    exact ih hk.2

theorem lookupH_true_iff (f : H → Bool) (B : HA) (hd : (keysOf B).Nodup) (k : String) :
    lookupH f k B = true ↔ ∃ h, (k, h) ∈ B ∧ f h = true := by
  constructor
  · intro hl
    by_cases hk : k ∈ keysOf B
    · obtain ⟨⟨k', h⟩, hm, hk'⟩ := List.mem_map.mp hk
      simp only at hk'; subst hk'
      rw [lookupH_of_mem f B hd _ h hm] at hl
      exact ⟨h, hm, hl⟩
    · rw [lookupH_false_of_not_mem f B k hk] at hl; cases hl
  · rintro ⟨h, hm, hf⟩
    rw [lookupH_of_mem f B hd k h hm]; exact hf

/-- `objEqH` only depends on the lists as sets of entries -/
theorem objEqH_perm (A A' B B' : HA) (hA : A.Perm A') (hB : B.Perm B') (hdB : (keysOf B).Nodup) :
    objEqH A B = objEqH A' B' := by
  have hdB' : (keysOf B').Nodup := (hB.map _).nodup_iff.mp hdB
  have hlk : ∀ x : String × H, lookupH (heq x.2) x.1 B = lookupH (heq x.2) x.1 B' := by
    intro x
    apply Bool.eq_iff_iff.mpr
    rw [lookupH_true_iff _ _ hdB, lookupH_true_iff _ _ hdB']
    constructor
    · rintro ⟨h, hm, hf⟩; exact ⟨h, hB.subset hm, hf⟩
    · rintro ⟨h, hm, hf⟩; exact ⟨h, hB.symm.subset hm, hf⟩
  unfold objEqH
  rw [hA.length_eq, hB.length_eq]
  congr 1
  have : (fun x : String × H => lookupH (heq x.2) x.1 B) = (fun x => lookupH (heq x.2) x.1 B') := funext hlk
  rw [this]
  apply Bool.eq_iff_iff.mpr
  simp only [List.all_eq_true]
  constructor
  · intro h x hx; exact h x (hA.symm.subset hx)
  · intro h x hx; exact h x (hA.subset hx)

/-- if `objEqH A B` holds (distinct keys on both sides), the key sets coincide -/
theorem objEqH_keys (A B : HA) (hdA : (keysOf A).Nodup) (hdB : (keysOf B).Nodup)
    (h : objEqH A B = true) : ∀ k, k ∈ keysOf A ↔ k ∈ keysOf B := by
  unfold objEqH at h
  simp only [Bool.and_eq_true, beq_iff_eq, List.all_eq_true] at h
  obtain ⟨hlen, hall⟩ := h
  have hsub : keysOf A ⊆ keysOf B := by
    intro k hk
    obtain ⟨⟨k', hh⟩, hm, e⟩ := List.mem_map.mp hk
    simp only at e; subst e
    have := hall _ hm
    by_contra hn
    rw [lookupH_false_of_not_mem _ _ _ hn] at this; cases this
  have hperm : (keysOf A).Perm (keysOf B) := by
    have hsp : (keysOf A).Subperm (keysOf B) := List.subperm_of_subset hdA hsub
    exact hsp.perm_of_length_le (by simp [keysOf, hlen])
  intro k
  exact ⟨fun hk => hperm.subset hk, fun hk => hperm.symm.subset hk⟩

/-- the heart: on key-sorted lists with distinct keys, element-wise equality of the flattened tuples
    is `objEqH` -/
theorem heqL_flatten_sorted : (A B : HA) → SortedK A → SortedK B →
    heqL (flattenKV A) (flattenKV B) = objEqH A B
  | [], [], _, _ => by simp [flattenKV, heqL, objEqH]
  | [], (k, h) :: B, _, _ => by simp [flattenKV, heqL, objEqH]
  | (k, h) :: A, [], _, _ => by simp [flattenKV, heqL, objEqH]
  | (k, h) :: A, (k', h') :: B, hsA, hsB => by
    have hsA' : SortedK A := by
      simp only [SortedK, keysOf, List.map_cons, List.pairwise_cons] at hsA; exact hsA.2
    have hsB' : SortedK B := by
      simp only [SortedK, keysOf, List.map_cons, List.pairwise_cons] at hsB; exact hsB.2
    have hkA : ∀ a ∈ keysOf A, k < a := by
      simp only [SortedK, keysOf, List.map_cons, List.pairwise_cons] at hsA; exact hsA.1
    have hkB : ∀ a ∈ keysOf B, k' < a := by
      simp only [SortedK, keysOf, List.map_cons, List.pairwise_cons] at hsB; exact hsB.1
    have ndA : (keysOf ((k, h) :: A)).Nodup := hsA.imp (fun hab => ne_of_lt hab)
    have ndB : (keysOf ((k', h') :: B)).Nodup := hsB.imp (fun hab => ne_of_lt hab)
    have ih := heqL_flatten_sorted A B hsA' hsB'
    simp only [flattenKV, heqL, heq]
    by_cases hkk : k = k'
    · subst hkk
      simp only [beq_self_eq_true, Bool.true_and]
      rw [ih]
      unfold objEqH
      simp only [List.length_cons, List.all_cons]
      have hhead : lookupH (heq h) k ((k, h') :: B) = heq h h' := by simp [lookupH]
      have hrest : A.all (fun x => lookupH (heq x.2) x.1 ((k, h') :: B)) = A.all (fun x => lookupH (heq x.2) x.1 B) := by
        apply Bool.eq_iff_iff.mpr
        simp only [List.all_eq_true]
        have hne : ∀ x ∈ A, x.1 ≠ k := by
          intro x hx e
          have := hkA x.1 (List.mem_map.mpr ⟨x, hx, rfl⟩)
          rw [e] at this; exact lt_irrefl _ this
        constructor
        · intro hh x hx
          have := hh x hx
          simpa [lookupH, hne x hx] using this
        · intro hh x hx
          have := hh x hx
          simpa [lookupH, hne x hx] using this
      rw [hhead, hrest]
      have hl : (A.length + 1 == B.length + 1) = (A.length == B.length) := by simp
      rw [hl]
      cases heq h h' <;> cases (A.length == B.length) <;> simp
    · -- different smallest keys: the key sets differ
      have hfalse : objEqH ((k, h) :: A) ((k', h') :: B) = false := by
        cases ho : objEqH ((k, h) :: A) ((k', h') :: B) with
        | false => rfl
        | true =>
          exfalso
          have hkeys := objEqH_keys _ _ ndA ndB ho
          have h1 : k ∈ keysOf ((k', h') :: B) := (hkeys k).mp (by simp [keysOf])
          have h2 : k' ∈ keysOf ((k, h) :: A) := (hkeys k').mpr (by simp [keysOf])
          simp only [keysOf, List.map_cons, List.mem_cons] at h1 h2
          rcases h1 with e | h1
          · exact hkk e
          · rcases h2 with e | h2
            · exact hkk e.symm
            · exact lt_asymm (hkB k h1) (hkA k' h2)
      rw [hfalse]
      simp [hkk]

/-- `to_hashable` of two dicts (as assoc lists of hashable forms with distinct keys) compare equal iff
    the dicts have the same keys with `heq`-equal values -/
theorem heqL_flatten_sortKeys (A B : HA) (hdA : (keysOf A).Nodup) (hdB : (keysOf B).Nodup) :
    heqL (flattenKV (sortKeys A)) (flattenKV (sortKeys B)) = objEqH A B := by
  rw [heqL_flatten_sorted _ _ (sortedK_sortKeys A hdA) (sortedK_sortKeys B hdB)]
  exact objEqH_perm _ _ _ _ (sortKeys_perm A) (sortKeys_perm B)
    (((sortKeys_perm B).map _).nodup_iff.mpr hdB)

end FB
