/-
  C07 — cache identity is JSON equality of name and arguments (model: `subKey` = `Cache.subbuild_key`,
  `lookupFile`'s `is_equal` tests).  The path-spelling half (`_sanitize_filename`) is `FB.PathNorm`.
-/
import FB.Props.C18
import FB.Impl
namespace FB

/-- **C07 (subbuild)**: two subbuild calls resolve to the same cache entry (equal keys, Python `==` on
    the hashable forms) if and only if they have the same function name and JSON-equal positional and
    keyword arguments. -/
theorem C07_subkey_iff (f f' : String) (a a' k k' : Json)
    (ha : a.wf = true) (ha' : a'.wf = true) (hk : k.wf = true) (hk' : k'.wf = true) :
    heq (subKey f a k) (subKey f' a' k') = (decide (f = f') && isEqual a a' && isEqual k k') := by
  unfold subKey
  rw [toHashable_iff (.arr [.str f, a, k]) (by simp [Json.wf, Json.wfL, ha, hk])
    (.arr [.str f', a', k']) (by simp [Json.wf, Json.wfL, ha', hk'])]
  simp only [isEqual, isEqualL, Bool.and_true, Bool.and_assoc]
  rw [beq_eq_decide]

/-- **C07 (build_file)**: a cached `build_file` record is only considered for a call with the same
    function name and JSON-equal arguments (the path is the lookup key itself). -/
theorem C07_lookupFile_needs_equal_args (s : KSt) (path : Path) (cmp : Cmp) (fname : String)
    (args kwargs : Json) (made : List Path) (op : Op) (s2 : KSt)
    (h : Impl.lookupFile s path cmp fname args kwargs made = some (op, s2)) :
    ∃ rcmp rfname rargs rkwargs subs ret cmpRes sf content,
      s.old.getFile path = some (.buildFile path rcmp rfname rargs rkwargs subs ret cmpRes false sf content) ∨
      (∃ q, s.old.getFile path = some (.buildFile q rcmp rfname rargs rkwargs subs ret cmpRes false sf content) ∧
        rfname = fname ∧ isEqual rargs args = true ∧ isEqual rkwargs kwargs = true) := by
  unfold Impl.lookupFile at h
  split at h
  · rename_i q rcmp rfname rargs rkwargs subs ret cmpRes sf content hget
    split at h
    · rename_i hc
      simp only [Bool.and_eq_true, decide_eq_true_eq] at hc
      exact ⟨rcmp, rfname, rargs, rkwargs, subs, ret, cmpRes, sf, content,
        Or.inr ⟨q, hget, hc.1.1.1.1, hc.1.1.2, hc.1.2⟩⟩
    · cases h
  · cases h

/-- the collision cases the property names -/
example :
    heq (subKey "f" (.arr [.num (.int 1)]) (.obj [])) (subKey "f" (.arr [.num (.flt ⟨1, 0, false⟩)]) (.obj [])) = true ∧
    heq (subKey "f" (.arr [.bool true]) (.obj [])) (subKey "f" (.arr [.num (.int 1)]) (.obj [])) = false ∧
    heq (subKey "f" (.arr [.arr [.num (.int 1)]]) (.obj [])) (subKey "f" (.arr [.bool true]) (.obj [])) = false ∧
    heq (subKey "f" (.arr []) (.obj [("a", .num (.int 1)), ("b", .null)]))
        (subKey "f" (.arr []) (.obj [("b", .null), ("a", .num (.int 1))])) = true ∧
    heq (subKey "f" (.arr [.arr [.num (.int 1), .num (.int 2)]]) (.obj []))
        (subKey "f" (.arr [.arr [.num (.int 2), .num (.int 1)]]) (.obj [])) = false := by decide

end FB
