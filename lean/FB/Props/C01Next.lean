/-
  From one build to the next: the records a build writes are valid for the next program, provided
  function names keep denoting the same functions (`Stable`).
-/
import FB.Props.C01Follows
namespace FB
open FS Spec

/-- what is known about a registered record of a run that follows `prog` -/
def RecValid (ds : Nat) (prog : Prog) : Op → Prop
  | .simple _ _ _ _ => True
  | .buildFile path cmp fname args kwargs subs ret cmpRes raised _ content =>
    raised = false → ∃ body k, Reach prog (.buildFile path cmp fname args kwargs body k) ∧
      Follows ds body (some path) subs (.ok ret) (some content) ∧ ∃ m0, cmpRes = View.cmpResult cmp content m0
  | .subbuild fname args kwargs subs ret raised _ =>
    raised = false → ∃ body k wb, Reach prog (.subbuild fname args kwargs body k) ∧
      Follows ds body none subs (.ok ret) wb

theorem RecValid.of_reach {ds : Nat} {p c : Prog} (hr : Reach p c) : (o : Op) → RecValid ds c o → RecValid ds p o
  | .simple _ _ _ _, _ => trivial
  | .buildFile _ _ _ _ _ _ _ _ _ _ _, h => by
    intro hr'
    obtain ⟨body, k, h1, h2⟩ := h hr'
    exact ⟨body, k, hr.trans h1, h2⟩
  | .subbuild _ _ _ _ _ _ _, h => by
    intro hr'
    obtain ⟨body, k, wb, h1, h2⟩ := h hr'
    exact ⟨body, k, wb, hr.trans h1, h2⟩

theorem mem_registeredL_cons (o : Op) (os : List Op) (x : Op) :
    x ∈ registeredL (o :: os) ↔ x ∈ registered o ∨ x ∈ registeredL os := by
  simp [registeredL]

/-- every registered record of a run that follows `prog` was produced at a call `prog` reaches, and
    follows that call's function -/
theorem follows_registered {ds : Nat} {prog : Prog} {t : Option Path} {ops : List Op} {r : CallRes}
    {w : Option String} (hF : Follows ds prog t ops r w) : ∀ x ∈ registeredL ops, RecValid ds prog x := by
  induction hF with
  | retOk => intro x hx; simp [registeredL] at hx
  | retBad => intro x hx; simp [registeredL] at hx
  | raise => intro x hx; simp [registeredL] at hx
  | query q k t ops r w ret exc ans _ _ ih =>
    intro x hx
    rw [mem_registeredL_cons] at hx
    rcases hx with hx | hx
    · simp [registered] at hx
    · exact RecValid.of_reach (.query q k ans _ (.here _)) x (ih x hx)
  | writeSome b mt k p ops r w _ ih =>
    intro x hx
    exact RecValid.of_reach (.write b mt k _ (.here _)) x (ih x hx)
  | writeNone b mt k ops r w _ ih =>
    intro x hx
    exact RecValid.of_reach (.write b mt k _ (.here _)) x (ih x hx)
  | bfSetupFail path cmp fname args kwargs body k t ops r w e _ ih =>
    intro x hx
    rw [mem_registeredL_cons] at hx
    rcases hx with hx | hx
    · simp [registered, registeredL] at hx
    · exact RecValid.of_reach (.bfCont path cmp fname args kwargs body k (.error e) _ (.here _)) x (ih x hx)
  | bfOk path cmp fname args kwargs body k t subs j c m0 ops r w hb _ ihb ihk =>
    intro x hx
    rw [mem_registeredL_cons] at hx
    rcases hx with hx | hx
    · simp only [registered, Bool.false_eq_true, if_false, List.mem_append, List.mem_singleton] at hx
      rcases hx with hx | hx
      · exact RecValid.of_reach (.bfBody path cmp fname args kwargs body k _ (.here _)) x (ihb x hx)
      · subst hx
        intro _
        exact ⟨body, k, .here _, hb, m0, rfl⟩
    · exact RecValid.of_reach (.bfCont path cmp fname args kwargs body k (.ok j) _ (.here _)) x (ihk x hx)
  | bfRaise path cmp fname args kwargs body k t subs e kept wb ops r w _ _ ihb ihk =>
    intro x hx
    rw [mem_registeredL_cons] at hx
    rcases hx with hx | hx
    · simp only [registered, Bool.false_eq_true, if_false, List.mem_append, List.mem_singleton] at hx
      rcases hx with hx | hx
      · exact RecValid.of_reach (.bfBody path cmp fname args kwargs body k _ (.here _)) x (ihb x hx)
      · subst hx
        intro h; cases h
    · exact RecValid.of_reach (.bfCont path cmp fname args kwargs body k (.error e) _ (.here _)) x (ihk x hx)
  | bfNotCreated path cmp fname args kwargs body k t subs j ops r w _ _ ihb ihk =>
    intro x hx
    rw [mem_registeredL_cons] at hx
    rcases hx with hx | hx
    · simp only [registered, Bool.false_eq_true, if_false, List.mem_append, List.mem_singleton] at hx
      rcases hx with hx | hx
      · exact RecValid.of_reach (.bfBody path cmp fname args kwargs body k _ (.here _)) x (ihb x hx)
      · subst hx
        intro h; cases h
    · exact RecValid.of_reach (.bfCont path cmp fname args kwargs body k (.error (notCreatedExc path)) _ (.here _)) x (ihk x hx)
  | sbSetupFail fname args kwargs body k t ops r w e _ ih =>
    intro x hx
    rw [mem_registeredL_cons] at hx
    rcases hx with hx | hx
    · simp [registered, registeredL] at hx
    · exact RecValid.of_reach (.sbCont fname args kwargs body k (.error e) _ (.here _)) x (ih x hx)
  | sbOk fname args kwargs body k t subs j wb ops r w hb _ ihb ihk =>
    intro x hx
    rw [mem_registeredL_cons] at hx
    rcases hx with hx | hx
    · simp only [registered, Bool.false_eq_true, if_false, List.mem_append, List.mem_singleton] at hx
      rcases hx with hx | hx
      · exact RecValid.of_reach (.sbBody fname args kwargs body k _ (.here _)) x (ihb x hx)
      · subst hx
        intro _
        exact ⟨body, k, wb, .here _, hb⟩
    · exact RecValid.of_reach (.sbCont fname args kwargs body k (.ok j) _ (.here _)) x (ihk x hx)
  | sbRaise fname args kwargs body k t subs e wb ops r w _ _ ihb ihk =>
    intro x hx
    rw [mem_registeredL_cons] at hx
    rcases hx with hx | hx
    · simp only [registered, Bool.false_eq_true, if_false, List.mem_append, List.mem_singleton] at hx
      rcases hx with hx | hx
      · exact RecValid.of_reach (.sbBody fname args kwargs body k _ (.here _)) x (ihb x hx)
      · subst hx
        intro h; cases h
    · exact RecValid.of_reach (.sbCont fname args kwargs body k (.error e) _ (.here _)) x (ihk x hx)

/-- **The contract on the user's functions**, from the program `p` of one build to the program `p'` of a
    later one: a function whose version did not change, called for the same file (resp. with the same
    subbuild key) and JSON-equal arguments, can still produce every record it could produce — as long as
    the record mentions only functions whose versions did not change either.  (For programs given by a
    function table this says: the table entry of an unchanged function is unchanged.) -/
structure Stable (ds : Nat) (old : CacheRec) (nv : List (String × Json)) (p p' : Prog) : Prop where
  file : ∀ path cmp fname args kwargs body k, Reach p (.buildFile path cmp fname args kwargs body k) →
    ∀ cmp' args' kwargs' body' k', Reach p' (.buildFile path cmp' fname args' kwargs' body' k') →
    isEqual args args' = true → isEqual kwargs kwargs' = true →
    isEqual (verOf old.versions fname) (verOf nv fname) = true →
    ∀ subs r w, VersionsOk old nv subs → Follows ds body (some path) subs r w → Follows ds body' (some path) subs r w
  sub : ∀ fname args kwargs body k, Reach p (.subbuild fname args kwargs body k) →
    ∀ fname' args' kwargs' body' k', Reach p' (.subbuild fname' args' kwargs' body' k') →
    heq (subKey fname args kwargs) (subKey fname' args' kwargs') = true →
    isEqual (verOf old.versions fname') (verOf nv fname') = true →
    ∀ subs r w, VersionsOk old nv subs → Follows ds body none subs r w → Follows ds body' none subs r w

/-- the comparison results recorded in the cache identify contents (automatic for HASH — `faithful_of_hash`;
    for METADATA the user's assumption that size and modification time determine the content) -/
def FaithfulRec : Op → Prop
  | .simple _ _ _ _ => True
  | .buildFile _ cmp _ _ _ subs _ cmpRes raised _ content =>
    raised = false → FaithfulOps (fun _ _ _ => True) subs ∧
      ∀ b m, isEqual cmpRes (View.cmpResult cmp b m) = true → b = content
  | .subbuild _ _ _ subs _ raised _ => raised = false → FaithfulOps (fun _ _ _ => True) subs

theorem registered_sub_of_filter (f : Op → Bool) (ops : List Op) :
    ∀ x ∈ registeredL (ops.filter f), x ∈ registeredL ops := by
  induction ops with
  | nil => intro x hx; exact hx
  | cons o os ih =>
    intro x hx
    rw [mem_registeredL_cons]
    simp only [List.filter] at hx
    split at hx
    · rw [mem_registeredL_cons] at hx
      rcases hx with hx | hx
      · exact Or.inl hx
      · exact Or.inr (ih x hx)
    · exact Or.inr (ih x hx)

theorem mem_of_find?_reverse {α : Type} (l : List α) (p : α → Bool) (x : α)
    (h : l.reverse.find? p = some x) : x ∈ l ∧ p x = true := by
  have := List.find?_some h
  have hm := List.mem_of_find?_eq_some h
  exact ⟨List.mem_reverse.mp hm, this⟩

/-- **The cache one build writes is valid for the next program.** -/
theorem cacheOK_next {ds : Nat} {root root' : Prog} {ops : List Op} {r : CallRes} {w : Option String}
    (hF : Follows ds root none ops r w) (name : String) (created : List Path) (vs vs' : List (String × Json))
    (hst : Stable ds { buildName := name, roots := ops.filter Impl.isComplexRegistered, createdDirs := created, versions := vs }
      vs' root root')
    (hfa : ∀ x ∈ registeredL (ops.filter Impl.isComplexRegistered), FaithfulRec x) :
    CacheOK ds { buildName := name, roots := ops.filter Impl.isComplexRegistered, createdDirs := created, versions := vs }
      vs' root' := by
  constructor
  · intro path cmp' fname args' kwargs' body' k' hreach p' rcmp rargs rkwargs subs ret cmpRes sf content hget hia hik hv hvok
    obtain ⟨hmem, hat⟩ := mem_of_find?_reverse _ _ _ hget
    have hp' : p' = path := by simpa [Op.isFileAt] using hat
    subst hp'
    have hmem' := registered_sub_of_filter _ ops _ hmem
    obtain ⟨body, k, hr1, hfol, hm0⟩ := follows_registered hF _ hmem' rfl
    have hfr := hfa _ hmem rfl
    exact ⟨hst.file p' rcmp fname rargs rkwargs body k hr1 cmp' args' kwargs' body' k' hreach hia hik hv subs _ _ hvok hfol,
      hfr.1, hm0, hfr.2⟩
  · intro fname' args' kwargs' body' k' hreach f a kk subs ret sf hget hv hvok
    obtain ⟨hmem, hat⟩ := mem_of_find?_reverse _ _ _ hget
    have hkey : heq (subKey f a kk) (subKey fname' args' kwargs') = true := by simpa [Op.isSubWith] using hat
    have hmem' := registered_sub_of_filter _ ops _ hmem
    obtain ⟨body, k, wb, hr1, hfol⟩ := follows_registered hF _ hmem' rfl
    have hfr := hfa _ hmem rfl
    exact ⟨wb, hst.sub f a kk body k hr1 fname' args' kwargs' body' k' hreach hkey hv subs _ _ hvok hfol, hfr⟩

end FB
