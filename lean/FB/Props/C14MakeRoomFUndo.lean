/-
  C14 — `_make_room` under an injected fault keeps the bookkeeping of the build `Undoable` (`FB.Rollback`): wherever
  the `OSError` strikes, a rollback that follows restores the regular files of the pre-build tree
  (`makeRoomF_undoable` with `rollBack_restores_files`).
-/
import FB.Props.C02StepsRoom
import FB.Props.C14MakeRoomF
namespace FB
namespace Rollback
open FS Spec Backups BuildDirs
open MakeRoomF (C)

theorem entriesF_undoable (vd vf : Path → Bool) (fa : Option Nat) (P0 : FS) (r : RB) (top : Path) (hclean : ∀ q, top <+: q → q ∉ r.newOutputs) (fuel : Nat)
    (hmr : ∀ (c c' : C) (d : Path), top <+: d → RoomOK P0 r top c.st →
      (MakeRoomF.makeRoom vd vf fa fuel c d = .ok c' ∨ MakeRoomF.makeRoom vd vf fa fuel c d = .error c') → RoomOK P0 r top c'.st) :
    ∀ (l : List String) (c c' : C) (d : Path), top <+: d → RoomOK P0 r top c.st →
      (MakeRoomF.entries vd vf fa fuel c d l = .ok c' ∨ MakeRoomF.entries vd vf fa fuel c d l = .error c') → RoomOK P0 r top c'.st := by
  intro l
  induction l with
  | nil =>
    intro c c' d _ h hr
    rw [MakeRoomF.entries] at hr
    rcases hr with hr | hr
    · simp only [Except.ok.injEq] at hr; rw [← hr]; exact h
    · cases hr
  | cons n rest ih =>
    intro c c' d htop h hr
    rw [MakeRoomF.entries] at hr
    simp only at hr
    have hsub : top <+: d ++ [n] := htop.trans (List.prefix_append _ _)
    by_cases hd : c.st.fs.isDir (d ++ [n]) = true
    · simp only [hd, if_true] at hr
      by_cases hv : vd (d ++ [n]) = true
      · simp only [hv, if_true] at hr
        rcases hr with hr | hr
        · cases hr
        · simp only [Except.error.injEq] at hr; rw [← hr]; exact h
      · have hv' : vd (d ++ [n]) = false := by simpa using hv
        simp only [hv', Bool.false_eq_true, if_false] at hr
        cases hm : MakeRoomF.makeRoom vd vf fa fuel c (d ++ [n]) with
        | error c1 =>
          rw [hm] at hr
          rcases hr with hr | hr
          · cases hr
          · simp only [Except.error.injEq] at hr; rw [← hr]; exact hmr c c1 _ hsub h (Or.inr hm)
        | ok c1 =>
          rw [hm] at hr
          exact ih c1 c' d htop (hmr c c1 _ hsub h (Or.inl hm)) hr
    · have hd' : c.st.fs.isDir (d ++ [n]) = false := by simpa using hd
      simp only [hd', Bool.false_eq_true, if_false] at hr
      by_cases hv : vf (d ++ [n]) = true
      · simp only [hv, if_true] at hr
        rcases hr with hr | hr
        · cases hr
        · simp only [Except.error.injEq] at hr; rw [← hr]; exact h
      · have hv' : vf (d ++ [n]) = false := by simpa using hv
        simp only [hv', Bool.false_eq_true, if_false] at hr
        by_cases hf : fa = some c.n
        · simp only [hf, if_true] at hr
          rcases hr with hr | hr
          · cases hr
          · simp only [Except.error.injEq] at hr; rw [← hr]; exact h
        · simp only [hf, if_false] at hr
          exact ih _ c' d htop (roomOK_backup vd vf P0 r top hclean c.st (d ++ [n]) hsub hd' h) hr

/-- **`_make_room` keeps the bookkeeping `Undoable` wherever an injected `OSError` strikes** -/
theorem makeRoomF_undoable (vd vf : Path → Bool) (fa : Option Nat) (P0 : FS) (r : RB) (top : Path)
    (hclean : ∀ q, top <+: q → q ∉ r.newOutputs) : ∀ (fuel : Nat) (c c' : C) (d : Path), top <+: d →
      RoomOK P0 r top c.st →
      (MakeRoomF.makeRoom vd vf fa fuel c d = .ok c' ∨ MakeRoomF.makeRoom vd vf fa fuel c d = .error c') → RoomOK P0 r top c'.st := by
  intro fuel
  induction fuel with
  | zero =>
    intro c c' d _ h hr
    rw [MakeRoomF.makeRoom] at hr
    rcases hr with hr | hr
    · cases hr
    · simp only [Except.error.injEq] at hr; rw [← hr]; exact h
  | succ fuel ihf =>
    intro c c' d htop h hr
    rw [MakeRoomF.makeRoom] at hr
    have hen := entriesF_undoable vd vf fa P0 r top hclean fuel ihf (c.st.fs.listdir d) c
    cases he : MakeRoomF.entries vd vf fa fuel c d (c.st.fs.listdir d) with
    | error c1 =>
      rw [he] at hr
      rcases hr with hr | hr
      · cases hr
      · simp only [Except.error.injEq] at hr; rw [← hr]; exact hen c1 d htop h (Or.inr he)
    | ok c1 =>
      rw [he] at hr
      simp only at hr
      have h1 := hen c1 d htop h (Or.inl he)
      by_cases hf : fa = some c1.n
      · simp only [hf, if_true] at hr
        rcases hr with hr | hr
        · cases hr
        · simp only [Except.error.injEq] at hr; rw [← hr]; exact h1
      · simp only [hf, if_false] at hr
        -- the fault-free step: the rmdir of `FB.MakeRoom.makeRoom`, through the state it would have made
        cases hrm : c1.st.fs.rmdir d with
        | error e =>
          rw [hrm] at hr
          rcases hr with hr | hr
          · cases hr
          · simp only [Except.error.injEq] at hr; rw [← hr]; exact h1
        | ok fs' =>
          rw [hrm] at hr
          rcases hr with hr | hr
          · simp only [Except.ok.injEq] at hr
            rw [← hr]
            have hwas := rmdir_was_empty_dir c1.st.fs fs' d hrm
            have hget := fun q => get_rmdir c1.st.fs fs' d q hrm
            have hfs' : ∀ q, fs'.get q = (c1.st.fs.erase d).get q := by
              intro q
              rw [hget q]
              by_cases hq : q = d
              · subst hq
                by_cases hne : q = []
                · subst hne; simp [FS.rmdir] at hrm
                · simp [get_erase_self _ _ hne]
              · simp [hq, get_erase_ne _ _ _ hq]
            refine ⟨?_, ?_⟩
            · have hu := h1.1.eraseDir d hwas.1
              refine ⟨hu.saved_nodup, hu.saved_pre, ?_, ?_, hu.moved, ?_⟩
              · intro q cc m hq; have := hu.kept q cc m hq; rw [← hfs' q] at this; exact this
              · intro q cc m hq
                have hq' : fs'.get q = some (.file cc m) := hq
                rw [hfs' q] at hq'; exact hu.fresh q cc m hq'
              · intro x hx hx0
                apply hu.newdirs x _ hx0
                have hx' : fs'.isDir x = true := hx
                unfold FS.isDir at hx' ⊢
                rw [hfs' x] at hx'; exact hx'
            · intro q hq hm
              show fs'.get q = none
              rw [hget q]
              by_cases hqd : q = d
              · simp [hqd]
              · simp only [hqd, if_false]; exact h1.2 q hq hm
          · cases hr

/-- **C14 for `_make_room`, end to end**: the build's bookkeeping was `Undoable` when `_make_room` was entered; an
    `OSError` strikes at any of its mutating calls (or none does); whatever the outcome, the rollback that follows
    puts back exactly the regular files of the pre-build tree - bytes and times - and leaves no new directory (up to
    the recorded directories of the previous build, the latitude of C02) -/
theorem C14_makeRoom_fault_rollback (vd vf : Path → Bool) (fa : Option Nat) (P0 : FS) (r : RB) (top : Path)
    (hwf0 : TreeWF P0) (hclean : ∀ q, top <+: q → q ∉ r.newOutputs) (fuel : Nat) (c c' : C)
    (h : RoomOK P0 r top c.st)
    (hr : MakeRoomF.makeRoom vd vf fa fuel c top = .ok c' ∨ MakeRoomF.makeRoom vd vf fa fuel c top = .error c') :
    (∀ p cc m, P0.get p = some (.file cc m) → (rollBack c'.st.fs (rbOfR r c'.st)).get p = some (.file cc m)) ∧
    (∀ p cc m, (rollBack c'.st.fs (rbOfR r c'.st)).get p = some (.file cc m) → P0.get p = some (.file cc m)) ∧
    (∀ d, (rollBack c'.st.fs (rbOfR r c'.st)).isDir d = true → P0.isDir d = true ∨ d ∈ r.oldCreatedDirs) :=
  rollBack_restores_files P0 c'.st.fs (rbOfR r c'.st) hwf0
    (makeRoomF_undoable vd vf fa P0 r top hclean fuel c c' top (List.prefix_refl _) h hr).1

/-- the premises are met (non-vacuity): `_make_room` entered as the first disk-changing step of a build, on ANY
    well-formed tree, with the fault anywhere - the rollback restores every regular file -/
theorem C14_makeRoom_fault_rollback_first_step (vd vf : Path → Bool) (fa : Option Nat) (P0 : FS) (hwf0 : TreeWF P0)
    (oldOutputs oldCreatedDirs : List Path) (top : Path) (fuel : Nat) (c' : C)
    (hr : MakeRoomF.makeRoom vd vf fa fuel { st := { fs := P0, bk := {} } } top = .ok c' ∨
          MakeRoomF.makeRoom vd vf fa fuel { st := { fs := P0, bk := {} } } top = .error c') :
    ∀ p cc m, P0.get p = some (.file cc m) →
      (rollBack c'.st.fs (rbOfR { oldOutputs := oldOutputs, oldCreatedDirs := oldCreatedDirs } c'.st)).get p = some (.file cc m) :=
  (C14_makeRoom_fault_rollback vd vf fa P0 { oldOutputs := oldOutputs, oldCreatedDirs := oldCreatedDirs } top hwf0
    (fun _ _ hq => nomatch hq) fuel { st := { fs := P0, bk := {} } } c'
    ⟨Undoable.start P0 oldOutputs oldCreatedDirs, fun _ _ hq => nomatch hq⟩ hr).1

end Rollback
end FB
