/-
  C13 — comparison modes.  HASH tracks content, METADATA tracks size + mtime; a recorded `read` or a
  recorded output is accepted by replay exactly when the comparison result is JSON-equal.
-/
import FB.Lemmas.ReplayBasic
namespace FB
open FS Spec

/-- C13 (HASH): two HASH results are equal iff the bytes are equal — whatever size and mtime are
    (SHA-256 is modelled as injective: trusted). -/
theorem C13_hash_iff (b b0 : String) (m m0 : Nat) :
    isEqual (View.cmpResult .hash b m) (View.cmpResult .hash b0 m0) = true ↔ b = b0 := by
  constructor
  · exact cmpResult_hash_inj b b0 m m0
  · intro h; subst h; simp [View.cmpResult, isEqual]

/-- C13 (METADATA): two METADATA results are equal iff size and mtime_ns are equal — whatever the
    bytes are. -/
theorem C13_metadata_iff (b b0 : String) (m m0 : Nat) :
    isEqual (View.cmpResult .metadata b m) (View.cmpResult .metadata b0 m0) = true ↔
      (b.utf8ByteSize = b0.utf8ByteSize ∧ m = m0) :=
  cmpResult_metadata_iff b b0 m m0

/-- C13 (input read): a recorded successful `read p` is accepted by replay iff `p` is now a visible
    regular file whose comparison result equals the recorded one. -/
theorem C13_read_replay (s : KSt) (p : Path) (cmp : Cmp) (ret : Json) (ans : UAns) :
    (∃ s', Impl.replayOp (.simple (.read p cmp) ret none ans) s = some s') ↔
      ∃ b m, (visible s.sp).get p = some (.file b m) ∧ isEqual (View.cmpResult cmp b m) ret = true := by
  unfold Impl.replayOp
  simp only [View.recVal]
  cases hg : (visible s.sp).get p with
  | none => simp
  | some e =>
    cases e with
    | dir => simp
    | file b m =>
      simp only
      constructor
      · rintro ⟨s', h⟩
        split at h
        · rename_i hc; exact ⟨b, m, rfl, hc⟩
        · cases h
      · rintro ⟨b', m', hbm, hc⟩
        simp only [Option.some.injEq, Entry.file.injEq] at hbm
        obtain ⟨rfl, rfl⟩ := hbm
        exact ⟨s, by simp [hc]⟩

/-- C13 (output integrity): a recorded successful output is accepted only if the leftover at its path
    still has a JSON-equal comparison result; a changed leftover makes the whole record a miss. -/
theorem C13_output_replay (path : Path) (cmp : Cmp) (fname : String) (args kwargs : Json) (subs : List Op)
    (ret cmpRes : Json) (sf : Bool) (content : String) (s s' : KSt)
    (h : Impl.replayOp (.buildFile path cmp fname args kwargs subs ret cmpRes false sf content) s = some s') :
    isEqual cmpRes (Impl.cmpShelf s path cmp) = true := by
  obtain ⟨_, hom, _⟩ := replayOp_buildFile_some _ _ _ _ _ _ _ _ _ _ _ _ _ h
  exact hom rfl

example : isEqual (View.cmpResult .hash "ab" 1) (View.cmpResult .hash "ab" 2) = true ∧
    isEqual (View.cmpResult .metadata "ab" 1) (View.cmpResult .metadata "cd" 1) = true ∧
    isEqual (View.cmpResult .metadata "ab" 1) (View.cmpResult .metadata "ab" 2) = false := by
  refine ⟨(C13_hash_iff _ _ _ _).mpr rfl, (C13_metadata_iff _ _ _ _).mpr ⟨by decide, rfl⟩, ?_⟩
  cases h : isEqual (View.cmpResult .metadata "ab" 1) (View.cmpResult .metadata "ab" 2) with
  | false => rfl
  | true => have := (C13_metadata_iff _ _ _ _).mp h; omega

end FB
