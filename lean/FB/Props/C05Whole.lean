/-
  C05 — from one committed build to the start of the next: a flat first build on a tree where neither its targets,
  nor the directories it has to make, nor the cache file exist ("did not itself overwrite foreign files at its
  target paths") leaves a tree from which `preClean` recovers the start tree *as a list*: every change the build
  made is the insertion of an entry under one of its own keys.
-/
import FB.Props.C05Flat
import FB.Props.C04PreClean
namespace FB
open FS Spec Impl

/-- the entries whose keys are not in `K` -/
def strip (K : List Path) (fs : FS) : FS := fs.filter (fun x => !K.contains x.1)

theorem strip_erase (K : List Path) (fs : FS) (p : Path) (hp : p ∈ K) : strip K (fs.erase p) = strip K fs := by
  unfold strip FS.erase
  rw [List.filter_filter]
  congr 1
  funext x
  by_cases hx : x.1 = p
  · subst hx; simp [hp]
  · simp [hx]

theorem strip_set (K : List Path) (fs : FS) (p : Path) (e : Entry) (hp : p ∈ K) : strip K (fs.set p e) = strip K fs := by
  unfold FS.set
  have : strip K ((p, e) :: fs.erase p) = strip K (fs.erase p) := by
    unfold strip; simp [List.filter, hp]
  rw [this, strip_erase K fs p hp]

theorem strip_mkdirStep (K : List Path) (fs : FS) (d : Path) (hd : d ∈ K) : strip K (mkdirStep fs d) = strip K fs := by
  unfold mkdirStep
  cases h : fs.mkdir d with
  | error e => rfl
  | ok fs' =>
    simp only
    unfold FS.mkdir at h
    split at h
    · cases h
    · split at h <;> try cases h
      split at h
      · cases h
      · simp only [Except.ok.injEq] at h
        rw [← h, strip_set K fs d .dir hd]

theorem strip_mkdirs (K : List Path) (ds : List Path) (hds : ∀ d ∈ ds, d ∈ K) : ∀ fs : FS, strip K (mkdirs fs ds) = strip K fs := by
  induction ds with
  | nil => intro fs; rfl
  | cons d r ih =>
    intro fs
    have hstep : mkdirs fs (d :: r) = mkdirs (mkdirStep fs d) r := rfl
    rw [hstep, ih (fun x hx => hds x (List.mem_cons_of_mem _ hx)), strip_mkdirStep K fs d (hds d (List.mem_cons_self ..))]

theorem strip_rmdirStep (K : List Path) (fs : FS) (d : Path) (hd : d ∈ K) : strip K (rmdirStep fs d) = strip K fs := by
  unfold rmdirStep
  cases h : fs.rmdir d with
  | error e => rfl
  | ok fs' =>
    simp only
    unfold FS.rmdir at h
    split at h
    · cases h
    · split at h <;> try cases h
      split at h
      · simp only [Except.ok.injEq] at h
        rw [← h, strip_erase K fs d hd]
      · cases h

theorem strip_foldl_rmdir (K : List Path) (ds : List Path) (hds : ∀ d ∈ ds, d ∈ K) : ∀ fs : FS,
    strip K (ds.foldl rmdirStep fs) = strip K fs := by
  induction ds with
  | nil => intro fs; rfl
  | cons d r ih =>
    intro fs
    simp only [List.foldl]
    rw [ih (fun x hx => hds x (List.mem_cons_of_mem _ hx)), strip_rmdirStep K fs d (hds d (List.mem_cons_self ..))]

theorem strip_rmEmpty (K : List Path) (fs : FS) (ds : List Path) (hds : ∀ d ∈ ds, d ∈ K) : strip K (rmEmpty fs ds) = strip K fs := by
  rw [rmEmpty_eq]
  exact strip_foldl_rmdir K _ (fun d hd => hds d (List.mem_mergeSort.mp hd)) fs

/-- a tree with nothing under the keys `K` is its own strip -/
theorem strip_self (K : List Path) (fs : FS) (h : ∀ x ∈ fs, x.1 ∉ K) : strip K fs = fs := by
  unfold strip
  apply List.filter_eq_self.mpr
  intro x hx
  simpa using h x hx

theorem strip_idem_of_none (K : List Path) (fs : FS) (hroot : ([] : Path) ∉ K) (h : ∀ k ∈ K, fs.get k = none) : strip K fs = fs := by
  apply strip_self
  intro x hx hk
  have hne : x.1 ≠ [] := fun e => hroot (e ▸ hk)
  have := get_isSome_of_mem fs x.1 x.2 (by cases x; exact hx)
  rw [h x.1 hk] at this
  cases this


theorem strip_setupState (K : List Path) (sp : SpecSt) (path : Path) (made : List Path) (hp : path ∈ K)
    (hm : ∀ d ∈ made, d ∈ K) : strip K (setupState sp path made).fs = strip K sp.fs := by
  unfold setupState
  simp only
  split
  · rw [strip_erase K _ path hp, strip_mkdirs K made hm]
  · rw [strip_mkdirs K made hm]

/-- what a flat first run in which every call succeeds does to the tree: it only inserts entries under its own
    keys (targets and directories it made), and those sets only grow -/
structure OkRun (s s2 : KSt) : Prop where
  claimed : ∀ p ∈ s.sp.claimedFiles, p ∈ s2.sp.claimedFiles
  dirs : ∀ d ∈ s.sp.createdDirs, d ∈ s2.sp.createdDirs
  strip : ∀ K : List Path, (∀ p ∈ s2.sp.claimedFiles, p ∈ K) → (∀ d ∈ s2.sp.createdDirs, d ∈ K) →
    strip K s2.sp.fs = strip K s.sp.fs
  cacheFile : s2.sp.cacheFile = s.sp.cacheFile
  dirSize : s2.sp.dirSize = s.sp.dirSize

theorem OkRun.refl (s : KSt) : OkRun s s := ⟨fun _ h => h, fun _ h => h, fun _ _ _ => rfl, rfl, rfl⟩

theorem OkRun.trans {a b c : KSt} (h1 : OkRun a b) (h2 : OkRun b c) : OkRun a c :=
  ⟨fun p hp => h2.claimed p (h1.claimed p hp), fun d hd => h2.dirs d (h1.dirs d hd),
   fun K hK1 hK2 => by
     rw [h2.strip K hK1 hK2, h1.strip K (fun p hp => hK1 p (h2.claimed p hp)) (fun d hd => hK2 d (h2.dirs d hd))],
   h2.cacheFile.trans h1.cacheFile, h2.dirSize.trans h1.dirSize⟩

theorem flat_ok_run {prog : Prog} (hflat : Flat prog) : ∀ (s : KSt), s.old.roots = [] → s.sp.failFiles = [] →
    s.sp.failSubs = [] → (∀ o ∈ (Impl.run prog none s).2.2, opOk o = true) → OkRun s (Impl.run prog none s).2.1 := by
  induction hflat with
  | ret v => intro s _ _ _ _; simp only [Impl.run]; split <;> exact OkRun.refl s
  | raise e => intro s _ _ _ _; simp only [Impl.run]; exact OkRun.refl s
  | query q k _ ih =>
    intro s h0 h1 h2 hok
    simp only [Impl.run] at hok ⊢
    exact ih _ s h0 h1 h2 (fun o ho => hok o (List.mem_cons_of_mem _ ho))
  | write b mt k _ ih =>
    intro s h0 h1 h2 hok
    simp only [Impl.run] at hok ⊢
    exact ih s h0 h1 h2 hok
  | buildFile path cmp fname args kwargs body k hleaf _ _ hk ih =>
    intro s h0 h1 h2 hok
    cases hsetup : bfSetup s.sp path with
    | error e =>
      have := run_bf_setupfail s none path cmp fname args kwargs body k e hsetup
      cases hl : (Impl.run (.buildFile path cmp fname args kwargs body k) none s).2.2 with
      | nil => rw [hl] at this; cases this
      | cons o rest =>
        rw [hl] at this hok
        simp only [List.head?, Option.some.injEq] at this
        have := hok o (List.mem_cons_self ..)
        subst_vars
        simp [opOk] at this
    | ok x =>
      obtain ⟨sp1, made⟩ := x
      obtain ⟨hsp1, _, _, hnd, _, _⟩ := bfSetup_ok_fields s.sp sp1 path made hsetup
      have hne : path ≠ [] := by intro e; subst e; simp [FS.isDir, get_nil] at hnd
      have hlook := lookupFile_empty (afterSetup s sp1 path made) h0 path cmp fname args kwargs made
      rw [run_bf_miss s none path cmp fname args kwargs body k sp1 made hsetup hlook] at hok ⊢
      simp only at hok ⊢
      obtain ⟨⟨pend, clk, hst⟩, _⟩ := leaf_run_replays hleaf (some path)
        (missStart (afterSetup s sp1 path made) path ⟨fname, some path, args, kwargs⟩)
      generalize hout : Impl.run body (some path) (missStart (afterSetup s sp1 path made) path ⟨fname, some path, args, kwargs⟩) = out
        at hst hok ⊢
      have hhead := hok _ (List.mem_cons_self ..)
      obtain ⟨j, hj⟩ : ∃ j, (bfFinish out.2.1.sp path made out.1).1 = .ok j := by
        cases hr : (bfFinish out.2.1.sp path made out.1).1 with
        | ok j => exact ⟨j, rfl⟩
        | error e => simp [bfRecord, hr, opOk] at hhead
      obtain ⟨c, m, _, _, hfin⟩ := bfFinish_ok_inv out.2.1.sp path made out.1 j hj
      have e3 : (withSp out.2.1 (bfFinish out.2.1.sp path made out.1).2).sp =
          finOk (setPC (missStart (afterSetup s sp1 path made) path ⟨fname, some path, args, kwargs⟩) pend clk).sp path made c m := by
        show (bfFinish out.2.1.sp path made out.1).2 = _
        rw [hfin, hst]
      have hs3 : OkRun s (withSp out.2.1 (bfFinish out.2.1.sp path made out.1).2) := by
        refine ⟨?_, ?_, ?_, ?_, ?_⟩
        · intro p hp; rw [e3]; show p ∈ sp1.claimedFiles; rw [hsp1]; exact List.mem_cons_of_mem _ hp
        · intro d hd; rw [e3]; show d ∈ made ++ sp1.createdDirs; rw [hsp1]; exact List.mem_append_right _ hd
        · intro K hK1 hK2
          rw [e3] at hK1 hK2 ⊢
          have hpK : path ∈ K := hK1 path (by show path ∈ sp1.claimedFiles; rw [hsp1]; exact List.mem_cons_self ..)
          have hmK : ∀ d ∈ made, d ∈ K := fun d hd => hK2 d (by show d ∈ made ++ sp1.createdDirs; exact List.mem_append_left _ hd)
          show strip K (sp1.fs.set path (.file c m)) = _
          rw [strip_set K _ path _ hpK, hsp1, strip_setupState K s.sp path made hpK hmK]
        · rw [e3]; show sp1.cacheFile = _; rw [hsp1]; rfl
        · rw [e3]; show sp1.dirSize = _; rw [hsp1]; rfl
      have hs3ff : (withSp out.2.1 (bfFinish out.2.1.sp path made out.1).2).sp.failFiles = [] := by
        rw [e3]; show sp1.failFiles = []; rw [hsp1]; exact h1
      have hs3fsb : (withSp out.2.1 (bfFinish out.2.1.sp path made out.1).2).sp.failSubs = [] := by
        rw [e3]; show sp1.failSubs = []; rw [hsp1]; exact h2
      have hkk := ih (bfFinish out.2.1.sp path made out.1).1 (withSp out.2.1 (bfFinish out.2.1.sp path made out.1).2)
        (by rw [show (withSp out.2.1 (bfFinish out.2.1.sp path made out.1).2).old = out.2.1.old from rfl, hst]; exact h0)
        hs3ff hs3fsb (fun o ho => hok o (List.mem_cons_of_mem _ ho))
      exact hs3.trans hkk
  | subbuild fname args kwargs body k hleaf _ ih =>
    intro s h0 h1 h2 hok
    have hfs : s.sp.failSubs.any (heq (subKey fname args kwargs)) = false := by simp [h2]
    by_cases hcl : s.sp.claimedSubs.any (heq (subKey fname args kwargs)) = true
    · simp only [Impl.run, hcl, if_true] at hok
      have := hok _ (List.mem_cons_self ..)
      simp [opOk] at this
    · have hcl0 : s.sp.claimedSubs.any (heq (subKey fname args kwargs)) = false := by simpa using hcl
      have hlook := lookupSub_empty (subClaim s (subKey fname args kwargs)) h0 fname args kwargs
      rw [run_sb_miss s none fname args kwargs body k hcl0 hfs hlook] at hok ⊢
      simp only at hok ⊢
      obtain ⟨⟨pend, clk, hst⟩, _⟩ := leaf_run_replays hleaf none
        (Impl.subStart (subClaim s (subKey fname args kwargs)) ⟨fname, none, args, kwargs⟩)
      have hs2 : OkRun s (Impl.run body none (Impl.subStart (subClaim s (subKey fname args kwargs)) ⟨fname, none, args, kwargs⟩)).2.1 := by
        rw [hst]; exact ⟨fun _ h => h, fun _ h => h, fun _ _ _ => rfl, rfl, rfl⟩
      have hkk := ih _ (Impl.run body none (Impl.subStart (subClaim s (subKey fname args kwargs)) ⟨fname, none, args, kwargs⟩)).2.1
        (by rw [hst]; exact h0) (by rw [hst]; exact h1) (by rw [hst]; exact h2) (fun o ho => hok o (List.mem_cons_of_mem _ ho))
      exact hs2.trans hkk


theorem strip_eraseFiles (K : List Path) (ps : List Path) (hps : ∀ p ∈ ps, p ∈ K) : ∀ fs : FS,
    strip K (ps.foldl (fun fs p => if fs.isFile p then fs.erase p else fs) fs) = strip K fs := by
  induction ps with
  | nil => intro fs; rfl
  | cons p r ih =>
    intro fs
    simp only [List.foldl]
    rw [ih (fun x hx => hps x (List.mem_cons_of_mem _ hx))]
    split
    · exact strip_erase K fs p (hps p (List.mem_cons_self ..))
    · rfl

theorem strip_erased (K : List Path) (fs : FS) (cf : Path) (outputs : List Path) (ho : ∀ p ∈ outputs, p ∈ K) (hcf : cf ∈ K) :
    strip K (BuildDirs.erased fs cf outputs) = strip K fs := by
  unfold BuildDirs.erased
  simp only
  split
  · rw [strip_erase K _ cf hcf, strip_eraseFiles K outputs ho]
  · rw [strip_eraseFiles K outputs ho]

/-- **clean after a fresh build gives back the tree the build started from — as a list** -/
theorem preClean_recovers (w1 w0 : FS) (cf : Path) (r : Rec) (hwf : BuildDirs.TreeWF w0)
    (hfresh : ∀ k ∈ r.outputs ++ r.createdDirs ++ [cf], w0.get k = none)
    (hstrip : strip (r.outputs ++ r.createdDirs ++ [cf]) w1 = w0)
    (hfiles : ∀ p ∈ r.outputs, w1.isFile p = true) (hcf : w1.isFile cf = true)
    (hdirs : ∀ d ∈ r.createdDirs, w1.isDir d = true) : preClean w1 cf r = w0 := by
  have hroot : ([] : Path) ∉ r.outputs ++ r.createdDirs ++ [cf] := by
    intro hm
    have := hfresh [] hm
    rw [get_nil] at this; cases this
  have hKo : ∀ p ∈ r.outputs, p ∈ r.outputs ++ r.createdDirs ++ [cf] := fun p hp => by simp [hp]
  have hKd : ∀ p ∈ r.createdDirs, p ∈ r.outputs ++ r.createdDirs ++ [cf] := fun p hp => by simp [hp]
  have hKc : cf ∈ r.outputs ++ r.createdDirs ++ [cf] := by simp
  -- `preClean` only removes entries under the build's keys
  have h2 : strip (r.outputs ++ r.createdDirs ++ [cf]) (preClean w1 cf r) = w0 := by
    rw [BuildDirs.preClean_eq, strip_rmEmpty _ _ _ hKd, strip_erased _ _ _ _ hKo hKc, hstrip]
  -- ... and it removes all of them
  have herased := BuildDirs.erased_get w1 cf r.outputs
  have hfile_gone : ∀ k, k ∈ r.outputs ++ [cf] → (preClean w1 cf r).get k = none := by
    intro k hk
    have hkf : w1.isFile k = true := by
      rcases List.mem_append.mp hk with h | h
      · exact hfiles k h
      · simp at h; rw [h]; exact hcf
    have hnf : ¬ (preClean w1 cf r).isFile k = true := fun hh => ((BuildDirs.preClean_isFile_iff w1 cf r k).mp hh).2 hk
    rcases C12_preClean_frame w1 cf r k with h | ⟨h, _⟩
    · exfalso; apply hnf
      rw [BuildDirs.isFile_eq_of_get h]; exact hkf
    · exact h
  have hdir_gone : ∀ d ∈ r.createdDirs, (preClean w1 cf r).get d = none := by
    rw [BuildDirs.preClean_eq]
    apply Rollback.rmEmpty_removes (fun d => d ∈ r.createdDirs) (BuildDirs.erased w1 cf r.outputs) r.createdDirs
    · intro d hd
      refine ⟨fun e => hroot (e ▸ hKd d hd), Or.inr ?_⟩
      have hdd := hdirs d hd
      have hg : w1.get d = some .dir := by
        unfold FS.isDir at hdd
        cases hg : w1.get d with
        | none => simp [hg] at hdd
        | some e => cases e with
          | dir => rfl
          | file c m => simp [hg] at hdd
      rw [herased]
      have : w1.isFile d = false := by simp [FS.isFile, hg]
      simp [this, hg]
    · intro d hd n hn
      -- an entry of a created directory that survives the erasing is a created directory
      have hex1 : w1.get (d ++ [n]) ≠ none := by
        intro e; apply hn; rw [herased]; split
        · rfl
        · exact e
      by_cases hcK : (d ++ [n]) ∈ r.outputs ++ r.createdDirs ++ [cf]
      · rcases List.mem_append.mp hcK with h | h
        · rcases List.mem_append.mp h with h' | h'
          · exfalso; apply hn; rw [herased]; simp [h', hfiles _ h']
          · exact h'
        · simp at h
          exfalso; apply hn; rw [herased, h]; simp [hcf]
      · exfalso
        cases hg : w1.get (d ++ [n]) with
        | none => exact hex1 hg
        | some e =>
          have hm := mem_of_get w1 _ e (by simp) hg
          have hm0 : (d ++ [n], e) ∈ w0 := by
            rw [← hstrip]; unfold strip
            exact List.mem_filter.mpr ⟨hm, by simpa using hcK⟩
          have hsome := get_isSome_of_mem w0 _ e hm0
          have hpar := hwf (d ++ [n]) (by simp) (by intro e0; rw [e0] at hsome; cases hsome)
          rw [show (d ++ [n]).dropLast = d by simp] at hpar
          have := hfresh d (hKd d hd)
          simp [FS.isDir, this] at hpar
    · intro d hd _; exact hd
  have hnone : ∀ k ∈ r.outputs ++ r.createdDirs ++ [cf], (preClean w1 cf r).get k = none := by
    intro k hk
    rcases List.mem_append.mp hk with h | h
    · rcases List.mem_append.mp h with h' | h'
      · exact hfile_gone k (by simp [h'])
      · exact hdir_gone k h'
    · exact hfile_gone k (by simp at h; simp [h])
  rw [← strip_idem_of_none _ _ hroot hnone, h2]

def Op.isSimple : Op → Bool
  | .simple _ _ _ _ => true
  | _ => false

theorem leaf_ops_simple {prog : Prog} (h : Leaf prog) : ∀ (t : Option Path) (s : KSt),
    ∀ o ∈ (Impl.run prog t s).2.2, o.isSimple = true := by
  induction h with
  | ret v => intro t s o ho; simp only [Impl.run] at ho; split at ho <;> cases ho
  | raise e => intro t s o ho; simp only [Impl.run] at ho; cases ho
  | query q k _ ih =>
    intro t s o ho
    simp only [Impl.run] at ho
    rcases List.mem_cons.mp ho with rfl | ho
    · cases View.recVal s.sp.dirSize (visible s.sp) q <;> rfl
    · exact ih _ t s o ho
  | write b mt k _ ih =>
    intro t s o ho
    cases t with
    | none => simp only [Impl.run] at ho; exact ih none s o ho
    | some p => simp only [Impl.run] at ho; exact ih (some p) _ o ho

/-- records as a flat program produces them: queries, and calls whose own records hold queries only -/
def Op.flatShape : Op → Bool
  | .simple _ _ _ _ => true
  | .buildFile _ _ _ _ _ subs _ _ _ _ _ => subs.all Op.isSimple
  | .subbuild _ _ _ subs _ _ _ => subs.all Op.isSimple

theorem registeredL_simple (l : List Op) (h : l.all Op.isSimple = true) : registeredL l = [] := by
  induction l with
  | nil => rfl
  | cons o r ih =>
    rw [List.all_cons, Bool.and_eq_true] at h
    obtain ⟨h1, h2⟩ := h
    cases o with
    | simple q rr e a => simp [registeredL, registered, ih h2]
    | buildFile p c f a k subs rr cr raised sf ct => simp [Op.isSimple] at h1
    | subbuild f a k subs rr raised sf => simp [Op.isSimple] at h1

theorem registeredL_flat (l : List Op) (h : ∀ o ∈ l, o.flatShape = true) :
    registeredL (l.filter isComplexRegistered) = l.filter isComplexRegistered := by
  induction l with
  | nil => rfl
  | cons o r ih =>
    have ihr := ih (fun x hx => h x (List.mem_cons_of_mem _ hx))
    have ho := h o (List.mem_cons_self ..)
    cases o with
    | simple q rr e a => simpa [List.filter, isComplexRegistered] using ihr
    | buildFile p c f a k subs rr cr raised sf ct =>
      cases sf with
      | true => simpa [List.filter, isComplexRegistered] using ihr
      | false =>
        simp only [List.filter, isComplexRegistered, Bool.not_false, registeredL, registered]
        rw [registeredL_simple subs (by simpa [Op.flatShape] using ho), ihr]
        simp
    | subbuild f a k subs rr raised sf =>
      cases sf with
      | true => simpa [List.filter, isComplexRegistered] using ihr
      | false =>
        simp only [List.filter, isComplexRegistered, Bool.not_false, registeredL, registered]
        rw [registeredL_simple subs (by simpa [Op.flatShape] using ho), ihr]
        simp


theorem find_unique {α : Type} (l : List α) (pred : α → Bool) (x : α) (hx : x ∈ l) (hp : pred x = true)
    (hu : ∀ y ∈ l, pred y = true → y = x) : l.find? pred = some x := by
  cases hf : l.find? pred with
  | none => exact absurd hp (by simpa using List.find?_eq_none.mp hf x hx)
  | some y =>
    have hy := List.mem_of_find?_eq_some hf
    have hpy := List.find?_some hf
    rw [hu y hy hpy]

theorem mem_topOuts (l : List Op) (p : Path) (c : Cmp) (f : String) (a k : Json) (subs : List Op) (r cr : Json) (ct : String)
    (h : Op.buildFile p c f a k subs r cr false false ct ∈ l) : p ∈ topOuts l := by
  induction l with
  | nil => cases h
  | cons x rest ih =>
    rcases List.mem_cons.mp h with rfl | h'
    · rw [topOuts_bf_ok]; exact List.mem_cons_self ..
    · have := ih h'
      cases x with
      | simple _ _ _ _ => exact this
      | subbuild _ _ _ _ _ _ _ => exact this
      | buildFile p' _ _ _ _ _ _ _ raised sf _ =>
        cases raised <;> cases sf <;> first | exact List.mem_cons_of_mem _ this | exact this

/-- two successful `build_file` records for one path in a list whose output paths are pairwise different are the
    same record -/
theorem topOuts_unique : ∀ (l : List Op), (topOuts l).Pairwise (· ≠ ·) → ∀ (p : Path) (a b : Op), a ∈ l → b ∈ l →
    (∃ c f ar k subs r cr ct, a = .buildFile p c f ar k subs r cr false false ct) →
    (∃ c f ar k subs r cr ct, b = .buildFile p c f ar k subs r cr false false ct) → a = b := by
  intro l
  induction l with
  | nil => intro _ p a b ha; cases ha
  | cons x rest ih =>
    intro hpw p a b ha hb hsa hsb
    have hrest : (topOuts rest).Pairwise (· ≠ ·) := by
      cases x with
      | simple _ _ _ _ => exact hpw
      | subbuild _ _ _ _ _ _ _ => exact hpw
      | buildFile p' _ _ _ _ _ _ _ raised sf _ =>
        cases raised <;> cases sf <;> first | exact (List.pairwise_cons.mp hpw).2 | exact hpw
    rcases List.mem_cons.mp ha with rfl | ha' <;> rcases List.mem_cons.mp hb with rfl | hb'
    · rfl
    · exfalso
      obtain ⟨c, f, ar, k, subs, r, cr, ct, rfl⟩ := hsa
      obtain ⟨c', f', ar', k', subs', r', cr', ct', rfl⟩ := hsb
      rw [topOuts_bf_ok] at hpw
      exact (List.pairwise_cons.mp hpw).1 p (mem_topOuts rest p _ _ _ _ _ _ _ _ hb') rfl
    · exfalso
      obtain ⟨c, f, ar, k, subs, r, cr, ct, rfl⟩ := hsa
      obtain ⟨c', f', ar', k', subs', r', cr', ct', rfl⟩ := hsb
      rw [topOuts_bf_ok] at hpw
      exact (List.pairwise_cons.mp hpw).1 p (mem_topOuts rest p _ _ _ _ _ _ _ _ ha') rfl
    · exact ih hrest p a b ha' hb' hsa hsb

/-- the keys of the successful top-level `subbuild` records -/
def topKeys : List Op → List H
  | [] => []
  | .subbuild f a k _ _ false false :: r => subKey f a k :: topKeys r
  | _ :: r => topKeys r

theorem mem_topKeys (l : List Op) (f : String) (a k : Json) (subs : List Op) (r : Json)
    (h : Op.subbuild f a k subs r false false ∈ l) : subKey f a k ∈ topKeys l := by
  induction l with
  | nil => cases h
  | cons x rest ih =>
    rcases List.mem_cons.mp h with rfl | h'
    · exact List.mem_cons_self ..
    · have := ih h'
      cases x with
      | simple _ _ _ _ => exact this
      | buildFile _ _ _ _ _ _ _ _ _ _ _ => exact this
      | subbuild _ _ _ _ _ raised sf =>
        cases raised <;> cases sf <;> first | exact List.mem_cons_of_mem _ this | exact this

theorem topKeys_unique : ∀ (l : List Op), (topKeys l).Pairwise (fun x y => heq x y = false ∧ heq y x = false) →
    ∀ (a b : Op), a ∈ l → b ∈ l →
    ∀ f ar k subs r f' ar' k' subs' r', a = .subbuild f ar k subs r false false → b = .subbuild f' ar' k' subs' r' false false →
    heq (subKey f' ar' k') (subKey f ar k) = true → a = b := by
  intro l
  induction l with
  | nil => intro _ a b ha; cases ha
  | cons x rest ih =>
    intro hpw a b ha hb f ar k subs r f' ar' k' subs' r' hsa hsb hh
    have hrest : (topKeys rest).Pairwise (fun x y => heq x y = false ∧ heq y x = false) := by
      cases x with
      | simple _ _ _ _ => exact hpw
      | buildFile _ _ _ _ _ _ _ _ _ _ _ => exact hpw
      | subbuild _ _ _ _ _ raised sf =>
        cases raised <;> cases sf <;> first | exact (List.pairwise_cons.mp hpw).2 | exact hpw
    rcases List.mem_cons.mp ha with rfl | ha' <;> rcases List.mem_cons.mp hb with rfl | hb'
    · rfl
    · exfalso
      subst hsa hsb
      have hpw' : (subKey f ar k :: topKeys rest).Pairwise (fun x y => heq x y = false ∧ heq y x = false) := hpw
      have := (List.pairwise_cons.mp hpw').1 _ (mem_topKeys rest f' ar' k' subs' r' hb')
      rw [this.2] at hh; cases hh
    · exfalso
      subst hsa hsb
      have hpw' : (subKey f' ar' k' :: topKeys rest).Pairwise (fun x y => heq x y = false ∧ heq y x = false) := hpw
      have := (List.pairwise_cons.mp hpw').1 _ (mem_topKeys rest f ar k subs r ha')
      rw [this.1] at hh; cases hh
    · exact ih hrest a b ha' hb' f ar k subs r f' ar' k' subs' r' hsa hsb hh

/-- **the record a flat, clean first build writes returns each of its calls' records** -/
theorem cachedIn_first (ops : List Op) (hshape : ∀ o ∈ ops, o.flatShape = true) (hok : ∀ o ∈ ops, opOk o = true)
    (hanti : (topOuts ops).Pairwise (· ≠ ·))
    (hkeys : (topKeys ops).Pairwise (fun x y => heq x y = false ∧ heq y x = false))
    (hrefl : ∀ key ∈ topKeys ops, heq key key = true)
    (rec : CacheRec) (hroots : rec.roots = ops.filter isComplexRegistered) : ∀ o ∈ ops, cachedIn rec o := by
  intro o ho
  have hreg : registeredL rec.roots = ops.filter isComplexRegistered := by rw [hroots]; exact registeredL_flat ops hshape
  have hoko := hok o ho
  cases o with
  | simple _ _ _ _ => trivial
  | buildFile p c f a k subs r cr raised sf ct =>
    simp only [opOk, Bool.and_eq_true, Bool.not_eq_true'] at hoko
    obtain ⟨h1, h2⟩ := hoko
    subst h1 h2
    simp only [cachedIn, CacheRec.getFile, hreg]
    apply find_unique
    · exact List.mem_reverse.mpr (List.mem_filter.mpr ⟨ho, by simp [isComplexRegistered]⟩)
    · simp [Op.isFileAt]
    · intro y hy hp
      have hy' := List.mem_filter.mp (List.mem_reverse.mp hy)
      have hoky := hok y hy'.1
      cases y with
      | simple _ _ _ _ => simp [Op.isFileAt] at hp
      | subbuild _ _ _ _ _ _ _ => simp [Op.isFileAt] at hp
      | buildFile p' c' f' a' k' subs' r' cr' raised' sf' ct' =>
        simp only [opOk, Bool.and_eq_true, Bool.not_eq_true'] at hoky
        obtain ⟨g1, g2⟩ := hoky
        subst g1 g2
        simp only [Op.isFileAt, decide_eq_true_eq] at hp
        subst hp
        exact topOuts_unique ops hanti p' _ _ hy'.1 ho ⟨_, _, _, _, _, _, _, _, rfl⟩ ⟨_, _, _, _, _, _, _, _, rfl⟩
  | subbuild f a k subs r raised sf =>
    simp only [opOk, Bool.and_eq_true, Bool.not_eq_true'] at hoko
    obtain ⟨h1, h2⟩ := hoko
    subst h1 h2
    simp only [cachedIn, CacheRec.getSub, hreg]
    apply find_unique
    · exact List.mem_reverse.mpr (List.mem_filter.mpr ⟨ho, by simp [isComplexRegistered]⟩)
    · simp only [Op.isSubWith]; exact hrefl _ (mem_topKeys ops f a k subs r ho)
    · intro y hy hp
      have hy' := List.mem_filter.mp (List.mem_reverse.mp hy)
      have hoky := hok y hy'.1
      cases y with
      | simple _ _ _ _ => simp [Op.isSubWith] at hp
      | buildFile _ _ _ _ _ _ _ _ _ _ _ => simp [Op.isSubWith] at hp
      | subbuild f' a' k' subs' r' raised' sf' =>
        simp only [opOk, Bool.and_eq_true, Bool.not_eq_true'] at hoky
        obtain ⟨g1, g2⟩ := hoky
        subst g1 g2
        simp only [Op.isSubWith] at hp
        exact (topKeys_unique ops hkeys _ _ ho hy'.1 f a k subs r f' a' k' subs' r' rfl rfl hp).symm

/-- facts about a flat first run in which every call succeeded -/
structure FirstFacts (s s2 : KSt) (ops : List Op) : Prop where
  shape : ∀ o ∈ ops, o.flatShape = true
  outs : ∀ p ∈ topOuts ops, (∃ c m, s2.sp.fs.get p = some (.file c m)) ∧ p ∈ s2.sp.claimedFiles ∧ p ≠ s.sp.cacheFile
  claimed : ∀ p ∈ s2.sp.claimedFiles, p ∈ s.sp.claimedFiles ∨ p ∈ topOuts ops


theorem flat_first_facts {prog : Prog} (hflat : Flat prog) : ∀ (s : KSt), s.old.roots = [] → s.sp.failFiles = [] →
    s.sp.failSubs = [] → (∀ o ∈ (Impl.run prog none s).2.2, opOk o = true) →
    FirstFacts s (Impl.run prog none s).2.1 (Impl.run prog none s).2.2 := by
  induction hflat with
  | ret v =>
    intro s _ _ _ _; simp only [Impl.run]
    split <;> exact ⟨(fun o ho => nomatch ho), (fun p hp => nomatch hp), (fun p hp => Or.inl hp)⟩
  | raise e =>
    intro s _ _ _ _; simp only [Impl.run]
    exact ⟨(fun o ho => nomatch ho), (fun p hp => nomatch hp), (fun p hp => Or.inl hp)⟩
  | query q k _ ih =>
    intro s h0 h1 h2 hok
    simp only [Impl.run] at hok ⊢
    have hk := ih _ s h0 h1 h2 (fun o ho => hok o (List.mem_cons_of_mem _ ho))
    cases hrv : View.recVal s.sp.dirSize (visible s.sp) q with
    | ok v =>
      simp only
      refine ⟨?_, ?_, ?_⟩
      · intro o ho
        rcases List.mem_cons.mp ho with rfl | ho'
        · rfl
        · exact hk.shape o ho'
      · rw [topOuts_simple]; exact hk.outs
      · rw [topOuts_simple]; exact hk.claimed
    | error e =>
      simp only
      refine ⟨?_, ?_, ?_⟩
      · intro o ho
        rcases List.mem_cons.mp ho with rfl | ho'
        · rfl
        · exact hk.shape o ho'
      · rw [topOuts_simple]; exact hk.outs
      · rw [topOuts_simple]; exact hk.claimed
  | write b mt k _ ih =>
    intro s h0 h1 h2 hok
    simp only [Impl.run] at hok ⊢
    exact ih s h0 h1 h2 hok
  | buildFile path cmp fname args kwargs body k hleaf _ _ hk ih =>
    intro s h0 h1 h2 hok
    cases hsetup : bfSetup s.sp path with
    | error e =>
      have := run_bf_setupfail s none path cmp fname args kwargs body k e hsetup
      cases hl : (Impl.run (.buildFile path cmp fname args kwargs body k) none s).2.2 with
      | nil => rw [hl] at this; cases this
      | cons o rest =>
        rw [hl] at this hok
        simp only [List.head?, Option.some.injEq] at this
        have := hok o (List.mem_cons_self ..)
        subst_vars
        simp [opOk] at this
    | ok x =>
      obtain ⟨sp1, made⟩ := x
      obtain ⟨hsp1, hnc, hncf, hnd, _, _⟩ := bfSetup_ok_fields s.sp sp1 path made hsetup
      have hne : path ≠ [] := by intro e; subst e; simp [FS.isDir, get_nil] at hnd
      have hlook := lookupFile_empty (afterSetup s sp1 path made) h0 path cmp fname args kwargs made
      rw [run_bf_miss s none path cmp fname args kwargs body k sp1 made hsetup hlook] at hok ⊢
      simp only at hok ⊢
      obtain ⟨⟨pend, clk, hst⟩, _⟩ := leaf_run_replays hleaf (some path)
        (missStart (afterSetup s sp1 path made) path ⟨fname, some path, args, kwargs⟩)
      have hsubs := leaf_ops_simple hleaf (some path) (missStart (afterSetup s sp1 path made) path ⟨fname, some path, args, kwargs⟩)
      generalize hout : Impl.run body (some path) (missStart (afterSetup s sp1 path made) path ⟨fname, some path, args, kwargs⟩) = out
        at hst hok hsubs ⊢
      have hhead := hok _ (List.mem_cons_self ..)
      obtain ⟨j, hj⟩ : ∃ j, (bfFinish out.2.1.sp path made out.1).1 = .ok j := by
        cases hr : (bfFinish out.2.1.sp path made out.1).1 with
        | ok j => exact ⟨j, rfl⟩
        | error e => simp [bfRecord, hr, opOk] at hhead
      obtain ⟨c, m, _, _, hfin⟩ := bfFinish_ok_inv out.2.1.sp path made out.1 j hj
      have e3 : (withSp out.2.1 (bfFinish out.2.1.sp path made out.1).2).sp =
          finOk (setPC (missStart (afterSetup s sp1 path made) path ⟨fname, some path, args, kwargs⟩) pend clk).sp path made c m := by
        show (bfFinish out.2.1.sp path made out.1).2 = _
        rw [hfin, hst]
      have hs3fs : (withSp out.2.1 (bfFinish out.2.1.sp path made out.1).2).sp.fs.get path = some (.file c m) := by
        rw [e3]; exact get_set_self _ _ _ hne
      have hs3cl : (withSp out.2.1 (bfFinish out.2.1.sp path made out.1).2).sp.claimedFiles = path :: s.sp.claimedFiles := by
        rw [e3]; show sp1.claimedFiles = _; rw [hsp1]; rfl
      have hs3ff : (withSp out.2.1 (bfFinish out.2.1.sp path made out.1).2).sp.failFiles = [] := by
        rw [e3]; show sp1.failFiles = []; rw [hsp1]; exact h1
      have hs3fsb : (withSp out.2.1 (bfFinish out.2.1.sp path made out.1).2).sp.failSubs = [] := by
        rw [e3]; show sp1.failSubs = []; rw [hsp1]; exact h2
      have hs3cf : (withSp out.2.1 (bfFinish out.2.1.sp path made out.1).2).sp.cacheFile = s.sp.cacheFile := by
        rw [e3]; show sp1.cacheFile = _; rw [hsp1]; rfl
      have hs3old : (withSp out.2.1 (bfFinish out.2.1.sp path made out.1).2).old.roots = [] := by
        rw [show (withSp out.2.1 (bfFinish out.2.1.sp path made out.1).2).old = out.2.1.old from rfl, hst]; exact h0
      have hop : bfRecord path cmp fname args kwargs out.2.2 out.1 (bfFinish out.2.1.sp path made out.1).1
          (withSp out.2.1 (bfFinish out.2.1.sp path made out.1).2) =
          .buildFile path cmp fname args kwargs out.2.2 j (View.cmpResult cmp c m) false false c := by
        simp only [bfRecord, hj, cmpBuilt, hs3fs]
      rw [hop] at hok ⊢
      have hkk := ih (bfFinish out.2.1.sp path made out.1).1 (withSp out.2.1 (bfFinish out.2.1.sp path made out.1).2)
        hs3old hs3ff hs3fsb (fun o ho => hok o (List.mem_cons_of_mem _ ho))
      have hkeep := flat_keeps (hk (bfFinish out.2.1.sp path made out.1).1)
        (withSp out.2.1 (bfFinish out.2.1.sp path made out.1).2) hs3old hs3ff hs3fsb
      refine ⟨?_, ?_, ?_⟩
      · intro o ho
        rcases List.mem_cons.mp ho with rfl | ho'
        · simp only [Op.flatShape, List.all_eq_true]; exact hsubs
        · exact hkk.shape o ho'
      · rw [topOuts_bf_ok]
        intro p hp
        rcases List.mem_cons.mp hp with rfl | hp'
        · exact ⟨⟨c, m, hkeep.files p c m hs3fs (by rw [hs3cl]; exact List.mem_cons_self ..)⟩,
            hkeep.claimed p (by rw [hs3cl]; exact List.mem_cons_self ..), hncf⟩
        · obtain ⟨g1, g2, g3⟩ := hkk.outs p hp'
          exact ⟨g1, g2, by rw [← hs3cf]; exact g3⟩
      · rw [topOuts_bf_ok]
        intro p hp
        rcases hkk.claimed p hp with h | h
        · rw [hs3cl] at h
          rcases List.mem_cons.mp h with rfl | h'
          · exact Or.inr (List.mem_cons_self ..)
          · exact Or.inl h'
        · exact Or.inr (List.mem_cons_of_mem _ h)
  | subbuild fname args kwargs body k hleaf _ ih =>
    intro s h0 h1 h2 hok
    have hfs : s.sp.failSubs.any (heq (subKey fname args kwargs)) = false := by simp [h2]
    by_cases hcl : s.sp.claimedSubs.any (heq (subKey fname args kwargs)) = true
    · simp only [Impl.run, hcl, if_true] at hok
      have := hok _ (List.mem_cons_self ..)
      simp [opOk] at this
    · have hcl0 : s.sp.claimedSubs.any (heq (subKey fname args kwargs)) = false := by simpa using hcl
      have hlook := lookupSub_empty (subClaim s (subKey fname args kwargs)) h0 fname args kwargs
      rw [run_sb_miss s none fname args kwargs body k hcl0 hfs hlook] at hok ⊢
      simp only at hok ⊢
      obtain ⟨⟨pend, clk, hst⟩, _⟩ := leaf_run_replays hleaf none
        (Impl.subStart (subClaim s (subKey fname args kwargs)) ⟨fname, none, args, kwargs⟩)
      have hsubs := leaf_ops_simple hleaf none (Impl.subStart (subClaim s (subKey fname args kwargs)) ⟨fname, none, args, kwargs⟩)
      have hhead := hok _ (List.mem_cons_self ..)
      obtain ⟨j, hj⟩ : ∃ j, (Impl.run body none (Impl.subStart (subClaim s (subKey fname args kwargs)) ⟨fname, none, args, kwargs⟩)).1 = .ok j := by
        cases hr : (Impl.run body none (Impl.subStart (subClaim s (subKey fname args kwargs)) ⟨fname, none, args, kwargs⟩)).1 with
        | ok j => exact ⟨j, rfl⟩
        | error e => rw [hr] at hhead; simp [opOk] at hhead
      rw [hj] at hok ⊢
      simp only at hok ⊢
      have hkk := ih (.ok j) (Impl.run body none (Impl.subStart (subClaim s (subKey fname args kwargs)) ⟨fname, none, args, kwargs⟩)).2.1
        (by rw [hst]; exact h0) (by rw [hst]; exact h1) (by rw [hst]; exact h2) (fun o ho => hok o (List.mem_cons_of_mem _ ho))
      have hcf : (Impl.run body none (Impl.subStart (subClaim s (subKey fname args kwargs)) ⟨fname, none, args, kwargs⟩)).2.1.sp.cacheFile = s.sp.cacheFile := by
        rw [hst]; rfl
      have hcl2 : (Impl.run body none (Impl.subStart (subClaim s (subKey fname args kwargs)) ⟨fname, none, args, kwargs⟩)).2.1.sp.claimedFiles = s.sp.claimedFiles := by
        rw [hst]; rfl
      refine ⟨?_, ?_, ?_⟩
      · intro o ho
        rcases List.mem_cons.mp ho with rfl | ho'
        · simp only [Op.flatShape, List.all_eq_true]; exact hsubs
        · exact hkk.shape o ho'
      · rw [topOuts_sub]
        intro p hp
        obtain ⟨g1, g2, g3⟩ := hkk.outs p hp
        exact ⟨g1, g2, by rw [← hcf]; exact g3⟩
      · rw [topOuts_sub]
        intro p hp
        rcases hkk.claimed p hp with h | h
        · rw [hcl2] at h; exact Or.inl h
        · exact Or.inr h


/-! ### assembling: one build, then the next -/

theorem preClean_nothing (fs : FS) (cf : Path) (name : String) (h : fs.get cf = none) :
    preClean fs cf { buildName := name, outputs := [], createdDirs := [] } = fs := by
  have hf : fs.isFile cf = false := by simp [FS.isFile, h]
  simp [preClean, hf, rmEmpty]

theorem outputs_eq_topOuts (n : String) : ∀ (ops : List Op), (∀ o ∈ ops, opOk o = true) → (∀ o ∈ ops, o.flatShape = true) →
    CacheRec.outputs { buildName := n, roots := ops.filter isComplexRegistered } = topOuts ops := by
  intro ops
  induction ops with
  | nil => intro _ _; rfl
  | cons o r ih =>
    intro hok hsh
    have ihr := ih (fun x hx => hok x (List.mem_cons_of_mem _ hx)) (fun x hx => hsh x (List.mem_cons_of_mem _ hx))
    have ho := hok o (List.mem_cons_self ..)
    have hs := hsh o (List.mem_cons_self ..)
    cases o with
    | simple _ _ _ _ =>
      rw [topOuts_simple, ← ihr]
      simp [List.filter, isComplexRegistered]
    | subbuild f a k subs rr raised sf =>
      simp only [opOk, Bool.and_eq_true, Bool.not_eq_true'] at ho
      obtain ⟨h1, h2⟩ := ho
      subst h1 h2
      rw [topOuts_sub, ← ihr]
      simp only [CacheRec.outputs, List.filter, isComplexRegistered, Bool.not_false, registeredL, registered]
      rw [registeredL_simple subs (by simpa [Op.flatShape] using hs)]
      simp
    | buildFile p c f a k subs rr cr raised sf ct =>
      simp only [opOk, Bool.and_eq_true, Bool.not_eq_true'] at ho
      obtain ⟨h1, h2⟩ := ho
      subst h1 h2
      rw [topOuts_bf_ok, ← ihr]
      simp only [CacheRec.outputs, List.filter, isComplexRegistered, Bool.not_false, registeredL, registered]
      rw [registeredL_simple subs (by simpa [Op.flatShape] using hs)]
      simp

/-- what the shelf of the next build holds at `p` -/
theorem buildStart_shelf_get (w : KWorld) (cf : Path) (versions : List (String × Json)) (old : CacheRec) (cds : List Path)
    (p : Path) (hp : p ≠ []) :
    FS.get (Impl.buildStart w cf versions [] [] old cds).shelf p =
      if p ∈ old.toRec.outputs then (match w.fs.get p with | some (.file b m) => some (.file b m) | _ => none) else none := by
  unfold Impl.buildStart
  simp only
  generalize old.toRec.outputs = L
  induction L with
  | nil => simp [FS.get, hp]
  | cons q r ih =>
    by_cases hqp : q = p
    · subst hqp
      cases hg : w.fs.get q with
      | none => simp only [List.filterMap_cons, hg]; rw [ih]; simp [hg]
      | some e =>
        cases e with
        | dir => simp only [List.filterMap_cons, hg]; rw [ih]; simp [hg]
        | file b m => simp [List.filterMap_cons, hg, FS.get, hp]
    · have hne : ¬ p = q := fun e => hqp e.symm
      cases hg : w.fs.get q with
      | none => simp only [List.filterMap_cons, hg]; rw [ih]; simp [hne]
      | some e =>
        cases e with
        | dir => simp only [List.filterMap_cons, hg]; rw [ih]; simp [hne]
        | file b m =>
          simp only [List.filterMap_cons, hg, FS.get, hp, if_false, hqp]
          rw [ih]; simp [hne]

/-- the record a committing build writes -/
def writtenRec (name : String) (versions : List (String × Json)) (ops : List Op) (s2 : KSt) (cds : List Path) : CacheRec :=
  { buildName := name, roots := ops.filter isComplexRegistered, createdDirs := Spec.dedup (s2.sp.createdDirs.reverse ++ cds),
    versions := versions }

/-- the world a committing build leaves -/
def nextWorld (w : KWorld) (cf : Path) (s2 : KSt) (r : CacheRec) : KWorld :=
  { w with fs := s2.sp.fs.write cf (cacheToken w.nextSerial) 0, recs := (w.nextSerial, r) :: w.recs, nextSerial := w.nextSerial + 1, clock := s2.sp.clock }

theorem buildGo_ok (w : KWorld) (cf : Path) (name : String) (versions : List (String × Json)) (root : Prog) (old : CacheRec)
    (cds : List Path) (s2 : KSt) (ops : List Op) (v : Json)
    (hcds : dirsToMake (visible (Impl.buildStart w cf versions [] [] old []).sp) cf [] cf.dropLast = .ok cds)
    (hrun : Impl.run root none (Impl.buildStart w cf versions [] [] old cds) = (.ok v, s2, ops)) :
    Impl.buildGo w cf name versions root [] [] 0 old =
      { res := .ok v,
        world := nextWorld w cf s2 (writtenRec name versions ops s2 cds),
        invLog := s2.sp.invLog.reverse, written := some (writtenRec name versions ops s2 cds), claimed := s2.sp.claimedFiles } := by
  unfold Impl.buildGo
  simp [hcds, hrun, writtenRec, nextWorld]

theorem buildGo_invLog (w : KWorld) (cf : Path) (name : String) (versions : List (String × Json)) (root : Prog) (old : CacheRec)
    (cds : List Path)
    (hcds : dirsToMake (visible (Impl.buildStart w cf versions [] [] old []).sp) cf [] cf.dropLast = .ok cds) :
    (Impl.buildGo w cf name versions root [] [] 0 old).invLog =
      (Impl.run root none (Impl.buildStart w cf versions [] [] old cds)).2.1.sp.invLog.reverse ∧
    (∀ v, (Impl.run root none (Impl.buildStart w cf versions [] [] old cds)).1 = .ok v →
      (Impl.buildGo w cf name versions root [] [] 0 old).res = .ok v) := by
  unfold Impl.buildGo
  simp only [hcds, Nat.zero_ne_one, if_false]
  generalize Impl.run root none (Impl.buildStart w cf versions [] [] old cds) = R
  obtain ⟨r0, s2, ops⟩ := R
  cases r0 with
  | ok v => simp
  | error e => simp


/-- the empty record a build starts from when there is no cache file -/
def noRec (name : String) (versions : List (String × Json)) : CacheRec := { buildName := name, versions := versions }

theorem buildStart_noRec_fs (w : KWorld) (cf : Path) (name : String) (versions : List (String × Json)) (cds : List Path)
    (h : w.fs.get cf = none) : (Impl.buildStart w cf versions [] [] (noRec name versions) cds).sp.fs = mkdirs w.fs cds := by
  show mkdirs (preClean w.fs cf (noRec name versions).toRec) cds = _
  have : (noRec name versions).toRec = { buildName := name, outputs := [], createdDirs := [] } := rfl
  rw [this, preClean_nothing _ _ _ h]

/-- **C05 for flat programs, two whole builds**: a first build (no cache file) of a flat program in which every call
    succeeds, whose outputs are unrelated by the prefix order, on a tree that holds none of the paths the build is
    going to create — followed by a second build with nothing changed: the second build invokes NO user function
    and returns the same value. -/
theorem C05_flat_rebuild (w : KWorld) (cf : Path) (name : String) (versions : List (String × Json)) (prog : Prog)
    (hflat : Flat prog) (hwf : BuildDirs.TreeWF w.fs) (hnocache : w.fs.get cf = none) (cds : List Path)
    (hcds : dirsToMake (visible (Impl.buildStart w cf versions [] [] (noRec name versions) []).sp) cf [] cf.dropLast = .ok cds)
    (v : Json) (s2 : KSt) (ops : List Op)
    (hrun : Impl.run prog none (Impl.buildStart w cf versions [] [] (noRec name versions) cds) = (.ok v, s2, ops))
    (hok : ∀ o ∈ ops, opOk o = true) (hanti : Antichain (topOuts ops))
    (hkeys : (topKeys ops).Pairwise (fun x y => heq x y = false ∧ heq y x = false))
    (hrefl : ∀ key ∈ topKeys ops, heq key key = true)
    (hfresh : ∀ k, (k ∈ s2.sp.claimedFiles ∨ k ∈ s2.sp.createdDirs ∨ k ∈ cds ∨ k = cf) → w.fs.get k = none)
    (hdirs : ∀ d, (d ∈ s2.sp.createdDirs ∨ d ∈ cds) → s2.sp.fs.isDir d = true ∧ d ≠ cf)
    (hver : ∀ f, isEqual (verOf versions f) (verOf versions f) = true) :
    (Impl.build w cf name versions prog).res = .ok v ∧
    (Impl.build (Impl.build w cf name versions prog).world cf name versions prog).res = .ok v ∧
    (Impl.build (Impl.build w cf name versions prog).world cf name versions prog).invLog = [] := by
  -- the first build
  have hcs : w.cacheState cf = .absent := by simp [KWorld.cacheState, hnocache]
  have hb1 : Impl.build w cf name versions prog = Impl.buildGo w cf name versions prog [] [] 0 (noRec name versions) := by
    simp [Impl.build, hcs, noRec]
  have hgo1 := buildGo_ok w cf name versions prog (noRec name versions) cds s2 ops v hcds hrun
  have hcfne : cf ≠ [] := by intro e; rw [e, get_nil] at hnocache; cases hnocache
  have hs1fs := buildStart_noRec_fs w cf name versions cds hnocache
  have hr1 : (Impl.run prog none (Impl.buildStart w cf versions [] [] (noRec name versions) cds)).2.1 = s2 := by rw [hrun]
  have hr2 : (Impl.run prog none (Impl.buildStart w cf versions [] [] (noRec name versions) cds)).2.2 = ops := by rw [hrun]
  have hold0 : (Impl.buildStart w cf versions [] [] (noRec name versions) cds).old.roots = [] := rfl
  have hfacts := flat_first_facts hflat _ hold0 rfl rfl (by rw [hr2]; exact hok)
  rw [hr1, hr2] at hfacts
  have hokrun := flat_ok_run hflat _ hold0 rfl rfl (by rw [hr2]; exact hok)
  rw [hr1] at hokrun
  -- the world it leaves
  rw [hb1, hgo1]
  refine ⟨rfl, ?_⟩
  simp only
  generalize hw1 : nextWorld w cf s2 (writtenRec name versions ops s2 cds) = w1
  have hw1fs : w1.fs = s2.sp.fs.set cf (.file (cacheToken w.nextSerial) 0) := by rw [← hw1]; rfl
  have hw1ds : w1.dirSize = w.dirSize := by rw [← hw1]; rfl
  have hcs1 : w1.cacheState cf = .valid (writtenRec name versions ops s2 cds) := by
    rw [← hw1]
    simp [KWorld.cacheState, nextWorld, FS.write, get_set_self _ _ _ hcfne]
  have hb2 : Impl.build w1 cf name versions prog =
      Impl.buildGo w1 cf name versions prog [] [] 0 (writtenRec name versions ops s2 cds) := by
    simp [Impl.build, hcs1, writtenRec]
  rw [hb2]
  -- clean recovers the start tree
  have houts : (writtenRec name versions ops s2 cds).toRec.outputs = Spec.dedup (topOuts ops) := by
    show Spec.dedup (CacheRec.outputs _) = _
    have := outputs_eq_topOuts name ops hok hfacts.shape
    unfold CacheRec.outputs at this ⊢
    exact congrArg Spec.dedup this
  have hcd : (writtenRec name versions ops s2 cds).toRec.createdDirs = Spec.dedup (s2.sp.createdDirs.reverse ++ cds) := rfl
  have hclaimed_out : ∀ p ∈ s2.sp.claimedFiles, p ∈ topOuts ops := by
    intro p hp
    rcases hfacts.claimed p hp with h | h
    · cases h
    · exact h
  have hpre : preClean w1.fs cf (writtenRec name versions ops s2 cds).toRec = w.fs := by
    apply preClean_recovers w1.fs w.fs cf _ hwf
    · intro k hk
      rw [houts, hcd] at hk
      apply hfresh
      rcases List.mem_append.mp hk with h | h
      · rcases List.mem_append.mp h with h' | h'
        · exact Or.inl ((hfacts.outs k ((mem_dedup _ _).mp h')).2.1)
        · rcases List.mem_append.mp ((mem_dedup _ _).mp h') with h'' | h''
          · exact Or.inr (Or.inl (List.mem_reverse.mp h''))
          · exact Or.inr (Or.inr (Or.inl h''))
      · simp at h; exact Or.inr (Or.inr (Or.inr h))
    · -- everything the build did is an insertion under its own keys
      have hK1 : ∀ p ∈ s2.sp.claimedFiles, p ∈ (writtenRec name versions ops s2 cds).toRec.outputs ++
          (writtenRec name versions ops s2 cds).toRec.createdDirs ++ [cf] := by
        intro p hp; rw [houts]; simp [mem_dedup, hclaimed_out p hp]
      have hK2 : ∀ d ∈ s2.sp.createdDirs, d ∈ (writtenRec name versions ops s2 cds).toRec.outputs ++
          (writtenRec name versions ops s2 cds).toRec.createdDirs ++ [cf] := by
        intro d hd; rw [hcd]; simp [mem_dedup, hd]
      have hK3 : ∀ d ∈ cds, d ∈ (writtenRec name versions ops s2 cds).toRec.outputs ++
          (writtenRec name versions ops s2 cds).toRec.createdDirs ++ [cf] := by
        intro d hd; rw [hcd]; simp [mem_dedup, hd]
      rw [hw1fs, strip_set _ _ cf _ (by simp), hokrun.strip _ hK1 hK2, hs1fs, strip_mkdirs _ cds hK3]
      apply strip_idem_of_none
      · intro hm
        have : w.fs.get [] = none := by
          apply hfresh
          rw [houts, hcd] at hm
          rcases List.mem_append.mp hm with h | h
          · rcases List.mem_append.mp h with h' | h'
            · exact Or.inl ((hfacts.outs _ ((mem_dedup _ _).mp h')).2.1)
            · rcases List.mem_append.mp ((mem_dedup _ _).mp h') with h'' | h''
              · exact Or.inr (Or.inl (List.mem_reverse.mp h''))
              · exact Or.inr (Or.inr (Or.inl h''))
          · simp at h; exact Or.inr (Or.inr (Or.inr h.symm))
        rw [get_nil] at this; cases this
      · intro k hk
        rw [houts, hcd] at hk
        apply hfresh
        rcases List.mem_append.mp hk with h | h
        · rcases List.mem_append.mp h with h' | h'
          · exact Or.inl ((hfacts.outs k ((mem_dedup _ _).mp h')).2.1)
          · rcases List.mem_append.mp ((mem_dedup _ _).mp h') with h'' | h''
            · exact Or.inr (Or.inl (List.mem_reverse.mp h''))
            · exact Or.inr (Or.inr (Or.inl h''))
        · simp at h; exact Or.inr (Or.inr (Or.inr h))
    · intro p hp
      rw [houts] at hp
      obtain ⟨⟨c, m, hg⟩, _, hne⟩ := hfacts.outs p ((mem_dedup _ _).mp hp)
      have hne' : p ≠ cf := hne
      rw [hw1fs]
      simp [FS.isFile, get_set_ne _ _ _ _ hne', hg]
    · rw [hw1fs]; simp [FS.isFile, get_set_self _ _ _ hcfne]
    · intro d hd
      rw [hcd] at hd
      have hd' : d ∈ s2.sp.createdDirs ∨ d ∈ cds := by
        rcases List.mem_append.mp ((mem_dedup _ _).mp hd) with h | h
        · exact Or.inl (List.mem_reverse.mp h)
        · exact Or.inr h
      obtain ⟨h1, h2⟩ := hdirs d hd'
      rw [hw1fs]
      unfold FS.isDir at h1 ⊢
      rw [get_set_ne _ _ _ _ h2]; exact h1
  -- the second build starts from the same tree
  have hsp0 : (Impl.buildStart w cf versions [] [] (noRec name versions) []).sp.fs = w.fs := by
    rw [buildStart_noRec_fs w cf name versions [] hnocache]; rfl
  have hsp0' : (Impl.buildStart w1 cf versions [] [] (writtenRec name versions ops s2 cds) []).sp.fs = w.fs := by
    show mkdirs (preClean w1.fs cf (writtenRec name versions ops s2 cds).toRec) [] = _
    rw [hpre]; rfl
  have hvis : visible (Impl.buildStart w1 cf versions [] [] (writtenRec name versions ops s2 cds) []).sp =
      visible (Impl.buildStart w cf versions [] [] (noRec name versions) []).sp := by
    unfold Spec.visible
    rw [hsp0, hsp0']
    rfl
  have hcds' : dirsToMake (visible (Impl.buildStart w1 cf versions [] [] (writtenRec name versions ops s2 cds) []).sp) cf []
      cf.dropLast = .ok cds := by rw [hvis]; exact hcds
  obtain ⟨hinv2, hres2⟩ := buildGo_invLog w1 cf name versions prog (writtenRec name versions ops s2 cds) cds hcds'
  have hs1'fs : (Impl.buildStart w1 cf versions [] [] (writtenRec name versions ops s2 cds) cds).sp.fs = mkdirs w.fs cds := by
    show mkdirs (preClean w1.fs cf (writtenRec name versions ops s2 cds).toRec) cds = _
    rw [hpre]
  have hsame : Same (Impl.buildStart w cf versions [] [] (noRec name versions) cds)
      (Impl.buildStart w1 cf versions [] [] (writtenRec name versions ops s2 cds) cds) :=
    ⟨by rw [hs1'fs, hs1fs], rfl, hw1ds, rfl, rfl, rfl, rfl, rfl, rfl, rfl⟩
  have hcached := cachedIn_first ops hfacts.shape hok (hanti.imp (fun h => h.1)) hkeys hrefl
    (writtenRec name versions ops s2 cds) rfl
  have hsecond := flat_second_run hflat _ _ hold0 hsame
    (fun f => by
      show isEqual (verOf (writtenRec name versions ops s2 cds).versions f) (verOf versions f) = true
      exact hver f)
    (by rw [hr2]; exact hok) (by rw [hr2]; exact hcached) (by rw [hr2]; exact hanti)
    (by
      rw [hr2, hr1]
      intro p hp
      obtain ⟨⟨c, m, hg⟩, _, hne⟩ := hfacts.outs p hp
      have hne' : p ≠ cf := hne
      have hpne : p ≠ [] := by intro e; rw [e, get_nil] at hg; cases hg
      rw [buildStart_shelf_get w1 cf versions _ cds p hpne, houts]
      have hw1g : w1.fs.get p = some (.file c m) := by rw [hw1fs, get_set_ne _ _ _ _ hne']; exact hg
      simp [mem_dedup, hp, hw1g, hg])
  obtain ⟨e1, e2, _, _, _⟩ := hsecond
  refine ⟨?_, ?_⟩
  · apply hres2
    rw [e1, hrun]
  · rw [hinv2, e2]
    rfl


/-! ### non-vacuity: the one-output program of `C01Hash`, built twice on an empty tree -/

def fxW : KWorld := { fs := [], clock := 7 }

theorem fx_first_sets : (Impl.run exRoot none fxS).2.1.sp.claimedFiles = [["x"]] ∧ (Impl.run exRoot none fxS).2.1.sp.createdDirs = [] := by
  have h : dirsToMake (visible fxS.sp) fxS.sp.cacheFile fxS.sp.inProg [] = .ok [] := by rw [dirsToMake]; simp
  simp [exRoot, exBody, Impl.run, bfSetup, fxS, FS.isDir, FS.get, lookupFile, CacheRec.getFile, registeredL,
    afterSetup, missStart, liftSp, sanitize, bfFinish, pendingFind, withSp, cmpBuilt, View.cmpResult, setupState, mkdirs,
    FS.isFile, FS.set, FS.erase, clearWay] at h ⊢
  rw [h]
  simp [pendingFind, FS.set, FS.erase, FS.get, cmpBuilt, View.cmpResult, withSp, sanitize]

theorem fxW_start : Impl.buildStart fxW ["c"] [] [] [] (noRec "n" []) [] = fxS := by
  simp [Impl.buildStart, noRec, fxS, fxW, CacheRec.toRec, CacheRec.outputs, registeredL, Spec.dedup, preClean, rmEmpty, mkdirs,
    FS.isFile, FS.get]

example : (Impl.build fxW ["c"] "n" [] exRoot).res = .ok .null ∧
    (Impl.build (Impl.build fxW ["c"] "n" [] exRoot).world ["c"] "n" [] exRoot).res = .ok .null ∧
    (Impl.build (Impl.build fxW ["c"] "n" [] exRoot).world ["c"] "n" [] exRoot).invLog = [] := by
  obtain ⟨hops, hfs, _⟩ := fx_first
  have hcds : dirsToMake (visible (Impl.buildStart fxW ["c"] [] [] [] (noRec "n" []) []).sp) ["c"] [] (["c"] : Path).dropLast = .ok [] := by
    rw [dirsToMake]; simp
  have hres : (Impl.run exRoot none fxS).1 = .ok .null := by
    have h : dirsToMake (visible fxS.sp) fxS.sp.cacheFile fxS.sp.inProg [] = .ok [] := by rw [dirsToMake]; simp
    simp [exRoot, exBody, Impl.run, bfSetup, fxS, FS.isDir, FS.get, lookupFile, CacheRec.getFile, registeredL,
      afterSetup, missStart, liftSp, sanitize, bfFinish, pendingFind, withSp, cmpBuilt, View.cmpResult, setupState, mkdirs,
      FS.isFile, FS.set, FS.erase, clearWay] at h ⊢
    rw [h]
    simp [pendingFind, FS.set, FS.erase, FS.get, cmpBuilt, View.cmpResult, withSp, sanitize]
  have hrun : Impl.run exRoot none (Impl.buildStart fxW ["c"] [] [] [] (noRec "n" []) []) =
      (.ok .null, (Impl.run exRoot none fxS).2.1, (Impl.run exRoot none fxS).2.2) := by
    rw [fxW_start, ← hres]
  exact C05_flat_rebuild fxW ["c"] "n" [] exRoot flat_exRoot (fun p hp hg => by simp [fxW, FS.get, hp] at hg)
    (by simp [fxW, FS.get]) [] hcds .null _ _ hrun
    (by rw [hops]; intro o ho; simp at ho; subst ho; rfl)
    (by rw [hops]; simp [topOuts, Antichain])
    (by rw [hops]; simp [topKeys])
    (by rw [hops]; simp [topKeys])
    (by
      obtain ⟨hcl, hcd⟩ := fx_first_sets
      intro k hk
      rw [hcl, hcd] at hk
      have hkne : k ≠ [] := by
        rcases hk with h | h | h | h
        · simp at h; rw [h]; simp
        · simp at h
        · simp at h
        · rw [h]; simp
      simp [fxW, FS.get, hkne])
    (by
      obtain ⟨_, hcd⟩ := fx_first_sets
      intro d hd
      rw [hcd] at hd
      simp at hd)
    (by intro f; simp [verOf, isEqual])

end FB
