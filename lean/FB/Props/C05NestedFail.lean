/-
  C05 — replay and re-execution when calls RAISED in the first run (any nesting depth).
  `replay_runF`: `replay_run` without the assumption that every call succeeded: calls may have raised (their records
  are re-enacted by `unwind` when an enclosing record is reused); only set-up failures are excluded (a record that
  contains one is never reusable).
-/
import FB.Props.C05NestedWhole
import FB.Props.C05Rerun
namespace FB
open FS Spec Impl

mutual
/-- no call in the record tree failed in its set-up (duplicate, cache-file target, directory in the way, fault) -/
def noSF : Op → Bool
  | .simple _ _ _ _ => true
  | .buildFile _ _ _ _ _ subs _ _ _ sf _ => !sf && noSFL subs
  | .subbuild _ _ _ subs _ _ sf => !sf && noSFL subs
def noSFL : List Op → Bool
  | [] => true
  | o :: os => noSF o && noSFL os
end

theorem noSFL_cons (o : Op) (os : List Op) : noSFL (o :: os) = (noSF o && noSFL os) := by simp [noSFL]

theorem noSF_bfRecord (path : Path) (cmp : Cmp) (fname : String) (args kwargs : Json) (subs : List Op)
    (rb r' : CallRes) (s3 : KSt) (h : noSF (bfRecord path cmp fname args kwargs subs rb r' s3) = true) : noSFL subs = true := by
  unfold bfRecord at h
  cases r' <;> simpa [noSF] using h

theorem noSF_sbRecord (fname : String) (args kwargs : Json) (subs : List Op) (r : CallRes)
    (h : noSF (sbRecord fname args kwargs subs r) = true) : noSFL subs = true := by
  cases r <;> simpa [sbRecord, noSF] using h

theorem bfFinish_error_state (sp : SpecSt) (path : Path) (made : List Path) (r : CallRes) (e : Exc)
    (h : (bfFinish sp path made r).1 = .error e) : (bfFinish sp path made r).2 = failState sp path made := by
  cases r with
  | error e' => simp only [bfFinish, failState]
  | ok j =>
    cases hw : pendingFind sp.pending path with
    | none => simp only [bfFinish, hw, failState]
    | some x => obtain ⟨c, m⟩ := x; rw [bfFinish_ok sp path made j c m hw] at h; cases h

/-- the state in which the records nested in a record that raised are replayed (the leftovers stay on the shelf) -/
def bfReplayStartR (s : KSt) (path : Path) (made : List Path) : KSt :=
  { s with sp := { s.sp with fs := Spec.mkdirs s.sp.fs made, claimedFiles := path :: s.sp.claimedFiles, inProg := path :: s.sp.inProg } }

theorem replayOp_bf_raised (s : KSt) (path : Path) (cmp : Cmp) (fname : String) (args kwargs : Json) (subs : List Op)
    (ret cmpRes : Json) (content : String) (made : List Path)
    (hv : versionOk s fname = true)
    (hcl : path ∉ s.sp.claimedFiles) (hcf : path ≠ s.sp.cacheFile) (habs : s.sp.fs.get path = none)
    (hdm : Spec.dirsToMake (Spec.visible s.sp) s.sp.cacheFile s.sp.inProg path.dropLast = .ok made)
    (hlong : made.any Path.tooLong = false) :
    replayOp (.buildFile path cmp fname args kwargs subs ret cmpRes true false content) s =
      match replayOps subs (bfReplayStartR s path made) with
      | none => none
      | some s2 => some (unwind s2 path made) := by
  have hcl' : s.sp.claimedFiles.contains path = false := by simpa using hcl
  have hcf' : (path == s.sp.cacheFile) = false := by simpa using hcf
  simp only [replayOp, hv, hcl', hcf', habs, hdm, hlong, Bool.not_true, Bool.false_eq_true, if_false,
    Bool.not_false, Bool.true_and, Bool.false_and, Bool.or_self, Option.isSome_none, bfReplayStartR, if_true]
  rfl

theorem replayOp_sbF (s : KSt) (fname : String) (args kwargs : Json) (subs : List Op) (ret : Json) (raised : Bool)
    (hv : versionOk s fname = true) (hcl : s.sp.claimedSubs.any (heq (subKey fname args kwargs)) = false) :
    replayOp (.subbuild fname args kwargs subs ret raised false) s =
      replayOps subs (subClaim s (subKey fname args kwargs)) := by
  simp only [replayOp, hv, hcl, Bool.not_true, Bool.false_eq_true, Bool.or_self, if_false]
  rfl

/-- **replay completeness with failed calls**: the records of a first run in which calls may have RAISED (but none
    failed in its set-up) are accepted again, in order, by a state that looks the same and whose shelf holds the
    run's outputs: a record that raised is re-enacted (`unwind`), not re-executed — and the replay leaves that state
    looking like the state after the run -/
theorem replay_runF (prog : Prog) : ∀ (t : Option Path) (s s' fin : KSt),
    s.old.roots = [] → Same s s' → (∀ f ∈ fnamesDeepL (Impl.run prog t s).2.2, versionOk s' f = true) →
    noSFL (Impl.run prog t s).2.2 = true →
    Antichain (targetsDeepL (Impl.run prog t s).2.2) →
    (∀ p ∈ targetsDeepL (Impl.run prog t s).2.2, s.sp.fs.get p = none) →
    FirstKeeps (Impl.run prog t s).2.1 fin →
    (∀ p ∈ targetsDeepL (Impl.run prog t s).2.2, s'.shelf.get p = fin.sp.fs.get p) →
    ∃ s'', replayOps (Impl.run prog t s).2.2 s' = some s'' ∧ Same (Impl.run prog t s).2.1 s'' ∧
      Replayed s' s'' (targetsDeepL (Impl.run prog t s).2.2) := by
  induction prog with
  | ret v =>
    intro t s s' fin _ hsame _ _ _ _ _ _
    simp only [Impl.run]
    split <;> exact ⟨s', by simp [replayOps], hsame, rfl, rfl, rfl, fun _ _ => rfl⟩
  | raise e =>
    intro t s s' fin _ hsame _ _ _ _ _ _
    simp only [Impl.run]
    exact ⟨s', by simp [replayOps], hsame, rfl, rfl, rfl, fun _ _ => rfl⟩
  | query q k ih =>
    intro t s s' fin h0 hsame hv hok hanti habs hfin hsup
    simp only [Impl.run] at hv hok hanti habs hfin hsup ⊢
    have hrec : replayOp (recordOf s'.sp.dirSize (visible s'.sp) q) s' = some s' := replay_simple_complete s' q
    rw [hsame.visible, hsame.dirSize] at hrec
    unfold recordOf at hrec
    cases hrv : View.recVal s.sp.dirSize (visible s.sp) q with
    | ok v =>
      simp only [hrv] at hv hok hanti habs hsup hrec ⊢
      rw [fnamesDeepL_cons] at hv
      simp only [fnamesDeep, List.nil_append] at hv
      rw [targetsDeepL_cons] at hanti habs hsup ⊢
      simp only [targetsDeep, List.nil_append] at hanti habs hsup ⊢
      rw [noSFL_cons] at hok
      simp only [noSF, Bool.true_and] at hok
      obtain ⟨s'', h1, h2, h3⟩ := ih _ t s s' fin h0 hsame hv hok hanti habs hfin hsup
      exact ⟨s'', by simp only [replayOps, hrec]; exact h1, h2, h3⟩
    | error e =>
      simp only [hrv] at hv hok hanti habs hsup hrec ⊢
      rw [fnamesDeepL_cons] at hv
      simp only [fnamesDeep, List.nil_append] at hv
      rw [targetsDeepL_cons] at hanti habs hsup ⊢
      simp only [targetsDeep, List.nil_append] at hanti habs hsup ⊢
      rw [noSFL_cons] at hok
      simp only [noSF, Bool.true_and] at hok
      obtain ⟨s'', h1, h2, h3⟩ := ih _ t s s' fin h0 hsame hv hok hanti habs hfin hsup
      exact ⟨s'', by simp only [replayOps, hrec]; exact h1, h2, h3⟩
  | write b mt k ih =>
    intro t s s' fin h0 hsame hv hok hanti habs hfin hsup
    simp only [Impl.run] at hv hok hanti habs hfin hsup ⊢
    cases t with
    | none => exact ih none s s' fin h0 hsame hv hok hanti habs hfin hsup
    | some p =>
      simp only at hv hok hanti habs hfin hsup ⊢
      exact ih (some p) _ s' fin h0 ⟨hsame.fs, hsame.cacheFile, hsame.dirSize, hsame.claimedFiles, hsame.claimedSubs, hsame.inProg,
        hsame.ff, hsame.ff', hsame.fsb, hsame.fsb'⟩ hv hok hanti habs hfin hsup
  | buildFile path cmp fname args kwargs body k ihb ihk =>
    intro t s s' fin h0 hsame hv hok hanti habs hfin hsup
    cases hsetup : bfSetup s.sp path with
    | error e =>
      exfalso
      have := run_bf_setupfail s t path cmp fname args kwargs body k e hsetup
      cases hops : (Impl.run (.buildFile path cmp fname args kwargs body k) t s).2.2 with
      | nil => rw [hops] at this; cases this
      | cons o os =>
        rw [hops] at this hok
        simp only [List.head?_cons, Option.some.injEq] at this
        subst this
        simp [noSFL, noSF] at hok
    | ok x =>
      obtain ⟨sp1, made⟩ := x
      obtain ⟨hsp1, hnc, hncf, hnd, hdm, _⟩ := bfSetup_ok_fields s.sp sp1 path made hsetup
      have hpne : path ≠ [] := by intro e; subst e; simp [FS.isDir, get_nil] at hnd
      have hlook := lookupFile_empty (afterSetup s sp1 path made) h0 path cmp fname args kwargs made
      rw [run_bf_miss s t path cmp fname args kwargs body k sp1 made hsetup hlook] at hv hok hanti habs hfin hsup ⊢
      simp only at hv hok hanti habs hfin hsup ⊢
      -- the run of the function
      have hk1ff : (missStart (afterSetup s sp1 path made) path ⟨fname, some path, args, kwargs⟩).sp.failFiles = [] := by
        show sp1.failFiles = []; rw [hsp1]; exact hsame.ff
      have hk1fs : (missStart (afterSetup s sp1 path made) path ⟨fname, some path, args, kwargs⟩).sp.failSubs = [] := by
        show sp1.failSubs = []; rw [hsp1]; exact hsame.fsb
      have hkb := run_keeps body (some path) (missStart (afterSetup s sp1 path made) path ⟨fname, some path, args, kwargs⟩) h0 hk1ff hk1fs
      have hab := run_absent body (some path) (missStart (afterSetup s sp1 path made) path ⟨fname, some path, args, kwargs⟩)
      have ihb' := ihb (some path) (missStart (afterSetup s sp1 path made) path ⟨fname, some path, args, kwargs⟩) (bfReplayStart s' path made)
      have ihbR := ihb (some path) (missStart (afterSetup s sp1 path made) path ⟨fname, some path, args, kwargs⟩) (bfReplayStartR s' path made)
      generalize hout : Impl.run body (some path) (missStart (afterSetup s sp1 path made) path ⟨fname, some path, args, kwargs⟩) = out
        at hv hok hanti habs hfin hsup hkb hab ihb' ihbR ⊢
      rw [fnamesDeepL_cons, fnamesDeep_bfRecord] at hv
      rw [targetsDeepL_cons, targetsDeep_bfRecord] at hanti habs hsup ⊢
      rw [noSFL_cons, Bool.and_eq_true] at hok
      have hoksubs : noSFL out.2.2 = true := noSF_bfRecord _ _ _ _ _ _ _ _ _ hok.1
      have hokrest := hok.2
      -- targets: nested ones, then `path`, then the later ones
      have hanti_sub : Antichain (targetsDeepL out.2.2) := hanti.left.left
      have hsub_path : ∀ p ∈ targetsDeepL out.2.2, p ≠ path ∧ ¬ p <+: path ∧ ¬ path <+: p := by
        intro p hp
        have := Antichain.ne_of_mem_append hanti.left hp (List.mem_singleton.mpr rfl)
        exact this
      have hmade_pre : ∀ d ∈ made, d <+: path := fun d hd =>
        (Backups.dirsToMake_prefix _ _ _ _ _ _ rfl hdm d hd).trans (List.dropLast_prefix path)
      have hpath_made : path ∉ made := by
        intro hm
        have := Backups.dirsToMake_prefix _ _ _ _ _ _ rfl hdm path hm
        have hl := this.length_le
        simp [List.length_dropLast] at hl
        have : path.length ≠ 0 := by simpa using hpne
        omega
      have habs_path : s.sp.fs.get path = none := habs path (by simp)
      -- the state the function starts in, and the state its records are replayed in, look the same
      have hk1fs' : sp1.fs = Spec.mkdirs s.sp.fs made := by
        rw [hsp1]; unfold setupState; simp only
        have : (Spec.mkdirs s.sp.fs made).get path = none := by
          rcases Rollback.mkdirs_get_mem made s.sp.fs path with h' | ⟨hm, _, _⟩
          · rw [h', habs_path]
          · exact absurd hm hpath_made
        simp [FS.isFile, this]
      have hsame1 : Same (missStart (afterSetup s sp1 path made) path ⟨fname, some path, args, kwargs⟩) (bfReplayStart s' path made) := by
        refine ⟨?_, ?_, ?_, ?_, ?_, ?_, hk1ff, hsame.ff', hk1fs, hsame.fsb'⟩
        · show Spec.mkdirs s'.sp.fs made = sp1.fs
          rw [hk1fs', hsame.fs]
        · show s'.sp.cacheFile = sp1.cacheFile
          rw [hsp1]; exact hsame.cacheFile
        · show s'.sp.dirSize = sp1.dirSize
          rw [hsp1]; exact hsame.dirSize
        · show path :: s'.sp.claimedFiles = sp1.claimedFiles
          rw [hsp1, hsame.claimedFiles]; rfl
        · show s'.sp.claimedSubs = sp1.claimedSubs
          rw [hsp1]; exact hsame.claimedSubs
        · show path :: s'.sp.inProg = sp1.inProg
          rw [hsp1, hsame.inProg]; rfl
      have hv1 : ∀ f ∈ fnamesDeepL out.2.2, versionOk (bfReplayStart s' path made) f = true := fun f hf => by
        exact (versionOk_congr (b := s') rfl rfl f).trans (hv f (by simp [hf]))
      -- nested targets are absent when the function starts, and stay on the shelf
      have hnot_made : ∀ p, ¬ p <+: path → p ∉ made := fun p hp hm => hp (hmade_pre p hm)
      have habs1 : ∀ p ∈ targetsDeepL out.2.2, (missStart (afterSetup s sp1 path made) path ⟨fname, some path, args, kwargs⟩).sp.fs.get p = none := by
        intro p hp
        show sp1.fs.get p = none
        rw [hsp1]
        exact setupState_absent _ _ _ _ (hsub_path p hp).1 (hnot_made p (hsub_path p hp).2.1) (habs p (by simp [hp]))
      obtain ⟨_, hk2, hk3⟩ := bfFinish_keeps out.2.1.sp path made out.1
      have hk3old : (withSp out.2.1 (bfFinish out.2.1.sp path made out.1).2).old.roots = [] := by
        show out.2.1.old.roots = []; rw [hkb.old]; exact h0
      have hk3ff : (withSp out.2.1 (bfFinish out.2.1.sp path made out.1).2).sp.failFiles = [] := by
        show (bfFinish _ path made out.1).2.failFiles = []; rw [hk2]; exact hkb.ff
      have hk3fs : (withSp out.2.1 (bfFinish out.2.1.sp path made out.1).2).sp.failSubs = [] := by
        show (bfFinish _ path made out.1).2.failSubs = []; rw [hk3]; exact hkb.fsb
      have hkeep3 := run_keeps (k (bfFinish out.2.1.sp path made out.1).1) t (withSp out.2.1 (bfFinish out.2.1.sp path made out.1).2) hk3old hk3ff hk3fs
      have hfin3 : FirstKeeps (withSp out.2.1 (bfFinish out.2.1.sp path made out.1).2) fin := hkeep3.trans hfin
      have hrest_path : ∀ p ∈ targetsDeepL (Impl.run (k (bfFinish out.2.1.sp path made out.1).1) t (withSp out.2.1 (bfFinish out.2.1.sp path made out.1).2)).2.2,
          p ≠ path ∧ ¬ p <+: path ∧ ¬ path <+: p := by
        intro p hp
        have := Antichain.ne_of_mem_append hanti (List.mem_append_right _ (List.mem_singleton.mpr rfl)) hp
        exact ⟨fun e => this.1 e.symm, this.2.2, this.2.1⟩
      have hrest_sub : ∀ p ∈ targetsDeepL (Impl.run (k (bfFinish out.2.1.sp path made out.1).1) t (withSp out.2.1 (bfFinish out.2.1.sp path made out.1).2)).2.2,
          ∀ p' ∈ targetsDeepL out.2.2, ¬ p <+: p' := by
        intro p hp p' hp'
        exact (Antichain.ne_of_mem_append hanti (List.mem_append_left _ hp') hp).2.2
      have habs3 : ∀ p ∈ targetsDeepL (Impl.run (k (bfFinish out.2.1.sp path made out.1).1) t (withSp out.2.1 (bfFinish out.2.1.sp path made out.1).2)).2.2,
          (withSp out.2.1 (bfFinish out.2.1.sp path made out.1).2).sp.fs.get p = none := by
        intro p hp
        apply bfFinish_absent _ _ _ _ _ (hrest_path p hp).1
        apply hab p h0 hk1ff hk1fs
        · show sp1.fs.get p = none
          rw [hsp1]
          exact setupState_absent _ _ _ _ (hrest_path p hp).1 (hnot_made p (hrest_path p hp).2.1) (habs p (by simp [hp]))
        · exact hrest_sub p hp
      have hdm' : Spec.dirsToMake (Spec.visible s'.sp) s'.sp.cacheFile s'.sp.inProg path.dropLast = .ok made := by
        rw [hsame.visible, hsame.cacheFile, hsame.inProg]; exact hdm
      have hlong : made.any Path.tooLong = false := by
        have hs := hsetup
        unfold bfSetup at hs
        simp only [show s.sp.claimedFiles.contains path = false from by simpa using hnc, hncf, hnd, hdm, Bool.false_eq_true, if_false,
          show s.sp.failFiles.contains path = false from by simp [hsame.ff]] at hs
        by_cases hl : made.any Path.tooLong = true
        · simp [hl] at hs
        · simpa using hl
      rcases (show (∃ j, (bfFinish out.2.1.sp path made out.1).1 = .ok j) ∨ (∃ e, (bfFinish out.2.1.sp path made out.1).1 = .error e) from by
          cases (bfFinish out.2.1.sp path made out.1).1 with
          | ok j => exact Or.inl ⟨j, rfl⟩
          | error e => exact Or.inr ⟨e, rfl⟩) with ⟨j, hj⟩ | ⟨e, hfe⟩
      · -- the call succeeded
        obtain ⟨c, m, hpf, hrb, hfinOk⟩ := bfFinish_ok_inv out.2.1.sp path made out.1 j hj
        -- the state after the call, and the rest of the run
        have hs3fs : (withSp out.2.1 (bfFinish out.2.1.sp path made out.1).2).sp.fs = out.2.1.sp.fs.set path (.file c m) := by
          show (bfFinish out.2.1.sp path made out.1).2.fs = _
          rw [hfinOk]; rfl
        have hpath_out : out.2.1.sp.fs.get path = none := by
          apply hab path h0 hk1ff hk1fs
          · show sp1.fs.get path = none
            rw [hk1fs']
            rcases Rollback.mkdirs_get_mem made s.sp.fs path with h' | ⟨hm, _, _⟩
            · rw [h', habs_path]
            · exact absurd hm hpath_made
          · intro p hp; exact (hsub_path p hp).2.2
        have hfin2 : FirstKeeps out.2.1 fin := by
          have h23 : FirstKeeps out.2.1 (withSp out.2.1 (bfFinish out.2.1.sp path made out.1).2) := by
            refine ⟨rfl, hk3ff, hk3fs, ?_, ?_⟩
            · intro p hp
              show p ∈ (bfFinish _ path made out.1).2.claimedFiles
              rw [bfFinish_claimed]; exact hp
            · intro p b' m' hg _
              have hne : p ≠ path := by intro e; rw [e, hpath_out] at hg; cases hg
              rw [hs3fs, get_set_ne _ _ _ _ hne]; exact hg
          exact h23.trans hfin3
        have hpath_fin : fin.sp.fs.get path = some (.file c m) := by
          apply hfin3.files path c m
          · rw [hs3fs]; exact get_set_self _ _ _ hpne
          · show path ∈ (bfFinish _ path made out.1).2.claimedFiles
            rw [bfFinish_claimed]
            apply hkb.claimed
            show path ∈ sp1.claimedFiles
            rw [hsp1]; simp [setupState]
        have hshelf_path : s'.shelf.get path = some (.file c m) := by rw [hsup path (by simp), hpath_fin]
        -- replay of the nested records
        obtain ⟨s2', hrep2, hsame2, hR2⟩ := ihb' fin h0 hsame1 hv1 hoksubs hanti_sub habs1 hfin2 (by
          intro p hp
          show FS.get (s'.shelf.filter (fun x => !(made.contains x.1))) p = _
          rw [shelf_filter_made _ _ _ (hnot_made p (hsub_path p hp).2.1)]
          exact hsup p (by simp [hp]))
        -- the record of the call itself
        have hcmpB : cmpBuilt (withSp out.2.1 (bfFinish out.2.1.sp path made out.1).2) path cmp = View.cmpResult cmp c m := by
          unfold cmpBuilt; rw [hs3fs, get_set_self _ _ _ hpne]
        have hrec : bfRecord path cmp fname args kwargs out.2.2 out.1 (bfFinish out.2.1.sp path made out.1).1
            (withSp out.2.1 (bfFinish out.2.1.sp path made out.1).2) =
            Op.buildFile path cmp fname args kwargs out.2.2 j (View.cmpResult cmp c m) false false c := by
          unfold bfRecord
          rw [hj]
          simp only [hcmpB, hs3fs, get_set_self _ _ _ hpne]
        have hom : outputMatches s' path cmp (View.cmpResult cmp c m) = true := by
          unfold outputMatches cmpShelf
          simp only [hshelf_path, hpne, if_false]
          exact cmpResult_refl cmp c m
        have hreplay : replayOp (bfRecord path cmp fname args kwargs out.2.2 out.1 (bfFinish out.2.1.sp path made out.1).1
            (withSp out.2.1 (bfFinish out.2.1.sp path made out.1).2)) s' = some (adopt s2' path made) := by
          rw [hrec, replayOp_bf s' path cmp fname args kwargs out.2.2 j _ c made (hv fname (by simp)) hom
            (by rw [hsame.claimedFiles]; exact hnc) (by rw [hsame.cacheFile]; exact hncf) (by rw [hsame.fs]; exact habs_path) hdm' hlong, hrep2]
        -- after the replayed call
        have hshelf2_path : s2'.shelf.get path = some (.file c m) := by
          rw [hR2.shelf path (fun p hp => (hsub_path p hp).2.2)]
          show FS.get (s'.shelf.filter (fun x => !(made.contains x.1))) path = _
          rw [shelf_filter_made _ _ _ hpath_made]; exact hshelf_path
        have hsame3 : Same (withSp out.2.1 (bfFinish out.2.1.sp path made out.1).2) (adopt s2' path made) := by
          refine ⟨?_, ?_, ?_, ?_, ?_, ?_, hk3ff, hsame2.ff', hk3fs, hsame2.fsb'⟩
          · show (adopt s2' path made).sp.fs = _
            rw [hs3fs]
            simp only [adopt, hshelf2_path, hpne, if_false]
            rw [hsame2.fs]
          · show s2'.sp.cacheFile = (bfFinish _ path made out.1).2.cacheFile
            rw [hfinOk]; exact hsame2.cacheFile
          · show s2'.sp.dirSize = (bfFinish _ path made out.1).2.dirSize
            rw [hfinOk]; exact hsame2.dirSize
          · show s2'.sp.claimedFiles = (bfFinish _ path made out.1).2.claimedFiles
            rw [hfinOk]; exact hsame2.claimedFiles
          · show s2'.sp.claimedSubs = (bfFinish _ path made out.1).2.claimedSubs
            rw [hfinOk]; exact hsame2.claimedSubs
          · show s2'.sp.inProg.erase path = (bfFinish _ path made out.1).2.inProg
            rw [hfinOk, hsame2.inProg]; rfl
        have hv3 : ∀ f ∈ fnamesDeepL (Impl.run (k (bfFinish out.2.1.sp path made out.1).1) t (withSp out.2.1 (bfFinish out.2.1.sp path made out.1).2)).2.2,
            versionOk (adopt s2' path made) f = true := fun f hf => by
          rw [versionOk_congr (b := s') (show (adopt s2' path made).old = s'.old from hR2.old) (show (adopt s2' path made).newVersions = s'.newVersions from hR2.nv)]
          exact hv f (by simp [hf])
        obtain ⟨s'', hrep3, hsame4, hR3⟩ := ihk (bfFinish out.2.1.sp path made out.1).1 t (withSp out.2.1 (bfFinish out.2.1.sp path made out.1).2)
          (adopt s2' path made) fin hk3old hsame3 hv3 hokrest hanti.right habs3 hfin (by
            intro p hp
            show (s2'.shelf.erase path).get p = _
            rw [get_erase_ne _ _ _ (hrest_path p hp).1, hR2.shelf p (hrest_sub p hp)]
            show FS.get (s'.shelf.filter (fun x => !(made.contains x.1))) p = _
            rw [shelf_filter_made _ _ _ (hnot_made p (hrest_path p hp).2.1)]
            exact hsup p (by simp [hp]))
        refine ⟨s'', ?_, hsame4, ?_, ?_, ?_, ?_⟩
        · simp only [replayOps, hreplay]; exact hrep3
        · rw [hR3.old]; exact hR2.old
        · rw [hR3.nv]; exact hR2.nv
        · rw [hR3.inv]; exact hR2.inv
        · intro q hq
          have hq1 : ∀ p ∈ targetsDeepL out.2.2, ¬ q <+: p := fun p hp => hq p (by simp [hp])
          have hq2 : ¬ q <+: path := hq path (by simp)
          have hq3 : ∀ p ∈ targetsDeepL (Impl.run (k (bfFinish out.2.1.sp path made out.1).1) t (withSp out.2.1 (bfFinish out.2.1.sp path made out.1).2)).2.2, ¬ q <+: p :=
            fun p hp => hq p (by simp [hp])
          rw [hR3.shelf q hq3]
          show (s2'.shelf.erase path).get q = _
          rw [get_erase_ne _ _ _ (fun e => hq2 (by rw [e]; exact List.prefix_refl _)), hR2.shelf q hq1]
          show FS.get (s'.shelf.filter (fun x => !(made.contains x.1))) q = _
          exact shelf_filter_made _ _ _ (hnot_made q hq2)
      · -- the call raised: its record is re-enacted, the target and the directories made for it go
        have hfs3 : (bfFinish out.2.1.sp path made out.1).2 = failState out.2.1.sp path made := bfFinish_error_state _ _ _ _ e hfe
        have hs3fs : (withSp out.2.1 (bfFinish out.2.1.sp path made out.1).2).sp.fs = rmEmpty out.2.1.sp.fs made := by
          show (bfFinish out.2.1.sp path made out.1).2.fs = _
          rw [hfs3]; rfl
        have hfin2 : FirstKeeps out.2.1 fin := by
          have h23 : FirstKeeps out.2.1 (withSp out.2.1 (bfFinish out.2.1.sp path made out.1).2) := by
            refine ⟨rfl, hk3ff, hk3fs, ?_, ?_⟩
            · intro p hp
              show p ∈ (bfFinish _ path made out.1).2.claimedFiles
              rw [bfFinish_claimed]; exact hp
            · intro p b' m' hg _
              rw [hs3fs]; exact rmEmpty_file _ _ p b' m' hg
          exact h23.trans hfin3
        have hsame1R : Same (missStart (afterSetup s sp1 path made) path ⟨fname, some path, args, kwargs⟩) (bfReplayStartR s' path made) :=
          ⟨hsame1.fs, hsame1.cacheFile, hsame1.dirSize, hsame1.claimedFiles, hsame1.claimedSubs, hsame1.inProg, hk1ff, hsame.ff', hk1fs, hsame.fsb'⟩
        have hv1R : ∀ f ∈ fnamesDeepL out.2.2, versionOk (bfReplayStartR s' path made) f = true := fun f hf => by
          exact (versionOk_congr (b := s') rfl rfl f).trans (hv f (by simp [hf]))
        obtain ⟨s2', hrep2, hsame2, hR2⟩ := ihbR fin h0 hsame1R hv1R hoksubs hanti_sub habs1 hfin2 (by
          intro p hp
          show s'.shelf.get p = _
          exact hsup p (by simp [hp]))
        obtain ⟨kept, hrec⟩ : ∃ kept, bfRecord path cmp fname args kwargs out.2.2 out.1 (bfFinish out.2.1.sp path made out.1).1
            (withSp out.2.1 (bfFinish out.2.1.sp path made out.1).2) =
            Op.buildFile path cmp fname args kwargs out.2.2 kept .null true false "" := by
          unfold bfRecord
          rw [hfe]
          exact ⟨_, rfl⟩
        have hreplay : replayOp (bfRecord path cmp fname args kwargs out.2.2 out.1 (bfFinish out.2.1.sp path made out.1).1
            (withSp out.2.1 (bfFinish out.2.1.sp path made out.1).2)) s' = some (unwind s2' path made) := by
          rw [hrec, replayOp_bf_raised s' path cmp fname args kwargs out.2.2 kept .null "" made (hv fname (by simp))
            (by rw [hsame.claimedFiles]; exact hnc) (by rw [hsame.cacheFile]; exact hncf) (by rw [hsame.fs]; exact habs_path) hdm' hlong, hrep2]
        have hsame3 : Same (withSp out.2.1 (bfFinish out.2.1.sp path made out.1).2) (unwind s2' path made) := by
          refine ⟨?_, ?_, ?_, ?_, ?_, ?_, hk3ff, hsame2.ff', hk3fs, hsame2.fsb'⟩
          · show (unwind s2' path made).sp.fs = _
            rw [hs3fs]
            show rmEmpty s2'.sp.fs made = _
            rw [hsame2.fs]
          · show s2'.sp.cacheFile = (bfFinish _ path made out.1).2.cacheFile
            rw [hfs3]; exact hsame2.cacheFile
          · show s2'.sp.dirSize = (bfFinish _ path made out.1).2.dirSize
            rw [hfs3]; exact hsame2.dirSize
          · show s2'.sp.claimedFiles = (bfFinish _ path made out.1).2.claimedFiles
            rw [hfs3]; exact hsame2.claimedFiles
          · show s2'.sp.claimedSubs = (bfFinish _ path made out.1).2.claimedSubs
            rw [hfs3]; exact hsame2.claimedSubs
          · show s2'.sp.inProg.erase path = (bfFinish _ path made out.1).2.inProg
            rw [hfs3, hsame2.inProg]; rfl
        have hv3 : ∀ f ∈ fnamesDeepL (Impl.run (k (bfFinish out.2.1.sp path made out.1).1) t (withSp out.2.1 (bfFinish out.2.1.sp path made out.1).2)).2.2,
            versionOk (unwind s2' path made) f = true := fun f hf => by
          rw [versionOk_congr (b := s') (show (unwind s2' path made).old = s'.old from hR2.old) (show (unwind s2' path made).newVersions = s'.newVersions from hR2.nv)]
          exact hv f (by simp [hf])
        have hunw : ∀ q, q ∉ made → (unwind s2' path made).shelf.get q = s2'.shelf.get q := by
          intro q hq
          show FS.get (s2'.shelf.filter _) q = _
          apply get_filter_keep
          intro e0
          simp [hq]
        obtain ⟨s'', hrep3, hsame4, hR3⟩ := ihk (bfFinish out.2.1.sp path made out.1).1 t (withSp out.2.1 (bfFinish out.2.1.sp path made out.1).2)
          (unwind s2' path made) fin hk3old hsame3 hv3 hokrest hanti.right habs3 hfin (by
            intro p hp
            rw [hunw p (hnot_made p (hrest_path p hp).2.1), hR2.shelf p (hrest_sub p hp)]
            show s'.shelf.get p = _
            exact hsup p (by simp [hp]))
        refine ⟨s'', ?_, hsame4, ?_, ?_, ?_, ?_⟩
        · simp only [replayOps, hreplay]; exact hrep3
        · rw [hR3.old]; exact hR2.old
        · rw [hR3.nv]; exact hR2.nv
        · rw [hR3.inv]; exact hR2.inv
        · intro q hq
          have hq1 : ∀ p ∈ targetsDeepL out.2.2, ¬ q <+: p := fun p hp => hq p (by simp [hp])
          have hq2 : ¬ q <+: path := hq path (by simp)
          have hq3 : ∀ p ∈ targetsDeepL (Impl.run (k (bfFinish out.2.1.sp path made out.1).1) t (withSp out.2.1 (bfFinish out.2.1.sp path made out.1).2)).2.2, ¬ q <+: p :=
            fun p hp => hq p (by simp [hp])
          rw [hR3.shelf q hq3, hunw q (hnot_made q hq2), hR2.shelf q hq1]
          rfl
  | subbuild fname args kwargs body k ihb ihk =>
    intro t s s' fin h0 hsame hv hok hanti habs hfin hsup
    have hfs : s.sp.failSubs.any (heq (subKey fname args kwargs)) = false := by simp [hsame.fsb]
    by_cases hc : s.sp.claimedSubs.any (heq (subKey fname args kwargs)) = true
    · exfalso
      simp only [Impl.run, hc, if_true] at hok
      simp [noSFL, noSF] at hok
    · have hc' : s.sp.claimedSubs.any (heq (subKey fname args kwargs)) = false := by simpa using hc
      have hlook := lookupSub_empty (subClaim s (subKey fname args kwargs)) h0 fname args kwargs
      rw [run_sb_miss' s t fname args kwargs body k hc' hfs hlook] at hv hok hanti habs hfin hsup ⊢
      simp only at hv hok hanti habs hfin hsup ⊢
      have hkb := run_keeps body none (Impl.subStart (subClaim s (subKey fname args kwargs)) ⟨fname, none, args, kwargs⟩) h0 hsame.ff hsame.fsb
      have hab := run_absent body none (Impl.subStart (subClaim s (subKey fname args kwargs)) ⟨fname, none, args, kwargs⟩)
      have ihb' := ihb none (Impl.subStart (subClaim s (subKey fname args kwargs)) ⟨fname, none, args, kwargs⟩) (subClaim s' (subKey fname args kwargs))
      generalize hout : Impl.run body none (Impl.subStart (subClaim s (subKey fname args kwargs)) ⟨fname, none, args, kwargs⟩) = out
        at hv hok hanti habs hfin hsup hkb hab ihb' ⊢
      rw [fnamesDeepL_cons, fnamesDeep_sbRecord] at hv
      rw [targetsDeepL_cons, targetsDeep_sbRecord] at hanti habs hsup ⊢
      rw [noSFL_cons, Bool.and_eq_true] at hok
      have hoksubs : noSFL out.2.2 = true := noSF_sbRecord _ _ _ _ _ hok.1
      have hokrest := hok.2
      have hsame1 : Same (Impl.subStart (subClaim s (subKey fname args kwargs)) ⟨fname, none, args, kwargs⟩) (subClaim s' (subKey fname args kwargs)) := by
        refine ⟨hsame.fs, hsame.cacheFile, hsame.dirSize, hsame.claimedFiles, ?_, hsame.inProg, hsame.ff, hsame.ff', hsame.fsb, hsame.fsb'⟩
        show subKey fname args kwargs :: s'.sp.claimedSubs = subKey fname args kwargs :: s.sp.claimedSubs
        rw [hsame.claimedSubs]
      have hv1 : ∀ f ∈ fnamesDeepL out.2.2, versionOk (subClaim s' (subKey fname args kwargs)) f = true := fun f hf => by
        exact (versionOk_congr (b := s') rfl rfl f).trans (hv f (by simp [hf]))
      have hkeep3 := run_keeps (k out.1) t out.2.1 (by rw [hkb.old]; exact h0) hkb.ff hkb.fsb
      have hfin2 : FirstKeeps out.2.1 fin := hkeep3.trans hfin
      obtain ⟨s2', hrep2, hsame2, hR2⟩ := ihb' fin h0 hsame1 hv1 hoksubs hanti.left
        (fun p hp => habs p (by simp [hp])) hfin2 (fun p hp => hsup p (by simp [hp]))
      have hreplay : replayOp (sbRecord fname args kwargs out.2.2 out.1) s' = some s2' := by
        cases hr1 : out.1 with
        | ok j =>
          show replayOp (.subbuild fname args kwargs out.2.2 j false false) s' = _
          rw [replayOp_sbF s' fname args kwargs out.2.2 j false (hv fname (by simp)) (by rw [hsame.claimedSubs]; exact hc'), hrep2]
        | error e =>
          show replayOp (.subbuild fname args kwargs out.2.2 .null true false) s' = _
          rw [replayOp_sbF s' fname args kwargs out.2.2 .null true (hv fname (by simp)) (by rw [hsame.claimedSubs]; exact hc'), hrep2]
      have hv3 : ∀ f ∈ fnamesDeepL (Impl.run (k out.1) t out.2.1).2.2, versionOk s2' f = true := fun f hf => by
        rw [versionOk_congr (b := s') hR2.old hR2.nv]; exact hv f (by simp [hf])
      have hrest_sub : ∀ p ∈ targetsDeepL (Impl.run (k out.1) t out.2.1).2.2, ∀ p' ∈ targetsDeepL out.2.2, ¬ p <+: p' := by
        intro p hp p' hp'
        exact (Antichain.ne_of_mem_append hanti hp' hp).2.2
      have habs3 : ∀ p ∈ targetsDeepL (Impl.run (k out.1) t out.2.1).2.2, out.2.1.sp.fs.get p = none := by
        intro p hp
        exact hab p h0 hsame.ff hsame.fsb (habs p (by simp [hp])) (hrest_sub p hp)
      obtain ⟨s'', hrep3, hsame4, hR3⟩ := ihk out.1 t out.2.1 s2' fin (by rw [hkb.old]; exact h0) hsame2 hv3 hokrest hanti.right habs3 hfin (by
        intro p hp
        rw [hR2.shelf p (hrest_sub p hp)]
        exact hsup p (by simp [hp]))
      refine ⟨s'', ?_, hsame4, ?_, ?_, ?_, ?_⟩
      · simp only [replayOps, hreplay]; exact hrep3
      · rw [hR3.old]; exact hR2.old
      · rw [hR3.nv]; exact hR2.nv
      · rw [hR3.inv]; exact hR2.inv
      · intro q hq
        rw [hR3.shelf q (fun p hp => hq p (by simp [hp])), hR2.shelf q (fun p hp => hq p (by simp [hp]))]
        rfl


end FB
