/-
  C03 on the implementation model: with the cache in play (records replayed, old outputs adopted from the
  shelf, recorded failures re-enacted) the frame of `C03_run_frame` still holds.
-/
import FB.Props.C03
import FB.Props.C01
import FB.Props.C12
namespace FB
open FS Spec

theorem lookupFile_some (s : KSt) (path : Path) (cmp : Cmp) (fname : String) (args kwargs : Json)
    (made : List Path) (op : Op) (s2 : KSt)
    (h : Impl.lookupFile s path cmp fname args kwargs made = some (op, s2)) :
    ∃ subs s2', Impl.replayOps subs s = some s2' ∧ s2 = Impl.adopt s2' path made := by
  unfold Impl.lookupFile at h
  split at h
  · split at h
    · split at h
      · cases h
      · rename_i s2' hs2
        split at h
        · cases h
        · simp only [Option.some.injEq, Prod.mk.injEq] at h
          exact ⟨_, s2', hs2, h.2.symm⟩
    · cases h
  · cases h

theorem adopt_frame (s0 : SpecSt) (s2 : KSt) (path : Path) (made : List Path)
    (h : Frame s0 s2.sp) (hpd : s0.fs.get path ≠ some .dir) (hcl : path ∈ s2.sp.claimedFiles) :
    Frame s0 (Impl.adopt s2 path made).sp := by
  constructor
  · intro q hq
    have hqp : q ≠ path := by intro e; subst e; exact hpd hq
    simp only [Impl.adopt]
    split
    · split
      · exact h.dirs q hq
      · rw [get_set_ne _ _ _ _ hqp]; exact h.dirs q hq
    · exact h.dirs q hq
  · intro q b m hq hncl
    have hncl' : q ∉ s2.sp.claimedFiles := hncl
    have hqp : q ≠ path := by intro e; subst e; exact hncl' hcl
    simp only [Impl.adopt]
    split
    · split
      · exact h.files q b m hq hncl'
      · rw [get_set_ne _ _ _ _ hqp]; exact h.files q b m hq hncl'
    · exact h.files q b m hq hncl'

theorem unwind_frame (s0 : SpecSt) (s2 : KSt) (path : Path) (made : List Path)
    (h : Frame s0 s2.sp) (hmade : ∀ q ∈ made, s0.fs.get q ≠ some .dir) :
    Frame s0 (Impl.unwind s2 path made).sp := by
  constructor
  · intro q hq
    simp only [Impl.unwind]
    rcases rmEmpty_get made s2.sp.fs q with h' | ⟨hm, _, _⟩
    · rw [h']; exact h.dirs q hq
    · exact absurd hq (hmade q hm)
  · intro q b m hq hncl
    simp only [Impl.unwind]
    exact rmEmpty_file made s2.sp.fs q b m (h.files q b m hq hncl)

mutual
/-- re-enacting a record touches no foreign file and removes no directory that was there -/
theorem replayOp_frame (s0 : SpecSt) : (o : Op) → (s s' : KSt) → s.WF → Frame s0 s.sp →
    Impl.replayOp o s = some s' → Frame s0 s'.sp
  | .simple q ret exc ans, s, s', _, hf, h => by
    unfold Impl.replayOp at h
    have : s' = s := by
      split at h
      · split at h <;> simp_all
      · split at h <;> simp_all
      · cases h
    subst this; exact hf
  | .buildFile path cmp fname args kwargs subs ret cmpRes raised sf content, s, s', hwf, hf, h => by
    obtain ⟨_, _, _, hncl, _, habs, made, s2, hdm, _, hs2, hs'⟩ := replayOp_buildFile_some _ _ _ _ _ _ _ _ _ _ _ _ _ h
    have hwf1 : (replayS1 s path made raised).WF := by
      intro p hp
      simp only [replayS1, List.mem_cons] at hp ⊢
      rcases hp with rfl | hp
      · exact Or.inl rfl
      · exact Or.inr (hwf p hp)
    have hmade : ∀ q ∈ made, s0.fs.get q ≠ some .dir := by
      intro q hq hdq
      have := dirsToMake_absent s.sp _ _ _ rfl hdm q hq
      rw [hf.dirs q hdq] at this; cases this
    have hpd : s0.fs.get path ≠ some .dir := by
      intro hdq; rw [hf.dirs path hdq] at habs; cases habs
    have hf1 : Frame s0 (replayS1 s path made raised).sp := by
      constructor
      · intro q hq
        simp only [replayS1]
        rcases mkdirs_get made s.sp.fs q with h' | ⟨hn, _⟩
        · rw [h']; exact hf.dirs q hq
        · rw [hf.dirs q hq] at hn; cases hn
      · intro q b m hq hncl'
        simp only [replayS1] at hncl' ⊢
        exact mkdirs_file made s.sp.fs q b m (hf.files q b m hq (fun hm => hncl' (List.mem_cons_of_mem _ hm)))
    have hf2 := replayOps_frame s0 subs _ s2 hwf1 hf1 hs2
    have k12 := replayOps_keeps subs _ s2 hwf1 hs2
    have hcl2 : path ∈ s2.sp.claimedFiles := k12.claimed path (by simp [replayS1])
    subst hs'
    cases raised with
    | true => simp only [if_true]; exact unwind_frame s0 s2 path made hf2 hmade
    | false => simp only [Bool.false_eq_true, if_false]; exact adopt_frame s0 s2 path made hf2 hpd hcl2
  | .subbuild fname args kwargs subs ret raised sf, s, s', hwf, hf, h => by
    obtain ⟨_, _, _, hs⟩ := replayOp_subbuild_some _ _ _ _ _ _ _ _ _ h
    exact replayOps_frame s0 subs (claimSub s (subKey fname args kwargs)) s' (by intro p hp; exact hwf p hp) ⟨hf.dirs, hf.files⟩ hs
theorem replayOps_frame (s0 : SpecSt) : (os : List Op) → (s s' : KSt) → s.WF → Frame s0 s.sp →
    Impl.replayOps os s = some s' → Frame s0 s'.sp
  | [], s, s', _, hf, h => by
    simp [Impl.replayOps] at h; subst h; exact hf
  | o :: os, s, s', hwf, hf, h => by
    obtain ⟨sm, h1, h2⟩ := (replayOps_cons o os s s').mp h
    have k1 := replayOp_keeps o s sm hwf h1
    exact replayOps_frame s0 os sm s' (k1.wf hwf) (replayOp_frame s0 o s sm hwf hf h1) h2
end

/-- the invariant carried through a run of the implementation model -/
structure KFrame (s0 : SpecSt) (s s' : KSt) : Prop where
  frame : Frame s0 s'.sp
  wf : s'.WF
  claimed : ∀ p ∈ s.sp.claimedFiles, p ∈ s'.sp.claimedFiles
  inProg : s'.sp.inProg = s.sp.inProg

theorem KFrame.rebase {s0 : SpecSt} {s s1 s' : KSt} (hc : ∀ p ∈ s.sp.claimedFiles, p ∈ s1.sp.claimedFiles)
    (hi : s1.sp.inProg = s.sp.inProg) (h : KFrame s0 s1 s') : KFrame s0 s s' :=
  ⟨h.frame, h.wf, fun p hp => h.claimed p (hc p hp), h.inProg.trans hi⟩

theorem bfFinish_inProg (s : SpecSt) (path : Path) (made : List Path) (r : CallRes) :
    (bfFinish s path made r).2.inProg = s.inProg.erase path := by
  unfold bfFinish
  cases r with
  | error e => rfl
  | ok j => simp only; split <;> rfl

/-- C03 (implementation model, while the functions run): every program, every old cache, every state
    of the tree. -/
theorem C03_impl_run_frame (prog : Prog) : ∀ (t : Option Path) (s0 : SpecSt) (s : KSt),
    Frame s0 s.sp → s.WF → KFrame s0 s (Impl.run prog t s).2.1 := by
  induction prog with
  | ret v => intro t s0 s h hwf; simp only [Impl.run]; split <;> exact ⟨h, hwf, fun _ h => h, rfl⟩
  | raise e => intro t s0 s h hwf; exact ⟨h, hwf, fun _ h => h, rfl⟩
  | query q k ih =>
    intro t s0 s h hwf
    simp only [Impl.run]
    exact ih _ t s0 s h hwf
  | write b mt k ih =>
    intro t s0 s h hwf
    cases t with
    | none => simp only [Impl.run]; exact ih none s0 s h hwf
    | some p =>
      simp only [Impl.run]
      generalize hs1 : (Impl.liftSp s fun sp => { sp with pending := (p, b, mt.getD sp.clock) :: sp.pending, clock := sp.clock + 1 }) = s1
      have hf1 : Frame s0 s1.sp := by subst hs1; exact ⟨h.dirs, h.files⟩
      have hw1 : s1.WF := by subst hs1; exact hwf
      exact KFrame.rebase (s1 := s1) (by intro _ hp; subst hs1; exact hp) (by subst hs1; rfl) (ih (some p) s0 s1 hf1 hw1)
  | buildFile path cmp fname args kwargs body k ihb ihk =>
    intro t s0 s h hwf
    simp only [Impl.run]
    cases hs : bfSetup s.sp path with
    | error e =>
      simp only
      exact KFrame.rebase (s1 := Impl.liftSp s fun sp => setupFailState sp path e) (fun _ hp => hp) rfl
        (ihk (.error e) t s0 (Impl.liftSp s fun sp => setupFailState sp path e) ⟨h.dirs, h.files⟩ hwf)
    | ok r =>
      obtain ⟨s1, made⟩ := r
      simp only
      obtain ⟨hs1, hncl, _, hnd, hdm, _⟩ := bfSetup_ok_fields _ _ _ _ hs
      subst hs1
      have hmade : ∀ q ∈ made, s0.fs.get q ≠ some .dir := by
        intro q hq hdq
        have := dirsToMake_absent s.sp _ _ _ rfl hdm q hq
        rw [h.dirs q hdq] at this; cases this
      have hpd : s0.fs.get path ≠ some .dir := by
        intro hdq; simp [isDir, h.dirs path hdq] at hnd
      have hf1 := setupState_frame s0 s.sp path made h hnd
      generalize hk1 : Impl.afterSetup s (setupState s.sp path made) path made = k1
      have hk1sp : k1.sp = setupState s.sp path made := by subst hk1; rfl
      have hwfk1 : k1.WF := by
        intro p hp
        rw [hk1sp] at hp ⊢
        simp only [setupState, List.mem_cons] at hp ⊢
        rcases hp with rfl | hp
        · exact Or.inl rfl
        · exact Or.inr (hwf p hp)
      have hfk1 : Frame s0 k1.sp := by rw [hk1sp]; exact hf1
      have hclk1 : path ∈ k1.sp.claimedFiles := by rw [hk1sp]; simp [setupState]
      have hcl01 : ∀ p ∈ s.sp.claimedFiles, p ∈ k1.sp.claimedFiles := by
        intro p hp; rw [hk1sp]; simp [setupState, hp]
      have hip1 : k1.sp.inProg = path :: s.sp.inProg := by rw [hk1sp]; rfl
      cases hl : Impl.lookupFile k1 path cmp fname args kwargs made with
      | some r =>
        obtain ⟨op, s2⟩ := r
        obtain ⟨subs, s2', hrep, hs2⟩ := lookupFile_some _ _ _ _ _ _ _ _ _ hl
        have hf2' := replayOps_frame s0 subs k1 s2' hwfk1 hfk1 hrep
        have k12 := replayOps_keeps subs k1 s2' hwfk1 hrep
        have hf2 : Frame s0 s2.sp := by
          subst hs2; exact adopt_frame s0 s2' path made hf2' hpd (k12.claimed path hclk1)
        have hip2 : s2.sp.inProg = s.sp.inProg := by
          subst hs2; simp only [Impl.adopt]; rw [k12.inProg, hip1]
          simp [List.erase_cons_head]
        have hcl2 : ∀ p ∈ s.sp.claimedFiles, p ∈ s2.sp.claimedFiles := by
          intro p hp; subst hs2; simp only [Impl.adopt]; exact k12.claimed p (hcl01 p hp)
        have hwf2 : s2.WF := by
          intro p hp
          rw [hip2] at hp
          exact hcl2 p (hwf p hp)
        exact KFrame.rebase hcl2 hip2 (ihk _ t s0 s2 hf2 hwf2)
      | none =>
        simp only
        generalize hk1' : Impl.missStart k1 path ⟨fname, some path, args, kwargs⟩ = k1'
        have hfk1' : Frame s0 k1'.sp := by subst hk1'; exact ⟨hfk1.dirs, hfk1.files⟩
        have hwfk1' : k1'.WF := by subst hk1'; exact hwfk1
        have hclk1' : path ∈ k1'.sp.claimedFiles := by subst hk1'; exact hclk1
        have hcl11' : ∀ p ∈ k1.sp.claimedFiles, p ∈ k1'.sp.claimedFiles := by intro p hp; subst hk1'; exact hp
        have hip1' : k1'.sp.inProg = path :: s.sp.inProg := by subst hk1'; exact hip1
        have hb := ihb (some path) s0 k1' hfk1' hwfk1'
        generalize hrb : Impl.run body (some path) k1' = rb at hb ⊢
        obtain ⟨r2, s2, subs2⟩ := rb
        simp only at hb ⊢
        have hf3 := bfFinish_frame s0 s2.sp path made r2 hb.frame hmade hpd (hb.claimed path hclk1')
        have hcl3 : (bfFinish s2.sp path made r2).2.claimedFiles = s2.sp.claimedFiles := bfFinish_claimed _ _ _ _
        have hip3 : (bfFinish s2.sp path made r2).2.inProg = s.sp.inProg := by
          rw [bfFinish_inProg, hb.inProg, hip1']; simp [List.erase_cons_head]
        generalize hfin : bfFinish s2.sp path made r2 = fin at hf3 hcl3 hip3 ⊢
        obtain ⟨r3, sp3⟩ := fin
        simp only at hf3 hcl3 hip3 ⊢
        generalize hs3 : Impl.withSp s2 sp3 = s3
        have hs3sp : s3.sp = sp3 := by subst hs3; rfl
        have hf3' : Frame s0 s3.sp := by rw [hs3sp]; exact hf3
        have hcl03 : ∀ p ∈ s.sp.claimedFiles, p ∈ s3.sp.claimedFiles := by
          intro p hp; rw [hs3sp, hcl3]
          exact hb.claimed p (hcl11' p (hcl01 p hp))
        have hip3' : s3.sp.inProg = s.sp.inProg := by rw [hs3sp]; exact hip3
        have hwf3 : s3.WF := by
          intro p hp; rw [hip3'] at hp; exact hcl03 p (hwf p hp)
        exact KFrame.rebase hcl03 hip3' (ihk r3 t s0 s3 hf3' hwf3)
  | subbuild fname args kwargs body k ihb ihk =>
    intro t s0 s h hwf
    simp only [Impl.run]
    split
    · exact ihk _ t s0 s h hwf
    · split
      · exact KFrame.rebase (s1 := Impl.liftSp s fun sp => consumeSubFault sp (subKey fname args kwargs)) (fun _ hp => hp) rfl
          (ihk _ t s0 (Impl.liftSp s fun sp => consumeSubFault sp (subKey fname args kwargs)) ⟨h.dirs, h.files⟩ hwf)
      · generalize hk1 : Impl.subClaim s (subKey fname args kwargs) = k1
        have hfk1 : Frame s0 k1.sp := by subst hk1; exact ⟨h.dirs, h.files⟩
        have hwfk1 : k1.WF := by subst hk1; exact hwf
        have hcl01 : ∀ p ∈ s.sp.claimedFiles, p ∈ k1.sp.claimedFiles := by intro p hp; subst hk1; exact hp
        have hip1 : k1.sp.inProg = s.sp.inProg := by subst hk1; rfl
        cases hl : Impl.lookupSub k1 fname args kwargs with
        | some r =>
          obtain ⟨op, s2⟩ := r
          obtain ⟨_, _, _, subs, _, _, _, _, hrep, _⟩ := lookupSub_some _ _ _ _ _ _ hl
          have hf2 := replayOps_frame s0 subs k1 s2 hwfk1 hfk1 hrep
          have k12 := replayOps_keeps subs k1 s2 hwfk1 hrep
          exact KFrame.rebase (fun p hp => k12.claimed p (hcl01 p hp)) (k12.inProg.trans hip1)
            (ihk _ t s0 s2 hf2 (k12.wf hwfk1))
        | none =>
          simp only
          generalize hk1' : Impl.subStart k1 ⟨fname, none, args, kwargs⟩ = k1'
          have hfk1' : Frame s0 k1'.sp := by subst hk1'; exact ⟨hfk1.dirs, hfk1.files⟩
          have hwfk1' : k1'.WF := by subst hk1'; exact hwfk1
          have hcl11' : ∀ p ∈ k1.sp.claimedFiles, p ∈ k1'.sp.claimedFiles := by intro p hp; subst hk1'; exact hp
          have hip1' : k1'.sp.inProg = k1.sp.inProg := by subst hk1'; rfl
          have hb := ihb none s0 k1' hfk1' hwfk1'
          generalize hrb : Impl.run body none k1' = rb at hb ⊢
          obtain ⟨r2, s2, subs2⟩ := rb
          simp only at hb ⊢
          exact KFrame.rebase (fun p hp => hb.claimed p (hcl11' p (hcl01 p hp))) (hb.inProg.trans (hip1'.trans hip1))
            (ihk r2 t s0 s2 hb.frame hb.wf)

/-- C03, closed form for the implementation model. -/
theorem C03_impl_run (prog : Prog) (t : Option Path) (s : KSt) (hwf : s.WF) :
    Frame s.sp (Impl.run prog t s).2.1.sp :=
  (C03_impl_run_frame prog t s.sp s (Frame.refl _) hwf).frame

end FB

namespace FB
open FS Spec

/-- C03 for a whole build of the implementation model, once the old cache has been read: a regular file
    that is neither the cache file nor an output recorded by the previous committed build is, after the
    build, exactly as before (bytes and modification time) — unless the build committed and the path was
    passed to `build_file` in it.  A directory is still there unless the previous build recorded that it
    created it.  This covers commit, rollback (root raised, or the cache write failed: `abort`) and injected
    faults. -/
theorem C03_impl_buildGo (w : KWorld) (cf : Path) (name : String) (vs : List (String × Json)) (root : Prog)
    (ff : List Path) (fsb : List H) (ab : Nat) (old : CacheRec) (q : Path) :
    (∀ b m, w.fs.get q = some (.file b m) → q ≠ cf → q ∉ old.toRec.outputs →
      (Impl.buildGo w cf name vs root ff fsb ab old).world.fs.get q = some (.file b m) ∨
      q ∈ (Impl.buildGo w cf name vs root ff fsb ab old).claimed) ∧
    (w.fs.get q = some .dir → q ≠ cf → q ∉ old.toRec.createdDirs →
      (Impl.buildGo w cf name vs root ff fsb ab old).world.fs.get q = some .dir) := by
  have hpc := C12_preClean_frame w.fs cf old.toRec q
  have rbF : ∀ b m ds, w.fs.get q = some (.file b m) → (mkdirs w.fs ds).get q = some (.file b m) :=
    fun b m ds h => mkdirs_file ds w.fs q b m h
  have rbD : ∀ ds, w.fs.get q = some .dir → (mkdirs w.fs ds).get q = some .dir := by
    intro ds h
    rcases mkdirs_get ds w.fs q with h' | ⟨hn, _⟩
    · rw [h', h]
    · rw [h] at hn; cases hn
  unfold Impl.buildGo
  simp only
  split
  · exact ⟨fun b m h _ _ => Or.inl (rbF b m _ h), fun h _ _ => rbD _ h⟩
  · rename_i cds hcds
    generalize hs1 : Impl.buildStart w cf vs ff fsb old cds = s1
    have hs1fs : s1.sp.fs = mkdirs (preClean w.fs cf old.toRec) cds := by subst hs1; rfl
    have hwf1 : s1.WF := by subst hs1; intro p hp; cases hp
    have hfr := C03_impl_run root none s1 hwf1
    generalize hrun : Impl.run root none s1 = rr at hfr ⊢
    obtain ⟨r0, s2, ops⟩ := rr
    simp only at hfr ⊢
    split
    · exact ⟨fun b m h _ _ => Or.inl (rbF b m _ h), fun h _ _ => rbD _ h⟩
    · rename_i v hv
      simp only
      constructor
      · intro b m h hcf hno
        by_cases hcl : q ∈ s2.sp.claimedFiles
        · exact Or.inr hcl
        · left
          have h0 : (preClean w.fs cf old.toRec).get q = some (.file b m) := by
            rcases hpc with h' | ⟨_, h' | h' | h'⟩
            · rw [h', h]
            · exact absurd h'.1 hno
            · exact absurd h'.1 hcf
            · rw [h] at h'; cases h'.2
          have h1 : s1.sp.fs.get q = some (.file b m) := by rw [hs1fs]; exact mkdirs_file _ _ _ _ _ h0
          have h2 := hfr.files q b m h1 hcl
          simp only [FS.write]
          rw [get_set_ne _ _ _ _ hcf]; exact h2
      · intro h hqcf hno
        have h0 : (preClean w.fs cf old.toRec).get q = some .dir := by
          rcases hpc with h' | ⟨_, h' | h' | h'⟩
          · rw [h', h]
          · obtain ⟨_, b, m, hb⟩ := h'; rw [h] at hb; cases hb
          · obtain ⟨_, b, m, hb⟩ := h'; rw [h] at hb; cases hb
          · exact absurd h'.1 hno
        have h1 : s1.sp.fs.get q = some .dir := by
          rw [hs1fs]
          rcases mkdirs_get cds (preClean w.fs cf old.toRec) q with h' | ⟨hn, _⟩
          · rw [h', h0]
          · rw [h0] at hn; cases hn
        have h2 := hfr.dirs q h1
        simp only [FS.write]
        rw [get_set_ne _ _ _ _ hqcf]; exact h2

/-- **C03 for `build`** (implementation model): every history position, every program, every old cache,
    commit or rollback. -/
theorem C03_impl_build (w : KWorld) (cf : Path) (name : String) (vs : List (String × Json)) (root : Prog)
    (ff : List Path) (fsb : List H) (ab : Nat) (q : Path) :
    (∀ b m, w.fs.get q = some (.file b m) → q ≠ cf →
      (∀ r, w.cacheState cf = .valid r → q ∉ r.toRec.outputs) →
      (Impl.build w cf name vs root ff fsb ab).world.fs.get q = some (.file b m) ∨
      q ∈ (Impl.build w cf name vs root ff fsb ab).claimed) ∧
    (w.fs.get q = some .dir → (∀ r, w.cacheState cf = .valid r → q ∉ r.toRec.createdDirs) →
      (Impl.build w cf name vs root ff fsb ab).world.fs.get q = some .dir) := by
  unfold Impl.build
  cases hc : w.cacheState cf with
  | isDir => exact ⟨fun b m h _ _ => Or.inl h, fun h _ => h⟩
  | corrupt => exact ⟨fun b m h _ _ => Or.inl h, fun h _ => h⟩
  | absent =>
    simp only
    have hnd : w.fs.get cf = none := by
      unfold KWorld.cacheState at hc
      split at hc
      · assumption
      · cases hc
      · split at hc <;> cases hc
    have key := C03_impl_buildGo w cf name vs root ff fsb ab { buildName := name, versions := vs } q
    refine ⟨fun b m h hcf _ => key.1 b m h hcf (by simp [CacheRec.toRec, CacheRec.outputs, registeredL, dedup]),
      fun h _ => key.2 h (fun e => by subst e; rw [hnd] at h; cases h) (by simp [CacheRec.toRec])⟩
  | valid r =>
    simp only
    have hnd : w.fs.get cf ≠ some .dir := by
      unfold KWorld.cacheState at hc
      intro hd
      rw [hd] at hc
      cases hc
    split
    · have key := C03_impl_buildGo w cf name vs root ff fsb ab r q
      exact ⟨fun b m h hcf ho => key.1 b m h hcf (ho r rfl),
        fun h ho => key.2 h (fun e => by subst e; exact hnd h) (ho r rfl)⟩
    · exact ⟨fun b m h _ _ => Or.inl h, fun h _ => h⟩

end FB
