/-
  C16 — the cache file's codec (`FB.Codec`): everything a build records survives the write/read cycle —
  at every nesting depth, for every JSON value in it — except what the file never held (the ghost fields)
  and the one thing the JSON text layer changes (tuples come back as lists, which no consumer distinguishes:
  `isEqual_textRT`).
-/
import FB.Codec
import FB.Props.C18
namespace FB
namespace Codec

theorem textRTL_strs (p : List String) : textRTL (p.map .str) = p.map .str := by
  induction p with
  | nil => rfl
  | cons c r ih => simp [textRTL, textRT, ih]

theorem textRT_pathJ (p : Path) : textRT (pathJ p) = pathJ p := by
  simp [pathJ, textRT, textRTL_strs]

theorem strsOf_strs (p : List String) : strsOf (p.map .str) = some p := by
  induction p with
  | nil => rfl
  | cons c r ih => simp [strsOf, strOf, ih]

theorem pathOf_pathJ (p : Path) : pathOf (pathJ p) = some p := by
  simp [pathOf, pathJ, strsOf_strs]

theorem cmpOf_name (c : Cmp) : cmpOf c.name = some c := by cases c <;> rfl
theorem errOf_name (e : OSErr) : errOf e.name = some e := by cases e <;> rfl

theorem decQuery_encQuery (q : Query) : decQuery (encQuery q).1 (textRTL (encQuery q).2) = some q := by
  cases q <;> simp [encQuery, decQuery, textRTL, textRT_pathJ, pathOf_pathJ, textRT, cmpOf_name]

theorem textRTO_append (a b : List (String × Json)) : textRTO (a ++ b) = textRTO a ++ textRTO b := by
  induction a with
  | nil => rfl
  | cons x r ih => obtain ⟨k, v⟩ := x; simp [textRTO, ih]

theorem textRTO_flag (n : String) (b : Bool) : textRTO (flag n b) = flag n b := by
  cases b <;> simp [flag, textRTO, textRT]

theorem pathsOf_map (ds : List Path) : pathsOf (textRTL (ds.map pathJ)) = some ds := by
  induction ds with
  | nil => rfl
  | cons d r ih => simp [textRTL, pathsOf, textRT_pathJ, pathOf_pathJ, ih]

mutual
/-- C16: an operation record of any shape and depth is read back as it was written -/
theorem decode_encode : (o : Op) → ∀ fuel, depth o ≤ fuel → decodeOp fuel (textRT (encodeOp o)) = some (strip o)
  | .simple q ret exc ans, fuel, h => by
    cases fuel with
    | zero => simp [depth] at h
    | succ n =>
      cases q <;> cases exc <;>
        simp [encodeOp, encQuery, textRT, textRTL, textRTO_append, textRTO, decodeOp, look, List.find?, decQuery,
          textRT_pathJ, pathOf_pathJ, cmpOf_name, errOf_name, strip]
  | .buildFile p cmp f a k subs r cr raised sf ct, fuel, h => by
    cases fuel with
    | zero => simp [depth] at h
    | succ n =>
      have hsubs := decodeOps_encodeOps subs n (by simp [depth] at h; omega)
      cases raised <;> cases sf <;>
        simp [encodeOp, textRT, textRTO_append, textRTO, textRTO_flag, flag, decodeOp, look, getFlag, List.find?, textRT_pathJ, pathOf_pathJ,
          cmpOf_name, hsubs, strip]
  | .subbuild f a k subs r raised sf, fuel, h => by
    cases fuel with
    | zero => simp [depth] at h
    | succ n =>
      have hsubs := decodeOps_encodeOps subs n (by simp [depth] at h; omega)
      cases raised <;> cases sf <;>
        simp [encodeOp, textRT, textRTO_append, textRTO, textRTO_flag, flag, decodeOp, look, getFlag, List.find?, hsubs, strip]
theorem decodeOps_encodeOps : (os : List Op) → ∀ fuel, depthL os ≤ fuel →
    decodeOps fuel (textRTL (encodeOps os)) = some (stripL os)
  | [], _, _ => by simp [encodeOps, textRTL, decodeOps, stripL]
  | o :: os, fuel, h => by
    have h1 := decode_encode o fuel (by simp [depthL] at h; omega)
    have h2 := decodeOps_encodeOps os fuel (by simp [depthL] at h; omega)
    simp [encodeOps, textRTL, decodeOps, h1, h2, stripL]
end

def stripRec (c : CacheRec) : CacheRec := { c with roots := stripL c.roots, versions := textRTO c.versions }

/-- **C16**: the whole cache document: build name, created directories, function versions and the
    operation forest are read back as written. -/
theorem read_write (c : CacheRec) (fuel : Nat) (h : depthL c.roots ≤ fuel) :
    readDoc fuel (textRT (writeDoc c)) = some (stripRec c) := by
  have h1 := decodeOps_encodeOps c.roots fuel h
  simp [writeDoc, textRT, textRTO, readDoc, look, List.find?, pathsOf_map, h1, stripRec]

end Codec
end FB

namespace FB
namespace Codec

mutual
/-- the text layer changes nothing in a sanitized value (arguments, return values of build functions,
    versions, comparison results) -/
theorem textRT_of_wf : (j : Json) → j.wf = true → textRT j = j
  | .null, _ => rfl
  | .bool _, _ => rfl
  | .num _, _ => rfl
  | .str _, _ => rfl
  | .tup _, h => by simp [Json.wf] at h
  | .arr xs, h => by
    simp only [Json.wf] at h
    simp [textRT, textRTL_of_wf xs h]
  | .obj kvs, h => by
    simp only [Json.wf, Bool.and_eq_true] at h
    simp [textRT, textRTO_of_wf kvs h.1]
theorem textRTL_of_wf : (xs : List Json) → Json.wfL xs = true → textRTL xs = xs
  | [], _ => rfl
  | x :: r, h => by
    simp only [Json.wfL, Bool.and_eq_true] at h
    simp [textRTL, textRT_of_wf x h.1, textRTL_of_wf r h.2]
theorem textRTO_of_wf : (kvs : List (String × Json)) → Json.wfO kvs = true → textRTO kvs = kvs
  | [], _ => rfl
  | (k, v) :: r, h => by
    simp only [Json.wfO, Bool.and_eq_true] at h
    simp [textRTO, textRT_of_wf v h.1, textRTO_of_wf r h.2]
end

theorem lookupWith_textRTO (f : Json → Bool) (k : String) (b : List (String × Json)) :
    lookupWith f k (textRTO b) = lookupWith (fun x => f (textRT x)) k b := by
  induction b with
  | nil => rfl
  | cons x r ih => obtain ⟨k', v'⟩ := x; simp only [textRTO, lookupWith, ih]

theorem length_textRTO (b : List (String × Json)) : (textRTO b).length = b.length := by
  induction b with
  | nil => rfl
  | cons x r ih => obtain ⟨k', v'⟩ := x; simp [textRTO, ih]

mutual
/-- a value that went through the file (tuples turned into lists) is JSON-equal to exactly the values the
    original is JSON-equal to: what `walk` recorded still replays -/
theorem isEqual_textRT : (a b : Json) → isEqual a (textRT b) = isEqual a b
  | .arr xs, b => by
    cases b with
    | arr ys => simp only [textRT, isEqual]; exact isEqualL_textRT xs ys
    | tup ys => simp only [textRT, isEqual]; exact isEqualL_textRT xs ys
    | obj kb => simp [textRT, isEqual]
    | null => rfl
    | bool _ => rfl
    | num _ => rfl
    | str _ => rfl
  | .tup xs, b => by
    cases b with
    | arr ys => simp only [textRT, isEqual]; exact isEqualL_textRT xs ys
    | tup ys => simp only [textRT, isEqual]; exact isEqualL_textRT xs ys
    | obj kb => simp [textRT, isEqual]
    | null => rfl
    | bool _ => rfl
    | num _ => rfl
    | str _ => rfl
  | .obj ka, b => by
    cases b with
    | obj kb =>
      simp only [textRT, isEqual, length_textRTO]
      rw [subObj_textRT ka kb]
    | arr ys => simp [textRT, isEqual]
    | tup ys => simp [textRT, isEqual]
    | null => rfl
    | bool _ => rfl
    | num _ => rfl
    | str _ => rfl
  | .null, b => by cases b <;> simp [textRT, isEqual]
  | .bool _, b => by cases b <;> simp [textRT, isEqual]
  | .num _, b => by cases b <;> simp [textRT, isEqual]
  | .str _, b => by cases b <;> simp [textRT, isEqual]
theorem isEqualL_textRT : (xs ys : List Json) → isEqualL xs (textRTL ys) = isEqualL xs ys
  | [], [] => rfl
  | [], _ :: _ => by simp [textRTL, isEqualL]
  | _ :: _, [] => by simp [textRTL, isEqualL]
  | x :: xs, y :: ys => by
    simp only [textRTL, isEqualL]
    rw [isEqual_textRT x y, isEqualL_textRT xs ys]
theorem subObj_textRT : (ka kb : List (String × Json)) → subObj ka (textRTO kb) = subObj ka kb
  | [], _ => by simp [subObj]
  | (k, v) :: rest, kb => by
    simp only [subObj]
    rw [lookupWith_textRTO, subObj_textRT rest kb]
    congr 1
    congr 1
    funext x
    exact isEqual_textRT v x
end

end Codec
end FB

namespace FB
namespace Codec

mutual
/-- the JSON values a build function passes or returns are sanitized: the text layer leaves them alone -/
def FixedOp : Op → Prop
  | .simple _ _ _ _ => True
  | .buildFile _ _ _ a k subs r cr _ _ _ => textRT a = a ∧ textRT k = k ∧ textRT r = r ∧ textRT cr = cr ∧ FixedOps subs
  | .subbuild _ a k subs r _ _ => textRT a = a ∧ textRT k = k ∧ textRT r = r ∧ FixedOps subs
def FixedOps : List Op → Prop
  | [] => True
  | o :: os => FixedOp o ∧ FixedOps os
end

mutual
/-- **C16, behaviourally**: a record that went through the cache file is accepted or rejected by the next
    build exactly like the record in memory, in every state, with the same resulting state -/
theorem replayOp_strip : (o : Op) → FixedOp o → ∀ s, Impl.replayOp (strip o) s = Impl.replayOp o s
  | .simple q ret exc ans, _, s => by
    simp only [strip, Impl.replayOp, isEqual_textRT]
  | .buildFile p cmp f a k subs r cr raised sf ct, h, s => by
    obtain ⟨ha, hk, hr, hcr, hsubs⟩ := h
    simp only [strip, ha, hk, hr, hcr]
    unfold Impl.replayOp
    simp only [replayOps_strip subs hsubs]
  | .subbuild f a k subs r raised sf, h, s => by
    obtain ⟨ha, hk, hr, hsubs⟩ := h
    simp only [strip, ha, hk, hr]
    unfold Impl.replayOp
    simp only [replayOps_strip subs hsubs]
theorem replayOps_strip : (os : List Op) → FixedOps os → ∀ s, Impl.replayOps (stripL os) s = Impl.replayOps os s
  | [], _, s => rfl
  | o :: os, h, s => by
    simp only [stripL, Impl.replayOps, replayOp_strip o h.1 s]
    cases Impl.replayOp o s with
    | none => rfl
    | some s' => exact replayOps_strip os h.2 s'
end

example : decodeOp 5 (textRT (encodeOp (.subbuild "f" (.arr [.num (.int 1)]) (.obj []) [.simple (.walk ["a"] true)
    (.arr [.tup [.str "<R>/a", .arr [], .arr [.str "x"]]]) none (.ok .null)] .null false false))) =
    some (.subbuild "f" (.arr [.num (.int 1)]) (.obj []) [.simple (.walk ["a"] true)
      (.arr [.arr [.str "<R>/a", .arr [], .arr [.str "x"]]]) none (.ok .null)] .null false false) :=
  decode_encode _ 5 (by decide)

end Codec
end FB
