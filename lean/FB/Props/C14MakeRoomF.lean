/-
  C14 — `_make_room` under an injected fault (`FB.MakeRoomF`): at whichever of its mutating calls the `OSError`
  strikes, and whether the method returns, gives up with `IsADirectoryError` or lets the `OSError` through, it has only
  moved files the virtual tree does not know to the undo log and removed directories the virtual tree does not know
  (`makeRoomF_moved`, `makeRoomF_keeps_virtual`, `makeRoomF_no_file_lost`); the raw `OSError` comes out only at the
  announced call (`makeRoomF_raw`); and with no fault the model is `FB.MakeRoom.makeRoom` (`makeRoomF_none`).
-/
import FB.MakeRoomF
import FB.Props.C03MakeRoom
namespace FB
namespace MakeRoomF
open FS
open MakeRoom (Moved backup_moved)

/-- the loop over the entries, given the recursive calls at the same fuel -/
theorem entries_moved (vd vf : Path → Bool) (fa : Option Nat) (fuel : Nat)
    (hmr : ∀ (c : C) (d : Path), ∀ c', (makeRoom vd vf fa fuel c d = .ok c' ∨ makeRoom vd vf fa fuel c d = .error c') → Moved vd vf d c.st c'.st) :
    ∀ (l : List String) (c : C) (d : Path), ∀ c', (entries vd vf fa fuel c d l = .ok c' ∨ entries vd vf fa fuel c d l = .error c') →
      Moved vd vf d c.st c'.st := by
  intro l
  induction l with
  | nil =>
    intro c d c' h
    rw [entries] at h
    rcases h with h | h
    · simp only [Except.ok.injEq] at h; rw [← h]; exact Moved.refl ..
    · cases h
  | cons n rest ih =>
    intro c d c' h
    rw [entries] at h
    simp only at h
    by_cases hd : c.st.fs.isDir (d ++ [n]) = true
    · simp only [hd, if_true] at h
      by_cases hv : vd (d ++ [n]) = true
      · simp only [hv, if_true] at h
        rcases h with h | h
        · cases h
        · simp only [Except.error.injEq] at h; rw [← h]; exact Moved.refl ..
      · have hv' : vd (d ++ [n]) = false := by simpa using hv
        simp only [hv', Bool.false_eq_true, if_false] at h
        cases hr : makeRoom vd vf fa fuel c (d ++ [n]) with
        | error c1 =>
          rw [hr] at h
          rcases h with h | h
          · cases h
          · simp only [Except.error.injEq] at h; rw [← h]
            exact (hmr c (d ++ [n]) c1 (Or.inr hr)).retop hv'
        | ok c1 =>
          rw [hr] at h
          exact ((hmr c (d ++ [n]) c1 (Or.inl hr)).retop hv').trans (ih c1 d c' h)
    · have hd' : c.st.fs.isDir (d ++ [n]) = false := by simpa using hd
      simp only [hd', Bool.false_eq_true, if_false] at h
      by_cases hv : vf (d ++ [n]) = true
      · simp only [hv, if_true] at h
        rcases h with h | h
        · cases h
        · simp only [Except.error.injEq] at h; rw [← h]; exact Moved.refl ..
      · have hv' : vf (d ++ [n]) = false := by simpa using hv
        simp only [hv', Bool.false_eq_true, if_false] at h
        by_cases hf : fa = some c.n
        · simp only [hf, if_true] at h
          rcases h with h | h
          · cases h
          · simp only [Except.error.injEq] at h; rw [← h]; exact Moved.refl ..
        · simp only [hf, if_false] at h
          exact (backup_moved vd vf d c.st (d ++ [n]) hd' hv').trans (ih _ d c' h)

/-- **C14 for `_make_room`: wherever the fault strikes, only unknown files have been moved to the undo log and only
    unknown directories removed** - the statement of `makeRoom_moved`, for every fault position and both outcomes -/
theorem makeRoomF_moved (vd vf : Path → Bool) (fa : Option Nat) : ∀ (fuel : Nat) (c : C) (d : Path), ∀ c',
    (makeRoom vd vf fa fuel c d = .ok c' ∨ makeRoom vd vf fa fuel c d = .error c') → Moved vd vf d c.st c'.st := by
  intro fuel
  induction fuel with
  | zero =>
    intro c d c' h
    rw [makeRoom] at h
    rcases h with h | h
    · cases h
    · simp only [Except.error.injEq] at h; rw [← h]; exact Moved.refl ..
  | succ fuel ihf =>
    intro c d c' h
    rw [makeRoom] at h
    have hen := entries_moved vd vf fa fuel ihf (c.st.fs.listdir d) c d
    cases he : entries vd vf fa fuel c d (c.st.fs.listdir d) with
    | error c1 =>
      rw [he] at h
      rcases h with h | h
      · cases h
      · simp only [Except.error.injEq] at h; rw [← h]; exact hen c1 (Or.inr he)
    | ok c1 =>
      rw [he] at h
      simp only at h
      have h1 := hen c1 (Or.inl he)
      by_cases hf : fa = some c1.n
      · simp only [hf, if_true] at h
        rcases h with h | h
        · cases h
        · simp only [Except.error.injEq] at h; rw [← h]; exact h1
      · simp only [hf, if_false] at h
        cases hr : c1.st.fs.rmdir d with
        | error e =>
          rw [hr] at h
          rcases h with h | h
          · cases h
          · simp only [Except.error.injEq] at h; rw [← h]; exact h1
        | ok fs' =>
          rw [hr] at h
          rcases h with h | h
          · simp only [Except.ok.injEq] at h
            rw [← h]
            refine h1.trans ⟨fun x hx => hx, fun q => ?_⟩
            have hget := get_rmdir c1.st.fs fs' d q hr
            have hwas := rmdir_was_empty_dir c1.st.fs fs' d hr
            show fs'.get q = _ ∨ _
            rw [hget]
            by_cases hq : q = d
            · subst hq
              right
              simp only [if_true]
              exact ⟨trivial, Or.inr ⟨hwas.1, Or.inr trivial⟩⟩
            · left; simp [hq]
          · cases h

/-- in particular: whatever the virtual tree knows is untouched, wherever the fault strikes -/
theorem makeRoomF_keeps_virtual (vd vf : Path → Bool) (fa : Option Nat) (fuel : Nat) (c : C) (d : Path) (c' : C)
    (h : makeRoom vd vf fa fuel c d = .ok c' ∨ makeRoom vd vf fa fuel c d = .error c') (q : Path) (hq : q ≠ d)
    (hv : (vf q = true ∧ c.st.fs.isFile q = true) ∨ (vd q = true ∧ c.st.fs.isDir q = true)) : c'.st.fs.get q = c.st.fs.get q := by
  rcases (makeRoomF_moved vd vf fa fuel c d c' h).tree q with e | ⟨_, k⟩
  · exact e
  · exfalso
    rcases k with ⟨cc, m, g1, g2, _⟩ | ⟨g1, g2⟩
    · rcases hv with ⟨h1, _⟩ | ⟨_, h2⟩
      · rw [g2] at h1; cases h1
      · simp [FS.isDir, g1] at h2
    · rcases hv with ⟨_, h2⟩ | ⟨h1, _⟩
      · simp [FS.isFile, g1] at h2
      · rcases g2 with g2 | g2
        · rw [g2] at h1; cases h1
        · exact hq g2

/-- and no regular file is lost: one that is gone is in the undo log with its bytes and time -/
theorem makeRoomF_no_file_lost (vd vf : Path → Bool) (fa : Option Nat) (fuel : Nat) (c : C) (d : Path) (c' : C)
    (h : makeRoom vd vf fa fuel c d = .ok c' ∨ makeRoom vd vf fa fuel c d = .error c') (q : Path) (cc : String) (m : Nat)
    (hq : c.st.fs.get q = some (.file cc m)) :
    c'.st.fs.get q = some (.file cc m) ∨ (q, Entry.file cc m) ∈ c'.st.bk.saved := by
  rcases (makeRoomF_moved vd vf fa fuel c d c' h).tree q with e | ⟨_, k⟩
  · left; rw [e, hq]
  · right
    rcases k with ⟨c2, m2, g1, _, g3⟩ | ⟨g1, _⟩
    · rw [hq] at g1; cases g1; exact g3
    · rw [hq] at g1; cases g1

/-- forget the call counter -/
def proj : Except C C → Except MakeRoom.St MakeRoom.St
  | .ok c => .ok c.st
  | .error c => .error c.st

theorem entries_none (vd vf : Path → Bool) (fuel : Nat)
    (hmr : ∀ (c : C) (d : Path), proj (makeRoom vd vf none fuel c d) = MakeRoom.makeRoom vd vf fuel c.st d) :
    ∀ (l : List String) (c : C) (d : Path), proj (entries vd vf none fuel c d l) = MakeRoom.entries vd vf fuel c.st d l := by
  intro l
  induction l with
  | nil => intro c d; rw [entries, MakeRoom.entries]; rfl
  | cons n rest ih =>
    intro c d
    rw [entries, MakeRoom.entries]
    simp only
    by_cases hd : c.st.fs.isDir (d ++ [n]) = true
    · simp only [hd, if_true]
      by_cases hv : vd (d ++ [n]) = true
      · simp only [hv, if_true]; rfl
      · have hv' : vd (d ++ [n]) = false := by simpa using hv
        simp only [hv', Bool.false_eq_true, if_false]
        have := hmr c (d ++ [n])
        cases hr : makeRoom vd vf none fuel c (d ++ [n]) with
        | error c1 => rw [hr] at this; simp only [proj] at this; rw [← this]; rfl
        | ok c1 => rw [hr] at this; simp only [proj] at this; rw [← this]; exact ih c1 d
    · have hd' : c.st.fs.isDir (d ++ [n]) = false := by simpa using hd
      simp only [hd', Bool.false_eq_true, if_false]
      by_cases hv : vf (d ++ [n]) = true
      · simp only [hv, if_true]; rfl
      · have hv' : vf (d ++ [n]) = false := by simpa using hv
        simp only [hv', Bool.false_eq_true, if_false]
        have hf : ¬ ((none : Option Nat) = some c.n) := by simp
        simp only [hf, if_false]
        exact ih _ d

/-- **without a fault the model is `FB.MakeRoom.makeRoom`** (so everything tied to and proved about that model is
    about the fault-free runs of this one) -/
theorem makeRoomF_none (vd vf : Path → Bool) : ∀ (fuel : Nat) (c : C) (d : Path),
    proj (makeRoom vd vf none fuel c d) = MakeRoom.makeRoom vd vf fuel c.st d := by
  intro fuel
  induction fuel with
  | zero => intro c d; rw [makeRoom, MakeRoom.makeRoom]; rfl
  | succ fuel ihf =>
    intro c d
    rw [makeRoom, MakeRoom.makeRoom]
    have hen := entries_none vd vf fuel ihf (c.st.fs.listdir d) c d
    cases he : entries vd vf none fuel c d (c.st.fs.listdir d) with
    | error c1 => rw [he] at hen; simp only [proj] at hen; rw [← hen]; rfl
    | ok c1 =>
      rw [he] at hen; simp only [proj] at hen; rw [← hen]
      have hf : ¬ ((none : Option Nat) = some c1.n) := by simp
      simp only [hf, if_false]
      cases hr : c1.st.fs.rmdir d with
      | error e => rfl
      | ok fs' => rfl

/-- the raw `OSError` comes out only when the fault fired, at exactly the announced call -/
theorem entries_raw (vd vf : Path → Bool) (fa : Option Nat) (fuel : Nat)
    (hmr : ∀ (c : C) (d : Path) (c' : C), c.raw = false → (makeRoom vd vf fa fuel c d = .ok c' → c'.raw = false) ∧
      (makeRoom vd vf fa fuel c d = .error c' → c'.raw = true → fa = some c'.n)) :
    ∀ (l : List String) (c : C) (d : Path) (c' : C), c.raw = false → (entries vd vf fa fuel c d l = .ok c' → c'.raw = false) ∧
      (entries vd vf fa fuel c d l = .error c' → c'.raw = true → fa = some c'.n) := by
  intro l
  induction l with
  | nil =>
    intro c d c' hc
    rw [entries]
    refine ⟨fun h => ?_, (fun h => by cases h)⟩
    simp only [Except.ok.injEq] at h; rw [← h]; exact hc
  | cons n rest ih =>
    intro c d c' hc
    rw [entries]
    simp only
    by_cases hd : c.st.fs.isDir (d ++ [n]) = true
    · simp only [hd, if_true]
      by_cases hv : vd (d ++ [n]) = true
      · simp only [hv, if_true]
        refine ⟨(fun h => by cases h), fun h hr => ?_⟩
        simp only [Except.error.injEq] at h; rw [← h, hc] at hr; cases hr
      · have hv' : vd (d ++ [n]) = false := by simpa using hv
        simp only [hv', Bool.false_eq_true, if_false]
        cases hr : makeRoom vd vf fa fuel c (d ++ [n]) with
        | error c1 =>
          refine ⟨(fun h => by cases h), fun h hraw => ?_⟩
          simp only [Except.error.injEq] at h; subst h
          exact (hmr c (d ++ [n]) c1 hc).2 hr hraw
        | ok c1 => exact ih c1 d c' ((hmr c (d ++ [n]) c1 hc).1 hr)
    · have hd' : c.st.fs.isDir (d ++ [n]) = false := by simpa using hd
      simp only [hd', Bool.false_eq_true, if_false]
      by_cases hv : vf (d ++ [n]) = true
      · simp only [hv, if_true]
        refine ⟨(fun h => by cases h), fun h hr => ?_⟩
        simp only [Except.error.injEq] at h; rw [← h, hc] at hr; cases hr
      · have hv' : vf (d ++ [n]) = false := by simpa using hv
        simp only [hv', Bool.false_eq_true, if_false]
        by_cases hf : fa = some c.n
        · simp only [hf, if_true]
          refine ⟨(fun h => by cases h), fun h _ => ?_⟩
          simp only [Except.error.injEq] at h; rw [← h]
        · simp only [hf, if_false]
          exact ih _ d c' hc

theorem makeRoomF_raw (vd vf : Path → Bool) (fa : Option Nat) : ∀ (fuel : Nat) (c : C) (d : Path) (c' : C), c.raw = false →
    (makeRoom vd vf fa fuel c d = .ok c' → c'.raw = false) ∧
    (makeRoom vd vf fa fuel c d = .error c' → c'.raw = true → fa = some c'.n) := by
  intro fuel
  induction fuel with
  | zero =>
    intro c d c' hc
    rw [makeRoom]
    refine ⟨(fun h => by cases h), fun h hr => ?_⟩
    simp only [Except.error.injEq] at h; rw [← h, hc] at hr; cases hr
  | succ fuel ihf =>
    intro c d c' hc
    rw [makeRoom]
    have hen := entries_raw vd vf fa fuel ihf (c.st.fs.listdir d) c d
    cases he : entries vd vf fa fuel c d (c.st.fs.listdir d) with
    | error c1 =>
      refine ⟨(fun h => by cases h), fun h hr => ?_⟩
      simp only [Except.error.injEq] at h; subst h
      exact (hen c1 hc).2 he hr
    | ok c1 =>
      have h1 := (hen c1 hc).1 he
      simp only
      by_cases hf : fa = some c1.n
      · simp only [hf, if_true]
        refine ⟨(fun h => by cases h), fun h hr => ?_⟩
        simp only [Except.error.injEq] at h; rw [← h, h1] at hr; cases hr
      · simp only [hf, if_false]
        cases hr : c1.st.fs.rmdir d with
        | error e =>
          refine ⟨(fun h => by cases h), fun h hr2 => ?_⟩
          simp only [Except.error.injEq] at h; rw [← h, h1] at hr2; cases hr2
        | ok fs' =>
          refine ⟨fun h => ?_, (fun h => by cases h)⟩
          simp only [Except.ok.injEq] at h; rw [← h]; exact h1

end MakeRoomF
end FB

namespace FB.MakeRoomF
open FS
/-- non-vacuity: a directory with two old outputs; the fault at the second rename leaves the first file in the log,
    the second where it was, the exception raw; the fault at the rmdir is reported as IsADirectoryError -/
def exFS : FS := [(["d", "b"], .file "y" 2), (["d", "a"], .file "x" 1), (["d"], .dir)]
def exOut (k : Nat) : Bool × Bool × Nat × List Path × Bool × Bool :=
  match makeRoom (fun _ => false) (fun _ => false) (some k) 8 { st := { fs := exFS, bk := {} } } ["d"] with
  | .error c => (false, c.raw, c.n, c.st.bk.saved.map (·.1), c.st.fs.isFile ["d", "b"], c.st.fs.isDir ["d"])
  | .ok c => (true, c.raw, c.n, c.st.bk.saved.map (·.1), c.st.fs.isFile ["d", "b"], c.st.fs.isDir ["d"])
-- evaluated, not proved (the hypotheses of the theorems above are met by every run: each run has an outcome)
#guard exOut 0 = (false, true, 0, [], true, true)
#guard exOut 1 = (false, true, 1, [["d", "a"]], true, true)
#guard exOut 2 = (false, false, 2, [["d", "a"], ["d", "b"]], false, true)
#guard exOut 3 = (true, false, 3, [["d", "a"], ["d", "b"]], false, false)
end FB.MakeRoomF
