/-
  C03 — foreign files and directories, on the reference semantics: whatever a build does while its
  functions run, a regular file is only ever touched at a path that was passed to `build_file` in this
  build, and a directory that existed when the build started is never removed.  (The clean-up before
  the functions run is `Spec.preClean`, framed by `C12_preClean_frame`; rollback by `C02_rolledBack_*`.)
-/
import FB.Lemmas.RunPending
import FB.Props.C04
namespace FB
open FS Spec

/-- what a run may have done to the tree it started from (`s0`) -/
structure Frame (s0 s : SpecSt) : Prop where
  /-- a directory that existed at the start still exists -/
  dirs : ∀ q, s0.fs.get q = some .dir → s.fs.get q = some .dir
  /-- a regular file that existed at the start and whose path was not passed to `build_file` is there,
      with the same bytes and modification time -/
  files : ∀ q b m, s0.fs.get q = some (.file b m) → q ∉ s.claimedFiles → s.fs.get q = some (.file b m)

theorem Frame.refl (s : SpecSt) : Frame s s := ⟨fun _ h => h, fun _ _ _ h _ => h⟩

/-- the directories `_dirs_to_make` returns do not exist -/
theorem dirsToMake_absent (s : SpecSt) : ∀ (n : Nat) (d : Path) (ds : List Path), d.length = n →
    dirsToMake (visible s) s.cacheFile s.inProg d = .ok ds → ∀ q ∈ ds, s.fs.get q = none := by
  intro n
  induction n with
  | zero =>
    intro d ds hl h q hq
    have : d = [] := List.length_eq_zero_iff.mp hl
    subst this
    rw [dirsToMake] at h
    simp at h; subst h; cases hq
  | succ n ih =>
    intro d ds hl h q hq
    rw [dirsToMake] at h
    have hd : d ≠ [] := by intro e; subst e; simp at hl
    simp only [hd, dite_false] at h
    split at h
    · simp at h; subst h; cases hq
    · rename_i hnd
      split at h; · cases h
      rename_i hnf
      split at h; · cases h
      rename_i hcf
      split at h; · cases h
      rename_i hbl
      split at h; · cases h
      rename_i r hr
      simp only [Except.ok.injEq] at h
      subst h
      rcases List.mem_append.mp hq with hq | hq
      · exact ih d.dropLast r (by simp [hl]) hr q hq
      · simp only [List.mem_singleton] at hq
        subst hq
        have hnb : q ∉ s.inProg := by simpa using hbl
        have hv := C04_visible_elsewhere s q hnb hcf
        cases hg : (visible s).get q with
        | none => rw [← hv]; exact hg
        | some e =>
          cases e with
          | dir => simp [isDir, hg] at hnd
          | file b m => simp [isFile, hg] at hnf

theorem setupState_frame (s0 sp : SpecSt) (path : Path) (made : List Path) (h : Frame s0 sp)
    (hnd : sp.fs.isDir path = false) : Frame s0 (setupState sp path made) := by
  constructor
  · intro q hq
    have h1 := h.dirs q hq
    have h2 : (mkdirs sp.fs made).get q = some .dir := by
      rcases mkdirs_get made sp.fs q with h' | ⟨hn, _⟩
      · rw [h', h1]
      · rw [h1] at hn; cases hn
    have hqp : q ≠ path := by
      intro e; subst e; simp [isDir, h1] at hnd
    simp only [setupState]
    split
    · rw [get_erase_ne _ _ _ hqp]; exact h2
    · exact h2
  · intro q b m hq hncl
    have hqp : q ≠ path := by
      intro e; apply hncl; simp [setupState, e]
    have hncl' : q ∉ sp.claimedFiles := by
      intro hm; apply hncl; simp [setupState, hm]
    have h1 := h.files q b m hq hncl'
    have h2 := mkdirs_file made sp.fs q b m h1
    simp only [setupState]
    split
    · rw [get_erase_ne _ _ _ hqp]; exact h2
    · exact h2

theorem bfFinish_frame (s0 sp2 : SpecSt) (path : Path) (made : List Path) (r : CallRes)
    (h : Frame s0 sp2) (hmade : ∀ q ∈ made, s0.fs.get q ≠ some .dir)
    (hpd : s0.fs.get path ≠ some .dir) (hcl : path ∈ sp2.claimedFiles) :
    Frame s0 (bfFinish sp2 path made r).2 := by
  have hfail : ∀ e, Frame s0 (bfFinish sp2 path made (.error e)).2 := by
    intro e
    constructor
    · intro q hq
      have h1 := h.dirs q hq
      simp only [bfFinish]
      rcases rmEmpty_get made sp2.fs q with h' | ⟨hm, _, _⟩
      · rw [h', h1]
      · exact absurd hq (hmade q hm)
    · intro q b m hq hncl
      have h1 := h.files q b m hq hncl
      simp only [bfFinish]
      exact rmEmpty_file made sp2.fs q b m h1
  cases r with
  | error e => exact hfail e
  | ok j =>
    cases hw : pendingFind sp2.pending path with
    | none =>
      have : (bfFinish sp2 path made (.ok j)).2 = (bfFinish sp2 path made (.error (notCreatedExc path))).2 := by
        simp [bfFinish, hw]
      rw [this]; exact hfail _
    | some bm =>
      obtain ⟨b', m'⟩ := bm
      constructor
      · intro q hq
        have hqp : q ≠ path := by intro e; subst e; exact hpd hq
        simp only [bfFinish, hw]
        rw [get_set_ne _ _ _ _ hqp]; exact h.dirs q hq
      · intro q b m hq hncl
        have hc : (bfFinish sp2 path made (.ok j)).2.claimedFiles = sp2.claimedFiles := bfFinish_claimed _ _ _ _
        rw [hc] at hncl
        have hqp : q ≠ path := by intro e; subst e; exact hncl hcl
        simp only [bfFinish, hw]
        rw [get_set_ne _ _ _ _ hqp]; exact h.files q b m hq hncl

/-- C03 (reference semantics, while the functions run): every program, every starting tree, every
    nesting of calls and caught failures. -/
theorem C03_run_frame (prog : Prog) : ∀ (t : Option Path) (s0 sp : SpecSt),
    Frame s0 sp → Frame s0 (run prog t sp).2.1 := by
  induction prog with
  | ret v => intro t s0 sp h; simp only [run]; split <;> exact h
  | raise e => intro t s0 sp h; exact h
  | query q k ih => intro t s0 sp h; simp only [run]; exact ih _ t s0 sp h
  | write b mt k ih =>
    intro t s0 sp h
    simp only [run]
    cases t with
    | none => exact ih none s0 sp h
    | some p => exact ih (some p) s0 _ ⟨h.dirs, h.files⟩
  | buildFile path cmp fname args kwargs body k ihb ihk =>
    intro t s0 sp h
    simp only [run]
    cases hs : bfSetup sp path with
    | error e =>
      simp only
      exact ihk _ t s0 (setupFailState sp path e) ⟨h.dirs, h.files⟩
    | ok r =>
      obtain ⟨s1, made⟩ := r
      simp only
      obtain ⟨hs1, hncl, _, hnd, hdm, _⟩ := bfSetup_ok_fields _ _ _ _ hs
      subst hs1
      have hmade : ∀ q ∈ made, s0.fs.get q ≠ some .dir := by
        intro q hq hdq
        have := dirsToMake_absent sp _ _ _ rfl hdm q hq
        rw [h.dirs q hdq] at this; cases this
      have hpd : s0.fs.get path ≠ some .dir := by
        intro hdq; simp [isDir, h.dirs path hdq] at hnd
      have hf1 := setupState_frame s0 sp path made h hnd
      generalize hst : ({ setupState sp path made with
        invLog := { fname := fname, target := some path, args := args, kwargs := kwargs } ::
          (setupState sp path made).invLog } : SpecSt) = s1'
      have hf1' : Frame s0 s1' := by subst hst; exact ⟨hf1.dirs, hf1.files⟩
      have hcl1 : path ∈ s1'.claimedFiles := by subst hst; simp [setupState]
      have hb := ihb (some path) s0 s1' hf1'
      have hkc := (run_keeps_claimed body (some path) s1').1 path hcl1
      generalize hrb : run body (some path) s1' = rb at hb hkc ⊢
      obtain ⟨r2, sp2, tr2⟩ := rb
      simp only at hb hkc ⊢
      have hf3 := bfFinish_frame s0 sp2 path made r2 hb hmade hpd hkc
      generalize hfin : bfFinish sp2 path made r2 = fin at hf3
      obtain ⟨r3, sp3⟩ := fin
      simp only at hf3 ⊢
      exact ihk r3 t s0 sp3 hf3
  | subbuild fname args kwargs body k ihb ihk =>
    intro t s0 sp h
    simp only [run]
    split
    · exact ihk _ t s0 sp h
    · split
      · exact ihk _ t s0 (consumeSubFault sp _) ⟨h.dirs, h.files⟩
      · simp only
        generalize hst : ({ sp with
          claimedSubs := subKey fname args kwargs :: sp.claimedSubs,
          invLog := { fname := fname, target := none, args := args, kwargs := kwargs } :: sp.invLog } : SpecSt) = s1'
        have hf1 : Frame s0 s1' := by subst hst; exact ⟨h.dirs, h.files⟩
        have hb := ihb none s0 s1' hf1
        generalize hrb : run body none s1' = rb at hb ⊢
        obtain ⟨r2, sp2, tr2⟩ := rb
        simp only at hb ⊢
        exact ihk r2 t s0 sp2 hb

/-- premises are satisfiable and the conclusion says something: a foreign file next to an output -/
example :
    let s : SpecSt := { fs := [(["d"], .dir), (["d", "keep"], .file "k" 7)], cacheFile := ["c"], dirSize := 0, clock := 1000000 }
    let prog : Prog := .buildFile ["d", "x"] .metadata "f" .null .null (.write "o" none (.ret .null)) (fun _ => .ret .null)
    (run prog none s).2.1.fs.get ["d", "keep"] = some (.file "k" 7) ∧
    (run prog none s).2.1.fs.get ["d", "x"] = some (.file "o" 1000000) := by
  decide +kernel

/-- C03, closed form: from the state in which the root function starts. -/
theorem C03_run (prog : Prog) (t : Option Path) (s : SpecSt) : Frame s (run prog t s).2.1 :=
  C03_run_frame prog t s s (Frame.refl s)

end FB
