/-
  The outputs a run registers in its records are the outputs its state lists: the cache file written by
  the cache logic names the same output files as the record of the from-scratch build.
-/
import FB.Props.C01Next
namespace FB
open FS Spec

def outOf : Op → Option Path
  | .buildFile p _ _ _ _ _ _ _ false _ _ => some p
  | _ => none

/-- the output paths recorded in a forest (`Cache.created_files`) -/
def outsL (ops : List Op) : List Path := (registeredL ops).filterMap outOf

theorem CacheRec.outputs_eq (c : CacheRec) : c.outputs = outsL c.roots := by
  unfold CacheRec.outputs outsL
  congr 1

theorem outsL_nil : outsL [] = [] := rfl

theorem mem_outsL_cons (o : Op) (os : List Op) (q : Path) :
    q ∈ outsL (o :: os) ↔ q ∈ (registered o).filterMap outOf ∨ q ∈ outsL os := by
  simp [outsL, registeredL, List.filterMap_append]

theorem mem_outs_buildFile (p : Path) (c : Cmp) (f : String) (a k : Json) (subs : List Op) (r cr : Json)
    (raised : Bool) (ct : String) (q : Path) :
    q ∈ (registered (.buildFile p c f a k subs r cr raised false ct)).filterMap outOf ↔
      q ∈ outsL subs ∨ (raised = false ∧ q = p) := by
  cases raised <;> simp [registered, outsL, List.filterMap_append, outOf, eq_comm]

theorem mem_outs_subbuild (f : String) (a k : Json) (subs : List Op) (r : Json) (raised : Bool) (q : Path) :
    q ∈ (registered (.subbuild f a k subs r raised false)).filterMap outOf ↔ q ∈ outsL subs := by
  simp [registered, outsL, List.filterMap_append, outOf]

mutual
theorem replayOp_outputs : (o : Op) → (s s' : KSt) → Impl.replayOp o s = some s' →
    ∀ q, q ∈ s'.sp.outputs ↔ q ∈ (registered o).filterMap outOf ∨ q ∈ s.sp.outputs
  | .simple _ _ _ _, s, s', h => by
    have : s' = s := by
      unfold Impl.replayOp at h
      split at h
      · split at h <;> simp_all
      · split at h <;> simp_all
      · cases h
    subst this
    intro q; simp [registered]
  | .buildFile path cmp fname args kwargs subs ret cmpRes raised sf content, s, s', h => by
    obtain ⟨_, _, hsf, _, _, _, made, s2, _, _, hs2, hs'⟩ := replayOp_buildFile_some _ _ _ _ _ _ _ _ _ _ _ _ _ h
    subst hsf
    have ih := replayOps_outputs subs _ s2 hs2
    intro q
    rw [mem_outs_buildFile]
    subst hs'
    cases raised with
    | true =>
      simp only [if_true, Impl.unwind]
      rw [ih q]; simp [replayS1]
    | false =>
      simp only [Bool.false_eq_true, if_false, Impl.adopt, List.mem_cons]
      rw [ih q]; simp only [replayS1]
      constructor
      · rintro (h | h | h)
        · exact Or.inl (Or.inr ⟨trivial, h⟩)
        · exact Or.inl (Or.inl h)
        · exact Or.inr h
      · rintro ((h | ⟨_, h⟩) | h)
        · exact Or.inr (Or.inl h)
        · exact Or.inl h
        · exact Or.inr (Or.inr h)
  | .subbuild fname args kwargs subs ret raised sf, s, s', h => by
    obtain ⟨_, hsf, _, hs⟩ := replayOp_subbuild_some _ _ _ _ _ _ _ _ _ h
    subst hsf
    intro q
    rw [mem_outs_subbuild]
    exact replayOps_outputs subs (claimSub s (subKey fname args kwargs)) s' hs q
theorem replayOps_outputs : (os : List Op) → (s s' : KSt) → Impl.replayOps os s = some s' →
    ∀ q, q ∈ s'.sp.outputs ↔ q ∈ outsL os ∨ q ∈ s.sp.outputs
  | [], s, s', h => by
    simp [Impl.replayOps] at h; subst h
    intro q; simp [outsL_nil]
  | o :: os, s, s', h => by
    obtain ⟨sm, h1, h2⟩ := (replayOps_cons o os s s').mp h
    intro q
    rw [replayOps_outputs os sm s' h2 q, replayOp_outputs o s sm h1 q, mem_outsL_cons]
    constructor
    · rintro (h | h | h)
      · exact Or.inl (Or.inr h)
      · exact Or.inl (Or.inl h)
      · exact Or.inr h
    · rintro ((h | h) | h)
      · exact Or.inr (Or.inl h)
      · exact Or.inl h
      · exact Or.inr (Or.inr h)
end

theorem bfFinish_outputs (s : SpecSt) (path : Path) (made : List Path) (r : CallRes) :
    (bfFinish s path made r).2.outputs =
      (match (bfFinish s path made r).1 with | .ok _ => path :: s.outputs | .error _ => s.outputs) := by
  unfold bfFinish
  cases r with
  | error e => rfl
  | ok j => simp only; split <;> rfl

/-- the records of a run register exactly the outputs its state gains; top-level records that were refused
    in their setup have no sub-records -/
theorem run_outputs (prog : Prog) : ∀ (t : Option Path) (s : KSt),
    (∀ q, q ∈ (Impl.run prog t s).2.1.sp.outputs ↔ q ∈ outsL (Impl.run prog t s).2.2 ∨ q ∈ s.sp.outputs) ∧
    (∀ q, q ∈ outsL ((Impl.run prog t s).2.2.filter Impl.isComplexRegistered) ↔ q ∈ outsL (Impl.run prog t s).2.2) := by
  induction prog with
  | ret v => intro t s; simp only [Impl.run]; split <;> simp [outsL_nil]
  | raise e => intro t s; simp [Impl.run, outsL_nil]
  | query q k ih =>
    intro t s
    simp only [Impl.run]
    have := ih (View.answer s.sp.dirSize (visible s.sp) q) t s
    have hreg : ∀ o, (o = Op.simple q (match View.recVal s.sp.dirSize (visible s.sp) q with | .ok v => v | .error _ => .null)
        (match View.recVal s.sp.dirSize (visible s.sp) q with | .ok _ => none | .error e => some e)
        (View.answer s.sp.dirSize (visible s.sp) q)) → True := fun _ _ => trivial
    constructor
    · intro x
      rw [this.1 x, mem_outsL_cons]
      cases View.recVal s.sp.dirSize (visible s.sp) q <;> simp [registered]
    · intro x
      rw [mem_outsL_cons]
      cases View.recVal s.sp.dirSize (visible s.sp) q <;>
        simp [List.filter, Impl.isComplexRegistered, registered, this.2 x]
  | write b mt k ih =>
    intro t s
    cases t with
    | none => simp only [Impl.run]; exact ih none s
    | some p => simp only [Impl.run]; exact ih (some p) _
  | buildFile path cmp fname args kwargs body k ihb ihk =>
    intro t s
    simp only [Impl.run]
    cases hs : bfSetup s.sp path with
    | error e =>
      simp only
      have := ihk (.error e) t (Impl.liftSp s fun sp => setupFailState sp path e)
      constructor
      · intro x
        rw [this.1 x, mem_outsL_cons]
        simp [registered, registeredL, Impl.liftSp, setupFailState]
      · intro x
        rw [mem_outsL_cons]
        simp [List.filter, Impl.isComplexRegistered, registered, registeredL, this.2 x]
    | ok r =>
      obtain ⟨s1, made⟩ := r
      simp only
      obtain ⟨hs1, _, _, _, _, _⟩ := bfSetup_ok_fields _ _ _ _ hs
      subst hs1
      generalize hk1 : Impl.afterSetup s (setupState s.sp path made) path made = k1
      have hk1o : k1.sp.outputs = s.sp.outputs := by subst hk1; rfl
      cases hl : Impl.lookupFile k1 path cmp fname args kwargs made with
      | some r =>
        obtain ⟨op, s2⟩ := r
        obtain ⟨p', rcmp, rargs, rkwargs, subs, ret, cmpRes, sf, content, s2', _, _, _, _, _, hrep, _, hop, hs2⟩ :=
          lookupFile_full _ _ _ _ _ _ _ _ _ hl
        subst hop
        simp only
        have hro := replayOps_outputs subs k1 s2' hrep
        have := ihk (.ok ret) t s2
        have hs2o : ∀ x, x ∈ s2.sp.outputs ↔ (x ∈ outsL subs ∨ x = path) ∨ x ∈ s.sp.outputs := by
          intro x
          rw [hs2]; simp only [Impl.adopt, List.mem_cons]
          rw [hro x, hk1o]
          constructor
          · rintro (h | h | h)
            · exact Or.inl (Or.inr h)
            · exact Or.inl (Or.inl h)
            · exact Or.inr h
          · rintro ((h | h) | h)
            · exact Or.inr (Or.inl h)
            · exact Or.inl h
            · exact Or.inr (Or.inr h)
        constructor
        · intro x
          rw [this.1 x, mem_outsL_cons, mem_outs_buildFile, hs2o x]
          simp only [true_and]
          constructor
          · rintro (h | h | h)
            · exact Or.inl (Or.inr h)
            · exact Or.inl (Or.inl h)
            · exact Or.inr h
          · rintro ((h | h) | h)
            · exact Or.inr (Or.inl h)
            · exact Or.inl h
            · exact Or.inr (Or.inr h)
        · intro x
          simp only [List.filter, Impl.isComplexRegistered, Bool.not_false]
          rw [mem_outsL_cons, mem_outsL_cons, this.2 x]
      | none =>
        simp only
        generalize hk1' : Impl.missStart k1 path ⟨fname, some path, args, kwargs⟩ = k1'
        have hk1'o : k1'.sp.outputs = k1.sp.outputs := by subst hk1'; rfl
        have hb := ihb (some path) k1'
        generalize hkb : Impl.run body (some path) k1' = kb at hb ⊢
        obtain ⟨rb, s2, subs2⟩ := kb
        simp only at hb ⊢
        have hfo := bfFinish_outputs s2.sp path made rb
        generalize hfin : bfFinish s2.sp path made rb = fin at hfo ⊢
        obtain ⟨r3, sp3⟩ := fin
        simp only at hfo ⊢
        have hk := ihk r3 t (Impl.withSp s2 sp3)
        have hs3o : (Impl.withSp s2 sp3).sp.outputs = sp3.outputs := rfl
        cases r3 with
        | ok j =>
          simp only at hfo ⊢
          constructor
          · intro x
            rw [hk.1 x, mem_outsL_cons, mem_outs_buildFile, hs3o, hfo, List.mem_cons, hb.1 x, hk1'o, hk1o]
            simp only [true_and]
            constructor
            · rintro (h | h | h | h)
              · exact Or.inl (Or.inr h)
              · exact Or.inl (Or.inl (Or.inr h))
              · exact Or.inl (Or.inl (Or.inl h))
              · exact Or.inr h
            · rintro (((h | h) | h) | h)
              · exact Or.inr (Or.inr (Or.inl h))
              · exact Or.inr (Or.inl h)
              · exact Or.inl h
              · exact Or.inr (Or.inr (Or.inr h))
          · intro x
            simp only [List.filter, Impl.isComplexRegistered, Bool.not_false]
            rw [mem_outsL_cons, mem_outsL_cons, hk.2 x]
        | error e =>
          simp only at hfo ⊢
          constructor
          · intro x
            rw [hk.1 x, mem_outsL_cons, mem_outs_buildFile, hs3o, hfo, hb.1 x, hk1'o, hk1o]
            simp only [Bool.true_eq_false, false_and, or_false]
            constructor
            · rintro (h | h | h)
              · exact Or.inl (Or.inr h)
              · exact Or.inl (Or.inl h)
              · exact Or.inr h
            · rintro ((h | h) | h)
              · exact Or.inr (Or.inl h)
              · exact Or.inl h
              · exact Or.inr (Or.inr h)
          · intro x
            simp only [List.filter, Impl.isComplexRegistered, Bool.not_false]
            rw [mem_outsL_cons, mem_outsL_cons, hk.2 x]
  | subbuild fname args kwargs body k ihb ihk =>
    intro t s
    simp only [Impl.run]
    split
    · have := ihk (.error (.runtime .dupSub)) t s
      constructor
      · intro x
        rw [this.1 x, mem_outsL_cons]
        simp [registered, registeredL]
      · intro x
        rw [mem_outsL_cons]
        simp [List.filter, Impl.isComplexRegistered, registered, registeredL, this.2 x]
    · split
      · have := ihk (.error (.os .other)) t (Impl.liftSp s fun sp => consumeSubFault sp (subKey fname args kwargs))
        constructor
        · intro x
          rw [this.1 x, mem_outsL_cons]
          simp [registered, registeredL, Impl.liftSp, consumeSubFault]
        · intro x
          rw [mem_outsL_cons]
          simp [List.filter, Impl.isComplexRegistered, registered, registeredL, this.2 x]
      · generalize hk1 : Impl.subClaim s (subKey fname args kwargs) = k1
        have hk1o : k1.sp.outputs = s.sp.outputs := by subst hk1; rfl
        cases hl : Impl.lookupSub k1 fname args kwargs with
        | some r =>
          obtain ⟨op, s2⟩ := r
          obtain ⟨f, a, kk, subs, ret, sf, _, _, hrep, hop⟩ := lookupSub_some _ _ _ _ _ _ hl
          subst hop
          simp only
          have hro := replayOps_outputs subs k1 s2 hrep
          have := ihk (.ok ret) t s2
          constructor
          · intro x
            rw [this.1 x, mem_outsL_cons, mem_outs_subbuild, hro x, hk1o]
            constructor
            · rintro (h | h | h)
              · exact Or.inl (Or.inr h)
              · exact Or.inl (Or.inl h)
              · exact Or.inr h
            · rintro ((h | h) | h)
              · exact Or.inr (Or.inl h)
              · exact Or.inl h
              · exact Or.inr (Or.inr h)
          · intro x
            simp only [List.filter, Impl.isComplexRegistered, Bool.not_false]
            rw [mem_outsL_cons, mem_outsL_cons, this.2 x]
        | none =>
          simp only
          generalize hk1' : Impl.subStart k1 ⟨fname, none, args, kwargs⟩ = k1'
          have hk1'o : k1'.sp.outputs = k1.sp.outputs := by subst hk1'; rfl
          have hb := ihb none k1'
          generalize hkb : Impl.run body none k1' = kb at hb ⊢
          obtain ⟨rb, s2, subs2⟩ := kb
          simp only at hb ⊢
          have hk := ihk rb t s2
          have key : ∀ (op : Op), (∀ x, x ∈ (registered op).filterMap outOf ↔ x ∈ outsL subs2) →
              Impl.isComplexRegistered op = true →
              (∀ q, q ∈ (Impl.run (k rb) t s2).2.1.sp.outputs ↔
                q ∈ outsL (op :: (Impl.run (k rb) t s2).2.2) ∨ q ∈ s.sp.outputs) ∧
              (∀ q, q ∈ outsL ((op :: (Impl.run (k rb) t s2).2.2).filter Impl.isComplexRegistered) ↔
                q ∈ outsL (op :: (Impl.run (k rb) t s2).2.2)) := by
            intro op hop hreg
            constructor
            · intro x
              rw [hk.1 x, mem_outsL_cons, hop x, hb.1 x, hk1'o, hk1o]
              constructor
              · rintro (h | h | h)
                · exact Or.inl (Or.inr h)
                · exact Or.inl (Or.inl h)
                · exact Or.inr h
              · rintro ((h | h) | h)
                · exact Or.inr (Or.inl h)
                · exact Or.inl h
                · exact Or.inr (Or.inr h)
            · intro x
              simp only [List.filter, hreg]
              rw [mem_outsL_cons, mem_outsL_cons, hk.2 x]
          cases rb with
          | ok j => exact key _ (fun x => mem_outs_subbuild _ _ _ _ _ _ x) rfl
          | error e => exact key _ (fun x => mem_outs_subbuild _ _ _ _ _ _ x) rfl

end FB
