import FB.Heap
namespace FB.Heap

/-- in the segment `[lo, hi)` every container's children lie in the segment, below the container -/
def Seg (h : Heap) (lo hi : Nat) : Prop :=
  ∀ a, lo ≤ a → a < hi → ∀ ks, h[a]? = some (.node ks) → ∀ k ∈ ks, lo ≤ k ∧ k < a

theorem Seg.append {h : Heap} {lo hi : Nat} (hs : Seg h lo hi) (hh : hi ≤ h.length) (x : Heap) : Seg (h ++ x) lo hi := by
  intro a h1 h2 ks hk k hm
  have : a < h.length := by omega
  rw [List.getElem?_append_left this] at hk
  exact hs a h1 h2 ks hk k hm

theorem Seg.join {h : Heap} {lo mid hi : Nat} (h1 : Seg h lo mid) (h2 : Seg h mid hi) (hl : lo ≤ mid) : Seg h lo hi := by
  intro a ha1 ha2 ks hk k hm
  by_cases hc : a < mid
  · exact h1 a ha1 hc ks hk k hm
  · have := h2 a (by omega) ha2 ks hk k hm
    omega

structure AllocPost (h : Heap) (r : Heap × Nat) : Prop where
  ext : ∃ x, r.1 = h ++ x
  len : h.length < r.1.length
  root : r.2 + 1 = r.1.length
  seg : Seg r.1 h.length r.1.length

structure AllocLPost (h : Heap) (r : Heap × List Nat) : Prop where
  ext : ∃ x, r.1 = h ++ x
  len : h.length ≤ r.1.length
  roots : ∀ k ∈ r.2, h.length ≤ k ∧ k < r.1.length
  seg : Seg r.1 h.length r.1.length

mutual
theorem alloc_post : (h : Heap) → (t : Tree) → AllocPost h (alloc h t)
  | h, .atom n => by
    simp only [alloc]
    refine ⟨⟨_, rfl⟩, by simp, by simp, ?_⟩
    intro a h1 h2 ks hk
    simp at h2
    have : a = h.length := by omega
    subst this
    simp at hk
  | h, .node ts => by
    have ih := allocL_post h ts
    simp only [alloc]
    obtain ⟨x, hx⟩ := ih.ext
    refine ⟨⟨x ++ [.node (allocL h ts).2], by rw [hx]; simp⟩, by simp; have := ih.len; omega, by simp, ?_⟩
    have hs1 : Seg ((allocL h ts).1 ++ [.node (allocL h ts).2]) h.length (allocL h ts).1.length := ih.seg.append (Nat.le_refl _) _
    intro a h1 h2 ks hk k hm
    simp at h2
    by_cases hc : a < (allocL h ts).1.length
    · exact hs1 a h1 hc ks hk k hm
    · have : a = (allocL h ts).1.length := by omega
      subst this
      simp at hk
      subst hk
      exact ih.roots k hm
theorem allocL_post : (h : Heap) → (ts : List Tree) → AllocLPost h (allocL h ts)
  | h, [] => by
    simp only [allocL]
    exact ⟨⟨[], by simp⟩, Nat.le_refl _, by simp, fun a h1 h2 => by dsimp only at h2; omega⟩
  | h, t :: ts => by
    have i1 := alloc_post h t
    have i2 := allocL_post (alloc h t).1 ts
    simp only [allocL]
    obtain ⟨x1, hx1⟩ := i1.ext
    obtain ⟨x2, hx2⟩ := i2.ext
    refine ⟨⟨x1 ++ x2, by rw [hx2, hx1]; simp⟩, by have := i1.len; have := i2.len; dsimp only; omega, ?_, ?_⟩
    · intro k hk
      dsimp only at hk ⊢
      rcases List.mem_cons.mp hk with rfl | hk
      · have := i1.root; have := i1.len; have := i2.len; omega
      · have := i2.roots k hk; have := i1.len; omega
    · have s1 : Seg (allocL (alloc h t).1 ts).1 h.length (alloc h t).1.length := by
        rw [hx2]; exact i1.seg.append (Nat.le_refl _) _
      exact s1.join i2.seg (Nat.le_of_lt i1.len)
end

/-- the library's cells: children below the parent and the library's too; nothing the user holds; all allocated -/
structure Inv (s : St) : Prop where
  wf : ∀ a, s.lib a = true → ∀ ks, s.heap[a]? = some (.node ks) → ∀ k ∈ ks, k < a ∧ s.lib k = true
  sep : ∀ a, s.lib a = true → s.usr a = false
  libB : ∀ a, s.lib a = true → a < s.heap.length
  usrB : ∀ a, s.usr a = true → a < s.heap.length
  recs : ∀ rc ∈ s.recs, s.lib rc.root = true

theorem inv_init : Inv {} := ⟨by simp, by simp, by simp, by simp, by simp⟩

/-- what a step may do to the heap as far as the library's cells are concerned: nothing -/
def Keeps (s s' : St) : Prop :=
  (∀ a, s.lib a = true → s'.heap[a]? = s.heap[a]? ∧ s'.lib a = true) ∧ (∃ x, s'.recs = s.recs ++ x)

theorem Keeps.refl (s : St) : Keeps s s := ⟨fun _ h => ⟨rfl, h⟩, ⟨[], by simp⟩⟩
theorem Keeps.trans {a b c : St} (h1 : Keeps a b) (h2 : Keeps b c) : Keeps a c := by
  refine ⟨fun x hx => ?_, ?_⟩
  · obtain ⟨e1, l1⟩ := h1.1 x hx
    obtain ⟨e2, l2⟩ := h2.1 x l1
    exact ⟨e2.trans e1, l2⟩
  · obtain ⟨x1, e1⟩ := h1.2
    obtain ⟨x2, e2⟩ := h2.2
    exact ⟨x1 ++ x2, by rw [e2, e1]; simp⟩

theorem mark_true {f : Nat → Bool} {lo hi a : Nat} : mark f lo hi a = true ↔ f a = true ∨ (lo ≤ a ∧ a < hi) := by
  simp [mark]

/-- user code gains fresh cells -/
theorem inv_userExt (s : St) (hi : Inv s) (h2 : Heap) (x : Heap) (hx : h2 = s.heap ++ x) :
    Inv { s with heap := h2, usr := mark s.usr s.heap.length h2.length } ∧
    Keeps s { s with heap := h2, usr := mark s.usr s.heap.length h2.length } := by
  subst hx
  refine ⟨⟨?_, ?_, ?_, ?_, hi.recs⟩, ⟨?_, ⟨[], by simp⟩⟩⟩
  · intro a ha ks hk
    have hl := hi.libB a ha
    simp only at hk
    rw [List.getElem?_append_left hl] at hk
    exact hi.wf a ha ks hk
  · intro a ha
    have hl := hi.libB a ha
    have := hi.sep a ha
    simp only [mark, this, Bool.false_or, Bool.and_eq_false_imp, decide_eq_true_eq, decide_eq_false_iff_not]
    intro; omega
  · intro a ha; have := hi.libB a ha; simp; omega
  · intro a ha
    rcases mark_true.mp ha with h | h
    · have := hi.usrB a h; simp; omega
    · exact h.2
  · intro a ha
    exact ⟨by simp only; rw [List.getElem?_append_left (hi.libB a ha)], ha⟩

theorem copy_ext (h : Heap) (a : Nat) (h2 : Heap) (r : Nat) (hc : copy h a = some (h2, r)) :
    ∃ t, (h2, r) = alloc h t := by
  unfold copy at hc
  cases hr : read h (h.length + 1) a with
  | none => rw [hr] at hc; cases hc
  | some t => rw [hr] at hc; simp at hc; exact ⟨t, hc.symm⟩

theorem inv_handOut (s : St) (hi : Inv s) (rc : Rec) : Inv (handOut s rc true) ∧ Keeps s (handOut s rc true) := by
  unfold handOut
  simp only [if_true]
  cases hc : copy s.heap rc.root with
  | none => exact ⟨hi, Keeps.refl s⟩
  | some p =>
    obtain ⟨h2, r⟩ := p
    obtain ⟨t, ht⟩ := copy_ext _ _ _ _ hc
    have hp := alloc_post s.heap t
    rw [← ht] at hp
    obtain ⟨x, hx⟩ := hp.ext
    exact inv_userExt s hi h2 x hx

/-- the library gains a fresh record -/
theorem inv_libExt (s : St) (hi : Inv s) (t : Tree) :
    Inv { s with heap := (alloc s.heap t).1, lib := mark s.lib s.heap.length (alloc s.heap t).1.length,
                 recs := s.recs ++ [⟨s.heap.length, (alloc s.heap t).2⟩] } ∧
    Keeps s { s with heap := (alloc s.heap t).1, lib := mark s.lib s.heap.length (alloc s.heap t).1.length,
                     recs := s.recs ++ [⟨s.heap.length, (alloc s.heap t).2⟩] } := by
  have hp := alloc_post s.heap t
  obtain ⟨x, hx⟩ := hp.ext
  refine ⟨⟨?_, ?_, ?_, ?_, ?_⟩, ⟨?_, ⟨_, rfl⟩⟩⟩
  · intro a ha ks hk
    simp only at hk ha ⊢
    rcases mark_true.mp ha with h | h
    · have hl := hi.libB a h
      rw [hx, List.getElem?_append_left hl] at hk
      have h1 := hi.wf a h ks hk
      exact fun k hm => ⟨(h1 k hm).1, mark_true.mpr (Or.inl (h1 k hm).2)⟩
    · intro k hm
      obtain ⟨h1, h2⟩ := hp.seg a h.1 h.2 ks hk k hm
      exact ⟨h2, mark_true.mpr (Or.inr ⟨h1, by omega⟩)⟩
  · intro a ha
    simp only at ha ⊢
    rcases mark_true.mp ha with h | h
    · exact hi.sep a h
    · cases hu : s.usr a with
      | false => rfl
      | true => have := hi.usrB a hu; omega
  · intro a ha
    simp only at ha ⊢
    rcases mark_true.mp ha with h | h
    · have := hi.libB a h; have := hp.len; omega
    · exact h.2
  · intro a ha
    simp only at ha ⊢
    have := hi.usrB a ha; have := hp.len; omega
  · intro rc hrc
    simp only at hrc ⊢
    rcases List.mem_append.mp hrc with h | h
    · exact mark_true.mpr (Or.inl (hi.recs rc h))
    · simp at h; subst h
      simp only
      exact mark_true.mpr (Or.inr ⟨by have := hp.root; have := hp.len; omega, by have := hp.root; omega⟩)
  · intro a ha
    simp only
    exact ⟨by rw [hx, List.getElem?_append_left (hi.libB a ha)], mark_true.mpr (Or.inl ha)⟩

theorem inv_recordAndHand (s : St) (hi : Inv s) (a : Nat) :
    Inv (recordAndHand s a true true) ∧ Keeps s (recordAndHand s a true true) := by
  unfold recordAndHand
  by_cases hu : s.usr a = false
  · simp only [hu, if_true]; exact ⟨hi, Keeps.refl s⟩
  · simp only [hu, if_true]
    cases hc : copy s.heap a with
    | none => exact ⟨hi, Keeps.refl s⟩
    | some p =>
      obtain ⟨h1, r⟩ := p
      obtain ⟨t, ht⟩ := copy_ext _ _ _ _ hc
      have e1 : h1 = (alloc s.heap t).1 := by rw [← ht]
      have e2 : r = (alloc s.heap t).2 := by rw [← ht]
      subst e1 e2
      obtain ⟨i1, k1⟩ := inv_libExt s hi t
      obtain ⟨i2, k2⟩ := inv_handOut _ i1 ⟨s.heap.length, (alloc s.heap t).2⟩
      exact ⟨i2, k1.trans k2⟩

/-- **one step** of the code as it is (every edge copies): the invariant is kept, no cell of a record is touched -/
theorem inv_step (s : St) (hi : Inv s) (e : Ev) : Inv (step {} s e) ∧ Keeps s (step {} s e) := by
  cases e with
  | userAlloc t =>
    obtain ⟨x, hx⟩ := (alloc_post s.heap t).ext
    exact inv_userExt s hi _ x hx
  | userWrite a c =>
    simp only [step]
    split
    · rename_i hc
      obtain ⟨h1, h2, h3⟩ := hc
      have hnl : ∀ b, s.lib b = true → b ≠ a := by
        intro b hb e; subst e
        have := hi.sep b hb; rw [this] at h2; cases h2
      refine ⟨⟨?_, hi.sep, ?_, ?_, hi.recs⟩, ⟨?_, ⟨[], by simp⟩⟩⟩
      · intro b hb ks hk
        simp only at hk
        rw [List.getElem?_set_ne (hnl b hb).symm] at hk
        exact hi.wf b hb ks hk
      · intro b hb; simp; exact hi.libB b hb
      · intro b hb; simp; exact hi.usrB b hb
      · intro b hb
        exact ⟨by simp only; rw [List.getElem?_set_ne (hnl b hb).symm], hb⟩
    · exact ⟨hi, Keeps.refl s⟩
  | call a => exact inv_recordAndHand s hi a
  | ret a => exact inv_recordAndHand s hi a
  | serve i =>
    simp only [step]
    cases s.recs[i]? with
    | none => exact ⟨hi, Keeps.refl s⟩
    | some rc => exact inv_handOut s hi rc
  | query t =>
    simp only [step]
    obtain ⟨i1, k1⟩ := inv_libExt s hi t
    obtain ⟨i2, k2⟩ := inv_handOut _ i1 ⟨s.heap.length, (alloc s.heap t).2⟩
    exact ⟨i2, k1.trans k2⟩

theorem inv_run (evs : List Ev) : ∀ (s : St), Inv s → Inv (run {} s evs) ∧ Keeps s (run {} s evs) := by
  induction evs with
  | nil => intro s hi; exact ⟨hi, Keeps.refl s⟩
  | cons e r ih =>
    intro s hi
    obtain ⟨i1, k1⟩ := inv_step s hi e
    obtain ⟨i2, k2⟩ := ih _ i1
    exact ⟨i2, k1.trans k2⟩

mutual
/-- frame: the value at a library cell only depends on the library's cells -/
theorem read_frame (s s' : St) (hi : Inv s) (hk : Keeps s s') : (f a : Nat) → s.lib a = true →
    read s'.heap f a = read s.heap f a
  | 0, _, _ => by simp [read]
  | f+1, a, ha => by
    simp only [read]
    rw [(hk.1 a ha).1]
    cases hc : s.heap[a]? with
    | none => rfl
    | some c =>
      cases c with
      | atom n => rfl
      | node ks =>
        simp only
        rw [readL_frame s s' hi hk f ks (fun k hm => (hi.wf a ha ks hc k hm).2)]
theorem readL_frame (s s' : St) (hi : Inv s) (hk : Keeps s s') : (f : Nat) → (as : List Nat) →
    (∀ k ∈ as, s.lib k = true) → readL s'.heap f as = readL s.heap f as
  | _, [], _ => by simp [readL]
  | f, a :: as, h => by
    simp only [readL]
    rw [read_frame s s' hi hk f a (h a (by simp)), readL_frame s s' hi hk f as (fun k hm => h k (by simp [hm]))]
end

/-- **C11 (heap level)**: in every run of the code as it is — user code building values, mutating in place whatever it
    holds, calling, returning, being served from the cache, querying, in any order and number — a record, once made,
    denotes the same value for ever. -/
theorem C11_records_immutable (evs : List Ev) (s : St) (hi : Inv s) (i : Nat) (hlt : i < s.recs.length) :
    recVal (run {} s evs) i = recVal s i := by
  obtain ⟨_, hk⟩ := inv_run evs s hi
  obtain ⟨x, hx⟩ := hk.2
  unfold recVal
  have e1 : (run {} s evs).recs[i]? = s.recs[i]? := by rw [hx, List.getElem?_append_left hlt]
  rw [e1]
  cases hr : s.recs[i]? with
  | none => rfl
  | some rc =>
    simp only
    exact read_frame s _ hi hk _ _ (hi.recs rc (List.mem_of_getElem? hr))

/-- from the empty heap -/
theorem C11_records_immutable_from_init (evs evs' : List Ev) (i : Nat) (hlt : i < (run {} {} evs).recs.length) :
    recVal (run {} (run {} {} evs) evs') i = recVal (run {} {} evs) i :=
  C11_records_immutable evs' _ (inv_run evs {} inv_init).1 i hlt


/-! ### fidelity: a copy denotes the value it was made from -/

mutual
theorem read_append (h x : Heap) : (f a : Nat) → (t : Tree) → read h f a = some t → read (h ++ x) f a = some t
  | 0, _, _, hr => by simp [read] at hr
  | f+1, a, t, hr => by
    simp only [read] at hr ⊢
    cases hc : h[a]? with
    | none => rw [hc] at hr; cases hr
    | some c =>
      have hl : a < h.length := by
        rcases Nat.lt_or_ge a h.length with h' | h'
        · exact h'
        · rw [List.getElem?_eq_none h'] at hc; cases hc
      rw [List.getElem?_append_left hl, hc]
      rw [hc] at hr
      cases c with
      | atom n => exact hr
      | node ks =>
        simp only at hr ⊢
        cases hrl : readL h f ks with
        | none => rw [hrl] at hr; cases hr
        | some ts => rw [hrl] at hr; rw [readL_append h x f ks ts hrl]; exact hr
theorem readL_append (h x : Heap) : (f : Nat) → (as : List Nat) → (ts : List Tree) → readL h f as = some ts →
    readL (h ++ x) f as = some ts
  | _, [], ts, hr => by simpa [readL] using hr
  | f, a :: as, ts, hr => by
    simp only [readL] at hr ⊢
    cases h1 : read h f a with
    | none => rw [h1] at hr; cases hr
    | some t =>
      cases h2 : readL h f as with
      | none => rw [h1, h2] at hr; cases hr
      | some ts' =>
        rw [h1, h2] at hr
        rw [read_append h x f a t h1, readL_append h x f as ts' h2]; exact hr
end

mutual
theorem read_fuel (h : Heap) : (f a : Nat) → (t : Tree) → read h f a = some t → read h (f + 1) a = some t
  | 0, _, _, hr => by simp [read] at hr
  | f+1, a, t, hr => by
    rw [read] at hr ⊢
    cases hc : h[a]? with
    | none => rw [hc] at hr; cases hr
    | some c =>
      rw [hc] at hr
      cases c with
      | atom n => exact hr
      | node ks =>
        simp only at hr ⊢
        cases hrl : readL h f ks with
        | none => rw [hrl] at hr; cases hr
        | some ts => rw [hrl] at hr; rw [readL_fuel h f ks ts hrl]; exact hr
theorem readL_fuel (h : Heap) : (f : Nat) → (as : List Nat) → (ts : List Tree) → readL h f as = some ts →
    readL h (f + 1) as = some ts
  | _, [], ts, hr => by simpa [readL] using hr
  | f, a :: as, ts, hr => by
    simp only [readL] at hr ⊢
    cases h1 : read h f a with
    | none => rw [h1] at hr; cases hr
    | some t =>
      cases h2 : readL h f as with
      | none => rw [h1, h2] at hr; cases hr
      | some ts' =>
        rw [h1, h2] at hr
        rw [read_fuel h f a t h1, readL_fuel h f as ts' h2]; exact hr
end

theorem read_fuel_le (h : Heap) (a : Nat) (t : Tree) (f : Nat) (hr : read h f a = some t) : ∀ g, f ≤ g → read h g a = some t := by
  intro g hg
  induction g with
  | zero => have : f = 0 := by omega
            subst this; exact hr
  | succ n ih =>
    rcases Nat.lt_or_ge n f with h' | h'
    · have : f = n + 1 := by omega
      subst this; exact hr
    · exact read_fuel h n a t (ih h')

theorem readL_fuel_le (h : Heap) (as : List Nat) (ts : List Tree) (f : Nat) (hr : readL h f as = some ts) :
    ∀ g, f ≤ g → readL h g as = some ts := by
  intro g hg
  induction g with
  | zero => have : f = 0 := by omega
            subst this; exact hr
  | succ n ih =>
    rcases Nat.lt_or_ge n f with h' | h'
    · have : f = n + 1 := by omega
      subst this; exact hr
    · exact readL_fuel h n as ts (ih h')

mutual
/-- reading a freshly allocated structure gives back the value -/
theorem read_alloc : (h : Heap) → (t : Tree) → read (alloc h t).1 (alloc h t).1.length (alloc h t).2 = some t
  | h, .atom n => by simp [alloc, read]
  | h, .node ts => by
    have ih := readL_allocL h ts
    simp only [alloc, List.length_append, List.length_singleton]
    rw [read]
    simp only [List.getElem?_concat_length]
    rw [readL_append _ _ _ _ _ ih]
    rfl
theorem readL_allocL : (h : Heap) → (ts : List Tree) → readL (allocL h ts).1 (allocL h ts).1.length (allocL h ts).2 = some ts
  | h, [] => by simp [allocL, readL]
  | h, t :: ts => by
    have i1 := read_alloc h t
    have i2 := readL_allocL (alloc h t).1 ts
    simp only [allocL, readL]
    obtain ⟨x, hx⟩ := (allocL_post (alloc h t).1 ts).ext
    have hl := (allocL_post (alloc h t).1 ts).len
    have : read (allocL (alloc h t).1 ts).1 (allocL (alloc h t).1 ts).1.length (alloc h t).2 = some t := by
      apply read_fuel_le _ _ _ _ _ _ hl
      rw [hx]; exact read_append _ _ _ _ _ i1
    rw [this, i2]
end

/-- `copy` is faithful: the new structure denotes what the old one denoted -/
theorem copy_faithful (h : Heap) (a : Nat) (h2 : Heap) (r : Nat) (hc : copy h a = some (h2, r)) :
    read h2 (r + 1) r = read h (h.length + 1) a := by
  unfold copy at hc
  cases hr : read h (h.length + 1) a with
  | none => rw [hr] at hc; cases hc
  | some t =>
    rw [hr] at hc
    simp at hc
    have := read_alloc h t
    rw [hc] at this
    have hroot := (alloc_post h t).root
    rw [hc] at hroot
    simp only at hroot this
    rw [hroot]; exact this

/-- a record always denotes a value (its structure is finite: children lie below their parent) -/
theorem lib_read_some (s : St) (hi : Inv s) : ∀ (n a : Nat), a < n → s.lib a = true → ∃ t, read s.heap (a + 1) a = some t := by
  intro n
  induction n with
  | zero => intro a h; omega
  | succ n ih =>
    intro a han hl
    have hb := hi.libB a hl
    rw [read]
    rw [List.getElem?_eq_getElem hb]
    cases hc : s.heap[a] with
    | atom m => exact ⟨_, rfl⟩
    | node ks =>
      simp only
      have hw := hi.wf a hl ks (by rw [List.getElem?_eq_getElem hb, hc])
      have : ∀ (l : List Nat), (∀ k ∈ l, k < a ∧ s.lib k = true) → ∃ ts, readL s.heap a l = some ts := by
        intro l
        induction l with
        | nil => intro _; exact ⟨[], by simp [readL]⟩
        | cons k r ihl =>
          intro hkr
          obtain ⟨ts, hts⟩ := ihl (fun k' hk' => hkr k' (by simp [hk']))
          obtain ⟨hk1, hk2⟩ := hkr k (by simp)
          obtain ⟨t, ht⟩ := ih k (by omega) hk2
          refine ⟨t :: ts, ?_⟩
          simp only [readL]
          rw [read_fuel_le _ _ _ _ ht a (by omega), hts]
      obtain ⟨ts, hts⟩ := this ks hw
      exact ⟨.node ts, by rw [hts]; rfl⟩

/-- **what is handed out is the recorded value**: serving record `i` always succeeds and the fresh structure the
    user receives denotes exactly what the record denotes -/
theorem C11_served_value (s : St) (hi : Inv s) (i : Nat) (rc : Rec) (hrc : s.recs[i]? = some rc) :
    ∃ h2 r, copy s.heap rc.root = some (h2, r) ∧ read h2 (r + 1) r = recVal s i ∧ s.heap.length ≤ r := by
  have hl := hi.recs rc (List.mem_of_getElem? hrc)
  obtain ⟨t, ht⟩ := lib_read_some s hi (rc.root + 1) rc.root (by omega) hl
  have hb := hi.libB _ hl
  have ht' := read_fuel_le _ _ _ _ ht (s.heap.length + 1) (by omega)
  have hc : copy s.heap rc.root = some (alloc s.heap t) := by unfold copy; rw [ht']; rfl
  refine ⟨(alloc s.heap t).1, (alloc s.heap t).2, hc, ?_, ?_⟩
  · rw [copy_faithful _ _ _ _ hc, ht']
    unfold recVal; rw [hrc]; exact ht.symm
  · have := (alloc_post s.heap t).root; have := (alloc_post s.heap t).len; omega

/-! ### the copies are needed: with any one of them left out, a record changes under the user's hands -/

def tList : Tree := .node [.atom 1, .atom 2]

/-- `_sanitize_args` left out: the record IS the caller's list; the caller appends to it afterwards -/
theorem needs_argsIn : recVal (run { argsIn := false } {} [.userAlloc tList, .call 2]) 0 = some tList ∧
    recVal (run { argsIn := false } {} [.userAlloc tList, .call 2, .userWrite 2 (.node [0])]) 0 = some (.node [.atom 1]) := by
  simp [recVal, run, step, recordAndHand, handOut, copy, alloc, allocL, read, readL, mark, cellOk, tList]

/-- the deep copy for the callee left out: the function edits its argument in place -/
theorem needs_argsOut : recVal (run { argsOut := false } {} [.userAlloc tList, .call 2]) 0 = some tList ∧
    recVal (run { argsOut := false } {} [.userAlloc tList, .call 2, .userWrite 5 (.node [3])]) 0 = some (.node [.atom 1]) := by
  simp [recVal, run, step, recordAndHand, handOut, copy, alloc, allocL, read, readL, mark, cellOk, tList]

/-- `_sanitize_return_value` left out: the function keeps the list it returned and edits it later -/
theorem needs_retIn : recVal (run { retIn := false } {} [.userAlloc tList, .ret 2, .userWrite 2 (.node [])]) 0 = some (.node []) := by
  simp [recVal, run, step, recordAndHand, handOut, copy, alloc, allocL, read, readL, mark, cellOk, tList]

/-- the deep copy of the return value left out (the defect the property's text mentions): `r.append(x)` at the caller -/
theorem needs_retOut : recVal (run { retOut := false } {} [.userAlloc tList, .ret 2, .userWrite 5 (.node [3, 4, 4])]) 0 =
    some (.node [.atom 1, .atom 2, .atom 2]) := by
  simp [recVal, run, step, recordAndHand, handOut, copy, alloc, allocL, read, readL, mark, cellOk, tList]

/-- the same for a record served from the cache -/
theorem needs_retOut_cached : recVal (run { retOut := false } {} [.query tList, .serve 0, .userWrite 2 (.node [])]) 0 = some (.node []) := by
  simp [recVal, run, step, recordAndHand, handOut, copy, alloc, allocL, read, readL, mark, cellOk, tList]

/-- the deep copy of a query result left out: pruning the list `walk` / `list_dir` returned -/
theorem needs_queryOut : recVal (run { queryOut := false } {} [.query tList, .userWrite 2 (.node [0])]) 0 = some (.node [.atom 1]) := by
  simp [recVal, run, step, recordAndHand, handOut, copy, alloc, allocL, read, readL, mark, cellOk, tList]

/-- non-vacuity: with the code as it is the same traces leave the record alone, and the user's writes do take effect
    on the user's own structures -/
example : recVal (run {} {} [.userAlloc tList, .call 2, .userWrite 2 (.node [0]), .userWrite 8 (.node [])]) 0 = some tList ∧
    read (run {} {} [.userAlloc tList, .call 2, .userWrite 2 (.node [0]), .userWrite 8 (.node [])]).heap 9 8 = some (.node []) ∧
    read (run {} {} [.userAlloc tList, .call 2, .userWrite 2 (.node [0]), .userWrite 8 (.node [])]).heap 3 2 = some (.node [.atom 1]) := by
  simp [recVal, run, step, recordAndHand, handOut, copy, alloc, allocL, read, readL, mark, cellOk, tList]

end FB.Heap
