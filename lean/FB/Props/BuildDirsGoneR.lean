/-
  C04 — the memoised scan of `build_dirs.py` with reservations in force.  `BuildDirsGone` proved that
  `is_removed_norm_case` decides `Gone` in the phase of a build before the first `build_file` (no reservation
  counts).  Here the same is proved for ANY memo state that is sound in the sense of `QInvR`, where `Res` is the set
  of reserved directories (`hasCount`, closed under `dirname` - within the protocol: the directories with a live
  output below, `hasCount_iff_live`), candidates may be reserved-or-gone, and undecided candidates may be alive or
  reserved: `isRemoved_specR` - the answer is `True` exactly for the candidates that are not reserved and are `Gone`,
  and the memo stays sound (`handleDirExists_qinvR`, `checkLoop_specR`, `checkMaybeRemoved_specR`).  With
  `Res = fun _ => False` this is the earlier theorem (`init_qinvR`).
  What is NOT proved: that `build_file` steps re-establish `QInvR` for the tree they leave.  (The reference for that
  is the eager reference model, not a predicate on the current tree: a directory that was alive when the build
  started stays visible even if the build later overwrites and loses the foreign file that kept it alive.)
-/
import FB.Props.BuildDirsGone
import FB.Props.BuildDirsStarted
namespace FB
namespace BuildDirs
open FS

variable (fs : FS) (oldDirs oldFiles : List Path) (Res : Path → Prop)

/-- the caches of `BuildDirs` are sound with respect to `Gone`; the directories in `S` are being scanned right
    now (their verdict is still open) -/
structure QInvR (S : List Path) (b : BD) : Prop where
  counts : ∀ d, hasCount b d = true ↔ Res d
  rf_sub : ∀ p ∈ b.removedFiles, p ∈ oldFiles
  rf_cov : ∀ p ∈ oldFiles, p ∈ b.removedFiles ∨ fs.isDir p = true
  rd : ∀ d ∈ b.removedDirs, d ∈ oldDirs ∧ (Res d ∨ Gone fs oldDirs oldFiles d)
  mr_sub : ∀ d ∈ b.maybeRemoved, d ∈ oldDirs
  cov : ∀ d ∈ oldDirs, d ∉ S → d ∈ b.maybeRemoved ∨ d ∈ b.removedDirs ∨ ¬ Gone fs oldDirs oldFiles d ∨ Res d
  disj : ∀ d ∈ b.maybeRemoved, d ∉ b.removedDirs


theorem handleDirExists_qinvR (S : List Path) : ∀ (n : Nat) (x : Path) (b : BD), x.length = n →
    QInvR fs oldDirs oldFiles Res S b → Anchor fs oldDirs oldFiles x →
    QInvR fs oldDirs oldFiles Res S (handleDirExists b x) ∧
      (∀ y ∈ (handleDirExists b x).maybeRemoved, y ∈ b.maybeRemoved) ∧
      (∀ y ∈ (handleDirExists b x).removedDirs, y ∈ b.removedDirs) := by
  intro n
  induction n with
  | zero =>
    intro x b hl h ha
    have hp : x = [] := List.length_eq_zero_iff.mp hl
    subst hp
    rw [handleDirExists]
    split
    · obtain ⟨h1, h2, h3, h4⟩ := existsUp_same _ [] b rfl
      refine ⟨⟨fun d => by rw [hasCount_congr h1]; exact h.counts d, by rw [h4]; exact h.rf_sub, by rw [h4]; exact h.rf_cov, by rw [h2]; exact h.rd,
        by rw [h3]; exact h.mr_sub, by rw [h3, h2]; exact h.cov, by rw [h3, h2]; exact h.disj⟩, by rw [h3]; exact fun y hy => hy,
        by rw [h2]; exact fun y hy => hy⟩
    · simp only [dite_true]
      refine ⟨⟨h.counts, ?_, ?_, ?_, ?_, ?_, ?_⟩, ?_, ?_⟩
      · intro p hp; exact h.rf_sub p ((mem_discard _ _ _).mp hp).1
      · intro p hp
        by_cases hpx : p = []
        · right; subst hpx; exact ha.files [] (List.prefix_refl _) hp
        · rcases h.rf_cov p hp with h' | h'
          · left; exact (mem_discard _ _ _).mpr ⟨h', hpx⟩
          · right; exact h'
      · intro d hd; exact h.rd d ((mem_discard _ _ _).mp hd).1
      · intro d hd; exact h.mr_sub d ((mem_discard _ _ _).mp hd).1
      · intro d hd hS
        by_cases hdx : d = []
        · right; right; left; subst hdx; exact ha.dirs [] (List.prefix_refl _) hd
        · rcases h.cov d hd hS with h' | h' | h' | h'
          · left; exact (mem_discard _ _ _).mpr ⟨h', hdx⟩
          · right; left; exact (mem_discard _ _ _).mpr ⟨h', hdx⟩
          · right; right; left; exact h'
          · right; right; right; exact h'
      · intro d hd hr
        exact h.disj d ((mem_discard _ _ _).mp hd).1 ((mem_discard _ _ _).mp hr).1
      · intro y hy; exact ((mem_discard _ _ _).mp hy).1
      · intro y hy; exact ((mem_discard _ _ _).mp hy).1
  | succ n ih =>
    intro x b hl h ha
    have hpne : x ≠ [] := by intro e; subst e; simp at hl
    rw [handleDirExists]
    split
    · obtain ⟨h1, h2, h3, h4⟩ := existsUp_same _ x b rfl
      refine ⟨⟨fun d => by rw [hasCount_congr h1]; exact h.counts d, by rw [h4]; exact h.rf_sub, by rw [h4]; exact h.rf_cov, by rw [h2]; exact h.rd,
        by rw [h3]; exact h.mr_sub, by rw [h3, h2]; exact h.cov, by rw [h3, h2]; exact h.disj⟩, by rw [h3]; exact fun y hy => hy,
        by rw [h2]; exact fun y hy => hy⟩
    · simp only [hpne, dite_false]
      have hb1 : QInvR fs oldDirs oldFiles Res S
          { b with removedDirs := discard b.removedDirs x, maybeRemoved := discard b.maybeRemoved x,
                   removedFiles := discard b.removedFiles x, existsDirs := x :: b.existsDirs } := by
        refine ⟨h.counts, ?_, ?_, ?_, ?_, ?_, ?_⟩
        · intro p hp; exact h.rf_sub p ((mem_discard _ _ _).mp hp).1
        · intro p hp
          by_cases hpx : p = x
          · right; subst hpx; exact ha.files p (List.prefix_refl _) hp
          · rcases h.rf_cov p hp with h' | h'
            · left; exact (mem_discard _ _ _).mpr ⟨h', hpx⟩
            · right; exact h'
        · intro d hd; exact h.rd d ((mem_discard _ _ _).mp hd).1
        · intro d hd; exact h.mr_sub d ((mem_discard _ _ _).mp hd).1
        · intro d hd hS
          by_cases hdx : d = x
          · right; right; left; subst hdx; exact ha.dirs d (List.prefix_refl _) hd
          · rcases h.cov d hd hS with h' | h' | h' | h'
            · left; exact (mem_discard _ _ _).mpr ⟨h', hdx⟩
            · right; left; exact (mem_discard _ _ _).mpr ⟨h', hdx⟩
            · right; right; left; exact h'
            · right; right; right; exact h'
        · intro d hd hr
          exact h.disj d ((mem_discard _ _ _).mp hd).1 ((mem_discard _ _ _).mp hr).1
      obtain ⟨r1, r2, r3⟩ := ih x.dropLast _ (by simp [List.length_dropLast, hl]) hb1 (ha.dropLast fs oldDirs oldFiles)
      exact ⟨r1, fun y hy => ((mem_discard _ _ _).mp (r2 y hy)).1, fun y hy => ((mem_discard _ _ _).mp (r3 y hy)).1⟩


theorem QInvR.opened {S : List Path} {b : BD} (h : QInvR fs oldDirs oldFiles Res S b) (d : Path) :
    QInvR fs oldDirs oldFiles Res (d :: S) b :=
  ⟨h.counts, h.rf_sub, h.rf_cov, h.rd, h.mr_sub, fun x hx hS => h.cov x hx (fun hm => hS (List.mem_cons_of_mem _ hm)), h.disj⟩

theorem QInvR.closed {S : List Path} {b : BD} {d : Path} (h : QInvR fs oldDirs oldFiles Res (d :: S) b)
    (hd : d ∈ b.maybeRemoved ∨ d ∈ b.removedDirs ∨ ¬ Gone fs oldDirs oldFiles d ∨ Res d) :
    QInvR fs oldDirs oldFiles Res S b :=
  ⟨h.counts, h.rf_sub, h.rf_cov, h.rd, h.mr_sub, fun x hx hS => by
    by_cases hxd : x = d
    · subst hxd; exact hd
    · exact h.cov x hx (by simp [hxd, hS]), h.disj⟩



/-- the `for subfile in subfiles` loop of `_check_maybe_removed_dir`, given the recursive calls -/
theorem checkLoop_specR (hwf : TreeWF fs) (hv : Valid oldDirs oldFiles) (hup : ∀ x, Res x → Res x.dropLast) (fuel : Nat)
    (hcm : ∀ (S : List Path) (b : BD) (d : Path) (b' : BD) (r : Bool), QInvR fs oldDirs oldFiles Res S b → d ∈ b.maybeRemoved →
      ¬ Res d → (∀ s ∈ S, s.length < d.length) → checkMaybeRemoved fs fuel b d = some (b', r) →
      QInvR fs oldDirs oldFiles Res S b' ∧ Mono b b' ∧ (r = true ↔ Gone fs oldDirs oldFiles d)) :
    ∀ (rest : List String) (S : List Path) (b : BD) (d : Path) (b' : BD) (r : Bool),
      QInvR fs oldDirs oldFiles Res (d :: S) b → d ∈ oldDirs → ¬ Res d → d ∉ b.maybeRemoved → d ∉ b.removedDirs →
      (∀ s ∈ S, s.length < d.length) → underFile fs d = false → fs.get d = some .dir →
      (∀ n ∈ rest, n ∈ fs.listdir d) →
      (∀ n ∈ fs.listdir d, n ∉ rest → GoneChild fs oldDirs oldFiles (d ++ [n])) →
      checkLoop fs fuel b d rest = some (b', r) →
      QInvR fs oldDirs oldFiles Res S b' ∧ MonoBut d b b' ∧ (r = true ↔ Gone fs oldDirs oldFiles d) := by
  intro rest
  induction rest with
  | nil =>
    intro S b d b' r h hdo hnr hdm hdr hS hu hg _ hdone hrun
    rw [checkLoop] at hrun
    simp only [Option.some.injEq, Prod.mk.injEq] at hrun
    obtain ⟨hb, hr⟩ := hrun
    subst hb hr
    have hgone : Gone fs oldDirs oldFiles d := by
      refine Gone.empty d hu hg ?_ ?_
      · intro n hn ho
        rcases hdone n hn (by simp) with ⟨_, h'⟩ | ⟨h', _⟩
        · exact h'
        · exact absurd ho h'
      · intro n hn ho
        rcases hdone n hn (by simp) with ⟨h', _⟩ | ⟨_, h'⟩
        · exact absurd h' ho
        · exact h'
    refine ⟨?_, ⟨fun y hy => hy, fun y hy => ?_⟩, fun _ => hgone, fun _ => rfl⟩
    · refine ⟨h.counts, h.rf_sub, h.rf_cov, ?_, h.mr_sub, ?_, ?_⟩
      · intro x hx
        rcases (mem_add _ _ _).mp hx with rfl | hx
        · exact ⟨hdo, Or.inr hgone⟩
        · exact h.rd x hx
      · intro x hx hxS
        by_cases hxd : x = d
        · right; left; exact (mem_add _ _ _).mpr (Or.inl hxd)
        · rcases h.cov x hx (by simp [hxd, hxS]) with h' | h' | h'
          · exact Or.inl h'
          · exact Or.inr (Or.inl ((mem_add _ _ _).mpr (Or.inr h')))
          · exact Or.inr (Or.inr h')
      · intro x hx hxr
        rcases (mem_add _ _ _).mp hxr with rfl | hxr
        · exact hdm hx
        · exact h.disj x hx hxr
    · rcases (mem_add _ _ _).mp hy with hy | hy
      · exact Or.inl hy
      · exact Or.inr (Or.inl hy)
  | cons n rest ih =>
    intro S b d b' r h hdo hnr hdm hdr hS hu hg hrest hdone hrun
    have hnrs : ¬ Res (d ++ [n]) := fun hr => hnr (by simpa using hup _ hr)
    have hn : n ∈ fs.listdir d := hrest n (List.mem_cons_self ..)
    have hex : fs.get (d ++ [n]) ≠ none := (mem_listdir fs d n).mp hn
    have hrest' : ∀ m ∈ rest, m ∈ fs.listdir d := fun m hm => hrest m (List.mem_cons_of_mem _ hm)
    -- once the entry `n` is known to be gone, the loop goes on
    have hdone' : GoneChild fs oldDirs oldFiles (d ++ [n]) →
        ∀ m ∈ fs.listdir d, m ∉ rest → GoneChild fs oldDirs oldFiles (d ++ [m]) := by
      intro hgc m hm hmr
      by_cases hmn : m = n
      · subst hmn; exact hgc
      · exact hdone m hm (by simp [hmn, hmr])
    -- an entry that is alive keeps `d` alive
    have hnotgone : ¬ GoneChild fs oldDirs oldFiles (d ++ [n]) → ¬ Gone fs oldDirs oldFiles d :=
      fun hng hgd => hng (hgd.children fs oldDirs oldFiles hwf n hex)
    have habove : ∀ a, a <+: d ++ [n] → a ≠ d ++ [n] → a ∉ oldFiles := by
      intro a ha hne hao
      exact hv a hao d hdo (prefix_of_prefix_concat_ne ha hne)
    have hfalse : ∀ (x : Path), Anchor fs oldDirs oldFiles x → ¬ Gone fs oldDirs oldFiles d →
        b' = handleDirExists b x → r = false →
        QInvR fs oldDirs oldFiles Res S b' ∧ MonoBut d b b' ∧ (r = true ↔ Gone fs oldDirs oldFiles d) := by
      intro x hax hngd hb hr
      obtain ⟨q1, q2, q3⟩ := handleDirExists_qinvR fs oldDirs oldFiles Res (d :: S) _ x b rfl h hax
      subst hb hr
      exact ⟨q1.closed fs oldDirs oldFiles Res (Or.inr (Or.inr (Or.inl hngd))), ⟨q2, fun y hy => Or.inr (Or.inl (q3 y hy))⟩,
        (fun hh => nomatch hh), (fun hgd => absurd hgd hngd)⟩
    rw [checkLoop] at hrun
    by_cases hA : b.removedDirs.contains (d ++ [n]) = true
    · -- already known to be gone
      have hmem : (d ++ [n]) ∈ b.removedDirs := by simpa using hA
      obtain ⟨ho, hgs'⟩ := h.rd _ hmem
      have hgs : Gone fs oldDirs oldFiles (d ++ [n]) := by
        rcases hgs' with h' | h'
        · exact absurd h' hnrs
        · exact h'
      have hnf := hgs.not_file fs oldDirs oldFiles
      simp only [hA, if_true, hnf, Bool.false_eq_true, if_false] at hrun
      exact ih S b d b' r h hdo hnr hdm hdr hS hu hg hrest' (hdone' (Or.inl ⟨ho, hgs⟩)) hrun
    · simp only [hA, Bool.false_eq_true, if_false] at hrun
      by_cases hB : b.removedFiles.contains (d ++ [n]) = true
      · have hmem : (d ++ [n]) ∈ b.removedFiles := by simpa using hB
        have hof := h.rf_sub _ hmem
        have hnod : (d ++ [n]) ∉ oldDirs := fun hod => hv _ hof _ hod (List.prefix_refl _)
        simp only [hB, if_true] at hrun
        by_cases hD : fs.isDir (d ++ [n]) = true
        · simp only [hD, if_true, Option.some.injEq, Prod.mk.injEq] at hrun
          have hng : ¬ GoneChild fs oldDirs oldFiles (d ++ [n]) := by
            rintro (⟨h1, _⟩ | ⟨_, _, h3⟩)
            · exact hnod h1
            · rw [hD] at h3; cases h3
          exact hfalse _ (anchor_of_live fs oldDirs oldFiles hwf hex hng (fun _ => hD) habove) (hnotgone hng) hrun.1.symm hrun.2.symm
        · have hD' : fs.isDir (d ++ [n]) = false := by simpa using hD
          simp only [hD', Bool.false_eq_true, if_false] at hrun
          exact ih S b d b' r h hdo hnr hdm hdr hS hu hg hrest' (hdone' (Or.inr ⟨hnod, hof, hD'⟩)) hrun
      · simp only [hB, Bool.false_eq_true, if_false] at hrun
        by_cases hC : b.maybeRemoved.contains (d ++ [n]) = true
        · have hmem : (d ++ [n]) ∈ b.maybeRemoved := by simpa using hC
          simp only [hC, if_true] at hrun
          have hlen : ∀ s ∈ d :: S, s.length < (d ++ [n]).length := by
            intro s hs
            rcases List.mem_cons.mp hs with rfl | hs
            · simp
            · have := hS s hs; simp; omega
          cases hsub : checkMaybeRemoved fs fuel b (d ++ [n]) with
          | none => rw [hsub] at hrun; cases hrun
          | some res =>
            obtain ⟨b1, r1⟩ := res
            obtain ⟨q1, q2, q3⟩ := hcm (d :: S) b (d ++ [n]) b1 r1 h hmem hnrs hlen hsub
            rw [hsub] at hrun
            cases r1 with
            | true =>
              simp only at hrun
              have hgs : Gone fs oldDirs oldFiles (d ++ [n]) := q3.mp rfl
              have hdm1 : d ∉ b1.maybeRemoved := fun hh => hdm (q2.mr d hh)
              have hdr1 : d ∉ b1.removedDirs := by
                intro hh
                rcases q2.rd d hh with h' | h'
                · exact hdr h'
                · exact hdm h'
              obtain ⟨p1, p2, p3⟩ := ih S b1 d b' r q1 hdo hnr hdm1 hdr1 hS hu hg hrest'
                (hdone' (Or.inl ⟨h.mr_sub _ hmem, hgs⟩)) hrun
              exact ⟨p1, q2.transBut p2, p3⟩
            | false =>
              simp only [Option.some.injEq, Prod.mk.injEq] at hrun
              obtain ⟨hb, hr⟩ := hrun
              subst hb hr
              have hngs : ¬ Gone fs oldDirs oldFiles (d ++ [n]) := fun hh => by
                have := q3.mpr hh; cases this
              have hng : ¬ GoneChild fs oldDirs oldFiles (d ++ [n]) := by
                rintro (⟨_, h2⟩ | ⟨h1, _, _⟩)
                · exact hngs h2
                · exact h1 (h.mr_sub _ hmem)
              exact ⟨q1.closed fs oldDirs oldFiles Res (Or.inr (Or.inr (Or.inl (hnotgone hng)))), q2.but d,
                (fun hh => nomatch hh), (fun hgd => absurd hgd (hnotgone hng))⟩
        · simp only [hC, Bool.false_eq_true, if_false, Option.some.injEq, Prod.mk.injEq] at hrun
          have hnA : (d ++ [n]) ∉ b.removedDirs := by simpa using hA
          have hnB : (d ++ [n]) ∉ b.removedFiles := by simpa using hB
          have hnC : (d ++ [n]) ∉ b.maybeRemoved := by simpa using hC
          have hnS : (d ++ [n]) ∉ d :: S := by
            intro hs
            rcases List.mem_cons.mp hs with h' | h'
            · have := congrArg List.length h'; simp at this
            · have := hS _ h'; simp at this
          have hng : ¬ GoneChild fs oldDirs oldFiles (d ++ [n]) := by
            rintro (⟨h1, h2⟩ | ⟨_, h2, h3⟩)
            · rcases h.cov _ h1 hnS with h' | h' | h' | h'
              · exact hnC h'
              · exact hnA h'
              · exact h' h2
              · exact hnrs h'
            · rcases h.rf_cov _ h2 with h' | h'
              · exact hnB h'
              · rw [h'] at h3; cases h3
          by_cases hD : fs.isDir (d ++ [n]) = true
          · simp only [hD, if_true] at hrun
            exact hfalse _ (anchor_of_live fs oldDirs oldFiles hwf hex hng (fun _ => hD) habove) (hnotgone hng) hrun.1.symm hrun.2.symm
          · simp only [hD, Bool.false_eq_true, if_false] at hrun
            have hngd := hnotgone hng
            have had : Anchor fs oldDirs oldFiles d := by
              refine anchor_of_live fs oldDirs oldFiles hwf (by rw [hg]; simp) ?_ ?_ ?_
              · rintro (⟨_, h2⟩ | ⟨h1, _, _⟩)
                · exact hngd h2
                · exact h1 hdo
              · intro hof; exact absurd (List.prefix_refl d) (hv d hof d hdo)
              · intro a ha _ hao; exact hv a hao d hdo ha
            exact hfalse _ had hngd hrun.1.symm hrun.2.symm



/-- **the scan decides `Gone`**: `_check_maybe_removed_dir(d)` -/
theorem checkMaybeRemoved_specR (hwf : TreeWF fs) (hv : Valid oldDirs oldFiles) (hup : ∀ x, Res x → Res x.dropLast) : ∀ (fuel : Nat)
    (S : List Path) (b : BD) (d : Path) (b' : BD) (r : Bool), QInvR fs oldDirs oldFiles Res S b → d ∈ b.maybeRemoved →
      ¬ Res d → (∀ s ∈ S, s.length < d.length) → checkMaybeRemoved fs fuel b d = some (b', r) →
      QInvR fs oldDirs oldFiles Res S b' ∧ Mono b b' ∧ (r = true ↔ Gone fs oldDirs oldFiles d) := by
  intro fuel
  induction fuel with
  | zero => intro S b d b' r _ _ _ _ hrun; rw [checkMaybeRemoved] at hrun; cases hrun
  | succ fuel ih =>
    intro S b d b' r h hdm hnr hS hrun
    rw [checkMaybeRemoved] at hrun
    have hc : b.maybeRemoved.contains d = true := by simpa using hdm
    simp only [hc, Bool.not_true, Bool.false_eq_true, if_false] at hrun
    have hdo := h.mr_sub d hdm
    have hdr : d ∉ b.removedDirs := h.disj d hdm
    -- the state during the scan of `d`
    have h1 : QInvR fs oldDirs oldFiles Res (d :: S) { b with maybeRemoved := discard b.maybeRemoved d } := by
      refine ⟨h.counts, h.rf_sub, h.rf_cov, h.rd, ?_, ?_, ?_⟩
      · intro x hx; exact h.mr_sub x ((mem_discard _ _ _).mp hx).1
      · intro x hx hxS
        have hxd : x ≠ d := fun e => hxS (by simp [e])
        rcases h.cov x hx (fun hm => hxS (List.mem_cons_of_mem _ hm)) with h' | h' | h'
        · exact Or.inl ((mem_discard _ _ _).mpr ⟨h', hxd⟩)
        · exact Or.inr (Or.inl h')
        · exact Or.inr (Or.inr h')
      · intro x hx; exact h.disj x ((mem_discard _ _ _).mp hx).1
    have hfalse : Anchor fs oldDirs oldFiles d.dropLast → ¬ Gone fs oldDirs oldFiles d →
        b' = handleDirExists { b with maybeRemoved := discard b.maybeRemoved d } d.dropLast → r = false →
        QInvR fs oldDirs oldFiles Res S b' ∧ Mono b b' ∧ (r = true ↔ Gone fs oldDirs oldFiles d) := by
      intro hax hngd hb hr
      obtain ⟨q1, q2, q3⟩ := handleDirExists_qinvR fs oldDirs oldFiles Res (d :: S) _ d.dropLast _ rfl h1 hax
      subst hb hr
      exact ⟨q1.closed fs oldDirs oldFiles Res (Or.inr (Or.inr (Or.inl hngd))),
        ⟨fun y hy => ((mem_discard _ _ _).mp (q2 y hy)).1, fun y hy => Or.inl (q3 y hy)⟩,
        (fun hh => nomatch hh), (fun hgd => absurd hgd hngd)⟩
    have hfilesV : ∀ a, a <+: d.dropLast → a ∈ oldFiles → fs.isDir a = true := by
      intro a ha hao
      exact absurd (ha.trans (List.dropLast_prefix d)) (hv a hao d hdo)
    by_cases hu : (List.range d.length).any (fun k => fs.isFile (d.take k)) = true
    · -- ENOTDIR: a proper ancestor is a regular file
      simp only [hu, if_true, Option.some.injEq, Prod.mk.injEq] at hrun
      have hu' : underFile fs d = true := hu
      obtain ⟨g, hgp, hgne, hgf⟩ := (underFile_iff fs d).mp hu'
      have hgex : fs.get g ≠ none := by intro e; simp [FS.isFile, e] at hgf
      have hax : Anchor fs oldDirs oldFiles d.dropLast := by
        refine ⟨?_, hfilesV⟩
        intro a ha hao hga
        have had : a <+: d := ha.trans (List.dropLast_prefix d)
        rcases List.prefix_or_prefix_of_prefix had hgp with hag | hga'
        · by_cases he : a = g
          · subst he; have := hga.not_file fs oldDirs oldFiles; rw [hgf] at this; cases this
          · rcases hga.descend' fs oldDirs oldFiles hwf hag he hgex with ⟨_, h2⟩ | ⟨_, h2, _⟩
            · have := h2.not_file fs oldDirs oldFiles; rw [hgf] at this; cases this
            · exact hv g h2 d hdo hgp
        · by_cases he : g = a
          · subst he; have := hga.not_file fs oldDirs oldFiles; rw [hgf] at this; cases this
          · have : underFile fs a = true := (underFile_iff fs a).mpr ⟨g, hga', he, hgf⟩
            rw [hga.not_underFile fs oldDirs oldFiles] at this; cases this
      refine hfalse hax ?_ hrun.1.symm hrun.2.symm
      intro hgd; rw [hgd.not_underFile fs oldDirs oldFiles] at hu'; cases hu'
    · simp only [hu, Bool.false_eq_true, if_false] at hrun
      have hu' : underFile fs d = false := by simpa [underFile] using hu
      cases hget : fs.get d with
      | none =>
        rw [hget] at hrun
        simp only [Option.some.injEq, Prod.mk.injEq] at hrun
        obtain ⟨hb, hr⟩ := hrun
        subst hb hr
        have hgone : Gone fs oldDirs oldFiles d := Gone.absent d hu' hget
        refine ⟨?_, ⟨fun y hy => ((mem_discard _ _ _).mp hy).1, fun y hy => ?_⟩, fun _ => hgone, fun _ => rfl⟩
        · refine ⟨h.counts, h.rf_sub, h.rf_cov, ?_, ?_, ?_, ?_⟩
          · intro x hx
            rcases (mem_add _ _ _).mp hx with rfl | hx
            · exact ⟨hdo, Or.inr hgone⟩
            · exact h.rd x hx
          · intro x hx; exact h.mr_sub x ((mem_discard _ _ _).mp hx).1
          · intro x hx hxS
            by_cases hxd : x = d
            · right; left; exact (mem_add _ _ _).mpr (Or.inl hxd)
            · rcases h.cov x hx hxS with h' | h' | h'
              · exact Or.inl ((mem_discard _ _ _).mpr ⟨h', hxd⟩)
              · exact Or.inr (Or.inl ((mem_add _ _ _).mpr (Or.inr h')))
              · exact Or.inr (Or.inr h')
          · intro x hx hxr
            obtain ⟨hx1, hx2⟩ := (mem_discard _ _ _).mp hx
            rcases (mem_add _ _ _).mp hxr with h' | h'
            · exact hx2 h'
            · exact h.disj x hx1 h'
        · rcases (mem_add _ _ _).mp hy with rfl | hy
          · exact Or.inr hdm
          · exact Or.inl hy
      | some e =>
        cases e with
        | file c m =>
          rw [hget] at hrun
          simp only [Option.some.injEq, Prod.mk.injEq] at hrun
          have hdne : d ≠ [] := by intro e; subst e; rw [get_nil] at hget; cases hget
          have hdf : fs.isFile d = true := by simp [FS.isFile, hget]
          have hax : Anchor fs oldDirs oldFiles d.dropLast := by
            refine ⟨?_, hfilesV⟩
            intro a ha hao hga
            have hne := dropLast_ne_of_ne_nil hdne ha
            rcases hga.descend' fs oldDirs oldFiles hwf (ha.trans (List.dropLast_prefix d)) hne (by rw [hget]; simp) with ⟨_, h2⟩ | ⟨h1, _, _⟩
            · have := h2.not_file fs oldDirs oldFiles; rw [hdf] at this; cases this
            · exact h1 hdo
          refine hfalse hax ?_ hrun.1.symm hrun.2.symm
          intro hgd; have := hgd.not_file fs oldDirs oldFiles; rw [hdf] at this; cases this
        | dir =>
          rw [hget] at hrun
          simp only at hrun
          have hdm1 : d ∉ discard b.maybeRemoved d := fun hh => ((mem_discard _ _ _).mp hh).2 rfl
          obtain ⟨p1, p2, p3⟩ := checkLoop_specR fs oldDirs oldFiles Res hwf hv hup fuel ih (fs.listdir d) S
            { b with maybeRemoved := discard b.maybeRemoved d } d b' r h1 hdo hnr hdm1 hdr hS hu' hget
            (fun n hn => hn) (fun n hn hnn => absurd hn hnn) hrun
          refine ⟨p1, ⟨fun y hy => ((mem_discard _ _ _).mp (p2.mr y hy)).1, fun y hy => ?_⟩, p3⟩
          rcases p2.rd y hy with rfl | h' | h'
          · exact Or.inr hdm
          · exact Or.inl h'
          · exact Or.inr ((mem_discard _ _ _).mp h').1


theorem init_qinvR : QInvR fs oldDirs oldFiles (fun _ => False) [] (init oldDirs oldFiles) := by
  refine ⟨?_, ?_, ?_, ?_, ?_, ?_, ?_⟩
  · intro d; simp [init, hasCount]
  · intro p hp; simpa [init, mem_foldl_add] using hp
  · intro p hp; left; simpa [init, mem_foldl_add] using hp
  · intro d hd; simp [init] at hd
  · intro d hd; simpa [init, mem_foldl_add] using hd
  · intro d hd _; left; simpa [init, mem_foldl_add] using hd
  · intro d _ hr; simp [init] at hr

/-- **`is_removed_norm_case(d)` with reservations in force**: whatever the memo holds, as long as it is sound
    (`QInvR`, with `Res` the set of reserved directories - closed under `dirname`), the answer is `True` exactly for
    the candidate directories that are not reserved and are gone, and the memo stays sound -/
theorem isRemoved_specR (hwf : TreeWF fs) (hv : Valid oldDirs oldFiles) (hup : ∀ x, Res x → Res x.dropLast)
    (b : BD) (d : Path) (b' : BD) (r : Bool)
    (h : QInvR fs oldDirs oldFiles Res [] b) (hrun : isRemoved fs b d = some (b', r)) :
    QInvR fs oldDirs oldFiles Res [] b' ∧ (r = true ↔ ¬ Res d ∧ d ∈ oldDirs ∧ Gone fs oldDirs oldFiles d) := by
  unfold isRemoved at hrun
  by_cases hcnt : hasCount b d = true
  · simp only [hcnt, if_true, Option.some.injEq, Prod.mk.injEq] at hrun
    obtain ⟨hb, hr⟩ := hrun
    subst hb hr
    exact ⟨h, (fun hh => nomatch hh), fun hh => absurd ((h.counts d).mp hcnt) hh.1⟩
  · have hnr : ¬ Res d := fun hr => hcnt ((h.counts d).mpr hr)
    simp only [hcnt, Bool.false_eq_true, if_false] at hrun
    by_cases hA : b.removedDirs.contains d = true
    · simp only [hA, if_true, Option.some.injEq, Prod.mk.injEq] at hrun
      obtain ⟨hb, hr⟩ := hrun
      subst hb hr
      obtain ⟨h1, h2⟩ := h.rd d (by simpa using hA)
      refine ⟨h, fun _ => ⟨hnr, h1, ?_⟩, fun _ => rfl⟩
      rcases h2 with h' | h'
      · exact absurd h' hnr
      · exact h'
    · simp only [hA, Bool.false_eq_true, if_false] at hrun
      by_cases hC : b.maybeRemoved.contains d = true
      · simp only [hC, Bool.not_true, Bool.false_eq_true, if_false] at hrun
        have hmem : d ∈ b.maybeRemoved := by simpa using hC
        obtain ⟨q1, _, q3⟩ := checkMaybeRemoved_specR fs oldDirs oldFiles Res hwf hv hup 64 [] b d b' r h hmem hnr (fun s hs => nomatch hs) hrun
        exact ⟨q1, fun hr => ⟨hnr, h.mr_sub d hmem, q3.mp hr⟩, fun hh => q3.mpr hh.2.2⟩
      · simp only [hC, Bool.not_false, if_true, Option.some.injEq, Prod.mk.injEq] at hrun
        obtain ⟨hb, hr⟩ := hrun
        subst hb hr
        refine ⟨h, (fun hh => nomatch hh), ?_⟩
        rintro ⟨_, hdo, hg⟩
        rcases h.cov d hdo (fun hh => nomatch hh) with h' | h' | h' | h'
        · exact absurd (by simpa using h') hC
        · exact absurd (by simpa using h') hA
        · exact absurd hg h'
        · exact absurd h' hnr

end BuildDirs
end FB
