/-
  `created_files.py` is a correct implementation of "the proper ancestors of the live files, with the number
  of reserved children of each": for every sequence of commands within the documented use (start a fresh
  file; finish or fail a live one), the Python never raises `KeyError`, `_norm_cased_dirs` is exactly the set
  of proper ancestors of the live files, and `_norm_cased_dir_to_started_count[d]` is the number of children
  of `d` that are live files or created directories.  (This is the invariant the defect D1/D2 violated.)
-/
import FB.CreatedFiles
import Mathlib.Data.List.Basic
namespace FB
namespace CreatedFiles

def isChildOf (d x : Path) : Bool := decide (x ≠ [] ∧ x.dropLast = d)

/-- what `_norm_cased_dir_to_started_count[d]` is meant to be -/
def formula (L dirs : List Path) (d : Path) : Nat := L.countP (isChildOf d) + dirs.countP (isChildOf d)

def properAnc (d p : Path) : Prop := d <+: p ∧ d ≠ p

theorem find?_filter_ne {β : Type} (l : List (Path × β)) (d e : Path) (hne : e ≠ d) :
    (l.filter (fun x => x.1 ≠ d)).find? (fun x => x.1 = e) = l.find? (fun x => x.1 = e) := by
  rw [List.find?_filter]
  congr 1
  funext x
  by_cases he : x.1 = e
  · have : x.1 ≠ d := fun h => hne (he ▸ h)
    simp [he, this]
    exact fun h => absurd (he ▸ h) hne
  · simp [he]

theorem find?_filter_self {β : Type} (l : List (Path × β)) (d : Path) :
    (l.filter (fun x => x.1 ≠ d)).find? (fun x => x.1 = d) = none := by
  rw [List.find?_eq_none]
  intro x hx
  simp only [List.mem_filter] at hx
  simpa using hx.2

theorem getCount_set_self (cnt : List (Path × Nat)) (d : Path) (n : Nat) (c : CF) (h : c.count = setCount cnt d n) :
    getCount c d = n := by
  simp [getCount, h, setCount]

theorem getCount_set_ne (cnt : List (Path × Nat)) (d e : Path) (n : Nat) (c c0 : CF) (h : c.count = setCount cnt d n)
    (h0 : c0.count = cnt) (hne : e ≠ d) : getCount c e = getCount c0 e := by
  simp only [getCount, h, h0, setCount]
  rw [List.find?_cons_of_neg (by simpa using fun hh => hne hh.symm), find?_filter_ne _ _ _ hne]

theorem getCount_pop_self (cnt : List (Path × Nat)) (d : Path) (c : CF) (h : c.count = popCount cnt d) :
    getCount c d = 0 := by
  simp only [getCount, h, popCount, find?_filter_self]

theorem getCount_pop_ne (cnt : List (Path × Nat)) (d e : Path) (c c0 : CF) (h : c.count = popCount cnt d)
    (h0 : c0.count = cnt) (hne : e ≠ d) : getCount c e = getCount c0 e := by
  simp only [getCount, h, h0, popCount, find?_filter_ne _ _ _ hne]

end CreatedFiles
end FB

namespace FB
namespace CreatedFiles

/-! ### paths -/

theorem properAnc_dropLast (p : Path) (h : p ≠ []) : properAnc p.dropLast p := by
  refine ⟨List.dropLast_prefix p, ?_⟩
  intro e
  have := congrArg List.length e
  simp [List.length_dropLast] at this
  have : p.length ≠ 0 := by simpa using h
  omega

theorem properAnc_length {d p : Path} (h : properAnc d p) : d.length < p.length := by
  obtain ⟨⟨t, ht⟩, hne⟩ := h
  subst ht
  cases t with
  | nil => simp at hne
  | cons x r => simp

theorem prefix_dropLast_of_properAnc {d p : Path} (h : properAnc d p) : d <+: p.dropLast := by
  obtain ⟨⟨t, ht⟩, hne⟩ := h
  subst ht
  cases ht' : t.reverse with
  | nil => simp at ht'; subst ht'; simp at hne
  | cons x r =>
    have : t = r.reverse ++ [x] := by
      have := congrArg List.reverse ht'; simpa using this
    subst this
    rw [← List.append_assoc, List.dropLast_concat]
    exact List.prefix_append _ _

theorem properAnc_trans_prefix {d e p : Path} (h1 : properAnc d e) (h2 : e <+: p) : properAnc d p :=
  ⟨h1.1.trans h2, fun h => by
    have := properAnc_length h1
    have h3 := h2.length_le
    rw [h] at this; omega⟩

theorem properAnc_cases {d p : Path} (h : properAnc d p) : d = p.dropLast ∨ properAnc d p.dropLast := by
  have h1 := prefix_dropLast_of_properAnc h
  by_cases he : d = p.dropLast
  · exact Or.inl he
  · exact Or.inr ⟨h1, he⟩

theorem isChildOf_iff (d x : Path) : isChildOf d x = true ↔ x ≠ [] ∧ x.dropLast = d := by
  simp [isChildOf]

/-! ### the invariant -/

/-- the data-structure invariant of `CreatedFiles`, for the list `L` of live files (started, not failed) -/
structure Inv (c : CF) (L : List Path) : Prop where
  nodupL : L.Nodup
  nodupD : c.dirs.Nodup
  /-- `_norm_cased_dirs` = the proper ancestors of the live files -/
  dirs : ∀ d, d ∈ c.dirs ↔ ∃ q ∈ L, properAnc d q
  /-- the started count of every directory -/
  count : ∀ d, getCount c d = formula L c.dirs d
  /-- exactly the created directories have a (positive) count -/
  pos : ∀ d, 0 < getCount c d ↔ d ∈ c.dirs

theorem inv_empty : Inv {} [] :=
  ⟨List.nodup_nil, List.nodup_nil, fun d => by simp, fun d => by simp [getCount, formula], fun d => by simp [getCount]⟩

/-- the state in the middle of the loop of `started_building_file(p)`, about to process `parent` -/
structure PreS (c : CF) (L : List Path) (p parent : Path) : Prop where
  nodupL : (p :: L).Nodup
  nodupD : c.dirs.Nodup
  anc : parent <+: p ∧ parent ≠ p
  dirs : ∀ d, d ∈ c.dirs ↔ (∃ q ∈ L, properAnc d q) ∨ (properAnc d p ∧ parent.length < d.length)
  count : ∀ d, d ≠ parent → getCount c d = formula (p :: L) c.dirs d
  countP : getCount c parent + 1 = formula (p :: L) c.dirs parent
  pos : ∀ d, 0 < getCount c d ↔ d ∈ c.dirs

theorem countP_cons_dirs (d x : Path) (ds : List Path) :
    (x :: ds).countP (isChildOf d) = ds.countP (isChildOf d) + (if isChildOf d x then 1 else 0) := by
  simp [List.countP_cons]

end CreatedFiles
end FB

namespace FB
namespace CreatedFiles

theorem addToSub_fields (c : CF) (p : Path) :
    (addToSub c p).dirs = c.dirs ∧ (addToSub c p).count = c.count ∧ (addToSub c p).files = c.files := by
  unfold addToSub
  split
  · exact ⟨rfl, rfl, rfl⟩
  · simp only
    split <;> exact ⟨rfl, rfl, rfl⟩

theorem getCount_congr (c c' : CF) (h : c'.count = c.count) (d : Path) : getCount c' d = getCount c d := by
  simp [getCount, h]

/-- the loop of `started_building_file` re-establishes the invariant for the enlarged set of live files -/
theorem startedLoop_spec (L : List Path) (p : Path) : ∀ (n : Nat) (parent : Path) (c : CF), parent.length = n →
    PreS c L p parent → Inv (startedLoop c parent) (p :: L) := by
  intro n
  induction n with
  | zero =>
    intro parent c hl h
    have hp : parent = [] := List.length_eq_zero_iff.mp hl
    subst hp
    rw [startedLoop]
    by_cases hn : getCount c [] > 0
    · -- the root is already a created directory
      simp only [hn, if_true]
      have hmem : ([] : Path) ∈ c.dirs := (h.pos []).mp hn
      constructor
      · exact h.nodupL
      · exact h.nodupD
      · intro d
        rw [h.dirs d]
        constructor
        · rintro (⟨q, hq, ha⟩ | ⟨ha, _⟩)
          · exact ⟨q, List.mem_cons_of_mem _ hq, ha⟩
          · exact ⟨p, List.mem_cons_self .., ha⟩
        · rintro ⟨q, hq, ha⟩
          rcases List.mem_cons.mp hq with rfl | hq
          · by_cases hd : d = []
            · subst hd
              rcases (h.dirs []).mp hmem with h' | ⟨_, h'⟩
              · exact Or.inl h'
              · simp at h'
            · right; exact ⟨ha, by simpa [List.length_pos_iff] using hd⟩
          · exact Or.inl ⟨q, hq, ha⟩
      · intro d
        by_cases hd : d = []
        · subst hd
          rw [getCount_set_self c.count [] _ _ rfl]
          exact h.countP
        · rw [getCount_set_ne c.count [] d _ _ c rfl rfl hd]
          exact h.count d hd
      · intro d
        by_cases hd : d = []
        · subst hd
          rw [getCount_set_self c.count [] _ _ rfl]
          simp [hmem]
        · rw [getCount_set_ne c.count [] d _ _ c rfl rfl hd]
          exact h.pos d
    · -- the root becomes a created directory
      simp only [hn, if_false, dite_true]
      have hn0 : getCount c [] = 0 := by omega
      have hnm : ([] : Path) ∉ c.dirs := fun hm => hn ((h.pos []).mpr hm)
      have hcont : c.dirs.contains ([] : Path) = false := by simpa using hnm
      simp only [hcont, Bool.false_eq_true, if_false]
      obtain ⟨hd', hc', _⟩ := addToSub_fields
        { c with count := setCount c.count [] (getCount c [] + 1), dirs := [] :: c.dirs } []
      have hform : ∀ d, formula (p :: L) ([] :: c.dirs) d = formula (p :: L) c.dirs d := by
        intro d; simp [formula, List.countP_cons, isChildOf]
      constructor
      · exact h.nodupL
      · rw [hd']; exact List.nodup_cons.mpr ⟨hnm, h.nodupD⟩
      · intro d
        rw [hd', List.mem_cons, h.dirs d]
        constructor
        · rintro (rfl | ⟨q, hq, ha⟩ | ⟨ha, _⟩)
          · exact ⟨p, List.mem_cons_self .., h.anc⟩
          · exact ⟨q, List.mem_cons_of_mem _ hq, ha⟩
          · exact ⟨p, List.mem_cons_self .., ha⟩
        · rintro ⟨q, hq, ha⟩
          rcases List.mem_cons.mp hq with rfl | hq
          · by_cases hd : d = []
            · exact Or.inl hd
            · right; right; exact ⟨ha, by simpa [List.length_pos_iff] using hd⟩
          · exact Or.inr (Or.inl ⟨q, hq, ha⟩)
      · intro d
        rw [getCount_congr _ _ hc', hd', hform]
        by_cases hd : d = []
        · subst hd
          rw [getCount_set_self c.count [] _ _ rfl]
          exact h.countP
        · rw [getCount_set_ne c.count [] d _ _ c rfl rfl hd]
          exact h.count d hd
      · intro d
        rw [getCount_congr _ _ hc', hd', List.mem_cons]
        by_cases hd : d = []
        · subst hd
          rw [getCount_set_self c.count [] _ _ rfl]
          simp
        · rw [getCount_set_ne c.count [] d _ _ c rfl rfl hd, h.pos d]
          simp [hd]
  | succ n ih =>
    intro parent c hl h
    have hpne : parent ≠ [] := by intro e; subst e; simp at hl
    rw [startedLoop]
    by_cases hn : getCount c parent > 0
    · simp only [hn, if_true]
      have hmem : parent ∈ c.dirs := (h.pos parent).mp hn
      have hlive : ∃ q ∈ L, properAnc parent q := by
        rcases (h.dirs parent).mp hmem with h' | ⟨_, h'⟩
        · exact h'
        · omega
      constructor
      · exact h.nodupL
      · exact h.nodupD
      · intro d
        rw [h.dirs d]
        constructor
        · rintro (⟨q, hq, ha⟩ | ⟨ha, _⟩)
          · exact ⟨q, List.mem_cons_of_mem _ hq, ha⟩
          · exact ⟨p, List.mem_cons_self .., ha⟩
        · rintro ⟨q, hq, ha⟩
          rcases List.mem_cons.mp hq with rfl | hq
          · by_cases hlen : parent.length < d.length
            · exact Or.inr ⟨ha, hlen⟩
            · -- `d` is `parent` or one of its ancestors: it has a live descendant already
              left
              obtain ⟨q', hq', ha'⟩ := hlive
              have hdp : d <+: parent := by
                have := List.prefix_of_prefix_length_le ha.1 h.anc.1 (by omega)
                exact this
              exact ⟨q', hq', ⟨hdp.trans ha'.1, fun e => by
                have := properAnc_length ha'
                have h3 := hdp.length_le
                rw [e] at h3; omega⟩⟩
          · exact Or.inl ⟨q, hq, ha⟩
      · intro d
        by_cases hd : d = parent
        · subst hd
          rw [getCount_set_self c.count d _ _ rfl]
          exact h.countP
        · rw [getCount_set_ne c.count parent d _ _ c rfl rfl hd]
          exact h.count d hd
      · intro d
        by_cases hd : d = parent
        · subst hd
          rw [getCount_set_self c.count d _ _ rfl]
          simp [hmem]
        · rw [getCount_set_ne c.count parent d _ _ c rfl rfl hd]
          exact h.pos d
    · simp only [hn, if_false, hpne, dite_false]
      have hn0 : getCount c parent = 0 := by omega
      have hnm : parent ∉ c.dirs := fun hm => hn ((h.pos parent).mpr hm)
      have hcont : c.dirs.contains parent = false := by simpa using hnm
      simp only [hcont, Bool.false_eq_true, if_false]
      obtain ⟨hd', hc', _⟩ := addToSub_fields
        { c with count := setCount c.count parent (getCount c parent + 1), dirs := parent :: c.dirs } parent
      apply ih parent.dropLast _ (by simp [List.length_dropLast, hl])
      have hchild : isChildOf parent.dropLast parent = true := by simp [isChildOf, hpne]
      have hform : ∀ d, formula (p :: L) (parent :: c.dirs) d =
          formula (p :: L) c.dirs d + (if d = parent.dropLast then 1 else 0) := by
        intro d
        simp only [formula, List.countP_cons (l := c.dirs)]
        by_cases hd : d = parent.dropLast
        · subst hd; simp [hchild]; omega
        · have : isChildOf d parent = false := by
            simp only [isChildOf, decide_eq_false_iff_not, not_and]
            intro _ e; exact hd e.symm
          simp [this, hd]
      have hne' : parent.dropLast ≠ parent := (properAnc_dropLast parent hpne).2
      constructor
      · exact h.nodupL
      · rw [hd']; exact List.nodup_cons.mpr ⟨hnm, h.nodupD⟩
      · exact ⟨(List.dropLast_prefix parent).trans h.anc.1, fun e => by
          have := properAnc_length (⟨h.anc.1, h.anc.2⟩ : properAnc parent p)
          have h2 : parent.dropLast.length = p.length := by rw [e]
          simp [List.length_dropLast] at h2; omega⟩
      · intro d
        rw [hd', List.mem_cons, h.dirs d]
        simp only [List.length_dropLast]
        constructor
        · rintro (rfl | h' | ⟨ha, hlen⟩)
          · exact Or.inr ⟨⟨h.anc.1, h.anc.2⟩, by omega⟩
          · exact Or.inl h'
          · exact Or.inr ⟨ha, by omega⟩
        · rintro (h' | ⟨ha, hlen⟩)
          · exact Or.inr (Or.inl h')
          · by_cases hlen' : parent.length < d.length
            · exact Or.inr (Or.inr ⟨ha, hlen'⟩)
            · left
              have hdl : d.length = parent.length := by omega
              have := List.prefix_of_prefix_length_le ha.1 h.anc.1 (by omega)
              exact this.eq_of_length hdl
      · intro d hd
        rw [getCount_congr _ _ hc', hd', hform, if_neg hd]
        by_cases hdp : d = parent
        · subst hdp
          rw [getCount_set_self c.count d _ _ rfl]
          exact h.countP
        · rw [getCount_set_ne c.count parent d _ _ c rfl rfl hdp]
          exact h.count d hdp
      · rw [getCount_congr _ _ hc', hd', hform, if_pos rfl,
          getCount_set_ne c.count parent _ _ _ c rfl rfl hne', h.count _ hne']
      · intro d
        rw [getCount_congr _ _ hc', hd', List.mem_cons]
        by_cases hdp : d = parent
        · subst hdp
          rw [getCount_set_self c.count d _ _ rfl]
          simp
        · rw [getCount_set_ne c.count parent d _ _ c rfl rfl hdp, h.pos d]
          simp [hdp]

end CreatedFiles
end FB

namespace FB
namespace CreatedFiles

/-! ### `_norm_cased_dir_to_subfiles` -/

/-- `_norm_cased_dir_to_subfiles[d]` lists exactly the created children of `d` -/
def SubInv (c : CF) : Prop := ∀ d n, n ∈ getSub c d ↔ (d ++ [n] ∈ c.files ∨ d ++ [n] ∈ c.dirs)

theorem getSub_setSub_self (sf : List (Path × List String)) (d : Path) (ns : List String) (c : CF)
    (h : c.subfiles = setSub sf d ns) : getSub c d = ns := by
  by_cases hns : ns = []
  · subst hns
    simp only [getSub, h, setSub, if_true, find?_filter_self]
  · simp [getSub, h, setSub, hns]

theorem getSub_setSub_ne (sf : List (Path × List String)) (d e : Path) (ns : List String) (c c0 : CF)
    (h : c.subfiles = setSub sf d ns) (h0 : c0.subfiles = sf) (hne : e ≠ d) : getSub c e = getSub c0 e := by
  have hne' : ¬ d = e := fun hh => hne hh.symm
  by_cases hns : ns = []
  · simp only [getSub, h, h0, setSub, hns, if_true, find?_filter_ne _ _ _ hne]
  · simp only [getSub, h, h0, setSub, hns, if_false]
    rw [List.find?_cons_of_neg (by simpa using hne'), find?_filter_ne _ _ _ hne]

theorem snoc_dropLast_getLast {p : Path} {base : String} (h : p.getLast? = some base) : p = p.dropLast ++ [base] := by
  have hne : p ≠ [] := by intro e; subst e; simp at h
  have := List.dropLast_append_getLast hne
  rw [List.getLast?_eq_some_getLast hne] at h
  injection h with h
  rw [← h]; exact this.symm

theorem snoc_inj {d e : Path} {n m : String} (h : d ++ [n] = e ++ [m]) : d = e ∧ n = m := by
  have := List.append_inj' h rfl
  exact ⟨this.1, by simpa using this.2⟩

/-- adding `p` (to the files or to the directories) together with `_add_to_subfiles(p)` keeps `SubInv` -/
theorem subInv_add (c c1 : CF) (p : Path) (h : SubInv c)
    (hf : ∀ x, (x ∈ c1.files ∨ x ∈ c1.dirs) ↔ (x ∈ c.files ∨ x ∈ c.dirs) ∨ x = p)
    (hs : c1.subfiles = c.subfiles) : SubInv (addToSub c1 p) := by
  obtain ⟨hd, _, hfl⟩ := addToSub_fields c1 p
  intro d n
  rw [hd, hfl, hf]
  unfold addToSub
  cases hg : p.getLast? with
  | none =>
    have hp : p = [] := by
      cases p with
      | nil => rfl
      | cons a r => simp at hg
    subst hp
    simp only
    have : getSub c1 d = getSub c d := by simp [getSub, hs]
    rw [this, h d n]
    simp
  | some base =>
    have hsn := snoc_dropLast_getLast hg
    simp only
    have hgs : ∀ e, getSub c1 e = getSub c e := fun e => by simp [getSub, hs]
    split
    · rename_i hc
      have hb : base ∈ getSub c p.dropLast := by simpa [hgs] using hc
      rw [hgs, h d n]
      constructor
      · exact Or.inl
      · rintro (h' | h')
        · exact h'
        · rw [hsn] at h'
          obtain ⟨rfl, rfl⟩ := snoc_inj h'
          exact (h _ _).mp hb
    · by_cases hd' : d = p.dropLast
      · subst hd'
        rw [getSub_setSub_self c1.subfiles _ _ _ rfl, List.mem_append, List.mem_singleton, hgs, h _ n]
        constructor
        · rintro (h' | rfl)
          · exact Or.inl h'
          · exact Or.inr hsn.symm
        · rintro (h' | h')
          · exact Or.inl h'
          · rw [hsn] at h'; exact Or.inr (snoc_inj h').2
      · rw [getSub_setSub_ne c1.subfiles _ d _ _ c1 rfl rfl hd', hgs, h d n]
        constructor
        · exact Or.inl
        · rintro (h' | h')
          · exact h'
          · rw [hsn] at h'; exact absurd (snoc_inj h').1 hd'

theorem startedLoop_subInv : ∀ (n : Nat) (parent : Path) (c : CF), parent.length = n → SubInv c →
    SubInv (startedLoop c parent) := by
  intro n
  induction n with
  | zero =>
    intro parent c hl h
    have hp : parent = [] := List.length_eq_zero_iff.mp hl
    subst hp
    rw [startedLoop]
    split
    · exact h
    · simp only [dite_true]
      apply subInv_add c { c with count := setCount c.count [] (getCount c [] + 1),
                                   dirs := if c.dirs.contains [] then c.dirs else [] :: c.dirs } [] h _ rfl
      intro x
      by_cases hc : c.dirs.contains ([] : Path) = true
      · have : ([] : Path) ∈ c.dirs := by simpa using hc
        simp only [hc, if_true]
        constructor
        · exact Or.inl
        · rintro (h' | rfl)
          · exact h'
          · exact Or.inr this
      · simp only [hc, Bool.false_eq_true, if_false, List.mem_cons]
        tauto
  | succ n ih =>
    intro parent c hl h
    have hpne : parent ≠ [] := by intro e; subst e; simp at hl
    rw [startedLoop]
    split
    · exact h
    · simp only [hpne, dite_false]
      apply ih _ _ (by simp [List.length_dropLast, hl])
      apply subInv_add c { c with count := setCount c.count parent (getCount c parent + 1),
                                   dirs := if c.dirs.contains parent then c.dirs else parent :: c.dirs } parent h _ rfl
      intro x
      by_cases hc : c.dirs.contains parent = true
      · have : parent ∈ c.dirs := by simpa using hc
        simp only [hc, if_true]
        constructor
        · exact Or.inl
        · rintro (h' | rfl)
          · exact h'
          · exact Or.inr this
      · simp only [hc, Bool.false_eq_true, if_false, List.mem_cons]
        tauto

end CreatedFiles
end FB

namespace FB
namespace CreatedFiles

theorem countP_erase_nodup (f : Path → Bool) (l : List Path) (x : Path) (hn : l.Nodup) (hx : x ∈ l) :
    (l.erase x).countP f + (if f x then 1 else 0) = l.countP f := by
  induction l with
  | nil => cases hx
  | cons a r ih =>
    have hn' := List.nodup_cons.mp hn
    by_cases ha : a = x
    · subst ha
      simp [List.countP_cons]
    · have hx' : x ∈ r := by
        rcases List.mem_cons.mp hx with h | h
        · exact absurd h.symm ha
        · exact h
      rw [List.erase_cons_tail (by simpa using ha)]
      simp only [List.countP_cons]
      have := ih hn'.2 hx'
      omega

/-- the child of `d` on the way down to `q` -/
theorem child_towards {d q : Path} (h : properAnc d q) :
    ∃ x, isChildOf d x = true ∧ (x = q ∨ properAnc x q) := by
  obtain ⟨⟨t, ht⟩, hne⟩ := h
  subst ht
  cases t with
  | nil => simp at hne
  | cons a r =>
    refine ⟨d ++ [a], by simp [isChildOf], ?_⟩
    by_cases hr : r = []
    · subst hr; exact Or.inl rfl
    · right
      refine ⟨⟨r, by simp⟩, ?_⟩
      intro e
      have := congrArg List.length e
      simp at this
      exact hr this

theorem isChildOf_properAnc {d x : Path} (h : isChildOf d x = true) : properAnc d x := by
  rw [isChildOf_iff] at h
  rw [← h.2]; exact properAnc_dropLast x h.1

theorem getCount_eq_of_find (c : CF) (d : Path) (h : 0 < getCount c d) :
    ∃ k, c.count.find? (fun x => x.1 = d) = some (k, getCount c d) := by
  unfold getCount at h ⊢
  cases hf : c.count.find? (fun x => x.1 = d) with
  | none => simp [hf] at h
  | some x => exact ⟨x.1, by simp⟩

/-- the data-structure invariant together with what the library guarantees about its use -/
structure Full (c : CF) (L : List Path) : Prop where
  inv : Inv c L
  sub : SubInv c
  subNodup : ∀ d, (getSub c d).Nodup
  filesLive : ∀ x ∈ c.files, x ∈ L
  antichain : ∀ x ∈ L, ∀ y ∈ L, ¬ properAnc x y

theorem Full.disj {c : CF} {L : List Path} (h : Full c L) : ∀ x ∈ c.files, x ∉ c.dirs := by
  intro x hx hd
  obtain ⟨q, hq, ha⟩ := (h.inv.dirs x).mp hd
  exact h.antichain x (h.filesLive x hx) q hq ha

/-- the state in the middle of the loop of `error_building_file(p)`, about to process `parent` -/
structure PreE (c : CF) (L' : List Path) (p parent : Path) : Prop where
  nodupL : L'.Nodup
  nodupD : c.dirs.Nodup
  anc : parent <+: p ∧ parent ≠ p
  dirs : ∀ d, d ∈ c.dirs ↔ (∃ q ∈ L', properAnc d q) ∨ (properAnc d p ∧ d.length ≤ parent.length)
  count : ∀ d, d ≠ parent → getCount c d = formula L' c.dirs d
  countP : getCount c parent = formula L' c.dirs parent + 1
  pos : ∀ d, 0 < getCount c d ↔ d ∈ c.dirs
  sub : SubInv c
  subNodup : ∀ d, (getSub c d).Nodup
  disj : ∀ x ∈ c.files, x ∉ c.dirs

theorem removeFromSub_spec (c c1 : CF) (p : Path) (hs : SubInv c) (hnd : ∀ d, (getSub c d).Nodup)
    (hp : p ∈ c.dirs) (hpf : p ∉ c.files) (hdn : c.dirs.Nodup)
    (h1 : c1.files = c.files ∧ c1.dirs = c.dirs.erase p ∧ c1.subfiles = c.subfiles) :
    ∃ c2, removeFromSub c1 p = some c2 ∧ SubInv c2 ∧ (∀ d, (getSub c2 d).Nodup) ∧ c2.files = c.files ∧
      c2.dirs = c.dirs.erase p ∧ c2.count = c1.count := by
  obtain ⟨hf1, hd1, hs1⟩ := h1
  have hgs : ∀ e, getSub c1 e = getSub c e := fun e => by simp [getSub, hs1]
  unfold removeFromSub
  cases hg : p.getLast? with
  | none =>
    have hp0 : p = [] := by
      cases p with
      | nil => rfl
      | cons a r => simp at hg
    subst hp0
    refine ⟨c1, rfl, ?_, fun d => by rw [hgs]; exact hnd d, hf1, hd1, rfl⟩
    intro d n
    rw [hgs, hs d n, hf1, hd1]
    have hne : d ++ [n] ≠ [] := by simp
    rw [List.mem_erase_of_ne hne]
  | some base =>
    have hsn := snoc_dropLast_getLast hg
    simp only
    have hb : base ∈ getSub c p.dropLast := (hs _ _).mpr (Or.inr (hsn ▸ hp))
    cases hfind : c1.subfiles.find? (fun x => x.1 = p.dropLast) with
    | none =>
      exfalso
      have : getSub c p.dropLast = [] := by
        unfold getSub; rw [← hs1, hfind]
      rw [this] at hb; cases hb
    | some x =>
      obtain ⟨k, ns⟩ := x
      have hns : ns = getSub c p.dropLast := by
        unfold getSub; rw [← hs1, hfind]
      simp only
      have hcb : ns.contains base = true := by simpa [hns] using hb
      simp only [hcb, if_true]
      refine ⟨_, rfl, ?_, ?_, hf1, hd1, rfl⟩
      · intro d n
        simp only
        rw [hf1, hd1]
        by_cases hd : d = p.dropLast
        · subst hd
          rw [getSub_setSub_self c1.subfiles _ _ _ rfl, hns]
          by_cases hn : n = base
          · subst hn
            have h1 : n ∉ (getSub c p.dropLast).erase n := by
              intro hm
              exact (List.Nodup.not_mem_erase (hnd _)) hm
            rw [← hsn]
            simp only [h1, false_iff, not_or]
            exact ⟨hpf, fun hm => (List.Nodup.not_mem_erase hdn) hm⟩
          · rw [List.mem_erase_of_ne hn, hs _ n]
            have hne : p.dropLast ++ [n] ≠ p := by
              intro e; rw [hsn] at e; exact hn (snoc_inj e).2
            rw [List.mem_erase_of_ne hne]
        · rw [getSub_setSub_ne c1.subfiles _ d _ _ c1 rfl rfl hd, hgs, hs d n]
          have hne : d ++ [n] ≠ p := by
            intro e; rw [hsn] at e; exact hd (snoc_inj e).1
          rw [List.mem_erase_of_ne hne]
      · intro d
        by_cases hd : d = p.dropLast
        · subst hd
          rw [getSub_setSub_self c1.subfiles _ _ _ rfl, hns]
          exact (hnd _).erase _
        · rw [getSub_setSub_ne c1.subfiles _ d _ _ c1 rfl rfl hd, hgs]
          exact hnd d

end CreatedFiles
end FB

namespace FB
namespace CreatedFiles

theorem prefix_same_length {a b p : Path} (ha : a <+: p) (hb : b <+: p) (hl : a.length = b.length) : a = b :=
  (List.prefix_of_prefix_length_le ha hb (by omega)).eq_of_length hl

/-- no live file below `parent` once its count has dropped to zero -/
theorem no_live_below (c : CF) (L' : List Path) (p parent : Path) (h : PreE c L' p parent)
    (hz : formula L' c.dirs parent = 0) : ¬ ∃ q ∈ L', properAnc parent q := by
  rintro ⟨q, hq, ha⟩
  obtain ⟨x, hx, hxq⟩ := child_towards ha
  have h0 : L'.countP (isChildOf parent) = 0 ∧ c.dirs.countP (isChildOf parent) = 0 := by
    unfold formula at hz; omega
  rcases hxq with rfl | hxq
  · exact (List.countP_eq_zero.mp h0.1) x hq hx
  · have : x ∈ c.dirs := (h.dirs x).mpr (Or.inl ⟨q, hq, hxq⟩)
    exact (List.countP_eq_zero.mp h0.2) x this hx

/-- the loop of `error_building_file` never raises `KeyError` and re-establishes the invariant -/
theorem errorLoop_spec (L' : List Path) (p : Path) : ∀ (n : Nat) (parent : Path) (c : CF), parent.length = n →
    PreE c L' p parent →
    ∃ c', errorLoop c parent = some c' ∧ Inv c' L' ∧ SubInv c' ∧ (∀ d, (getSub c' d).Nodup) ∧ c'.files = c.files := by
  intro n
  induction n with
  | zero =>
    intro parent c hl h
    have hp : parent = [] := List.length_eq_zero_iff.mp hl
    subst hp
    have hmem : ([] : Path) ∈ c.dirs := (h.dirs []).mpr (Or.inr ⟨⟨h.anc.1, h.anc.2⟩, by simp⟩)
    obtain ⟨k, hfind⟩ := getCount_eq_of_find c [] ((h.pos []).mpr hmem)
    have hpos : 0 < getCount c [] := (h.pos []).mpr hmem
    rw [errorLoop, hfind]
    simp only
    by_cases hgt : getCount c [] - 1 > 0
    · simp only [hgt, if_true]
      refine ⟨_, rfl, ?_, h.sub, h.subNodup, rfl⟩
      have hlive : ∃ q ∈ L', properAnc [] q := by
        by_contra hno
        have hp' : 0 < formula L' c.dirs [] := by have := h.countP; omega
        unfold formula at hp'
        by_cases h1 : 0 < L'.countP (isChildOf [])
        · obtain ⟨x, hx, hc⟩ := List.countP_pos_iff.mp h1
          exact hno ⟨x, hx, isChildOf_properAnc hc⟩
        · have h2 : 0 < c.dirs.countP (isChildOf []) := by omega
          obtain ⟨e, he, hc⟩ := List.countP_pos_iff.mp h2
          rcases (h.dirs e).mp he with ⟨q, hq, ha⟩ | ⟨_, hlen⟩
          · exact hno ⟨q, hq, properAnc_trans_prefix (isChildOf_properAnc hc) ha.1⟩
          · have h3 := properAnc_length (isChildOf_properAnc hc)
            have h4 : e.length ≤ 0 := hlen
            omega
      constructor
      · exact h.nodupL
      · exact h.nodupD
      · intro d
        rw [h.dirs d]
        constructor
        · rintro (h' | ⟨_, hlen⟩)
          · exact h'
          · have : d = [] := List.length_eq_zero_iff.mp (by simpa using hlen)
            subst this; exact hlive
        · exact Or.inl
      · intro d
        by_cases hd : d = []
        · subst hd
          rw [getCount_set_self c.count [] _ _ rfl]
          show _ = formula L' c.dirs []
          have := h.countP; omega
        · rw [getCount_set_ne c.count [] d _ _ c rfl rfl hd]
          exact h.count d hd
      · intro d
        by_cases hd : d = []
        · subst hd
          rw [getCount_set_self c.count [] _ _ rfl]
          simp [hmem, hgt]
        · rw [getCount_set_ne c.count [] d _ _ c rfl rfl hd]
          exact h.pos d
    · simp only [hgt, if_false]
      have hcont : c.dirs.contains ([] : Path) = true := by simpa using hmem
      simp only [hcont, Bool.not_true, Bool.false_eq_true, if_false]
      have hz : formula L' c.dirs [] = 0 := by have := h.countP; omega
      obtain ⟨c2, hrem, hsub2, hnd2, hf2, hd2, hc2⟩ := removeFromSub_spec c
        { c with count := popCount c.count [], dirs := c.dirs.erase [] } [] h.sub h.subNodup hmem
        (fun hf => h.disj [] hf hmem) h.nodupD ⟨rfl, rfl, rfl⟩
      rw [hrem]
      simp only [dite_true]
      refine ⟨c2, rfl, ?_, hsub2, hnd2, hf2⟩
      have hnolive := no_live_below c L' p [] h hz
      constructor
      · exact h.nodupL
      · rw [hd2]; exact h.nodupD.erase _
      · intro d
        rw [hd2]
        constructor
        · intro hm
          have hne : d ≠ [] := fun e => by subst e; exact (List.Nodup.not_mem_erase h.nodupD) hm
          rcases (h.dirs d).mp (List.mem_of_mem_erase hm) with h' | ⟨_, hlen⟩
          · exact h'
          · exact absurd (List.length_eq_zero_iff.mp (by simpa using hlen)) hne
        · rintro ⟨q, hq, ha⟩
          have hne : d ≠ [] := fun e => by subst e; exact hnolive ⟨q, hq, ha⟩
          rw [List.mem_erase_of_ne hne]
          exact (h.dirs d).mpr (Or.inl ⟨q, hq, ha⟩)
      · intro d
        have hform : formula L' (c.dirs.erase []) d = formula L' c.dirs d := by
          unfold formula
          have := countP_erase_nodup (isChildOf d) c.dirs [] h.nodupD hmem
          simp [isChildOf] at this
          omega
        rw [getCount_congr _ _ hc2, hd2, hform]
        by_cases hd : d = []
        · subst hd
          rw [getCount_pop_self c.count [] _ rfl, hz]
        · rw [getCount_pop_ne c.count [] d _ c rfl rfl hd]
          exact h.count d hd
      · intro d
        rw [getCount_congr _ _ hc2, hd2]
        by_cases hd : d = []
        · subst hd
          rw [getCount_pop_self c.count [] _ rfl]
          simp [List.Nodup.not_mem_erase h.nodupD]
        · rw [getCount_pop_ne c.count [] d _ c rfl rfl hd, h.pos d, List.mem_erase_of_ne hd]
  | succ n ih =>
    intro parent c hl h
    have hpne : parent ≠ [] := by intro e; subst e; simp at hl
    have hpa : properAnc parent p := ⟨h.anc.1, h.anc.2⟩
    have hmem : parent ∈ c.dirs := (h.dirs parent).mpr (Or.inr ⟨hpa, Nat.le_refl _⟩)
    obtain ⟨k, hfind⟩ := getCount_eq_of_find c parent ((h.pos parent).mpr hmem)
    have hpos : 0 < getCount c parent := (h.pos parent).mpr hmem
    rw [errorLoop, hfind]
    simp only
    by_cases hgt : getCount c parent - 1 > 0
    · simp only [hgt, if_true]
      refine ⟨_, rfl, ?_, h.sub, h.subNodup, rfl⟩
      have hlive : ∃ q ∈ L', properAnc parent q := by
        by_contra hno
        have hp' : 0 < formula L' c.dirs parent := by have := h.countP; omega
        unfold formula at hp'
        by_cases h1 : 0 < L'.countP (isChildOf parent)
        · obtain ⟨x, hx, hc⟩ := List.countP_pos_iff.mp h1
          exact hno ⟨x, hx, isChildOf_properAnc hc⟩
        · have h2 : 0 < c.dirs.countP (isChildOf parent) := by omega
          obtain ⟨e, he, hc⟩ := List.countP_pos_iff.mp h2
          rcases (h.dirs e).mp he with ⟨q, hq, ha⟩ | ⟨_, hlen⟩
          · exact hno ⟨q, hq, properAnc_trans_prefix (isChildOf_properAnc hc) ha.1⟩
          · have := properAnc_length (isChildOf_properAnc hc); omega
      constructor
      · exact h.nodupL
      · exact h.nodupD
      · intro d
        rw [h.dirs d]
        constructor
        · rintro (h' | ⟨ha, hlen⟩)
          · exact h'
          · obtain ⟨q, hq, haq⟩ := hlive
            have hdp : d <+: parent := List.prefix_of_prefix_length_le ha.1 h.anc.1 hlen
            exact ⟨q, hq, ⟨hdp.trans haq.1, fun e => by
              have := properAnc_length haq
              have h3 := hdp.length_le
              rw [e] at h3; omega⟩⟩
        · exact Or.inl
      · intro d
        by_cases hd : d = parent
        · subst hd
          rw [getCount_set_self c.count d _ _ rfl]
          show _ = formula L' c.dirs d
          have := h.countP; omega
        · rw [getCount_set_ne c.count parent d _ _ c rfl rfl hd]
          exact h.count d hd
      · intro d
        by_cases hd : d = parent
        · subst hd
          rw [getCount_set_self c.count d _ _ rfl]
          simp [hmem, hgt]
        · rw [getCount_set_ne c.count parent d _ _ c rfl rfl hd]
          exact h.pos d
    · simp only [hgt, if_false]
      have hcont : c.dirs.contains parent = true := by simpa using hmem
      simp only [hcont, Bool.not_true, Bool.false_eq_true, if_false]
      have hz : formula L' c.dirs parent = 0 := by have := h.countP; omega
      obtain ⟨c2, hrem, hsub2, hnd2, hf2, hd2, hc2⟩ := removeFromSub_spec c
        { c with count := popCount c.count parent, dirs := c.dirs.erase parent } parent h.sub h.subNodup hmem
        (fun hf => h.disj parent hf hmem) h.nodupD ⟨rfl, rfl, rfl⟩
      rw [hrem]
      simp only [hpne, dite_false]
      have hnolive := no_live_below c L' p parent h hz
      have hne' : parent.dropLast ≠ parent := (properAnc_dropLast parent hpne).2
      have hchild : isChildOf parent.dropLast parent = true := by simp [isChildOf, hpne]
      have hform : ∀ d, formula L' (c.dirs.erase parent) d + (if d = parent.dropLast then 1 else 0) = formula L' c.dirs d := by
        intro d
        unfold formula
        have := countP_erase_nodup (isChildOf d) c.dirs parent h.nodupD hmem
        by_cases hd : d = parent.dropLast
        · subst hd; simp [hchild] at this ⊢; omega
        · have hc : isChildOf d parent = false := by
            simp only [isChildOf, decide_eq_false_iff_not, not_and]
            intro _ e; exact hd e.symm
          simp [hc, hd] at this ⊢; omega
      obtain ⟨c', hc', hinv', hs', hn', hfl'⟩ := ih parent.dropLast c2 (by simp [List.length_dropLast, hl]) (by
        constructor
        · exact h.nodupL
        · rw [hd2]; exact h.nodupD.erase _
        · exact ⟨(List.dropLast_prefix parent).trans h.anc.1, fun e => by
            have := properAnc_length hpa
            have h2 : parent.dropLast.length = p.length := by rw [e]
            simp [List.length_dropLast] at h2; omega⟩
        · intro d
          rw [hd2]
          simp only [List.length_dropLast]
          constructor
          · intro hm
            have hne : d ≠ parent := fun e => by subst e; exact (List.Nodup.not_mem_erase h.nodupD) hm
            rcases (h.dirs d).mp (List.mem_of_mem_erase hm) with h' | ⟨ha, hlen⟩
            · exact Or.inl h'
            · right
              refine ⟨ha, ?_⟩
              by_contra hlt
              exact hne (prefix_same_length ha.1 h.anc.1 (by omega))
          · rintro (⟨q, hq, ha⟩ | ⟨ha, hlen⟩)
            · have hne : d ≠ parent := fun e => by subst e; exact hnolive ⟨q, hq, ha⟩
              rw [List.mem_erase_of_ne hne]
              exact (h.dirs d).mpr (Or.inl ⟨q, hq, ha⟩)
            · have hne : d ≠ parent := fun e => by subst e; omega
              rw [List.mem_erase_of_ne hne]
              exact (h.dirs d).mpr (Or.inr ⟨ha, by omega⟩)
        · intro d hd
          rw [getCount_congr _ _ hc2, hd2]
          have := hform d
          rw [if_neg hd] at this
          by_cases hdp : d = parent
          · subst hdp
            rw [getCount_pop_self c.count d _ rfl]; omega
          · rw [getCount_pop_ne c.count parent d _ c rfl rfl hdp, h.count d hdp]; omega
        · rw [getCount_congr _ _ hc2, hd2, getCount_pop_ne c.count parent _ _ c rfl rfl hne', h.count _ hne']
          have := hform parent.dropLast
          rw [if_pos rfl] at this; omega
        · intro d
          rw [getCount_congr _ _ hc2, hd2]
          by_cases hdp : d = parent
          · subst hdp
            rw [getCount_pop_self c.count d _ rfl]
            simp [List.Nodup.not_mem_erase h.nodupD]
          · rw [getCount_pop_ne c.count parent d _ c rfl rfl hdp, h.pos d, List.mem_erase_of_ne hdp]
        · exact hsub2
        · exact hnd2
        · intro x hx
          rw [hf2] at hx
          rw [hd2]
          exact fun hm => h.disj x hx (List.mem_of_mem_erase hm))
      exact ⟨c', hc', hinv', hs', hn', by rw [hfl', hf2]⟩

end CreatedFiles
end FB

namespace FB
namespace CreatedFiles

theorem Inv.congr {c c' : CF} {L : List Path} (h : Inv c L) (hd : c'.dirs = c.dirs) (hc : c'.count = c.count) :
    Inv c' L := by
  have hg : ∀ d, getCount c' d = getCount c d := getCount_congr c c' hc
  exact ⟨h.nodupL, hd ▸ h.nodupD, fun d => by rw [hd]; exact h.dirs d, fun d => by rw [hg, hd]; exact h.count d,
    fun d => by rw [hg, hd]; exact h.pos d⟩

theorem addToSub_nodup (c : CF) (p : Path) (h : ∀ d, (getSub c d).Nodup) : ∀ d, (getSub (addToSub c p) d).Nodup := by
  intro d
  unfold addToSub
  cases hg : p.getLast? with
  | none => exact h d
  | some base =>
    simp only
    split
    · exact h d
    · rename_i hc
      by_cases hd : d = p.dropLast
      · subst hd
        rw [getSub_setSub_self c.subfiles _ _ _ rfl]
        have : base ∉ getSub c p.dropLast := by simpa using hc
        exact List.nodup_append.mpr ⟨h _, by simp, by
          intro a ha b hb
          simp only [List.mem_singleton] at hb
          subst hb
          exact fun e => this (e ▸ ha)⟩
      · rw [getSub_setSub_ne c.subfiles _ d _ _ c rfl rfl hd]
        exact h d

theorem getSub_congr (c c' : CF) (h : c'.subfiles = c.subfiles) (d : Path) : getSub c' d = getSub c d := by
  simp [getSub, h]

theorem startedLoop_aux : ∀ (n : Nat) (parent : Path) (c : CF), parent.length = n →
    (∀ d, (getSub c d).Nodup) →
    (∀ d, (getSub (startedLoop c parent) d).Nodup) ∧ (startedLoop c parent).files = c.files := by
  intro n
  induction n with
  | zero =>
    intro parent c hl h
    have hp : parent = [] := List.length_eq_zero_iff.mp hl
    subst hp
    rw [startedLoop]
    split
    · exact ⟨fun d => by simpa [getSub] using h d, rfl⟩
    · simp only [dite_true]
      exact ⟨addToSub_nodup _ _ (fun d => by simpa [getSub] using h d), (addToSub_fields _ _).2.2⟩
  | succ n ih =>
    intro parent c hl h
    have hpne : parent ≠ [] := by intro e; subst e; simp at hl
    rw [startedLoop]
    split
    · exact ⟨fun d => by simpa [getSub] using h d, rfl⟩
    · simp only [hpne, dite_false]
      have := ih parent.dropLast
        (addToSub { c with count := setCount c.count parent (getCount c parent + 1),
                           dirs := if c.dirs.contains parent then c.dirs else parent :: c.dirs } parent)
        (by simp [List.length_dropLast, hl])
        (addToSub_nodup _ parent (fun d => by simpa [getSub] using h d))
      exact ⟨this.1, this.2.trans (addToSub_fields _ _).2.2⟩

/-- **`started_building_file`** keeps the invariant, for the live set enlarged by the new file -/
theorem started_full (c : CF) (L : List Path) (p : Path) (h : Full c L) (hp : p ≠ []) (hnew : p ∉ L)
    (hanti : ∀ q ∈ L, ¬ properAnc p q ∧ ¬ properAnc q p) : Full (started c p) (p :: L) := by
  have hst : started c p = startedLoop c p.dropLast := by
    unfold started
    cases p with
    | nil => exact absurd rfl hp
    | cons a r => rfl
  rw [hst]
  have hpa := properAnc_dropLast p hp
  have hpre : PreS c L p p.dropLast := by
    constructor
    · exact List.nodup_cons.mpr ⟨hnew, h.inv.nodupL⟩
    · exact h.inv.nodupD
    · exact ⟨hpa.1, hpa.2⟩
    · intro d
      rw [h.inv.dirs d]
      constructor
      · exact Or.inl
      · rintro (h' | ⟨ha, hlen⟩)
        · exact h'
        · have := properAnc_length ha
          simp [List.length_dropLast] at hlen; omega
    · intro d hd
      rw [h.inv.count d]
      unfold formula
      have : isChildOf d p = false := by
        simp only [isChildOf, decide_eq_false_iff_not, not_and]
        intro _ e; exact hd e.symm
      simp [List.countP_cons, this]
    · rw [h.inv.count]
      unfold formula
      have : isChildOf p.dropLast p = true := by simp [isChildOf, hp]
      simp [List.countP_cons, this]; omega
    · exact h.inv.pos
  have haux := startedLoop_aux _ p.dropLast c rfl h.subNodup
  refine ⟨startedLoop_spec L p _ _ c rfl hpre, startedLoop_subInv _ _ c rfl h.sub, haux.1, ?_, ?_⟩
  · intro x hx
    rw [haux.2] at hx
    exact List.mem_cons_of_mem _ (h.filesLive x hx)
  · intro x hx y hy
    by_cases hxp : x = p
    · subst hxp
      by_cases hyp : y = x
      · subst hyp; exact fun ha => ha.2 rfl
      · exact (hanti y ((List.mem_cons.mp hy).resolve_left hyp)).1
    · have hx' : x ∈ L := (List.mem_cons.mp hx).resolve_left hxp
      by_cases hyp : y = p
      · subst hyp; exact (hanti x hx').2
      · exact h.antichain x hx' y ((List.mem_cons.mp hy).resolve_left hyp)

/-- **`finished_building_file`** of a live file keeps the invariant -/
theorem finished_full (c : CF) (L : List Path) (p : Path) (h : Full c L) (hp : p ∈ L) : Full (finished c p) L := by
  unfold finished
  obtain ⟨hd, hc, hf⟩ := addToSub_fields { c with files := if c.files.contains p then c.files else p :: c.files } p
  refine ⟨h.inv.congr hd hc, ?_, ?_, ?_, h.antichain⟩
  · apply subInv_add c { c with files := if c.files.contains p then c.files else p :: c.files } p h.sub _ rfl
    intro x
    by_cases hcp : c.files.contains p = true
    · have : p ∈ c.files := by simpa using hcp
      simp only [hcp, if_true]
      constructor
      · exact Or.inl
      · rintro (h' | rfl)
        · exact h'
        · exact Or.inl this
    · simp only [hcp, Bool.false_eq_true, if_false, List.mem_cons]
      tauto
  · exact addToSub_nodup _ p (fun d => by simpa [getSub] using h.subNodup d)
  · intro x hx
    rw [hf] at hx
    by_cases hcp : c.files.contains p = true
    · simp only [hcp, if_true] at hx; exact h.filesLive x hx
    · simp only [hcp, Bool.false_eq_true, if_false, List.mem_cons] at hx
      rcases hx with rfl | hx
      · exact hp
      · exact h.filesLive x hx

/-- **`error_building_file`** of a live, unfinished file never raises `KeyError` and keeps the invariant, for
    the live set without that file -/
theorem error_full (c : CF) (L : List Path) (p : Path) (h : Full c L) (hp : p ∈ L) (hne : p ≠ [])
    (hnf : p ∉ c.files) : ∃ c', error c p = some c' ∧ Full c' (L.erase p) ∧ c'.files = c.files := by
  have hst : error c p = errorLoop c p.dropLast := by
    unfold error
    cases p with
    | nil => exact absurd rfl hne
    | cons a r => rfl
  rw [hst]
  have hpa := properAnc_dropLast p hne
  have hpnot : p ∉ L.erase p := List.Nodup.not_mem_erase h.inv.nodupL
  have hpre : PreE c (L.erase p) p p.dropLast := by
    constructor
    · exact h.inv.nodupL.erase _
    · exact h.inv.nodupD
    · exact ⟨hpa.1, hpa.2⟩
    · intro d
      rw [h.inv.dirs d]
      constructor
      · rintro ⟨q, hq, ha⟩
        by_cases hqp : q = p
        · subst hqp
          right
          have := properAnc_length ha
          exact ⟨ha, by simp [List.length_dropLast]; omega⟩
        · exact Or.inl ⟨q, (List.mem_erase_of_ne hqp).mpr hq, ha⟩
      · rintro (⟨q, hq, ha⟩ | ⟨ha, _⟩)
        · exact ⟨q, List.mem_of_mem_erase hq, ha⟩
        · exact ⟨p, hp, ha⟩
    · intro d hd
      rw [h.inv.count d]
      unfold formula
      have := countP_erase_nodup (isChildOf d) L p h.inv.nodupL hp
      have hc : isChildOf d p = false := by
        simp only [isChildOf, decide_eq_false_iff_not, not_and]
        intro _ e; exact hd e.symm
      simp [hc] at this; omega
    · rw [h.inv.count]
      unfold formula
      have := countP_erase_nodup (isChildOf p.dropLast) L p h.inv.nodupL hp
      have hc : isChildOf p.dropLast p = true := by simp [isChildOf, hne]
      simp [hc] at this; omega
    · exact h.inv.pos
    · exact h.sub
    · exact h.subNodup
    · exact h.disj
  obtain ⟨c', hc', hinv', hs', hn', hf'⟩ := errorLoop_spec (L.erase p) p _ p.dropLast c rfl hpre
  refine ⟨c', hc', ⟨hinv', hs', hn', ?_, ?_⟩, hf'⟩
  · intro x hx
    rw [hf'] at hx
    have : x ≠ p := fun e => hnf (e ▸ hx)
    exact (List.mem_erase_of_ne this).mpr (h.filesLive x hx)
  · intro x hx y hy
    exact h.antichain x (List.mem_of_mem_erase hx) y (List.mem_of_mem_erase hy)

theorem finished_files (c : CF) (p : Path) : ∀ x, x ∈ (finished c p).files → x ∈ c.files ∨ x = p := by
  intro x hx
  unfold finished at hx
  rw [(addToSub_fields _ _).2.2] at hx
  by_cases hcp : c.files.contains p = true
  · simp only [hcp, if_true] at hx; exact Or.inl hx
  · simp only [hcp, Bool.false_eq_true, if_false, List.mem_cons] at hx
    rcases hx with rfl | hx
    · exact Or.inr rfl
    · exact Or.inl hx

theorem started_files (c : CF) (p : Path) (h : ∀ d, (getSub c d).Nodup) : (started c p).files = c.files := by
  unfold started
  cases p with
  | nil => rfl
  | cons a r => exact (startedLoop_aux _ _ c rfl h).2

/-- the documented use of `CreatedFiles` (`L`: live files, `F`: finished files): start a fresh file that is
    neither above nor below a live one; finish a live file; fail a live file that was not finished -/
inductive WF : List Path → List Path → List Cmd → List Path → Prop
  | nil (L F) : WF L F [] L
  | started (L F p rest L') : p ≠ [] → p ∉ L → (∀ q ∈ L, ¬ properAnc p q ∧ ¬ properAnc q p) →
      WF (p :: L) F rest L' → WF L F (.started p :: rest) L'
  | finished (L F p rest L') : p ∈ L → WF L (p :: F) rest L' → WF L F (.finished p :: rest) L'
  | error (L F p rest L') : p ∈ L → p ≠ [] → p ∉ F → WF (L.erase p) F rest L' → WF L F (.error p :: rest) L'

/-- **`created_files.py` is correct**: over every command sequence within the documented use it never raises
    (`run` never yields `none` = `KeyError`) and ends in a state satisfying the invariant — in particular
    `_norm_cased_dirs` is exactly the set of proper ancestors of the live files and every started count is the
    number of reserved children. -/
theorem run_full : ∀ (cmds : List Cmd) (c : CF) (L F L' : List Path), Full c L → (∀ x ∈ c.files, x ∈ F) →
    WF L F cmds L' → ∃ c', run c cmds = some c' ∧ Full c' L' := by
  intro cmds
  induction cmds with
  | nil =>
    intro c L F L' h _ hw
    cases hw
    exact ⟨c, rfl, h⟩
  | cons x rest ih =>
    intro c L F L' h hF hw
    cases hw with
    | started _ _ p _ _ hp hnew hanti hrest =>
      simp only [run, step]
      exact ih _ _ _ _ (started_full c L p h hp hnew hanti)
        (fun x hx => hF x (by rw [started_files c p h.subNodup] at hx; exact hx)) hrest
    | finished _ _ p _ _ hp hrest =>
      simp only [run, step]
      exact ih _ _ _ _ (finished_full c L p h hp)
        (fun x hx => by
          rcases finished_files c p x hx with h' | rfl
          · exact List.mem_cons_of_mem _ (hF x h')
          · exact List.mem_cons_self ..) hrest
    | error _ _ p _ _ hp hne hnF hrest =>
      obtain ⟨c', hc', hfull', hfiles⟩ := error_full c L p h hp hne (fun hf => hnF (hF p hf))
      simp only [run, step, hc']
      exact ih _ _ _ _ hfull' (fun x hx => hF x (hfiles ▸ hx)) hrest

/-- what `has_norm_cased_dir` answers -/
theorem hasDir_iff {c : CF} {L : List Path} (h : Full c L) (d : Path) :
    hasDir c d = true ↔ ∃ q ∈ L, properAnc d q := by
  unfold hasDir
  rw [List.contains_iff_mem, h.inv.dirs d]

end CreatedFiles
end FB

namespace FB
namespace CreatedFiles

theorem full_empty : Full {} [] :=
  ⟨inv_empty, fun d n => by simp [getSub], fun d => by simp [getSub], (fun x hx => nomatch hx), (fun x hx => nomatch hx)⟩

/-- the hypotheses are satisfiable: a successful file, a sibling that fails, a deeper one that stays -/
example : ∃ c', run {} [.started ["a", "x"], .finished ["a", "x"], .started ["a", "y"], .error ["a", "y"],
      .started ["a", "b", "z"]] = some c' ∧ Full c' [["a", "b", "z"], ["a", "x"]] := by
  apply run_full _ _ [] [] _ full_empty (fun x hx => nomatch hx)
  refine .started _ _ _ _ _ (by simp) (by simp) (by simp) ?_
  refine .finished _ _ _ _ _ (by simp) ?_
  refine .started _ _ _ _ _ (by simp) (by simp) (by
    intro q hq
    simp only [List.mem_singleton] at hq
    subst hq
    constructor <;> rintro ⟨⟨t, ht⟩, _⟩ <;> simp at ht) ?_
  refine .error _ _ _ _ _ (by simp) (by simp) (by simp) ?_
  refine .started _ _ _ _ _ (by simp) (by simp) (by
    intro q hq
    have : q = ["a", "x"] := by simpa using hq
    subst this
    constructor <;> rintro ⟨⟨t, ht⟩, _⟩ <;> simp at ht) ?_
  exact .nil _ _

end CreatedFiles
end FB
