/-
  C06 — versions.  A record is never reused when it contains an operation of a function whose version
  changed (as a JSON value; absent = null), however deep; JSON-equal versions pass the test.
-/
import FB.Lemmas.ReplayBasic
import FB.Props.C18
namespace FB
open FS Spec

mutual
/-- the function names of the complex operations in a record tree -/
def Op.mentions (f : String) : Op → Bool
  | .simple _ _ _ _ => false
  | .buildFile _ _ g _ _ subs _ _ _ _ _ => g == f || Op.mentionsL f subs
  | .subbuild g _ _ subs _ _ _ => g == f || Op.mentionsL f subs
def Op.mentionsL (f : String) : List Op → Bool
  | [] => false
  | o :: os => Op.mentions f o || Op.mentionsL f os
end

mutual
/-- C06: if the version of `f` changed, no record that mentions `f` anywhere in its tree replays. -/
theorem C06_changed_invalidates : (o : Op) → (s : KSt) → (f : String) → s.WF →
    Impl.versionOk s f = false → Op.mentions f o = true → Impl.replayOp o s = none
  | .simple _ _ _ _, _, _, _, _, hm => by simp [Op.mentions] at hm
  | .buildFile path cmp g args kwargs subs ret cmpRes raised sf content, s, f, hwf, hv, hm => by
    cases hr : Impl.replayOp (.buildFile path cmp g args kwargs subs ret cmpRes raised sf content) s with
    | none => rfl
    | some s' =>
      exfalso
      obtain ⟨hvg, _, _, _, _, _, made, s2, _, _, hs2, _⟩ := replayOp_buildFile_some _ _ _ _ _ _ _ _ _ _ _ _ _ hr
      simp only [Op.mentions, Bool.or_eq_true, beq_iff_eq] at hm
      rcases hm with rfl | hm
      · rw [hv] at hvg; cases hvg
      · have hwf1 : (replayS1 s path made raised).WF := by
          intro p hp
          simp only [replayS1, List.mem_cons] at hp ⊢
          rcases hp with rfl | hp
          · exact Or.inl rfl
          · exact Or.inr (hwf p hp)
        have := C06_changed_invalidatesL subs (replayS1 s path made raised) f hwf1 (by simpa [Impl.versionOk, replayS1] using hv) hm
        rw [this] at hs2; cases hs2
  | .subbuild g args kwargs subs ret raised sf, s, f, hwf, hv, hm => by
    cases hr : Impl.replayOp (.subbuild g args kwargs subs ret raised sf) s with
    | none => rfl
    | some s' =>
      exfalso
      obtain ⟨hvg, _, _, hs2⟩ := replayOp_subbuild_some _ _ _ _ _ _ _ _ _ hr
      simp only [Op.mentions, Bool.or_eq_true, beq_iff_eq] at hm
      rcases hm with rfl | hm
      · rw [hv] at hvg; cases hvg
      · have := C06_changed_invalidatesL subs (claimSub s (subKey g args kwargs)) f (by intro p hp; exact hwf p hp)
          (by simpa [Impl.versionOk, claimSub] using hv) hm
        rw [this] at hs2; cases hs2
theorem C06_changed_invalidatesL : (os : List Op) → (s : KSt) → (f : String) → s.WF →
    Impl.versionOk s f = false → Op.mentionsL f os = true → Impl.replayOps os s = none
  | [], _, _, _, _, hm => by simp [Op.mentionsL] at hm
  | o :: os, s, f, hwf, hv, hm => by
    simp only [Op.mentionsL, Bool.or_eq_true] at hm
    simp only [Impl.replayOps]
    cases hr : Impl.replayOp o s with
    | none => rfl
    | some sm =>
      simp only
      rcases hm with hm | hm
      · rw [C06_changed_invalidates o s f hwf hv hm] at hr; cases hr
      · have k := replayOp_keeps o s sm hwf hr
        exact C06_changed_invalidatesL os sm f (k.wf hwf) (by
          simpa [Impl.versionOk, k.old, k.newVersions] using hv) hm
end

/-- C06: the two top-level lookups also test the version of the called function. -/
theorem C06_lookup_tests_version (s : KSt) (fname : String) (args kwargs : Json)
    (hv : Impl.versionOk s fname = false) : Impl.lookupSub s fname args kwargs = none := by
  unfold Impl.lookupSub
  split
  · simp [hv]
  · rfl

/-- C06: versions that are JSON-equal pass the test (the comparison is `is_equal`: key order is
    irrelevant, 1 = 1.0, True ≠ 1 — see C18), an absent version is `null`. -/
theorem C06_equal_versions_pass (s : KSt) (f : String)
    (h : isEqual (verOf s.old.versions f) (verOf s.newVersions f) = true) : Impl.versionOk s f = true := h

example : isEqual (verOf [("f", .num (.int 1))] "f") (verOf [("f", .num (.flt ⟨1, 0, false⟩))] "f") = true ∧
    isEqual (verOf [("f", .bool true)] "f") (verOf [("f", .num (.int 1))] "f") = false ∧
    isEqual (verOf [] "f") (verOf [("f", .null)] "f") = true := by decide

end FB
