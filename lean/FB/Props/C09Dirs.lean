/-
  C09 — the arbitration of concurrently created directories, for arbitrary paths and any number of threads, proved
  over the unit model of `build_dirs.py` (which the harness ties call by call to the real class): whichever way the
  `is_dir` / `mkdir` / `started_building_file` steps of the threads interleave, the directories recorded as created
  are exactly the new ones.  (`FB.Conc.P2.arbitration_correct` is the one-directory abstraction of this.)
-/
import FB.ConcDirs
import FB.Props.BuildDirsStarted
namespace FB
namespace ConcDirs
open BuildDirs

/-- thread `i` has made `d` -/
def Made (s : St) (i : Nat) (d : Path) : Prop :=
  (∃ j, s.pc i = .making j ∧ d ∈ (s.cds i).take j) ∨ (s.pc i = .registered ∧ d ∈ s.cds i)

theorem Made.congr {s s' : St} {k : Nat} {d : Path} (hpc : s'.pc k = s.pc k) (hc : s'.cds k = s.cds k) :
    Made s' k d ↔ Made s k d := by
  unfold Made; rw [hpc, hc]

structure J (p : Nat → Path) (dirs0 : List Path) (s : St) : Prop where
  mono : ∀ d ∈ dirs0, d ∈ s.dirs
  src : ∀ d ∈ s.dirs, d ∉ dirs0 → ∃ i, Made s i d
  madeIn : ∀ i d, Made s i d → d ∈ s.dirs
  look : ∀ i cur acc, s.pc i = .looking cur acc → cur <+: (p i).dropLast ∧ ∀ d ∈ acc, d <+: (p i).dropLast ∧ d ∉ dirs0
  cdsOK : ∀ i, (∀ cur acc, s.pc i ≠ .looking cur acc) → ∀ d ∈ s.cds i, d <+: (p i).dropLast ∧ d ∉ dirs0
  recd : ∀ i, s.pc i = .registered → ∀ d ∈ s.cds i, d ∈ s.b.created
  csrc : ∀ d ∈ s.b.created, ∃ i, s.pc i = .registered ∧ d ∈ s.cds i
  err : s.b.errorCreated = []
  closed : CountsClosed s.b

theorem j_init (p : Nat → Path) (dirs0 : List Path) : J p dirs0 (init p dirs0) := by
  refine ⟨fun d hd => hd, fun d hd hn => absurd hd hn, ?_, ?_, ?_, ?_, ?_, rfl, ?_⟩
  · intro i d h
    rcases h with ⟨j, h, _⟩ | ⟨h, _⟩ <;> simp [init] at h
  · intro i cur acc h
    simp only [init, PC.looking.injEq] at h
    obtain ⟨h1, h2⟩ := h
    subst h1 h2
    exact ⟨List.prefix_refl _, fun d hd => by cases hd⟩
  · intro i _ d hd; simp [init] at hd
  · intro i h; simp [init] at h
  · intro d hd; simp [init] at hd
  · intro d hd; simp [init, hasCount] at hd

theorem mem_take_succ_of_getElem? {l : List Path} {j : Nat} {d : Path} (h : l[j]? = some d) : d ∈ l.take (j + 1) := by
  rw [List.take_succ, h]; simp

theorem j_step (p : Nat → Path) (hp : ∀ i, p i ≠ []) (dirs0 : List Path) (s : St) (i : Nat) (h : J p dirs0 s) :
    J p dirs0 (step p s i) := by
  unfold step
  cases hpc : s.pc i with
  | looking cur acc =>
    simp only
    have hnot : ∀ d, ¬ Made s i d := by
      intro d hm
      rcases hm with ⟨j, hm, _⟩ | ⟨hm, _⟩ <;> rw [hpc] at hm <;> cases hm
    split
    · -- the walk ends: the thread's list is fixed
      refine ⟨h.mono, ?_, ?_, ?_, ?_, ?_, ?_, h.err, h.closed⟩
      · intro d hd hn
        obtain ⟨k, hk⟩ := h.src d hd hn
        have hki : k ≠ i := fun e => hnot d (e ▸ hk)
        exact ⟨k, (Made.congr (by simp [hki]) (by simp [hki])).mpr hk⟩
      · intro k d hm
        by_cases hki : k = i
        · subst hki
          rcases hm with ⟨j, hm, hd⟩ | ⟨hm, _⟩
          · simp only [if_true, PC.making.injEq] at hm; subst hm; simp at hd
          · simp at hm
        · exact h.madeIn k d ((Made.congr (by simp [hki]) (by simp [hki])).mp hm)
      · intro k c a hk
        by_cases hki : k = i
        · subst hki; simp at hk
        · simp only [hki, if_false] at hk; exact h.look k c a hk
      · intro k hk d hd
        by_cases hki : k = i
        · subst hki
          simp only [if_true] at hd
          exact (h.look k cur acc hpc).2 d hd
        · simp only [hki, if_false] at hk hd; exact h.cdsOK k hk d hd
      · intro k hk d hd
        by_cases hki : k = i
        · subst hki; simp at hk
        · simp only [hki, if_false] at hk hd; exact h.recd k hk d hd
      · intro d hd
        obtain ⟨k, hk, hdk⟩ := h.csrc d hd
        have hki : k ≠ i := by intro e; subst e; rw [hpc] at hk; cases hk
        exact ⟨k, by simp [hki, hk], by simp [hki, hdk]⟩
    · -- one more missing directory
      rename_i hcond
      simp only [Bool.or_eq_true, decide_eq_true_eq, not_or] at hcond
      have hcur : cur ∉ s.dirs := by simpa using hcond.1
      refine ⟨h.mono, ?_, ?_, ?_, ?_, ?_, ?_, h.err, h.closed⟩
      · intro d hd hn
        obtain ⟨k, hk⟩ := h.src d hd hn
        have hki : k ≠ i := fun e => hnot d (e ▸ hk)
        exact ⟨k, (Made.congr (by simp [hki]) (by rfl)).mpr hk⟩
      · intro k d hm
        by_cases hki : k = i
        · subst hki
          rcases hm with ⟨j, hm, _⟩ | ⟨hm, _⟩ <;> simp at hm
        · exact h.madeIn k d ((Made.congr (by simp [hki]) (by rfl)).mp hm)
      · intro k c a hk
        by_cases hki : k = i
        · subst hki
          simp only [if_true, PC.looking.injEq] at hk
          obtain ⟨h1, h2⟩ := hk
          subst h1 h2
          obtain ⟨hl1, hl2⟩ := h.look k cur acc hpc
          refine ⟨(List.dropLast_prefix cur).trans hl1, ?_⟩
          intro d hd
          rcases List.mem_cons.mp hd with rfl | hd
          · exact ⟨hl1, fun hh => hcur (h.mono _ hh)⟩
          · exact hl2 d hd
        · simp only [hki, if_false] at hk; exact h.look k c a hk
      · intro k hk d hd
        by_cases hki : k = i
        · subst hki; exact absurd (by simp) (hk cur.dropLast (cur :: acc))
        · simp only [hki, if_false] at hk; exact h.cdsOK k hk d hd
      · intro k hk d hd
        by_cases hki : k = i
        · subst hki; simp at hk
        · simp only [hki, if_false] at hk; exact h.recd k hk d hd
      · intro d hd
        obtain ⟨k, hk, hdk⟩ := h.csrc d hd
        have hki : k ≠ i := by intro e; subst e; rw [hpc] at hk; cases hk
        exact ⟨k, by simp [hki, hk], hdk⟩
  | making j =>
    simp only
    cases hget : (s.cds i)[j]? with
    | some d =>
      simp only
      refine ⟨fun x hx => (mem_add _ _ _).mpr (Or.inr (h.mono x hx)), ?_, ?_, ?_, ?_, ?_, ?_, h.err, h.closed⟩
      · intro x hx hn
        rcases (mem_add _ _ _).mp hx with rfl | hx
        · exact ⟨i, Or.inl ⟨j + 1, by simp, mem_take_succ_of_getElem? hget⟩⟩
        · obtain ⟨k, hk⟩ := h.src x hx hn
          by_cases hki : k = i
          · subst hki
            rcases hk with ⟨j', hk, hx'⟩ | ⟨hk, _⟩
            · rw [hpc] at hk; injection hk with hk; subst hk
              exact ⟨k, Or.inl ⟨j + 1, by simp, List.take_subset_take_left _ (Nat.le_succ _) hx'⟩⟩
            · rw [hpc] at hk; cases hk
          · exact ⟨k, (Made.congr (by simp [hki]) (by rfl)).mpr hk⟩
      · intro k x hm
        by_cases hki : k = i
        · subst hki
          rcases hm with ⟨j', hm, hx⟩ | ⟨hm, _⟩
          · simp only [if_true, PC.making.injEq] at hm; subst hm
            rw [List.take_succ, hget] at hx
            rcases List.mem_append.mp hx with hx | hx
            · exact (mem_add _ _ _).mpr (Or.inr (h.madeIn k x (Or.inl ⟨j, hpc, hx⟩)))
            · simp at hx; exact (mem_add _ _ _).mpr (Or.inl hx)
          · simp at hm
        · exact (mem_add _ _ _).mpr (Or.inr (h.madeIn k x ((Made.congr (by simp [hki]) (by rfl)).mp hm)))
      · intro k c a hk
        by_cases hki : k = i
        · subst hki; simp at hk
        · simp only [hki, if_false] at hk; exact h.look k c a hk
      · intro k hk x hx
        by_cases hki : k = i
        · subst hki; exact h.cdsOK k (fun c a => by rw [hpc]; simp) x hx
        · simp only [hki, if_false] at hk; exact h.cdsOK k hk x hx
      · intro k hk x hx
        by_cases hki : k = i
        · subst hki; simp at hk
        · simp only [hki, if_false] at hk; exact h.recd k hk x hx
      · intro x hx
        obtain ⟨k, hk, hdk⟩ := h.csrc x hx
        have hki : k ≠ i := by intro e; subst e; rw [hpc] at hk; cases hk
        exact ⟨k, by simp [hki, hk], hdk⟩
    | none =>
      simp only
      have hall : (s.cds i).take j = s.cds i := List.take_of_length_le (List.getElem?_eq_none_iff.mp hget)
      have hcds := h.cdsOK i (fun c a => by rw [hpc]; simp)
      have post := started_post s.b (p i) (s.cds i) h.err h.closed
      refine ⟨h.mono, ?_, ?_, ?_, ?_, ?_, ?_, post.err, post.closed⟩
      · intro x hx hn
        obtain ⟨k, hk⟩ := h.src x hx hn
        by_cases hki : k = i
        · subst hki
          rcases hk with ⟨j', hk, hx'⟩ | ⟨hk, _⟩
          · rw [hpc] at hk; injection hk with hk; subst hk
            rw [hall] at hx'
            exact ⟨k, Or.inr ⟨by simp, hx'⟩⟩
          · rw [hpc] at hk; cases hk
        · exact ⟨k, (Made.congr (by simp [hki]) (by rfl)).mpr hk⟩
      · intro k x hm
        by_cases hki : k = i
        · subst hki
          rcases hm with ⟨j', hm, _⟩ | ⟨_, hx⟩
          · simp at hm
          · exact h.madeIn k x (Or.inl ⟨j, hpc, by rw [hall]; exact hx⟩)
        · exact h.madeIn k x ((Made.congr (by simp [hki]) (by rfl)).mp hm)
      · intro k c a hk
        by_cases hki : k = i
        · subst hki; simp at hk
        · simp only [hki, if_false] at hk; exact h.look k c a hk
      · intro k hk x hx
        by_cases hki : k = i
        · subst hki; exact hcds x hx
        · simp only [hki, if_false] at hk; exact h.cdsOK k hk x hx
      · intro k hk x hx
        by_cases hki : k = i
        · subst hki; exact post.reg x hx (hcds x hx).1 (hp k)
        · simp only [hki, if_false] at hk; exact post.sub x (h.recd k hk x hx)
      · intro x hx
        rcases post.src x hx with hx | hx
        · obtain ⟨k, hk, hdk⟩ := h.csrc x hx
          have hki : k ≠ i := by intro e; subst e; rw [hpc] at hk; cases hk
          exact ⟨k, by simp [hki, hk], hdk⟩
        · exact ⟨i, by simp, hx⟩
  | registered => exact h

theorem j_run (p : Nat → Path) (hp : ∀ i, p i ≠ []) (dirs0 : List Path) (sched : List Nat) (s : St) (h : J p dirs0 s) :
    J p dirs0 (run p s sched) := by
  induction sched generalizing s with
  | nil => exact h
  | cons i r ih => exact ih _ (j_step p hp dirs0 s i h)

/-- **C09, directory arbitration for arbitrary paths**: any number of threads build files at arbitrary paths below
    a tree whose directories are `dirs0`; under every interleaving of their `is_dir` / `mkdir` /
    `started_building_file` steps, once every thread that began is through, the directories recorded as created by
    the build (`created_dirs()`, what `clean` removes and a rollback undoes) are exactly the directories that exist
    now and did not exist before — the same as for every sequential order. -/
theorem created_iff_new (p : Nat → Path) (hp : ∀ i, p i ≠ []) (dirs0 : List Path) (sched : List Nat)
    (hdone : ∀ i, (run p (init p dirs0) sched).pc i = .registered ∨ ∃ c a, (run p (init p dirs0) sched).pc i = .looking c a)
    (d : Path) :
    d ∈ (run p (init p dirs0) sched).b.created ↔ d ∈ (run p (init p dirs0) sched).dirs ∧ d ∉ dirs0 := by
  have h := j_run p hp dirs0 sched _ (j_init p dirs0)
  constructor
  · intro hd
    obtain ⟨i, hi, hdi⟩ := h.csrc d hd
    exact ⟨h.madeIn i d (Or.inr ⟨hi, hdi⟩), (h.cdsOK i (fun c a => by rw [hi]; simp) d hdi).2⟩
  · intro ⟨hd, hn⟩
    obtain ⟨i, hm⟩ := h.src d hd hn
    rcases hm with ⟨j, hj, _⟩ | ⟨hr, hdi⟩
    · rcases hdone i with e | ⟨c, a, e⟩ <;> rw [hj] at e <;> cases e
    · exact h.recd i hr d hdi

/-- at every moment, what is recorded exists and is new -/
theorem created_sound (p : Nat → Path) (hp : ∀ i, p i ≠ []) (dirs0 : List Path) (sched : List Nat) (d : Path)
    (hd : d ∈ (run p (init p dirs0) sched).b.created) :
    d ∈ (run p (init p dirs0) sched).dirs ∧ d ∉ dirs0 := by
  have h := j_run p hp dirs0 sched _ (j_init p dirs0)
  obtain ⟨i, hi, hdi⟩ := h.csrc d hd
  exact ⟨h.madeIn i d (Or.inr ⟨hi, hdi⟩), (h.cdsOK i (fun c a => by rw [hi]; simp) d hdi).2⟩


/-! ### non-vacuity: the interleaving on which the pinned commit lost the directory (D7) — thread 0 makes `a`,
    thread 1 sees it, registers first; thread 0 registers afterwards.  All hypotheses hold and `a` is recorded. -/

def exP : Nat → Path := fun i => if i = 0 then ["a", "x"] else if i = 1 then ["a", "y"] else ["z"]

set_option maxRecDepth 8000 in
theorem ex_created : (run exP (init exP []) [0, 0, 0, 1, 1, 0]).b.created = [["a"]] := by
  simp [run, step, init, exP, started, startedLoop, registerUp, BuildDirs.add, BuildDirs.discard, getCount, setCount, hasCount]

set_option maxRecDepth 8000 in
theorem ex_done (i : Nat) : (run exP (init exP []) [0, 0, 0, 1, 1, 0]).pc i = .registered ∨
    ∃ c a, (run exP (init exP []) [0, 0, 0, 1, 1, 0]).pc i = .looking c a := by
  by_cases h0 : i = 0
  · subst h0; left
    simp [run, step, init, exP, BuildDirs.add]
  · by_cases h1 : i = 1
    · subst h1; left
      simp [run, step, init, exP, BuildDirs.add]
    · right
      simp [run, step, init, exP, BuildDirs.add, h0, h1]


example : ["a"] ∈ (run exP (init exP []) [0, 0, 0, 1, 1, 0]).b.created ↔
    ["a"] ∈ (run exP (init exP []) [0, 0, 0, 1, 1, 0]).dirs ∧ ["a"] ∉ ([] : List Path) :=
  created_iff_new exP (fun i => by unfold exP; split <;> [simp; (split <;> simp)]) [] _ ex_done _

end ConcDirs
end FB
