/-
  C01 at the API edge: one whole build, at any position of a history.  Given trees that agree up to
  modification times and an old cache that is valid for the program (`CacheOK`), `build` through the cache
  logic returns the value (or raises the exception) a from-scratch build returns and leaves the same tree
  up to modification times — whether it commits, the root function raises, or the cache write fails.
-/
import FB.Props.C01Run
namespace FB
open FS Spec

theorem sim_eraseFiles (ps : List Path) {a b : FS} (h : FS.Sim a b) :
    FS.Sim (ps.foldl (fun fs p => if fs.isFile p then fs.erase p else fs) a)
           (ps.foldl (fun fs p => if fs.isFile p then fs.erase p else fs) b) := by
  induction ps generalizing a b with
  | nil => exact h
  | cons p r ih =>
    simp only [List.foldl]
    apply ih
    rw [h.isFile p]
    split
    · exact h.erase p
    · exact h

theorem sim_preClean {a b : FS} (h : FS.Sim a b) (cf : Path) (r : Rec) :
    FS.Sim (preClean a cf r) (preClean b cf r) := by
  unfold preClean
  simp only
  apply sim_rmEmpty
  have h1 := sim_eraseFiles r.outputs h
  rw [h1.isFile cf]
  split
  · exact h1.erase cf
  · exact h1

/-- **C01 for one build.**  `old` is the content of the valid cache file (or the empty record). -/
theorem buildGo_refines (w : World) (kw : KWorld) (cf : Path) (name : String) (vs : List (String × Json))
    (root : Prog) (ab : Nat) (old : CacheRec)
    (hfs : FS.Sim w.fs kw.fs) (hds : w.dirSize = kw.dirSize) (hser : w.nextSerial = kw.nextSerial)
    (hok : CacheOK w.dirSize old vs root) :
    (Spec.buildGo w cf name root [] [] ab old.toRec).res = (Impl.buildGo kw cf name vs root [] [] ab old).res ∧
    FS.Sim (Spec.buildGo w cf name root [] [] ab old.toRec).world.fs
           (Impl.buildGo kw cf name vs root [] [] ab old).world.fs := by
  have hstart : ∀ cds, SpecSt.Sim (Spec.buildStart w cf [] [] old.toRec cds)
      (Impl.buildStart kw cf vs [] [] old cds).sp := by
    intro cds
    exact ⟨sim_mkdirs cds (sim_preClean hfs cf _), rfl, hds, rfl, rfl, rfl, rfl, rfl, rfl, rfl⟩
  have hrb : ∀ ds, FS.Sim (mkdirs w.fs ds) (mkdirs kw.fs ds) := fun ds => sim_mkdirs ds hfs
  unfold Spec.buildGo Impl.buildGo
  simp only
  have hdm : dirsToMake (visible (Spec.buildStart w cf [] [] old.toRec [])) cf [] cf.dropLast =
      dirsToMake (visible (Impl.buildStart kw cf vs [] [] old []).sp) cf [] cf.dropLast :=
    sim_dirsToMake (sim_visible (hstart [])) _ _ _
  rw [hdm]
  generalize (if ab = 1 then (Except.error OSErr.other : Except OSErr (List Path))
    else dirsToMake (visible (Impl.buildStart kw cf vs [] [] old []).sp) cf [] cf.dropLast) = sc
  cases sc with
  | error e => exact ⟨rfl, hrb _⟩
  | ok cds =>
    simp only
    have hrun := run_refines (ds := w.dirSize) root none (Spec.buildStart w cf [] [] old.toRec cds)
      (Impl.buildStart kw cf vs [] [] old cds) (hstart cds) rfl rfl rfl
      (by intro p hp; cases hp) (by intro q _; rfl) (by intro p; rfl)
      (fun p hp => nomatch hp) hok
    generalize hrs : run root none (Spec.buildStart w cf [] [] old.toRec cds) = rs at hrun
    obtain ⟨r0, s2, tr⟩ := rs
    generalize hrk : Impl.run root none (Impl.buildStart kw cf vs [] [] old cds) = rk at hrun
    obtain ⟨r0', k2, ops⟩ := rk
    simp only at hrun ⊢
    obtain ⟨hreq, hrel⟩ := hrun
    subst hreq
    cases r0 with
    | error e => exact ⟨rfl, hrb _⟩
    | ok v =>
      by_cases h2 : ab = 2
      · simp only [h2, if_true]
        exact ⟨trivial, hrb _⟩
      · simp only [h2, if_false]
        refine ⟨trivial, ?_⟩
        simp only [FS.write]
        rw [hser]
        exact hrel.sim.fs.set cf _ _ (by simp [Entry.sim])

/-- what the two worlds have to agree on before a build -/
structure WorldSim (w : World) (kw : KWorld) : Prop where
  fs : FS.Sim w.fs kw.fs
  dirSize : w.dirSize = kw.dirSize
  nextSerial : w.nextSerial = kw.nextSerial

/-- an empty old cache is valid for every program -/
theorem CacheOK.empty (ds : Nat) (name : String) (vs vs' : List (String × Json)) (prog : Prog) :
    CacheOK ds { buildName := name, versions := vs' } vs prog := by
  constructor
  · intro path cmp fname args kwargs body k _ p' rcmp rargs rkwargs subs ret cmpRes sf content hget
    simp [CacheRec.getFile, registeredL] at hget
  · intro fname args kwargs body k _ f a kk subs ret sf hget
    simp [CacheRec.getSub, registeredL] at hget

/-- C01, first build (no cache file): unconditionally, for every program and tree, the cache logic and
    the from-scratch semantics agree on the result and on the tree. -/
theorem first_build_refines (w : World) (kw : KWorld) (cf : Path) (name : String) (vs : List (String × Json))
    (root : Prog) (ab : Nat) (h : WorldSim w kw) :
    (Spec.buildGo w cf name root [] [] ab { buildName := name, outputs := [], createdDirs := [] }).res =
      (Impl.buildGo kw cf name vs root [] [] ab { buildName := name, versions := vs }).res ∧
    FS.Sim (Spec.buildGo w cf name root [] [] ab { buildName := name, outputs := [], createdDirs := [] }).world.fs
      (Impl.buildGo kw cf name vs root [] [] ab { buildName := name, versions := vs }).world.fs :=
  buildGo_refines w kw cf name vs root ab { buildName := name, versions := vs } h.fs h.dirSize h.nextSerial
    (CacheOK.empty _ _ _ _ _)

end FB
