/-
  C05 — completeness of reuse for *flat* programs: a root function that queries, and calls `build_file` and
  `subbuild` whose functions make no nested calls (the common shape: one function per output, reading inputs and
  writing its target).  If a first build (no cache) ran such a program with every call succeeding, then a
  second run of the same program in a state that looks the same, whose cache holds the records of the first
  and whose shelf still holds the outputs as the first build left them, invokes NO user function and returns
  the same value.
-/
import FB.Props.C05Complete
import FB.Props.C02Backups
import FB.Props.C01Hash
namespace FB
open FS Spec Impl

/-- programs whose nested calls are all leaf calls -/
inductive Flat : Prog → Prop
  | ret (v : PyVal) : Flat (.ret v)
  | raise (e : Exc) : Flat (.raise e)
  | query (q : Query) (k : UAns → Prog) : (∀ a, Flat (k a)) → Flat (.query q k)
  | write (b : String) (mt : Option Nat) (k : Prog) : Flat k → Flat (.write b mt k)
  | buildFile (path : Path) (cmp : Cmp) (fname : String) (args kwargs : Json) (body : Prog) (k : CallRes → Prog) :
      Leaf body → isEqual args args = true → isEqual kwargs kwargs = true → (∀ r, Flat (k r)) →
      Flat (.buildFile path cmp fname args kwargs body k)
  | subbuild (fname : String) (args kwargs : Json) (body : Prog) (k : CallRes → Prog) :
      Leaf body → (∀ r, Flat (k r)) → Flat (.subbuild fname args kwargs body k)

/-- the two runs are at corresponding points: everything a decision of the library looks at is equal -/
structure Same (s s' : KSt) : Prop where
  fs : s'.sp.fs = s.sp.fs
  cacheFile : s'.sp.cacheFile = s.sp.cacheFile
  dirSize : s'.sp.dirSize = s.sp.dirSize
  claimedFiles : s'.sp.claimedFiles = s.sp.claimedFiles
  claimedSubs : s'.sp.claimedSubs = s.sp.claimedSubs
  inProg : s'.sp.inProg = s.sp.inProg
  ff : s.sp.failFiles = []
  ff' : s'.sp.failFiles = []
  fsb : s.sp.failSubs = []
  fsb' : s'.sp.failSubs = []

theorem Same.visible {s s' : KSt} (h : Same s s') : visible s'.sp = visible s.sp := by
  unfold Spec.visible; rw [h.fs, h.inProg, h.cacheFile]

/-- the successful top-level `build_file` records of a record list, with their paths -/
def topOuts : List Op → List Path
  | [] => []
  | .buildFile p _ _ _ _ _ _ _ false false _ :: r => p :: topOuts r
  | _ :: r => topOuts r

def opOk : Op → Bool
  | .buildFile _ _ _ _ _ _ _ _ raised sf _ => !raised && !sf
  | .subbuild _ _ _ _ _ raised sf => !raised && !sf
  | .simple _ _ _ _ => true

/-- the cache holds the record `o` under its key -/
def cachedIn (old : CacheRec) : Op → Prop
  | .buildFile p c f a k subs r cr raised sf ct => old.getFile p = some (.buildFile p c f a k subs r cr raised sf ct)
  | .subbuild f a k subs r raised sf => old.getSub (subKey f a k) = some (.subbuild f a k subs r raised sf)
  | .simple _ _ _ _ => True

theorem getFile_empty (old : CacheRec) (h : old.roots = []) (p : Path) : old.getFile p = none := by
  simp [CacheRec.getFile, h, registeredL]

theorem getSub_empty (old : CacheRec) (h : old.roots = []) (k : H) : old.getSub k = none := by
  simp [CacheRec.getSub, h, registeredL]

theorem lookupFile_empty (s : KSt) (h : s.old.roots = []) (path : Path) (cmp : Cmp) (fname : String) (args kwargs : Json)
    (made : List Path) : lookupFile s path cmp fname args kwargs made = none := by
  unfold lookupFile; rw [getFile_empty _ h]

theorem lookupSub_empty (s : KSt) (h : s.old.roots = []) (fname : String) (args kwargs : Json) :
    lookupSub s fname args kwargs = none := by
  unfold lookupSub; rw [getSub_empty _ h]


/-! ### unfolding lemmas for `Impl.run` at a call -/

/-- the record of a `build_file` call whose function ran -/
def bfRecord (path : Path) (cmp : Cmp) (fname : String) (args kwargs : Json) (subs : List Op) (rb r' : CallRes) (s3 : KSt) : Op :=
  match r' with
  | .ok j =>
    let content := match s3.sp.fs.get path with | some (.file b _) => b | _ => ""
    Op.buildFile path cmp fname args kwargs subs j (cmpBuilt s3 path cmp) false false content
  | .error _ =>
    let kept := match rb with | .ok j => j | .error _ => .null
    Op.buildFile path cmp fname args kwargs subs kept .null true false ""

theorem run_bf_miss (s : KSt) (t : Option Path) (path : Path) (cmp : Cmp) (fname : String) (args kwargs : Json)
    (body : Prog) (k : CallRes → Prog) (sp1 : SpecSt) (made : List Path)
    (hsetup : bfSetup s.sp path = .ok (sp1, made))
    (hlook : lookupFile (afterSetup s sp1 path made) path cmp fname args kwargs made = none) :
    Impl.run (.buildFile path cmp fname args kwargs body k) t s =
      (let out := Impl.run body (some path) (missStart (afterSetup s sp1 path made) path ⟨fname, some path, args, kwargs⟩)
       let fin := bfFinish out.2.1.sp path made out.1
       let s3 := withSp out.2.1 fin.2
       let rest := Impl.run (k fin.1) t s3
       (rest.1, rest.2.1, bfRecord path cmp fname args kwargs out.2.2 out.1 fin.1 s3 :: rest.2.2)) := by
  simp only [Impl.run, hsetup, hlook, bfRecord]
  rfl

def opRet : Op → Json
  | .buildFile _ _ _ _ _ _ r _ _ _ _ => r
  | .subbuild _ _ _ _ r _ _ => r
  | _ => .null

theorem run_bf_hit (s : KSt) (t : Option Path) (path : Path) (cmp : Cmp) (fname : String) (args kwargs : Json)
    (body : Prog) (k : CallRes → Prog) (sp1 : SpecSt) (made : List Path) (op : Op) (s2 : KSt)
    (hsetup : bfSetup s.sp path = .ok (sp1, made))
    (hlook : lookupFile (afterSetup s sp1 path made) path cmp fname args kwargs made = some (op, s2)) :
    Impl.run (.buildFile path cmp fname args kwargs body k) t s =
      (let rest := Impl.run (k (.ok (match op with | .buildFile _ _ _ _ _ _ _ _ _ _ _ => opRet op | _ => .null))) t s2
       (rest.1, rest.2.1, op :: rest.2.2)) := by
  simp only [Impl.run, hsetup, hlook]
  cases op <;> rfl

theorem run_bf_setupfail (s : KSt) (t : Option Path) (path : Path) (cmp : Cmp) (fname : String) (args kwargs : Json)
    (body : Prog) (k : CallRes → Prog) (e : Exc) (hsetup : bfSetup s.sp path = .error e) :
    (Impl.run (.buildFile path cmp fname args kwargs body k) t s).2.2.head? =
      some (.buildFile path cmp fname args kwargs [] .null .null true true "") := by
  simp only [Impl.run, hsetup]
  rfl


theorem run_sb_miss (s : KSt) (t : Option Path) (fname : String) (args kwargs : Json) (body : Prog) (k : CallRes → Prog)
    (h1 : s.sp.claimedSubs.any (heq (subKey fname args kwargs)) = false)
    (h2 : s.sp.failSubs.any (heq (subKey fname args kwargs)) = false)
    (hlook : lookupSub (subClaim s (subKey fname args kwargs)) fname args kwargs = none) :
    Impl.run (.subbuild fname args kwargs body k) t s =
      (let out := Impl.run body none (Impl.subStart (subClaim s (subKey fname args kwargs)) ⟨fname, none, args, kwargs⟩)
       let op := match out.1 with
         | .ok j => Op.subbuild fname args kwargs out.2.2 j false false
         | .error _ => Op.subbuild fname args kwargs out.2.2 .null true false
       let rest := Impl.run (k out.1) t out.2.1
       (rest.1, rest.2.1, op :: rest.2.2)) := by
  simp only [Impl.run, h1, h2, hlook, Bool.false_eq_true, if_false]
  rfl

theorem run_sb_hit (s : KSt) (t : Option Path) (fname : String) (args kwargs : Json) (body : Prog) (k : CallRes → Prog)
    (op : Op) (s2 : KSt)
    (h1 : s.sp.claimedSubs.any (heq (subKey fname args kwargs)) = false)
    (h2 : s.sp.failSubs.any (heq (subKey fname args kwargs)) = false)
    (hlook : lookupSub (subClaim s (subKey fname args kwargs)) fname args kwargs = some (op, s2)) :
    Impl.run (.subbuild fname args kwargs body k) t s =
      (let rest := Impl.run (k (.ok (match op with | .subbuild _ _ _ _ _ _ _ => opRet op | _ => .null))) t s2
       (rest.1, rest.2.1, op :: rest.2.2)) := by
  simp only [Impl.run, h1, h2, hlook, Bool.false_eq_true, if_false]
  cases op <;> rfl

/-- removing other entries does not change what is bound at `q` -/
theorem get_filter_keep (fs : FS) (f : Path × Entry → Bool) (q : Path) (h : ∀ e, f (q, e) = true) :
    FS.get (List.filter f fs) q = FS.get fs q := by
  by_cases hq : q = []
  · subst hq; simp [get_nil]
  induction fs with
  | nil => rfl
  | cons x r ih =>
    obtain ⟨p, e⟩ := x
    by_cases hp : p = q
    · subst hp
      simp [List.filter, h e, FS.get, hq]
    · by_cases hf : f (p, e) = true
      · simp only [List.filter, hf, FS.get, hq, if_false, hp]
        exact ih
      · simp only [List.filter, hf, FS.get, hq, if_false, hp]
        exact ih

theorem clearWay_get (shelf : FS) (path : Path) (made : List Path) (q : Path)
    (h1 : properAncestor path q = false) (h2 : made.contains q = false) : (clearWay shelf path made).get q = shelf.get q := by
  unfold clearWay
  apply get_filter_keep
  intro e
  have h2' : q ∉ made := by simpa using h2
  simp [h1, h2']

theorem bfFinish_ok_inv (sp : SpecSt) (path : Path) (made : List Path) (rb : CallRes) (j : Json)
    (h : (bfFinish sp path made rb).1 = .ok j) :
    ∃ c m, pendingFind sp.pending path = some (c, m) ∧ rb = .ok j ∧ (bfFinish sp path made rb).2 = finOk sp path made c m := by
  cases rb with
  | error e => simp [bfFinish] at h
  | ok j' =>
    cases hw : pendingFind sp.pending path with
    | none => simp [bfFinish, hw] at h
    | some x =>
      obtain ⟨c, m⟩ := x
      have := bfFinish_ok sp path made j' c m hw
      rw [this] at h ⊢
      simp only [Except.ok.injEq] at h
      subst h
      exact ⟨c, m, rfl, rfl, rfl⟩


theorem bfFinish_file_other (sp : SpecSt) (path : Path) (made : List Path) (r : CallRes) (p : Path) (b : String) (m : Nat)
    (hp : p ≠ path) (h : sp.fs.get p = some (.file b m)) : (bfFinish sp path made r).2.fs.get p = some (.file b m) := by
  unfold bfFinish
  cases r with
  | error e => exact rmEmpty_file _ _ p b m h
  | ok j =>
    simp only
    split
    · simp only; rw [get_set_ne _ _ _ _ hp]; exact h
    · exact rmEmpty_file _ _ p b m h

theorem setupState_file_other (sp : SpecSt) (path : Path) (made : List Path) (p : Path) (b : String) (m : Nat)
    (hp : p ≠ path) (h : sp.fs.get p = some (.file b m)) : (setupState sp path made).fs.get p = some (.file b m) := by
  unfold setupState
  simp only
  have h1 := mkdirs_file made sp.fs p b m h
  split
  · rw [get_erase_ne _ _ _ hp]; exact h1
  · exact h1

/-- what the original (first) run keeps: the cache stays empty, no faults appear, claims only grow, and a file at a
    claimed path is never touched again -/
structure FirstKeeps (s s' : KSt) : Prop where
  old : s'.old = s.old
  ff : s'.sp.failFiles = []
  fsb : s'.sp.failSubs = []
  claimed : ∀ p ∈ s.sp.claimedFiles, p ∈ s'.sp.claimedFiles
  files : ∀ p b m, s.sp.fs.get p = some (.file b m) → p ∈ s.sp.claimedFiles → s'.sp.fs.get p = some (.file b m)

theorem FirstKeeps.refl (s : KSt) (h1 : s.sp.failFiles = []) (h2 : s.sp.failSubs = []) : FirstKeeps s s :=
  ⟨rfl, h1, h2, fun _ h => h, fun _ _ _ h _ => h⟩

theorem FirstKeeps.trans {a b c : KSt} (h1 : FirstKeeps a b) (h2 : FirstKeeps b c) : FirstKeeps a c :=
  ⟨h2.old.trans h1.old, h2.ff, h2.fsb, fun p hp => h2.claimed p (h1.claimed p hp),
   fun p b m hg hc => h2.files p b m (h1.files p b m hg hc) (h1.claimed p hc)⟩

theorem flat_keeps {prog : Prog} (hflat : Flat prog) : ∀ (s : KSt), s.old.roots = [] → s.sp.failFiles = [] →
    s.sp.failSubs = [] → FirstKeeps s (Impl.run prog none s).2.1 := by
  induction hflat with
  | ret v => intro s _ h1 h2; simp only [Impl.run]; split <;> exact FirstKeeps.refl s h1 h2
  | raise e => intro s _ h1 h2; simp only [Impl.run]; exact FirstKeeps.refl s h1 h2
  | query q k _ ih => intro s h0 h1 h2; simp only [Impl.run]; exact ih _ s h0 h1 h2
  | write b mt k _ ih => intro s h0 h1 h2; simp only [Impl.run]; exact ih s h0 h1 h2
  | buildFile path cmp fname args kwargs body k hleaf _ _ _ ih =>
    intro s h0 h1 h2
    cases hsetup : bfSetup s.sp path with
    | error e =>
      have hrun : (Impl.run (.buildFile path cmp fname args kwargs body k) none s).2.1 =
          (Impl.run (k (.error e)) none (liftSp s fun sp => Spec.setupFailState sp path e)).2.1 := by
        simp only [Impl.run, hsetup]
      rw [hrun]
      have hk := ih (.error e) (liftSp s fun sp => Spec.setupFailState sp path e) h0
        (by simp only [liftSp, setupFailState, h1]; split <;> simp) h2
      exact ⟨hk.old, hk.ff, hk.fsb, hk.claimed, hk.files⟩
    | ok x =>
      obtain ⟨sp1, made⟩ := x
      obtain ⟨hsp1, hnc, _, _, _, _⟩ := bfSetup_ok_fields s.sp sp1 path made hsetup
      have hlook := lookupFile_empty (afterSetup s sp1 path made) h0 path cmp fname args kwargs made
      rw [run_bf_miss s none path cmp fname args kwargs body k sp1 made hsetup hlook]
      simp only
      obtain ⟨⟨pend, clk, hst⟩, _⟩ := leaf_run_replays hleaf (some path)
        (missStart (afterSetup s sp1 path made) path ⟨fname, some path, args, kwargs⟩)
      generalize hout : Impl.run body (some path) (missStart (afterSetup s sp1 path made) path ⟨fname, some path, args, kwargs⟩) = out at hst
      -- the state after the call
      have hs3 : FirstKeeps s (withSp out.2.1 (bfFinish out.2.1.sp path made out.1).2) := by
        rw [hst]
        have hfs : (setPC (missStart (afterSetup s sp1 path made) path ⟨fname, some path, args, kwargs⟩) pend clk).sp.fs = sp1.fs := rfl
        have hcl : (setPC (missStart (afterSetup s sp1 path made) path ⟨fname, some path, args, kwargs⟩) pend clk).sp.claimedFiles = sp1.claimedFiles := rfl
        have hffx : (setPC (missStart (afterSetup s sp1 path made) path ⟨fname, some path, args, kwargs⟩) pend clk).sp.failFiles = sp1.failFiles := rfl
        have hfsx : (setPC (missStart (afterSetup s sp1 path made) path ⟨fname, some path, args, kwargs⟩) pend clk).sp.failSubs = sp1.failSubs := rfl
        obtain ⟨_, hk2, hk3⟩ := bfFinish_keeps (setPC (missStart (afterSetup s sp1 path made) path ⟨fname, some path, args, kwargs⟩) pend clk).sp path made out.1
        refine ⟨rfl, ?_, ?_, ?_, ?_⟩
        · show (bfFinish _ path made out.1).2.failFiles = []
          rw [hk2, hffx, hsp1]; exact h1
        · show (bfFinish _ path made out.1).2.failSubs = []
          rw [hk3, hfsx, hsp1]; exact h2
        · intro p hp
          show p ∈ (bfFinish _ path made out.1).2.claimedFiles
          rw [bfFinish_claimed, hcl, hsp1]
          exact List.mem_cons_of_mem _ hp
        · intro p b m hg hc
          show (bfFinish _ path made out.1).2.fs.get p = some (.file b m)
          have hne : p ≠ path := fun e => hnc (e ▸ hc)
          apply bfFinish_file_other _ _ _ _ _ _ _ hne
          rw [hfs, hsp1]
          exact setupState_file_other _ _ _ _ _ _ hne hg
      have hk := ih (bfFinish out.2.1.sp path made out.1).1 (withSp out.2.1 (bfFinish out.2.1.sp path made out.1).2)
        (by rw [show (withSp out.2.1 (bfFinish out.2.1.sp path made out.1).2).old = out.2.1.old from rfl, hst]; exact h0) hs3.ff hs3.fsb
      exact hs3.trans hk
  | subbuild fname args kwargs body k hleaf _ ih =>
    intro s h0 h1 h2
    have hfs : s.sp.failSubs.any (heq (subKey fname args kwargs)) = false := by simp [h2]
    by_cases hc : s.sp.claimedSubs.any (heq (subKey fname args kwargs)) = true
    · have hrun : (Impl.run (.subbuild fname args kwargs body k) none s).2.1 =
          (Impl.run (k (.error (.runtime .dupSub))) none s).2.1 := by
        simp only [Impl.run, hc, if_true]
      rw [hrun]
      exact ih _ s h0 h1 h2
    · have hc' : s.sp.claimedSubs.any (heq (subKey fname args kwargs)) = false := by simpa using hc
      have hlook := lookupSub_empty (subClaim s (subKey fname args kwargs)) h0 fname args kwargs
      rw [run_sb_miss s none fname args kwargs body k hc' hfs hlook]
      simp only
      obtain ⟨⟨pend, clk, hst⟩, _⟩ := leaf_run_replays hleaf none
        (Impl.subStart (subClaim s (subKey fname args kwargs)) ⟨fname, none, args, kwargs⟩)
      generalize hout : Impl.run body none (Impl.subStart (subClaim s (subKey fname args kwargs)) ⟨fname, none, args, kwargs⟩) = out at hst
      have hs2 : FirstKeeps s out.2.1 := by
        rw [hst]
        exact ⟨rfl, h1, h2, fun p hp => hp, fun p b m hg _ => hg⟩
      have hk := ih out.1 out.2.1 (by rw [hs2.old]; exact h0) hs2.ff hs2.fsb
      exact hs2.trans hk


theorem bfSetup_same {s s' : KSt} (h : Same s s') (path : Path) (sp1 : SpecSt) (made : List Path)
    (hs : bfSetup s.sp path = .ok (sp1, made)) : bfSetup s'.sp path = .ok (setupState s'.sp path made, made) := by
  obtain ⟨_, h1, h2, h3, h4, _⟩ := bfSetup_ok_fields s.sp sp1 path made hs
  unfold bfSetup
  have c1 : s'.sp.claimedFiles.contains path = false := by rw [h.claimedFiles]; simpa using h1
  have c2 : ¬ path = s'.sp.cacheFile := by rw [h.cacheFile]; exact h2
  have c3 : s'.sp.fs.isDir path = false := by rw [h.fs]; exact h3
  have c4 : dirsToMake (visible s'.sp) s'.sp.cacheFile s'.sp.inProg path.dropLast = .ok made := by
    rw [h.visible, h.cacheFile, h.inProg]; exact h4
  have c5 : s'.sp.failFiles.contains path = false := by simp [h.ff']
  have c6 : made.any Path.tooLong = false := by
    -- the first run passed the same test
    unfold bfSetup at hs
    simp only [show s.sp.claimedFiles.contains path = false from by simpa using h1, h2, h3, h4, Bool.false_eq_true, if_false,
      show s.sp.failFiles.contains path = false from by simp [h.ff]] at hs
    by_cases hl : made.any Path.tooLong = true
    · simp [hl] at hs
    · simpa using hl
  simp only [c1, c2, c3, c4, c5, c6, Bool.false_eq_true, if_false]

theorem setupState_fs (a b : SpecSt) (path : Path) (made : List Path) (h : a.fs = b.fs) :
    (setupState a path made).fs = (setupState b path made).fs := by
  unfold setupState; simp only [h]

theorem lookupFile_hit (st : KSt) (path : Path) (cmp : Cmp) (fname : String) (args kwargs : Json) (made : List Path)
    (subs : List Op) (ret cmpRes : Json) (content : String) (b : String) (m : Nat)
    (hold : st.old.getFile path = some (.buildFile path cmp fname args kwargs subs ret cmpRes false false content))
    (hver : versionOk st fname = true) (ha : isEqual args args = true) (hk : isEqual kwargs kwargs = true)
    (hne : path ≠ []) (hshelf : st.shelf.get path = some (.file b m))
    (hcr : isEqual cmpRes (View.cmpResult cmp b m) = true) (hrep : replayOps subs st = some st) :
    lookupFile st path cmp fname args kwargs made =
      some (.buildFile path cmp fname args kwargs subs ret (View.cmpResult cmp b m) false false content, adopt st path made) := by
  unfold lookupFile
  rw [hold]
  have hcs : cmpShelf st path cmp = View.cmpResult cmp b m := by simp [cmpShelf, hshelf, hne]
  simp only [hver, ha, hk, outputMatches, hcs, hcr, decide_true, Bool.and_self, Bool.true_and, if_true, hrep]
  have := cmpResult_ne_null cmp b m
  cases hc : View.cmpResult cmp b m <;> first | exact absurd hc this | rfl

def Antichain (l : List Path) : Prop := l.Pairwise (fun a b => a ≠ b ∧ ¬ a <+: b ∧ ¬ b <+: a)

theorem topOuts_simple (q : Query) (r : Json) (e : Option OSErr) (a : UAns) (l : List Op) :
    topOuts (.simple q r e a :: l) = topOuts l := rfl

theorem topOuts_sub (f : String) (a k : Json) (subs : List Op) (r : Json) (x y : Bool) (l : List Op) :
    topOuts (.subbuild f a k subs r x y :: l) = topOuts l := rfl

theorem topOuts_bf_ok (p : Path) (c : Cmp) (f : String) (a k : Json) (subs : List Op) (r cr : Json) (ct : String) (l : List Op) :
    topOuts (.buildFile p c f a k subs r cr false false ct :: l) = p :: topOuts l := rfl


theorem Same.keep_versions {s' s'' : KSt} (h1 : s''.old = s'.old) (h2 : s''.newVersions = s'.newVersions)
    (hv : ∀ f, versionOk s' f = true) : ∀ f, versionOk s'' f = true := by
  intro f; unfold versionOk; rw [h1, h2]; exact hv f

/-- **C05 for flat programs**: a second run in a state that looks the same, with the records of the first run in
    the cache and its outputs on the shelf, invokes nothing and returns the same value -/
theorem flat_second_run {prog : Prog} (hflat : Flat prog) : ∀ (s s' : KSt),
    s.old.roots = [] → Same s s' → (∀ f, versionOk s' f = true) →
    (∀ o ∈ (Impl.run prog none s).2.2, opOk o = true) →
    (∀ o ∈ (Impl.run prog none s).2.2, cachedIn s'.old o) →
    Antichain (topOuts (Impl.run prog none s).2.2) →
    (∀ p ∈ topOuts (Impl.run prog none s).2.2, s'.shelf.get p = (Impl.run prog none s).2.1.sp.fs.get p) →
    (Impl.run prog none s').1 = (Impl.run prog none s).1 ∧
    (Impl.run prog none s').2.1.sp.invLog = s'.sp.invLog ∧
    Same (Impl.run prog none s).2.1 (Impl.run prog none s').2.1 ∧
    (Impl.run prog none s').2.1.old = s'.old ∧ (Impl.run prog none s').2.1.newVersions = s'.newVersions := by
  induction hflat with
  | ret v =>
    intro s s' _ hsame _ _ _ _ _
    simp only [Impl.run]
    split <;> (refine ⟨?_, ?_, hsame, ?_, ?_⟩ <;> first | rfl | trivial)
  | raise e =>
    intro s s' _ hsame _ _ _ _ _
    simp only [Impl.run]
    refine ⟨?_, ?_, hsame, ?_, ?_⟩ <;> first | rfl | trivial
  | query q k _ ih =>
    intro s s' h0 hsame hv hok hc hanti hsup
    simp only [Impl.run] at hok hc hanti hsup ⊢
    rw [hsame.visible, hsame.dirSize]
    cases hrv : View.recVal s.sp.dirSize (visible s.sp) q with
    | ok v =>
      simp only [hrv] at hok hc hanti hsup
      rw [topOuts_simple] at hanti hsup
      exact ih _ s s' h0 hsame hv (fun o ho => hok o (List.mem_cons_of_mem _ ho)) (fun o ho => hc o (List.mem_cons_of_mem _ ho))
        hanti hsup
    | error e =>
      simp only [hrv] at hok hc hanti hsup
      rw [topOuts_simple] at hanti hsup
      exact ih _ s s' h0 hsame hv (fun o ho => hok o (List.mem_cons_of_mem _ ho)) (fun o ho => hc o (List.mem_cons_of_mem _ ho))
        hanti hsup
  | write b mt k _ ih =>
    intro s s' h0 hsame hv hok hc hanti hsup
    simp only [Impl.run] at hok hc hanti hsup ⊢
    exact ih s s' h0 hsame hv hok hc hanti hsup
  | buildFile path cmp fname args kwargs body k hleaf hargs hkw _ ih =>
    intro s s' h0 hsame hv hok hc hanti hsup
    cases hsetup : bfSetup s.sp path with
    | error e =>
      -- a call that failed in its set-up is not among the successful ones
      have := run_bf_setupfail s none path cmp fname args kwargs body k e hsetup
      cases hl : (Impl.run (.buildFile path cmp fname args kwargs body k) none s).2.2 with
      | nil => rw [hl] at this; cases this
      | cons o rest =>
        rw [hl] at this hok
        simp only [List.head?, Option.some.injEq] at this
        have := hok o (List.mem_cons_self ..)
        subst_vars
        simp [opOk] at this
    | ok x =>
      obtain ⟨sp1, made⟩ := x
      obtain ⟨hsp1, hnc, _, hnd, hdm, _⟩ := bfSetup_ok_fields s.sp sp1 path made hsetup
      have hne : path ≠ [] := by intro e; subst e; simp [FS.isDir, get_nil] at hnd
      have hlook := lookupFile_empty (afterSetup s sp1 path made) h0 path cmp fname args kwargs made
      have hrun := run_bf_miss s none path cmp fname args kwargs body k sp1 made hsetup hlook
      rw [hrun] at hok hc hanti hsup ⊢
      simp only at hok hc hanti hsup ⊢
      obtain ⟨⟨pend, clk, hst⟩, hrep⟩ := leaf_run_replays hleaf (some path)
        (missStart (afterSetup s sp1 path made) path ⟨fname, some path, args, kwargs⟩)
      generalize hout : Impl.run body (some path) (missStart (afterSetup s sp1 path made) path ⟨fname, some path, args, kwargs⟩) = out
        at hst hrep hok hc hanti hsup ⊢
      -- the call succeeded
      have hhead := hok _ (List.mem_cons_self ..)
      obtain ⟨j, hj⟩ : ∃ j, (bfFinish out.2.1.sp path made out.1).1 = .ok j := by
        cases hr : (bfFinish out.2.1.sp path made out.1).1 with
        | ok j => exact ⟨j, rfl⟩
        | error e => simp [bfRecord, hr, opOk] at hhead
      obtain ⟨c, m, _, _, hfin⟩ := bfFinish_ok_inv out.2.1.sp path made out.1 j hj
      have hs3fs : (withSp out.2.1 (bfFinish out.2.1.sp path made out.1).2).sp.fs.get path = some (.file c m) := by
        show (bfFinish out.2.1.sp path made out.1).2.fs.get path = some (.file c m)
        rw [hfin]; exact get_set_self _ _ _ hne
      have hop : bfRecord path cmp fname args kwargs out.2.2 out.1 (bfFinish out.2.1.sp path made out.1).1
          (withSp out.2.1 (bfFinish out.2.1.sp path made out.1).2) =
          .buildFile path cmp fname args kwargs out.2.2 j (View.cmpResult cmp c m) false false c := by
        simp only [bfRecord, hj, cmpBuilt, hs3fs]
      rw [hop] at hok hc hanti hsup
      rw [topOuts_bf_ok] at hanti hsup
      -- the first run after the call
      have hs3ff : (withSp out.2.1 (bfFinish out.2.1.sp path made out.1).2).sp.failFiles = [] := by
        show (bfFinish out.2.1.sp path made out.1).2.failFiles = []
        rw [(bfFinish_keeps _ _ _ _).2.1, hst]
        show sp1.failFiles = []
        rw [hsp1]; exact hsame.ff
      have hs3fsb : (withSp out.2.1 (bfFinish out.2.1.sp path made out.1).2).sp.failSubs = [] := by
        show (bfFinish out.2.1.sp path made out.1).2.failSubs = []
        rw [(bfFinish_keeps _ _ _ _).2.2, hst]
        show sp1.failSubs = []
        rw [hsp1]; exact hsame.fsb
      have hs3keep := flat_keeps (‹∀ r, Flat (k r)› (bfFinish out.2.1.sp path made out.1).1)
        (withSp out.2.1 (bfFinish out.2.1.sp path made out.1).2)
        (by rw [show (withSp out.2.1 (bfFinish out.2.1.sp path made out.1).2).old = out.2.1.old from rfl, hst]; exact h0)
        hs3ff hs3fsb
      have hpath_claimed : path ∈ (withSp out.2.1 (bfFinish out.2.1.sp path made out.1).2).sp.claimedFiles := by
        show path ∈ (bfFinish out.2.1.sp path made out.1).2.claimedFiles
        rw [bfFinish_claimed, hst]
        show path ∈ sp1.claimedFiles
        rw [hsp1]; exact List.mem_cons_self ..
      have hfinal := hs3keep.files path c m hs3fs hpath_claimed
      -- the second run: same set-up, then a hit
      have hsetup' := bfSetup_same hsame path sp1 made hsetup
      have hmade_pre : ∀ x ∈ made, x <+: path.dropLast := Backups.dirsToMake_prefix _ _ _ _ _ made rfl hdm
      have hpath_notmade : made.contains path = false := by
        cases hcn : made.contains path with
        | false => rfl
        | true =>
          have := (hmade_pre path (by simpa using hcn)).length_le
          rw [List.length_dropLast] at this
          have : path.length ≠ 0 := by simpa using hne
          omega
      have hshelf' : (afterSetup s' (setupState s'.sp path made) path made).shelf.get path = some (.file c m) := by
        show (clearWay s'.shelf path made).get path = _
        rw [clearWay_get _ _ _ _ (by simp [properAncestor]) hpath_notmade, hsup path (List.mem_cons_self ..)]
        exact hfinal
      have hview' : visible (afterSetup s' (setupState s'.sp path made) path made).sp =
          visible (missStart (afterSetup s sp1 path made) path ⟨fname, some path, args, kwargs⟩).sp := by
        show visible (setupState s'.sp path made) = visible sp1
        rw [hsp1]
        unfold Spec.visible
        rw [setupState_fs _ _ path made hsame.fs]
        show _ = _
        simp only [setupState, hsame.inProg, hsame.cacheFile]
      have hrep' := hrep (afterSetup s' (setupState s'.sp path made) path made) hview'
        (by show (setupState s'.sp path made).dirSize = sp1.dirSize; rw [hsp1]; exact hsame.dirSize)
      have hold' := hc _ (List.mem_cons_self ..)
      simp only [cachedIn] at hold'
      have hlook' := lookupFile_hit (afterSetup s' (setupState s'.sp path made) path made) path cmp fname args kwargs made
        out.2.2 j (View.cmpResult cmp c m) c c m hold' (hv fname) hargs hkw hne hshelf' (cmpResult_refl cmp c m) hrep'
      have hrun' := run_bf_hit s' none path cmp fname args kwargs body k _ made _ _ hsetup' hlook'
      rw [hrun']
      simp only [opRet]
      -- the states after the call correspond
      have e3 : (withSp out.2.1 (bfFinish out.2.1.sp path made out.1).2).sp =
          finOk (setPC (missStart (afterSetup s sp1 path made) path ⟨fname, some path, args, kwargs⟩) pend clk).sp path made c m := by
        show (bfFinish out.2.1.sp path made out.1).2 = _
        rw [hfin, hst]
      have hadfs : (adopt (afterSetup s' (setupState s'.sp path made) path made) path made).sp.fs =
          (setupState s'.sp path made).fs.set path (.file c m) := by
        simp only [adopt, hshelf', hne, if_false]
        rfl
      have hsame3 : Same (withSp out.2.1 (bfFinish out.2.1.sp path made out.1).2)
          (adopt (afterSetup s' (setupState s'.sp path made) path made) path made) := by
        refine ⟨?_, ?_, ?_, ?_, ?_, ?_, hs3ff, ?_, hs3fsb, ?_⟩
        · rw [hadfs, e3]
          show _ = sp1.fs.set path (.file c m)
          rw [hsp1, setupState_fs _ _ path made hsame.fs]
        · rw [e3]; show s'.sp.cacheFile = sp1.cacheFile; rw [hsp1]; exact hsame.cacheFile
        · rw [e3]; show s'.sp.dirSize = sp1.dirSize; rw [hsp1]; exact hsame.dirSize
        · rw [e3]; show (path :: s'.sp.claimedFiles) = sp1.claimedFiles; rw [hsp1]
          show _ = path :: s.sp.claimedFiles; rw [hsame.claimedFiles]
        · rw [e3]; show s'.sp.claimedSubs = sp1.claimedSubs; rw [hsp1]; exact hsame.claimedSubs
        · rw [e3]; show (path :: s'.sp.inProg).erase path = sp1.inProg.erase path; rw [hsp1]
          show _ = (path :: s.sp.inProg).erase path; rw [hsame.inProg]
        · show s'.sp.failFiles = []; exact hsame.ff'
        · show s'.sp.failSubs = []; exact hsame.fsb'
      rw [hj] at hok hc hanti hsup ⊢
      have hanti' := List.pairwise_cons.mp hanti
      have hih := ih (.ok j) (withSp out.2.1 (bfFinish out.2.1.sp path made out.1).2)
        (adopt (afterSetup s' (setupState s'.sp path made) path made) path made)
        (by rw [show (withSp out.2.1 (bfFinish out.2.1.sp path made out.1).2).old = out.2.1.old from rfl, hst]; exact h0)
        hsame3 (Same.keep_versions rfl rfl hv)
        (fun o ho => hok o (List.mem_cons_of_mem _ ho)) (fun o ho => hc o (List.mem_cons_of_mem _ ho)) hanti'.2
        (by
          intro q hq
          obtain ⟨hq1, hq2, hq3⟩ := hanti'.1 q hq
          have hqm : made.contains q = false := by
            cases hcn : made.contains q with
            | false => rfl
            | true =>
              exact absurd ((hmade_pre q (by simpa using hcn)).trans (List.dropLast_prefix path)) hq3
          show ((clearWay s'.shelf path made).erase path).get q = _
          rw [get_erase_ne _ _ _ (fun e => hq1 e.symm), clearWay_get _ _ _ _ (by simp [properAncestor, hq2]) hqm]
          exact hsup q (List.mem_cons_of_mem _ hq))
      obtain ⟨i1, i2, i3, i4, i5⟩ := hih
      exact ⟨i1, i2, i3, i4, i5⟩
  | subbuild fname args kwargs body k hleaf _ ih =>
    intro s s' h0 hsame hv hok hc hanti hsup
    have hfs : s.sp.failSubs.any (heq (subKey fname args kwargs)) = false := by simp [hsame.fsb]
    have hfs' : s'.sp.failSubs.any (heq (subKey fname args kwargs)) = false := by simp [hsame.fsb']
    by_cases hcl : s.sp.claimedSubs.any (heq (subKey fname args kwargs)) = true
    · -- a rejected duplicate is not among the successful calls
      simp only [Impl.run, hcl, if_true] at hok
      have := hok _ (List.mem_cons_self ..)
      simp [opOk] at this
    · have hcl0 : s.sp.claimedSubs.any (heq (subKey fname args kwargs)) = false := by simpa using hcl
      have hcl' : s'.sp.claimedSubs.any (heq (subKey fname args kwargs)) = false := by rw [hsame.claimedSubs]; exact hcl0
      have hlook := lookupSub_empty (subClaim s (subKey fname args kwargs)) h0 fname args kwargs
      rw [run_sb_miss s none fname args kwargs body k hcl0 hfs hlook] at hok hc hanti hsup ⊢
      simp only at hok hc hanti hsup ⊢
      obtain ⟨⟨pend, clk, hst⟩, _⟩ := leaf_run_replays hleaf none
        (Impl.subStart (subClaim s (subKey fname args kwargs)) ⟨fname, none, args, kwargs⟩)
      have hhead := hok _ (List.mem_cons_self ..)
      obtain ⟨j, hj⟩ : ∃ j, (Impl.run body none (Impl.subStart (subClaim s (subKey fname args kwargs)) ⟨fname, none, args, kwargs⟩)).1 = .ok j := by
        cases hr : (Impl.run body none (Impl.subStart (subClaim s (subKey fname args kwargs)) ⟨fname, none, args, kwargs⟩)).1 with
        | ok j => exact ⟨j, rfl⟩
        | error e => rw [hr] at hhead; simp [opOk] at hhead
      rw [hj] at hok hc hanti hsup ⊢
      simp only at hok hc hanti hsup ⊢
      rw [topOuts_sub] at hanti hsup
      have hold' := hc _ (List.mem_cons_self ..)
      simp only [cachedIn] at hold'
      have hlook' := C05_leaf_sub_reused_partial s fname args kwargs body hleaf j hj s' args kwargs hsame.visible hsame.dirSize
        (hv fname) hold'
      rw [run_sb_hit s' none fname args kwargs body k _ _ hcl' hfs' hlook']
      simp only [opRet]
      have hsame2 : Same (Impl.run body none (Impl.subStart (subClaim s (subKey fname args kwargs)) ⟨fname, none, args, kwargs⟩)).2.1
          (subClaim s' (subKey fname args kwargs)) := by
        rw [hst]
        exact ⟨hsame.fs, hsame.cacheFile, hsame.dirSize, hsame.claimedFiles,
          by show _ :: s'.sp.claimedSubs = _ :: s.sp.claimedSubs; rw [hsame.claimedSubs],
          hsame.inProg, hsame.ff, hsame.ff', hsame.fsb, hsame.fsb'⟩
      have hih := ih (.ok j) _ (subClaim s' (subKey fname args kwargs))
        (by rw [hst]; exact h0) hsame2 (Same.keep_versions rfl rfl hv)
        (fun o ho => hok o (List.mem_cons_of_mem _ ho)) (fun o ho => hc o (List.mem_cons_of_mem _ ho)) hanti hsup
      obtain ⟨i1, i2, i3, i4, i5⟩ := hih
      exact ⟨i1, i2, i3, i4, i5⟩

end FB

namespace FB
open FS Spec Impl


/-! ### non-vacuity: the program of `C01Hash` (one leaf `build_file`), first run from an empty state, second run
    with its record in the cache and its output on the shelf -/

def fxS : KSt := { sp := { fs := [], cacheFile := ["c"], dirSize := 4096, clock := 7 }, old := { buildName := "n" } }
def fxOps : List Op := (Impl.run exRoot none fxS).2.2
def fxS' : KSt := { sp := { fs := [], cacheFile := ["c"], dirSize := 4096, clock := 99 },
                    old := { buildName := "n", roots := fxOps }, shelf := [(["x"], .file "o" 7)] }

theorem flat_exRoot : Flat exRoot :=
  .buildFile _ _ _ _ _ _ _ (.write _ _ _ (.ret _)) (by simp [isEqual]) (by simp [isEqual]) (fun _ => .ret _)

theorem fx_first : (Impl.run exRoot none fxS).2.2 = [.buildFile ["x"] .hash "f" .null .null [] .null (.str "sha:o") false false "o"] ∧
    (Impl.run exRoot none fxS).2.1.sp.fs.get ["x"] = some (.file "o" 7) ∧ (Impl.run exRoot none fxS).2.1.sp.invLog.length = 1 := by
  have h : dirsToMake (visible fxS.sp) fxS.sp.cacheFile fxS.sp.inProg [] = .ok [] := by rw [dirsToMake]; simp
  simp [exRoot, exBody, Impl.run, bfSetup, fxS, FS.isDir, FS.get, lookupFile, CacheRec.getFile, registeredL,
    afterSetup, missStart, liftSp, sanitize, bfFinish, pendingFind, withSp, cmpBuilt, View.cmpResult, setupState, mkdirs,
    FS.isFile, FS.set, FS.erase, clearWay] at h ⊢
  rw [h]
  simp [pendingFind, FS.set, FS.erase, FS.get, cmpBuilt, View.cmpResult, withSp]

example : (Impl.run exRoot none fxS').2.1.sp.invLog = [] ∧ (Impl.run exRoot none fxS).2.1.sp.invLog.length = 1 := by
  obtain ⟨hops, hfs, hlen⟩ := fx_first
  have h := flat_second_run flat_exRoot fxS fxS' rfl
    ⟨rfl, rfl, rfl, rfl, rfl, rfl, rfl, rfl, rfl, rfl⟩
    (fun f => by simp [versionOk, fxS', verOf, isEqual])
    (by rw [hops]; intro o ho; simp at ho; subst ho; rfl)
    (by rw [hops]; intro o ho; simp at ho; subst ho
        simp [cachedIn, fxS', fxOps, CacheRec.getFile, hops, registeredL, registered, Op.isFileAt])
    (by rw [hops]; simp [topOuts, Antichain])
    (by
      rw [hops]; intro p hp; simp [topOuts] at hp; subst hp
      rw [hfs]; simp [fxS', FS.get])
  exact ⟨h.2.1, hlen⟩
end FB
