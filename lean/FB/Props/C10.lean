/-
  C10 — the build_file contract, on the reference semantics (`Spec.bfSetup` / `Spec.bfFinish`,
  which `Impl.run` uses verbatim around a rebuilt file).
-/
import FB.Lemmas.Spec
namespace FB
open FS Spec

/-- C10 (success): `build_file` reports success only if the target is a regular file afterwards, and
    the value is the function's (already sanitized) return value. -/
theorem C10_success (s : SpecSt) (path : Path) (made : List Path) (r : CallRes) (j : Json)
    (h : (bfFinish s path made r).1 = .ok j) :
    r = .ok j ∧ (bfFinish s path made r).2.fs.isFile path = true ∧
    path ∈ (bfFinish s path made r).2.outputs := by
  unfold bfFinish at h ⊢
  cases r with
  | error e => simp at h
  | ok v =>
    simp only at h ⊢
    by_cases hf : s.fs.isFile path = true
    · simp only [hf, if_true] at h ⊢
      simp at h; subst h; simp [hf]
    · simp [hf] at h

/-- C10 (failure): if the function raises, returns a non-JSON value (`.error .typeErr` from `ret`) or
    does not create the file, the exception propagates unchanged (or is `notCreated`) and the target
    is not a regular file afterwards; nothing but the target and the directories made for it is
    touched. -/
theorem C10_failure (s : SpecSt) (path : Path) (made : List Path) (r : CallRes) (e : Exc)
    (h : (bfFinish s path made r).1 = .error e) :
    (r = .error e ∨ (∃ j, r = .ok j ∧ e = .runtime .notCreated ∧ s.fs.isFile path = false)) ∧
    (bfFinish s path made r).2.fs.isFile path = false ∧
    (bfFinish s path made r).2.outputs = s.outputs := by
  have key2 : ∀ (fs : FS), fs.isFile path = false → (rmEmpty fs made).isFile path = false := by
    intro fs hf
    rcases rmEmpty_get made fs path with h' | ⟨_, _, hn⟩
    · simpa [isFile, h'] using hf
    · simp [isFile, hn]
  unfold bfFinish at h ⊢
  cases r with
  | error e' =>
    simp only at h ⊢
    simp at h; subst h
    exact ⟨Or.inl rfl, key2 _ (isFile_eraseIfFile _ _), trivial⟩
  | ok v =>
    simp only at h ⊢
    by_cases hf : s.fs.isFile path = true
    · simp [hf] at h
    · have hf' : s.fs.isFile path = false := by simpa using hf
      rw [if_neg hf] at h ⊢
      simp at h; subst h
      exact ⟨Or.inr ⟨v, rfl, rfl, hf'⟩, key2 _ (isFile_eraseIfFile _ _), rfl⟩

/-- C10 (setup): when `build_file` gets as far as calling the function, the target is absent, every
    directory made for it exists, and the target is hidden from queries (invisible while the function
    runs). -/
theorem C10_setup (s s1 : SpecSt) (path : Path) (made : List Path)
    (h : bfSetup s path = .ok (s1, made)) :
    s1.fs.isFile path = false ∧ path ∈ s1.inProg ∧ path ∈ s1.claimedFiles ∧ path ≠ s.cacheFile ∧
    ¬ (s.claimedFiles.contains path = true) := by
  unfold bfSetup at h
  split at h; · cases h
  rename_i hc
  split at h; · cases h
  rename_i hcf
  split at h; · cases h
  split at h; · cases h
  rename_i ds _
  split at h; · cases h
  simp only [Except.ok.injEq, Prod.mk.injEq] at h
  obtain ⟨hs, _⟩ := h
  subst hs
  refine ⟨?_, by simp, by simp, hcf, hc⟩
  exact isFile_eraseIfFile _ _

end FB
