/-
  C10 — the build_file contract, on the reference semantics (`Spec.bfSetup` / `Spec.bfFinish`,
  which `Impl.run` uses verbatim around a rebuilt file).
-/
import FB.Lemmas.Spec
namespace FB
open FS Spec

/-- C10 (success): `build_file` reports success only if the function wrote the target; the target is
    then a regular file holding exactly the bytes written last, and the value is the function's
    (already sanitized) return value. -/
theorem C10_success (s : SpecSt) (path : Path) (made : List Path) (r : CallRes) (j : Json)
    (hp : path ≠ []) (h : (bfFinish s path made r).1 = .ok j) :
    r = .ok j ∧ (∃ b m, pendingFind s.pending path = some (b, m) ∧
      (bfFinish s path made r).2.fs.get path = some (.file b m)) ∧
    path ∈ (bfFinish s path made r).2.outputs := by
  unfold bfFinish at h ⊢
  cases r with
  | error e => simp at h
  | ok v =>
    simp only at h ⊢
    cases hw : pendingFind s.pending path with
    | none => simp [hw] at h
    | some bm =>
      obtain ⟨b, m⟩ := bm
      simp only [hw] at h ⊢
      simp at h; subst h
      exact ⟨rfl, ⟨b, m, rfl, get_set_self _ _ _ hp⟩, by simp⟩

/-- C10 (failure): if the function raises, returns a non-JSON value (`.error .typeErr` from `ret`) or
    does not create the file, the exception propagates unchanged (or is `notCreated`, resp. the OSError of
    an over-long target name), nothing appears
    at the target, the recorded outputs are unchanged, and the tree is touched only by removing
    directories made for this call. -/
theorem C10_failure (s : SpecSt) (path : Path) (made : List Path) (r : CallRes) (e : Exc)
    (h : (bfFinish s path made r).1 = .error e) :
    (r = .error e ∨ (∃ j, r = .ok j ∧ e = notCreatedExc path ∧ pendingFind s.pending path = none)) ∧
    (s.fs.isFile path = false → (bfFinish s path made r).2.fs.isFile path = false) ∧
    (bfFinish s path made r).2.outputs = s.outputs ∧
    (∀ q, (bfFinish s path made r).2.fs.get q = s.fs.get q ∨
      (q ∈ made ∧ s.fs.get q = some .dir ∧ (bfFinish s path made r).2.fs.get q = none)) := by
  have key2 : ∀ (fs : FS), fs.isFile path = false → (rmEmpty fs made).isFile path = false := by
    intro fs hf
    rcases rmEmpty_get made fs path with h' | ⟨_, _, hn⟩
    · simpa [isFile, h'] using hf
    · simp [isFile, hn]
  unfold bfFinish at h ⊢
  cases r with
  | error e' =>
    simp only at h ⊢
    simp at h; subst h
    refine ⟨Or.inl ?_, key2 _, ?_, fun q => rmEmpty_get made s.fs q⟩ <;> first | rfl | trivial
  | ok v =>
    simp only at h ⊢
    cases hw : pendingFind s.pending path with
    | some bm => obtain ⟨b, m⟩ := bm; simp [hw] at h
    | none =>
      simp only [hw] at h ⊢
      simp at h; subst h
      refine ⟨Or.inr ⟨v, ?_, ?_, ?_⟩, key2 _, ?_, fun q => rmEmpty_get made s.fs q⟩ <;> first | rfl | trivial

/-- C10 (setup): when `build_file` gets as far as calling the function, the target is absent, every
    directory made for it exists, and the target is hidden from queries (invisible while the function
    runs). -/
theorem C10_setup (s s1 : SpecSt) (path : Path) (made : List Path)
    (h : bfSetup s path = .ok (s1, made)) :
    s1.fs.isFile path = false ∧ path ∈ s1.inProg ∧ path ∈ s1.claimedFiles ∧ path ≠ s.cacheFile ∧
    ¬ (s.claimedFiles.contains path = true) := by
  unfold bfSetup at h
  split at h; · cases h
  rename_i hc
  split at h; · cases h
  rename_i hcf
  split at h; · cases h
  split at h; · cases h
  rename_i ds _
  split at h; · cases h
  split at h; · cases h
  simp only [Except.ok.injEq, Prod.mk.injEq] at h
  obtain ⟨hs, _⟩ := h
  subst hs
  refine ⟨?_, by simp [setupState], by simp [setupState], hcf, hc⟩
  exact isFile_eraseIfFile _ _

end FB
