/-
  Invariants of `build_dirs.py` (`FB.BuildDirs`) that hold after every sequence of calls, on every tree:
  `_exists_dirs` is closed under `os.path.dirname` (the structure the comment in the source promises), every
  directory with an entry in `_created_dirs_map` has reservations, no directory is both "created" and
  "created, then removed by an error", and no reservation count is zero.
-/
import FB.BuildDirs
import Mathlib.Data.List.Basic
namespace FB
namespace BuildDirs

/-- `_exists_dirs` is closed under `dirname`, except that the parent `miss` may still be missing -/
def ClosedBut (e : List Path) (miss : Option Path) : Prop :=
  ∀ x ∈ e, x.dropLast ∈ e ∨ some x.dropLast = miss

def Closed (e : List Path) : Prop := ∀ x ∈ e, x.dropLast ∈ e

theorem closed_iff (e : List Path) : Closed e ↔ ClosedBut e none := by
  constructor
  · intro h x hx; exact Or.inl (h x hx)
  · intro h x hx
    rcases h x hx with h' | h'
    · exact h'
    · cases h'

theorem existsUp_fields : ∀ (n : Nat) (parent : Path) (b : BD), parent.length = n →
    (existsUp b parent).counts = b.counts ∧ (existsUp b parent).created = b.created ∧
      (existsUp b parent).errorCreated = b.errorCreated := by
  intro n
  induction n with
  | zero =>
    intro parent b hl
    have hp : parent = [] := List.length_eq_zero_iff.mp hl
    subst hp
    rw [existsUp]
    split
    · exact ⟨rfl, rfl, rfl⟩
    · simp only [dite_true]; exact ⟨trivial, trivial, trivial⟩
  | succ n ih =>
    intro parent b hl
    have hpne : parent ≠ [] := by intro e; subst e; simp at hl
    rw [existsUp]
    split
    · exact ⟨rfl, rfl, rfl⟩
    · simp only [hpne, dite_false]
      exact ih parent.dropLast _ (by simp [List.length_dropLast, hl])

theorem existsUp_closed : ∀ (n : Nat) (parent : Path) (b : BD), parent.length = n →
    ClosedBut b.existsDirs (some parent) → Closed (existsUp b parent).existsDirs := by
  intro n
  induction n with
  | zero =>
    intro parent b hl h
    have hp : parent = [] := List.length_eq_zero_iff.mp hl
    subst hp
    rw [existsUp]
    by_cases hc : b.existsDirs.contains ([] : Path) = true
    · simp only [hc, if_true]
      have hm : ([] : Path) ∈ b.existsDirs := by simpa using hc
      intro x hx
      rcases h x hx with h' | h'
      · exact h'
      · injection h' with h'; rw [h']; exact hm
    · simp only [hc, Bool.false_eq_true, if_false, dite_true]
      intro x hx
      rcases List.mem_cons.mp hx with rfl | hx
      · simp
      · rcases h x hx with h' | h'
        · exact List.mem_cons_of_mem _ h'
        · injection h' with h'; rw [h']; simp
  | succ n ih =>
    intro parent b hl h
    have hpne : parent ≠ [] := by intro e; subst e; simp at hl
    rw [existsUp]
    by_cases hc : b.existsDirs.contains parent = true
    · simp only [hc, if_true]
      have hm : parent ∈ b.existsDirs := by simpa using hc
      intro x hx
      rcases h x hx with h' | h'
      · exact h'
      · injection h' with h'; rw [h']; exact hm
    · simp only [hc, Bool.false_eq_true, if_false, hpne, dite_false]
      exact ih parent.dropLast { b with existsDirs := parent :: b.existsDirs } (by simp [List.length_dropLast, hl]) (by
        intro x hx
        rcases List.mem_cons.mp hx with rfl | hx
        · exact Or.inr rfl
        · rcases h x hx with h' | h'
          · exact Or.inl (List.mem_cons_of_mem _ h')
          · injection h' with h'; left; rw [h']; simp)

theorem handleDirExists_fields : ∀ (n : Nat) (parent : Path) (b : BD), parent.length = n →
    (handleDirExists b parent).counts = b.counts ∧ (handleDirExists b parent).created = b.created ∧
      (handleDirExists b parent).errorCreated = b.errorCreated := by
  intro n
  induction n with
  | zero =>
    intro parent b hl
    have hp : parent = [] := List.length_eq_zero_iff.mp hl
    subst hp
    rw [handleDirExists]
    split
    · exact existsUp_fields 0 [] b rfl
    · simp only [dite_true]; exact ⟨trivial, trivial, trivial⟩
  | succ n ih =>
    intro parent b hl
    have hpne : parent ≠ [] := by intro e; subst e; simp at hl
    rw [handleDirExists]
    split
    · exact existsUp_fields _ parent b rfl
    · simp only [hpne, dite_false]
      exact ih parent.dropLast _ (by simp [List.length_dropLast, hl])

theorem handleDirExists_closed : ∀ (n : Nat) (parent : Path) (b : BD), parent.length = n →
    ClosedBut b.existsDirs (some parent) → Closed (handleDirExists b parent).existsDirs := by
  intro n
  induction n with
  | zero =>
    intro parent b hl h
    have hp : parent = [] := List.length_eq_zero_iff.mp hl
    subst hp
    rw [handleDirExists]
    split
    · exact existsUp_closed 0 [] b rfl h
    · simp only [dite_true]
      intro x hx
      rcases List.mem_cons.mp hx with rfl | hx
      · simp
      · rcases h x hx with h' | h'
        · exact List.mem_cons_of_mem _ h'
        · injection h' with h'; rw [h']; simp
  | succ n ih =>
    intro parent b hl h
    have hpne : parent ≠ [] := by intro e; subst e; simp at hl
    rw [handleDirExists]
    split
    · exact existsUp_closed _ parent b rfl h
    · simp only [hpne, dite_false]
      exact ih parent.dropLast _ (by simp [List.length_dropLast, hl]) (by
        intro x hx
        rcases List.mem_cons.mp hx with rfl | hx
        · exact Or.inr rfl
        · rcases h x hx with h' | h'
          · exact Or.inl (List.mem_cons_of_mem _ h')
          · injection h' with h'; left; rw [h']; simp)

/-- the invariants -/
structure Inv (b : BD) : Prop where
  closed : Closed b.existsDirs
  createdReserved : ∀ d ∈ b.created, hasCount b d = true
  disjoint : ∀ d ∈ b.created, d ∉ b.errorCreated
  positive : ∀ x ∈ b.counts, 0 < x.2

theorem Closed.but {e : List Path} (h : Closed e) (m : Option Path) : ClosedBut e m := fun x hx => Or.inl (h x hx)

theorem inv_init (ds fs : List Path) : Inv (init ds fs) :=
  ⟨(fun x hx => nomatch hx), (fun d hd => nomatch hd), (fun d hd => nomatch hd), (fun x hx => nomatch hx)⟩

theorem handleDirExists_inv (b : BD) (p : Path) (h : Inv b) : Inv (handleDirExists b p) := by
  have hc := handleDirExists_closed _ p b rfl (h.closed.but _)
  obtain ⟨hcnt, hcr, her⟩ := handleDirExists_fields _ p b rfl
  refine ⟨hc, fun d hd => ?_, fun d hd => ?_, fun x hx => ?_⟩
  · rw [hcr] at hd; simpa [hasCount, hcnt] using h.createdReserved d hd
  · rw [hcr] at hd; rw [her]; exact h.disjoint d hd
  · rw [hcnt] at hx; exact h.positive x hx

end BuildDirs
end FB

namespace FB
namespace BuildDirs

theorem hasCount_setCount (cnt : List (Path × Nat)) (d e : Path) (n : Nat) (b b0 : BD)
    (h : b.counts = setCount cnt d n) (h0 : b0.counts = cnt) : hasCount b e = (decide (e = d) || hasCount b0 e) := by
  simp only [hasCount, h, h0, setCount, List.any_cons, List.any_filter]
  by_cases he : e = d
  · subst he; simp
  · have : ¬ d = e := fun hh => he hh.symm
    simp only [this, decide_false, Bool.false_or, he]
    congr 1
    funext x
    by_cases hx : x.1 = e
    · have : x.1 ≠ d := fun h' => he (hx ▸ h')
      simp [hx, this]
      exact fun h' => absurd (hx ▸ h') he
    · simp [hx]

theorem mem_add (l : List Path) (p x : Path) : x ∈ add l p ↔ x = p ∨ x ∈ l := by
  unfold add
  split
  · rename_i h
    have : p ∈ l := by simpa using h
    constructor
    · exact Or.inr
    · rintro (rfl | h')
      · exact this
      · exact h'
  · simp

theorem mem_discard (l : List Path) (p x : Path) : x ∈ discard l p ↔ x ∈ l ∧ x ≠ p := by
  simp [discard]

theorem startedLoop_inv (cds : List Path) : ∀ (n : Nat) (parent : Path) (b : BD) (locked : List Path),
    parent.length = n → Inv b → Inv (startedLoop b cds parent locked).1 := by
  intro n
  induction n with
  | zero =>
    intro parent b locked hl h
    have hp : parent = [] := List.length_eq_zero_iff.mp hl
    subst hp
    rw [startedLoop]
    have hpos : ∀ x ∈ setCount b.counts [] (getCount b [] + 1), 0 < x.2 := by
      intro x hx
      simp only [setCount, List.mem_cons, List.mem_filter] at hx
      rcases hx with rfl | hx
      · simp
      · exact h.positive x hx.1
    have hres : ∀ d ∈ b.created, hasCount { b with counts := setCount b.counts [] (getCount b [] + 1) } d = true := by
      intro d hd
      rw [hasCount_setCount b.counts [] d _ _ b rfl rfl, h.createdReserved d hd]; simp
    split
    · exact ⟨h.closed, hres, h.disjoint, hpos⟩
    · simp only [dite_true]
      split
      · simp only
        refine ⟨h.closed, ?_, ?_, hpos⟩
        · intro d hd
          rcases (mem_add _ _ _).mp hd with rfl | hd
          · rw [hasCount_setCount b.counts [] _ _ _ b rfl rfl]; simp
          · exact hres d hd
        · intro d hd hde
          have hne := ((mem_discard _ _ _).mp hde).2
          rcases (mem_add _ _ _).mp hd with rfl | hd
          · exact hne rfl
          · exact h.disjoint d hd ((mem_discard _ _ _).mp hde).1
      · exact ⟨h.closed, hres, h.disjoint, hpos⟩
  | succ n ih =>
    intro parent b locked hl h
    have hpne : parent ≠ [] := by intro e; subst e; simp at hl
    rw [startedLoop]
    have hpos : ∀ x ∈ setCount b.counts parent (getCount b parent + 1), 0 < x.2 := by
      intro x hx
      simp only [setCount, List.mem_cons, List.mem_filter] at hx
      rcases hx with rfl | hx
      · simp
      · exact h.positive x hx.1
    have hres : ∀ d ∈ b.created, hasCount { b with counts := setCount b.counts parent (getCount b parent + 1) } d = true := by
      intro d hd
      rw [hasCount_setCount b.counts parent d _ _ b rfl rfl, h.createdReserved d hd]; simp
    split
    · exact ⟨h.closed, hres, h.disjoint, hpos⟩
    · simp only [hpne, dite_false]
      split
      · simp only
        apply ih _ _ _ (by simp [List.length_dropLast, hl])
        refine ⟨h.closed, ?_, ?_, hpos⟩
        · intro d hd
          rcases (mem_add _ _ _).mp hd with rfl | hd
          · rw [hasCount_setCount b.counts d _ _ _ b rfl rfl]; simp
          · exact hres d hd
        · intro d hd hde
          have hne := ((mem_discard _ _ _).mp hde).2
          rcases (mem_add _ _ _).mp hd with rfl | hd
          · exact hne rfl
          · exact h.disjoint d hd ((mem_discard _ _ _).mp hde).1
      · exact ih _ _ _ (by simp [List.length_dropLast, hl]) ⟨h.closed, hres, h.disjoint, hpos⟩

theorem registerStep_inv (cds : List Path) (parent : Path) (b : BD) (h : Inv b)
    (hc : hasCount b parent = true) :
    Inv { b with created := add b.created parent, errorCreated := discard b.errorCreated parent,
                 removedFiles := discard b.removedFiles parent } := by
  refine ⟨h.closed, ?_, ?_, h.positive⟩
  · intro d hd
    rcases (mem_add _ _ _).mp hd with rfl | hd
    · exact hc
    · exact h.createdReserved d hd
  · intro d hd hde
    have hne := ((mem_discard _ _ _).mp hde).2
    rcases (mem_add _ _ _).mp hd with rfl | hd
    · exact hne rfl
    · exact h.disjoint d hd ((mem_discard _ _ _).mp hde).1

theorem registerUp_inv (cds : List Path) : ∀ (n : Nat) (parent : Path) (b : BD) (locked : List Path),
    parent.length = n → Inv b → Inv (registerUp b cds parent locked).1 := by
  intro n
  induction n with
  | zero =>
    intro parent b locked hl h
    have hp : parent = [] := List.length_eq_zero_iff.mp hl
    subst hp
    rw [registerUp]
    by_cases hc : ((cds.contains [] || b.errorCreated.contains []) && !b.created.contains [] && hasCount b []) = true
    · simp only [hc, if_true, dite_true]
      simp only [Bool.and_eq_true] at hc
      exact registerStep_inv cds [] b h hc.2
    · simp only [hc, dite_true]; exact h
  | succ n ih =>
    intro parent b locked hl h
    have hpne : parent ≠ [] := by intro e; subst e; simp at hl
    rw [registerUp]
    by_cases hc : ((cds.contains parent || b.errorCreated.contains parent) && !b.created.contains parent && hasCount b parent) = true
    · simp only [hc, if_true, hpne, dite_false]
      simp only [Bool.and_eq_true] at hc
      exact ih _ _ _ (by simp [List.length_dropLast, hl]) (registerStep_inv cds parent b h hc.2)
    · simp only [hc, hpne, dite_false]
      exact ih _ _ _ (by simp [List.length_dropLast, hl]) h

theorem started_inv (b : BD) (p : Path) (cds : List Path) (h : Inv b) : Inv (started b p cds).1 := by
  unfold started
  cases p with
  | nil => exact ⟨h.closed, h.createdReserved, h.disjoint, h.positive⟩
  | cons a r =>
    have h1 := startedLoop_inv cds _ (a :: r).dropLast { b with removedFiles := discard b.removedFiles (a :: r) } [] rfl
      ⟨h.closed, h.createdReserved, h.disjoint, h.positive⟩
    simp only
    split
    · exact h1
    · exact registerUp_inv cds _ _ _ _ rfl h1

end BuildDirs
end FB

namespace FB
namespace BuildDirs

theorem hasCount_filter (b b' : BD) (d e : Path) (h : b'.counts = b.counts.filter (fun x => x.1 ≠ d)) (hne : e ≠ d) :
    hasCount b' e = hasCount b e := by
  simp only [hasCount, h, List.any_filter]
  congr 1
  funext x
  by_cases hx : x.1 = e
  · have : x.1 ≠ d := fun h' => hne (hx ▸ h')
    simp [hx, this]
    exact fun h' => absurd (hx ▸ h') hne
  · simp [hx]

theorem errorLoop_inv : ∀ (n : Nat) (parent : Path) (b b' : BD), parent.length = n → Inv b →
    errorLoop b parent = some b' → Inv b' := by
  intro n
  induction n with
  | zero =>
    intro parent b b' hl h he
    have hp : parent = [] := List.length_eq_zero_iff.mp hl
    subst hp
    rw [errorLoop] at he
    split at he
    · cases he
    · rename_i k m hfind
      split at he
      · rename_i hgt
        injection he with he; subst he
        refine ⟨h.closed, ?_, h.disjoint, ?_⟩
        · intro d hd
          rw [hasCount_setCount b.counts [] d _ _ b rfl rfl, h.createdReserved d hd]; simp
        · intro x hx
          simp only [setCount, List.mem_cons, List.mem_filter] at hx
          rcases hx with rfl | hx
          · exact hgt
          · exact h.positive x hx.1
      · simp only [dite_true] at he
        injection he with he; subst he
        split
        · refine ⟨(fun x hx => nomatch hx), ?_, ?_, ?_⟩
          · intro d hd
            obtain ⟨hd1, hd2⟩ := (mem_discard _ _ _).mp hd
            rw [hasCount_filter b _ [] d rfl hd2]; exact h.createdReserved d hd1
          · intro d hd hde
            obtain ⟨hd1, hd2⟩ := (mem_discard _ _ _).mp hd
            rcases (mem_add _ _ _).mp hde with h' | h'
            · exact hd2 h'
            · exact h.disjoint d hd1 h'
          · intro x hx
            exact h.positive x (List.mem_filter.mp hx).1
        · rename_i hnc
          have hnm : ([] : Path) ∉ b.created := by simpa using hnc
          refine ⟨h.closed, ?_, h.disjoint, ?_⟩
          · intro d hd
            have hne : d ≠ [] := fun e => hnm (e ▸ hd)
            rw [hasCount_filter b _ [] d rfl hne]; exact h.createdReserved d hd
          · intro x hx
            exact h.positive x (List.mem_filter.mp hx).1
  | succ n ih =>
    intro parent b b' hl h he
    have hpne : parent ≠ [] := by intro e; subst e; simp at hl
    rw [errorLoop] at he
    split at he
    · cases he
    · rename_i k m hfind
      split at he
      · rename_i hgt
        injection he with he; subst he
        refine ⟨h.closed, ?_, h.disjoint, ?_⟩
        · intro d hd
          rw [hasCount_setCount b.counts parent d _ _ b rfl rfl, h.createdReserved d hd]; simp
        · intro x hx
          simp only [setCount, List.mem_cons, List.mem_filter] at hx
          rcases hx with rfl | hx
          · exact hgt
          · exact h.positive x hx.1
      · simp only [hpne, dite_false] at he
        refine ih parent.dropLast _ b' (by simp [List.length_dropLast, hl]) ?_ he
        split
        · refine ⟨(fun x hx => nomatch hx), ?_, ?_, ?_⟩
          · intro d hd
            obtain ⟨hd1, hd2⟩ := (mem_discard _ _ _).mp hd
            rw [hasCount_filter b _ parent d rfl hd2]; exact h.createdReserved d hd1
          · intro d hd hde
            obtain ⟨hd1, hd2⟩ := (mem_discard _ _ _).mp hd
            rcases (mem_add _ _ _).mp hde with h' | h'
            · exact hd2 h'
            · exact h.disjoint d hd1 h'
          · intro x hx
            exact h.positive x (List.mem_filter.mp hx).1
        · rename_i hnc
          have hnm : parent ∉ b.created := by simpa using hnc
          refine ⟨h.closed, ?_, h.disjoint, ?_⟩
          · intro d hd
            have hne : d ≠ parent := fun e => hnm (e ▸ hd)
            rw [hasCount_filter b _ parent d rfl hne]; exact h.createdReserved d hd
          · intro x hx
            exact h.positive x (List.mem_filter.mp hx).1

theorem error_inv (b b' : BD) (p : Path) (h : Inv b) (he : error b p = some b') : Inv b' := by
  unfold error at he
  cases p with
  | nil => injection he with he; subst he; exact h
  | cons a r => exact errorLoop_inv _ _ b b' rfl h he

theorem Inv.congr {b b' : BD} (h : Inv b) (h1 : b'.existsDirs = b.existsDirs) (h2 : b'.counts = b.counts)
    (h3 : b'.created = b.created) (h4 : b'.errorCreated = b.errorCreated) : Inv b' :=
  ⟨h1 ▸ h.closed, fun d hd => by rw [h3] at hd; simpa [hasCount, h2] using h.createdReserved d hd,
    fun d hd => by rw [h3] at hd; rw [h4]; exact h.disjoint d hd, fun x hx => by rw [h2] at hx; exact h.positive x hx⟩

mutual
theorem checkMaybeRemoved_inv (fs : FS) : ∀ (fuel : Nat) (b : BD) (d : Path) (b' : BD) (r : Bool), Inv b →
    checkMaybeRemoved fs fuel b d = some (b', r) → Inv b'
  | 0, _, _, _, _, _, he => by simp [checkMaybeRemoved] at he
  | fuel + 1, b, d, b', r, h, he => by
    rw [checkMaybeRemoved] at he
    split at he
    · cases he
    · have h1 : Inv { b with maybeRemoved := discard b.maybeRemoved d } := h.congr rfl rfl rfl rfl
      simp only at he
      split at he
      · injection he with he
        injection he with he1 he2
        subst he1; exact handleDirExists_inv _ _ h1
      · split at he
        · injection he with he
          injection he with he1 he2
          subst he1; exact h1.congr rfl rfl rfl rfl
        · injection he with he
          injection he with he1 he2
          subst he1; exact handleDirExists_inv _ _ h1
        · exact checkLoop_inv fs fuel _ d _ b' r h1 he
termination_by fuel _ _ _ _ _ _ => (fuel, 0)
theorem checkLoop_inv (fs : FS) : ∀ (fuel : Nat) (b : BD) (d : Path) (names : List String) (b' : BD) (r : Bool), Inv b →
    checkLoop fs fuel b d names = some (b', r) → Inv b'
  | _, b, d, [], b', r, h, he => by
    rw [checkLoop] at he
    injection he with he
    injection he with he1 he2
    subst he1; exact h.congr rfl rfl rfl rfl
  | fuel, b, d, n :: rest, b', r, h, he => by
    rw [checkLoop] at he
    split at he
    · split at he
      · injection he with he
        injection he with he1 he2
        subst he1; exact handleDirExists_inv _ _ h
      · exact checkLoop_inv fs fuel b d rest b' r h he
    · split at he
      · split at he
        · injection he with he
          injection he with he1 he2
          subst he1; exact handleDirExists_inv _ _ h
        · exact checkLoop_inv fs fuel b d rest b' r h he
      · split at he
        · split at he
          · cases he
          · rename_i b1 hcm
            exact checkLoop_inv fs fuel b1 d rest b' r (checkMaybeRemoved_inv fs fuel b _ b1 true h hcm) he
          · rename_i b1 hcm
            injection he with he
            injection he with he1 he2
            subst he1; exact checkMaybeRemoved_inv fs fuel b _ b1 false h hcm
        · injection he with he
          injection he with he1 he2
          subst he1
          split
          · exact handleDirExists_inv _ _ h
          · exact handleDirExists_inv _ _ h
termination_by fuel _ _ names _ _ _ _ => (fuel, names.length + 1)
end

theorem isRemoved_inv (fs : FS) (b b' : BD) (d : Path) (r : Bool) (h : Inv b)
    (he : isRemoved fs b d = some (b', r)) : Inv b' := by
  unfold isRemoved at he
  split at he
  · injection he with he; injection he with he1 _; subst he1; exact h
  · split at he
    · injection he with he; injection he with he1 _; subst he1; exact h
    · split at he
      · injection he with he; injection he with he1 _; subst he1; exact h
      · exact checkMaybeRemoved_inv fs _ b d b' r h he

/-- the calls `FileBuilder` and `SimpleOperationExecutor` make -/
inductive Cmd where
  | isRemoved (d : Path)
  | exists_ (d : Path)
  | started (p : Path) (createdDirs : List Path)
  | error (p : Path)

def step (fs : FS) (b : BD) : Cmd → Option BD
  | .isRemoved d => (isRemoved fs b d).map (·.1)
  | .exists_ d => some (handleDirExists b d)
  | .started p cds => some (started b p cds).1
  | .error p => error b p

/-- **The invariants hold after every sequence of calls** (that did not raise), whatever the tree looks like
    and however it changes between the calls. -/
theorem run_inv : ∀ (cmds : List (FS × Cmd)) (b b' : BD), Inv b →
    cmds.foldlM (fun b x => step x.1 b x.2) b = some b' → Inv b' := by
  intro cmds
  induction cmds with
  | nil => intro b b' h he; simp at he; subst he; exact h
  | cons x rest ih =>
    intro b b' h he
    simp only [List.foldlM] at he
    cases hs : step x.1 b x.2 with
    | none => simp [hs] at he
    | some b1 =>
      simp only [hs] at he
      refine ih b1 b' ?_ he
      obtain ⟨fs, cmd⟩ := x
      cases cmd with
      | isRemoved d =>
        simp only [step] at hs
        cases hr : isRemoved fs b d with
        | none => simp [hr] at hs
        | some res =>
          obtain ⟨bb, r⟩ := res
          simp [hr] at hs; subst hs
          exact isRemoved_inv fs b bb d r h hr
      | exists_ d => simp only [step] at hs; injection hs with hs; subst hs; exact handleDirExists_inv _ _ h
      | started p cds => simp only [step] at hs; injection hs with hs; subst hs; exact started_inv _ _ _ h
      | error p => simp only [step] at hs; exact error_inv b b1 p h hs

end BuildDirs
end FB
