/-
  C01 over whole histories: builds with arbitrary programs and version maps (committing, raising, or failing
  at the cache write), cleans, and arbitrary external changes of the tree between them.  In every step the
  cache logic returns what the from-scratch semantics returns, and the two trees stay equal up to
  modification times — provided each build's old cache is valid for its program (`CacheOK`; by
  `cacheOK_next` this follows from `Stable` and `FaithfulRec`).
-/
import FB.Props.C01Step
namespace FB
open FS Spec

/-- the record tables of the two worlds correspond entry by entry -/
def RecsSim (a : List (Nat × Rec)) (b : List (Nat × CacheRec)) : Prop :=
  List.Forall₂ (fun x y => x.1 = y.1 ∧ RecSim x.2 y.2) a b

/-- the invariant between the two worlds -/
structure HInv (ds : Nat) (w : World) (kw : KWorld) : Prop where
  fs : FS.Sim w.fs kw.fs
  dsz : w.dirSize = ds
  dirSize : w.dirSize = kw.dirSize
  nextSerial : w.nextSerial = kw.nextSerial
  recs : RecsSim w.recs kw.recs

/-- how the states of the cache file correspond -/
def CacheCorr : CacheState → KCacheState → Prop
  | .absent, .absent => True
  | .isDir, .isDir => True
  | .corrupt, .corrupt => True
  | .valid r, .valid kr => RecSim r kr
  | _, _ => False

theorem find_corr {a : List (Nat × Rec)} {b : List (Nat × CacheRec)} (h : RecsSim a b) (tok : String) :
    (a.find? (fun x => cacheToken x.1 == tok) = none ∧ b.find? (fun x => cacheToken x.1 == tok) = none) ∨
    (∃ x y, a.find? (fun x => cacheToken x.1 == tok) = some x ∧ b.find? (fun x => cacheToken x.1 == tok) = some y ∧
      RecSim x.2 y.2) := by
  induction h with
  | nil => left; simp
  | @cons x y l l' hxy _ ih =>
    simp only [List.find?_cons]
    rw [← hxy.1]
    by_cases hc : (cacheToken x.1 == tok) = true
    · simp only [hc]
      right; exact ⟨x, y, rfl, rfl, hxy.2⟩
    · have hc' : (cacheToken x.1 == tok) = false := by simpa using hc
      simp only [hc']
      exact ih

theorem cacheState_corr {ds : Nat} {w : World} {kw : KWorld} (h : HInv ds w kw) (cf : Path) :
    CacheCorr (w.cacheState cf) (kw.cacheState cf) := by
  unfold World.cacheState KWorld.cacheState
  have hs := h.fs cf
  cases ha : w.fs.get cf with
  | none =>
    rw [ha] at hs
    cases hb : kw.fs.get cf with
    | none => simp [CacheCorr]
    | some e => rw [hb] at hs; simp [Entry.sim] at hs
  | some e =>
    rw [ha] at hs
    cases hb : kw.fs.get cf with
    | none => rw [hb] at hs; cases e <;> simp [Entry.sim] at hs
    | some e' =>
      rw [hb] at hs
      cases e with
      | dir => cases e' with
        | dir => simp [CacheCorr]
        | file b m => simp [Entry.sim] at hs
      | file b m => cases e' with
        | dir => simp [Entry.sim] at hs
        | file b' m' =>
          simp only [Entry.sim] at hs
          subst hs
          simp only
          rcases find_corr h.recs b with ⟨h1, h2⟩ | ⟨x, y, h1, h2, h3⟩
          · rw [h1, h2]; simp [CacheCorr]
          · rw [h1, h2]; exact h3

/-- **C01, one build at any position of a history.** -/
theorem build_step {ds : Nat} (w : World) (kw : KWorld) (cf : Path) (name : String) (vs : List (String × Json))
    (root : Prog) (ab : Nat) (hinv : HInv ds w kw)
    (hok : ∀ kr, kw.cacheState cf = .valid kr → CacheOK ds kr vs root) :
    (Spec.build w cf name root [] [] ab).res = (Impl.build kw cf name vs root [] [] ab).res ∧
    HInv ds (Spec.build w cf name root [] [] ab).world (Impl.build kw cf name vs root [] [] ab).world := by
  have hcorr := cacheState_corr hinv cf
  have hgo : ∀ (r : Rec) (old : CacheRec), RecSim r old → CacheOK ds old vs root →
      (Spec.buildGo w cf name root [] [] ab r).res = (Impl.buildGo kw cf name vs root [] [] ab old).res ∧
      HInv ds (Spec.buildGo w cf name root [] [] ab r).world (Impl.buildGo kw cf name vs root [] [] ab old).world := by
    intro r old hrs hok'
    obtain ⟨h1, h2, h3, h4, h5, h6⟩ := buildGo_step w kw cf name vs root ab r old hinv.fs hinv.dirSize hinv.nextSerial hrs
      (by rw [hinv.dsz]; exact hok')
    refine ⟨h1, h2, ?_, h3, h4, ?_⟩
    · have : (Spec.buildGo w cf name root [] [] ab r).world.dirSize = w.dirSize := by
        unfold Spec.buildGo
        simp only
        split
        · rfl
        · split
          · rfl
          · rfl
      rw [this]; exact hinv.dsz
    · cases hres : (Spec.buildGo w cf name root [] [] ab r).res with
      | error e =>
        obtain ⟨ha, hb⟩ := h5 e hres
        rw [ha, hb]; exact hinv.recs
      | ok v =>
        obtain ⟨r', ops, created, rr, ww, ha, hb, hrs', _⟩ := (h6 v hres).ex
        rw [ha, hb]
        exact List.Forall₂.cons ⟨hinv.nextSerial, hrs'⟩ hinv.recs
  unfold Spec.build Impl.build
  cases ha : w.cacheState cf with
  | absent =>
    cases hb : kw.cacheState cf with
    | absent =>
      simp only
      exact hgo _ _ ⟨rfl, rfl, fun q => by simp [CacheRec.toRec, CacheRec.outputs, registeredL, dedup]⟩
        (CacheOK.empty _ _ _ _ _)
    | isDir => rw [ha, hb] at hcorr; exact absurd hcorr (by simp [CacheCorr])
    | corrupt => rw [ha, hb] at hcorr; exact absurd hcorr (by simp [CacheCorr])
    | valid kr => rw [ha, hb] at hcorr; exact absurd hcorr (by simp [CacheCorr])
  | isDir =>
    cases hb : kw.cacheState cf with
    | isDir => exact ⟨rfl, hinv⟩
    | absent => rw [ha, hb] at hcorr; exact absurd hcorr (by simp [CacheCorr])
    | corrupt => rw [ha, hb] at hcorr; exact absurd hcorr (by simp [CacheCorr])
    | valid kr => rw [ha, hb] at hcorr; exact absurd hcorr (by simp [CacheCorr])
  | corrupt =>
    cases hb : kw.cacheState cf with
    | corrupt => exact ⟨rfl, hinv⟩
    | absent => rw [ha, hb] at hcorr; exact absurd hcorr (by simp [CacheCorr])
    | isDir => rw [ha, hb] at hcorr; exact absurd hcorr (by simp [CacheCorr])
    | valid kr => rw [ha, hb] at hcorr; exact absurd hcorr (by simp [CacheCorr])
  | valid r =>
    cases hb : kw.cacheState cf with
    | valid kr =>
      rw [ha, hb] at hcorr
      have hrs : RecSim r kr := hcorr
      simp only
      rw [hrs.name]
      by_cases hn : kr.buildName = name
      · simp only [hn, if_true]
        exact hgo r kr hrs (hok kr hb)
      · simp only [hn, if_false]
        exact ⟨trivial, hinv⟩
    | absent => rw [ha, hb] at hcorr; exact absurd hcorr (by simp [CacheCorr])
    | isDir => rw [ha, hb] at hcorr; exact absurd hcorr (by simp [CacheCorr])
    | corrupt => rw [ha, hb] at hcorr; exact absurd hcorr (by simp [CacheCorr])

/-- ghost table: the program of the build that wrote the record with a given serial number -/
abbrev Progs := List (Nat × Prog)

/-- every record in the table was written by a build whose records follow its program -/
def HValid (ds : Nat) (kw : KWorld) (pg : Progs) : Prop :=
  ∀ x ∈ kw.recs, ∃ root0, (x.1, root0) ∈ pg ∧ ∃ name ops created vs rr ww,
    x.2 = newRec name ops created vs ∧ Follows ds root0 none ops rr ww

/-- the ghost table after a build -/
def nextProgs (pg : Progs) (kw : KWorld) (root : Prog) (res : CallRes) : Progs :=
  match res with
  | .ok _ => (kw.nextSerial, root) :: pg
  | .error _ => pg

theorem build_step_valid {ds : Nat} (w : World) (kw : KWorld) (pg : Progs) (cf : Path) (name : String)
    (vs : List (String × Json)) (root : Prog) (ab : Nat) (hinv : HInv ds w kw) (hval : HValid ds kw pg)
    (hok : ∀ kr, kw.cacheState cf = .valid kr → CacheOK ds kr vs root) :
    HValid ds (Impl.build kw cf name vs root [] [] ab).world
      (nextProgs pg kw root (Impl.build kw cf name vs root [] [] ab).res) := by
  have hcorr := cacheState_corr hinv cf
  have hkeep : ∀ res, HValid ds kw (nextProgs pg kw root res) := by
    intro res x hx
    obtain ⟨root0, h1, h2⟩ := hval x hx
    refine ⟨root0, ?_, h2⟩
    unfold nextProgs
    split
    · exact List.mem_cons_of_mem _ h1
    · exact h1
  have hgo : ∀ (r : Rec) (old : CacheRec), RecSim r old → CacheOK ds old vs root →
      HValid ds (Impl.buildGo kw cf name vs root [] [] ab old).world
        (nextProgs pg kw root (Impl.buildGo kw cf name vs root [] [] ab old).res) := by
    intro r old hrs hok'
    obtain ⟨h1, _, _, _, h5, h6⟩ := buildGo_step w kw cf name vs root ab r old hinv.fs hinv.dirSize hinv.nextSerial hrs
      (by rw [hinv.dsz]; exact hok')
    rw [← h1]
    cases hres : (Spec.buildGo w cf name root [] [] ab r).res with
    | error e =>
      obtain ⟨_, hb⟩ := h5 e hres
      intro x hx; rw [hb] at hx; exact hval x hx
    | ok v =>
      obtain ⟨r', ops, created, rr, ww, _, hb, _, hfol⟩ := (h6 v hres).ex
      intro x hx
      rw [hb] at hx
      rcases List.mem_cons.mp hx with rfl | hx
      · exact ⟨root, List.mem_cons_self .., name, ops, created, vs, rr, ww, rfl, by rw [← hinv.dsz]; exact hfol⟩
      · obtain ⟨root0, h1', h2'⟩ := hval x hx
        exact ⟨root0, List.mem_cons_of_mem _ h1', h2'⟩
  unfold Impl.build
  cases hb : kw.cacheState cf with
  | absent =>
    simp only
    exact hgo { buildName := name, outputs := [], createdDirs := [] } _
      ⟨rfl, rfl, fun q => by simp [CacheRec.toRec, CacheRec.outputs, registeredL, dedup]⟩ (CacheOK.empty _ _ _ _ _)
  | isDir => exact hkeep _
  | corrupt => exact hkeep _
  | valid kr =>
    simp only
    split
    · cases ha : w.cacheState cf with
      | valid r => rw [ha, hb] at hcorr; exact hgo r kr hcorr (hok kr hb)
      | absent => rw [ha, hb] at hcorr; exact absurd hcorr (by simp [CacheCorr])
      | isDir => rw [ha, hb] at hcorr; exact absurd hcorr (by simp [CacheCorr])
      | corrupt => rw [ha, hb] at hcorr; exact absurd hcorr (by simp [CacheCorr])
    · exact hkeep _

/-- `clean` in both worlds -/
theorem clean_step {ds : Nat} (w : World) (kw : KWorld) (cf : Path) (bn : Option String) (hinv : HInv ds w kw) :
    (Spec.clean w cf bn).res = (Impl.clean kw cf bn).res ∧
    HInv ds (Spec.clean w cf bn).world (Impl.clean kw cf bn).world ∧
    (Impl.clean kw cf bn).world.recs = kw.recs := by
  have hcorr := cacheState_corr hinv cf
  unfold Spec.clean Impl.clean
  cases ha : w.cacheState cf with
  | absent =>
    cases hb : kw.cacheState cf with
    | absent => exact ⟨rfl, hinv, rfl⟩
    | isDir => rw [ha, hb] at hcorr; exact absurd hcorr (by simp [CacheCorr])
    | corrupt => rw [ha, hb] at hcorr; exact absurd hcorr (by simp [CacheCorr])
    | valid kr => rw [ha, hb] at hcorr; exact absurd hcorr (by simp [CacheCorr])
  | isDir =>
    cases hb : kw.cacheState cf with
    | isDir => exact ⟨rfl, hinv, rfl⟩
    | absent => rw [ha, hb] at hcorr; exact absurd hcorr (by simp [CacheCorr])
    | corrupt => rw [ha, hb] at hcorr; exact absurd hcorr (by simp [CacheCorr])
    | valid kr => rw [ha, hb] at hcorr; exact absurd hcorr (by simp [CacheCorr])
  | corrupt =>
    cases hb : kw.cacheState cf with
    | corrupt => exact ⟨rfl, hinv, rfl⟩
    | absent => rw [ha, hb] at hcorr; exact absurd hcorr (by simp [CacheCorr])
    | isDir => rw [ha, hb] at hcorr; exact absurd hcorr (by simp [CacheCorr])
    | valid kr => rw [ha, hb] at hcorr; exact absurd hcorr (by simp [CacheCorr])
  | valid r =>
    cases hb : kw.cacheState cf with
    | valid kr =>
      rw [ha, hb] at hcorr
      have hrs : RecSim r kr := hcorr
      simp only
      rw [hrs.name]
      split
      · exact ⟨rfl, hinv, rfl⟩
      · exact ⟨rfl, ⟨sim_preClean' hinv.fs cf r kr hrs, hinv.dsz, hinv.dirSize, hinv.nextSerial, hinv.recs⟩, rfl⟩
    | absent => rw [ha, hb] at hcorr; exact absurd hcorr (by simp [CacheCorr])
    | isDir => rw [ha, hb] at hcorr; exact absurd hcorr (by simp [CacheCorr])
    | corrupt => rw [ha, hb] at hcorr; exact absurd hcorr (by simp [CacheCorr])

/-- one step of a history -/
inductive Step where
  | build (name : String) (vs : List (String × Json)) (root : Prog) (abort : Nat)
  | clean (name : Option String)
  /-- an external change of the tree; it may do anything that does not depend on modification times of
      files it does not write (`SimPreserving`) -/
  | change (f : FS → FS)

def SimPreserving (f : FS → FS) : Prop := ∀ a b, FS.Sim a b → FS.Sim (f a) (f b)

def stepS (cf : Path) (w : World) : Step → World × Option CallRes
  | .build name _ root ab => let o := Spec.build w cf name root [] [] ab; (o.world, some o.res)
  | .clean bn => let o := Spec.clean w cf bn; (o.world, some o.res)
  | .change f => ({ w with fs := f w.fs }, none)

def stepK (cf : Path) (kw : KWorld) : Step → KWorld × Option CallRes
  | .build name vs root ab => let o := Impl.build kw cf name vs root [] [] ab; (o.world, some o.res)
  | .clean bn => let o := Impl.clean kw cf bn; (o.world, some o.res)
  | .change f => ({ kw with fs := f kw.fs }, none)

def runS (cf : Path) : World → List Step → List (Option CallRes)
  | _, [] => []
  | w, st :: rest => (stepS cf w st).2 :: runS cf (stepS cf w st).1 rest

def runK (cf : Path) : KWorld → List Step → List (Option CallRes)
  | _, [] => []
  | kw, st :: rest => (stepK cf kw st).2 :: runK cf (stepK cf kw st).1 rest

/-- the condition on the user's side, stated along the execution of the cache logic (`pg`: which program
    wrote which record): whenever a build finds a valid cache written by a build of program `root0`,
    function names still denote the same functions (`Stable`) and the recorded comparison results identify
    contents (`FaithfulRec`); external changes do not depend on modification times -/
def UserOK (ds : Nat) (cf : Path) : KWorld → Progs → List Step → Prop
  | _, _, [] => True
  | kw, pg, .build name vs root ab :: rest =>
    (∀ n kr root0, (n, kr) ∈ kw.recs → (n, root0) ∈ pg → kw.cacheState cf = .valid kr →
      Stable ds kr vs root0 root ∧ ∀ y ∈ registeredL kr.roots, FaithfulRec y) ∧
    UserOK ds cf (stepK cf kw (.build name vs root ab)).1
      (nextProgs pg kw root (Impl.build kw cf name vs root [] [] ab).res) rest
  | kw, pg, .clean bn :: rest => UserOK ds cf (stepK cf kw (.clean bn)).1 pg rest
  | kw, pg, .change f :: rest => SimPreserving f ∧ UserOK ds cf (stepK cf kw (.change f)).1 pg rest

/-- a cache found valid during the history is valid for the program of the build that finds it -/
theorem cacheOK_of_userOK {ds : Nat} {kw : KWorld} {pg : Progs} (cf : Path) (hval : HValid ds kw pg)
    (vs : List (String × Json)) (root : Prog)
    (h : ∀ n kr root0, (n, kr) ∈ kw.recs → (n, root0) ∈ pg → kw.cacheState cf = .valid kr →
      Stable ds kr vs root0 root ∧ ∀ y ∈ registeredL kr.roots, FaithfulRec y) :
    ∀ kr, kw.cacheState cf = .valid kr → CacheOK ds kr vs root := by
  intro kr hkr
  have hmem : ∃ n, (n, kr) ∈ kw.recs := by
    unfold KWorld.cacheState at hkr
    split at hkr
    · cases hkr
    · cases hkr
    · split at hkr
      · rename_i n r hfind
        injection hkr with hkr; subst hkr
        exact ⟨n, List.mem_of_find?_eq_some hfind⟩
      · cases hkr
  obtain ⟨n, hmem⟩ := hmem
  obtain ⟨root0, hpg, name, ops, created, vs0, rr, ww, hx, hfol⟩ := hval _ hmem
  simp only at hx hpg
  obtain ⟨hst, hfa⟩ := h n kr root0 hmem hpg hkr
  subst hx
  exact cacheOK_next hfol name created vs0 vs hst hfa

/-- **C01 over every history.**  Builds of arbitrary programs with arbitrary version maps that commit, raise,
    or fail at the cache write; cleans; external changes of the tree — in any order and number: the cache
    logic returns in every step what the from-scratch semantics returns (and, by `build_step`, the trees
    agree up to modification times after every step). -/
theorem history_refines {ds : Nat} (cf : Path) (steps : List Step) : ∀ (w : World) (kw : KWorld) (pg : Progs),
    HInv ds w kw → HValid ds kw pg → UserOK ds cf kw pg steps →
    runS cf w steps = runK cf kw steps := by
  induction steps with
  | nil => intro w kw pg _ _ _; rfl
  | cons st rest ih =>
    intro w kw pg hinv hval huser
    cases st with
    | build name vs root ab =>
      obtain ⟨hu1, hu2⟩ := huser
      have hok := cacheOK_of_userOK cf hval vs root hu1
      obtain ⟨hres, hinv'⟩ := build_step w kw cf name vs root ab hinv hok
      have hval' := build_step_valid w kw pg cf name vs root ab hinv hval hok
      simp only [runS, runK, stepS, stepK]
      rw [hres]
      congr 1
      exact ih _ _ _ hinv' hval' hu2
    | clean bn =>
      obtain ⟨hres, hinv', hrecs⟩ := clean_step w kw cf bn hinv
      simp only [runS, runK, stepS, stepK]
      rw [hres]
      congr 1
      exact ih _ _ pg hinv' (by intro x hx; rw [hrecs] at hx; exact hval x hx) huser
    | change f =>
      obtain ⟨hf, hu2⟩ := huser
      simp only [runS, runK, stepS, stepK]
      congr 1
      exact ih _ _ pg ⟨hf _ _ hinv.fs, hinv.dsz, hinv.dirSize, hinv.nextSerial, hinv.recs⟩ hval hu2

/-- the empty worlds satisfy the invariant: a history may start from any tree -/
theorem hinv_init (fs : FS) (ds : Nat) :
    HInv ds { fs := fs, dirSize := ds } { fs := fs, dirSize := ds } ∧ HValid ds { fs := fs, dirSize := ds } [] :=
  ⟨⟨FS.Sim.refl _, rfl, rfl, rfl, List.Forall₂.nil⟩, fun _ hx => nomatch hx⟩

end FB
