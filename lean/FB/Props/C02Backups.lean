/-
  C02 — the undo log (`FB.Backups`, `file_backups.py`): `restore_all` puts every saved file back — bytes and
  modification time — provided its path is not a directory at that moment and no parent of it is a regular
  file (the two situations in which the Python logs an error and skips the file), and touches no other regular
  file.  The order in which `_roll_back` removes the build's directories *before* calling `restore_all` is what
  establishes the first proviso; seeds C03-B/C03-D/C03-E break exactly that.
-/
import FB.Backups
import FB.Lemmas.Spec
import Mathlib.Data.List.Basic
namespace FB
namespace Backups
open FS Spec

def properPrefix (a b : Path) : Prop := a <+: b ∧ a ≠ b

theorem dirsToMake_prefix (vfs : FS) (cf : Path) (bl : List Path) : ∀ (n : Nat) (d : Path) (made : List Path),
    d.length = n → dirsToMake vfs cf bl d = .ok made → ∀ x ∈ made, x <+: d := by
  intro n
  induction n with
  | zero =>
    intro d made hl h x hx
    have : d = [] := List.length_eq_zero_iff.mp hl
    subst this
    rw [dirsToMake] at h
    simp at h; subst h; cases hx
  | succ n ih =>
    intro d made hl h x hx
    have hd : d ≠ [] := by intro e; subst e; simp at hl
    rw [dirsToMake] at h
    simp only [hd, dite_false] at h
    split at h
    · simp at h; subst h; cases hx
    · split at h; · cases h
      split at h; · cases h
      split at h; · cases h
      split at h; · cases h
      rename_i r hr
      simp only [Except.ok.injEq] at h
      subst h
      rcases List.mem_append.mp hx with hx | hx
      · exact (ih d.dropLast r (by simp [hl]) hr x hx).trans (List.dropLast_prefix d)
      · simp only [List.mem_singleton] at hx; subst hx; exact List.prefix_refl _

theorem dirsToMake_ok (vfs : FS) : ∀ (n : Nat) (d : Path), d.length = n →
    (∀ a, a <+: d → vfs.isFile a = false) → ∃ made, dirsToMake vfs [] [] d = .ok made := by
  intro n
  induction n with
  | zero =>
    intro d hl _
    have : d = [] := List.length_eq_zero_iff.mp hl
    subst this
    exact ⟨[], by rw [dirsToMake]; simp⟩
  | succ n ih =>
    intro d hl h
    have hd : d ≠ [] := by intro e; subst e; simp at hl
    obtain ⟨r, hr⟩ := ih d.dropLast (by simp [hl]) (fun a ha => h a (ha.trans (List.dropLast_prefix d)))
    rw [dirsToMake]
    simp only [hd, dite_false]
    by_cases h1 : vfs.isDir d = true
    · exact ⟨[], by simp [h1]⟩
    · have h2 : vfs.isFile d = false := h d (List.prefix_refl _)
      simp only [h1, h2, Bool.false_eq_true, if_false, hd, List.contains_nil, hr]
      exact ⟨_, rfl⟩

/-- what one step of `restore_all` does to any path other than the one it restores -/
theorem restoreOne_other (fs : FS) (x : Path × Entry) (q : Path) (hq : q ≠ x.1) :
    (restoreOne fs x).get q = fs.get q ∨
      (fs.get q = none ∧ (restoreOne fs x).get q = some .dir ∧ properPrefix q x.1) := by
  unfold restoreOne
  split
  · exact Or.inl rfl
  · unfold makedirs
    cases hdm : dirsToMake fs [] [] x.1.dropLast with
    | error e => exact Or.inl rfl
    | ok ds =>
      simp only
      rw [get_set_ne _ _ _ _ hq]
      rcases mkdirs_get ds fs q with h | ⟨h1, h2⟩
      · exact Or.inl h
      · right
        refine ⟨h1, h2, ?_⟩
        -- `q` became a directory: it is one of the directories made, an ancestor of the restored path
        by_contra hnp
        have : ∀ (l : List Path) (f : FS), (∀ d ∈ l, d ≠ q) → (mkdirs f l).get q = f.get q := by
          intro l
          induction l with
          | nil => intro f _; rfl
          | cons d r ihl =>
            intro f hne
            have hstep : mkdirs f (d :: r) = mkdirs (mkdirStep f d) r := rfl
            rw [hstep, ihl _ (fun y hy => hne y (List.mem_cons_of_mem _ hy))]
            unfold mkdirStep
            cases hm : f.mkdir d with
            | error e => rfl
            | ok f' =>
              simp only
              rw [get_mkdir f f' d q hm]
              have : q ≠ d := fun e => hne d (List.mem_cons_self ..) e.symm
              simp [this]
        have hall : ∀ d ∈ ds, d ≠ q := by
          intro d hd e
          subst e
          have hp := dirsToMake_prefix fs [] [] _ _ ds rfl hdm d hd
          apply hnp
          refine ⟨hp.trans (List.dropLast_prefix x.1), ?_⟩
          intro e
          have h3 := hp.length_le
          rw [e, List.length_dropLast] at h3
          have : x.1.length ≠ 0 := by
            intro hz
            have : x.1 = [] := List.length_eq_zero_iff.mp hz
            rw [e] at h1
            simp [this, get_nil] at h1
          omega
        rw [this ds fs hall, h1] at h2
        cases h2

/-- one step of `restore_all` restores its file, if nothing is in the way -/
theorem restoreOne_self (fs : FS) (x : Path × Entry) (hne : x.1 ≠ []) (hnd : fs.isDir x.1 = false)
    (hanc : ∀ a, a <+: x.1.dropLast → fs.isFile a = false) : (restoreOne fs x).get x.1 = some x.2 := by
  unfold restoreOne
  simp only [hnd, Bool.false_eq_true, if_false]
  obtain ⟨ds, hds⟩ := dirsToMake_ok fs _ x.1.dropLast rfl hanc
  simp only [makedirs, hds]
  exact get_set_self _ _ _ hne

/-- **C02 (undo log)**: `restore_all` puts back every saved file and touches no other regular file. -/
theorem restoreAll_spec : ∀ (saved : List (Path × Entry)) (fs : FS),
    (saved.map (·.1)).Nodup →
    (∀ x ∈ saved, ∀ y ∈ saved, ¬ properPrefix x.1 y.1) →
    (∀ x ∈ saved, ∃ c m, x.2 = .file c m) →
    (∀ x ∈ saved, x.1 ≠ [] ∧ fs.isDir x.1 = false ∧ ∀ a, a <+: x.1.dropLast → fs.isFile a = false) →
    (∀ x ∈ saved, (saved.foldl restoreOne fs).get x.1 = some x.2) ∧
    (∀ q c m, fs.get q = some (.file c m) → (∀ x ∈ saved, x.1 ≠ q) →
      (saved.foldl restoreOne fs).get q = some (.file c m)) := by
  intro saved
  induction saved with
  | nil => intro fs _ _ _ _; exact ⟨(fun x hx => nomatch hx), (fun q c m h _ => h)⟩
  | cons x rest ih =>
    intro fs hnd hanti hfile hready
    simp only [List.foldl]
    have hnd' : x.1 ∉ rest.map (·.1) ∧ (rest.map (·.1)).Nodup := List.nodup_cons.mp hnd
    obtain ⟨hx1, hx2, hx3⟩ := hready x (List.mem_cons_self ..)
    have hself := restoreOne_self fs x hx1 hx2 hx3
    -- the rest is still ready in the new tree
    have hready' : ∀ y ∈ rest, y.1 ≠ [] ∧ (restoreOne fs x).isDir y.1 = false ∧
        ∀ a, a <+: y.1.dropLast → (restoreOne fs x).isFile a = false := by
      intro y hy
      obtain ⟨hy1, hy2, hy3⟩ := hready y (List.mem_cons_of_mem _ hy)
      have hyx : y.1 ≠ x.1 := by
        intro e
        exact hnd'.1 (List.mem_map.mpr ⟨y, hy, e⟩)
      refine ⟨hy1, ?_, ?_⟩
      · rcases restoreOne_other fs x y.1 hyx with h | ⟨_, _, hp⟩
        · simpa [isDir, h] using hy2
        · exact absurd hp (hanti y (List.mem_cons_of_mem _ hy) x (List.mem_cons_self ..))
      · intro a ha
        by_cases hax : a = x.1
        · -- the restored file would be a proper ancestor of `y`
          exfalso
          apply hanti x (List.mem_cons_self ..) y (List.mem_cons_of_mem _ hy)
          refine ⟨hax ▸ ha.trans (List.dropLast_prefix y.1), ?_⟩
          intro e
          have h3 := ha.length_le
          rw [hax, e, List.length_dropLast] at h3
          have : y.1.length ≠ 0 := by simpa using hy1
          omega
        · rcases restoreOne_other fs x a hax with h | ⟨_, h2, _⟩
          · simpa [isFile, h] using hy3 a ha
          · simp [isFile, h2]
    obtain ⟨ih1, ih2⟩ := ih (restoreOne fs x) hnd'.2
      (fun a ha b hb => hanti a (List.mem_cons_of_mem _ ha) b (List.mem_cons_of_mem _ hb))
      (fun a ha => hfile a (List.mem_cons_of_mem _ ha)) hready'
    constructor
    · intro y hy
      rcases List.mem_cons.mp hy with rfl | hy
      · obtain ⟨c, m, hc⟩ := hfile y (List.mem_cons_self ..)
        rw [hc] at hself ⊢
        exact ih2 y.1 c m hself (fun z hz e => hnd'.1 (List.mem_map.mpr ⟨z, hz, e⟩))
      · exact ih1 y hy
    · intro q c m hq hne
      have hqx : q ≠ x.1 := fun e => hne x (List.mem_cons_self ..) e.symm
      have : (restoreOne fs x).get q = some (.file c m) := by
        rcases restoreOne_other fs x q hqx with h | ⟨h1, _, _⟩
        · rw [h, hq]
        · rw [hq] at h1; cases h1
      exact ih2 q c m this (fun z hz => hne z (List.mem_cons_of_mem _ hz))

/-- saving a file removes it and remembers exactly what was there -/
theorem backUp_file (fs : FS) (b : BK) (p : Path) (c : String) (m : Nat) (hp : p ≠ []) (h : fs.get p = some (.file c m)) :
    (backUpAndRemove fs b p).1.get p = none ∧ (backUpAndRemove fs b p).2.1.saved = b.saved ++ [(p, .file c m)] ∧
    (backUpAndRemove fs b p).2.2 = true ∧ ∀ q, q ≠ p → (backUpAndRemove fs b p).1.get q = fs.get q := by
  simp only [backUpAndRemove, h]
  exact ⟨get_erase_self _ _ hp, trivial, trivial, fun q hq => get_erase_ne _ _ _ hq⟩

end Backups
end FB

namespace FB
namespace Backups
open FS

/-- the premises of `restoreAll_spec` are satisfiable, and the round trip works on a concrete tree: a file is
    saved, its directory is removed and something else is written; `restore_all` brings the old file back and
    leaves the foreign file alone -/
example :
    let fs0 : FS := [(["a"], .dir), (["a", "f"], .file "old" 1), (["g"], .file "g" 2)]
    let r := backUpAndRemove fs0 {} ["a", "f"]
    let fs1 := (r.1.rmtree ["a"]).set ["h"] (.file "new" 9)
    let fs2 := (restoreAll fs1 r.2.1).1
    r.2.2 = true ∧ fs2.get ["a", "f"] = some (.file "old" 1) ∧ fs2.get ["g"] = some (.file "g" 2) ∧
      fs2.get ["h"] = some (.file "new" 9) ∧ fs2.get ["a"] = some .dir := by
  decide +kernel

end Backups
end FB
