/-
  C14 — `_make_dirs` under a fault at any of its mutating calls keeps the bookkeeping `Undoable`
  (`makeDirsF_undoable`), so a rollback after it restores the pre-build regular files (`C14_makeDirs_fault_rollback`).
-/
import FB.Props.C02Steps
import FB.Props.C14MakeDirsF
namespace FB
namespace Rollback
open FS Spec Backups BuildDirs

/-- **`_make_dirs` keeps the bookkeeping `Undoable`**, whether it returns or fails at a `mkdir` or at a rename -/
theorem makeDirsF_undoable (oldCreated : List Path) (failAt : Option Nat) (P0 : FS) (r : RB) :
    ∀ (dirs : List Path) (i : Nat) (st : MakeDirs.St) (out : MakeDirs.St × Nat), dirs.Nodup →
      (∀ d ∈ dirs, d ∉ r.newOutputs ∧ d ∉ st.bk.saved.map (·.1)) →
      Undoable P0 st.fs (rbOf r st) →
      (MakeDirsF.loop oldCreated failAt dirs i st = .ok out ∨ MakeDirsF.loop oldCreated failAt dirs i st = .error out) →
      Undoable P0 out.1.fs (rbOf r out.1) := by
  intro dirs
  induction dirs with
  | nil =>
    intro i st out _ _ h hr
    simp only [MakeDirsF.loop] at hr
    rcases hr with hr | hr
    · simp only [Except.ok.injEq] at hr; rw [← hr]; exact h
    · cases hr
  | cons d rest ih =>
    intro i st out hnd hcond h hr
    have hnd' := List.nodup_cons.mp hnd
    obtain ⟨hdnew, hdsv⟩ := hcond d (List.mem_cons_self ..)
    rw [MakeDirsF.loop] at hr
    -- the move-aside step
    have haside : (∀ e, MakeDirsF.aside oldCreated failAt d i st = .error e → Undoable P0 e.1.fs (rbOf r e.1)) ∧
        (∀ st1 i1, MakeDirsF.aside oldCreated failAt d i st = .ok (st1, i1) →
          Undoable P0 st1.fs (rbOf r st1) ∧ (∀ x ∈ rest, x ∉ r.newOutputs ∧ x ∉ st1.bk.saved.map (·.1))) := by
      unfold MakeDirsF.aside
      by_cases hc : (st.fs.isFile d && oldCreated.contains d) = true
      · simp only [hc, if_true]
        by_cases hf : failAt = some i
        · simp only [hf, if_true]
          refine ⟨fun e he => ?_, (fun _ _ he => by cases he)⟩
          simp only [Except.error.injEq] at he
          rw [← he]
          exact h.rmEmpty st.made
        · simp only [hf, if_false]
          refine ⟨(fun _ he => by cases he), fun st1 i1 he => ?_⟩
          simp only [Except.ok.injEq, Prod.mk.injEq] at he
          rw [← he.1]
          simp only [Bool.and_eq_true] at hc
          obtain ⟨c, m, hg⟩ : ∃ c m, st.fs.get d = some (.file c m) := by
            have := hc.1
            unfold FS.isFile at this
            cases hg : st.fs.get d with
            | none => simp [hg] at this
            | some e => cases e with
              | dir => simp [hg] at this
              | file c m => exact ⟨c, m, rfl⟩
          have hb : Backups.backUpAndRemove st.fs st.bk d =
              (st.fs.erase d, { st.bk with saved := st.bk.saved ++ [(d, .file c m)] }, true) := by
            simp [Backups.backUpAndRemove, hg]
          refine ⟨?_, ?_⟩
          · have := h.moveAside d c m hg hdnew hdsv
            simp only [hb]
            exact this
          · intro x hx
            obtain ⟨g1, g2⟩ := hcond x (List.mem_cons_of_mem _ hx)
            refine ⟨g1, ?_⟩
            simp only [hb, List.map_append, List.mem_append, not_or]
            refine ⟨g2, ?_⟩
            simp
            exact fun e => hnd'.1 (e ▸ hx)
      · simp only [hc, Bool.false_eq_true, if_false]
        refine ⟨(fun _ he => by cases he), fun st1 i1 he => ?_⟩
        simp only [Except.ok.injEq, Prod.mk.injEq] at he
        rw [← he.1]
        exact ⟨h, fun x hx => hcond x (List.mem_cons_of_mem _ hx)⟩
    cases ha : MakeDirsF.aside oldCreated failAt d i st with
    | error e1 =>
      rw [ha] at hr
      rcases hr with hr | hr
      · cases hr
      · simp only [Except.error.injEq] at hr; rw [← hr]; exact haside.1 e1 ha
    | ok p =>
      obtain ⟨st1, i1⟩ := p
      rw [ha] at hr
      simp only at hr
      obtain ⟨hu1, hc1⟩ := haside.2 st1 i1 ha
      have hunwind : Undoable P0 (MakeDirsF.unwound st1).fs (rbOf r (MakeDirsF.unwound st1)) := hu1.rmEmpty st1.made
      by_cases hf : failAt = some i1
      · simp only [hf, if_true] at hr
        rcases hr with hr | hr
        · cases hr
        · simp only [Except.error.injEq] at hr; rw [← hr]; exact hunwind
      · simp only [hf, if_false] at hr
        cases hm : st1.fs.mkdir d with
        | error e =>
          rw [hm] at hr
          cases e with
          | fileExists => exact ih (i1 + 1) st1 out hnd'.2 hc1 hu1 hr
          | notFound =>
            rcases hr with hr | hr
            · cases hr
            · simp only [Except.error.injEq] at hr; rw [← hr]; exact hunwind
          | notADir =>
            rcases hr with hr | hr
            · cases hr
            · simp only [Except.error.injEq] at hr; rw [← hr]; exact hunwind
          | isADir =>
            rcases hr with hr | hr
            · cases hr
            · simp only [Except.error.injEq] at hr; rw [← hr]; exact hunwind
          | other =>
            rcases hr with hr | hr
            · cases hr
            · simp only [Except.error.injEq] at hr; rw [← hr]; exact hunwind
        | ok fs' =>
          rw [hm] at hr
          have habs := mkdir_absent st1.fs fs' d hm
          have hdne : d ≠ [] := by intro e; subst e; simp [FS.mkdir] at hm
          have hfs' : fs' = st1.fs.set d .dir := by
            unfold FS.mkdir at hm
            simp only [hdne, if_false] at hm
            split at hm <;> try cases hm
            split at hm
            · cases hm
            · simp only [Except.ok.injEq] at hm; exact hm.symm
          simp only at hr
          have hstep : Undoable P0 fs' (rbOf r { fs := fs', bk := st1.bk, made := st1.made ++ [d] }) := by
            have := (hu1.mkdir d habs hdne).dirs_mono ((st1.made ++ [d]) ++ r.createdDirs) (by
              intro x hx
              simp only [rbOf] at hx
              rcases List.mem_cons.mp hx with rfl | hx
              · simp
              · rcases List.mem_append.mp hx with hx | hx
                · simp [hx]
                · simp [hx])
            rw [hfs']
            exact this
          exact ih (i1 + 1) { fs := fs', bk := st1.bk, made := st1.made ++ [d] } out hnd'.2 hc1 hstep hr

/-- **C14 for `_make_dirs`, end to end**: an `OSError` at any `mkdir` or rename of `_make_dirs` (or none), then the
    rollback: exactly the regular files of the pre-build tree are back - bytes and times -, no new directory remains
    (up to the recorded directories of the previous build) -/
theorem C14_makeDirs_fault_rollback (oldCreated : List Path) (failAt : Option Nat) (P0 : FS) (r : RB) (hwf0 : TreeWF P0)
    (dirs : List Path) (i : Nat) (st : MakeDirs.St) (out : MakeDirs.St × Nat) (hnd : dirs.Nodup)
    (hcond : ∀ d ∈ dirs, d ∉ r.newOutputs ∧ d ∉ st.bk.saved.map (·.1))
    (h : Undoable P0 st.fs (rbOf r st))
    (hr : MakeDirsF.loop oldCreated failAt dirs i st = .ok out ∨ MakeDirsF.loop oldCreated failAt dirs i st = .error out) :
    (∀ p c m, P0.get p = some (.file c m) → (rollBack out.1.fs (rbOf r out.1)).get p = some (.file c m)) ∧
    (∀ p c m, (rollBack out.1.fs (rbOf r out.1)).get p = some (.file c m) → P0.get p = some (.file c m)) ∧
    (∀ d, (rollBack out.1.fs (rbOf r out.1)).isDir d = true → P0.isDir d = true ∨ d ∈ r.oldCreatedDirs) :=
  rollBack_restores_files P0 out.1.fs (rbOf r out.1) hwf0
    (makeDirsF_undoable oldCreated failAt P0 r dirs i st out hnd hcond h hr)

/-- the premises are met (non-vacuity): `_make_dirs` as the first disk-changing step of a build on any well-formed tree -/
theorem C14_makeDirs_fault_rollback_first_step (oldCreated : List Path) (failAt : Option Nat) (P0 : FS) (hwf0 : TreeWF P0)
    (oldOutputs oldCreatedDirs dirs : List Path) (hnd : dirs.Nodup) (out : MakeDirs.St × Nat)
    (hr : MakeDirsF.makeDirs P0 {} dirs oldCreated failAt = .ok out ∨ MakeDirsF.makeDirs P0 {} dirs oldCreated failAt = .error out) :
    ∀ p c m, P0.get p = some (.file c m) →
      (rollBack out.1.fs (rbOf { oldOutputs := oldOutputs, oldCreatedDirs := oldCreatedDirs } out.1)).get p = some (.file c m) :=
  (C14_makeDirs_fault_rollback oldCreated failAt P0 { oldOutputs := oldOutputs, oldCreatedDirs := oldCreatedDirs } hwf0 dirs 0
    { fs := P0, bk := {} } out hnd (fun _ _ => ⟨(fun h => nomatch h), (fun h => nomatch h)⟩)
    (Undoable.start P0 oldOutputs oldCreatedDirs) hr).1

end Rollback
end FB
