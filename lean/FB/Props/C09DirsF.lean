/-
  C09 — the arbitration of concurrently created directories WITH FAILING BUILDS, for arbitrary paths and any number
  of threads, over the unit model of `build_dirs.py` (tied call by call to the real class) and using the proved
  invariant of `created_files.py`: whichever way the `is_dir` / `mkdir` / `started_building_file` /
  `error_building_file` steps interleave, once every thread is through, "created" holds exactly the directories the
  build made that still have a live output below, "created then virtually removed" exactly those that have none —
  `dirs_accounted`.  (Both windows of defect D7 are instances: see the closing examples.)
-/
import FB.ConcDirsF
import FB.Props.BuildDirsGeneral
namespace FB
namespace ConcDirsF
open BuildDirs
open CreatedFiles (properAnc)

/-- thread `i` has made `d` -/
def MadeBy (s : St) (i : Nat) (d : Path) : Prop :=
  (∃ j, s.pc i = .making j ∧ d ∈ (s.cds i).take j) ∨ ((s.pc i = .registered ∨ s.pc i = .failed) ∧ d ∈ s.cds i)

theorem MadeBy.congr {s s' : St} {k : Nat} {d : Path} (hpc : s'.pc k = s.pc k) (hc : s'.cds k = s.cds k) :
    MadeBy s' k d ↔ MadeBy s k d := by
  unfold MadeBy; rw [hpc, hc]

structure J (p : Nat → Path) (n : Nat) (dirs0 : List Path) (s : St) : Prop where
  active : ∀ k, (∀ c a, s.pc k ≠ .looking c a) → k < n
  mono : ∀ d ∈ dirs0, d ∈ s.dirs
  madeIn : ∀ i d, MadeBy s i d → d ∈ s.dirs
  look : ∀ i cur acc, s.pc i = .looking cur acc → cur <+: (p i).dropLast ∧ ∀ d ∈ acc, d <+: (p i).dropLast ∧ d ∉ dirs0
  cdsOK : ∀ i, (∀ cur acc, s.pc i ≠ .looking cur acc) → ∀ d ∈ s.cds i, d <+: (p i).dropLast ∧ d ∉ dirs0
  acc : ∀ d ∈ s.dirs, d ∉ dirs0 →
    (∃ i j, s.pc i = .making j ∧ d ∈ (s.cds i).take j) ∨ d ∈ s.b.created ∨ d ∈ s.b.errorCreated
  src : ∀ d, (d ∈ s.b.created ∨ d ∈ s.b.errorCreated) → ∃ i, (s.pc i = .registered ∨ s.pc i = .failed) ∧ d ∈ s.cds i
  errNoCount : ∀ d ∈ s.b.errorCreated, hasCount s.b d = false
  shadow : ∃ c, Shadow s.b c ∧ CreatedFiles.Full c s.live ∧ c.files = []
  liveIff : ∀ q, q ∈ s.live ↔ ∃ i, s.pc i = .registered ∧ q = p i
  binv : BuildDirs.Inv s.b

theorem j_init (p : Nat → Path) (n : Nat) (dirs0 : List Path) : J p n dirs0 (init p dirs0) := by
  refine ⟨fun k hk => absurd rfl (hk _ _), fun d hd => hd, ?_, ?_, ?_, fun d hd hn => absurd hd hn, ?_, ?_, ⟨{}, rfl, CreatedFiles.full_empty, rfl⟩, ?_, ?_⟩
  · intro i d h
    rcases h with ⟨j, h, _⟩ | ⟨h | h, _⟩ <;> simp [init] at h
  · intro i cur acc h
    simp only [init, PC.looking.injEq] at h
    obtain ⟨h1, h2⟩ := h
    subst h1 h2
    exact ⟨List.prefix_refl _, fun d hd => by cases hd⟩
  · intro i _ d hd; simp [init] at hd
  · intro d hd; simp [init] at hd
  · intro d hd; simp [init] at hd
  · intro q; simp [init]
  · exact inv_init [] []

theorem mem_take_succ_of_getElem? {l : List Path} {j : Nat} {d : Path} (h : l[j]? = some d) : d ∈ l.take (j + 1) := by
  rw [List.take_succ, h]; simp

theorem properAnc_of_prefix_dropLast {d q : Path} (hq : q ≠ []) (h : d <+: q.dropLast) : properAnc d q := by
  refine ⟨h.trans (List.dropLast_prefix q), ?_⟩
  intro e
  have := h.length_le
  rw [e, List.length_dropLast] at this
  have : q.length ≠ 0 := by simpa using hq
  omega

theorem j_step (p : Nat → Path) (fails : Nat → Bool) (n : Nat) (hp : ∀ i, p i ≠ [])
    (hanti : ∀ i j, i < n → j < n → i ≠ j → ¬ p i <+: p j)
    (dirs0 : List Path) (s : St) (i : Nat) (hi : i < n) (h : J p n dirs0 s) : J p n dirs0 (step p fails s i) := by
  have hact : ∀ (pc' : Nat → PC), (∀ k, k ≠ i → pc' k = s.pc k) → ∀ k, (∀ c a, pc' k ≠ .looking c a) → k < n := by
    intro pc' hpc' k hk
    by_cases hki : k = i
    · rw [hki]; exact hi
    · exact h.active k (by rw [← hpc' k hki]; exact hk)
  unfold step
  cases hpc : s.pc i with
  | looking cur acc =>
    simp only
    have hnot : ∀ d, ¬ MadeBy s i d := by
      intro d hm
      rcases hm with ⟨j, hm, _⟩ | ⟨hm | hm, _⟩ <;> rw [hpc] at hm <;> cases hm
    split
    · refine ⟨hact _ (fun k hk => by simp [hk]), h.mono, ?_, ?_, ?_, ?_, ?_, h.errNoCount, h.shadow, ?_, h.binv⟩
      · intro k d hm
        by_cases hki : k = i
        · subst hki
          rcases hm with ⟨j, hm, hd⟩ | ⟨hm | hm, _⟩
          · simp only [if_true, PC.making.injEq] at hm; subst hm; simp at hd
          · simp at hm
          · simp at hm
        · exact h.madeIn k d ((MadeBy.congr (by simp [hki]) (by simp [hki])).mp hm)
      · intro k c a hk
        by_cases hki : k = i
        · subst hki; simp at hk
        · simp only [hki, if_false] at hk; exact h.look k c a hk
      · intro k hk d hd
        by_cases hki : k = i
        · subst hki
          simp only [if_true] at hd
          exact (h.look k cur acc hpc).2 d hd
        · simp only [hki, if_false] at hk hd; exact h.cdsOK k hk d hd
      · intro d hd hn
        rcases h.acc d hd hn with ⟨k, j, hk, hdk⟩ | h'
        · have hki : k ≠ i := by intro e; subst e; rw [hpc] at hk; cases hk
          exact Or.inl ⟨k, j, by simp [hki, hk], by simp [hki, hdk]⟩
        · exact Or.inr h'
      · intro d hd
        obtain ⟨k, hk, hdk⟩ := h.src d hd
        have hki : k ≠ i := by intro e; subst e; rw [hpc] at hk; rcases hk with hk | hk <;> cases hk
        exact ⟨k, by simp [hki, hk], by simp [hki, hdk]⟩
      · intro q
        rw [h.liveIff q]
        constructor
        · rintro ⟨k, hk, hq⟩
          have hki : k ≠ i := by intro e; subst e; rw [hpc] at hk; cases hk
          exact ⟨k, by simp [hki, hk], hq⟩
        · rintro ⟨k, hk, hq⟩
          by_cases hki : k = i
          · subst hki; simp at hk
          · simp only [hki, if_false] at hk; exact ⟨k, hk, hq⟩
    · rename_i hcond
      simp only [Bool.or_eq_true, decide_eq_true_eq, not_or] at hcond
      have hcur : cur ∉ s.dirs := by simpa using hcond.1
      refine ⟨hact _ (fun k hk => by simp [hk]), h.mono, ?_, ?_, ?_, ?_, ?_, h.errNoCount, h.shadow, ?_, h.binv⟩
      · intro k d hm
        by_cases hki : k = i
        · subst hki
          rcases hm with ⟨j, hm, _⟩ | ⟨hm | hm, _⟩ <;> simp at hm
        · exact h.madeIn k d ((MadeBy.congr (by simp [hki]) (by rfl)).mp hm)
      · intro k c a hk
        by_cases hki : k = i
        · subst hki
          simp only [if_true, PC.looking.injEq] at hk
          obtain ⟨h1, h2⟩ := hk
          subst h1 h2
          obtain ⟨hl1, hl2⟩ := h.look k cur acc hpc
          refine ⟨(List.dropLast_prefix cur).trans hl1, ?_⟩
          intro d hd
          rcases List.mem_cons.mp hd with rfl | hd
          · exact ⟨hl1, fun hh => hcur (h.mono _ hh)⟩
          · exact hl2 d hd
        · simp only [hki, if_false] at hk; exact h.look k c a hk
      · intro k hk d hd
        by_cases hki : k = i
        · subst hki; exact absurd (by simp) (hk cur.dropLast (cur :: acc))
        · simp only [hki, if_false] at hk; exact h.cdsOK k hk d hd
      · intro d hd hn
        rcases h.acc d hd hn with ⟨k, j, hk, hdk⟩ | h'
        · have hki : k ≠ i := by intro e; subst e; rw [hpc] at hk; cases hk
          exact Or.inl ⟨k, j, by simp [hki, hk], hdk⟩
        · exact Or.inr h'
      · intro d hd
        obtain ⟨k, hk, hdk⟩ := h.src d hd
        have hki : k ≠ i := by intro e; subst e; rw [hpc] at hk; rcases hk with hk | hk <;> cases hk
        exact ⟨k, by simp [hki, hk], hdk⟩
      · intro q
        rw [h.liveIff q]
        constructor
        · rintro ⟨k, hk, hq⟩
          have hki : k ≠ i := by intro e; subst e; rw [hpc] at hk; cases hk
          exact ⟨k, by simp [hki, hk], hq⟩
        · rintro ⟨k, hk, hq⟩
          by_cases hki : k = i
          · subst hki; simp at hk
          · simp only [hki, if_false] at hk; exact ⟨k, hk, hq⟩
  | making j =>
    simp only
    cases hget : (s.cds i)[j]? with
    | some d =>
      simp only
      refine ⟨hact _ (fun k hk => by simp [hk]), fun x hx => (mem_add _ _ _).mpr (Or.inr (h.mono x hx)), ?_, ?_, ?_, ?_, ?_, h.errNoCount, h.shadow, ?_, h.binv⟩
      · intro k x hm
        by_cases hki : k = i
        · subst hki
          rcases hm with ⟨j', hm, hx⟩ | ⟨hm | hm, _⟩
          · simp only [if_true, PC.making.injEq] at hm; subst hm
            rw [List.take_succ, hget] at hx
            rcases List.mem_append.mp hx with hx | hx
            · exact (mem_add _ _ _).mpr (Or.inr (h.madeIn k x (Or.inl ⟨j, hpc, hx⟩)))
            · simp at hx; exact (mem_add _ _ _).mpr (Or.inl hx)
          · simp at hm
          · simp at hm
        · exact (mem_add _ _ _).mpr (Or.inr (h.madeIn k x ((MadeBy.congr (by simp [hki]) (by rfl)).mp hm)))
      · intro k c a hk
        by_cases hki : k = i
        · subst hki; simp at hk
        · simp only [hki, if_false] at hk; exact h.look k c a hk
      · intro k hk x hx
        by_cases hki : k = i
        · subst hki; exact h.cdsOK k (fun c a => by rw [hpc]; simp) x hx
        · simp only [hki, if_false] at hk; exact h.cdsOK k hk x hx
      · intro x hx hn
        rcases (mem_add _ _ _).mp hx with rfl | hx
        · exact Or.inl ⟨i, j + 1, by simp, mem_take_succ_of_getElem? hget⟩
        · rcases h.acc x hx hn with ⟨k, j', hk, hdk⟩ | h'
          · by_cases hki : k = i
            · subst hki
              rw [hpc] at hk; injection hk with hk; subst hk
              exact Or.inl ⟨k, j + 1, by simp, List.take_subset_take_left _ (Nat.le_succ _) hdk⟩
            · exact Or.inl ⟨k, j', by simp [hki, hk], hdk⟩
          · exact Or.inr h'
      · intro x hx
        obtain ⟨k, hk, hdk⟩ := h.src x hx
        have hki : k ≠ i := by intro e; subst e; rw [hpc] at hk; rcases hk with hk | hk <;> cases hk
        exact ⟨k, by simp [hki, hk], hdk⟩
      · intro q
        rw [h.liveIff q]
        constructor
        · rintro ⟨k, hk, hq⟩
          have hki : k ≠ i := by intro e; subst e; rw [hpc] at hk; cases hk
          exact ⟨k, by simp [hki, hk], hq⟩
        · rintro ⟨k, hk, hq⟩
          by_cases hki : k = i
          · subst hki; simp at hk
          · simp only [hki, if_false] at hk; exact ⟨k, hk, hq⟩
    | none =>
      simp only
      have hall : (s.cds i).take j = s.cds i := List.take_of_length_le (List.getElem?_eq_none_iff.mp hget)
      have hcds := h.cdsOK i (fun c a => by rw [hpc]; simp)
      obtain ⟨c, hsh, hfull, hfiles⟩ := h.shadow
      -- the new live file is unrelated to the others
      have hnew : p i ∉ s.live := by
        intro hm
        obtain ⟨k, hk, hq⟩ := (h.liveIff (p i)).mp hm
        have hki : k ≠ i := by intro e; subst e; rw [hpc] at hk; cases hk
        exact hanti i k hi (h.active k (fun c0 a => by rw [hk]; simp)) (fun e => hki e.symm) (by rw [hq]; exact List.prefix_refl _)
      have hunrel : ∀ q ∈ s.live, ¬ properAnc (p i) q ∧ ¬ properAnc q (p i) := by
        intro q hq
        obtain ⟨k, hk, hqk⟩ := (h.liveIff q).mp hq
        have hki : k ≠ i := by intro e; subst e; rw [hpc] at hk; cases hk
        subst hqk
        have hkn := h.active k (fun c0 a => by rw [hk]; simp)
        exact ⟨fun hh => hanti i k hi hkn (fun e => hki e.symm) hh.1, fun hh => hanti k i hkn hi hki hh.1⟩
      have hfull' := CreatedFiles.started_full c s.live (p i) hfull (hp i) hnew hunrel
      have hsh' := started_shadow s.b c (p i) (s.cds i) hsh
      have hinv' := started_inv s.b (p i) (s.cds i) h.binv
      have hlive' := hasCount_iff_live _ _ _ hsh' hfull' hinv'.positive
      have hcnt_all : ∀ d, d <+: (p i).dropLast → hasCount (started s.b (p i) (s.cds i)).1 d = true := by
        intro d hd
        exact (hlive' d).mpr ⟨p i, List.mem_cons_self .., properAnc_of_prefix_dropLast (hp i) hd⟩
      have hgen := started_general s.b (p i) (s.cds i) (hp i) hcnt_all
      have hlive0 := hasCount_iff_live _ _ _ hsh hfull h.binv.positive
      refine ⟨hact _ (fun k hk => by simp [hk]), h.mono, ?_, ?_, ?_, ?_, ?_, ?_, ⟨_, hsh', hfull', ?_⟩, ?_, hinv'⟩
      · intro k x hm
        by_cases hki : k = i
        · subst hki
          rcases hm with ⟨j', hm, _⟩ | ⟨_, hx⟩
          · simp at hm
          · exact h.madeIn k x (Or.inl ⟨j, hpc, by rw [hall]; exact hx⟩)
        · exact h.madeIn k x ((MadeBy.congr (by simp [hki]) (by rfl)).mp hm)
      · intro k c' a hk
        by_cases hki : k = i
        · subst hki; simp at hk
        · simp only [hki, if_false] at hk; exact h.look k c' a hk
      · intro k hk x hx
        by_cases hki : k = i
        · subst hki; exact hcds x hx
        · simp only [hki, if_false] at hk; exact h.cdsOK k hk x hx
      · intro x hx hn
        rcases h.acc x hx hn with ⟨k, j', hk, hdk⟩ | h' | h'
        · by_cases hki : k = i
          · subst hki
            rw [hpc] at hk; injection hk with hk; subst hk
            rw [hall] at hdk
            exact Or.inr (Or.inl (hgen.reg x (hcds x hdk).1 (Or.inl hdk)))
          · exact Or.inl ⟨k, j', by simp [hki, hk], hdk⟩
        · exact Or.inr (Or.inl (hgen.sub x h'))
        · rcases hgen.errGone x h' with h'' | h''
          · exact Or.inr (Or.inr h'')
          · exact Or.inr (Or.inl h'')
      · intro x hx
        have hold : (x ∈ s.b.created ∨ x ∈ s.b.errorCreated) ∨ x ∈ s.cds i := by
          rcases hx with hx | hx
          · rcases hgen.src x hx with h' | ⟨h' | h', _⟩
            · exact Or.inl (Or.inl h')
            · exact Or.inr h'
            · exact Or.inl (Or.inr h')
          · exact Or.inl (Or.inr (hgen.errSub x hx))
        rcases hold with hold | hold
        · obtain ⟨k, hk, hdk⟩ := h.src x hold
          have hki : k ≠ i := by intro e; subst e; rw [hpc] at hk; rcases hk with hk | hk <;> cases hk
          exact ⟨k, by simp [hki, hk], hdk⟩
        · exact ⟨i, by simp, hold⟩
      · intro x hx
        have hx0 := hgen.errSub x hx
        cases hc : hasCount (started s.b (p i) (s.cds i)).1 x with
        | false => rfl
        | true =>
          exfalso
          obtain ⟨q, hq, hqa⟩ := (hlive' x).mp hc
          rcases List.mem_cons.mp hq with rfl | hq
          · -- a directory above the new file: it is registered now, not virtually removed
            have := hgen.reg x (CreatedFiles.prefix_dropLast_of_properAnc hqa) (Or.inr hx0)
            exact hinv'.disjoint x this hx
          · have : hasCount s.b x = true := (hlive0 x).mpr ⟨q, hq, hqa⟩
            rw [h.errNoCount x hx0] at this; cases this
      · rw [CreatedFiles.started_files c (p i) hfull.subNodup]; exact hfiles
      · intro q
        constructor
        · intro hq
          rcases List.mem_cons.mp hq with rfl | hq
          · exact ⟨i, by simp, rfl⟩
          · obtain ⟨k, hk, hqk⟩ := (h.liveIff q).mp hq
            have hki : k ≠ i := by intro e; subst e; rw [hpc] at hk; cases hk
            exact ⟨k, by simp [hki, hk], hqk⟩
        · rintro ⟨k, hk, hqk⟩
          by_cases hki : k = i
          · subst hki; rw [hqk]; exact List.mem_cons_self ..
          · simp only [hki, if_false] at hk
            exact List.mem_cons_of_mem _ ((h.liveIff q).mpr ⟨k, hk, hqk⟩)
  | registered =>
    simp only
    by_cases hf : fails i = true
    · simp only [hf, if_true]
      obtain ⟨c, hsh, hfull, hfiles⟩ := h.shadow
      have hlivei : p i ∈ s.live := (h.liveIff (p i)).mpr ⟨i, hpc, rfl⟩
      obtain ⟨c', hce, hfull', hfiles'⟩ := CreatedFiles.error_full c s.live (p i) hfull hlivei (hp i) (by rw [hfiles]; simp)
      obtain ⟨b', hbe, hsh'⟩ := error_shadow s.b c c' (p i) hsh hce
      rw [hbe]
      simp only
      have hgen := error_general s.b b' (p i) hbe
      have hinv' := error_inv s.b b' (p i) h.binv hbe
      refine ⟨hact _ (fun k hk => by simp [hk]), h.mono, ?_, ?_, ?_, ?_, ?_, ?_, ⟨c', hsh', hfull', by rw [hfiles', hfiles]⟩, ?_, hinv'⟩
      · intro k x hm
        by_cases hki : k = i
        · subst hki
          rcases hm with ⟨j', hm, _⟩ | ⟨_, hx⟩
          · simp at hm
          · exact h.madeIn k x (Or.inr ⟨Or.inl hpc, hx⟩)
        · exact h.madeIn k x ((MadeBy.congr (by simp [hki]) (by rfl)).mp hm)
      · intro k c0 a hk
        by_cases hki : k = i
        · subst hki; simp at hk
        · simp only [hki, if_false] at hk; exact h.look k c0 a hk
      · intro k hk x hx
        by_cases hki : k = i
        · subst hki; exact h.cdsOK k (fun c0 a => by rw [hpc]; simp) x hx
        · simp only [hki, if_false] at hk; exact h.cdsOK k hk x hx
      · intro x hx hn
        rcases h.acc x hx hn with ⟨k, j', hk, hdk⟩ | h' | h'
        · have hki : k ≠ i := by intro e; subst e; rw [hpc] at hk; cases hk
          exact Or.inl ⟨k, j', by simp [hki, hk], hdk⟩
        · rcases hgen.moved x h' with h'' | ⟨h'', _⟩
          · exact Or.inr (Or.inl h'')
          · exact Or.inr (Or.inr h'')
        · exact Or.inr (Or.inr (hgen.errSub x h'))
      · intro x hx
        have hold : x ∈ s.b.created ∨ x ∈ s.b.errorCreated := by
          rcases hx with hx | hx
          · exact Or.inl (hgen.sub x hx)
          · rcases hgen.errSrc x hx with h' | ⟨h', _⟩
            · exact Or.inr h'
            · exact Or.inl h'
        obtain ⟨k, hk, hdk⟩ := h.src x hold
        by_cases hki : k = i
        · subst hki; exact ⟨k, by simp, hdk⟩
        · exact ⟨k, by simp [hki, hk], hdk⟩
      · intro x hx
        rcases hgen.errSrc x hx with h' | ⟨_, h'⟩
        · cases hc : hasCount b' x with
          | false => rfl
          | true => have h1 := hgen.cnt x hc; rw [h.errNoCount x h'] at h1; cases h1
        · exact h'
      · intro q
        have hnd := hfull.inv.nodupL
        constructor
        · intro hq
          have hq' := List.mem_of_mem_erase hq
          obtain ⟨k, hk, hqk⟩ := (h.liveIff q).mp hq'
          have hki : k ≠ i := by
            intro e; subst e
            rw [hqk] at hq
            exact List.Nodup.not_mem_erase hnd hq
          exact ⟨k, by simp [hki, hk], hqk⟩
        · rintro ⟨k, hk, hqk⟩
          by_cases hki : k = i
          · subst hki; simp at hk
          · simp only [hki, if_false] at hk
            have hq' : q ∈ s.live := (h.liveIff q).mpr ⟨k, hk, hqk⟩
            have hne : q ≠ p i := by
              intro e
              rw [hqk] at e
              exact hanti k i (h.active k (fun c0 a => by rw [hk]; simp)) hi hki (by rw [e]; exact List.prefix_refl _)
            exact (List.mem_erase_of_ne hne).mpr hq'
    · simp only [hf, Bool.false_eq_true, if_false]
      exact h
  | failed => exact h

theorem j_run (p : Nat → Path) (fails : Nat → Bool) (n : Nat) (hp : ∀ i, p i ≠ [])
    (hanti : ∀ i j, i < n → j < n → i ≠ j → ¬ p i <+: p j)
    (dirs0 : List Path) (sched : List Nat) (hs : ∀ i ∈ sched, i < n) (s : St) (h : J p n dirs0 s) :
    J p n dirs0 (run p fails s sched) := by
  induction sched generalizing s with
  | nil => exact h
  | cons i r ih =>
    exact ih (fun k hk => hs k (List.mem_cons_of_mem _ hk)) _ (j_step p fails n hp hanti dirs0 s i (hs i (List.mem_cons_self ..)) h)

/-- **C09, directory arbitration with failing builds, for arbitrary paths and any number of threads.**  Threads build
    files at pairwise unrelated paths (`n` threads, ids `< n`); some of their functions fail.  Under every interleaving of the `is_dir` /
    `mkdir` / `started_building_file` / `error_building_file` steps, once every thread that began is through:
    a directory is recorded as created (`created_dirs()`: kept, written to the cache, removed by `clean`) exactly if
    the build made it and an output that did not fail lies below it; it is recorded as created-then-removed
    (`_error_created_dirs`: the library `rmdir`s it when the build ends) exactly if the build made it and no such
    output lies below it.  No directory the build made is forgotten, none is in both sets — which is what every
    sequential order gives. -/
theorem dirs_accounted (p : Nat → Path) (fails : Nat → Bool) (n : Nat) (hp : ∀ i, p i ≠ [])
    (hanti : ∀ i j, i < n → j < n → i ≠ j → ¬ p i <+: p j)
    (dirs0 : List Path) (sched : List Nat) (hs : ∀ i ∈ sched, i < n)
    (hdone : ∀ i, (∀ j, (run p fails (init p dirs0) sched).pc i ≠ .making j))
    (d : Path) :
    let s := run p fails (init p dirs0) sched
    (d ∈ s.b.created ↔ (d ∈ s.dirs ∧ d ∉ dirs0 ∧ ∃ i, s.pc i = .registered ∧ properAnc d (p i))) ∧
    (d ∈ s.b.errorCreated ↔ (d ∈ s.dirs ∧ d ∉ dirs0 ∧ ¬ ∃ i, s.pc i = .registered ∧ properAnc d (p i))) := by
  intro s
  have h : J p n dirs0 s := j_run p fails n hp hanti dirs0 sched hs _ (j_init p n dirs0)
  obtain ⟨c, hsh, hfull, _⟩ := h.shadow
  have hlive := hasCount_iff_live _ _ _ hsh hfull h.binv.positive
  have hcount : hasCount s.b d = true ↔ ∃ i, s.pc i = .registered ∧ properAnc d (p i) := by
    rw [hlive d]
    constructor
    · rintro ⟨q, hq, hqa⟩
      obtain ⟨k, hk, hqk⟩ := (h.liveIff q).mp hq
      exact ⟨k, hk, hqk ▸ hqa⟩
    · rintro ⟨k, hk, hqa⟩
      exact ⟨p k, (h.liveIff _).mpr ⟨k, hk, rfl⟩, hqa⟩
  have hnew : ∀ x, (x ∈ s.b.created ∨ x ∈ s.b.errorCreated) → x ∈ s.dirs ∧ x ∉ dirs0 := by
    intro x hx
    obtain ⟨k, hk, hxk⟩ := h.src x hx
    refine ⟨h.madeIn k x (Or.inr ⟨hk, hxk⟩), (h.cdsOK k ?_ x hxk).2⟩
    intro c0 a; rcases hk with hk | hk <;> rw [hk] <;> simp
  constructor
  · constructor
    · intro hd
      exact ⟨(hnew d (Or.inl hd)).1, (hnew d (Or.inl hd)).2, hcount.mp (h.binv.createdReserved d hd)⟩
    · rintro ⟨hd, hn, hex⟩
      rcases h.acc d hd hn with ⟨k, j, hk, _⟩ | h' | h'
      · exact absurd hk (hdone k j)
      · exact h'
      · have := h.errNoCount d h'
        rw [hcount.mpr hex] at this; cases this
  · constructor
    · intro hd
      refine ⟨(hnew d (Or.inr hd)).1, (hnew d (Or.inr hd)).2, ?_⟩
      intro hex
      have := h.errNoCount d hd
      rw [hcount.mpr hex] at this; cases this
    · rintro ⟨hd, hn, hex⟩
      rcases h.acc d hd hn with ⟨k, j, hk, _⟩ | h' | h'
      · exact absurd hk (hdone k j)
      · exact absurd (hcount.mp (h.binv.createdReserved d h')) hex
      · exact h'

end ConcDirsF
end FB

namespace FB
namespace ConcDirsF
open BuildDirs

def exP : Nat → Path := fun i => if i = 0 then ["a", "x"] else if i = 1 then ["a", "y"] else ["z"]
def exF : Nat → Bool := fun i => i = 0
def exFF : Nat → Bool := fun i => i = 0 || i = 1

/-- thread 0 makes `a`; thread 1 sees it; thread 0 registers, fails (`a` is virtually removed); thread 1 registers
    with nothing to its credit: `a` is recorded as created again, because an output that did not fail lies below it -/
def exSched : List Nat := [0, 0, 0, 1, 0, 0, 1, 1]

set_option maxRecDepth 10000 in
theorem ex_one_fails : (run exP exF (init exP []) exSched).b.created = [["a"]] ∧
    (run exP exF (init exP []) exSched).b.errorCreated = [] := by
  simp [run, step, init, exP, exF, exSched, started, startedLoop, registerUp, error, errorLoop, BuildDirs.add, BuildDirs.discard,
    getCount, setCount, hasCount]

set_option maxRecDepth 10000 in
theorem ex_both_fail : (run exP exFF (init exP []) exSched).b.created = [] ∧
    (run exP exFF (init exP []) exSched).b.errorCreated = [["a"]] := by
  simp [run, step, init, exP, exFF, exSched, started, startedLoop, registerUp, error, errorLoop, BuildDirs.add, BuildDirs.discard,
    getCount, setCount, hasCount]

theorem exP_anti : ∀ i j, i < 2 → j < 2 → i ≠ j → ¬ exP i <+: exP j := by
  intro i j hi hj hij
  have hi' : i = 0 ∨ i = 1 := by omega
  have hj' : j = 0 ∨ j = 1 := by omega
  rcases hi' with rfl | rfl <;> rcases hj' with rfl | rfl <;> simp [exP] at hij ⊢

set_option maxRecDepth 10000 in
theorem ex_done (fl : Nat → Bool) (hfl : fl = exF ∨ fl = exFF) (i j : Nat) : (run exP fl (init exP []) exSched).pc i ≠ .making j := by
  by_cases h0 : i = 0
  · subst h0
    rcases hfl with rfl | rfl <;>
      simp [run, step, init, exP, exF, exFF, exSched, started, startedLoop, registerUp, error, errorLoop, BuildDirs.add, BuildDirs.discard,
        getCount, setCount, hasCount]
  · by_cases h1 : i = 1
    · subst h1
      rcases hfl with rfl | rfl <;>
        simp [run, step, init, exP, exF, exFF, exSched, started, startedLoop, registerUp, error, errorLoop, BuildDirs.add, BuildDirs.discard,
          getCount, setCount, hasCount]
    · rcases hfl with rfl | rfl <;>
        simp [run, step, init, exP, exF, exFF, exSched, started, startedLoop, registerUp, error, errorLoop, BuildDirs.add, BuildDirs.discard,
          getCount, setCount, hasCount, h0, h1]

/-- the hypotheses of `dirs_accounted` hold on the schedule of the second D7 window, and its verdict is the concrete one -/
example : (["a"] ∈ (run exP exF (init exP []) exSched).b.created) ∧ (["a"] ∈ (run exP exFF (init exP []) exSched).b.errorCreated) := by
  have hp : ∀ i, exP i ≠ [] := by intro i; unfold exP; split <;> [simp; (split <;> simp)]
  have hs : ∀ i ∈ exSched, i < 2 := by intro i hi; simp [exSched] at hi; omega
  have h1 := dirs_accounted exP exF 2 hp exP_anti [] exSched hs (fun i j => ex_done exF (Or.inl rfl) i j) ["a"]
  have h2 := dirs_accounted exP exFF 2 hp exP_anti [] exSched hs (fun i j => ex_done exFF (Or.inr rfl) i j) ["a"]
  exact ⟨by rw [ex_one_fails.1]; simp, by rw [ex_both_fail.2]; simp⟩

end ConcDirsF
end FB
