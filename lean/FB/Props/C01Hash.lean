/-
  For programs that use only HASH comparisons the comparison-mode assumption of the history theorem
  (`FaithfulRec`) is a theorem.
-/
import FB.Props.C01History
namespace FB
open FS Spec

/-- every comparison the program can make is a HASH comparison -/
def HashOnly (prog : Prog) : Prop :=
  (∀ p cmp k, Reach prog (.query (.read p cmp) k) → cmp = .hash) ∧
  (∀ path cmp fname args kwargs body k, Reach prog (.buildFile path cmp fname args kwargs body k) → cmp = .hash)

theorem HashOnly.of_reach {p c : Prog} (h : HashOnly p) (hr : Reach p c) : HashOnly c :=
  ⟨fun q cmp k hc => h.1 q cmp k (hr.trans hc),
   fun path cmp fname args kwargs body k hc => h.2 path cmp fname args kwargs body k (hr.trans hc)⟩

/-- the records of a HASH-only program contain only HASH comparisons -/
theorem follows_allHash {ds : Nat} {prog : Prog} {t : Option Path} {ops : List Op} {r : CallRes}
    {w : Option String} (hF : Follows ds prog t ops r w) : HashOnly prog → Op.allHashL ops = true := by
  induction hF with
  | retOk => intro _; rfl
  | retBad => intro _; rfl
  | raise => intro _; rfl
  | query q k t ops r w ret exc ans _ _ ih =>
    intro h
    simp only [Op.allHashL, Bool.and_eq_true]
    refine ⟨?_, ih (h.of_reach (.query q k ans _ (.here _)))⟩
    cases q with
    | read p cmp => simp [Op.allHash, h.1 p cmp k (.here _)]
    | _ => simp [Op.allHash]
  | writeSome b mt k p ops r w _ ih => intro h; exact ih (h.of_reach (.write b mt k _ (.here _)))
  | writeNone b mt k ops r w _ ih => intro h; exact ih (h.of_reach (.write b mt k _ (.here _)))
  | bfSetupFail path cmp fname args kwargs body k t ops r w e _ ih =>
    intro h
    simp only [Op.allHashL, Op.allHash, Bool.and_eq_true, Bool.and_true]
    exact ⟨by simp [h.2 path cmp fname args kwargs body k (.here _)],
      ih (h.of_reach (.bfCont path cmp fname args kwargs body k (.error e) _ (.here _)))⟩
  | bfOk path cmp fname args kwargs body k t subs j c m0 ops r w _ _ ihb ihk =>
    intro h
    simp only [Op.allHashL, Op.allHash, Bool.and_eq_true]
    exact ⟨⟨by simp [h.2 path cmp fname args kwargs body k (.here _)],
      ihb (h.of_reach (.bfBody path cmp fname args kwargs body k _ (.here _)))⟩,
      ihk (h.of_reach (.bfCont path cmp fname args kwargs body k (.ok j) _ (.here _)))⟩
  | bfRaise path cmp fname args kwargs body k t subs e kept wb ops r w _ _ ihb ihk =>
    intro h
    simp only [Op.allHashL, Op.allHash, Bool.and_eq_true]
    exact ⟨⟨by simp [h.2 path cmp fname args kwargs body k (.here _)],
      ihb (h.of_reach (.bfBody path cmp fname args kwargs body k _ (.here _)))⟩,
      ihk (h.of_reach (.bfCont path cmp fname args kwargs body k (.error e) _ (.here _)))⟩
  | bfNotCreated path cmp fname args kwargs body k t subs j ops r w _ _ ihb ihk =>
    intro h
    simp only [Op.allHashL, Op.allHash, Bool.and_eq_true]
    exact ⟨⟨by simp [h.2 path cmp fname args kwargs body k (.here _)],
      ihb (h.of_reach (.bfBody path cmp fname args kwargs body k _ (.here _)))⟩,
      ihk (h.of_reach (.bfCont path cmp fname args kwargs body k (.error (notCreatedExc path)) _ (.here _)))⟩
  | sbSetupFail fname args kwargs body k t ops r w e _ ih =>
    intro h
    simp only [Op.allHashL, Op.allHash, Bool.and_eq_true, Bool.true_and]
    exact ih (h.of_reach (.sbCont fname args kwargs body k (.error e) _ (.here _)))
  | sbOk fname args kwargs body k t subs j wb ops r w _ _ ihb ihk =>
    intro h
    simp only [Op.allHashL, Op.allHash, Bool.and_eq_true]
    exact ⟨ihb (h.of_reach (.sbBody fname args kwargs body k _ (.here _))),
      ihk (h.of_reach (.sbCont fname args kwargs body k (.ok j) _ (.here _)))⟩
  | sbRaise fname args kwargs body k t subs e wb ops r w _ _ ihb ihk =>
    intro h
    simp only [Op.allHashL, Op.allHash, Bool.and_eq_true]
    exact ⟨ihb (h.of_reach (.sbBody fname args kwargs body k _ (.here _))),
      ihk (h.of_reach (.sbCont fname args kwargs body k (.error e) _ (.here _)))⟩

/-- **HASH needs no assumption**: every registered record of a HASH-only program identifies contents -/
theorem faithfulRec_of_hash {ds : Nat} {prog : Prog} {t : Option Path} {ops : List Op} {r : CallRes}
    {w : Option String} (hF : Follows ds prog t ops r w) (hh : HashOnly prog) :
    ∀ y ∈ registeredL ops, FaithfulRec y := by
  intro y hy
  have hv := follows_registered hF y hy
  cases y with
  | simple _ _ _ _ => trivial
  | buildFile path cmp fname args kwargs subs ret cmpRes raised sf content =>
    intro hr
    obtain ⟨body, k, hreach, hfol, m0, hcr⟩ := hv hr
    have hc : cmp = .hash := hh.2 path cmp fname args kwargs body k hreach
    subst hc hcr
    refine ⟨faithful_of_hash hfol _ (follows_allHash hfol (hh.of_reach (hreach.trans (.bfBody _ _ _ _ _ _ _ _ (.here _))))), ?_⟩
    intro b m heq
    exact (cmpResult_hash_inj content b m0 m heq).symm
  | subbuild fname args kwargs subs ret raised sf =>
    intro hr
    obtain ⟨body, k, wb, hreach, hfol⟩ := hv hr
    exact faithful_of_hash hfol _ (follows_allHash hfol (hh.of_reach (hreach.trans (.sbBody _ _ _ _ _ _ (.here _)))))

end FB

namespace FB
open FS Spec

/-! ### the hypotheses of `history_refines` are satisfiable by a history with a cache hit -/

def exBody : Prog := .write "o" none (.ret .null)
def exRoot : Prog := .buildFile ["x"] .hash "f" .null .null exBody (fun _ => .ret .null)
def exW : World := { fs := [], dirSize := 4096 }
def exK : KWorld := { fs := [], dirSize := 4096 }

theorem reach_exRoot_bf {path : Path} {cmp : Cmp} {fname : String} {args kwargs : Json} {body : Prog}
    {k : CallRes → Prog} (h : Reach exRoot (.buildFile path cmp fname args kwargs body k)) :
    path = ["x"] ∧ cmp = .hash ∧ body = exBody := by
  unfold exRoot at h
  cases h with
  | here => exact ⟨rfl, rfl, rfl⟩
  | bfBody _ _ _ _ _ _ _ _ h' =>
    unfold exBody at h'
    cases h' with
    | write _ _ _ _ h'' => cases h''
  | bfCont _ _ _ _ _ _ _ r _ h' => cases h'

theorem reach_exRoot_no_sub {fname : String} {args kwargs : Json} {body : Prog} {k : CallRes → Prog}
    (h : Reach exRoot (.subbuild fname args kwargs body k)) : False := by
  unfold exRoot at h
  cases h with
  | bfBody _ _ _ _ _ _ _ _ h' =>
    unfold exBody at h'
    cases h' with
    | write _ _ _ _ h'' => cases h''
  | bfCont _ _ _ _ _ _ _ r _ h' => cases h'

theorem reach_exRoot_no_query {q : Query} {k : UAns → Prog} (h : Reach exRoot (.query q k)) : False := by
  unfold exRoot at h
  cases h with
  | bfBody _ _ _ _ _ _ _ _ h' =>
    unfold exBody at h'
    cases h' with
    | write _ _ _ _ h'' => cases h''
  | bfCont _ _ _ _ _ _ _ r _ h' => cases h'

theorem hashOnly_exRoot : HashOnly exRoot :=
  ⟨fun _ _ _ h => (reach_exRoot_no_query h).elim, fun _ _ _ _ _ _ _ h => (reach_exRoot_bf h).2.1⟩

theorem stable_exRoot (ds : Nat) (old : CacheRec) (nv : List (String × Json)) : Stable ds old nv exRoot exRoot :=
  ⟨fun _ _ _ _ _ _ _ h _ _ _ _ _ h' _ _ _ _ _ _ _ hf => by
      obtain ⟨_, _, hb⟩ := reach_exRoot_bf h
      obtain ⟨_, _, hb'⟩ := reach_exRoot_bf h'
      rw [hb'] ; rw [hb] at hf; exact hf,
   fun _ _ _ _ _ h => (reach_exRoot_no_sub h).elim⟩

def isOkNull : Option CallRes → Bool
  | some (.ok .null) => true
  | _ => false

theorem isOkNull_iff (r : CallRes) : isOkNull (some r) = true → r = .ok .null := by
  intro h
  cases r with
  | error e => simp [isOkNull] at h
  | ok j => cases j <;> simp [isOkNull] at h ⊢

/-- two builds of the same program: both return `null`, the second one is served from the cache (it invokes
    nothing), and the user-side condition of `history_refines` holds -/
example : UserOK 4096 ["c"] exK [] [.build "n" [] exRoot 0, .build "n" [] exRoot 0] ∧
    (runK ["c"] exK [.build "n" [] exRoot 0, .build "n" [] exRoot 0]).map isOkNull = [true, true] ∧
    (Impl.build (Impl.build exK ["c"] "n" [] exRoot [] [] 0).world ["c"] "n" [] exRoot [] [] 0).invLog.length = 0 ∧
    (Impl.build exK ["c"] "n" [] exRoot [] [] 0).invLog.length = 1 := by
  obtain ⟨hinv, hval⟩ := hinv_init [] 4096
  have hok0 : ∀ kr, exK.cacheState ["c"] = .valid kr → CacheOK 4096 kr [] exRoot := by
    intro kr h; simp [KWorld.cacheState, exK, FS.get] at h
  have hval1 := build_step_valid exW exK [] ["c"] "n" [] exRoot 0 hinv hval hok0
  have hres : (Impl.build exK ["c"] "n" [] exRoot [] [] 0).res = .ok .null :=
    isOkNull_iff _ (by decide +kernel)
  rw [hres] at hval1
  refine ⟨⟨(fun n kr root0 hm _ _ => nomatch hm), ⟨?_, trivial⟩⟩, by decide +kernel, by decide +kernel, by decide +kernel⟩
  intro n kr root0 hm hpg _
  simp only [stepK, hres, nextProgs, List.mem_singleton, Prod.mk.injEq] at hpg hm
  obtain ⟨_, hr0⟩ := hpg
  subst hr0
  refine ⟨stable_exRoot _ _ _, ?_⟩
  obtain ⟨root0, hpg', name, ops, created, vs, rr, ww, hx, hfol⟩ := hval1 _ hm
  simp only [nextProgs, List.mem_singleton, Prod.mk.injEq] at hpg'
  obtain ⟨_, hr0⟩ := hpg'
  subst hr0
  simp only at hx
  subst hx
  intro y hy
  exact faithfulRec_of_hash hfol hashOnly_exRoot y (registered_sub_of_filter _ ops y hy)

end FB
