/-
  C04 at the level of the algorithm (`FB.Overlay`, `simple_operation_executor.py`): mutual consistency of the
  answers whatever the `BuildDirs` memo contains.
-/
import FB.Overlay
namespace FB
namespace Overlay
open BuildDirs (BD)

/-- `exists = is_file or is_dir` (the second disjunct evaluated in the state the first one leaves) -/
theorem exists_eq (c : Ctx) (b : BD) (p : Path) :
    exists_ c b p = if (isFile c b p).1 then some (true, (isFile c b p).2) else isDir c (isFile c b p).2 p := by
  unfold exists_
  cases h : isFile c b p with
  | mk r b1 => cases r <;> simp

/-- the overlay never holds a path both as a file and as a directory (`CreatedFiles.Full` gives this) -/
def CfDisjoint (c : Ctx) (p : Path) : Prop :=
  ∀ cf, c.cf = some cf → ¬ (CreatedFiles.hasFile cf p = true ∧ CreatedFiles.hasDir cf p = true)

theorem isFileNoRead_true (c : Ctx) (p : Path) (h : isFileNoRead c p = some true) :
    ∃ cf, c.cf = some cf ∧ CreatedFiles.hasFile cf p = true := by
  unfold isFileNoRead at h
  cases hc : c.cf with
  | none =>
    simp only [hc] at h
    split at h
    · cases h
    · split at h
      · cases h
      · split at h
        · cases h
        · split at h <;> cases h
  | some cf =>
    refine ⟨cf, rfl, ?_⟩
    simp only [hc] at h
    by_cases hF : CreatedFiles.hasFile cf p = true
    · exact hF
    · simp only [hF, Bool.false_eq_true, if_false] at h
      by_cases hD : CreatedFiles.hasDir cf p = true
      · simp [hD] at h
      · simp only [hD, Bool.false_eq_true, if_false] at h
        split at h
        · cases h
        · split at h
          · cases h
          · split at h
            · cases h
            · split at h <;> cases h

theorem isFileNoRead_none (c : Ctx) (p : Path) (h : isFileNoRead c p = none) :
    ∀ cf, c.cf = some cf → CreatedFiles.hasFile cf p = false ∧ CreatedFiles.hasDir cf p = false := by
  intro cf hc
  unfold isFileNoRead at h
  simp only [hc] at h
  by_cases hF : CreatedFiles.hasFile cf p = true
  · simp [hF] at h
  · by_cases hD : CreatedFiles.hasDir cf p = true
    · simp [hF, hD] at h
    · exact ⟨by simpa using hF, by simpa using hD⟩

/-- an answer of `is_dir` that does not come from the overlay -/
theorem isDir_real (c : Ctx) (p : Path) (b1 : BD) (r : Bool) (b2 : BD)
    (hno : ∀ cf, c.cf = some cf → CreatedFiles.hasFile cf p = false ∧ CreatedFiles.hasDir cf p = false)
    (hd : isDir c b1 p = some (r, b2)) (hnd : c.fs.isDir p = false) : r = false := by
  unfold isDir at hd
  cases hr : BuildDirs.isRemoved c.fs b1 p with
  | none =>
    cases hc : c.cf with
    | none => simp [hc, hr] at hd
    | some cf => obtain ⟨h1, h2⟩ := hno cf hc; simp [hc, h1, h2, hr] at hd
  | some x =>
    obtain ⟨b3, rr⟩ := x
    cases rr with
    | true =>
      cases hc : c.cf with
      | none => simp [hc, hr] at hd; exact hd.1
      | some cf => obtain ⟨h1, h2⟩ := hno cf hc; simp [hc, h1, h2, hr] at hd; exact hd.1
    | false =>
      cases hc : c.cf with
      | none => simp [hc, hr, hnd] at hd; exact hd.1
      | some cf => obtain ⟨h1, h2⟩ := hno cf hc; simp [hc, h1, h2, hr, hnd] at hd; exact hd.1

/-- **nothing is both a regular file and a directory**, in whatever states of the memo the two questions are asked -/
theorem not_both (c : Ctx) (p : Path) (hcf : CfDisjoint c p) (b b1 : BD) (hf : (isFile c b p).1 = true)
    (r : Bool) (b2 : BD) (hd : isDir c b1 p = some (r, b2)) : r = false := by
  unfold isFile at hf
  cases hn : isFileNoRead c p with
  | some v =>
    rw [hn] at hf
    simp only at hf
    subst hf
    obtain ⟨cf, hc, hF⟩ := isFileNoRead_true c p hn
    have hD : CreatedFiles.hasDir cf p = false := by
      cases hD : CreatedFiles.hasDir cf p with
      | false => rfl
      | true => exact absurd ⟨hF, hD⟩ (hcf cf hc)
    unfold isDir at hd
    simp only [hc, hD, hF, Bool.false_eq_true, if_false, if_true, Option.some.injEq, Prod.mk.injEq] at hd
    exact hd.1.symm
  | none =>
    rw [hn] at hf
    simp only at hf
    have hreal : c.fs.isFile p = true := by
      by_cases h5 : c.fs.isFile p = true
      · exact h5
      · simp [h5] at hf
    have hnd : c.fs.isDir p = false := by
      unfold FS.isFile at hreal; unfold FS.isDir
      cases hg : c.fs.get p with
      | none => rfl
      | some e => cases e <;> simp_all
    exact isDir_real c p b1 r b2 (isFileNoRead_none c p hn) hd hnd

/-- `list_dir` returns names of the candidate list for which `exists` answered yes, in order -/
theorem filterExisting_sub (c : Ctx) (d : Path) : ∀ (ns : List String) (b : BD) (acc l : List String) (b' : BD),
    filterExisting c d ns b acc = some (l, b') → ∀ n ∈ l, n ∈ acc ∨ n ∈ ns := by
  intro ns
  induction ns with
  | nil =>
    intro b acc l b' h n hn
    simp only [filterExisting, Option.some.injEq, Prod.mk.injEq] at h
    rw [← h.1] at hn
    exact Or.inl (List.mem_reverse.mp hn)
  | cons m rest ih =>
    intro b acc l b' h n hn
    simp only [filterExisting] at h
    cases he : exists_ c b (d ++ [m]) with
    | none => rw [he] at h; cases h
    | some x =>
      obtain ⟨r, b1⟩ := x
      rw [he] at h
      cases r with
      | true =>
        rcases ih b1 (m :: acc) l b' h n hn with h' | h'
        · rcases List.mem_cons.mp h' with rfl | h''
          · exact Or.inr (List.mem_cons_self ..)
          · exact Or.inl h''
        · exact Or.inr (List.mem_cons_of_mem _ h')
      | false =>
        rcases ih b1 acc l b' h n hn with h' | h'
        · exact Or.inl h'
        · exact Or.inr (List.mem_cons_of_mem _ h')

end Overlay
end FB
