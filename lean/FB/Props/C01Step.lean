/-
  C01 over histories: one step of the induction.  If the two worlds agree up to modification times, the
  cache files name corresponding records, and the cache-logic world's record follows the program that wrote
  it, then a build gives the same result in both worlds and the invariant holds again — for the next
  program, whatever it is, as long as function names keep denoting the same functions (`Stable`) and the
  comparison results identify contents (`FaithfulRec`).
-/
import FB.Props.C01Outputs
import FB.Props.C01Build
namespace FB
open FS Spec

theorem eraseFiles_get (ps : List Path) (fs : FS) (q : Path) :
    (ps.foldl (fun fs p => if fs.isFile p then fs.erase p else fs) fs).get q =
      if q ∈ ps ∧ fs.isFile q = true then none else fs.get q := by
  induction ps generalizing fs with
  | nil => simp
  | cons p r ih =>
    simp only [List.foldl]
    rw [ih]
    by_cases hf : fs.isFile p = true
    · simp only [hf, if_true]
      have hp : p ≠ [] := by intro e; subst e; simp [isFile, get_nil] at hf
      by_cases hq : q = p
      · subst hq
        have h1 : (fs.erase q).isFile q = false := isFile_erase_self _ _
        simp [h1, hf, get_erase_self _ _ hp]
      · have h1 : (fs.erase p).isFile q = fs.isFile q := by simp [isFile, get_erase_ne _ _ _ hq]
        simp [h1, hq, get_erase_ne _ _ _ hq]
    · simp only [hf]
      by_cases hq : q = p
      · subst hq
        simp [hf]
      · simp [hq]

theorem sim_eraseFiles' (ps ps' : List Path) {a b : FS} (h : FS.Sim a b) (hm : ∀ q, q ∈ ps ↔ q ∈ ps') :
    FS.Sim (ps.foldl (fun fs p => if fs.isFile p then fs.erase p else fs) a)
           (ps'.foldl (fun fs p => if fs.isFile p then fs.erase p else fs) b) := by
  intro q
  rw [eraseFiles_get, eraseFiles_get, h.isFile q]
  by_cases hc : q ∈ ps' ∧ b.isFile q = true
  · have : q ∈ ps ∧ b.isFile q = true := ⟨(hm q).mpr hc.1, hc.2⟩
    simp [hc, this, Entry.sim]
  · have : ¬ (q ∈ ps ∧ b.isFile q = true) := fun hh => hc ⟨(hm q).mp hh.1, hh.2⟩
    simp only [hc, this, if_false]
    exact h q

/-- the records of the two worlds agree: same name, same created directories, same set of outputs -/
structure RecSim (r : Rec) (kr : CacheRec) : Prop where
  name : r.buildName = kr.buildName
  created : r.createdDirs = kr.createdDirs
  outputs : ∀ q, q ∈ r.outputs ↔ q ∈ kr.toRec.outputs

theorem sim_preClean' {a b : FS} (h : FS.Sim a b) (cf : Path) (r : Rec) (kr : CacheRec) (hr : RecSim r kr) :
    FS.Sim (preClean a cf r) (preClean b cf kr.toRec) := by
  unfold preClean
  simp only
  have hc : kr.toRec.createdDirs = r.createdDirs := hr.created.symm
  rw [hc]
  apply sim_rmEmpty
  have h1 := sim_eraseFiles' r.outputs kr.toRec.outputs h hr.outputs
  rw [h1.isFile cf]
  split
  · exact h1.erase cf
  · exact h1

theorem mem_dedup (ps : List Path) (q : Path) : q ∈ dedup ps ↔ q ∈ ps := by
  unfold dedup
  have : ∀ (acc : List Path), q ∈ ps.foldl (fun acc p => if acc.contains p then acc else acc ++ [p]) acc ↔
      q ∈ acc ∨ q ∈ ps := by
    induction ps with
    | nil => intro acc; simp
    | cons p r ih =>
      intro acc
      simp only [List.foldl]
      rw [ih]
      by_cases hc : acc.contains p = true
      · simp only [hc, if_true, List.mem_cons]
        have : p ∈ acc := by simpa using hc
        constructor
        · rintro (h | h)
          · exact Or.inl h
          · exact Or.inr (Or.inr h)
        · rintro (h | h | h)
          · exact Or.inl h
          · subst h; exact Or.inl this
          · exact Or.inr h
      · have hc' : acc.contains p = false := by simpa using hc
        simp only [hc', Bool.false_eq_true, if_false, List.mem_append, List.mem_cons, List.not_mem_nil, or_false]
        constructor
        · rintro ((h | h) | h)
          · exact Or.inl h
          · exact Or.inr (Or.inl h)
          · exact Or.inr (Or.inr h)
        · rintro (h | h | h)
          · exact Or.inl (Or.inl h)
          · exact Or.inl (Or.inr h)
          · exact Or.inr h
  simpa using this []

/-- the record the cache logic writes (`Cache.write`) -/
def newRec (name : String) (ops : List Op) (created : List Path) (vs : List (String × Json)) : CacheRec :=
  { buildName := name, roots := ops.filter Impl.isComplexRegistered, createdDirs := created, versions := vs }

def newSpecRec (name : String) (outs created : List Path) : Rec :=
  { buildName := name, outputs := outs, createdDirs := created }

/-- what a committed build leaves in the two worlds' record tables -/
structure NewRecs (ds : Nat) (name : String) (vs : List (String × Json)) (root : Prog)
    (w w' : World) (kw kw' : KWorld) : Prop where
  ex : ∃ r' ops created rr ww,
    w'.recs = (w.nextSerial, r') :: w.recs ∧
    kw'.recs = (kw.nextSerial, newRec name ops created vs) :: kw.recs ∧
    RecSim r' (newRec name ops created vs) ∧
    Follows ds root none ops rr ww

/-- **One build, in both worlds** (the step of the induction over histories). -/
theorem buildGo_step (w : World) (kw : KWorld) (cf : Path) (name : String) (vs : List (String × Json))
    (root : Prog) (ab : Nat) (r : Rec) (old : CacheRec)
    (hfs : FS.Sim w.fs kw.fs) (hds : w.dirSize = kw.dirSize) (hser : w.nextSerial = kw.nextSerial)
    (hrs : RecSim r old) (hok : CacheOK w.dirSize old vs root) :
    (Spec.buildGo w cf name root [] [] ab r).res = (Impl.buildGo kw cf name vs root [] [] ab old).res ∧
    FS.Sim (Spec.buildGo w cf name root [] [] ab r).world.fs (Impl.buildGo kw cf name vs root [] [] ab old).world.fs ∧
    (Spec.buildGo w cf name root [] [] ab r).world.dirSize = (Impl.buildGo kw cf name vs root [] [] ab old).world.dirSize ∧
    (Spec.buildGo w cf name root [] [] ab r).world.nextSerial =
      (Impl.buildGo kw cf name vs root [] [] ab old).world.nextSerial ∧
    ((∀ e, (Spec.buildGo w cf name root [] [] ab r).res = .error e →
        (Spec.buildGo w cf name root [] [] ab r).world.recs = w.recs ∧
        (Impl.buildGo kw cf name vs root [] [] ab old).world.recs = kw.recs) ∧
     (∀ v, (Spec.buildGo w cf name root [] [] ab r).res = .ok v →
        NewRecs w.dirSize name vs root w (Spec.buildGo w cf name root [] [] ab r).world
          kw (Impl.buildGo kw cf name vs root [] [] ab old).world)) := by
  have hstart : ∀ cds, SpecSt.Sim (Spec.buildStart w cf [] [] r cds)
      (Impl.buildStart kw cf vs [] [] old cds).sp := by
    intro cds
    exact ⟨sim_mkdirs cds (sim_preClean' hfs cf r old hrs), rfl, hds, rfl, rfl, rfl, rfl, rfl, rfl, rfl⟩
  have hrb : ∀ ds, FS.Sim (mkdirs w.fs ds) (mkdirs kw.fs ds) := fun ds => sim_mkdirs ds hfs
  have hcr : r.createdDirs = old.createdDirs := hrs.created
  unfold Spec.buildGo Impl.buildGo
  simp only
  have hdm : dirsToMake (visible (Spec.buildStart w cf [] [] r [])) cf [] cf.dropLast =
      dirsToMake (visible (Impl.buildStart kw cf vs [] [] old []).sp) cf [] cf.dropLast :=
    sim_dirsToMake (sim_visible (hstart [])) _ _ _
  rw [hdm, hcr]
  generalize (if ab = 1 then (Except.error OSErr.other : Except OSErr (List Path))
    else dirsToMake (visible (Impl.buildStart kw cf vs [] [] old []).sp) cf [] cf.dropLast) = sc
  cases sc with
  | error e => exact ⟨rfl, hrb _, hds, hser, fun _ _ => ⟨rfl, rfl⟩, fun v hv => nomatch hv⟩
  | ok cds =>
    simp only
    have hwf0 : (Impl.buildStart kw cf vs [] [] old cds).WF := by intro p hp; cases hp
    have hpc0 : PendClaimed (Spec.buildStart w cf [] [] r cds) := by intro q _; rfl
    have hpcK : PendClaimed (Impl.buildStart kw cf vs [] [] old cds).sp := by intro q _; rfl
    have hrun := run_refines (ds := w.dirSize) root none (Spec.buildStart w cf [] [] r cds)
      (Impl.buildStart kw cf vs [] [] old cds) (hstart cds) rfl rfl rfl hwf0 hpc0 (by intro p; rfl)
      (fun p hp => nomatch hp) hok
    obtain ⟨ww, hfol, _⟩ := run_follows (ds := w.dirSize) root none (Impl.buildStart kw cf vs [] [] old cds)
      hds.symm rfl rfl hwf0 hpcK (fun p hp => nomatch hp) hok
    have hout := run_outputs root none (Impl.buildStart kw cf vs [] [] old cds)
    generalize hrs' : run root none (Spec.buildStart w cf [] [] r cds) = rs at hrun
    obtain ⟨r0, s2, tr⟩ := rs
    generalize hrk : Impl.run root none (Impl.buildStart kw cf vs [] [] old cds) = rk at hrun hfol hout
    obtain ⟨r0', k2, ops⟩ := rk
    simp only at hrun hfol hout ⊢
    obtain ⟨hreq, hrel⟩ := hrun
    subst hreq
    have hcommit : ∀ (w' : World) (kw' : KWorld),
        w'.recs = (w.nextSerial, newSpecRec name s2.outputs.reverse (dedup (s2.createdDirs.reverse ++ cds))) :: w.recs →
        kw'.recs = (kw.nextSerial, newRec name ops (dedup (k2.sp.createdDirs.reverse ++ cds)) vs) :: kw.recs →
        NewRecs w.dirSize name vs root w w' kw kw' := by
      intro w' kw' h1 h2
      refine ⟨_, ops, dedup (k2.sp.createdDirs.reverse ++ cds), r0, ww, h1, h2, ⟨rfl, ?_, ?_⟩, hfol⟩
      · show dedup (s2.createdDirs.reverse ++ cds) = dedup (k2.sp.createdDirs.reverse ++ cds)
        rw [hrel.sim.createdDirs]
      · intro q
        show q ∈ s2.outputs.reverse ↔ q ∈ dedup (CacheRec.outputs _)
        rw [mem_dedup, CacheRec.outputs_eq, List.mem_reverse, hrel.sim.outputs, hout.1 q]
        show _ ↔ q ∈ outsL (ops.filter Impl.isComplexRegistered)
        rw [hout.2 q]
        simp [Impl.buildStart]
    cases r0 with
    | error e => exact ⟨rfl, hrb _, hds, hser, fun _ _ => ⟨rfl, rfl⟩, fun v hv => nomatch hv⟩
    | ok v =>
      by_cases h2 : ab = 2
      · simp only [h2, if_true]
        exact ⟨trivial, hrb _, hds, hser, fun _ _ => by constructor <;> first | rfl | trivial, fun v hv => nomatch hv⟩
      · simp only [h2, if_false]
        refine ⟨trivial, ?_, hds, by rw [hser], (fun e he => nomatch he), fun v' _ => hcommit _ _ rfl rfl⟩
        simp only [FS.write]
        rw [hser]
        exact hrel.sim.fs.set cf _ _ (by simp [Entry.sim])

end FB
