/-
  C02 — `_roll_back` (`FB.Rollback.rollBack`) restores the regular files of the pre-build tree.

  `Undoable P0 P r`: the bookkeeping `r` of a failed build describes how the tree `P` at the moment of the
  failure came out of the pre-build tree `P0` —
    * the undo log holds pre-build files, each once                                   (`saved_*`)
    * a pre-build file that is not in the log is untouched                             (`kept`)
    * a file that is new or changed is in the log, or is an output of the failed build that the first
      loop of `_roll_back` removes                                                     (`fresh`)
    * an output of the failed build at the place of a pre-build file was moved aside first (`moved`)
    * every directory that was not there before the build is one the build knows it made (`newdirs`)
  (`harness/fbh/rbcheck.py` evaluates exactly this predicate on every rollback of the generated histories.)
  Then after `rollBack` the regular files are exactly those of `P0`, with their bytes and modification times, and
  no new directory remains (directories the previous build had recorded as created may reappear).
-/
import FB.Rollback
import FB.Props.C02Backups
import FB.Props.BuildDirsGone
import FB.Lemmas.ReplayBasic
namespace FB
namespace Rollback
open FS Spec Backups BuildDirs

def removable (r : RB) (f : Path) : Bool := !r.oldOutputs.contains f || Backups.wasAbsent r.bk f

theorem removeNew_get (r : RB) : ∀ (l : List Path) (fs : FS) (q : Path),
    (l.foldl (fun fs f => if removable r f then tryRemoveFile fs f else fs) fs).get q =
      if q ∈ l ∧ removable r q = true ∧ fs.isFile q = true then none else fs.get q := by
  intro l
  induction l with
  | nil => intro fs q; simp
  | cons f rest ih =>
    intro fs q
    simp only [List.foldl]
    rw [ih]
    by_cases hr : removable r f = true
    · simp only [hr, if_true]
      unfold tryRemoveFile
      by_cases hf : fs.isFile f = true
      · simp only [hf, if_true]
        have hfne : f ≠ [] := by intro e; subst e; simp [FS.isFile, get_nil] at hf
        by_cases hqf : q = f
        · subst hqf
          have h1 : (fs.erase q).isFile q = false := by simp [FS.isFile, get_erase_self _ _ hfne]
          simp [h1, hr, hf, get_erase_self _ _ hfne]
        · have h1 : (fs.erase f).get q = fs.get q := get_erase_ne _ _ _ hqf
          have h2 : (fs.erase f).isFile q = fs.isFile q := by simp [FS.isFile, h1]
          simp [h1, h2, hqf]
      · simp only [hf, Bool.false_eq_true, if_false]
        by_cases hqf : q = f
        · subst hqf; simp [hf]
        · simp [hqf]
    · simp only [hr, Bool.false_eq_true, if_false]
      by_cases hqf : q = f
      · subst hqf; simp [hr]
      · simp [hqf]

theorem removeNew_spec (fs : FS) (r : RB) (q : Path) :
    (removeNew fs r).get q = if q ∈ r.newOutputs ∧ removable r q = true ∧ fs.isFile q = true then none else fs.get q :=
  removeNew_get r r.newOutputs fs q

/-- where the regular files after one `restore_all` iteration come from -/
theorem restoreOne_file_from (fs : FS) (x : Path × Entry) (q : Path) (c : String) (m : Nat)
    (h : (restoreOne fs x).get q = some (.file c m)) : (q = x.1 ∧ x.2 = .file c m) ∨ fs.get q = some (.file c m) := by
  by_cases hq : q = x.1
  · subst hq
    unfold restoreOne at h
    split at h
    · exact Or.inr h
    · cases hm : makedirs fs x.1.dropLast with
      | none => rw [hm] at h; exact Or.inr h
      | some fs' =>
        rw [hm] at h
        simp only at h
        by_cases hne : x.1 = []
        · rw [hne, get_nil] at h; cases h
        · rw [get_set_self _ _ _ hne] at h
          exact Or.inl ⟨rfl, by injection h⟩
  · rcases restoreOne_other fs x q hq with h' | ⟨_, h2, _⟩
    · right; rw [← h', h]
    · rw [h] at h2; cases h2

theorem restoreAll_file_from : ∀ (saved : List (Path × Entry)) (fs : FS) (q : Path) (c : String) (m : Nat),
    (saved.foldl restoreOne fs).get q = some (.file c m) → (q, Entry.file c m) ∈ saved ∨ fs.get q = some (.file c m) := by
  intro saved
  induction saved with
  | nil => intro fs q c m h; exact Or.inr h
  | cons x rest ih =>
    intro fs q c m h
    simp only [List.foldl] at h
    rcases ih (restoreOne fs x) q c m h with h' | h'
    · exact Or.inl (List.mem_cons_of_mem _ h')
    · rcases restoreOne_file_from fs x q c m h' with ⟨h1, h2⟩ | h''
      · left
        have : x = (q, Entry.file c m) := by cases x; simp_all
        rw [this]; exact List.mem_cons_self ..
      · exact Or.inr h''

/-- `rmdir` of a directory without entries succeeds -/
theorem rmdirStep_removes (fs : FS) (d : Path) (hne : d ≠ []) (hd : fs.get d = some .dir)
    (hempty : ∀ n, fs.get (d ++ [n]) = none) : (rmdirStep fs d).get d = none := by
  unfold rmdirStep
  have hc : fs.childNames d = [] := (childNames_eq_nil_iff fs d).mpr hempty
  have : fs.rmdir d = .ok (fs.erase d) := by simp [FS.rmdir, hne, hd, hc]
  rw [this]
  exact get_erase_self _ _ hne

theorem rmdirStep_none (fs : FS) (d q : Path) (h : fs.get q = none) : (rmdirStep fs d).get q = none := by
  rcases rmdirStep_get fs d q with h' | ⟨_, h1, _, _⟩
  · rw [h', h]
  · rw [h] at h1; cases h1

/-- a set `S` of directories every entry of which is again in `S`: removing the listed directories deepest
    first removes all of them -/
theorem foldl_rmdir_removes (S : Path → Prop) : ∀ (l : List Path) (fs : FS),
    l.Pairwise (fun a b => a.length ≥ b.length) →
    (∀ d, S d → d ≠ [] ∧ (fs.get d = none ∨ fs.get d = some .dir)) →
    (∀ d, S d → ∀ n, fs.get (d ++ [n]) ≠ none → S (d ++ [n])) →
    (∀ d, S d → d ∉ l → fs.get d = none) →
    ∀ d, S d → (l.foldl rmdirStep fs).get d = none := by
  intro l
  induction l with
  | nil => intro fs _ _ _ hout d hd; exact hout d hd (by simp)
  | cons h rest ih =>
    intro fs hp hkind hclosed hout d hd
    simp only [List.foldl]
    have hp' := List.pairwise_cons.mp hp
    apply ih (rmdirStep fs h) hp'.2
    · intro x hx
      obtain ⟨h1, h2⟩ := hkind x hx
      refine ⟨h1, ?_⟩
      rcases rmdirStep_get fs h x with h' | ⟨_, _, _, h4⟩
      · rw [h']; exact h2
      · exact Or.inl h4
    · intro x hx n hn
      apply hclosed x hx n
      intro hnone
      exact hn (rmdirStep_none fs h _ hnone)
    · intro x hx hxr
      by_cases hxh : x = h
      · subst hxh
        obtain ⟨hne, hk⟩ := hkind x hx
        rcases hk with hk | hk
        · exact rmdirStep_none fs x x hk
        · apply rmdirStep_removes fs x hne hk
          intro n
          by_contra hn
          have hc := hclosed x hx n hn
          -- the entry is in `S`, longer than `x`, hence not in the rest of the list: it is gone already
          have hnr : (x ++ [n]) ∉ x :: rest := by
            intro hm
            rcases List.mem_cons.mp hm with e | hm'
            · have := congrArg List.length e; simp at this
            · have := hp'.1 _ hm'; simp at this
          exact hn (hout _ hc hnr)
      · exact rmdirStep_none fs h x (hout x hx (by simp [hxh, hxr]))
    · exact hd

theorem rmEmpty_removes (S : Path → Prop) (fs : FS) (ds : List Path)
    (hkind : ∀ d, S d → d ≠ [] ∧ (fs.get d = none ∨ fs.get d = some .dir))
    (hclosed : ∀ d, S d → ∀ n, fs.get (d ++ [n]) ≠ none → S (d ++ [n]))
    (hlisted : ∀ d, S d → fs.get d ≠ none → d ∈ ds) :
    ∀ d, S d → (rmEmpty fs ds).get d = none := by
  rw [rmEmpty_eq]
  apply foldl_rmdir_removes S _ fs
  · have := List.pairwise_mergeSort (le := fun (a b : Path) => decide (a.length ≥ b.length))
      (fun a b c h1 h2 => by simp at h1 h2 ⊢; omega) (fun a b => by simp; omega) ds
    exact this.imp (fun h => by simpa using h)
  · exact hkind
  · exact hclosed
  · intro d hd hnm
    by_contra hne
    exact hnm (List.mem_mergeSort.mpr (hlisted d hd hne))


structure Undoable (P0 P : FS) (r : RB) : Prop where
  saved_nodup : (r.bk.saved.map (·.1)).Nodup
  saved_pre : ∀ x ∈ r.bk.saved, P0.get x.1 = some x.2 ∧ ∃ c m, x.2 = .file c m
  kept : ∀ p c m, P0.get p = some (.file c m) → P.get p = some (.file c m) ∨ p ∈ r.bk.saved.map (·.1)
  fresh : ∀ p c m, P.get p = some (.file c m) → P0.get p = some (.file c m) ∨ p ∈ r.bk.saved.map (·.1) ∨
            (p ∈ r.newOutputs ∧ removable r p = true)
  moved : ∀ p ∈ r.newOutputs, removable r p = true → P0.isFile p = true → p ∈ r.bk.saved.map (·.1)
  /-- every directory that was not there before the build is one the build knows it made -/
  newdirs : ∀ d, P.isDir d = true → P0.isDir d = false → d ∈ r.createdDirs

theorem createDirs_eq (fs : FS) (ds : List Path) :
    createDirs fs ds = mkdirs fs (ds.mergeSort (fun a b => a.length ≤ b.length)) := rfl

theorem mkdirStep_get_mem (fs : FS) (d q : Path) :
    (mkdirStep fs d).get q = fs.get q ∨ (q = d ∧ fs.get q = none ∧ (mkdirStep fs d).get q = some .dir) := by
  unfold mkdirStep
  cases h : fs.mkdir d with
  | error e => simp
  | ok fs' =>
    simp only
    rw [get_mkdir fs fs' d q h]
    by_cases hq : q = d
    · subst hq; right; simp [mkdir_absent fs fs' q h]
    · left; simp [hq]

theorem mkdirs_get_mem (ds : List Path) (fs : FS) (q : Path) :
    (mkdirs fs ds).get q = fs.get q ∨ (q ∈ ds ∧ fs.get q = none ∧ (mkdirs fs ds).get q = some .dir) := by
  induction ds generalizing fs with
  | nil => simp [mkdirs]
  | cons d r ih =>
    have hstep : mkdirs fs (d :: r) = mkdirs (mkdirStep fs d) r := rfl
    rw [hstep]
    rcases ih (mkdirStep fs d) with h | ⟨hm, h1, h2⟩
    · rcases mkdirStep_get_mem fs d q with h' | ⟨he, h1', h2'⟩
      · left; rw [h, h']
      · right; exact ⟨by simp [he], h1', by rw [h, h2']⟩
    · rcases mkdirStep_get_mem fs d q with h' | ⟨_, _, h2'⟩
      · right; exact ⟨by simp [hm], by rw [← h', h1], h2⟩
      · rw [h2'] at h1; cases h1

/-- where the directories after `restore_all` come from: they were there, or are parents of a restored file -/
theorem restoreAll_dir_from : ∀ (saved : List (Path × Entry)) (fs : FS) (q : Path),
    (∀ x ∈ saved, ∃ c m, x.2 = .file c m) →
    (saved.foldl restoreOne fs).get q = some .dir → fs.get q = some .dir ∨ ∃ x ∈ saved, properPrefix q x.1 := by
  intro saved
  induction saved with
  | nil => intro fs q _ h; exact Or.inl h
  | cons x rest ih =>
    intro fs q hfile h
    simp only [List.foldl] at h
    rcases ih (restoreOne fs x) q (fun y hy => hfile y (List.mem_cons_of_mem _ hy)) h with h' | ⟨y, hy, hp⟩
    · by_cases hq : q = x.1
      · subst hq
        obtain ⟨c, m, hc⟩ := hfile x (List.mem_cons_self ..)
        unfold restoreOne at h'
        split at h'
        · exact Or.inl h'
        · cases hm : makedirs fs x.1.dropLast with
          | none => rw [hm] at h'; exact Or.inl h'
          | some fs' =>
            rw [hm] at h'
            simp only at h'
            by_cases hne : x.1 = []
            · left; rw [hne, get_nil]
            · rw [get_set_self _ _ _ hne, hc] at h'; cases h'
      · rcases restoreOne_other fs x q hq with h'' | ⟨_, _, hp⟩
        · left; rw [← h'', h']
        · exact Or.inr ⟨x, List.mem_cons_self .., hp⟩
    · exact Or.inr ⟨y, List.mem_cons_of_mem _ hy, hp⟩

/-- **C02, the undo algorithm**: after `_roll_back` the regular files are exactly the pre-build ones, with their
    bytes and modification times, and no directory remains that was not there before — except that directories
    the previous build had recorded as created may reappear -/
theorem rollBack_restores_files (P0 P : FS) (r : RB) (hwf0 : TreeWF P0) (h : Undoable P0 P r) :
    (∀ p c m, P0.get p = some (.file c m) → (rollBack P r).get p = some (.file c m)) ∧
    (∀ p c m, (rollBack P r).get p = some (.file c m) → P0.get p = some (.file c m)) ∧
    (∀ d, (rollBack P r).isDir d = true → P0.isDir d = true ∨ d ∈ r.oldCreatedDirs) := by
  have hF1 := removeNew_spec P r
  -- a regular file that survives the first loop is a pre-build file or logged
  have hsurv : ∀ q c m, (removeNew P r).get q = some (.file c m) →
      P.get q = some (.file c m) ∧ (P0.get q = some (.file c m) ∨ q ∈ r.bk.saved.map (·.1)) := by
    intro q c m hq
    rw [hF1] at hq
    split at hq
    · cases hq
    · rename_i hcond
      refine ⟨hq, ?_⟩
      rcases h.fresh q c m hq with h1 | h1 | ⟨h1, h2⟩
      · exact Or.inl h1
      · exact Or.inr h1
      · exact absurd ⟨h1, h2, by simp [FS.isFile, hq]⟩ hcond
  have hsaved_file : ∀ p, p ∈ r.bk.saved.map (·.1) → P0.isFile p = true := by
    intro p hp
    obtain ⟨x, hx, rfl⟩ := List.mem_map.mp hp
    obtain ⟨h1, c, m, h2⟩ := h.saved_pre x hx
    simp [FS.isFile, h1, h2]
  have hsurv0 : ∀ q c m, (removeNew P r).get q = some (.file c m) → P0.isFile q = true := by
    intro q c m hq
    rcases (hsurv q c m hq).2 with h1 | h1
    · simp [FS.isFile, h1]
    · exact hsaved_file q h1
  have hfile_pre : ∀ q c m, (rmEmpty (removeNew P r) r.createdDirs).get q = some (.file c m) → P0.isFile q = true :=
    fun q c m hq => hsurv0 q c m (rmEmpty_file_rev _ _ q c m hq)
  have hfile_notdir : ∀ q, P0.isFile q = true → P0.isDir q = false := by
    intro q hq
    unfold FS.isFile at hq; unfold FS.isDir
    cases hg : P0.get q with
    | none => rfl
    | some e => cases e <;> simp_all
  have hparent : ∀ q, q ≠ [] → P0.get q ≠ none → P0.isDir q.dropLast = true := fun q hq hg => hwf0 q hq hg
  -- the directories the failed build made are all gone after the second loop
  have hgone : ∀ d, (P.isDir d = true ∧ P0.isDir d = false) → (rmEmpty (removeNew P r) r.createdDirs).get d = none := by
    apply rmEmpty_removes (fun d => P.isDir d = true ∧ P0.isDir d = false)
    · intro d ⟨hd, hd0⟩
      have hne : d ≠ [] := by intro e; subst e; simp [FS.isDir, get_nil] at hd0
      refine ⟨hne, Or.inr ?_⟩
      have hg : P.get d = some .dir := by
        unfold FS.isDir at hd
        cases hg : P.get d with
        | none => simp [hg] at hd
        | some e => cases e <;> simp_all
      rw [hF1]
      have : P.isFile d = false := by simp [FS.isFile, hg]
      simp [this, hg]
    · intro d ⟨_, hd0⟩ n hn
      have hPn : P.get (d ++ [n]) ≠ none := by
        intro e
        apply hn
        rw [hF1]; split
        · rfl
        · exact e
      have hne : d ++ [n] ≠ [] := by simp
      have hdl : (d ++ [n]).dropLast = d := by simp
      have hno0 : P0.get (d ++ [n]) = none := by
        by_contra hc
        have := hparent _ hne hc
        rw [hdl, hd0] at this; cases this
      cases hg : P.get (d ++ [n]) with
      | none => exact absurd hg hPn
      | some e =>
        cases e with
        | dir => exact ⟨by simp [FS.isDir, hg], by simp [FS.isDir, hno0]⟩
        | file c m =>
          exfalso
          have h1 : (removeNew P r).get (d ++ [n]) = some (.file c m) := by
            cases hg1 : (removeNew P r).get (d ++ [n]) with
            | none => exact absurd hg1 hn
            | some e' =>
              rw [hF1] at hg1
              split at hg1
              · cases hg1
              · rw [hg] at hg1; exact hg1.symm ▸ rfl
          have := hsurv0 _ c m h1
          simp [FS.isFile, hno0] at this
    · intro d ⟨hd, hd0⟩ _
      exact h.newdirs d hd hd0
  -- `restore_all` finds every logged path free
  have hready : ∀ x ∈ r.bk.saved, x.1 ≠ [] ∧ (rmEmpty (removeNew P r) r.createdDirs).isDir x.1 = false ∧
      ∀ a, a <+: x.1.dropLast → (rmEmpty (removeNew P r) r.createdDirs).isFile a = false := by
    intro x hx
    obtain ⟨h1, c, m, h2⟩ := h.saved_pre x hx
    have hne : x.1 ≠ [] := by intro e; rw [e, get_nil, h2] at h1; cases h1
    have hx0 := hsaved_file x.1 (List.mem_map.mpr ⟨x, hx, rfl⟩)
    refine ⟨hne, ?_, ?_⟩
    · cases hd : (rmEmpty (removeNew P r) r.createdDirs).isDir x.1 with
      | false => rfl
      | true =>
        exfalso
        have hg : (rmEmpty (removeNew P r) r.createdDirs).get x.1 = some .dir := by
          unfold FS.isDir at hd
          cases hg : (rmEmpty (removeNew P r) r.createdDirs).get x.1 with
          | none => simp [hg] at hd
          | some e => cases e <;> simp_all
        have hg1 : (removeNew P r).get x.1 = some .dir := by
          rcases rmEmpty_get r.createdDirs (removeNew P r) x.1 with h' | ⟨_, _, h3⟩
          · rw [← h', hg]
          · rw [hg] at h3; cases h3
        have hgP : P.get x.1 = some .dir := by
          rw [hF1] at hg1
          split at hg1
          · cases hg1
          · exact hg1
        have := hgone x.1 ⟨by simp [FS.isDir, hgP], hfile_notdir _ hx0⟩
        rw [hg] at this; cases this
    · intro a ha
      cases hf : (rmEmpty (removeNew P r) r.createdDirs).isFile a with
      | false => rfl
      | true =>
        exfalso
        obtain ⟨c', m', hg⟩ : ∃ c' m', (rmEmpty (removeNew P r) r.createdDirs).get a = some (.file c' m') := by
          unfold FS.isFile at hf
          cases hg : (rmEmpty (removeNew P r) r.createdDirs).get a with
          | none => simp [hg] at hf
          | some e => cases e with
            | dir => simp [hg] at hf
            | file c' m' => exact ⟨c', m', rfl⟩
        have hpf := hfile_pre a c' m' hg
        have hlt : a.length < x.1.length := by
          have h3 := ha.length_le
          rw [List.length_dropLast] at h3
          have : x.1.length ≠ 0 := by simpa using hne
          omega
        have hdir := hwf0.isDir_prefix (x.1.length - a.length - 1) a x.1 (ha.trans (List.dropLast_prefix _)) (by omega)
          (by rw [h1]; simp)
        rw [hfile_notdir a hpf] at hdir; cases hdir
  have hanti : ∀ x ∈ r.bk.saved, ∀ y ∈ r.bk.saved, ¬ properPrefix x.1 y.1 := by
    intro x hx y hy ⟨hp, hne⟩
    have hxf := hsaved_file x.1 (List.mem_map.mpr ⟨x, hx, rfl⟩)
    obtain ⟨h1, _⟩ := h.saved_pre y hy
    have hlt : x.1.length < y.1.length := by
      rcases Nat.lt_or_ge x.1.length y.1.length with h' | h'
      · exact h'
      · exact absurd (hp.eq_of_length_le h') hne
    have hdir := hwf0.isDir_prefix (y.1.length - x.1.length - 1) x.1 y.1 hp (by omega) (by rw [h1]; simp)
    rw [hfile_notdir _ hxf] at hdir; cases hdir
  obtain ⟨hs1, hs2⟩ := restoreAll_spec r.bk.saved (rmEmpty (removeNew P r) r.createdDirs) h.saved_nodup hanti
    (fun x hx => (h.saved_pre x hx).2) hready
  have hroll : rollBack P r = mkdirs (r.bk.saved.foldl restoreOne (rmEmpty (removeNew P r) r.createdDirs))
      (r.oldCreatedDirs.mergeSort (fun a b => a.length ≤ b.length)) := rfl
  refine ⟨?_, ?_, ?_⟩
  · intro p c m hp0
    rw [hroll]
    apply mkdirs_file
    by_cases hps : p ∈ r.bk.saved.map (·.1)
    · obtain ⟨x, hx, rfl⟩ := List.mem_map.mp hps
      rw [hs1 x hx, ← (h.saved_pre x hx).1, hp0]
    · have hP : P.get p = some (.file c m) := by
        rcases h.kept p c m hp0 with h' | h'
        · exact h'
        · exact absurd h' hps
      have h1 : (removeNew P r).get p = some (.file c m) := by
        rw [hF1]
        split
        · rename_i hcond
          exact absurd (h.moved p hcond.1 hcond.2.1 (by simp [FS.isFile, hp0])) hps
        · exact hP
      exact hs2 p c m (rmEmpty_file _ _ p c m h1) (fun x hx e => hps (List.mem_map.mpr ⟨x, hx, e⟩))
  · intro p c m hp
    rw [hroll] at hp
    have h3 := mkdirs_file_rev _ _ p c m hp
    by_cases hps : p ∈ r.bk.saved.map (·.1)
    · obtain ⟨x, hx, rfl⟩ := List.mem_map.mp hps
      rw [hs1 x hx] at h3
      rw [(h.saved_pre x hx).1, h3]
    · rcases restoreAll_file_from r.bk.saved _ p c m h3 with h' | h'
      · exact absurd (List.mem_map.mpr ⟨_, h', rfl⟩) hps
      · rcases (hsurv p c m (rmEmpty_file_rev _ _ p c m h')).2 with h'' | h''
        · exact h''
        · exact absurd h'' hps
  · intro d hd
    rw [hroll] at hd
    have hg : (mkdirs (r.bk.saved.foldl restoreOne (rmEmpty (removeNew P r) r.createdDirs))
        (r.oldCreatedDirs.mergeSort (fun a b => a.length ≤ b.length))).get d = some .dir := by
      unfold FS.isDir at hd
      split at hd
      · assumption
      · cases hd
    rcases mkdirs_get_mem _ _ d with h' | ⟨hm, _, _⟩
    · rw [h'] at hg
      rcases restoreAll_dir_from r.bk.saved _ d (fun x hx => (h.saved_pre x hx).2) hg with h2 | ⟨x, hx, hp, hne⟩
      · -- it was there after the second loop: not one the failed build made
        left
        have hg1 : (removeNew P r).get d = some .dir := by
          rcases rmEmpty_get r.createdDirs (removeNew P r) d with h'' | ⟨_, _, h3⟩
          · rw [← h'', h2]
          · rw [h2] at h3; cases h3
        have hgP : P.get d = some .dir := by
          rw [hF1] at hg1
          split at hg1
          · cases hg1
          · exact hg1
        cases h0 : P0.isDir d with
        | true => rfl
        | false =>
          have := hgone d ⟨by simp [FS.isDir, hgP], h0⟩
          rw [h2] at this; cases this
      · left
        obtain ⟨h1, _⟩ := h.saved_pre x hx
        have hlt : d.length < x.1.length := by
          rcases Nat.lt_or_ge d.length x.1.length with h'' | h''
          · exact h''
          · exact absurd (hp.eq_of_length_le h'') hne
        exact hwf0.isDir_prefix (x.1.length - d.length - 1) d x.1 hp (by omega) (by rw [h1]; simp)
    · right; exact List.mem_mergeSort.mp hm

end Rollback
end FB
