/-
  C02 — `_roll_back` (`FB.Rollback.rollBack`) restores the regular files of the pre-build tree.

  `Undoable P0 P r`: the bookkeeping `r` of a failed build describes how the tree `P` at the moment of the
  failure came out of the pre-build tree `P0` —
    * the undo log holds pre-build files, each once                                   (`saved_*`)
    * a pre-build file that is not in the log is untouched                             (`kept`)
    * a file that is new or changed is in the log, or is an output of the failed build that the first
      loop of `_roll_back` removes                                                     (`fresh`)
    * an output of the failed build at the place of a pre-build file was moved aside first (`moved`)
    * no directory sits at a logged path                                               (`nodir`)
  (`harness/fbh/rbcheck.py` evaluates exactly this predicate on every rollback of the generated histories.)
  Then after `rollBack` the regular files are exactly those of `P0`, with their bytes and modification times.
-/
import FB.Rollback
import FB.Props.C02Backups
import FB.Props.BuildDirsGone
import FB.Lemmas.ReplayBasic
namespace FB
namespace Rollback
open FS Spec Backups BuildDirs

def removable (r : RB) (f : Path) : Bool := !r.oldOutputs.contains f || Backups.wasAbsent r.bk f

theorem removeNew_get (r : RB) : ∀ (l : List Path) (fs : FS) (q : Path),
    (l.foldl (fun fs f => if removable r f then tryRemoveFile fs f else fs) fs).get q =
      if q ∈ l ∧ removable r q = true ∧ fs.isFile q = true then none else fs.get q := by
  intro l
  induction l with
  | nil => intro fs q; simp
  | cons f rest ih =>
    intro fs q
    simp only [List.foldl]
    rw [ih]
    by_cases hr : removable r f = true
    · simp only [hr, if_true]
      unfold tryRemoveFile
      by_cases hf : fs.isFile f = true
      · simp only [hf, if_true]
        have hfne : f ≠ [] := by intro e; subst e; simp [FS.isFile, get_nil] at hf
        by_cases hqf : q = f
        · subst hqf
          have h1 : (fs.erase q).isFile q = false := by simp [FS.isFile, get_erase_self _ _ hfne]
          simp [h1, hr, hf, get_erase_self _ _ hfne]
        · have h1 : (fs.erase f).get q = fs.get q := get_erase_ne _ _ _ hqf
          have h2 : (fs.erase f).isFile q = fs.isFile q := by simp [FS.isFile, h1]
          simp [h1, h2, hqf]
      · simp only [hf, Bool.false_eq_true, if_false]
        by_cases hqf : q = f
        · subst hqf; simp [hf]
        · simp [hqf]
    · simp only [hr, Bool.false_eq_true, if_false]
      by_cases hqf : q = f
      · subst hqf; simp [hr]
      · simp [hqf]

theorem removeNew_spec (fs : FS) (r : RB) (q : Path) :
    (removeNew fs r).get q = if q ∈ r.newOutputs ∧ removable r q = true ∧ fs.isFile q = true then none else fs.get q :=
  removeNew_get r r.newOutputs fs q

/-- where the regular files after one `restore_all` iteration come from -/
theorem restoreOne_file_from (fs : FS) (x : Path × Entry) (q : Path) (c : String) (m : Nat)
    (h : (restoreOne fs x).get q = some (.file c m)) : (q = x.1 ∧ x.2 = .file c m) ∨ fs.get q = some (.file c m) := by
  by_cases hq : q = x.1
  · subst hq
    unfold restoreOne at h
    split at h
    · exact Or.inr h
    · cases hm : makedirs fs x.1.dropLast with
      | none => rw [hm] at h; exact Or.inr h
      | some fs' =>
        rw [hm] at h
        simp only at h
        by_cases hne : x.1 = []
        · rw [hne, get_nil] at h; cases h
        · rw [get_set_self _ _ _ hne] at h
          exact Or.inl ⟨rfl, by injection h⟩
  · rcases restoreOne_other fs x q hq with h' | ⟨_, h2, _⟩
    · right; rw [← h', h]
    · rw [h] at h2; cases h2

theorem restoreAll_file_from : ∀ (saved : List (Path × Entry)) (fs : FS) (q : Path) (c : String) (m : Nat),
    (saved.foldl restoreOne fs).get q = some (.file c m) → (q, Entry.file c m) ∈ saved ∨ fs.get q = some (.file c m) := by
  intro saved
  induction saved with
  | nil => intro fs q c m h; exact Or.inr h
  | cons x rest ih =>
    intro fs q c m h
    simp only [List.foldl] at h
    rcases ih (restoreOne fs x) q c m h with h' | h'
    · exact Or.inl (List.mem_cons_of_mem _ h')
    · rcases restoreOne_file_from fs x q c m h' with ⟨h1, h2⟩ | h''
      · left
        have : x = (q, Entry.file c m) := by cases x; simp_all
        rw [this]; exact List.mem_cons_self ..
      · exact Or.inr h''

structure Undoable (P0 P : FS) (r : RB) : Prop where
  saved_nodup : (r.bk.saved.map (·.1)).Nodup
  saved_pre : ∀ x ∈ r.bk.saved, P0.get x.1 = some x.2 ∧ ∃ c m, x.2 = .file c m
  kept : ∀ p c m, P0.get p = some (.file c m) → P.get p = some (.file c m) ∨ p ∈ r.bk.saved.map (·.1)
  fresh : ∀ p c m, P.get p = some (.file c m) → P0.get p = some (.file c m) ∨ p ∈ r.bk.saved.map (·.1) ∨
            (p ∈ r.newOutputs ∧ removable r p = true)
  moved : ∀ p ∈ r.newOutputs, removable r p = true → P0.isFile p = true → p ∈ r.bk.saved.map (·.1)
  nodir : ∀ p ∈ r.bk.saved.map (·.1), P.isDir p = false


theorem createDirs_eq (fs : FS) (ds : List Path) :
    createDirs fs ds = mkdirs fs (ds.mergeSort (fun a b => a.length ≤ b.length)) := rfl

/-- **C02, the undo algorithm**: after `_roll_back` the regular files are exactly the pre-build ones -/
theorem rollBack_restores_files (P0 P : FS) (r : RB) (hwf0 : TreeWF P0) (h : Undoable P0 P r) :
    (∀ p c m, P0.get p = some (.file c m) → (rollBack P r).get p = some (.file c m)) ∧
    (∀ p c m, (rollBack P r).get p = some (.file c m) → P0.get p = some (.file c m)) := by
  -- the four phases
  have hF1 := removeNew_spec P r
  -- a regular file that survives the first loop is a pre-build file or logged
  have hsurv : ∀ q c m, (removeNew P r).get q = some (.file c m) →
      P.get q = some (.file c m) ∧ (P0.get q = some (.file c m) ∨ q ∈ r.bk.saved.map (·.1)) := by
    intro q c m hq
    rw [hF1] at hq
    split at hq
    · cases hq
    · rename_i hcond
      refine ⟨hq, ?_⟩
      rcases h.fresh q c m hq with h1 | h1 | ⟨h1, h2⟩
      · exact Or.inl h1
      · exact Or.inr h1
      · exact absurd ⟨h1, h2, by simp [FS.isFile, hq]⟩ hcond
  have hsaved_file : ∀ p, p ∈ r.bk.saved.map (·.1) → P0.isFile p = true := by
    intro p hp
    obtain ⟨x, hx, rfl⟩ := List.mem_map.mp hp
    obtain ⟨h1, c, m, h2⟩ := h.saved_pre x hx
    simp [FS.isFile, h1, h2]
  have hfile_pre : ∀ q c m, (rmEmpty (removeNew P r) r.createdDirs).get q = some (.file c m) → P0.isFile q = true := by
    intro q c m hq
    have := rmEmpty_file_rev _ _ q c m hq
    rcases (hsurv q c m this).2 with h1 | h1
    · simp [FS.isFile, h1]
    · exact hsaved_file q h1
  -- `restore_all` finds every logged path free
  have hready : ∀ x ∈ r.bk.saved, x.1 ≠ [] ∧ (rmEmpty (removeNew P r) r.createdDirs).isDir x.1 = false ∧
      ∀ a, a <+: x.1.dropLast → (rmEmpty (removeNew P r) r.createdDirs).isFile a = false := by
    intro x hx
    obtain ⟨h1, c, m, h2⟩ := h.saved_pre x hx
    have hne : x.1 ≠ [] := by intro e; rw [e, get_nil, h2] at h1; cases h1
    refine ⟨hne, ?_, ?_⟩
    · have hnd := h.nodir x.1 (List.mem_map.mpr ⟨x, hx, rfl⟩)
      cases hd : (rmEmpty (removeNew P r) r.createdDirs).isDir x.1 with
      | false => rfl
      | true =>
        exfalso
        have hg : (rmEmpty (removeNew P r) r.createdDirs).get x.1 = some .dir := by
          unfold FS.isDir at hd
          cases hg : (rmEmpty (removeNew P r) r.createdDirs).get x.1 with
          | none => simp [hg] at hd
          | some e => cases e <;> simp_all
        have hg1 : (removeNew P r).get x.1 = some .dir := by
          rcases rmEmpty_get r.createdDirs (removeNew P r) x.1 with h' | ⟨_, _, h3⟩
          · rw [← h', hg]
          · rw [hg] at h3; cases h3
        rw [hF1] at hg1
        split at hg1
        · cases hg1
        · simp [FS.isDir, hg1] at hnd
    · intro a ha
      cases hf : (rmEmpty (removeNew P r) r.createdDirs).isFile a with
      | false => rfl
      | true =>
        exfalso
        obtain ⟨c', m', hg⟩ : ∃ c' m', (rmEmpty (removeNew P r) r.createdDirs).get a = some (.file c' m') := by
          unfold FS.isFile at hf
          cases hg : (rmEmpty (removeNew P r) r.createdDirs).get a with
          | none => simp [hg] at hf
          | some e => cases e with
            | dir => simp [hg] at hf
            | file c' m' => exact ⟨c', m', rfl⟩
        have hpf := hfile_pre a c' m' hg
        have hne' := dropLast_ne_of_ne_nil hne ha
        have hlt : a.length < x.1.length := by
          have h3 := ha.length_le
          rw [List.length_dropLast] at h3
          have : x.1.length ≠ 0 := by simpa using hne
          omega
        have hdir := hwf0.isDir_prefix (x.1.length - a.length - 1) a x.1 (ha.trans (List.dropLast_prefix _)) (by omega)
          (by rw [h1]; simp)
        unfold FS.isFile at hpf; unfold FS.isDir at hdir
        cases hg0 : P0.get a with
        | none => simp [hg0] at hpf
        | some e => cases e <;> simp_all
  have hanti : ∀ x ∈ r.bk.saved, ∀ y ∈ r.bk.saved, ¬ properPrefix x.1 y.1 := by
    intro x hx y hy ⟨hp, hne⟩
    have hxf := hsaved_file x.1 (List.mem_map.mpr ⟨x, hx, rfl⟩)
    obtain ⟨h1, _⟩ := h.saved_pre y hy
    have hlt : x.1.length < y.1.length := by
      rcases Nat.lt_or_ge x.1.length y.1.length with h' | h'
      · exact h'
      · exact absurd (hp.eq_of_length_le h') hne
    have hdir := hwf0.isDir_prefix (y.1.length - x.1.length - 1) x.1 y.1 hp (by omega) (by rw [h1]; simp)
    unfold FS.isFile at hxf; unfold FS.isDir at hdir
    cases hg0 : P0.get x.1 with
    | none => simp [hg0] at hxf
    | some e => cases e <;> simp_all
  obtain ⟨hs1, hs2⟩ := restoreAll_spec r.bk.saved (rmEmpty (removeNew P r) r.createdDirs) h.saved_nodup hanti
    (fun x hx => (h.saved_pre x hx).2) hready
  have hroll : rollBack P r = mkdirs (r.bk.saved.foldl restoreOne (rmEmpty (removeNew P r) r.createdDirs))
      (r.oldCreatedDirs.mergeSort (fun a b => a.length ≤ b.length)) := rfl
  constructor
  · intro p c m hp0
    rw [hroll]
    apply mkdirs_file
    by_cases hps : p ∈ r.bk.saved.map (·.1)
    · obtain ⟨x, hx, rfl⟩ := List.mem_map.mp hps
      rw [hs1 x hx, ← (h.saved_pre x hx).1, hp0]
    · have hP : P.get p = some (.file c m) := by
        rcases h.kept p c m hp0 with h' | h'
        · exact h'
        · exact absurd h' hps
      have h1 : (removeNew P r).get p = some (.file c m) := by
        rw [hF1]
        split
        · rename_i hcond
          exact absurd (h.moved p hcond.1 hcond.2.1 (by simp [FS.isFile, hp0])) hps
        · exact hP
      exact hs2 p c m (rmEmpty_file _ _ p c m h1) (fun x hx e => hps (List.mem_map.mpr ⟨x, hx, e⟩))
  · intro p c m hp
    rw [hroll] at hp
    have h3 := mkdirs_file_rev _ _ p c m hp
    by_cases hps : p ∈ r.bk.saved.map (·.1)
    · obtain ⟨x, hx, rfl⟩ := List.mem_map.mp hps
      rw [hs1 x hx] at h3
      rw [(h.saved_pre x hx).1, h3]
    · rcases restoreAll_file_from r.bk.saved _ p c m h3 with h' | h'
      · exact absurd (List.mem_map.mpr ⟨_, h', rfl⟩) hps
      · rcases (hsurv p c m (rmEmpty_file_rev _ _ p c m h')).2 with h'' | h''
        · exact h''
        · exact absurd h'' hps

end Rollback
end FB
