import FB.Props.C05NestedFail
namespace FB
open FS Spec BuildDirs

/-! ### C04: "the parent of anything that exists is a directory" — in every state in which a query is answered -/

theorem wf_erase_nondir (fs : FS) (p : Path) (hwf : TreeWF fs) (hp : fs.isDir p = false) : TreeWF (fs.erase p) := by
  intro q hq hg
  by_cases hqp : q = p
  · subst hqp; rw [get_erase_self _ _ hq] at hg; exact absurd rfl hg
  · rw [get_erase_ne _ _ _ hqp] at hg
    have hd := hwf q hq hg
    have hne : q.dropLast ≠ p := by intro e; rw [e, hp] at hd; cases hd
    unfold FS.isDir at hd ⊢
    rw [get_erase_ne _ _ _ hne]; exact hd

theorem wf_set_file (fs : FS) (p : Path) (b : String) (m : Nat) (hwf : TreeWF fs) (hpne : p ≠ [])
    (hpar : fs.isDir p.dropLast = true) (hp : fs.isDir p = false) : TreeWF (fs.set p (.file b m)) := by
  intro q hq hg
  have hparne : p.dropLast ≠ p := by
    intro e
    have := congrArg List.length e
    simp [List.length_dropLast] at this
    have : p.length ≠ 0 := by simpa using hpne
    omega
  by_cases hqp : q = p
  · subst hqp
    unfold FS.isDir at hpar ⊢
    rw [get_set_ne _ _ _ _ hparne]; exact hpar
  · rw [get_set_ne _ _ _ _ hqp] at hg
    have hd := hwf q hq hg
    have hne : q.dropLast ≠ p := by intro e; rw [e, hp] at hd; cases hd
    unfold FS.isDir at hd ⊢
    rw [get_set_ne _ _ _ _ hne]; exact hd

theorem wf_mkdirStep (fs : FS) (d : Path) (hwf : TreeWF fs) : TreeWF (mkdirStep fs d) := by
  unfold mkdirStep
  cases h : fs.mkdir d with
  | error e => exact hwf
  | ok fs' =>
    simp only
    have habs := mkdir_absent fs fs' d h
    have hpar : fs.isDir d.dropLast = true := by
      unfold FS.mkdir at h
      split at h
      · cases h
      · unfold FS.isDir FS.parent at *
        split at h <;> first | cases h | skip
        rename_i hh; rw [hh]
    intro q hq hg
    rw [get_mkdir fs fs' d q h] at hg
    unfold FS.isDir
    rw [get_mkdir fs fs' d q.dropLast h]
    by_cases hqd : q = d
    · subst hqd
      by_cases hpd : q.dropLast = q
      · simp [hpd]
      · simp only [hpd, if_false]; unfold FS.isDir at hpar; exact hpar
    · simp only [hqd, if_false] at hg
      have hd := hwf q hq hg
      by_cases hpd : q.dropLast = d
      · simp [hpd]
      · simp only [hpd, if_false]; unfold FS.isDir at hd; exact hd

theorem wf_mkdirs (ds : List Path) : ∀ (fs : FS), TreeWF fs → TreeWF (mkdirs fs ds) := by
  induction ds with
  | nil => intro fs h; exact h
  | cons d r ih => intro fs h; exact ih _ (wf_mkdirStep fs d h)

theorem wf_rmdirStep (fs : FS) (d : Path) (hwf : TreeWF fs) : TreeWF (rmdirStep fs d) := by
  unfold rmdirStep
  cases h : fs.rmdir d with
  | error e => exact hwf
  | ok fs' =>
    simp only
    obtain ⟨hdir, hempty⟩ := rmdir_was_empty_dir fs fs' d h
    intro q hq hg
    rw [get_rmdir fs fs' d q h] at hg
    by_cases hqd : q = d
    · simp [hqd] at hg
    · simp only [hqd, if_false] at hg
      have hd := hwf q hq hg
      unfold FS.isDir
      rw [get_rmdir fs fs' d q.dropLast h]
      by_cases hpd : q.dropLast = d
      · -- `q` would be a child of the empty directory `d`
        exfalso
        have hql : q = d ++ [q.getLast (by simpa using hq)] := by
          rw [← hpd]; exact (List.dropLast_append_getLast _).symm
        cases hgq : fs.get q with
        | none => exact hg hgq
        | some e =>
          have hm := mem_of_get fs q e hq hgq
          have : q.getLast (by simpa using hq) ∈ fs.childNames d := by
            rw [mem_childNames]; exact ⟨e, by rw [← hql]; exact hm⟩
          rw [hempty] at this; cases this
      · simp only [hpd, if_false]; unfold FS.isDir at hd; exact hd

theorem wf_rmEmpty (fs : FS) (ds : List Path) (hwf : TreeWF fs) : TreeWF (rmEmpty fs ds) := by
  rw [rmEmpty_eq]
  generalize ds.mergeSort (fun a b => a.length ≥ b.length) = l
  induction l generalizing fs with
  | nil => exact hwf
  | cons d r ih => exact ih _ (wf_rmdirStep fs d hwf)

/-- the invariant: the tree is well-formed, no target being built and not the cache file is a directory -/
structure GoodT (s : SpecSt) : Prop where
  wf : TreeWF s.fs
  prog : ∀ p ∈ s.inProg, s.fs.isDir p = false
  cf : s.fs.isDir s.cacheFile = false

theorem wf_erase_list (ps : List Path) : ∀ (fs : FS), TreeWF fs → (∀ p ∈ ps, fs.isDir p = false) →
    TreeWF (ps.foldl (fun fs p => fs.erase p) fs) ∧ ∀ q, fs.isDir q = false → (ps.foldl (fun fs p => fs.erase p) fs).isDir q = false := by
  induction ps with
  | nil => intro fs h _; exact ⟨h, fun _ hq => hq⟩
  | cons p r ih =>
    intro fs hwf hnd
    have hkeep : ∀ q, fs.isDir q = false → (fs.erase p).isDir q = false := by
      intro q hq
      by_cases hqp : q = p
      · subst hqp
        by_cases hr : q = []
        · subst hr; simp [FS.isDir, get_nil] at hq
        · simp [FS.isDir, get_erase_self _ _ hr]
      · unfold FS.isDir at hq ⊢; rw [get_erase_ne _ _ _ hqp]; exact hq
    obtain ⟨h1, h2⟩ := ih (fs.erase p) (wf_erase_nondir fs p hwf (hnd p (by simp)))
      (fun q hq => hkeep q (hnd q (by simp [hq])))
    exact ⟨h1, fun q hq => h2 q (hkeep q hq)⟩

/-- **the tree every query is answered from is well-formed** -/
theorem wf_visible (s : SpecSt) (h : GoodT s) : TreeWF (visible s) := by
  unfold visible
  obtain ⟨h1, h2⟩ := wf_erase_list s.inProg s.fs h.wf h.prog
  exact wf_erase_nondir _ _ h1 (h2 _ h.cf)

namespace Spec

/-- `P` holds in every state in which the run answers a query or starts / resumes user code -/
def everyQ (P : SpecSt → Prop) : Prog → Option Path → SpecSt → Prop
  | .ret _, _, s => P s
  | .raise _, _, s => P s
  | .query q k, t, s => P s ∧ everyQ P (k (View.answer s.dirSize (visible s) q)) t s
  | .write b mt k, t, s =>
    match t with
    | some p => everyQ P k t { s with pending := (p, b, mt.getD s.clock) :: s.pending, clock := s.clock + 1 }
    | none => everyQ P k t s
  | .buildFile path _ fname args kwargs body k, t, s =>
    match bfSetup s path with
    | .error e => everyQ P (k (.error e)) t (setupFailState s path e)
    | .ok (s1, made) =>
      let s1 := { s1 with invLog := ⟨fname, some path, args, kwargs⟩ :: s1.invLog }
      everyQ P body (some path) s1 ∧
      everyQ P (k (bfFinish (run body (some path) s1).2.1 path made (run body (some path) s1).1).1) t
        (bfFinish (run body (some path) s1).2.1 path made (run body (some path) s1).1).2
  | .subbuild fname args kwargs body k, t, s =>
    let key := subKey fname args kwargs
    if s.claimedSubs.any (heq key) then everyQ P (k (.error (.runtime .dupSub))) t s
    else if s.failSubs.any (heq key) then everyQ P (k (.error (.os .other))) t (consumeSubFault s key)
    else
      let s1 := { s with claimedSubs := key :: s.claimedSubs, invLog := ⟨fname, none, args, kwargs⟩ :: s.invLog }
      everyQ P body none s1 ∧ everyQ P (k (run body none s1).1) t (run body none s1).2.1

end Spec

theorem GoodT.congr {a b : SpecSt} (h : GoodT a) (h1 : b.fs = a.fs) (h2 : b.inProg = a.inProg) (h3 : b.cacheFile = a.cacheFile) : GoodT b :=
  ⟨by rw [h1]; exact h.wf, by rw [h1, h2]; exact h.prog, by rw [h1, h3]; exact h.cf⟩

theorem bfSetup_good (s s1 : SpecSt) (path : Path) (made : List Path) (hg : GoodT s) (h : bfSetup s path = .ok (s1, made)) :
    GoodT s1 ∧ (∀ q, s.fs.isDir q = true → s1.fs.isDir q = true) ∧ s1.fs.isDir path.dropLast = true ∧
    (∀ d ∈ made, s.fs.get d = none) ∧ (∀ d ∈ made, s1.fs.isDir d = true) ∧ s1.inProg = path :: s.inProg ∧ s1.cacheFile = s.cacheFile ∧
    path ≠ [] := by
  obtain ⟨hsp1, hnc, hncf, hnd, hdm, _⟩ := bfSetup_ok_fields s s1 path made h
  have hpne : path ≠ [] := by intro e; subst e; simp [FS.isDir, get_nil] at hnd
  have habsm := dirsToMake_absent s _ path.dropLast made rfl hdm
  obtain ⟨g1, g2, g3⟩ := mkdirs_dirsToMake (visible s) s.cacheFile s.inProg _ path.dropLast made s.fs rfl hdm
    (fun a ha => visible_isDir s a ha) habsm
  have hpath_made : path ∉ made := by
    intro hm
    have := Backups.dirsToMake_prefix _ _ _ _ _ _ rfl hdm path hm
    have hl := this.length_le
    simp [List.length_dropLast] at hl
    have : path.length ≠ 0 := by simpa using hpne
    omega
  have hwf1 : TreeWF (mkdirs s.fs made) := wf_mkdirs made s.fs hg.wf
  -- what `mkdirs` leaves alone
  have hkeepnd : ∀ q, s.fs.isDir q = false → q ∉ made → (mkdirs s.fs made).isDir q = false := by
    intro q hq hm
    rcases Rollback.mkdirs_get_mem made s.fs q with h' | ⟨hmm, _, _⟩
    · unfold FS.isDir at hq ⊢; rw [h']; exact hq
    · exact absurd hmm hm
  have hpnd : (mkdirs s.fs made).isDir path = false := hkeepnd path hnd hpath_made
  have hfs1 : s1.fs = if (mkdirs s.fs made).isFile path then (mkdirs s.fs made).erase path else mkdirs s.fs made := by
    rw [hsp1]; rfl
  have herase_nd : ∀ q, (mkdirs s.fs made).isDir q = false → s1.fs.isDir q = false := by
    intro q hq
    rw [hfs1]
    split
    · by_cases hqp : q = path
      · subst hqp; simp [FS.isDir, get_erase_self _ _ hpne]
      · unfold FS.isDir at hq ⊢; rw [get_erase_ne _ _ _ hqp]; exact hq
    · exact hq
  have herase_d : ∀ q, (mkdirs s.fs made).isDir q = true → s1.fs.isDir q = true := by
    intro q hq
    rw [hfs1]
    split
    · have hqp : q ≠ path := by intro e; subst e; rw [hpnd] at hq; cases hq
      unfold FS.isDir at hq ⊢; rw [get_erase_ne _ _ _ hqp]; exact hq
    · exact hq
  refine ⟨⟨?_, ?_, ?_⟩, fun q hq => herase_d q (g3 q hq), herase_d _ g1, habsm, fun d hd => herase_d d (g2 d hd), by rw [hsp1]; rfl, by rw [hsp1]; rfl, hpne⟩
  · rw [hfs1]
    split
    · exact wf_erase_nondir _ _ hwf1 hpnd
    · exact hwf1
  · intro p hp
    have hp' : p ∈ path :: s.inProg := by rw [hsp1] at hp; exact hp
    rcases List.mem_cons.mp hp' with rfl | hp''
    · exact herase_nd _ hpnd
    · exact herase_nd p (hkeepnd p (hg.prog p hp'') (fun hm => dirsToMake_not_blocked _ _ _ _ _ hdm p hm hp''))
  · have : s1.cacheFile = s.cacheFile := by rw [hsp1]; rfl
    rw [this]
    exact herase_nd _ (hkeepnd _ hg.cf (fun hm => dirsToMake_not_cf _ _ _ _ _ _ rfl hdm hm))

/-- **C04, well-formedness of the view**: from a state whose tree is well-formed, every query of every run — of any
    program, whatever fails in it, with or without injected faults — is answered from a well-formed tree: the parent of
    anything that exists is a directory (so `C04_listDir_iff`, `C04_exists_iff` and the other consistency laws of the
    view apply to it).  Also: directories that exist when a run starts exist when it ends. -/
theorem C04_view_wellformed (prog : Prog) : ∀ (t : Option Path) (s : SpecSt), GoodT s → (∀ p, t = some p → p ∈ s.inProg) →
    Spec.everyQ (fun s => TreeWF (visible s)) prog t s ∧ GoodT (Spec.run prog t s).2.1 ∧
    (∀ q, s.fs.isDir q = true → (Spec.run prog t s).2.1.fs.isDir q = true) ∧
    (Spec.run prog t s).2.1.inProg = s.inProg ∧ (Spec.run prog t s).2.1.cacheFile = s.cacheFile := by
  induction prog with
  | ret v =>
    intro t s hg _
    simp only [Spec.everyQ, Spec.run]
    split <;> exact ⟨wf_visible s hg, hg, fun _ h => h, rfl, rfl⟩
  | raise e => intro t s hg _; exact ⟨wf_visible s hg, hg, fun _ h => h, rfl, rfl⟩
  | query q k ih =>
    intro t s hg ht
    simp only [Spec.everyQ, Spec.run]
    obtain ⟨h1, h2, h3, h4, h5⟩ := ih _ t s hg ht
    exact ⟨⟨wf_visible s hg, h1⟩, h2, h3, h4, h5⟩
  | write b mt k ih =>
    intro t s hg ht
    simp only [Spec.everyQ, Spec.run]
    cases t with
    | none => exact ih none s hg ht
    | some p =>
      simp only
      exact ih (some p) { s with pending := (p, b, mt.getD s.clock) :: s.pending, clock := s.clock + 1 } (hg.congr rfl rfl rfl) ht
  | buildFile path cmp fname args kwargs body k ihb ihk =>
    intro t s hg ht
    simp only [Spec.everyQ, Spec.run]
    cases hsetup : bfSetup s path with
    | error e =>
      simp only
      obtain ⟨h1, h2, h3, h4, h5⟩ := ihk (.error e) t (setupFailState s path e) (hg.congr rfl rfl rfl) ht
      exact ⟨h1, h2, h3, h4, h5⟩
    | ok x =>
      obtain ⟨s1, made⟩ := x
      simp only
      obtain ⟨hg1, hk1, hpar1, habsm, hmade1, hin1, hcf1, hpne⟩ := bfSetup_good s s1 path made hg hsetup
      obtain ⟨b1, b2, b3, b4, b5⟩ := ihb (some path) { s1 with invLog := ⟨fname, some path, args, kwargs⟩ :: s1.invLog }
        (hg1.congr rfl rfl rfl) (fun p hp => by cases hp; show path ∈ s1.inProg; rw [hin1]; exact List.mem_cons_self ..)
      generalize hout : Spec.run body (some path) { s1 with invLog := ⟨fname, some path, args, kwargs⟩ :: s1.invLog } = out at b2 b3 b4 b5 ⊢
      have hin2 : out.2.1.inProg = path :: s.inProg := by rw [b4]; exact hin1
      have hpnd2 : out.2.1.fs.isDir path = false := b2.prog path (by rw [hin2]; exact List.mem_cons_self ..)
      have hpar2 : out.2.1.fs.isDir path.dropLast = true := b3 _ hpar1
      -- the state after the call
      have hfin : GoodT (bfFinish out.2.1 path made out.1).2 ∧
          (∀ q, s.fs.isDir q = true → (bfFinish out.2.1 path made out.1).2.fs.isDir q = true) ∧
          (bfFinish out.2.1 path made out.1).2.inProg = s.inProg ∧ (bfFinish out.2.1 path made out.1).2.cacheFile = s.cacheFile := by
        have hinp : ∀ (st : SpecSt), st.inProg = (path :: s.inProg).erase path → st.inProg = s.inProg := by
          intro st h; rw [h]; simp
        rcases (show (∃ j, (bfFinish out.2.1 path made out.1).1 = .ok j) ∨ (∃ e, (bfFinish out.2.1 path made out.1).1 = .error e) from by
          cases (bfFinish out.2.1 path made out.1).1 with
          | ok j => exact Or.inl ⟨j, rfl⟩
          | error e => exact Or.inr ⟨e, rfl⟩) with ⟨j, hj⟩ | ⟨e, he⟩
        · obtain ⟨c, m, _, _, hfinOk⟩ := bfFinish_ok_inv out.2.1 path made out.1 j hj
          rw [hfinOk]
          have hfs : (finOk out.2.1 path made c m).fs = out.2.1.fs.set path (.file c m) := rfl
          have hkeepd : ∀ q, out.2.1.fs.isDir q = true → (out.2.1.fs.set path (.file c m)).isDir q = true := by
            intro q hq
            have hne : q ≠ path := by intro e; subst e; rw [hpnd2] at hq; cases hq
            unfold FS.isDir at hq ⊢; rw [get_set_ne _ _ _ _ hne]; exact hq
          have hkeepnd : ∀ q, out.2.1.fs.isDir q = false → (out.2.1.fs.set path (.file c m)).isDir q = false := by
            intro q hq
            by_cases hqp : q = path
            · subst hqp; simp [FS.isDir, get_set_self _ _ _ hpne]
            · unfold FS.isDir at hq ⊢; rw [get_set_ne _ _ _ _ hqp]; exact hq
          refine ⟨⟨?_, ?_, ?_⟩, fun q hq => ?_, ?_, ?_⟩
          · rw [hfs]; exact wf_set_file _ _ _ _ b2.wf hpne hpar2 hpnd2
          · intro p hp
            have hp' : p ∈ out.2.1.inProg.erase path := hp
            rw [hfs]; exact hkeepnd p (b2.prog p (List.mem_of_mem_erase hp'))
          · rw [hfs]
            show (out.2.1.fs.set path (.file c m)).isDir out.2.1.cacheFile = false
            exact hkeepnd _ b2.cf
          · rw [hfs]; exact hkeepd q (b3 q (hk1 q hq))
          · exact hinp _ (by show out.2.1.inProg.erase path = _; rw [hin2])
          · show out.2.1.cacheFile = _; rw [b5]; exact hcf1
        · have hst := bfFinish_error_state out.2.1 path made out.1 e he
          rw [hst]
          have hfs : (failState out.2.1 path made).fs = rmEmpty out.2.1.fs made := rfl
          have hkeepnd : ∀ q, out.2.1.fs.isDir q = false → (rmEmpty out.2.1.fs made).isDir q = false := by
            intro q hq
            rcases rmEmpty_get made out.2.1.fs q with hgq | ⟨_, _, hgq⟩
            · unfold FS.isDir at hq ⊢; rw [hgq]; exact hq
            · simp [FS.isDir, hgq]
          refine ⟨⟨?_, ?_, ?_⟩, fun q hq => ?_, ?_, ?_⟩
          · rw [hfs]; exact wf_rmEmpty _ _ b2.wf
          · intro p hp
            have hp' : p ∈ out.2.1.inProg.erase path := hp
            rw [hfs]; exact hkeepnd p (b2.prog p (List.mem_of_mem_erase hp'))
          · rw [hfs]
            show (rmEmpty out.2.1.fs made).isDir out.2.1.cacheFile = false
            exact hkeepnd _ b2.cf
          · rw [hfs]
            have h' := b3 q (hk1 q hq)
            rcases rmEmpty_get made out.2.1.fs q with hgq | ⟨hm, _, _⟩
            · unfold FS.isDir at h' ⊢; rw [hgq]; exact h'
            · have := habsm q hm
              simp [FS.isDir, this] at hq
          · exact hinp _ (by show out.2.1.inProg.erase path = _; rw [hin2])
          · show out.2.1.cacheFile = _; rw [b5]; exact hcf1
      obtain ⟨hg3, hk3, hin3, hcf3⟩ := hfin
      obtain ⟨k1, k2, k3, k4, k5⟩ := ihk (bfFinish out.2.1 path made out.1).1 t (bfFinish out.2.1 path made out.1).2 hg3
        (fun p hp => by rw [hin3]; exact ht p hp)
      exact ⟨⟨b1, k1⟩, k2, fun q hq => k3 q (hk3 q hq), k4.trans hin3, k5.trans hcf3⟩
  | subbuild fname args kwargs body k ihb ihk =>
    intro t s hg ht
    simp only [Spec.everyQ, Spec.run]
    by_cases hcl : s.claimedSubs.any (heq (subKey fname args kwargs)) = true
    · simp only [hcl, if_true]
      obtain ⟨h1, h2, h3, h4, h5⟩ := ihk (.error (.runtime .dupSub)) t s hg ht
      exact ⟨h1, h2, h3, h4, h5⟩
    · simp only [hcl, if_false]
      by_cases hfl : s.failSubs.any (heq (subKey fname args kwargs)) = true
      · simp only [hfl, if_true]
        obtain ⟨h1, h2, h3, h4, h5⟩ := ihk (.error (.os .other)) t (consumeSubFault s (subKey fname args kwargs)) (hg.congr rfl rfl rfl) ht
        exact ⟨h1, h2, h3, h4, h5⟩
      · simp only [hfl, if_false]
        obtain ⟨b1, b2, b3, b4, b5⟩ := ihb none { s with claimedSubs := subKey fname args kwargs :: s.claimedSubs, invLog := ⟨fname, none, args, kwargs⟩ :: s.invLog }
          (hg.congr rfl rfl rfl) (fun p hp => by cases hp)
        generalize hout : Spec.run body none { s with claimedSubs := subKey fname args kwargs :: s.claimedSubs, invLog := ⟨fname, none, args, kwargs⟩ :: s.invLog } = out at b2 b3 b4 b5 ⊢
        obtain ⟨k1, k2, k3, k4, k5⟩ := ihk out.1 t out.2.1 b2 (fun p hp => by rw [b4]; exact ht p hp)
        exact ⟨⟨b1, k1⟩, k2, fun q hq => k3 q (b3 q hq), k4.trans b4, k5.trans b5⟩

theorem isDir_false_of_isFile (fs : FS) (p : Path) (h : fs.isFile p = true) : fs.isDir p = false := by
  unfold FS.isFile at h
  unfold FS.isDir
  cases hg : fs.get p with
  | none => rfl
  | some e => cases e with
    | file b m => rfl
    | dir => rw [hg] at h; cases h

theorem wf_eraseFiles (ps : List Path) : ∀ (fs : FS), TreeWF fs → TreeWF (ps.foldl (fun fs p => if fs.isFile p then fs.erase p else fs) fs) := by
  induction ps with
  | nil => intro fs h; exact h
  | cons p r ih =>
    intro fs h
    simp only [List.foldl]
    apply ih
    split
    · rename_i hf
      exact wf_erase_nondir _ _ h (isDir_false_of_isFile _ _ hf)
    · exact h

theorem wf_preClean (fs : FS) (cf : Path) (r : Rec) (hwf : TreeWF fs) : TreeWF (preClean fs cf r) := by
  rw [BuildDirs.preClean_eq]
  apply wf_rmEmpty
  unfold BuildDirs.erased
  simp only
  have h1 := wf_eraseFiles r.outputs fs hwf
  split
  · rename_i hf
    exact wf_erase_nondir _ _ h1 (isDir_false_of_isFile _ _ hf)
  · exact h1

/-- **C04 for a whole build**: when the tree a build starts on is well-formed and the cache path is not a directory
    (otherwise `build` refuses), every query the root function and everything below it makes — whatever fails, whatever
    faults are injected — is answered from a well-formed tree -/
theorem C04_build_view_wellformed (w : World) (cf : Path) (old : Rec) (failFiles : List Path) (failSubs : List H) (cds : List Path)
    (root : Prog) (hwf : TreeWF w.fs) (hcf : w.fs.isDir cf = false)
    (hcds : dirsToMake (visible (buildStart w cf failFiles failSubs old [])) cf [] cf.dropLast = .ok cds) :
    Spec.everyQ (fun s => TreeWF (visible s)) root none (buildStart w cf failFiles failSubs old cds) := by
  have hpc : TreeWF (preClean w.fs cf old) := wf_preClean w.fs cf old hwf
  have hcfpc : (preClean w.fs cf old).isDir cf = false := by
    cases hd : (preClean w.fs cf old).isDir cf with
    | false => rfl
    | true =>
      -- `preClean` makes no directories
      exfalso
      have hg : (preClean w.fs cf old).get cf = some .dir := by
        unfold FS.isDir at hd; split at hd <;> simp_all
      rw [BuildDirs.preClean_eq] at hg
      rcases rmEmpty_get old.createdDirs (BuildDirs.erased w.fs cf old.outputs) cf with h | ⟨_, _, h⟩
      · rw [h, BuildDirs.erased_get] at hg
        split at hg
        · cases hg
        · simp [FS.isDir, hg] at hcf
      · rw [h] at hg; cases hg
  have hgood : GoodT (buildStart w cf failFiles failSubs old cds) := by
    refine ⟨wf_mkdirs cds _ hpc, (fun p hp => by cases hp), ?_⟩
    show (mkdirs (preClean w.fs cf old) cds).isDir cf = false
    rcases Rollback.mkdirs_get_mem cds (preClean w.fs cf old) cf with h | ⟨hm, _, _⟩
    · unfold FS.isDir at hcfpc ⊢; rw [h]; exact hcfpc
    · exact absurd hm (fun hm => dirsToMake_not_cf _ _ _ _ _ _ rfl hcds hm)
  exact (C04_view_wellformed root none _ hgood (fun p hp => by cases hp)).1

/-! ### the life cycle of an output in the view -/

/-- **invisible while its function runs**: once the set-up of `build_file path` is through, the target is not in the view -/
theorem C04_target_hidden_while_running (s s1 : SpecSt) (path : Path) (made : List Path) (hg : GoodT s)
    (h : bfSetup s path = .ok (s1, made)) : (visible s1).get path = none := by
  obtain ⟨_, _, _, _, _, hin1, _, hpne⟩ := bfSetup_good s s1 path made hg h
  unfold visible
  exact get_none_erase _ _ _ (foldl_erase_mem s1.inProg s1.fs path hpne (by rw [hin1]; exact List.mem_cons_self ..))

/-- **visible once it returns**: when the function has returned and has written the file, the view shows the file with
    what was written (unless an enclosing call of the same path is still running, which the claims exclude) -/
theorem C04_target_visible_after_return (s2 : SpecSt) (path : Path) (made : List Path) (rb : CallRes) (j : Json)
    (hr : (bfFinish s2 path made rb).1 = .ok j) (hpne : path ≠ []) (hcf : path ≠ s2.cacheFile)
    (hone : path ∉ s2.inProg.erase path) :
    ∃ c m, pendingFind s2.pending path = some (c, m) ∧ (visible (bfFinish s2 path made rb).2).get path = some (.file c m) := by
  obtain ⟨c, m, hp, _, hfin⟩ := bfFinish_ok_inv s2 path made rb j hr
  refine ⟨c, m, hp, ?_⟩
  rw [hfin, C04_visible_elsewhere _ _ (by exact hone) (by exact hcf)]
  exact get_set_self _ _ _ hpne

/-- **gone again if it raised, together with the directories made for it that are empty**: after a failed call the
    tree holds no file the call wrote (its writes are dropped), and of the directories made for the call only those
    remain that are not empty -/
theorem C04_target_gone_after_failure (s2 : SpecSt) (path : Path) (made : List Path) (rb : CallRes) (e : Exc)
    (hr : (bfFinish s2 path made rb).1 = .error e) :
    (bfFinish s2 path made rb).2.fs.get path = (match s2.fs.get path with | some (.file b m) => some (.file b m) | some .dir => (rmEmpty s2.fs made).get path | none => none) ∧
    pendingFind (bfFinish s2 path made rb).2.pending path = none ∧
    ∀ d ∈ (bfFinish s2 path made rb).2.createdDirs, d ∈ s2.createdDirs ∨ (d ∈ made ∧ (bfFinish s2 path made rb).2.fs.isDir d = true) := by
  have hst := bfFinish_error_state s2 path made rb e hr
  rw [hst]
  refine ⟨?_, ?_, ?_⟩
  · show (rmEmpty s2.fs made).get path = _
    cases hg : s2.fs.get path with
    | none => exact rmEmpty_none _ _ _ hg
    | some en => cases en with
      | file b m => exact rmEmpty_file _ _ _ b m hg
      | dir => rfl
  · show pendingFind (s2.pending.filter (fun x => x.1 ≠ path)) path = none
    unfold pendingFind
    have : (s2.pending.filter (fun x => x.1 ≠ path)).find? (fun x => x.1 = path) = none := by
      apply List.find?_eq_none.mpr
      intro x hx
      have := (List.mem_filter.mp hx).2
      simpa using this
    rw [this]
  · intro d hd
    have hd' : d ∈ (made.filter (rmEmpty s2.fs made).isDir) ++ s2.createdDirs := hd
    rcases List.mem_append.mp hd' with h | h
    · right
      obtain ⟨h1, h2⟩ := List.mem_filter.mp h
      exact ⟨h1, h2⟩
    · left; exact h

end FB
