/-
  C04 — laws of the view build functions get (model: `FB.View` on the tree `Spec.visible s`, which
  `Impl.run` uses verbatim).  That the Python's memoised BuildDirs/CreatedFiles machinery computes
  this view is not proved here; it is tied by the correspondence check on every answer.
-/
import FB.Lemmas.Spec
namespace FB
open FS Spec

/-- C04: `exists = is_file or is_dir`. -/
theorem C04_exists_iff (fs : FS) (p : Path) :
    View.exists_ fs p = (fs.isFile p || fs.isDir p) := rfl

/-- C04: nothing is both a regular file and a directory. -/
theorem C04_not_both (fs : FS) (p : Path) : ¬ (fs.isFile p = true ∧ fs.isDir p = true) := by
  unfold isFile isDir
  cases fs.get p with
  | none => simp
  | some e => cases e <;> simp

theorem mem_insertStr (s n : String) (l : List String) : n ∈ insertStr s l ↔ n = s ∨ n ∈ l := by
  induction l with
  | nil => simp [insertStr]
  | cons t r ih =>
    simp only [insertStr]
    split
    · simp
    · split
      · rename_i h; subst h; simp
      · simp [ih, or_left_comm]

theorem mem_sortStrs (n : String) (l : List String) : n ∈ sortStrs l ↔ n ∈ l := by
  induction l with
  | nil => simp [sortStrs]
  | cons t r ih => simp [sortStrs, mem_insertStr, ih]

theorem mem_of_get (fs : FS) (p : Path) (e : Entry) (hp : p ≠ []) (h : fs.get p = some e) :
    (p, e) ∈ fs := by
  induction fs with
  | nil => simp [FS.get, hp] at h
  | cons x r ih =>
    obtain ⟨q, e'⟩ := x
    rw [get_cons _ _ _ _ hp] at h
    split at h
    · rename_i hq; subst hq; simp at h; subst h; simp
    · exact List.mem_cons_of_mem _ (ih h)

theorem get_isSome_of_mem (fs : FS) (p : Path) (e : Entry) (h : (p, e) ∈ fs) : (fs.get p).isSome := by
  by_cases hp : p = []
  · subst hp; simp [get_nil]
  induction fs with
  | nil => cases h
  | cons x r ih =>
    obtain ⟨q, e'⟩ := x
    rw [get_cons _ _ _ _ hp]
    split
    · simp
    · rename_i hq
      cases h with
      | head => exact absurd rfl hq
      | tail _ h' => exact ih h'

theorem mem_childNames (fs : FS) (d : Path) (n : String) :
    n ∈ fs.childNames d ↔ ∃ e, (d ++ [n], e) ∈ fs := by
  simp only [childNames, List.mem_filterMap]
  constructor
  · rintro ⟨⟨q, e⟩, hm, hq⟩
    simp only at hq
    split at hq
    · rename_i hc
      have hlast : q.getLast? = some n := hq
      obtain ⟨ys, hys⟩ := List.getLast?_eq_some_iff.mp hlast
      refine ⟨e, ?_⟩
      have hd : d = ys := by
        rw [← hc.2, hys]; simp [parent]
      rw [hd, ← hys]; exact hm
    · cases hq
  · rintro ⟨e, hm⟩
    refine ⟨(d ++ [n], e), hm, ?_⟩
    simp [parent]

/-- C04: `list_dir(d)` is exactly the set of names `n` with `exists(d/n)`. -/
theorem C04_listDir_iff (fs : FS) (d : Path) (ns : List String) (h : View.listDir fs d = .ok ns)
    (n : String) : n ∈ ns ↔ View.exists_ fs (d ++ [n]) = true := by
  unfold View.listDir at h
  split at h
  · simp only [Except.ok.injEq] at h
    subst h
    simp only [View.names, List.mem_filter]
    constructor
    · exact fun h => h.2
    · intro hx
      refine ⟨?_, hx⟩
      rw [listdir, mem_sortStrs, mem_childNames]
      have hne : d ++ [n] ≠ [] := by simp
      simp only [View.exists_, isFile, isDir, Bool.or_eq_true] at hx
      cases hg : fs.get (d ++ [n]) with
      | none => simp [hg] at hx
      | some e => exact ⟨e, mem_of_get fs _ e hne hg⟩
  · split at h <;> cases h

/-- C04: the error class of `list_dir` follows the other answers. -/
theorem C04_listDir_errors (fs : FS) (d : Path) :
    (fs.isDir d = false ∧ fs.isFile d = true → View.listDir fs d = .error .notADir) ∧
    (fs.isDir d = false ∧ fs.isFile d = false → View.listDir fs d = .error .notFound) := by
  constructor <;> (rintro ⟨h1, h2⟩; simp [View.listDir, h1, h2])

theorem get_none_erase (fs : FS) (p q : Path) (h : fs.get q = none) : (fs.erase p).get q = none := by
  by_cases hq : q = p
  · subst hq
    by_cases hp : q = []
    · subst hp; rw [get_nil] at h; cases h
    · exact get_erase_self _ _ hp
  · rw [get_erase_ne _ _ _ hq, h]

theorem foldl_erase_none (ps : List Path) (fs : FS) (q : Path) (h : fs.get q = none) :
    (ps.foldl (fun fs p => fs.erase p) fs).get q = none := by
  induction ps generalizing fs with
  | nil => simpa
  | cons p r ih => exact ih _ (get_none_erase fs p q h)

theorem foldl_erase_mem (ps : List Path) (fs : FS) (q : Path) (hq : q ≠ []) (h : q ∈ ps) :
    (ps.foldl (fun fs p => fs.erase p) fs).get q = none := by
  induction ps generalizing fs with
  | nil => cases h
  | cons p r ih =>
    simp only [List.foldl]
    cases h with
    | head => exact foldl_erase_none r _ q (get_erase_self _ _ hq)
    | tail _ h' => exact ih _ h'

/-- C04 (atomic output): while a `build_file` function runs, its target does not exist for any
    query; the cache file never exists for any query. -/
theorem C04_hidden (s : SpecSt) (p : Path) (h : p ∈ s.inProg ∨ p = s.cacheFile) (hp : p ≠ []) :
    View.exists_ (visible s) p = false ∧
    View.answer s.dirSize (visible s) (.isFile p) = .ok (.bool false) ∧
    View.answer s.dirSize (visible s) (.exists_ p) = .ok (.bool false) := by
  have hnone : (visible s).get p = none := by
    unfold visible
    rcases h with h | h
    · exact get_none_erase _ _ _ (foldl_erase_mem s.inProg s.fs p hp h)
    · subst h; exact get_erase_self _ _ hp
  simp [View.exists_, View.answer, View.recVal, isFile, isDir, hnone]

/-- C04: what is not hidden is seen as it is on the tree. -/
theorem C04_visible_elsewhere (s : SpecSt) (p : Path) (h1 : p ∉ s.inProg) (h2 : p ≠ s.cacheFile) :
    (visible s).get p = s.fs.get p := by
  unfold visible
  rw [get_erase_ne _ _ _ h2]
  have : ∀ (ps : List Path) (fs : FS), p ∉ ps → (ps.foldl (fun fs q => fs.erase q) fs).get p = fs.get p := by
    intro ps
    induction ps with
    | nil => intro fs _; rfl
    | cons q r ih =>
      intro fs hn
      simp only [List.foldl]
      rw [ih _ (fun hm => hn (List.mem_cons_of_mem _ hm)), get_erase_ne _ _ _ (fun e => hn (by simp [e]))]
  exact this _ _ h1

end FB
