/-
  What `started_building_file` does to the reservation bookkeeping when no build has failed (`_error_created_dirs`
  empty): reservations stay closed under `dirname`, and the call registers exactly the directories of its
  `created_dirs` that lie above the file — also those another thread reserved first (second loop, D7 repair).
-/
import FB.Props.BuildDirsInv
namespace FB
namespace BuildDirs

/-- reservations are closed under `dirname` -/
def CountsClosed (b : BD) : Prop := ∀ d, hasCount b d = true → d ≠ [] → hasCount b d.dropLast = true

/-- … except that the children of `par` may still wait for `par` -/
def CClosedBut (b : BD) (par : Path) : Prop :=
  ∀ d, hasCount b d = true → d ≠ [] → hasCount b d.dropLast = true ∨ d.dropLast = par

theorem getCount_pos (b : BD) (d : Path) (h : getCount b d > 0) : hasCount b d = true := by
  unfold getCount at h
  unfold hasCount
  cases hf : b.counts.find? (fun x => x.1 = d) with
  | none => simp [hf] at h
  | some x =>
    have hm := List.mem_of_find?_eq_some hf
    have hp := List.find?_some hf
    exact List.any_eq_true.mpr ⟨x, hm, hp⟩

structure SLPost (cds : List Path) (b b' : BD) (parent : Path) : Prop where
  err : b'.errorCreated = []
  sub : ∀ d ∈ b.created, d ∈ b'.created
  src : ∀ d ∈ b'.created, d ∈ b.created ∨ d ∈ cds
  closed : CountsClosed b'
  has : hasCount b' parent = true
  mono : ∀ d, hasCount b d = true → hasCount b' d = true

theorem discard_nil (p : Path) : discard [] p = [] := rfl

theorem startedLoop_post (cds : List Path) : ∀ (n : Nat) (parent : Path) (b : BD) (locked : List Path),
    parent.length = n → b.errorCreated = [] → CClosedBut b parent →
    SLPost cds b (startedLoop b cds parent locked).1 parent := by
  intro n
  induction n with
  | zero =>
    intro parent b locked hl he hc
    have hp : parent = [] := List.length_eq_zero_iff.mp hl
    subst hp
    rw [startedLoop]
    have hcnt : ∀ (b2 : BD), b2.counts = setCount b.counts [] (getCount b [] + 1) → ∀ e, hasCount b2 e = (decide (e = []) || hasCount b e) :=
      fun b2 h2 e => hasCount_setCount b.counts [] e _ b2 b h2 rfl
    have hclosed : ∀ (b2 : BD), (∀ e, hasCount b2 e = (decide (e = []) || hasCount b e)) → CountsClosed b2 := by
      intro b2 h2 d hd hne
      rw [h2] at hd ⊢
      simp only [hne, decide_false, Bool.false_or] at hd
      rcases hc d hd hne with h | h
      · simp [h]
      · simp [h]
    split
    · exact ⟨he, fun d hd => hd, fun d hd => Or.inl hd, hclosed _ (hcnt _ rfl), by rw [hcnt _ rfl]; simp,
        fun d hd => by rw [hcnt _ rfl]; simp [hd]⟩
    · simp only [dite_true]
      split
      · simp only
        refine ⟨by simp [he, discard_nil], fun d hd => (mem_add _ _ _).mpr (Or.inr hd), ?_, hclosed _ (hcnt _ rfl),
          by rw [hcnt _ rfl]; simp, fun d hd => by rw [hcnt _ rfl]; simp [hd]⟩
        intro d hd
        rcases (mem_add _ _ _).mp hd with rfl | hd
        · right; rename_i hcon; simpa using hcon
        · exact Or.inl hd
      · exact ⟨he, fun d hd => hd, fun d hd => Or.inl hd, hclosed _ (hcnt _ rfl), by rw [hcnt _ rfl]; simp,
          fun d hd => by rw [hcnt _ rfl]; simp [hd]⟩
  | succ n ih =>
    intro parent b locked hl he hc
    have hpne : parent ≠ [] := by intro e; subst e; simp at hl
    rw [startedLoop]
    have hcnt : ∀ (b2 : BD), b2.counts = setCount b.counts parent (getCount b parent + 1) → ∀ e, hasCount b2 e = (decide (e = parent) || hasCount b e) :=
      fun b2 h2 e => hasCount_setCount b.counts parent e _ b2 b h2 rfl
    -- after counting `parent`, only `parent` itself may wait for its parent
    have hbut : ∀ (b2 : BD), (∀ e, hasCount b2 e = (decide (e = parent) || hasCount b e)) → CClosedBut b2 parent.dropLast := by
      intro b2 h2 d hd hne
      rw [h2] at hd
      by_cases hdp : d = parent
      · right; rw [hdp]
      · simp only [hdp, decide_false, Bool.false_or] at hd
        rcases hc d hd hne with h | h
        · left; rw [h2]; simp [h]
        · left; rw [h2, h]; simp
    split
    · rename_i hpos
      have hhas := getCount_pos b parent hpos
      refine ⟨he, fun d hd => hd, fun d hd => Or.inl hd, ?_, by rw [hcnt _ rfl]; simp, fun d hd => by rw [hcnt _ rfl]; simp [hd]⟩
      intro d hd hne
      rw [hcnt _ rfl] at hd ⊢
      by_cases hdp : d = parent
      · subst hdp
        rcases hc d hhas hne with h | h
        · simp [h]
        · exfalso
          have := congrArg List.length h
          simp [List.length_dropLast] at this
          have : d.length ≠ 0 := by simpa using hne
          omega
      · simp only [hdp, decide_false, Bool.false_or] at hd
        rcases hc d hd hne with h | h
        · simp [h]
        · simp [h]
    · simp only [hpne, dite_false]
      split
      · simp only
        have := ih parent.dropLast
          { b with counts := setCount b.counts parent (getCount b parent + 1), created := add b.created parent,
                   errorCreated := discard b.errorCreated parent, removedFiles := discard b.removedFiles parent }
          (locked ++ [parent]) (by simp [List.length_dropLast, hl]) (by simp [he, discard_nil]) (hbut _ (hcnt _ rfl))
        refine ⟨this.err, fun d hd => this.sub d ((mem_add _ _ _).mpr (Or.inr hd)), ?_, this.closed, ?_, ?_⟩
        · intro d hd
          rcases this.src d hd with h | h
          · rcases (mem_add _ _ _).mp h with rfl | h
            · right; rename_i hcon; simpa using hcon
            · exact Or.inl h
          · exact Or.inr h
        · exact this.mono parent (by rw [hcnt _ rfl]; simp)
        · intro d hd
          exact this.mono d (by rw [hcnt _ rfl]; simp [hd])
      · have := ih parent.dropLast { b with counts := setCount b.counts parent (getCount b parent + 1) }
          locked (by simp [List.length_dropLast, hl]) he (hbut _ (hcnt _ rfl))
        refine ⟨this.err, this.sub, this.src, this.closed, ?_, ?_⟩
        · exact this.mono parent (by rw [hcnt _ rfl]; simp)
        · intro d hd
          exact this.mono d (by rw [hcnt _ rfl]; simp [hd])

def regState (b : BD) (parent : Path) : BD := { b with created := add b.created parent, errorCreated := discard b.errorCreated parent, removedFiles := discard b.removedFiles parent }

structure RUPost (cds : List Path) (b b' : BD) (parent : Path) : Prop where
  err : b'.errorCreated = []
  counts : b'.counts = b.counts
  sub : ∀ d ∈ b.created, d ∈ b'.created
  src : ∀ d ∈ b'.created, d ∈ b.created ∨ d ∈ cds
  reg : ∀ d, d <+: parent → d ∈ cds → hasCount b d = true → d ∈ b'.created

theorem hasCount_congr {b b' : BD} (h : b'.counts = b.counts) (d : Path) : hasCount b' d = hasCount b d := by
  simp [hasCount, h]

theorem prefix_dropLast_of_ne {d t : Path} (h : d <+: t) (hne : d ≠ t) : d <+: t.dropLast := by
  obtain ⟨r, hr⟩ := h
  have hrne : r ≠ [] := by intro e; subst e; simp at hr; exact hne hr
  rw [← hr, List.dropLast_append_of_ne_nil hrne]
  exact List.prefix_append _ _

theorem registerUp_post (cds : List Path) : ∀ (n : Nat) (parent : Path) (b : BD) (locked : List Path),
    parent.length = n → b.errorCreated = [] → RUPost cds b (registerUp b cds parent locked).1 parent := by
  intro n
  induction n with
  | zero =>
    intro parent b locked hl he
    have hp : parent = [] := List.length_eq_zero_iff.mp hl
    subst hp
    rw [registerUp]
    by_cases hc : ((cds.contains [] || b.errorCreated.contains []) && !b.created.contains [] && hasCount b []) = true
    · simp only [hc, if_true, dite_true]
      refine ⟨by simp [he, discard_nil], rfl, fun d hd => (mem_add _ _ _).mpr (Or.inr hd), ?_, ?_⟩
      · intro d hd
        rcases (mem_add _ _ _).mp hd with rfl | hd
        · right
          simp only [Bool.and_eq_true, Bool.or_eq_true] at hc
          rcases hc.1.1 with h | h
          · simpa using h
          · simp [he] at h
        · exact Or.inl hd
      · intro d hd _ _
        have : d = [] := List.prefix_nil.mp hd
        subst this
        exact (mem_add _ _ _).mpr (Or.inl rfl)
    · simp only [hc, dite_true]
      refine ⟨he, rfl, fun d hd => hd, fun d hd => Or.inl hd, ?_⟩
      intro d hd hcd hhas
      have : d = [] := List.prefix_nil.mp hd
      subst this
      have hcc : cds.contains ([] : Path) = true := by simpa using hcd
      simp only [hcc, Bool.true_or, hhas, Bool.and_true, Bool.true_and, Bool.not_eq_true', Bool.not_eq_false'] at hc
      simpa using hc
  | succ n ih =>
    intro parent b locked hl he
    have hpne : parent ≠ [] := by intro e; subst e; simp at hl
    rw [registerUp]
    by_cases hc : ((cds.contains parent || b.errorCreated.contains parent) && !b.created.contains parent && hasCount b parent) = true
    · simp only [hc, if_true, hpne, dite_false]
      have := ih parent.dropLast (regState b parent) (locked ++ [parent]) (by simp [List.length_dropLast, hl])
          (by simp [regState, he, discard_nil])
      simp only [regState] at this
      refine ⟨this.err, this.counts, fun d hd => this.sub d ((mem_add _ _ _).mpr (Or.inr hd)), ?_, ?_⟩
      · intro d hd
        rcases this.src d hd with h | h
        · rcases (mem_add _ _ _).mp h with rfl | h
          · right
            simp only [Bool.and_eq_true, Bool.or_eq_true] at hc
            rcases hc.1.1 with h | h
            · simpa using h
            · simp [he] at h
          · exact Or.inl h
        · exact Or.inr h
      · intro d hd hcd hhas
        by_cases hdp : d = parent
        · subst hdp; exact this.sub d ((mem_add _ _ _).mpr (Or.inl rfl))
        · exact this.reg d (prefix_dropLast_of_ne hd hdp) hcd hhas
    · simp only [hc, hpne, dite_false]
      have := ih parent.dropLast b locked (by simp [List.length_dropLast, hl]) he
      refine ⟨this.err, this.counts, this.sub, this.src, ?_⟩
      intro d hd hcd hhas
      by_cases hdp : d = parent
      · subst hdp
        have hcc : cds.contains d = true := by simpa using hcd
        simp only [hcc, Bool.true_or, hhas, Bool.and_true, Bool.true_and, Bool.not_eq_true', Bool.not_eq_false'] at hc
        exact this.sub d (by simpa using hc)
      · exact this.reg d (prefix_dropLast_of_ne hd hdp) hcd hhas

theorem hasCount_prefixes (b : BD) (hc : CountsClosed b) : ∀ (n : Nat) (t : Path), t.length = n → hasCount b t = true →
    ∀ d, d <+: t → hasCount b d = true := by
  intro n
  induction n with
  | zero =>
    intro t hl ht d hd
    have : t = [] := List.length_eq_zero_iff.mp hl
    subst this
    rw [List.prefix_nil.mp hd]; exact ht
  | succ n ih =>
    intro t hl ht d hd
    by_cases hdt : d = t
    · rw [hdt]; exact ht
    · have htne : t ≠ [] := by intro e; subst e; simp at hl
      exact ih t.dropLast (by simp [List.length_dropLast, hl]) (hc t ht htne) d (prefix_dropLast_of_ne hd hdt)

/-- what `started_building_file(p, cds)` does to the bookkeeping when no build has failed: it registers exactly the
    directories in `cds` that lie above `p` -/
structure StartedPost (cds : List Path) (b b' : BD) (p : Path) : Prop where
  err : b'.errorCreated = []
  closed : CountsClosed b'
  sub : ∀ d ∈ b.created, d ∈ b'.created
  src : ∀ d ∈ b'.created, d ∈ b.created ∨ d ∈ cds
  reg : ∀ d ∈ cds, d <+: p.dropLast → p ≠ [] → d ∈ b'.created

theorem started_post (b : BD) (p : Path) (cds : List Path) (he : b.errorCreated = []) (hc : CountsClosed b) :
    StartedPost cds b (started b p cds).1 p := by
  unfold started
  cases p with
  | nil => exact ⟨he, hc, fun d hd => hd, fun d hd => Or.inl hd, fun _ _ _ h => absurd rfl h⟩
  | cons a r =>
    have h1 := startedLoop_post cds _ (a :: r).dropLast { b with removedFiles := discard b.removedFiles (a :: r) } [] rfl he
      (fun d hd hne => Or.inl (hc d hd hne))
    simp only
    split
    · rename_i hskip
      simp only [Bool.and_eq_true, List.isEmpty_iff] at hskip
      refine ⟨h1.err, h1.closed, h1.sub, h1.src, ?_⟩
      intro d hd
      rw [hskip.1] at hd; cases hd
    · have h2 := registerUp_post cds _ (a :: r).dropLast
        (startedLoop { b with removedFiles := discard b.removedFiles (a :: r) } cds (a :: r).dropLast []).1
        (startedLoop { b with removedFiles := discard b.removedFiles (a :: r) } cds (a :: r).dropLast []).2 rfl h1.err
      refine ⟨h2.err, ?_, fun d hd => h2.sub d (h1.sub d hd), ?_, ?_⟩
      · intro d hd hne
        rw [hasCount_congr h2.counts] at hd ⊢
        exact h1.closed d hd hne
      · intro d hd
        rcases h2.src d hd with h | h
        · exact h1.src d h
        · exact Or.inr h
      · intro d hd hpre _
        exact h2.reg d hpre hd (hasCount_prefixes _ h1.closed _ _ rfl h1.has d hpre)

end BuildDirs
end FB
