import FB.Props.C05NestedRerun
import FB.Props.C05ArgsWf
namespace FB
open FS Spec Impl

/-- shrinking the key set of `strip`: the extra keys occur in neither tree -/
theorem strip_shrink (K K' : List Path) (a b : FS) (hsub : ∀ k ∈ K, k ∈ K') (h : strip K' a = strip K' b)
    (ha : ∀ x ∈ a, x.1 ∈ K' → x.1 ∈ K) (hb : ∀ x ∈ b, x.1 ∈ K' → x.1 ∈ K) : strip K a = strip K b := by
  have e : ∀ (l : FS), (∀ x ∈ l, x.1 ∈ K' → x.1 ∈ K) → strip K l = strip K' l := by
    intro l hl
    unfold strip
    apply List.filter_congr
    intro x hx
    by_cases hk : x.1 ∈ K
    · simp [hk, hsub _ hk]
    · have : x.1 ∉ K' := fun h' => hk (hl x hx h')
      simp [hk, this]
  rw [e a ha, e b hb, h]

theorem strip_shrink_one (K K' : List Path) (l : FS) (hsub : ∀ k ∈ K, k ∈ K') (hl : ∀ x ∈ l, x.1 ∈ K' → x.1 ∈ K) :
    strip K l = strip K' l := by
  unfold strip
  apply List.filter_congr
  intro x hx
  by_cases hk : x.1 ∈ K
  · simp [hk, hsub _ hk]
  · have : x.1 ∉ K' := fun h' => hk (hl x hx h')
    simp [hk, this]

theorem no_entry_of_none (fs : FS) (k : Path) (h : fs.get k = none) : ∀ x ∈ fs, x.1 ≠ k := by
  intro x hx e
  have := get_isSome_of_mem fs x.1 x.2 (by cases x; exact hx)
  rw [e, h] at this; cases this

mutual
/-- the targets of the `build_file` calls that returned (the outputs the cache file lists) -/
def okT : Op → List Path
  | .simple _ _ _ _ => []
  | .buildFile p _ _ _ _ subs _ _ raised sf _ => okTL subs ++ (if sf || raised then [] else [p])
  | .subbuild _ _ _ subs _ _ _ => okTL subs
def okTL : List Op → List Path
  | [] => []
  | o :: os => okT o ++ okTL os
end

mutual
/-- the targets of the `build_file` calls that raised -/
def badT : Op → List Path
  | .simple _ _ _ _ => []
  | .buildFile p _ _ _ _ subs _ _ raised sf _ => badTL subs ++ (if !sf && raised then [p] else [])
  | .subbuild _ _ _ subs _ _ _ => badTL subs
def badTL : List Op → List Path
  | [] => []
  | o :: os => badT o ++ badTL os
end

theorem okTL_cons (o : Op) (os : List Op) : okTL (o :: os) = okT o ++ okTL os := by simp [okTL]
theorem badTL_cons (o : Op) (os : List Op) : badTL (o :: os) = badT o ++ badTL os := by simp [badTL]

theorem okT_bfRecord_ok (path : Path) (cmp : Cmp) (fname : String) (args kwargs : Json) (subs : List Op)
    (rb : CallRes) (j : Json) (s3 : KSt) :
    okT (bfRecord path cmp fname args kwargs subs rb (.ok j) s3) = okTL subs ++ [path] ∧
    badT (bfRecord path cmp fname args kwargs subs rb (.ok j) s3) = badTL subs := by
  unfold bfRecord; simp [okT, badT]

theorem okT_bfRecord_err (path : Path) (cmp : Cmp) (fname : String) (args kwargs : Json) (subs : List Op)
    (rb : CallRes) (e : Exc) (s3 : KSt) :
    okT (bfRecord path cmp fname args kwargs subs rb (.error e) s3) = okTL subs ∧
    badT (bfRecord path cmp fname args kwargs subs rb (.error e) s3) = badTL subs ++ [path] := by
  unfold bfRecord; simp [okT, badT]

theorem okT_sbRecord (fname : String) (args kwargs : Json) (subs : List Op) (r : CallRes) :
    okT (sbRecord fname args kwargs subs r) = okTL subs ∧ badT (sbRecord fname args kwargs subs r) = badTL subs := by
  cases r <;> simp [sbRecord, okT, badT]

mutual
theorem okT_sub : (o : Op) → ∀ p, (p ∈ okT o ∨ p ∈ badT o) → p ∈ targetsDeep o
  | .simple _ _ _ _, p, h => by simp [okT, badT] at h
  | .buildFile q _ _ _ _ subs _ _ raised sf _, p, h => by
    simp only [okT, badT, targetsDeep, List.mem_append] at h ⊢
    rcases h with (h | h) | (h | h)
    · exact Or.inl (okTL_sub subs p (Or.inl h))
    · right; cases sf <;> cases raised <;> simp_all
    · exact Or.inl (okTL_sub subs p (Or.inr h))
    · right; cases sf <;> cases raised <;> simp_all
  | .subbuild _ _ _ subs _ _ _, p, h => by
    simp only [okT, badT, targetsDeep] at h ⊢
    exact okTL_sub subs p h
theorem okTL_sub : (os : List Op) → ∀ p, (p ∈ okTL os ∨ p ∈ badTL os) → p ∈ targetsDeepL os
  | [], p, h => by simp [okTL, badTL] at h
  | o :: os, p, h => by
    simp only [okTL, badTL, targetsDeepL, List.mem_append] at h ⊢
    rcases h with (h | h) | (h | h)
    · exact Or.inl (okT_sub o p (Or.inl h))
    · exact Or.inr (okTL_sub os p (Or.inl h))
    · exact Or.inl (okT_sub o p (Or.inr h))
    · exact Or.inr (okTL_sub os p (Or.inr h))
end

/-- what ANY first run without set-up failures does to the tree and the bookkeeping -/
structure RunF (s s2 : KSt) (ops : List Op) : Prop where
  claimed : ∀ p ∈ s.sp.claimedFiles, p ∈ s2.sp.claimedFiles
  dirs : ∀ d ∈ s.sp.createdDirs, d ∈ s2.sp.createdDirs
  strip : ∀ K : List Path, (∀ p ∈ s2.sp.claimedFiles, p ∈ K) → (∀ d ∈ s2.sp.createdDirs, d ∈ K) →
    strip K s2.sp.fs = strip K s.sp.fs
  cacheFile : s2.sp.cacheFile = s.sp.cacheFile
  dirSize : s2.sp.dirSize = s.sp.dirSize
  kept : ∀ q, s.sp.fs.isDir q = true → s2.sp.fs.isDir q = true
  newDirs : ∀ d ∈ s2.sp.createdDirs, d ∈ s.sp.createdDirs ∨
    (s2.sp.fs.isDir d = true ∧ d ≠ s.sp.cacheFile ∧ s.sp.fs.isDir d = false)
  okOut : ∀ p ∈ okTL ops, ∃ c m, s2.sp.fs.get p = some (.file c m)
  badOut : ∀ p ∈ badTL ops, s2.sp.fs.get p = none
  tcl : ∀ p ∈ targetsDeepL ops, p ∈ s2.sp.claimedFiles ∧ p ≠ s.sp.cacheFile
  claimedBy : ∀ p ∈ s2.sp.claimedFiles, p ∈ s.sp.claimedFiles ∨ p ∈ targetsDeepL ops
  fresh : ∀ p ∈ targetsDeepL ops, p ∉ s.sp.claimedFiles

theorem RunF.refl (s : KSt) : RunF s s [] :=
  ⟨fun _ h => h, fun _ h => h, fun _ _ _ => rfl, rfl, rfl, fun _ h => h, fun _ h => Or.inl h,
   fun p hp => by simp [okTL] at hp, fun p hp => by simp [badTL] at hp, fun p hp => by simp [targetsDeepL] at hp,
   fun _ h => Or.inl h, fun p hp => by simp [targetsDeepL] at hp⟩

theorem RunF.congr {s s2 : KSt} {ops ops' : List Op} (h1 : targetsDeepL ops' = targetsDeepL ops) (h2 : okTL ops' = okTL ops)
    (h3 : badTL ops' = badTL ops) (h : RunF s s2 ops) : RunF s s2 ops' :=
  ⟨h.claimed, h.dirs, h.strip, h.cacheFile, h.dirSize, h.kept, h.newDirs, by rw [h2]; exact h.okOut, by rw [h3]; exact h.badOut,
   by rw [h1]; exact h.tcl, by rw [h1]; exact h.claimedBy, by rw [h1]; exact h.fresh⟩

/-- two runs one after the other -/
theorem RunF.trans {a b c : KSt} {o1 o2 o : List Op} (h1 : RunF a b o1) (h2 : RunF b c o2)
    (ht : targetsDeepL o = targetsDeepL o1 ++ targetsDeepL o2) (hok : okTL o = okTL o1 ++ okTL o2)
    (hbad : badTL o = badTL o1 ++ badTL o2)
    (hkeep : FirstKeeps b c)
    (habs : ∀ p ∈ badTL o1, b.sp.fs.get p = none → c.sp.fs.get p = none) : RunF a c o := by
  refine ⟨fun p hp => h2.claimed p (h1.claimed p hp), fun d hd => h2.dirs d (h1.dirs d hd), ?_,
    h2.cacheFile.trans h1.cacheFile, h2.dirSize.trans h1.dirSize, fun q hq => h2.kept q (h1.kept q hq), ?_, ?_, ?_, ?_, ?_, ?_⟩
  · intro K hK1 hK2
    rw [h2.strip K hK1 hK2]
    exact h1.strip K (fun p hp => hK1 p (h2.claimed p hp)) (fun d hd => hK2 d (h2.dirs d hd))
  · intro d hd
    rcases h2.newDirs d hd with h | ⟨g1, g2, g3⟩
    · rcases h1.newDirs d h with h' | ⟨g1, g2, g3⟩
      · exact Or.inl h'
      · exact Or.inr ⟨h2.kept d g1, g2, g3⟩
    · right
      refine ⟨g1, by rw [← h1.cacheFile]; exact g2, ?_⟩
      cases hq : a.sp.fs.isDir d with
      | false => rfl
      | true => rw [h1.kept d hq] at g3; cases g3
  · rw [hok]
    intro p hp
    rcases List.mem_append.mp hp with hp | hp
    · obtain ⟨c', m', hg⟩ := h1.okOut p hp
      exact ⟨c', m', hkeep.files p c' m' hg (h1.tcl p (okTL_sub o1 p (Or.inl hp))).1⟩
    · exact h2.okOut p hp
  · rw [hbad]
    intro p hp
    rcases List.mem_append.mp hp with hp | hp
    · exact habs p hp (h1.badOut p hp)
    · exact h2.badOut p hp
  · rw [ht]
    intro p hp
    rcases List.mem_append.mp hp with hp | hp
    · exact ⟨h2.claimed p (h1.tcl p hp).1, (h1.tcl p hp).2⟩
    · exact ⟨(h2.tcl p hp).1, by rw [← h1.cacheFile]; exact (h2.tcl p hp).2⟩
  · rw [ht]
    intro p hp
    rcases h2.claimedBy p hp with h | h
    · rcases h1.claimedBy p h with h' | h'
      · exact Or.inl h'
      · exact Or.inr (List.mem_append_left _ h')
    · exact Or.inr (List.mem_append_right _ h)
  · rw [ht]
    intro p hp
    rcases List.mem_append.mp hp with hp | hp
    · exact h1.fresh p hp
    · exact fun hc => h2.fresh p hp (h1.claimed p hc)

theorem bfFinish_cf (sp : SpecSt) (path : Path) (made : List Path) (r : CallRes) :
    (bfFinish sp path made r).2.cacheFile = sp.cacheFile := by
  unfold bfFinish
  cases r with
  | error e => rfl
  | ok j => simp only; split <;> rfl

theorem targetsDeepL_single (o : Op) : targetsDeepL [o] = targetsDeep o := by simp [targetsDeepL]
theorem okTL_single (o : Op) : okTL [o] = okT o := by simp [okTL]
theorem badTL_single (o : Op) : badTL [o] = badT o := by simp [badTL]

/-- **the first run, with calls that raise**: what a run of ANY program does (no cache, no set-up failure), whatever
    raised inside it -/
theorem nested_runF (prog : Prog) : ∀ (t : Option Path) (s : KSt), s.old.roots = [] → s.sp.failFiles = [] →
    s.sp.failSubs = [] → noSFL (Impl.run prog t s).2.2 = true →
    Antichain (targetsDeepL (Impl.run prog t s).2.2) →
    (∀ p ∈ targetsDeepL (Impl.run prog t s).2.2, s.sp.fs.get p = none) →
    RunF s (Impl.run prog t s).2.1 (Impl.run prog t s).2.2 := by
  induction prog with
  | ret v => intro t s _ _ _ _ _ _; simp only [Impl.run]; split <;> exact RunF.refl s
  | raise e => intro t s _ _ _ _ _ _; simp only [Impl.run]; exact RunF.refl s
  | query q k ih =>
    intro t s h0 h1 h2 hok hanti habs
    simp only [Impl.run] at hok hanti habs ⊢
    rw [noSFL_cons] at hok
    simp only [Bool.and_eq_true] at hok
    cases hrv : View.recVal s.sp.dirSize (visible s.sp) q with
    | ok v =>
      simp only [hrv] at hanti habs ⊢
      rw [targetsDeepL_cons] at hanti habs
      simp only [targetsDeep, List.nil_append] at hanti habs
      exact (ih _ t s h0 h1 h2 hok.2 hanti habs).congr (by rw [targetsDeepL_cons]; simp [targetsDeep])
        (by rw [okTL_cons]; simp [okT]) (by rw [badTL_cons]; simp [badT])
    | error e =>
      simp only [hrv] at hanti habs ⊢
      rw [targetsDeepL_cons] at hanti habs
      simp only [targetsDeep, List.nil_append] at hanti habs
      exact (ih _ t s h0 h1 h2 hok.2 hanti habs).congr (by rw [targetsDeepL_cons]; simp [targetsDeep])
        (by rw [okTL_cons]; simp [okT]) (by rw [badTL_cons]; simp [badT])
  | write b mt k ih =>
    intro t s h0 h1 h2 hok hanti habs
    simp only [Impl.run] at hok hanti habs ⊢
    cases t with
    | none => exact ih none s h0 h1 h2 hok hanti habs
    | some p =>
      have := ih (some p) (liftSp s fun sp => { sp with pending := (p, b, mt.getD sp.clock) :: sp.pending, clock := sp.clock + 1 }) h0 h1 h2 hok hanti habs
      exact ⟨this.claimed, this.dirs, this.strip, this.cacheFile, this.dirSize, this.kept, this.newDirs, this.okOut, this.badOut,
        this.tcl, this.claimedBy, this.fresh⟩
  | buildFile path cmp fname args kwargs body k ihb ihk =>
    intro t s h0 h1 h2 hok hanti habs
    cases hsetup : bfSetup s.sp path with
    | error e =>
      exfalso
      have := run_bf_setupfail s t path cmp fname args kwargs body k e hsetup
      cases hops : (Impl.run (.buildFile path cmp fname args kwargs body k) t s).2.2 with
      | nil => rw [hops] at this; cases this
      | cons o os =>
        rw [hops] at this hok
        simp only [List.head?_cons, Option.some.injEq] at this
        subst this
        simp [noSFL, noSF] at hok
    | ok x =>
      obtain ⟨sp1, made⟩ := x
      obtain ⟨hsp1, hnc, hncf, hnd, hdm, _⟩ := bfSetup_ok_fields s.sp sp1 path made hsetup
      have hpne : path ≠ [] := by intro e; subst e; simp [FS.isDir, get_nil] at hnd
      have hlook := lookupFile_empty (afterSetup s sp1 path made) h0 path cmp fname args kwargs made
      rw [run_bf_miss s t path cmp fname args kwargs body k sp1 made hsetup hlook] at hok hanti habs ⊢
      simp only at hok hanti habs ⊢
      have hk1ff : (missStart (afterSetup s sp1 path made) path ⟨fname, some path, args, kwargs⟩).sp.failFiles = [] := by
        show sp1.failFiles = []; rw [hsp1]; exact h1
      have hk1fs : (missStart (afterSetup s sp1 path made) path ⟨fname, some path, args, kwargs⟩).sp.failSubs = [] := by
        show sp1.failSubs = []; rw [hsp1]; exact h2
      have hkb := run_keeps body (some path) (missStart (afterSetup s sp1 path made) path ⟨fname, some path, args, kwargs⟩) h0 hk1ff hk1fs
      have hab := run_absent body (some path) (missStart (afterSetup s sp1 path made) path ⟨fname, some path, args, kwargs⟩)
      have ihb' := ihb (some path) (missStart (afterSetup s sp1 path made) path ⟨fname, some path, args, kwargs⟩) h0 hk1ff hk1fs
      generalize hout : Impl.run body (some path) (missStart (afterSetup s sp1 path made) path ⟨fname, some path, args, kwargs⟩) = out
        at hok hanti habs hkb hab ihb' ⊢
      rw [targetsDeepL_cons, targetsDeep_bfRecord] at hanti habs
      rw [noSFL_cons, Bool.and_eq_true] at hok
      have hoksubs := noSF_bfRecord _ _ _ _ _ _ _ _ _ hok.1
      have hokrest := hok.2
      have hsub_path : ∀ p ∈ targetsDeepL out.2.2, p ≠ path ∧ ¬ p <+: path ∧ ¬ path <+: p := by
        intro p hp
        exact Antichain.ne_of_mem_append hanti.left hp (List.mem_singleton.mpr rfl)
      have hmade_pre : ∀ d ∈ made, d <+: path := fun d hd =>
        (Backups.dirsToMake_prefix _ _ _ _ _ _ rfl hdm d hd).trans (List.dropLast_prefix path)
      have hpath_made : path ∉ made := by
        intro hm
        have := Backups.dirsToMake_prefix _ _ _ _ _ _ rfl hdm path hm
        have hl := this.length_le
        simp [List.length_dropLast] at hl
        have : path.length ≠ 0 := by simpa using hpne
        omega
      have hnot_made : ∀ p, ¬ p <+: path → p ∉ made := fun p hp hm => hp (hmade_pre p hm)
      have habs_path : s.sp.fs.get path = none := habs path (by simp)
      have hpath_mk : (Spec.mkdirs s.sp.fs made).get path = none := by
        rcases Rollback.mkdirs_get_mem made s.sp.fs path with h' | ⟨hm, _, _⟩
        · rw [h', habs_path]
        · exact absurd hm hpath_made
      have hk1fs' : sp1.fs = Spec.mkdirs s.sp.fs made := by
        rw [hsp1]; unfold setupState; simp only
        simp [FS.isFile, hpath_mk]
      have habs1 : ∀ p ∈ targetsDeepL out.2.2, (missStart (afterSetup s sp1 path made) path ⟨fname, some path, args, kwargs⟩).sp.fs.get p = none := by
        intro p hp
        show sp1.fs.get p = none
        rw [hsp1]
        exact setupState_absent _ _ _ _ (hsub_path p hp).1 (hnot_made p (hsub_path p hp).2.1) (habs p (by simp [hp]))
      have hpath_out : out.2.1.sp.fs.get path = none := by
        apply hab path h0 hk1ff hk1fs
        · show sp1.fs.get path = none
          rw [hk1fs']; exact hpath_mk
        · intro p hp; exact (hsub_path p hp).2.2
      have hb := ihb' hoksubs hanti.left.left habs1
      obtain ⟨_, hk2, hk3⟩ := bfFinish_keeps out.2.1.sp path made out.1
      have hk3old : (withSp out.2.1 (bfFinish out.2.1.sp path made out.1).2).old.roots = [] := by
        show out.2.1.old.roots = []; rw [hkb.old]; exact h0
      have hk3ff : (withSp out.2.1 (bfFinish out.2.1.sp path made out.1).2).sp.failFiles = [] := by
        show (bfFinish _ path made out.1).2.failFiles = []; rw [hk2]; exact hkb.ff
      have hk3fs : (withSp out.2.1 (bfFinish out.2.1.sp path made out.1).2).sp.failSubs = [] := by
        show (bfFinish _ path made out.1).2.failSubs = []; rw [hk3]; exact hkb.fsb
      have hrest_path : ∀ p ∈ targetsDeepL (Impl.run (k (bfFinish out.2.1.sp path made out.1).1) t (withSp out.2.1 (bfFinish out.2.1.sp path made out.1).2)).2.2,
          p ≠ path ∧ ¬ p <+: path ∧ ¬ path <+: p := by
        intro p hp
        have := Antichain.ne_of_mem_append hanti (List.mem_append_right _ (List.mem_singleton.mpr rfl)) hp
        exact ⟨fun e => this.1 e.symm, this.2.2, this.2.1⟩
      have hrest_sub : ∀ p ∈ targetsDeepL (Impl.run (k (bfFinish out.2.1.sp path made out.1).1) t (withSp out.2.1 (bfFinish out.2.1.sp path made out.1).2)).2.2,
          ∀ p' ∈ targetsDeepL out.2.2, ¬ p <+: p' ∧ ¬ p' <+: p := by
        intro p hp p' hp'
        have := Antichain.ne_of_mem_append hanti (List.mem_append_left _ hp') hp
        exact ⟨this.2.2, this.2.1⟩
      have habs3 : ∀ p ∈ targetsDeepL (Impl.run (k (bfFinish out.2.1.sp path made out.1).1) t (withSp out.2.1 (bfFinish out.2.1.sp path made out.1).2)).2.2,
          (withSp out.2.1 (bfFinish out.2.1.sp path made out.1).2).sp.fs.get p = none := by
        intro p hp
        apply bfFinish_absent _ _ _ _ _ (hrest_path p hp).1
        apply hab p h0 hk1ff hk1fs
        · show sp1.fs.get p = none
          rw [hsp1]
          exact setupState_absent _ _ _ _ (hrest_path p hp).1 (hnot_made p (hrest_path p hp).2.1) (habs p (by simp [hp]))
        · exact fun p' hp' => (hrest_sub p hp p' hp').1
      have hkk := ihk (bfFinish out.2.1.sp path made out.1).1 t (withSp out.2.1 (bfFinish out.2.1.sp path made out.1).2)
        hk3old hk3ff hk3fs hokrest hanti.right habs3
      have hkeep3 := run_keeps (k (bfFinish out.2.1.sp path made out.1).1) t (withSp out.2.1 (bfFinish out.2.1.sp path made out.1).2) hk3old hk3ff hk3fs
      have hab3 := run_absent (k (bfFinish out.2.1.sp path made out.1).1) t (withSp out.2.1 (bfFinish out.2.1.sp path made out.1).2)
      -- the set-up makes the directories
      have habsm := dirsToMake_absent s.sp _ path.dropLast made rfl hdm
      obtain ⟨_, g2, g3⟩ := mkdirs_dirsToMake (visible s.sp) s.sp.cacheFile s.sp.inProg _ path.dropLast made s.sp.fs rfl hdm
        (fun a ha => visible_isDir s.sp a ha) habsm
      have hcl3 : (withSp out.2.1 (bfFinish out.2.1.sp path made out.1).2).sp.claimedFiles = out.2.1.sp.claimedFiles := bfFinish_claimed _ _ _ _
      have hcl1 : (missStart (afterSetup s sp1 path made) path ⟨fname, some path, args, kwargs⟩).sp.claimedFiles = path :: s.sp.claimedFiles := by
        show sp1.claimedFiles = _; rw [hsp1]; rfl
      have hcd1 : (missStart (afterSetup s sp1 path made) path ⟨fname, some path, args, kwargs⟩).sp.createdDirs = s.sp.createdDirs := by
        show sp1.createdDirs = _; rw [hsp1]; rfl
      have hcf1 : (missStart (afterSetup s sp1 path made) path ⟨fname, some path, args, kwargs⟩).sp.cacheFile = s.sp.cacheFile := by
        show sp1.cacheFile = _; rw [hsp1]; rfl
      have hds1 : (missStart (afterSetup s sp1 path made) path ⟨fname, some path, args, kwargs⟩).sp.dirSize = s.sp.dirSize := by
        show sp1.dirSize = _; rw [hsp1]; rfl
      have hfs1 : (missStart (afterSetup s sp1 path made) path ⟨fname, some path, args, kwargs⟩).sp.fs = Spec.mkdirs s.sp.fs made := hk1fs'
      have hpath_cl : path ∈ out.2.1.sp.claimedFiles := hb.claimed path (by rw [hcl1]; exact List.mem_cons_self ..)
      have hmade_out : ∀ d ∈ made, out.2.1.sp.fs.isDir d = true := fun d hd => hb.kept d (by rw [hfs1]; exact g2 d hd)
      have hmade_ne : ∀ d ∈ made, d ≠ s.sp.cacheFile := fun d hd e => by
        subst e; exact dirsToMake_not_cf _ _ _ _ _ _ rfl hdm hd
      have hmade_nd : ∀ d ∈ made, s.sp.fs.isDir d = false := fun d hd => by simp [FS.isDir, habsm d hd]
      -- this call alone
      have hcall : RunF s (withSp out.2.1 (bfFinish out.2.1.sp path made out.1).2)
          [bfRecord path cmp fname args kwargs out.2.2 out.1 (bfFinish out.2.1.sp path made out.1).1
            (withSp out.2.1 (bfFinish out.2.1.sp path made out.1).2)] := by
        rcases (show (∃ j, (bfFinish out.2.1.sp path made out.1).1 = .ok j) ∨ (∃ e, (bfFinish out.2.1.sp path made out.1).1 = .error e) from by
          cases (bfFinish out.2.1.sp path made out.1).1 with
          | ok j => exact Or.inl ⟨j, rfl⟩
          | error e => exact Or.inr ⟨e, rfl⟩) with ⟨j, hj⟩ | ⟨e, he⟩
        · -- the function returned and had written its file
          obtain ⟨c, m, _, _, hfinOk⟩ := bfFinish_ok_inv out.2.1.sp path made out.1 j hj
          rw [hj]
          have hfs3 : (withSp out.2.1 (bfFinish out.2.1.sp path made out.1).2).sp.fs = out.2.1.sp.fs.set path (.file c m) := by
            show (bfFinish _ path made out.1).2.fs = _; rw [hfinOk]; rfl
          have hcd3 : (withSp out.2.1 (bfFinish out.2.1.sp path made out.1).2).sp.createdDirs = made ++ out.2.1.sp.createdDirs := by
            show (bfFinish _ path made out.1).2.createdDirs = _; rw [hfinOk]; rfl
          refine ⟨?_, ?_, ?_, ?_, ?_, ?_, ?_, ?_, ?_, ?_, ?_, ?_⟩
          · intro p hp; rw [hcl3]; exact hb.claimed p (by rw [hcl1]; exact List.mem_cons_of_mem _ hp)
          · intro d hd; rw [hcd3]; exact List.mem_append_right _ (hb.dirs d (by rw [hcd1]; exact hd))
          · intro K hK1 hK2
            have hK1' : ∀ p ∈ out.2.1.sp.claimedFiles, p ∈ K := fun p hp => hK1 p (by rw [hcl3]; exact hp)
            have hK2' : ∀ d ∈ made ++ out.2.1.sp.createdDirs, d ∈ K := fun d hd => hK2 d (by rw [hcd3]; exact hd)
            have hpK : path ∈ K := hK1' path hpath_cl
            have hmK : ∀ d ∈ made, d ∈ K := fun d hd => hK2' d (List.mem_append_left _ hd)
            rw [hfs3, strip_set K _ path _ hpK, hb.strip K hK1' (fun d hd => hK2' d (List.mem_append_right _ hd)), hfs1,
              strip_mkdirs K made hmK]
          · show (bfFinish _ path made out.1).2.cacheFile = _
            rw [bfFinish_cf, hb.cacheFile, hcf1]
          · show (bfFinish _ path made out.1).2.dirSize = _
            rw [(bfFinish_keeps _ _ _ _).1, hb.dirSize, hds1]
          · intro q hq
            rw [hfs3]
            have h' : out.2.1.sp.fs.isDir q = true := hb.kept q (by rw [hfs1]; exact g3 q hq)
            have hne : q ≠ path := by intro e; subst e; simp [FS.isDir, hpath_out] at h'
            unfold FS.isDir; rw [get_set_ne _ _ _ _ hne]; exact h'
          · intro d hd
            rw [hcd3] at hd
            have hkeepd : ∀ d, out.2.1.sp.fs.isDir d = true → (withSp out.2.1 (bfFinish out.2.1.sp path made out.1).2).sp.fs.isDir d = true := by
              intro d h'
              rw [hfs3]
              have hne : d ≠ path := by intro e; subst e; simp [FS.isDir, hpath_out] at h'
              unfold FS.isDir; rw [get_set_ne _ _ _ _ hne]; exact h'
            rcases List.mem_append.mp hd with hm | hm
            · exact Or.inr ⟨hkeepd d (hmade_out d hm), hmade_ne d hm, hmade_nd d hm⟩
            · rcases hb.newDirs d hm with h3 | ⟨h3, h4, h5⟩
              · left; rw [← hcd1]; exact h3
              · right
                refine ⟨hkeepd d h3, by rw [← hcf1]; exact h4, ?_⟩
                cases hq : s.sp.fs.isDir d with
                | false => rfl
                | true => rw [hfs1, g3 d hq] at h5; cases h5
          · rw [okTL_single, (okT_bfRecord_ok ..).1]
            intro p hp
            rcases List.mem_append.mp hp with hp | hp
            · obtain ⟨c', m', hg⟩ := hb.okOut p hp
              have hpp := (hsub_path p (okTL_sub _ p (Or.inl hp))).1
              exact ⟨c', m', bfFinish_file_other _ _ _ _ _ _ _ hpp hg⟩
            · simp only [List.mem_singleton] at hp; subst hp
              exact ⟨c, m, by rw [hfs3]; exact get_set_self _ _ _ hpne⟩
          · rw [badTL_single, (okT_bfRecord_ok ..).2]
            intro p hp
            have hpp := (hsub_path p (okTL_sub _ p (Or.inr hp))).1
            exact bfFinish_absent _ _ _ _ _ hpp (hb.badOut p hp)
          · rw [targetsDeepL_single, targetsDeep_bfRecord]
            intro p hp
            rcases List.mem_append.mp hp with hp | hp
            · exact ⟨by rw [hcl3]; exact (hb.tcl p hp).1, by rw [← hcf1]; exact (hb.tcl p hp).2⟩
            · simp only [List.mem_singleton] at hp; subst hp
              exact ⟨by rw [hcl3]; exact hpath_cl, hncf⟩
          · rw [targetsDeepL_single, targetsDeep_bfRecord]
            intro p hp
            rw [hcl3] at hp
            rcases hb.claimedBy p hp with h | h
            · rw [hcl1] at h
              rcases List.mem_cons.mp h with rfl | h'
              · right; simp
              · left; exact h'
            · right; exact List.mem_append_left _ h
          · rw [targetsDeepL_single, targetsDeep_bfRecord]
            intro p hp
            rcases List.mem_append.mp hp with hp | hp
            · intro hc; exact hb.fresh p hp (by rw [hcl1]; exact List.mem_cons_of_mem _ hc)
            · simp only [List.mem_singleton] at hp; subst hp; exact hnc
        · -- the function raised (or wrote nothing): the directories made for it that are empty go away again
          have hfs := bfFinish_error_state out.2.1.sp path made out.1 e he
          rw [he]
          have hfs3 : (withSp out.2.1 (bfFinish out.2.1.sp path made out.1).2).sp.fs = rmEmpty out.2.1.sp.fs made := by
            show (bfFinish _ path made out.1).2.fs = _; rw [hfs]; rfl
          have hcd3 : (withSp out.2.1 (bfFinish out.2.1.sp path made out.1).2).sp.createdDirs =
              (made.filter (rmEmpty out.2.1.sp.fs made).isDir) ++ out.2.1.sp.createdDirs := by
            show (bfFinish _ path made out.1).2.createdDirs = _; rw [hfs]; rfl
          have hkeepd : ∀ d, out.2.1.sp.fs.isDir d = true → d ∉ made → (rmEmpty out.2.1.sp.fs made).isDir d = true := by
            intro d h' hm
            rcases rmEmpty_get made out.2.1.sp.fs d with hg | ⟨hmm, _, _⟩
            · unfold FS.isDir at h' ⊢; rw [hg]; exact h'
            · exact absurd hmm hm
          refine ⟨?_, ?_, ?_, ?_, ?_, ?_, ?_, ?_, ?_, ?_, ?_, ?_⟩
          · intro p hp; rw [hcl3]; exact hb.claimed p (by rw [hcl1]; exact List.mem_cons_of_mem _ hp)
          · intro d hd; rw [hcd3]; exact List.mem_append_right _ (hb.dirs d (by rw [hcd1]; exact hd))
          · intro K hK1 hK2
            have hK1' : ∀ p ∈ out.2.1.sp.claimedFiles, p ∈ K := fun p hp => hK1 p (by rw [hcl3]; exact hp)
            have hK2' : ∀ d ∈ out.2.1.sp.createdDirs, d ∈ K := fun d hd => hK2 d (by rw [hcd3]; exact List.mem_append_right _ hd)
            have hpK : path ∈ K := hK1' path hpath_cl
            -- with the directories made for the call among the keys, nothing changed
            have hbig : strip (made ++ K) (rmEmpty out.2.1.sp.fs made) = strip (made ++ K) s.sp.fs := by
              rw [strip_rmEmpty _ _ _ (fun d hd => List.mem_append_left _ hd),
                hb.strip (made ++ K) (fun p hp => List.mem_append_right _ (hK1' p hp)) (fun d hd => List.mem_append_right _ (hK2' d hd)),
                hfs1, strip_mkdirs _ made (fun d hd => List.mem_append_left _ hd)]
            rw [hfs3]
            apply strip_shrink K (made ++ K) _ _ (fun k hk => List.mem_append_right _ hk) hbig
            · intro x hx hxk
              rcases List.mem_append.mp hxk with hm | hk
              · -- a directory made for the call that is still there is recorded
                have hsome := get_isSome_of_mem _ x.1 x.2 (by cases x; exact hx)
                have hdir : (rmEmpty out.2.1.sp.fs made).isDir x.1 = true := by
                  rcases rmEmpty_get made out.2.1.sp.fs x.1 with hg | ⟨_, _, hg⟩
                  · unfold FS.isDir; rw [hg]; exact hmade_out x.1 hm
                  · rw [hg] at hsome; cases hsome
                exact hK2 x.1 (by rw [hcd3]; exact List.mem_append_left _ (List.mem_filter.mpr ⟨hm, hdir⟩))
              · exact hk
            · intro x hx hxk
              rcases List.mem_append.mp hxk with hm | hk
              · exact absurd rfl (no_entry_of_none _ _ (habsm x.1 hm) x hx)
              · exact hk
          · show (bfFinish _ path made out.1).2.cacheFile = _
            rw [bfFinish_cf, hb.cacheFile, hcf1]
          · show (bfFinish _ path made out.1).2.dirSize = _
            rw [(bfFinish_keeps _ _ _ _).1, hb.dirSize, hds1]
          · intro q hq
            rw [hfs3]
            apply hkeepd q (hb.kept q (by rw [hfs1]; exact g3 q hq))
            intro hm
            rw [hmade_nd q hm] at hq; cases hq
          · intro d hd
            rw [hcd3] at hd
            rcases List.mem_append.mp hd with hm | hm
            · obtain ⟨hm1, hm2⟩ := List.mem_filter.mp hm
              exact Or.inr ⟨by rw [hfs3]; exact hm2, hmade_ne d hm1, hmade_nd d hm1⟩
            · rcases hb.newDirs d hm with h3 | ⟨h3, h4, h5⟩
              · left; rw [← hcd1]; exact h3
              · right
                have hnm : d ∉ made := by
                  intro hm'
                  rw [hfs1, g2 d hm'] at h5; cases h5
                refine ⟨by rw [hfs3]; exact hkeepd d h3 hnm, by rw [← hcf1]; exact h4, ?_⟩
                cases hq : s.sp.fs.isDir d with
                | false => rfl
                | true => rw [hfs1, g3 d hq] at h5; cases h5
          · rw [okTL_single, (okT_bfRecord_err ..).1]
            intro p hp
            obtain ⟨c', m', hg⟩ := hb.okOut p hp
            have hpp := (hsub_path p (okTL_sub _ p (Or.inl hp))).1
            exact ⟨c', m', bfFinish_file_other _ _ _ _ _ _ _ hpp hg⟩
          · rw [badTL_single, (okT_bfRecord_err ..).2]
            intro p hp
            rcases List.mem_append.mp hp with hp | hp
            · have hpp := (hsub_path p (okTL_sub _ p (Or.inr hp))).1
              exact bfFinish_absent _ _ _ _ _ hpp (hb.badOut p hp)
            · simp only [List.mem_singleton] at hp; subst hp
              rw [hfs3]; exact rmEmpty_none _ _ _ hpath_out
          · rw [targetsDeepL_single, targetsDeep_bfRecord]
            intro p hp
            rcases List.mem_append.mp hp with hp | hp
            · exact ⟨by rw [hcl3]; exact (hb.tcl p hp).1, by rw [← hcf1]; exact (hb.tcl p hp).2⟩
            · simp only [List.mem_singleton] at hp; subst hp
              exact ⟨by rw [hcl3]; exact hpath_cl, hncf⟩
          · rw [targetsDeepL_single, targetsDeep_bfRecord]
            intro p hp
            rw [hcl3] at hp
            rcases hb.claimedBy p hp with h | h
            · rw [hcl1] at h
              rcases List.mem_cons.mp h with rfl | h'
              · right; simp
              · left; exact h'
            · right; exact List.mem_append_left _ h
          · rw [targetsDeepL_single, targetsDeep_bfRecord]
            intro p hp
            rcases List.mem_append.mp hp with hp | hp
            · intro hc; exact hb.fresh p hp (by rw [hcl1]; exact List.mem_cons_of_mem _ hc)
            · simp only [List.mem_singleton] at hp; subst hp; exact hnc
      -- ... followed by the rest of the caller
      refine hcall.trans hkk (by rw [targetsDeepL_cons, targetsDeepL_single]) (by rw [okTL_cons, okTL_single])
        (by rw [badTL_cons, badTL_single]) hkeep3 ?_
      intro p hp hnone
      have hpt : p ∈ targetsDeepL out.2.2 ++ [path] := by
        have := okTL_sub [bfRecord path cmp fname args kwargs out.2.2 out.1 (bfFinish out.2.1.sp path made out.1).1
            (withSp out.2.1 (bfFinish out.2.1.sp path made out.1).2)] p (Or.inr hp)
        rw [targetsDeepL_single, targetsDeep_bfRecord] at this; exact this
      apply hab3 p hk3old hk3ff hk3fs hnone
      intro p' hp'
      rcases List.mem_append.mp hpt with h | h
      · exact (hrest_sub p' hp' p h).2
      · simp only [List.mem_singleton] at h; subst h
        exact (hrest_path p' hp').2.2
  | subbuild fname args kwargs body k ihb ihk =>
    intro t s h0 h1 h2 hok hanti habs
    have hfs : s.sp.failSubs.any (heq (subKey fname args kwargs)) = false := by simp [h2]
    by_cases hcl : s.sp.claimedSubs.any (heq (subKey fname args kwargs)) = true
    · exfalso
      simp only [Impl.run, hcl, if_true] at hok
      simp [noSFL, noSF] at hok
    · have hcl0 : s.sp.claimedSubs.any (heq (subKey fname args kwargs)) = false := by simpa using hcl
      have hlook := lookupSub_empty (subClaim s (subKey fname args kwargs)) h0 fname args kwargs
      rw [run_sb_miss' s t fname args kwargs body k hcl0 hfs hlook] at hok hanti habs ⊢
      simp only at hok hanti habs ⊢
      have hkb := run_keeps body none (Impl.subStart (subClaim s (subKey fname args kwargs)) ⟨fname, none, args, kwargs⟩) h0 h1 h2
      have hab := run_absent body none (Impl.subStart (subClaim s (subKey fname args kwargs)) ⟨fname, none, args, kwargs⟩)
      have ihb' := ihb none (Impl.subStart (subClaim s (subKey fname args kwargs)) ⟨fname, none, args, kwargs⟩) h0 h1 h2
      generalize hout : Impl.run body none (Impl.subStart (subClaim s (subKey fname args kwargs)) ⟨fname, none, args, kwargs⟩) = out
        at hok hanti habs hkb hab ihb' ⊢
      rw [targetsDeepL_cons, targetsDeep_sbRecord] at hanti habs
      rw [noSFL_cons, Bool.and_eq_true] at hok
      have hoksubs := noSF_sbRecord _ _ _ _ _ hok.1
      have hb := ihb' hoksubs hanti.left (fun p hp => habs p (by simp [hp]))
      have hrest_sub : ∀ p ∈ targetsDeepL (Impl.run (k out.1) t out.2.1).2.2, ∀ p' ∈ targetsDeepL out.2.2, ¬ p <+: p' ∧ ¬ p' <+: p := by
        intro p hp p' hp'
        have := Antichain.ne_of_mem_append hanti hp' hp
        exact ⟨this.2.2, this.2.1⟩
      have habs3 : ∀ p ∈ targetsDeepL (Impl.run (k out.1) t out.2.1).2.2, out.2.1.sp.fs.get p = none := by
        intro p hp
        exact hab p h0 h1 h2 (habs p (by simp [hp])) (fun p' hp' => (hrest_sub p hp p' hp').1)
      have hkold : out.2.1.old.roots = [] := by rw [hkb.old]; exact h0
      have hkk := ihk out.1 t out.2.1 hkold hkb.ff hkb.fsb hok.2 hanti.right habs3
      have hkeep3 := run_keeps (k out.1) t out.2.1 hkold hkb.ff hkb.fsb
      have hab3 := run_absent (k out.1) t out.2.1
      have hcall : RunF s out.2.1 [sbRecord fname args kwargs out.2.2 out.1] :=
        (show RunF s out.2.1 out.2.2 from ⟨hb.claimed, hb.dirs, hb.strip, hb.cacheFile, hb.dirSize, hb.kept, hb.newDirs, hb.okOut, hb.badOut,
          hb.tcl, hb.claimedBy, hb.fresh⟩).congr (by rw [targetsDeepL_single, targetsDeep_sbRecord])
          (by rw [okTL_single, (okT_sbRecord ..).1]) (by rw [badTL_single, (okT_sbRecord ..).2])
      refine hcall.trans hkk (by rw [targetsDeepL_cons, targetsDeepL_single]) (by rw [okTL_cons, okTL_single])
        (by rw [badTL_cons, badTL_single]) hkeep3 ?_
      intro p hp hnone
      have hpt : p ∈ targetsDeepL out.2.2 := by
        have := okTL_sub [sbRecord fname args kwargs out.2.2 out.1] p (Or.inr hp)
        rw [targetsDeepL_single, targetsDeep_sbRecord] at this; exact this
      apply hab3 p hkold hkb.ff hkb.fsb hnone
      intro p' hp'
      exact (hrest_sub p' hp' p hpt).2


theorem bfFinish_claimedSubs (sp : SpecSt) (path : Path) (made : List Path) (r : CallRes) :
    (bfFinish sp path made r).2.claimedSubs = sp.claimedSubs := by
  unfold bfFinish
  cases r with
  | error e => rfl
  | ok j => simp only; split <;> rfl

theorem keys_sbRecordF (fname : String) (args kwargs : Json) (subs : List Op) (r : CallRes) :
    keysOfL (registered (sbRecord fname args kwargs subs r)) = subKeysDeepL subs ++ [subKey fname args kwargs] := by
  cases r <;> simp [sbRecord, registered, keysOfL, subKeysDeepL, List.filterMap_append, keyOf]

/-- the subbuild keys a first run claims are pairwise different, also when calls raised -/
theorem run_keysF (prog : Prog) : ∀ (t : Option Path) (s : KSt), s.old.roots = [] → s.sp.failFiles = [] →
    s.sp.failSubs = [] → noSFL (Impl.run prog t s).2.2 = true →
    RunKeys s (Impl.run prog t s).2.1 (Impl.run prog t s).2.2 := by
  induction prog with
  | ret v => intro t s _ _ _ _; simp only [Impl.run]; split <;> exact RunKeys.nil s
  | raise e => intro t s _ _ _ _; simp only [Impl.run]; exact RunKeys.nil s
  | query q k ih =>
    intro t s h0 h1 h2 hok
    simp only [Impl.run] at hok ⊢
    rw [noSFL_cons, Bool.and_eq_true] at hok
    have := ih _ t s h0 h1 h2 hok.2
    cases hrv : View.recVal s.sp.dirSize (visible s.sp) q with
    | ok v => simp only; exact this.congr (by rw [subKeysDeepL_cons]; simp [registered, keysOfL])
    | error e => simp only; exact this.congr (by rw [subKeysDeepL_cons]; simp [registered, keysOfL])
  | write b mt k ih =>
    intro t s h0 h1 h2 hok
    simp only [Impl.run] at hok ⊢
    cases t with
    | none => exact ih none s h0 h1 h2 hok
    | some p =>
      have := ih (some p) (liftSp s fun sp => { sp with pending := (p, b, mt.getD sp.clock) :: sp.pending, clock := sp.clock + 1 }) h0 h1 h2 hok
      exact ⟨this.fresh, this.claimed, this.pw, this.mono⟩
  | buildFile path cmp fname args kwargs body k ihb ihk =>
    intro t s h0 h1 h2 hok
    cases hsetup : bfSetup s.sp path with
    | error e =>
      exfalso
      have := run_bf_setupfail s t path cmp fname args kwargs body k e hsetup
      cases hops : (Impl.run (.buildFile path cmp fname args kwargs body k) t s).2.2 with
      | nil => rw [hops] at this; cases this
      | cons o os =>
        rw [hops] at this hok
        simp only [List.head?_cons, Option.some.injEq] at this
        subst this
        simp [noSFL, noSF] at hok
    | ok x =>
      obtain ⟨sp1, made⟩ := x
      obtain ⟨hsp1, _, _, _, _, _⟩ := bfSetup_ok_fields s.sp sp1 path made hsetup
      have hlook := lookupFile_empty (afterSetup s sp1 path made) h0 path cmp fname args kwargs made
      rw [run_bf_miss s t path cmp fname args kwargs body k sp1 made hsetup hlook] at hok ⊢
      simp only at hok ⊢
      have hk1ff : (missStart (afterSetup s sp1 path made) path ⟨fname, some path, args, kwargs⟩).sp.failFiles = [] := by
        show sp1.failFiles = []; rw [hsp1]; exact h1
      have hk1fs : (missStart (afterSetup s sp1 path made) path ⟨fname, some path, args, kwargs⟩).sp.failSubs = [] := by
        show sp1.failSubs = []; rw [hsp1]; exact h2
      have hkb := run_keeps body (some path) (missStart (afterSetup s sp1 path made) path ⟨fname, some path, args, kwargs⟩) h0 hk1ff hk1fs
      have ihb' := ihb (some path) (missStart (afterSetup s sp1 path made) path ⟨fname, some path, args, kwargs⟩) h0 hk1ff hk1fs
      generalize hout : Impl.run body (some path) (missStart (afterSetup s sp1 path made) path ⟨fname, some path, args, kwargs⟩) = out
        at hok hkb ihb' ⊢
      rw [noSFL_cons, Bool.and_eq_true] at hok
      have hoksubs := noSF_bfRecord _ _ _ _ _ _ _ _ _ hok.1
      have hokrest := hok.2
      have hb := ihb' hoksubs
      obtain ⟨_, hk2, hk3⟩ := bfFinish_keeps out.2.1.sp path made out.1
      have hkk := ihk (bfFinish out.2.1.sp path made out.1).1 t (withSp out.2.1 (bfFinish out.2.1.sp path made out.1).2)
        (by show out.2.1.old.roots = []; rw [hkb.old]; exact h0)
        (by show (bfFinish _ path made out.1).2.failFiles = []; rw [hk2]; exact hkb.ff)
        (by show (bfFinish _ path made out.1).2.failSubs = []; rw [hk3]; exact hkb.fsb) hokrest
      -- the claims are those of the state the function started in resp. ended in
      have hcs1 : (missStart (afterSetup s sp1 path made) path ⟨fname, some path, args, kwargs⟩).sp.claimedSubs = s.sp.claimedSubs := by
        show sp1.claimedSubs = _; rw [hsp1]; rfl
      have hcs3 : (withSp out.2.1 (bfFinish out.2.1.sp path made out.1).2).sp.claimedSubs = out.2.1.sp.claimedSubs := by
        show (bfFinish _ path made out.1).2.claimedSubs = _; exact bfFinish_claimedSubs _ _ _ _
      have hb' : RunKeys s out.2.1 out.2.2 := ⟨by rw [← hcs1]; exact hb.fresh, hb.claimed, hb.pw, by rw [← hcs1]; exact hb.mono⟩
      have hkk' : RunKeys out.2.1 (Impl.run (k (bfFinish out.2.1.sp path made out.1).1) t (withSp out.2.1 (bfFinish out.2.1.sp path made out.1).2)).2.1
          (Impl.run (k (bfFinish out.2.1.sp path made out.1).1) t (withSp out.2.1 (bfFinish out.2.1.sp path made out.1).2)).2.2 :=
        ⟨by rw [← hcs3]; exact hkk.fresh, hkk.claimed, hkk.pw, by rw [← hcs3]; exact hkk.mono⟩
      obtain ⟨a1, a2, a3⟩ := RunKeys.append (ks := subKeysDeepL (bfRecord path cmp fname args kwargs out.2.2 out.1 (bfFinish out.2.1.sp path made out.1).1
          (withSp out.2.1 (bfFinish out.2.1.sp path made out.1).2) :: (Impl.run (k (bfFinish out.2.1.sp path made out.1).1) t (withSp out.2.1 (bfFinish out.2.1.sp path made out.1).2)).2.2))
        (by rw [subKeysDeepL_cons, keys_bfRecord]) hb' hkk'
      exact ⟨a1, a2, a3, fun k hk => hkk'.mono k (hb'.mono k hk)⟩
  | subbuild fname args kwargs body k ihb ihk =>
    intro t s h0 h1 h2 hok
    have hfs : s.sp.failSubs.any (heq (subKey fname args kwargs)) = false := by simp [h2]
    by_cases hcl : s.sp.claimedSubs.any (heq (subKey fname args kwargs)) = true
    · exfalso
      simp only [Impl.run, hcl, if_true] at hok
      simp [noSFL, noSF] at hok
    · have hcl0 : s.sp.claimedSubs.any (heq (subKey fname args kwargs)) = false := by simpa using hcl
      have hlook := lookupSub_empty (subClaim s (subKey fname args kwargs)) h0 fname args kwargs
      rw [run_sb_miss' s t fname args kwargs body k hcl0 hfs hlook] at hok ⊢
      simp only at hok ⊢
      have hkb := run_keeps body none (Impl.subStart (subClaim s (subKey fname args kwargs)) ⟨fname, none, args, kwargs⟩) h0 h1 h2
      have ihb' := ihb none (Impl.subStart (subClaim s (subKey fname args kwargs)) ⟨fname, none, args, kwargs⟩) h0 h1 h2
      generalize hout : Impl.run body none (Impl.subStart (subClaim s (subKey fname args kwargs)) ⟨fname, none, args, kwargs⟩) = out
        at hok hkb ihb' ⊢
      rw [noSFL_cons, Bool.and_eq_true] at hok
      have hoksubs := noSF_sbRecord _ _ _ _ _ hok.1
      have hb := ihb' hoksubs
      have hkk := ihk out.1 t out.2.1 (by rw [hkb.old]; exact h0) hkb.ff hkb.fsb hok.2
      have hcs1 : (Impl.subStart (subClaim s (subKey fname args kwargs)) ⟨fname, none, args, kwargs⟩).sp.claimedSubs =
          subKey fname args kwargs :: s.sp.claimedSubs := rfl
      -- the run of the function together with the claim of its key, as a run from `s`
      have hkeyc : out.2.1.sp.claimedSubs.any (heq (subKey fname args kwargs)) = true :=
        hb.mono _ (by rw [hcs1, any_cons_heq, heq_refl]; rfl)
      have hb' : RunKeys s out.2.1 (out.2.2 ++ [Op.subbuild fname args kwargs [] .null false false]) := by
        have hkeys : subKeysDeepL (out.2.2 ++ [Op.subbuild fname args kwargs [] .null false false]) =
            subKeysDeepL out.2.2 ++ [subKey fname args kwargs] := by
          simp [subKeysDeepL, registeredL_append, registeredL, registered, List.filterMap_append, keyOf]
        refine ⟨?_, ?_, ?_, ?_⟩
        · intro k hk
          rw [hkeys] at hk
          rcases List.mem_append.mp hk with hk | hk
          · have := hb.fresh k hk
            rw [hcs1, any_cons_heq, Bool.or_eq_false_iff] at this
            exact this.2
          · simp only [List.mem_singleton] at hk; subst hk; exact hcl0
        · intro k hk
          rw [hkeys] at hk
          rcases List.mem_append.mp hk with hk | hk
          · exact hb.claimed k hk
          · simp only [List.mem_singleton] at hk; subst hk; exact hkeyc
        · rw [hkeys, List.pairwise_append]
          refine ⟨hb.pw, by simp, ?_⟩
          intro x hx y hy
          simp only [List.mem_singleton] at hy; subst hy
          have := hb.fresh x hx
          rw [hcs1, any_cons_heq, Bool.or_eq_false_iff] at this
          exact ⟨this.1, by rw [heq_symm]; exact this.1⟩
        · intro k hk
          exact hb.mono k (by rw [hcs1, any_cons_heq, hk]; simp)
      obtain ⟨a1, a2, a3⟩ := RunKeys.append (ks := subKeysDeepL (sbRecord fname args kwargs out.2.2 out.1 :: (Impl.run (k out.1) t out.2.1).2.2))
        (by
          rw [subKeysDeepL_cons, keys_sbRecordF]
          simp [subKeysDeepL, registeredL_append, registeredL, registered, List.filterMap_append, keyOf]) hb' hkk
      exact ⟨a1, a2, a3, fun k hk => hkk.mono k (hb'.mono k hk)⟩



theorem registeredL_filterF (ops : List Op) (h : noSFL ops = true) :
    registeredL (ops.filter isComplexRegistered) = registeredL ops := by
  induction ops with
  | nil => rfl
  | cons o r ih =>
    rw [noSFL_cons, Bool.and_eq_true] at h
    have ihr := ih h.2
    cases o with
    | simple _ _ _ _ => simp [List.filter, isComplexRegistered, registeredL, registered, ihr]
    | buildFile p c f a k subs rr cr raised sf ct =>
      have := h.1
      simp only [noSF, Bool.and_eq_true, Bool.not_eq_true'] at this
      obtain ⟨h1, _⟩ := this
      subst h1
      simp [List.filter, isComplexRegistered, registeredL, ihr]
    | subbuild f a k subs rr raised sf =>
      have := h.1
      simp only [noSF, Bool.and_eq_true, Bool.not_eq_true'] at this
      obtain ⟨h1, _⟩ := this
      subst h1
      simp [List.filter, isComplexRegistered, registeredL, ihr]

mutual
theorem registered_sf : (o : Op) → ∀ x ∈ registered o, isComplexRegistered x = true
  | .simple _ _ _ _, x, hx => by simp [registered] at hx
  | .buildFile p c f a k subs r cr raised sf ct, x, hx => by
    simp only [registered, List.mem_append] at hx
    rcases hx with hx | hx
    · exact registeredL_sf subs x hx
    · cases sf with
      | true => simp at hx
      | false => simp at hx; subst hx; rfl
  | .subbuild f a k subs r raised sf, x, hx => by
    simp only [registered, List.mem_append] at hx
    rcases hx with hx | hx
    · exact registeredL_sf subs x hx
    · cases sf with
      | true => simp at hx
      | false => simp at hx; subst hx; rfl
theorem registeredL_sf : (os : List Op) → ∀ x ∈ registeredL os, isComplexRegistered x = true
  | [], x, hx => by simp [registeredL] at hx
  | o :: os, x, hx => by
    simp only [registeredL, List.mem_append] at hx
    rcases hx with hx | hx
    · exact registered_sf o x hx
    · exact registeredL_sf os x hx
end

/-- **the record a first build writes returns every registered record — at any depth, raised or not — under its
    key**: targets are pairwise different at every depth, subbuild keys pairwise unequal at every depth -/
theorem cachedIn_allF (ops : List Op) (hok : noSFL ops = true)
    (hnd : (targetsDeepL ops).Pairwise (· ≠ ·))
    (hkeys : (subKeysDeepL ops).Pairwise (fun x y => heq x y = false ∧ heq y x = false))
    (rec : CacheRec) (hroots : rec.roots = ops.filter isComplexRegistered) :
    ∀ o ∈ registeredL ops, cachedIn rec o := by
  intro o hmem
  have hreg : registeredL rec.roots = registeredL ops := by rw [hroots]; exact registeredL_filterF ops hok
  have hsf := registeredL_sf ops o hmem
  cases o with
  | simple _ _ _ _ => trivial
  | buildFile p c f a k subs r cr raised sf ct =>
    simp only [isComplexRegistered, Bool.not_eq_true'] at hsf
    subst hsf
    simp only [cachedIn, CacheRec.getFile, hreg]
    apply find_unique
    · exact List.mem_reverse.mpr hmem
    · simp [Op.isFileAt]
    · intro y hy hp
      have hy' := List.mem_reverse.mp hy
      cases y with
      | simple _ _ _ _ => simp [Op.isFileAt] at hp
      | subbuild _ _ _ _ _ _ _ => simp [Op.isFileAt] at hp
      | buildFile p' c' f' a' k' subs' r' cr' raised' sf' ct' =>
        simp only [Op.isFileAt, decide_eq_true_eq] at hp
        subst hp
        have hsf' := registeredL_sf ops _ hy'
        simp only [isComplexRegistered, Bool.not_eq_true'] at hsf'
        subst hsf'
        exact filterMap_unique pathOf (registeredL ops) (by rw [registeredL_paths]; exact hnd) _ _ hy' hmem p' rfl rfl
  | subbuild f a k subs r raised sf =>
    simp only [isComplexRegistered, Bool.not_eq_true'] at hsf
    subst hsf
    simp only [cachedIn, CacheRec.getSub, hreg]
    apply find_unique
    · exact List.mem_reverse.mpr hmem
    · simp only [Op.isSubWith]; exact heq_refl _
    · intro y hy hp
      have hy' := List.mem_reverse.mp hy
      cases y with
      | simple _ _ _ _ => simp [Op.isSubWith] at hp
      | buildFile _ _ _ _ _ _ _ _ _ _ _ => simp [Op.isSubWith] at hp
      | subbuild f' a' k' subs' r' raised' sf' =>
        simp only [Op.isSubWith] at hp
        by_contra hne
        have : ∀ (l : List Op), (l.filterMap keyOf).Pairwise (fun x y => heq x y = false ∧ heq y x = false) →
            ∀ x y : Op, x ∈ l → y ∈ l → x ≠ y → ∀ kx ky, keyOf x = some kx → keyOf y = some ky → heq kx ky = false := by
          intro l
          induction l with
          | nil => intro _ x _ hx; cases hx
          | cons a0 r0 ih =>
            intro hpw x y hx hy hxy kx ky hkx hky
            have hr : (r0.filterMap keyOf).Pairwise (fun x y => heq x y = false ∧ heq y x = false) := by
              cases hfa : keyOf a0 with
              | none => simpa [List.filterMap_cons, hfa] using hpw
              | some c => rw [List.filterMap_cons, hfa] at hpw; exact (List.pairwise_cons.mp hpw).2
            rcases List.mem_cons.mp hx with rfl | hx'
            · rcases List.mem_cons.mp hy with rfl | hy'
              · exact absurd rfl hxy
              · rw [List.filterMap_cons, hkx] at hpw
                exact ((List.pairwise_cons.mp hpw).1 ky (List.mem_filterMap.mpr ⟨y, hy', hky⟩)).1
            · rcases List.mem_cons.mp hy with rfl | hy'
              · rw [List.filterMap_cons, hky] at hpw
                exact ((List.pairwise_cons.mp hpw).1 kx (List.mem_filterMap.mpr ⟨x, hx', hkx⟩)).2
              · exact ih hr x y hx' hy' hxy kx ky hkx hky
        have := this (registeredL ops) hkeys _ _ hy' hmem hne _ _ rfl rfl
        rw [hp] at this; cases this

mutual
theorem registered_okT : (o : Op) → noSF o = true → (registered o).filterMap (fun
    | .buildFile p _ _ _ _ _ _ _ false _ _ => some p
    | _ => none) = okT o
  | .simple _ _ _ _, _ => by simp [registered, okT]
  | .buildFile p c f a k subs r cr raised sf ct, h => by
    simp only [noSF, Bool.and_eq_true, Bool.not_eq_true'] at h
    obtain ⟨h1, h2⟩ := h
    subst h1
    simp only [registered, okT, List.filterMap_append, registeredL_okT subs h2]
    cases raised <;> simp
  | .subbuild f a k subs r raised sf, h => by
    simp only [noSF, Bool.and_eq_true, Bool.not_eq_true'] at h
    obtain ⟨h1, h2⟩ := h
    subst h1
    simp [registered, okT, List.filterMap_append, registeredL_okT subs h2]
theorem registeredL_okT : (os : List Op) → noSFL os = true → (registeredL os).filterMap (fun
    | .buildFile p _ _ _ _ _ _ _ false _ _ => some p
    | _ => none) = okTL os
  | [], _ => by simp [registeredL, okTL]
  | o :: os, h => by
    rw [noSFL_cons, Bool.and_eq_true] at h
    simp only [registeredL, okTL, List.filterMap_append, registered_okT o h.1, registeredL_okT os h.2]
end

/-- the outputs the cache file of a first build lists: the targets of the `build_file` calls that returned -/
theorem outputs_eq_okT (n : String) (ops : List Op) (hok : noSFL ops = true) :
    CacheRec.outputs { buildName := n, roots := ops.filter isComplexRegistered } = okTL ops := by
  unfold CacheRec.outputs
  simp only
  rw [registeredL_filterF ops hok]
  exact registeredL_okT ops hok


/-- every target of a first run is claimed when it ends -/
theorem run_claims_targets (prog : Prog) : ∀ (t : Option Path) (s : KSt), s.old.roots = [] → s.sp.failFiles = [] →
    s.sp.failSubs = [] → noSFL (Impl.run prog t s).2.2 = true →
    ∀ p ∈ targetsDeepL (Impl.run prog t s).2.2, p ∈ (Impl.run prog t s).2.1.sp.claimedFiles := by
  induction prog with
  | ret v => intro t s _ _ _ _ p hp; simp only [Impl.run] at hp; split at hp <;> simp [targetsDeepL] at hp
  | raise e => intro t s _ _ _ _ p hp; simp [Impl.run, targetsDeepL] at hp
  | query q k ih =>
    intro t s h0 h1 h2 hok p hp
    simp only [Impl.run] at hok hp ⊢
    rw [noSFL_cons, Bool.and_eq_true] at hok
    rw [targetsDeepL_cons] at hp
    apply ih _ t s h0 h1 h2 hok.2 p
    rcases List.mem_append.mp hp with h | h
    · split at h <;> simp [targetsDeep] at h
    · exact h
  | write b mt k ih =>
    intro t s h0 h1 h2 hok p hp
    simp only [Impl.run] at hok hp ⊢
    cases t with
    | none => exact ih none s h0 h1 h2 hok p hp
    | some q => exact ih (some q) (liftSp s fun sp => { sp with pending := (q, b, mt.getD sp.clock) :: sp.pending, clock := sp.clock + 1 }) h0 h1 h2 hok p hp
  | buildFile path cmp fname args kwargs body k ihb ihk =>
    intro t s h0 h1 h2 hok p hp
    cases hsetup : bfSetup s.sp path with
    | error e =>
      exfalso
      have := run_bf_setupfail s t path cmp fname args kwargs body k e hsetup
      cases hops : (Impl.run (.buildFile path cmp fname args kwargs body k) t s).2.2 with
      | nil => rw [hops] at this; cases this
      | cons o os =>
        rw [hops] at this hok
        simp only [List.head?_cons, Option.some.injEq] at this
        subst this
        simp [noSFL, noSF] at hok
    | ok x =>
      obtain ⟨sp1, made⟩ := x
      obtain ⟨hsp1, _, _, _, _, _⟩ := bfSetup_ok_fields s.sp sp1 path made hsetup
      have hlook := lookupFile_empty (afterSetup s sp1 path made) h0 path cmp fname args kwargs made
      rw [run_bf_miss s t path cmp fname args kwargs body k sp1 made hsetup hlook] at hok hp ⊢
      simp only at hok hp ⊢
      have hk1ff : (missStart (afterSetup s sp1 path made) path ⟨fname, some path, args, kwargs⟩).sp.failFiles = [] := by
        show sp1.failFiles = []; rw [hsp1]; exact h1
      have hk1fs : (missStart (afterSetup s sp1 path made) path ⟨fname, some path, args, kwargs⟩).sp.failSubs = [] := by
        show sp1.failSubs = []; rw [hsp1]; exact h2
      have hkb := run_keeps body (some path) (missStart (afterSetup s sp1 path made) path ⟨fname, some path, args, kwargs⟩) h0 hk1ff hk1fs
      have ihb' := ihb (some path) (missStart (afterSetup s sp1 path made) path ⟨fname, some path, args, kwargs⟩) h0 hk1ff hk1fs
      generalize hout : Impl.run body (some path) (missStart (afterSetup s sp1 path made) path ⟨fname, some path, args, kwargs⟩) = out
        at hok hp hkb ihb' ⊢
      rw [noSFL_cons, Bool.and_eq_true] at hok
      have hoksubs := noSF_bfRecord _ _ _ _ _ _ _ _ _ hok.1
      obtain ⟨_, hk2, hk3⟩ := bfFinish_keeps out.2.1.sp path made out.1
      have hk3old : (withSp out.2.1 (bfFinish out.2.1.sp path made out.1).2).old.roots = [] := by
        show out.2.1.old.roots = []; rw [hkb.old]; exact h0
      have hk3ff : (withSp out.2.1 (bfFinish out.2.1.sp path made out.1).2).sp.failFiles = [] := by
        show (bfFinish _ path made out.1).2.failFiles = []; rw [hk2]; exact hkb.ff
      have hk3fs : (withSp out.2.1 (bfFinish out.2.1.sp path made out.1).2).sp.failSubs = [] := by
        show (bfFinish _ path made out.1).2.failSubs = []; rw [hk3]; exact hkb.fsb
      have hkeep3 := run_keeps (k (bfFinish out.2.1.sp path made out.1).1) t (withSp out.2.1 (bfFinish out.2.1.sp path made out.1).2) hk3old hk3ff hk3fs
      have hcl3 : (withSp out.2.1 (bfFinish out.2.1.sp path made out.1).2).sp.claimedFiles = out.2.1.sp.claimedFiles := bfFinish_claimed _ _ _ _
      rw [targetsDeepL_cons, targetsDeep_bfRecord] at hp
      rcases List.mem_append.mp hp with hp | hp
      · apply hkeep3.claimed; rw [hcl3]
        rcases List.mem_append.mp hp with hp | hp
        · exact ihb' hoksubs p hp
        · simp only [List.mem_singleton] at hp; subst hp
          apply hkb.claimed
          show p ∈ sp1.claimedFiles; rw [hsp1]; exact List.mem_cons_self ..
      · exact ihk _ t _ hk3old hk3ff hk3fs hok.2 p hp
  | subbuild fname args kwargs body k ihb ihk =>
    intro t s h0 h1 h2 hok p hp
    have hfs : s.sp.failSubs.any (heq (subKey fname args kwargs)) = false := by simp [h2]
    by_cases hcl : s.sp.claimedSubs.any (heq (subKey fname args kwargs)) = true
    · exfalso
      simp only [Impl.run, hcl, if_true] at hok
      simp [noSFL, noSF] at hok
    · have hcl0 : s.sp.claimedSubs.any (heq (subKey fname args kwargs)) = false := by simpa using hcl
      have hlook := lookupSub_empty (subClaim s (subKey fname args kwargs)) h0 fname args kwargs
      rw [run_sb_miss' s t fname args kwargs body k hcl0 hfs hlook] at hok hp ⊢
      simp only at hok hp ⊢
      have hkb := run_keeps body none (Impl.subStart (subClaim s (subKey fname args kwargs)) ⟨fname, none, args, kwargs⟩) h0 h1 h2
      have ihb' := ihb none (Impl.subStart (subClaim s (subKey fname args kwargs)) ⟨fname, none, args, kwargs⟩) h0 h1 h2
      generalize hout : Impl.run body none (Impl.subStart (subClaim s (subKey fname args kwargs)) ⟨fname, none, args, kwargs⟩) = out
        at hok hp hkb ihb' ⊢
      rw [noSFL_cons, Bool.and_eq_true] at hok
      have hoksubs := noSF_sbRecord _ _ _ _ _ hok.1
      have hkold : out.2.1.old.roots = [] := by rw [hkb.old]; exact h0
      have hkeep3 := run_keeps (k out.1) t out.2.1 hkold hkb.ff hkb.fsb
      rw [targetsDeepL_cons, targetsDeep_sbRecord] at hp
      rcases List.mem_append.mp hp with hp | hp
      · exact hkeep3.claimed p (ihb' hoksubs p hp)
      · exact ihk out.1 t out.2.1 hkold hkb.ff hkb.fsb hok.2 p hp

theorem okTL_mem_targets (ops : List Op) (p : Path) (h : p ∈ okTL ops) : p ∈ targetsDeepL ops := okTL_sub ops p (Or.inl h)

mutual
theorem targets_split : (o : Op) → ∀ p ∈ targetsDeep o, p ∈ okT o ∨ p ∈ badT o
  | .simple _ _ _ _, p, h => by simp [targetsDeep] at h
  | .buildFile q _ _ _ _ subs _ _ raised sf _, p, h => by
    simp only [okT, badT, targetsDeep, List.mem_append] at h ⊢
    rcases h with h | h
    · rcases targetsL_split subs p h with h' | h'
      · exact Or.inl (Or.inl h')
      · exact Or.inr (Or.inl h')
    · cases sf <;> cases raised <;> simp_all
  | .subbuild _ _ _ subs _ _ _, p, h => by
    simp only [okT, badT, targetsDeep] at h ⊢
    exact targetsL_split subs p h
theorem targetsL_split : (os : List Op) → ∀ p ∈ targetsDeepL os, p ∈ okTL os ∨ p ∈ badTL os
  | [], p, h => by simp [targetsDeepL] at h
  | o :: os, p, h => by
    simp only [okTL, badTL, targetsDeepL, List.mem_append] at h ⊢
    rcases h with h | h
    · rcases targets_split o p h with h' | h'
      · exact Or.inl (Or.inl h')
      · exact Or.inr (Or.inl h')
    · rcases targetsL_split os p h with h' | h'
      · exact Or.inl (Or.inr h')
      · exact Or.inr (Or.inr h')
end

/-- **C05, two whole builds, with calls that raise** — the statement of the property at full strength on the model:
    a first build (no cache file) of ANY program, nested to any depth, whose root function returns although calls
    below it raised (their callers caught the exceptions); no set-up failure, targets pairwise unrelated by the prefix
    order, on a tree holding none of the paths the build creates.  Then a second build with nothing changed returns
    the same value and invokes exactly the calls that raised in the first build (and, inside those, the nested calls
    that raised) — failures are never cached — and nothing else. -/
theorem C05_rebuild_with_failures (w : KWorld) (cf : Path) (name : String) (versions : List (String × Json)) (prog : Prog)
    (hargsWf : ArgsWf prog) (hversWf : ∀ p ∈ versions, p.2.wf = true)
    (hwf : BuildDirs.TreeWF w.fs) (hnocache : w.fs.get cf = none) (cds : List Path)
    (hcds : dirsToMake (visible (Impl.buildStart w cf versions [] [] (noRec name versions) []).sp) cf [] cf.dropLast = .ok cds)
    (v : Json) (s2 : KSt) (ops : List Op)
    (hrun : Impl.run prog none (Impl.buildStart w cf versions [] [] (noRec name versions) cds) = (.ok v, s2, ops))
    (hok : noSFL ops = true) (hanti : Antichain (targetsDeepL ops))
    (hfresh : ∀ k, (k ∈ s2.sp.claimedFiles ∨ k ∈ s2.sp.createdDirs ∨ k ∈ cds ∨ k = cf) → w.fs.get k = none)
    (hcdsT : ∀ d ∈ cds, d ∉ targetsDeepL ops) :
    (Impl.build w cf name versions prog).res = .ok v ∧
    (Impl.build (Impl.build w cf name versions prog).world cf name versions prog).res = .ok v ∧
    (Impl.build (Impl.build w cf name versions prog).world cf name versions prog).invLog = (rerunDeepL ops).reverse := by
  have hver := verOf_refl versions hversWf
  -- the first build
  have hcs : w.cacheState cf = .absent := by simp [KWorld.cacheState, hnocache]
  have hb1 : Impl.build w cf name versions prog = Impl.buildGo w cf name versions prog [] [] 0 (noRec name versions) := by
    simp [Impl.build, hcs, noRec]
  have hgo1 := buildGo_ok w cf name versions prog (noRec name versions) cds s2 ops v hcds hrun
  have hcfne : cf ≠ [] := by intro e; rw [e, get_nil] at hnocache; cases hnocache
  have hs1fs := buildStart_noRec_fs w cf name versions cds hnocache
  have hr1 : (Impl.run prog none (Impl.buildStart w cf versions [] [] (noRec name versions) cds)).2.1 = s2 := by rw [hrun]
  have hr2 : (Impl.run prog none (Impl.buildStart w cf versions [] [] (noRec name versions) cds)).2.2 = ops := by rw [hrun]
  have hr0 : (Impl.run prog none (Impl.buildStart w cf versions [] [] (noRec name versions) cds)).1 = .ok v := by rw [hrun]
  have hold0 : (Impl.buildStart w cf versions [] [] (noRec name versions) cds).old.roots = [] := rfl
  have hkeeps := run_keeps prog none _ hold0 rfl rfl
  rw [hr1] at hkeeps
  have hcdsDir := mkdirs_dirsToMake (visible (Impl.buildStart w cf versions [] [] (noRec name versions) []).sp) cf [] _ cf.dropLast cds w.fs rfl hcds
    (fun a ha => by
      have := visible_isDir _ a ha
      rw [buildStart_noRec_fs w cf name versions [] hnocache] at this
      exact this)
    (fun x hx => hfresh x (Or.inr (Or.inr (Or.inl hx))))
  -- every target is claimed (run_keeps_claimed is about the end state; here: from the facts below)
  have habs0 : ∀ p ∈ targetsDeepL ops, (Impl.buildStart w cf versions [] [] (noRec name versions) cds).sp.fs.get p = none := by
    intro p hp
    rw [hs1fs]
    have hcl : p ∈ s2.sp.claimedFiles := by
      have := run_claims_targets prog none (Impl.buildStart w cf versions [] [] (noRec name versions) cds) hold0 rfl rfl (by rw [hr2]; exact hok) p (by rw [hr2]; exact hp)
      rw [hr1] at this; exact this
    rcases Rollback.mkdirs_get_mem cds w.fs p with h' | ⟨hm, _, _⟩
    · rw [h']; exact hfresh p (Or.inl hcl)
    · exact absurd hp (hcdsT p hm)
  have hF := nested_runF prog none _ hold0 rfl rfl (by rw [hr2]; exact hok) (by rw [hr2]; exact hanti) (by rw [hr2]; exact habs0)
  rw [hr1, hr2] at hF
  have hclaimedT : ∀ p ∈ s2.sp.claimedFiles, p ∈ targetsDeepL ops := by
    intro p hp
    rcases hF.claimedBy p hp with h | h
    · cases h
    · exact h
  have hdirs : ∀ d, (d ∈ s2.sp.createdDirs ∨ d ∈ cds) → s2.sp.fs.isDir d = true ∧ d ≠ cf := by
    intro d hd
    rcases hd with hd | hd
    · rcases hF.newDirs d hd with h' | ⟨g1, g2, _⟩
      · cases h'
      · exact ⟨g1, g2⟩
    · refine ⟨hF.kept d (by rw [hs1fs]; exact hcdsDir.2.1 d hd), ?_⟩
      intro e; subst e
      exact dirsToMake_not_cf _ _ _ _ _ _ rfl hcds hd
  -- the world it leaves
  rw [hb1, hgo1]
  refine ⟨rfl, ?_⟩
  simp only
  generalize hw1 : nextWorld w cf s2 (writtenRec name versions ops s2 cds) = w1
  have hw1fs : w1.fs = s2.sp.fs.set cf (.file (cacheToken w.nextSerial) 0) := by rw [← hw1]; rfl
  have hw1ds : w1.dirSize = w.dirSize := by rw [← hw1]; rfl
  have hcs1 : w1.cacheState cf = .valid (writtenRec name versions ops s2 cds) := by
    rw [← hw1]
    simp [KWorld.cacheState, nextWorld, FS.write, get_set_self _ _ _ hcfne]
  have hb2 : Impl.build w1 cf name versions prog =
      Impl.buildGo w1 cf name versions prog [] [] 0 (writtenRec name versions ops s2 cds) := by
    simp [Impl.build, hcs1, writtenRec]
  rw [hb2]
  have houts : (writtenRec name versions ops s2 cds).toRec.outputs = Spec.dedup (okTL ops) := by
    show Spec.dedup (CacheRec.outputs _) = _
    have := outputs_eq_okT name ops hok
    unfold CacheRec.outputs at this ⊢
    exact congrArg Spec.dedup this
  have hcd : (writtenRec name versions ops s2 cds).toRec.createdDirs = Spec.dedup (s2.sp.createdDirs.reverse ++ cds) := rfl
  have hKfresh : ∀ k ∈ (writtenRec name versions ops s2 cds).toRec.outputs ++ (writtenRec name versions ops s2 cds).toRec.createdDirs ++ [cf],
      w.fs.get k = none := by
    intro k hk
    rw [houts, hcd] at hk
    apply hfresh
    rcases List.mem_append.mp hk with h | h
    · rcases List.mem_append.mp h with h' | h'
      · exact Or.inl ((hF.tcl k (okTL_mem_targets ops k ((mem_dedup _ _).mp h'))).1)
      · rcases List.mem_append.mp ((mem_dedup _ _).mp h') with h'' | h''
        · exact Or.inr (Or.inl (List.mem_reverse.mp h''))
        · exact Or.inr (Or.inr (Or.inl h''))
    · simp at h; exact Or.inr (Or.inr (Or.inr h))
  have hpre : preClean w1.fs cf (writtenRec name versions ops s2 cds).toRec = w.fs := by
    apply preClean_recovers w1.fs w.fs cf _ hwf hKfresh
    · -- nothing outside the build's keys changed; the targets of the calls that raised are not among the keys, and absent
      generalize hK : (writtenRec name versions ops s2 cds).toRec.outputs ++ (writtenRec name versions ops s2 cds).toRec.createdDirs ++ [cf] = K at hKfresh
      have hcfK : cf ∈ K := by rw [← hK]; simp
      have hoK : ∀ p ∈ okTL ops, p ∈ K := by intro p hp; rw [← hK, houts]; simp [mem_dedup, hp]
      have hdK : ∀ d ∈ s2.sp.createdDirs, d ∈ K := by intro d hd; rw [← hK, hcd]; simp [mem_dedup, hd]
      have hcK : ∀ d ∈ cds, d ∈ K := by intro d hd; rw [← hK, hcd]; simp [mem_dedup, hd]
      have hsubK : ∀ k ∈ K, k ∈ badTL ops ++ K := fun k hk => List.mem_append_right _ hk
      have hbadfresh : ∀ p ∈ badTL ops, w.fs.get p = none := fun p hp =>
        hfresh p (Or.inl (hF.tcl p (okTL_sub ops p (Or.inr hp))).1)
      rw [hw1fs, strip_set _ _ cf _ hcfK]
      rw [strip_shrink_one K (badTL ops ++ K) s2.sp.fs hsubK (by
        intro x hx hxk
        rcases List.mem_append.mp hxk with hb | hk
        · exact absurd rfl (no_entry_of_none _ _ (hF.badOut x.1 hb) x hx)
        · exact hk)]
      rw [hF.strip (badTL ops ++ K) (by
          intro p hp
          rcases targetsL_split ops p (hclaimedT p hp) with h | h
          · exact List.mem_append_right _ (hoK p h)
          · exact List.mem_append_left _ h) (fun d hd => List.mem_append_right _ (hdK d hd)),
        hs1fs, strip_mkdirs _ cds (fun d hd => List.mem_append_right _ (hcK d hd))]
      apply strip_idem_of_none
      · intro hm
        have : w.fs.get [] = none := by
          rcases List.mem_append.mp hm with h | h
          · exact hbadfresh _ h
          · exact hKfresh _ h
        rw [get_nil] at this; cases this
      · intro k hk
        rcases List.mem_append.mp hk with h | h
        · exact hbadfresh _ h
        · exact hKfresh _ h
    · intro p hp
      rw [houts] at hp
      have hpo := (mem_dedup _ _).mp hp
      obtain ⟨c, m, hg⟩ := hF.okOut p hpo
      have hne' : p ≠ cf := (hF.tcl p (okTL_mem_targets ops p hpo)).2
      rw [hw1fs]
      simp [FS.isFile, get_set_ne _ _ _ _ hne', hg]
    · rw [hw1fs]; simp [FS.isFile, get_set_self _ _ _ hcfne]
    · intro d hd
      rw [hcd] at hd
      have hd' : d ∈ s2.sp.createdDirs ∨ d ∈ cds := by
        rcases List.mem_append.mp ((mem_dedup _ _).mp hd) with h | h
        · exact Or.inl (List.mem_reverse.mp h)
        · exact Or.inr h
      obtain ⟨h1, h2⟩ := hdirs d hd'
      rw [hw1fs]
      unfold FS.isDir at h1 ⊢
      rw [get_set_ne _ _ _ _ h2]; exact h1
  -- the second build starts from the same tree
  have hsp0 : (Impl.buildStart w cf versions [] [] (noRec name versions) []).sp.fs = w.fs := by
    rw [buildStart_noRec_fs w cf name versions [] hnocache]; rfl
  have hsp0' : (Impl.buildStart w1 cf versions [] [] (writtenRec name versions ops s2 cds) []).sp.fs = w.fs := by
    show mkdirs (preClean w1.fs cf (writtenRec name versions ops s2 cds).toRec) [] = _
    rw [hpre]; rfl
  have hvis : visible (Impl.buildStart w1 cf versions [] [] (writtenRec name versions ops s2 cds) []).sp =
      visible (Impl.buildStart w cf versions [] [] (noRec name versions) []).sp := by
    unfold Spec.visible
    rw [hsp0, hsp0']
    rfl
  have hcds' : dirsToMake (visible (Impl.buildStart w1 cf versions [] [] (writtenRec name versions ops s2 cds) []).sp) cf []
      cf.dropLast = .ok cds := by rw [hvis]; exact hcds
  obtain ⟨hinv2, hres2⟩ := buildGo_invLog w1 cf name versions prog (writtenRec name versions ops s2 cds) cds hcds'
  have hs1'fs : (Impl.buildStart w1 cf versions [] [] (writtenRec name versions ops s2 cds) cds).sp.fs = mkdirs w.fs cds := by
    show mkdirs (preClean w1.fs cf (writtenRec name versions ops s2 cds).toRec) cds = _
    rw [hpre]
  have hsame : Same (Impl.buildStart w cf versions [] [] (noRec name versions) cds)
      (Impl.buildStart w1 cf versions [] [] (writtenRec name versions ops s2 cds) cds) :=
    ⟨by rw [hs1'fs, hs1fs], rfl, hw1ds, rfl, rfl, rfl, rfl, rfl, rfl, rfl⟩
  have hkeys : (subKeysDeepL ops).Pairwise (fun x y => heq x y = false ∧ heq y x = false) := by
    have := (run_keysF prog none _ hold0 rfl rfl (by rw [hr2]; exact hok)).pw
    rw [hr2] at this; exact this
  have hcached := cachedIn_allF ops hok (hanti.imp (fun h => h.1)) hkeys
    (writtenRec name versions ops s2 cds) rfl
  have hargs := run_argsRefl hargsWf none (Impl.buildStart w cf versions [] [] (noRec name versions) cds) rfl rfl rfl
  rw [hr2] at hargs
  have hsecond := C05_nested_rerun prog none (Impl.buildStart w cf versions [] [] (noRec name versions) cds)
    (Impl.buildStart w1 cf versions [] [] (writtenRec name versions ops s2 cds) cds) s2
    (Impl.buildStart w cf versions [] [] (noRec name versions) cds).sp.dirSize hold0
    ⟨hsame, fun q => rfl⟩
    ⟨rfl, (fun p hp => by cases hp), (fun q _ => rfl), (fun p hp => by cases hp)⟩
    (fun f _ => by
      show isEqual (verOf (writtenRec name versions ops s2 cds).versions f) (verOf versions f) = true
      exact hver f)
    (by rw [hr2]; exact hok)
    (by rw [hr2]; exact fun o ho => ⟨hcached o ho, hargs o ho⟩)
    (by rw [hr2]; exact hanti)
    (by rw [hr2]; exact habs0)
    (by rw [hr1]; exact FirstKeeps.refl s2 hkeeps.ff hkeeps.fsb)
    (by
      rw [hr2]
      intro p hp
      have hne' : p ≠ cf := (hF.tcl p hp).2
      have hpne : p ≠ [] := by
        intro e
        have := hfresh p (Or.inl (hF.tcl p hp).1)
        rw [e, get_nil] at this; cases this
      have hw1g : w1.fs.get p = s2.sp.fs.get p := by rw [hw1fs, get_set_ne _ _ _ _ hne']
      rw [buildStart_shelf_get w1 cf versions _ cds p hpne, houts, hw1g]
      rcases targetsL_split ops p hp with h | h
      · obtain ⟨c, m, hg⟩ := hF.okOut p h
        simp [mem_dedup, h, hg]
      · rw [hF.badOut p h]; simp)
  obtain ⟨e1, e2⟩ := hsecond
  refine ⟨?_, ?_⟩
  · apply hres2
    rw [e1, hr0]
  · rw [hinv2, e2, hr2]
    show (rerunDeepL ops ++ []).reverse = _
    rw [List.append_nil]


/-! ### non-vacuity: a subbuild that raises after a successful nested `build_file`, caught by the root, built twice on
    an empty tree: the second build runs the subbuild's function again (failures are never cached) and nothing else -/

set_option maxRecDepth 4000 in
theorem g_first_sets : (Impl.run gRoot none fxS).2.1.sp.claimedFiles = [["x"]] ∧ (Impl.run gRoot none fxS).2.1.sp.createdDirs = [] ∧
    (Impl.run gRoot none fxS).1 = .ok .null := by
  have h : dirsToMake (visible fxS.sp) fxS.sp.cacheFile fxS.sp.inProg [] = .ok [] := by rw [dirsToMake]; simp
  simp [gRoot, exBody, Impl.run, bfSetup, fxS, FS.isDir, FS.get, lookupFile, lookupSub, CacheRec.getFile, CacheRec.getSub, registeredL,
    afterSetup, missStart, liftSp, sanitize, bfFinish, pendingFind, withSp, cmpBuilt, View.cmpResult, setupState, mkdirs,
    FS.isFile, FS.set, FS.erase, clearWay, subClaim, Impl.subStart, Spec.visible] at h ⊢
  rw [h]
  simp [pendingFind, FS.set, FS.erase, FS.get, cmpBuilt, View.cmpResult, withSp, sanitize]

example : (Impl.build fxW ["c"] "n" [] gRoot).res = .ok .null ∧
    (Impl.build (Impl.build fxW ["c"] "n" [] gRoot).world ["c"] "n" [] gRoot).res = .ok .null ∧
    (Impl.build (Impl.build fxW ["c"] "n" [] gRoot).world ["c"] "n" [] gRoot).invLog = [⟨"g", none, .null, .null⟩] := by
  obtain ⟨hops, hfs, _⟩ := g_first
  obtain ⟨hcl, hcd, hres⟩ := g_first_sets
  have hcds : dirsToMake (visible (Impl.buildStart fxW ["c"] [] [] [] (noRec "n" []) []).sp) ["c"] [] (["c"] : Path).dropLast = .ok [] := by
    rw [dirsToMake]; simp
  have hrun : Impl.run gRoot none (Impl.buildStart fxW ["c"] [] [] [] (noRec "n" []) []) =
      (.ok .null, (Impl.run gRoot none fxS).2.1, (Impl.run gRoot none fxS).2.2) := by
    rw [fxW_start, ← hres]
  have hwfp : ArgsWf gRoot := by
    unfold gRoot exBody
    repeat (first | exact ArgsWf.ret _ | exact ArgsWf.raise _ | (apply ArgsWf.subbuild) | (apply ArgsWf.buildFile) | (apply ArgsWf.write) | intro _ | rfl)
  have := C05_rebuild_with_failures fxW ["c"] "n" [] gRoot hwfp (fun p hp => by cases hp) (fun p hp hg => by simp [fxW, FS.get, hp] at hg)
    (by simp [fxW, FS.get]) [] hcds .null _ _ hrun
    (by rw [hops]; simp [noSFL, noSF])
    (by rw [hops]; simp [targetsDeepL, targetsDeep, Antichain])
    (by
      intro k hk
      rw [hcl, hcd] at hk
      have hkne : k ≠ [] := by
        rcases hk with h | h | h | h
        · simp at h; rw [h]; simp
        · simp at h
        · simp at h
        · rw [h]; simp
      simp [fxW, FS.get, hkne])
    (by intro d hd; cases hd)
  rw [hops] at this
  simpa [rerunDeepL, rerunDeep] using this

end FB
