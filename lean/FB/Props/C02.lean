/-
  C02 / C14 — rollback.  In the models a build that raises returns the pre-build tree (the only
  latitude: directories the previous build recorded as created reappear).  How the Python achieves this
  on one physical tree (FileBackups, `_roll_back`) is not modelled; the correspondence check compares the
  real tree (bytes, mtime, inode) with the pre-build snapshot after every failing build and fault.
-/
import FB.Lemmas.Spec
import FB.Impl
namespace FB
open FS Spec

/-- the tree a rolled-back build leaves: the pre-build tree plus the recorded directories -/
def rolledBack (fs : FS) (oldCreated : List Path) : FS :=
  mkdirs fs (oldCreated.mergeSort (fun a b => a.length ≤ b.length))

/-- C02 (what rollback may change): every regular file is back exactly (bytes and modification time);
    nothing is removed; anything new is a directory. -/
theorem C02_rolledBack_frame (fs : FS) (ds : List Path) (p : Path) :
    (rolledBack fs ds).get p = fs.get p ∨ (fs.get p = none ∧ (rolledBack fs ds).get p = some .dir) :=
  mkdirs_get _ fs p

theorem C02_rolledBack_files (fs : FS) (ds : List Path) (p : Path) (b : String) (m : Nat)
    (h : fs.get p = some (.file b m)) : (rolledBack fs ds).get p = some (.file b m) :=
  mkdirs_file _ fs p b m h

theorem C02_spec_buildGo_raises (w : World) (cf : Path) (name : String) (root : Prog)
    (ff : List Path) (fsb : List H) (ab : Nat) (old : Rec) (e : Exc)
    (h : (Spec.buildGo w cf name root ff fsb ab old).res = .error e) :
    (Spec.buildGo w cf name root ff fsb ab old).world.recs = w.recs ∧
    ∃ ds, (Spec.buildGo w cf name root ff fsb ab old).world.fs = rolledBack w.fs ds := by
  unfold Spec.buildGo at h ⊢
  simp only at h ⊢
  split
  · exact ⟨rfl, _, rfl⟩
  · rename_i cds hcds
    simp only [hcds] at h
    generalize hrun : run root none _ = rr at h ⊢
    obtain ⟨r0, s2, tr⟩ := rr
    simp only at h ⊢
    split
    · exact ⟨rfl, _, rfl⟩
    · rename_i v hv
      simp only [hv] at h
      cases h

/-- C02 (reference): whenever `build` ends with an exception — raised by the root function, by anything
    it calls without catching, by a refused call, or by the (injected) failure of the cache write — the
    exception is the one that was raised and the world is the pre-build world, rolled back. -/
theorem C02_spec_build_raises (w : World) (cf : Path) (name : String) (root : Prog)
    (ff : List Path) (fsb : List H) (ab : Nat) (e : Exc)
    (h : (Spec.build w cf name root ff fsb ab).res = .error e) :
    (Spec.build w cf name root ff fsb ab).world.recs = w.recs ∧
    ((Spec.build w cf name root ff fsb ab).world.fs = w.fs ∨
      ∃ ds, (Spec.build w cf name root ff fsb ab).world.fs = rolledBack w.fs ds) := by
  unfold Spec.build at h ⊢
  cases hc : w.cacheState cf with
  | isDir => simp
  | corrupt => simp
  | absent =>
    simp only [hc] at h ⊢
    have := C02_spec_buildGo_raises w cf name root ff fsb ab _ e h
    exact ⟨this.1, Or.inr this.2⟩
  | valid r =>
    simp only [hc] at h ⊢
    by_cases hn : r.buildName = name
    · simp only [hn, if_true] at h ⊢
      have := C02_spec_buildGo_raises w cf name root ff fsb ab _ e h
      exact ⟨this.1, Or.inr this.2⟩
    · simp [hn]

/-- C14 (model of an injected fault): the setup of the call in progress fails with the OSError, before
    anything is claimed or made. -/
theorem C14_fault_surfaces (s : SpecSt) (path : Path) (ds : List Path)
    (h1 : path ∉ s.claimedFiles) (h2 : path ≠ s.cacheFile) (h3 : s.fs.isDir path = false)
    (h4 : dirsToMake (visible s) s.cacheFile s.inProg path.dropLast = .ok ds)
    (hf : path ∈ s.failFiles) : bfSetup s path = .error (.os .other) := by
  unfold bfSetup
  simp [h1, h2, h3, h4, hf]

end FB
