/-
  C18 — JSON helper laws, proved about the model FB.Json of `json_util.py`.
  Only property theorems and their non-vacuity examples live here.
-/
import FB.Lemmas.Json
import FB.Lemmas.HashableJson
namespace FB

/-! ### sanitize produces sanitized values -/
mutual
theorem sanitize_wf : (v : PyVal) → (j : Json) → sanitize v = some j → j.wf = true
  | .null, j, h => by simp [sanitize] at h; subst h; rfl
  | .bool _, j, h => by simp [sanitize] at h; subst h; rfl
  | .int _ _, j, h => by simp [sanitize] at h; subst h; rfl
  | .flt _ _, j, h => by simp [sanitize] at h; subst h; rfl
  | .str _ _, j, h => by simp [sanitize] at h; subst h; rfl
  | .list _ xs, j, h => by
    simp only [sanitize, Option.map_eq_some_iff] at h
    obtain ⟨js, hjs, rfl⟩ := h
    simpa [Json.wf] using sanitizeL_wf xs js hjs
  | .tuple _ xs, j, h => by
    simp only [sanitize, Option.map_eq_some_iff] at h
    obtain ⟨js, hjs, rfl⟩ := h
    simpa [Json.wf] using sanitizeL_wf xs js hjs
  | .dict _ kvs, j, h => by
    simp only [sanitize, Option.map_eq_some_iff] at h
    obtain ⟨r, hr, rfl⟩ := h
    have := sanitizeD_wf kvs [] r (by rfl) (by rfl) hr
    simp [Json.wf, this.1, this.2]
  | .other, j, h => by simp [sanitize] at h
theorem sanitizeL_wf : (vs : List PyVal) → (js : List Json) → sanitizeL vs = some js →
    Json.wfL js = true
  | [], js, h => by simp [sanitizeL] at h; subst h; rfl
  | v :: vs, js, h => by
    simp only [sanitizeL] at h
    split at h
    · rename_i y ys hy hys
      simp at h; subst h
      simp [Json.wfL, sanitize_wf v y hy, sanitizeL_wf vs ys hys]
    · simp at h
theorem sanitizeD_wf : (kvs : List (PyKey × PyVal)) → (acc r : List (String × Json)) →
    Json.wfO acc = true → keysDistinct acc = true → sanitizeD kvs acc = some r →
    Json.wfO r = true ∧ keysDistinct r = true
  | [], acc, r, h1, h2, h => by simp [sanitizeD] at h; subst h; exact ⟨h1, h2⟩
  | (k, v) :: kvs, acc, r, h1, h2, h => by
    simp only [sanitizeD] at h
    split at h
    · rename_i ks vs hk hv
      exact sanitizeD_wf kvs _ r (wfO_dictSet ks vs acc (sanitize_wf v vs hv) h1)
        (keysDistinct_dictSet ks vs acc h2) h
    · simp at h
end

/-! ### sanitize is idempotent -/
mutual
theorem sanitize_toPy : (j : Json) → j.wf = true → sanitize j.toPy = some j
  | .null, _ => by simp [Json.toPy, sanitize]
  | .bool _, _ => by simp [Json.toPy, sanitize]
  | .num (.int _), _ => by simp [Json.toPy, sanitize]
  | .num (.flt _), _ => by simp [Json.toPy, sanitize]
  | .num (.inf _), _ => by simp [Json.toPy, sanitize]
  | .str _, _ => by simp [Json.toPy, sanitize]
  | .arr xs, h => by
    simp only [Json.wf] at h
    simp [Json.toPy, sanitize, sanitizeL_toPyL xs h]
  | .tup _, h => by simp [Json.wf] at h
  | .obj kvs, h => by
    simp only [Json.wf, Bool.and_eq_true] at h
    have := sanitizeD_toPyO kvs [] h.1 h.2 (by intro k hk; rfl)
    simp [Json.toPy, sanitize, this]
theorem sanitizeL_toPyL : (xs : List Json) → Json.wfL xs = true →
    sanitizeL (Json.toPyL xs) = some xs
  | [], _ => by simp [Json.toPyL, sanitizeL]
  | x :: xs, h => by
    simp only [Json.wfL, Bool.and_eq_true] at h
    simp [Json.toPyL, sanitizeL, sanitize_toPy x h.1, sanitizeL_toPyL xs h.2]
theorem sanitizeD_toPyO : (kvs acc : List (String × Json)) → Json.wfO kvs = true →
    keysDistinct kvs = true → (∀ k, hasKey k kvs = true → hasKey k acc = false) →
    sanitizeD (Json.toPyO kvs) acc = some (acc ++ kvs)
  | [], acc, _, _, _ => by simp [Json.toPyO, sanitizeD]
  | (k, v) :: kvs, acc, h1, h2, h3 => by
    simp only [Json.wfO, Bool.and_eq_true] at h1
    simp only [keysDistinct, Bool.and_eq_true, Bool.not_eq_true'] at h2
    have hk : hasKey k acc = false := h3 k (by simp [hasKey])
    simp only [Json.toPyO, sanitizeD, keyToStr, sanitize_toPy v h1.1]
    rw [dictSet_append_of_not_hasKey k v acc hk]
    have := sanitizeD_toPyO kvs (acc ++ [(k, v)]) h1.2 h2.2 (by
      intro k' hk'
      simp only [hasKey, List.any_append, List.any_cons, List.any_nil, Bool.or_false,
        Bool.or_eq_false_iff]
      refine ⟨?_, ?_⟩
      · have := h3 k' (by simp [hasKey] at hk' ⊢; exact Or.inr hk')
        simpa [hasKey] using this
      · -- k' is a key of the rest, and the rest has no key equal to k
        cases hkk : (k == k') with
        | false => rfl
        | true =>
          have e : k = k' := by simpa using hkk
          subst e
          have hno : hasKey k kvs = false := h2.1
          rw [hno] at hk'
          cases hk')
    simpa using this
end

/-! ### `TypeError` exactly on values that are not JSON-representable -/

/-- a key `json.dumps` accepts -/
def PyKey.jsonable : PyKey → Bool
  | .other => false
  | _ => true

mutual
/-- JSON-representable, stated independently of `sanitize`: built from None, bools, numbers, strings,
    lists, tuples and dicts (and subclasses) with keys of type str, int, float, bool or None -/
def PyVal.jsonable : PyVal → Bool
  | .other => false
  | .list _ xs => PyVal.jsonableL xs
  | .tuple _ xs => PyVal.jsonableL xs
  | .dict _ kvs => PyVal.jsonableD kvs
  | _ => true
def PyVal.jsonableL : List PyVal → Bool
  | [] => true
  | x :: xs => x.jsonable && PyVal.jsonableL xs
def PyVal.jsonableD : List (PyKey × PyVal) → Bool
  | [] => true
  | (k, v) :: r => k.jsonable && v.jsonable && PyVal.jsonableD r
end

theorem keyToStr_isSome (k : PyKey) : (keyToStr k).isSome = k.jsonable := by
  cases k with
  | flt n r => cases n <;> simp [keyToStr, PyKey.jsonable] <;> (rename_i b; cases b <;> simp)
  | bool b => cases b <;> simp [keyToStr, PyKey.jsonable]
  | _ => simp [keyToStr, PyKey.jsonable]

mutual
theorem sanitize_isSome : (v : PyVal) → (sanitize v).isSome = v.jsonable
  | .null => by simp [sanitize, PyVal.jsonable]
  | .bool _ => by simp [sanitize, PyVal.jsonable]
  | .int _ _ => by simp [sanitize, PyVal.jsonable]
  | .flt _ _ => by simp [sanitize, PyVal.jsonable]
  | .str _ _ => by simp [sanitize, PyVal.jsonable]
  | .list _ xs => by simp [sanitize, PyVal.jsonable, sanitizeL_isSome xs]
  | .tuple _ xs => by simp [sanitize, PyVal.jsonable, sanitizeL_isSome xs]
  | .dict _ kvs => by simp [sanitize, PyVal.jsonable, sanitizeD_isSome kvs []]
  | .other => by simp [sanitize, PyVal.jsonable]
theorem sanitizeL_isSome : (vs : List PyVal) → (sanitizeL vs).isSome = PyVal.jsonableL vs
  | [] => by simp [sanitizeL, PyVal.jsonableL]
  | v :: vs => by
    have h1 := sanitize_isSome v
    have h2 := sanitizeL_isSome vs
    simp only [sanitizeL, PyVal.jsonableL]
    cases hv : sanitize v <;> cases hvs : sanitizeL vs <;> simp [hv, hvs] at h1 h2 ⊢ <;> simp [h1, h2]
theorem sanitizeD_isSome : (kvs : List (PyKey × PyVal)) → (acc : List (String × Json)) →
    (sanitizeD kvs acc).isSome = PyVal.jsonableD kvs
  | [], _ => by simp [sanitizeD, PyVal.jsonableD]
  | (k, v) :: kvs, acc => by
    have h1 := keyToStr_isSome k
    have h2 := sanitize_isSome v
    simp only [sanitizeD, PyVal.jsonableD]
    cases hk : keyToStr k <;> cases hv : sanitize v <;> simp [hk, hv] at h1 h2 ⊢ <;>
      simp [h1, h2, sanitizeD_isSome kvs]
end

/-- C18: non-JSON values are rejected with `TypeError` (`none`), and only those. -/
theorem sanitize_rejects_iff (v : PyVal) : sanitize v = none ↔ v.jsonable = false := by
  have := sanitize_isSome v
  cases h : sanitize v <;> simp [h] at this ⊢ <;> simp [← this]

/-- C18: sanitising twice is sanitising once. -/
theorem sanitize_idempotent (v : PyVal) (j : Json) (h : sanitize v = some j) :
    sanitize j.toPy = some j :=
  sanitize_toPy j (sanitize_wf v j h)

/-- C18: the result of sanitize has the exact shape of a JSON round trip: no tuples anywhere,
    only string keys, and no two equal keys in an object. -/
theorem sanitize_shape (v : PyVal) (j : Json) (h : sanitize v = some j) : j.wf = true :=
  sanitize_wf v j h

/-! ### the JSON equality used for cache decisions -/

theorem Num.eq_refl (a : Num) : a.eq a = true := by simp [Num.eq]
theorem Num.eq_symm (a b : Num) : a.eq b = b.eq a := by
  simp only [Num.eq]; exact decide_eq_decide.mpr ⟨fun h => h.symm, fun h => h.symm⟩
theorem Num.eq_trans (a b c : Num) (h1 : a.eq b = true) (h2 : b.eq c = true) : a.eq c = true := by
  simp only [Num.eq, decide_eq_true_eq] at *; exact h1.trans h2

/-- C18: 1 equals 1.0 (and every integer equals the float with the same value). -/
theorem isEqual_int_float (i : Int) :
    isEqual (.num (.int i)) (.num (.flt { num := i, k := 0 })) = true := by
  simp [isEqual, Num.eq, Num.key, normDy]

/-- C18: booleans never equal numbers (`True != 1`, `False != 0`). -/
theorem isEqual_bool_num (b : Bool) (n : Num) :
    isEqual (.bool b) (.num n) = false ∧ isEqual (.num n) (.bool b) = false := by
  simp [isEqual]

/-- C18: a list equals the tuple with the same elements. -/
theorem isEqual_list_tuple (xs : List Json) :
    isEqual (.arr xs) (.tup xs) = isEqual (.arr xs) (.arr xs) ∧
    isEqual (.tup xs) (.arr xs) = isEqual (.arr xs) (.arr xs) := by
  simp [isEqual]

theorem lookupWith_self (f : Json → Bool) (k : String) (v : Json) (a : List (String × Json))
    (hd : keysDistinct a = true) (hm : (k, v) ∈ a) : lookupWith f k a = f v := by
  induction a with
  | nil => cases hm
  | cons x r ih =>
    obtain ⟨kx, vx⟩ := x
    simp only [keysDistinct, Bool.and_eq_true, Bool.not_eq_true'] at hd
    simp only [lookupWith]
    cases hm with
    | head => simp
    | tail _ hm' =>
      have hne : ¬ k = kx := by
        intro e; subst e
        have : (r.any fun x => x.1 == k) = true := List.any_eq_true.mpr ⟨(k, v), hm', by simp⟩
        rw [hd.1] at this; cases this
      simp only [hne, if_false]
      exact ih hd.2 hm'

mutual
theorem isEqual_refl : (j : Json) → j.wf = true → isEqual j j = true
  | .null, _ => by simp [isEqual]
  | .bool _, _ => by simp [isEqual]
  | .num n, _ => by simp [isEqual, Num.eq_refl]
  | .str _, _ => by simp [isEqual]
  | .arr xs, h => by simp only [Json.wf] at h; simpa [isEqual] using isEqualL_refl xs h
  | .tup _, h => by simp [Json.wf] at h
  | .obj kvs, h => by
    simp only [Json.wf, Bool.and_eq_true] at h
    simp only [isEqual, beq_self_eq_true, Bool.true_and]
    exact subObj_refl kvs kvs h.1 h.2 (fun _ hx => hx)
theorem isEqualL_refl : (xs : List Json) → Json.wfL xs = true → isEqualL xs xs = true
  | [], _ => by simp [isEqualL]
  | x :: xs, h => by
    simp only [Json.wfL, Bool.and_eq_true] at h
    simp [isEqualL, isEqual_refl x h.1, isEqualL_refl xs h.2]
theorem subObj_refl : (r a : List (String × Json)) → Json.wfO r = true → keysDistinct a = true →
    (∀ x, x ∈ r → x ∈ a) → subObj r a = true
  | [], _, _, _, _ => by simp [subObj]
  | (k, v) :: r, a, h1, h2, h3 => by
    simp only [Json.wfO, Bool.and_eq_true] at h1
    simp only [subObj, Bool.and_eq_true]
    refine ⟨?_, subObj_refl r a h1.2 h2 (fun x hx => h3 x (List.mem_cons_of_mem _ hx))⟩
    rw [lookupWith_self _ k v a h2 (h3 (k, v) (by simp))]
    exact isEqual_refl v h1.1
end

/-! ### equal hashable forms iff JSON-equal -/

mutual
/-- **C18**: `to_hashable(a) == to_hashable(b)` (Python `==`, so `(1,) == (1.0,)` etc. are in scope)
    iff `is_equal(a, b)`, for all sanitized values. -/
theorem toHashable_iff : (a : Json) → a.wf = true → (b : Json) → b.wf = true →
    heq (toH a) (toH b) = isEqual a b
  | .null, _, b, hb => by
    cases b with
    | bool y => cases y <;> simp [toH, heq, isEqual]
    | tup ys => simp [Json.wf] at hb
    | _ => simp [toH, heq, isEqual]
  | .bool x, _, b, hb => by
    cases b with
    | bool y => cases x <;> cases y <;> simp [toH, heq, heqL, isEqual, numEq_01]
    | arr ys => cases x <;> simp [toH, heq, heqL, isEqual, numEq_01]
    | tup ys => simp [Json.wf] at hb
    | obj kb => cases x <;> simp [toH, heq, isEqual, heqL_num_flatten]
    | null => cases x <;> simp [toH, heq, isEqual]
    | num n => cases x <;> simp [toH, heq, isEqual]
    | str s => cases x <;> simp [toH, heq, isEqual]
  | .num n, _, b, hb => by
    cases b with
    | bool y => cases y <;> simp [toH, heq, isEqual]
    | num m => simp [toH, heq, isEqual]
    | tup ys => simp [Json.wf] at hb
    | _ => simp [toH, heq, isEqual]
  | .str s, _, b, hb => by
    cases b with
    | bool y => cases y <;> simp [toH, heq, isEqual]
    | str t => simp [toH, heq, isEqual]
    | tup ys => simp [Json.wf] at hb
    | _ => simp [toH, heq, isEqual]
  | .arr xs, ha, b, hb => by
    simp only [Json.wf] at ha
    cases b with
    | arr ys =>
      simp only [Json.wf] at hb
      simp only [toH, heq, heqL, isEqual, numEq_01, Bool.true_and]
      exact toHashableL_iff xs ha ys hb
    | bool y => cases y <;> simp [toH, heq, heqL, isEqual, numEq_01]
    | tup ys => simp [Json.wf] at hb
    | obj kb => simp [toH, heq, isEqual, heqL_num_flatten]
    | _ => simp [toH, heq, isEqual]
  | .tup _, ha, _, _ => by simp [Json.wf] at ha
  | .obj ka, ha, b, hb => by
    simp only [Json.wf, Bool.and_eq_true] at ha
    cases b with
    | obj kb =>
      simp only [Json.wf, Bool.and_eq_true] at hb
      simp only [toH, heq, isEqual]
      rw [heqL_flatten_sortKeys (toHO ka) (toHO kb)
        (by rw [keysOf_toHO]; exact (keysDistinct_iff_nodup ka).mp ha.2)
        (by rw [keysOf_toHO]; exact (keysDistinct_iff_nodup kb).mp hb.2)]
      unfold objEqH
      rw [length_toHO, length_toHO, toHashableO_iff ka ha.1 kb hb.1]
    | bool y => cases y <;> simp [toH, heq, isEqual, heqL_flatten_num]
    | arr ys => simp [toH, heq, isEqual, heqL_flatten_num]
    | tup ys => simp [Json.wf] at hb
    | _ => simp [toH, heq, isEqual]
theorem toHashableL_iff : (xs : List Json) → Json.wfL xs = true → (ys : List Json) → Json.wfL ys = true →
    heqL (toHL xs) (toHL ys) = isEqualL xs ys
  | [], _, ys, _ => by cases ys <;> simp [toHL, heqL, isEqualL]
  | x :: xs, ha, ys, hb => by
    simp only [Json.wfL, Bool.and_eq_true] at ha
    cases ys with
    | nil => simp [toHL, heqL, isEqualL]
    | cons y ys =>
      simp only [Json.wfL, Bool.and_eq_true] at hb
      simp only [toHL, heqL, isEqualL]
      rw [toHashable_iff x ha.1 y hb.1, toHashableL_iff xs ha.2 ys hb.2]
theorem toHashableO_iff : (ka : List (String × Json)) → Json.wfO ka = true →
    (kb : List (String × Json)) → Json.wfO kb = true →
    (toHO ka).all (fun x => lookupH (heq x.2) x.1 (toHO kb)) = subObj ka kb
  | [], _, kb, _ => by simp [toHO, subObj]
  | (k, v) :: ka, ha, kb, hb => by
    simp only [Json.wfO, Bool.and_eq_true] at ha
    simp only [toHO, List.all_cons, subObj]
    rw [toHashableO_iff ka ha.2 kb hb]
    congr 1
    -- the lookup of one key
    induction kb with
    | nil => simp [toHO, lookupH, lookupWith]
    | cons y r ih =>
      obtain ⟨k', v'⟩ := y
      simp only [Json.wfO, Bool.and_eq_true] at hb
      simp only [toHO, lookupH, lookupWith]
      split
      · exact toHashable_iff v ha.1 v' hb.1
      · exact ih hb.2
end

/-- C18: the JSON equality is symmetric on sanitized values. -/
theorem isEqual_symm (a b : Json) (ha : a.wf = true) (hb : b.wf = true) : isEqual a b = isEqual b a := by
  rw [← toHashable_iff a ha b hb, ← toHashable_iff b hb a ha, heq_symm]

/-- C18: the JSON equality is transitive on sanitized values. -/
theorem isEqual_trans (a b c : Json) (ha : a.wf = true) (hb : b.wf = true) (hc : c.wf = true)
    (h1 : isEqual a b = true) (h2 : isEqual b c = true) : isEqual a c = true := by
  rw [← toHashable_iff a ha b hb] at h1
  rw [← toHashable_iff b hb c hc] at h2
  rw [← toHashable_iff a ha c hc]
  exact heq_trans _ _ _ h1 h2

example : isEqual (.obj [("a", .num (.int 1)), ("b", .arr [.bool true])])
    (.obj [("b", .tup [.bool true]), ("a", .num (.flt { num := 2, k := 1 }))]) = true := by decide

end FB
