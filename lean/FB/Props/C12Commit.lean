/-
  `_commit` (`FB.Commit`) - how the single physical tree of the Python becomes the virtual tree of the models at the
  end of a build.
  * `commit_frame`: whatever `_commit` changes it removes, and it removes only old outputs the virtual tree does not
    know (never the cache file) and listed directories (C03: nothing foreign is touched).
  * `commit_exact`: if the physical tree is the virtual tree plus (a) regular files at old output paths that the
    virtual tree does not know and (b) directories the virtual tree does not know, each an error-created directory or
    a recorded directory of the previous build, then after `_commit` the physical tree IS the virtual tree (the cache
    file's own path aside): every stale output is gone (C05/C12), no directory of a failed output or of the previous
    build is left behind (C10, C12), everything the build functions could see is untouched (C04).
-/
import FB.Commit
import FB.Props.C04PreClean
import FB.Props.C02Rollback
import FB.Props.C01Step
namespace FB
namespace Commit
open FS Spec BuildDirs

theorem removeOld_get (vf : Path → Bool) (cf : Path) (oldFiles : List Path) (fs : FS) (q : Path) :
    (removeOld vf cf oldFiles fs).get q =
      if (q ∈ oldFiles ∧ vf q = false ∧ q ≠ cf) ∧ fs.isFile q = true then none else fs.get q := by
  unfold removeOld
  rw [eraseFiles_get]
  have : (q ∈ oldFiles.filter (fun f => !vf f && f != cf)) ↔ (q ∈ oldFiles ∧ vf q = false ∧ q ≠ cf) := by
    simp [List.mem_filter]
  simp only [this]

/-- **`_commit` only removes, and only old outputs unknown to the virtual tree and listed directories** -/
theorem commit_frame (vf vd : Path → Bool) (cf : Path) (oldFiles oldDirs errDirs : List Path) (fs : FS) (q : Path) :
    (commit vf vd cf oldFiles oldDirs errDirs fs).get q = fs.get q ∨
    ((commit vf vd cf oldFiles oldDirs errDirs fs).get q = none ∧
      ((q ∈ oldFiles ∧ vf q = false ∧ q ≠ cf ∧ ∃ b m, fs.get q = some (.file b m)) ∨
       ((q ∈ errDirs ∨ (q ∈ oldDirs ∧ vd q = false)) ∧ fs.get q = some .dir))) := by
  unfold commit
  have h1 := removeOld_get vf cf oldFiles fs q
  rcases rmEmpty_get (dirsToRemove vd oldDirs errDirs) (removeOld vf cf oldFiles fs) q with h | ⟨hm, hd, hn⟩
  · rw [h, h1]
    by_cases hc : (q ∈ oldFiles ∧ vf q = false ∧ q ≠ cf) ∧ fs.isFile q = true
    · right
      refine ⟨if_pos hc, Or.inl ⟨hc.1.1, hc.1.2.1, hc.1.2.2, ?_⟩⟩
      have := hc.2
      unfold FS.isFile at this
      cases hg : fs.get q with
      | none => simp [hg] at this
      | some e => cases e with
        | dir => simp [hg] at this
        | file b m => exact ⟨b, m, rfl⟩
    · left; exact if_neg hc
  · right
    refine ⟨hn, Or.inr ⟨?_, ?_⟩⟩
    · unfold dirsToRemove at hm
      rw [mem_dedup] at hm
      rcases List.mem_append.mp hm with hm | hm
      · exact Or.inl hm
      · simp only [List.mem_filter, Bool.not_eq_true'] at hm; exact Or.inr hm
    · rw [h1] at hd
      split at hd
      · cases hd
      · exact hd

/-- in particular: a foreign file - not an output of the previous build - is never touched, nor is anything the
    virtual tree knows as a regular file, nor the cache file -/
theorem commit_keeps_file (vf vd : Path → Bool) (cf : Path) (oldFiles oldDirs errDirs : List Path) (fs : FS) (q : Path)
    (b : String) (m : Nat) (hq : fs.get q = some (.file b m)) (hk : q ∉ oldFiles ∨ vf q = true ∨ q = cf) :
    (commit vf vd cf oldFiles oldDirs errDirs fs).get q = some (.file b m) := by
  rcases commit_frame vf vd cf oldFiles oldDirs errDirs fs q with h | ⟨_, h | h⟩
  · rw [h, hq]
  · exfalso
    rcases hk with hk | hk | hk
    · exact hk h.1
    · rw [h.2.1] at hk; cases hk
    · exact h.2.2.1 hk
  · rw [hq] at h; cases h.2

/-- **after `_commit` the physical tree is the virtual tree** -/
theorem commit_exact (cf : Path) (oldFiles oldDirs errDirs : List Path) (P V : FS)
    (hwfV : TreeWF V)
    (hsub : ∀ q, V.get q ≠ none → P.get q = V.get q)
    (hfiles : ∀ q b m, q ≠ cf → P.get q = some (.file b m) → V.get q = none → q ∈ oldFiles)
    (hdirs : ∀ q, P.get q = some .dir → V.get q = none → q ∈ errDirs ∨ q ∈ oldDirs)
    (herr : ∀ d ∈ errDirs, V.isDir d = false)
    (hcf : P.get cf ≠ none → V.isDir cf.dropLast = true) :
    ∀ q, q ≠ cf → (commit (fun p => V.isFile p) (fun p => V.isDir p) cf oldFiles oldDirs errDirs P).get q = V.get q := by
  intro q hqcf
  have hP1 := removeOld_get (fun p => V.isFile p) cf oldFiles P
  have hframe := commit_frame (fun p => V.isFile p) (fun p => V.isDir p) cf oldFiles oldDirs errDirs P q
  cases hV : V.get q with
  | some e =>
    -- known to the virtual tree: untouched
    have hPq : P.get q = some e := by rw [hsub q (by rw [hV]; simp), hV]
    rcases hframe with h | ⟨_, h | h⟩
    · rw [h, hPq]
    · exfalso
      obtain ⟨_, h2, _, b, m, h4⟩ := h
      rw [hPq] at h4
      cases h4
      simp [FS.isFile, hV] at h2
    · exfalso
      obtain ⟨h1, h2⟩ := h
      rw [hPq] at h2
      cases h2
      rcases h1 with h1 | h1
      · have := herr q h1; simp [FS.isDir, hV] at this
      · simp [FS.isDir, hV] at h1
  | none =>
    cases hPq : P.get q with
    | none =>
      rcases hframe with h | ⟨h, _⟩
      · rw [h, hPq]
      · exact h
    | some e =>
      cases e with
      | file b m =>
        -- a stale output: removed by the first loop
        have hmem := hfiles q b m hqcf hPq hV
        have h1 : (removeOld (fun p => V.isFile p) cf oldFiles P).get q = none := by
          rw [hP1]
          have : (q ∈ oldFiles ∧ (fun p => V.isFile p) q = false ∧ q ≠ cf) ∧ P.isFile q = true :=
            ⟨⟨hmem, by simp [FS.isFile, hV], hqcf⟩, by simp [FS.isFile, hPq]⟩
          exact if_pos this
        unfold commit
        rcases rmEmpty_get (dirsToRemove (fun p => V.isDir p) oldDirs errDirs) (removeOld (fun p => V.isFile p) cf oldFiles P) q with h | ⟨_, _, h⟩
        · rw [h, h1]
        · exact h
      | dir =>
        -- a directory the virtual tree does not know: it holds only such directories once the stale outputs are gone
        unfold commit
        apply Rollback.rmEmpty_removes (fun d => P.get d = some .dir ∧ V.get d = none)
        · intro d hd
          refine ⟨?_, Or.inr ?_⟩
          · intro e; have h2 := hd.2; rw [e, get_nil] at h2; cases h2
          · rw [hP1]
            have : ¬ ((d ∈ oldFiles ∧ (fun p => V.isFile p) d = false ∧ d ≠ cf) ∧ P.isFile d = true) := by
              intro hc; simp [FS.isFile, hd.1] at hc
            rw [if_neg this]; exact hd.1
        · intro d hd n hn
          rw [hP1] at hn
          split at hn
          · exact absurd rfl hn
          · rename_i hcond
            have hVn : V.get (d ++ [n]) = none := by
              by_contra hc
              have := hwfV (d ++ [n]) (by simp) hc
              rw [show (d ++ [n]).dropLast = d by simp] at this
              simp [FS.isDir, hd.2] at this
            cases hPn : P.get (d ++ [n]) with
            | none => exact absurd hPn hn
            | some e =>
              cases e with
              | dir => exact ⟨rfl, hVn⟩
              | file b m =>
                exfalso
                by_cases hcfn : d ++ [n] = cf
                · have := hcf (by rw [← hcfn, hPn]; simp)
                  rw [← hcfn, show (d ++ [n]).dropLast = d by simp] at this
                  simp [FS.isDir, hd.2] at this
                · apply hcond
                  exact ⟨⟨hfiles _ b m hcfn hPn hVn, by simp [FS.isFile, hVn], hcfn⟩, by simp [FS.isFile, hPn]⟩
        · intro d hd _
          unfold dirsToRemove
          rw [mem_dedup]
          rcases hdirs d hd.1 hd.2 with h | h
          · exact List.mem_append_left _ h
          · apply List.mem_append_right
            simp only [List.mem_filter, Bool.not_eq_true']
            exact ⟨h, by simp [FS.isDir, hd.2]⟩
        · exact ⟨hPq, hV⟩

/-- the same without the assumption on the cache file's directory: when the cache file lies in a directory the virtual
    tree does not list (a directory recorded by the previous build, re-used for the cache file), that directory and its
    ancestors stay - `rmdir` fails on them - and everywhere else the physical tree is the virtual tree -/
theorem commit_exact_general (cf : Path) (oldFiles oldDirs errDirs : List Path) (P V : FS)
    (hwfV : TreeWF V)
    (hsub : ∀ q, V.get q ≠ none → P.get q = V.get q)
    (hfiles : ∀ q b m, q ≠ cf → P.get q = some (.file b m) → V.get q = none → q ∈ oldFiles)
    (hdirs : ∀ q, P.get q = some .dir → V.get q = none → q ∈ errDirs ∨ q ∈ oldDirs)
    (herr : ∀ d ∈ errDirs, V.isDir d = false)
    :
    ∀ q, (V.get q ≠ none ∨ ¬ q <+: cf) → (commit (fun p => V.isFile p) (fun p => V.isDir p) cf oldFiles oldDirs errDirs P).get q = V.get q := by
  intro q hq
  have hqcf : V.get q = none → q ≠ cf := fun hn e => by
    rcases hq with h | h
    · exact h hn
    · exact h (e ▸ List.prefix_refl _)
  have hP1 := removeOld_get (fun p => V.isFile p) cf oldFiles P
  have hframe := commit_frame (fun p => V.isFile p) (fun p => V.isDir p) cf oldFiles oldDirs errDirs P q
  cases hV : V.get q with
  | some e =>
    -- known to the virtual tree: untouched
    have hPq : P.get q = some e := by rw [hsub q (by rw [hV]; simp), hV]
    rcases hframe with h | ⟨_, h | h⟩
    · rw [h, hPq]
    · exfalso
      obtain ⟨_, h2, _, b, m, h4⟩ := h
      rw [hPq] at h4
      cases h4
      simp [FS.isFile, hV] at h2
    · exfalso
      obtain ⟨h1, h2⟩ := h
      rw [hPq] at h2
      cases h2
      rcases h1 with h1 | h1
      · have := herr q h1; simp [FS.isDir, hV] at this
      · simp [FS.isDir, hV] at h1
  | none =>
    cases hPq : P.get q with
    | none =>
      rcases hframe with h | ⟨h, _⟩
      · rw [h, hPq]
      · exact h
    | some e =>
      cases e with
      | file b m =>
        -- a stale output: removed by the first loop
        have hmem := hfiles q b m (hqcf hV) hPq hV
        have h1 : (removeOld (fun p => V.isFile p) cf oldFiles P).get q = none := by
          rw [hP1]
          have : (q ∈ oldFiles ∧ (fun p => V.isFile p) q = false ∧ q ≠ cf) ∧ P.isFile q = true :=
            ⟨⟨hmem, by simp [FS.isFile, hV], hqcf hV⟩, by simp [FS.isFile, hPq]⟩
          exact if_pos this
        unfold commit
        rcases rmEmpty_get (dirsToRemove (fun p => V.isDir p) oldDirs errDirs) (removeOld (fun p => V.isFile p) cf oldFiles P) q with h | ⟨_, _, h⟩
        · rw [h, h1]
        · exact h
      | dir =>
        -- a directory the virtual tree does not know: it holds only such directories once the stale outputs are gone
        unfold commit
        have hnp : ¬ q <+: cf := by
          rcases hq with h | h
          · exact absurd hV h
          · exact h
        apply Rollback.rmEmpty_removes (fun d => P.get d = some .dir ∧ V.get d = none ∧ ¬ d <+: cf)
        · intro d hd
          refine ⟨?_, Or.inr ?_⟩
          · intro e; have h2 := hd.2.1; rw [e, get_nil] at h2; cases h2
          · rw [hP1]
            have : ¬ ((d ∈ oldFiles ∧ (fun p => V.isFile p) d = false ∧ d ≠ cf) ∧ P.isFile d = true) := by
              intro hc; simp [FS.isFile, hd.1] at hc
            rw [if_neg this]; exact hd.1
        · intro d hd n hn
          rw [hP1] at hn
          split at hn
          · exact absurd rfl hn
          · rename_i hcond
            have hVn : V.get (d ++ [n]) = none := by
              by_contra hc
              have := hwfV (d ++ [n]) (by simp) hc
              rw [show (d ++ [n]).dropLast = d by simp] at this
              simp [FS.isDir, hd.2.1] at this
            cases hPn : P.get (d ++ [n]) with
            | none => exact absurd hPn hn
            | some e =>
              cases e with
              | dir => exact ⟨rfl, hVn, fun hpre => hd.2.2 ((List.prefix_append d [n]).trans hpre)⟩
              | file b m =>
                exfalso
                by_cases hcfn : d ++ [n] = cf
                · exact hd.2.2 (hcfn ▸ List.prefix_append d [n])
                · apply hcond
                  exact ⟨⟨hfiles _ b m hcfn hPn hVn, by simp [FS.isFile, hVn], hcfn⟩, by simp [FS.isFile, hPn]⟩
        · intro d hd _
          unfold dirsToRemove
          rw [mem_dedup]
          rcases hdirs d hd.1 hd.2.1 with h | h
          · exact List.mem_append_left _ h
          · apply List.mem_append_right
            simp only [List.mem_filter, Bool.not_eq_true']
            exact ⟨h, by simp [FS.isDir, hd.2.1]⟩
        · exact ⟨hPq, hV, hnp⟩

/-- the hypotheses of `commit_exact` are met (non-vacuity, for every well-formed virtual tree): the tree on disk is the
    virtual tree plus one stale output `f` of the previous build (a regular file the virtual tree does not know) and one
    empty directory `d` that only the disk knows, recorded by the previous build; `_commit` removes both and leaves
    exactly the virtual tree -/
theorem commit_exact_instance (cf f d : Path) (b : String) (m : Nat) (V : FS) (hwfV : TreeWF V)
    (hf : V.get f = none) (hd : V.get d = none) (hfd : f ≠ d) (hfne : f ≠ []) (hdne : d ≠ [])
    (hcf : V.isDir cf.dropLast = true) :
    ∀ q, q ≠ cf → (commit (fun p => V.isFile p) (fun p => V.isDir p) cf [f] [d] []
      ((V.set f (.file b m)).set d .dir)).get q = V.get q := by
  have hget : ∀ q, q ≠ f → q ≠ d → ((V.set f (.file b m)).set d .dir).get q = V.get q := by
    intro q h1 h2
    rw [get_set_ne _ _ _ _ h2, get_set_ne _ _ _ _ h1]
  have hgf : ((V.set f (.file b m)).set d .dir).get f = some (.file b m) := by
    rw [get_set_ne _ _ _ _ hfd, get_set_self _ _ _ hfne]
  have hgd : ((V.set f (.file b m)).set d .dir).get d = some .dir := get_set_self _ _ _ hdne
  apply commit_exact cf [f] [d] [] _ V hwfV
  · intro q hq
    have h1 : q ≠ f := fun e => hq (e ▸ hf)
    have h2 : q ≠ d := fun e => hq (e ▸ hd)
    exact hget q h1 h2
  · intro q b' m' _ hP hV
    by_cases h1 : q = f
    · simp [h1]
    · by_cases h2 : q = d
      · rw [h2, hgd] at hP; cases hP
      · rw [hget q h1 h2, hV] at hP; cases hP
  · intro q hP hV
    by_cases h2 : q = d
    · right; simp [h2]
    · by_cases h1 : q = f
      · rw [h1, hgf] at hP; cases hP
      · rw [hget q h1 h2, hV] at hP; cases hP
  · intro x hx; cases hx
  · intro _; exact hcf

/-- the new cache file, written just before `_commit`, is left alone by it -/
theorem commit_keeps_cache_file (vf vd : Path → Bool) (cf : Path) (oldFiles oldDirs errDirs : List Path) (fs : FS)
    (b : String) (m : Nat) (h : fs.get cf = some (.file b m)) :
    (commit vf vd cf oldFiles oldDirs errDirs fs).get cf = some (.file b m) :=
  commit_keeps_file vf vd cf oldFiles oldDirs errDirs fs cf b m h (Or.inr (Or.inr rfl))

/-- **the tree on disk after a committed build is the final world of the cache-logic model**: `FB.Impl.buildGo` ends
    with the virtual tree `V` plus the new cache file (`V.write cf token 0`); if the physical tree at that moment is
    `V` plus stale outputs plus directories only the disk knows (the hypotheses of `commit_exact`) and holds the new
    cache file, then after `_commit` it is that world, at every path -/
theorem commit_matches_model_world (cf : Path) (oldFiles oldDirs errDirs : List Path) (P V : FS) (b : String) (m : Nat)
    (hwfV : TreeWF V)
    (hsub : ∀ q, V.get q ≠ none → P.get q = V.get q)
    (hfiles : ∀ q b m, q ≠ cf → P.get q = some (.file b m) → V.get q = none → q ∈ oldFiles)
    (hdirs : ∀ q, P.get q = some .dir → V.get q = none → q ∈ errDirs ∨ q ∈ oldDirs)
    (herr : ∀ d ∈ errDirs, V.isDir d = false)
    (hcfdir : V.isDir cf.dropLast = true)
    (hcache : P.get cf = some (.file b m)) :
    ∀ q, (commit (fun p => V.isFile p) (fun p => V.isDir p) cf oldFiles oldDirs errDirs P).get q = (V.write cf b m).get q := by
  intro q
  have hcfne : cf ≠ [] := by intro e; rw [e, get_nil] at hcache; cases hcache
  by_cases hq : q = cf
  · subst hq
    rw [commit_keeps_cache_file _ _ _ _ _ _ _ b m hcache]
    unfold FS.write
    rw [get_set_self _ _ _ hcfne]
  · rw [commit_exact cf oldFiles oldDirs errDirs P V hwfV hsub hfiles hdirs herr (fun _ => hcfdir) q hq]
    unfold FS.write
    rw [get_set_ne _ _ _ _ hq]

end Commit
end FB
