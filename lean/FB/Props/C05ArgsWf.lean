import FB.Props.C05NestedRerun
import FB.Props.C01Next
namespace FB
open FS Spec Impl

/-- the arguments of every call in the program are JSON values in normal form (what `_sanitize_args` hands on) -/
inductive ArgsWf : Prog → Prop
  | ret (v : PyVal) : ArgsWf (.ret v)
  | raise (e : Exc) : ArgsWf (.raise e)
  | query (q : Query) (k : UAns → Prog) : (∀ a, ArgsWf (k a)) → ArgsWf (.query q k)
  | write (b : String) (mt : Option Nat) (k : Prog) : ArgsWf k → ArgsWf (.write b mt k)
  | buildFile (path : Path) (cmp : Cmp) (fname : String) (args kwargs : Json) (body : Prog) (k : CallRes → Prog) :
      args.wf = true → kwargs.wf = true → ArgsWf body → (∀ r, ArgsWf (k r)) →
      ArgsWf (.buildFile path cmp fname args kwargs body k)
  | subbuild (fname : String) (args kwargs : Json) (body : Prog) (k : CallRes → Prog) :
      ArgsWf body → (∀ r, ArgsWf (k r)) → ArgsWf (.subbuild fname args kwargs body k)

theorem argsRefl_bfRecord (path : Path) (cmp : Cmp) (fname : String) (args kwargs : Json) (subs : List Op)
    (rb r' : CallRes) (s3 : KSt) (ha : args.wf = true) (hk : kwargs.wf = true) :
    argsRefl (bfRecord path cmp fname args kwargs subs rb r' s3) = true := by
  unfold bfRecord
  cases r' <;> simp [argsRefl, isEqual_refl _ ha, isEqual_refl _ hk]

/-- in a first run (nothing is served from a cache) every registered record carries the arguments of its call node -/
theorem run_argsRefl {prog : Prog} (hw : ArgsWf prog) : ∀ (t : Option Path) (s : KSt), s.old.roots = [] →
    s.sp.failFiles = [] → s.sp.failSubs = [] →
    ∀ o ∈ registeredL (Impl.run prog t s).2.2, argsRefl o = true := by
  induction hw with
  | ret v => intro t s _ _ _ o ho; simp only [Impl.run] at ho; split at ho <;> simp [registeredL] at ho
  | raise e => intro t s _ _ _ o ho; simp [Impl.run, registeredL] at ho
  | query q k _ ih =>
    intro t s h0 h1 h2 o ho
    simp only [Impl.run] at ho
    rw [mem_registeredL_cons] at ho
    rcases ho with ho | ho
    · split at ho <;> simp [registered] at ho
    · exact ih _ t s h0 h1 h2 o ho
  | write b mt k _ ih =>
    intro t s h0 h1 h2 o ho
    simp only [Impl.run] at ho
    cases t with
    | none => exact ih none s h0 h1 h2 o ho
    | some p => exact ih (some p) (liftSp s fun sp => { sp with pending := (p, b, mt.getD sp.clock) :: sp.pending, clock := sp.clock + 1 }) h0 h1 h2 o ho
  | buildFile path cmp fname args kwargs body k ha hk _ _ ihb ihk =>
    intro t s h0 h1 h2 o ho
    cases hsetup : bfSetup s.sp path with
    | error e =>
      simp only [Impl.run, hsetup] at ho
      rw [mem_registeredL_cons] at ho
      rcases ho with ho | ho
      · simp [registered, registeredL] at ho
      · exact ihk (.error e) t (liftSp s fun sp => Spec.setupFailState sp path e) h0
          (by simp only [liftSp, setupFailState, h1]; split <;> simp) h2 o ho
    | ok x =>
      obtain ⟨sp1, made⟩ := x
      obtain ⟨hsp1, _, _, _, _, _⟩ := bfSetup_ok_fields s.sp sp1 path made hsetup
      have hlook := lookupFile_empty (afterSetup s sp1 path made) h0 path cmp fname args kwargs made
      rw [run_bf_miss s t path cmp fname args kwargs body k sp1 made hsetup hlook] at ho
      simp only at ho
      have hk1ff : (missStart (afterSetup s sp1 path made) path ⟨fname, some path, args, kwargs⟩).sp.failFiles = [] := by
        show sp1.failFiles = []; rw [hsp1]; exact h1
      have hk1fs : (missStart (afterSetup s sp1 path made) path ⟨fname, some path, args, kwargs⟩).sp.failSubs = [] := by
        show sp1.failSubs = []; rw [hsp1]; exact h2
      have hkb := run_keeps body (some path) (missStart (afterSetup s sp1 path made) path ⟨fname, some path, args, kwargs⟩) h0 hk1ff hk1fs
      have ihb' := ihb (some path) (missStart (afterSetup s sp1 path made) path ⟨fname, some path, args, kwargs⟩) h0 hk1ff hk1fs
      generalize hout : Impl.run body (some path) (missStart (afterSetup s sp1 path made) path ⟨fname, some path, args, kwargs⟩) = out
        at ho hkb ihb'
      obtain ⟨_, hk2, hk3⟩ := bfFinish_keeps out.2.1.sp path made out.1
      rw [mem_registeredL_cons] at ho
      rcases ho with ho | ho
      · -- the record of this call, or one nested in it
        have : o ∈ registeredL out.2.2 ∨ o = bfRecord path cmp fname args kwargs out.2.2 out.1 (bfFinish out.2.1.sp path made out.1).1
            (withSp out.2.1 (bfFinish out.2.1.sp path made out.1).2) := by
          revert ho
          unfold bfRecord
          cases (bfFinish out.2.1.sp path made out.1).1 <;> simp [registered] <;> intro h <;> exact h
        rcases this with h | h
        · exact ihb' o h
        · rw [h]; exact argsRefl_bfRecord _ _ _ _ _ _ _ _ _ ha hk
      · exact ihk _ t _ (by show out.2.1.old.roots = []; rw [hkb.old]; exact h0)
          (by show (bfFinish _ path made out.1).2.failFiles = []; rw [hk2]; exact hkb.ff)
          (by show (bfFinish _ path made out.1).2.failSubs = []; rw [hk3]; exact hkb.fsb) o ho
  | subbuild fname args kwargs body k _ _ ihb ihk =>
    intro t s h0 h1 h2 o ho
    have hfs : s.sp.failSubs.any (heq (subKey fname args kwargs)) = false := by simp [h2]
    by_cases hcl : s.sp.claimedSubs.any (heq (subKey fname args kwargs)) = true
    · simp only [Impl.run, hcl, if_true] at ho
      rw [mem_registeredL_cons] at ho
      rcases ho with ho | ho
      · simp [registered, registeredL] at ho
      · exact ihk _ t s h0 h1 h2 o ho
    · have hcl0 : s.sp.claimedSubs.any (heq (subKey fname args kwargs)) = false := by simpa using hcl
      have hlook := lookupSub_empty (subClaim s (subKey fname args kwargs)) h0 fname args kwargs
      rw [run_sb_miss' s t fname args kwargs body k hcl0 hfs hlook] at ho
      simp only at ho
      have hkb := run_keeps body none (Impl.subStart (subClaim s (subKey fname args kwargs)) ⟨fname, none, args, kwargs⟩) h0 h1 h2
      have ihb' := ihb none (Impl.subStart (subClaim s (subKey fname args kwargs)) ⟨fname, none, args, kwargs⟩) h0 h1 h2
      generalize hout : Impl.run body none (Impl.subStart (subClaim s (subKey fname args kwargs)) ⟨fname, none, args, kwargs⟩) = out
        at ho hkb ihb'
      rw [mem_registeredL_cons] at ho
      rcases ho with ho | ho
      · have : o ∈ registeredL out.2.2 ∨ argsRefl o = true := by
          revert ho
          cases out.1 <;> simp [sbRecord, registered] <;> intro h <;> rcases h with h | h
          · exact Or.inl h
          · right; rw [h]; rfl
          · exact Or.inl h
          · right; rw [h]; rfl
        rcases this with h | h
        · exact ihb' o h
        · exact h
      · exact ihk out.1 t out.2.1 (by rw [hkb.old]; exact h0) hkb.ff hkb.fsb o ho

/-- **C05, whole build, the argument hypothesis discharged**: `C05_nested_rebuild` for every program whose call
    arguments are JSON values in normal form — which is what `_sanitize_args` hands on for any arguments it accepts
    (`sanitize_wf`).  No hypothesis about records remains except those about the first run's outcome. -/
theorem C05_nested_rebuild_wf (w : KWorld) (cf : Path) (name : String) (versions : List (String × Json)) (prog : Prog)
    (hargsWf : ArgsWf prog)
    (hwf : BuildDirs.TreeWF w.fs) (hnocache : w.fs.get cf = none) (cds : List Path)
    (hcds : dirsToMake (visible (Impl.buildStart w cf versions [] [] (noRec name versions) []).sp) cf [] cf.dropLast = .ok cds)
    (v : Json) (s2 : KSt) (ops : List Op)
    (hrun : Impl.run prog none (Impl.buildStart w cf versions [] [] (noRec name versions) cds) = (.ok v, s2, ops))
    (hok : okDeepL ops = true) (hanti : Antichain (targetsDeepL ops))
    (hfresh : ∀ k, (k ∈ s2.sp.claimedFiles ∨ k ∈ s2.sp.createdDirs ∨ k ∈ cds ∨ k = cf) → w.fs.get k = none)
    (hcdsT : ∀ d ∈ cds, d ∉ targetsDeepL ops)
    (hver : ∀ f, isEqual (verOf versions f) (verOf versions f) = true) :
    (Impl.build w cf name versions prog).res = .ok v ∧
    (Impl.build (Impl.build w cf name versions prog).world cf name versions prog).res = .ok v ∧
    (Impl.build (Impl.build w cf name versions prog).world cf name versions prog).invLog = [] := by
  refine C05_nested_rebuild w cf name versions prog hwf hnocache cds hcds v s2 ops hrun hok hanti ?_ hfresh hcdsT hver
  intro o ho
  have hr2 : (Impl.run prog none (Impl.buildStart w cf versions [] [] (noRec name versions) cds)).2.2 = ops := by rw [hrun]
  have hall := run_argsRefl hargsWf none (Impl.buildStart w cf versions [] [] (noRec name versions) cds) rfl rfl rfl
  rw [hr2] at hall
  cases o with
  | simple _ _ _ _ => rfl
  | subbuild _ _ _ _ _ _ _ => rfl
  | buildFile p c f a k subs rr cr raised sf ct =>
    have hot := okTop_of_okDeep _ (okDeep_of_mem ops hok _ ho)
    apply hall _ (mem_registeredL_top ops _ ho ?_)
    simp only [okTop, Bool.and_eq_true, Bool.not_eq_true'] at hot
    simp [isComplexRegistered, hot.2]

theorem verOf_refl (versions : List (String × Json)) (hv : ∀ p ∈ versions, p.2.wf = true) (f : String) :
    isEqual (verOf versions f) (verOf versions f) = true := by
  unfold verOf
  cases hf : versions.find? (fun x => x.1 = f) with
  | none => rfl
  | some p =>
    obtain ⟨n, v⟩ := p
    exact isEqual_refl v (hv _ (List.mem_of_find?_eq_some hf))

/-- **C05, whole build, in terms of the inputs only**: arguments and versions in JSON normal form (what `_sanitize_args`
    and `_sanitize_versions` produce) replace both record-level hypotheses of `C05_nested_rebuild`. -/
theorem C05_nested_rebuild_inputs (w : KWorld) (cf : Path) (name : String) (versions : List (String × Json)) (prog : Prog)
    (hargsWf : ArgsWf prog) (hversWf : ∀ p ∈ versions, p.2.wf = true)
    (hwf : BuildDirs.TreeWF w.fs) (hnocache : w.fs.get cf = none) (cds : List Path)
    (hcds : dirsToMake (visible (Impl.buildStart w cf versions [] [] (noRec name versions) []).sp) cf [] cf.dropLast = .ok cds)
    (v : Json) (s2 : KSt) (ops : List Op)
    (hrun : Impl.run prog none (Impl.buildStart w cf versions [] [] (noRec name versions) cds) = (.ok v, s2, ops))
    (hok : okDeepL ops = true) (hanti : Antichain (targetsDeepL ops))
    (hfresh : ∀ k, (k ∈ s2.sp.claimedFiles ∨ k ∈ s2.sp.createdDirs ∨ k ∈ cds ∨ k = cf) → w.fs.get k = none)
    (hcdsT : ∀ d ∈ cds, d ∉ targetsDeepL ops) :
    (Impl.build w cf name versions prog).res = .ok v ∧
    (Impl.build (Impl.build w cf name versions prog).world cf name versions prog).res = .ok v ∧
    (Impl.build (Impl.build w cf name versions prog).world cf name versions prog).invLog = [] :=
  C05_nested_rebuild_wf w cf name versions prog hargsWf hwf hnocache cds hcds v s2 ops hrun hok hanti hfresh hcdsT
    (verOf_refl versions hversWf)

/-- what the harness' programs look like: arguments produced by `sanitize` are in normal form -/
example : ArgsWf nRoot := by
  unfold nRoot
  repeat (first | exact ArgsWf.ret _ | exact ArgsWf.raise _ | (apply ArgsWf.subbuild) | (apply ArgsWf.buildFile) | (apply ArgsWf.write) | intro _ | rfl)

end FB
