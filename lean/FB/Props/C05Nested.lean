/-
  C05 — completeness of reuse for programs of ARBITRARY nesting in which no call fails.  `C05Flat` proved it for
  root functions whose callees make no calls themselves; here the callee of a `build_file` or `subbuild` may call
  `build_file` / `subbuild` again, to any depth.

  * `run_keeps`     what any first run keeps (claims grow, a file at a claimed path is never touched again)
  * `run_absent`    a run creates entries only at its targets and the directories above them
  * `replay_run`    REPLAY COMPLETENESS: the record list of a first run in which every call succeeded is accepted
                    again (`replayOps … = some _`), record by record and level by level, by any state that looks the
                    same and whose shelf holds the run's outputs; the replay leaves that state looking like the
                    state after the run
  * `nested_second_run`   the second run invokes no user function and returns the same value

  Hypotheses, all about the first run's record tree: every call succeeded (`okDeepL`), its targets form an
  antichain under "is a prefix of" (no output is a directory of another - the documented obligation) and were absent
  from the tree the first run started on, and the cache/shelf of the second run hold what the first run produced.
-/
import FB.Props.C05Rerun
import FB.Props.C02Rollback
namespace FB
open FS Spec Impl

mutual
/-- every call in the record tree succeeded (at every depth) -/
def okDeep : Op → Bool
  | .simple _ _ _ _ => true
  | .buildFile _ _ _ _ _ subs _ _ raised sf _ => !raised && !sf && okDeepL subs
  | .subbuild _ _ _ subs _ raised sf => !raised && !sf && okDeepL subs
def okDeepL : List Op → Bool
  | [] => true
  | o :: os => okDeep o && okDeepL os
end

mutual
/-- the targets of all `build_file` records that got past their set-up, at every depth, in execution order
    (a call's nested targets come before its own: it is finished last) -/
def targetsDeep : Op → List Path
  | .simple _ _ _ _ => []
  | .buildFile p _ _ _ _ subs _ _ _ sf _ => targetsDeepL subs ++ (if sf then [] else [p])
  | .subbuild _ _ _ subs _ _ _ => targetsDeepL subs
def targetsDeepL : List Op → List Path
  | [] => []
  | o :: os => targetsDeep o ++ targetsDeepL os
end

theorem okDeepL_cons (o : Op) (os : List Op) : okDeepL (o :: os) = (okDeep o && okDeepL os) := by
  simp [okDeepL]

theorem targetsDeepL_cons (o : Op) (os : List Op) : targetsDeepL (o :: os) = targetsDeep o ++ targetsDeepL os := by
  simp [targetsDeepL]

mutual
/-- the names of the functions of all calls in the record tree -/
def fnamesDeep : Op → List String
  | .simple _ _ _ _ => []
  | .buildFile _ _ f _ _ subs _ _ _ _ _ => f :: fnamesDeepL subs
  | .subbuild f _ _ subs _ _ _ => f :: fnamesDeepL subs
def fnamesDeepL : List Op → List String
  | [] => []
  | o :: os => fnamesDeep o ++ fnamesDeepL os
end

theorem fnamesDeepL_cons (o : Op) (os : List Op) : fnamesDeepL (o :: os) = fnamesDeep o ++ fnamesDeepL os := by
  simp [fnamesDeepL]

theorem versionOk_congr {a b : KSt} (h1 : a.old = b.old) (h2 : a.newVersions = b.newVersions) (f : String) :
    versionOk a f = versionOk b f := by
  unfold versionOk; rw [h1, h2]

/-- **what any first run keeps** (arbitrary nesting): the cache stays empty, no faults appear, claims only grow, and
    a file at a claimed path is never touched again -/
theorem run_keeps (prog : Prog) : ∀ (t : Option Path) (s : KSt), s.old.roots = [] → s.sp.failFiles = [] →
    s.sp.failSubs = [] → FirstKeeps s (Impl.run prog t s).2.1 := by
  induction prog with
  | ret v => intro t s _ h1 h2; simp only [Impl.run]; split <;> exact FirstKeeps.refl s h1 h2
  | raise e => intro t s _ h1 h2; simp only [Impl.run]; exact FirstKeeps.refl s h1 h2
  | query q k ih => intro t s h0 h1 h2; simp only [Impl.run]; exact ih _ t s h0 h1 h2
  | write b mt k ih =>
    intro t s h0 h1 h2
    simp only [Impl.run]
    cases t with
    | none => exact ih none s h0 h1 h2
    | some p =>
      simp only
      have := ih (some p) (liftSp s fun sp => { sp with pending := (p, b, mt.getD sp.clock) :: sp.pending, clock := sp.clock + 1 }) h0 h1 h2
      exact ⟨this.old, this.ff, this.fsb, this.claimed, this.files⟩
  | buildFile path cmp fname args kwargs body k ihb ihk =>
    intro t s h0 h1 h2
    cases hsetup : bfSetup s.sp path with
    | error e =>
      have hrun : (Impl.run (.buildFile path cmp fname args kwargs body k) t s).2.1 =
          (Impl.run (k (.error e)) t (liftSp s fun sp => Spec.setupFailState sp path e)).2.1 := by
        simp only [Impl.run, hsetup]
      rw [hrun]
      have hk := ihk (.error e) t (liftSp s fun sp => Spec.setupFailState sp path e) h0
        (by simp only [liftSp, setupFailState, h1]; split <;> simp) h2
      exact ⟨hk.old, hk.ff, hk.fsb, hk.claimed, hk.files⟩
    | ok x =>
      obtain ⟨sp1, made⟩ := x
      obtain ⟨hsp1, hnc, _, _, _, _⟩ := bfSetup_ok_fields s.sp sp1 path made hsetup
      have hlook := lookupFile_empty (afterSetup s sp1 path made) h0 path cmp fname args kwargs made
      rw [run_bf_miss s t path cmp fname args kwargs body k sp1 made hsetup hlook]
      simp only
      have hb := ihb (some path) (missStart (afterSetup s sp1 path made) path ⟨fname, some path, args, kwargs⟩) h0
        (by show sp1.failFiles = []; rw [hsp1]; exact h1) (by show sp1.failSubs = []; rw [hsp1]; exact h2)
      generalize hout : Impl.run body (some path) (missStart (afterSetup s sp1 path made) path ⟨fname, some path, args, kwargs⟩) = out at hb
      have hs3 : FirstKeeps s (withSp out.2.1 (bfFinish out.2.1.sp path made out.1).2) := by
        obtain ⟨_, hk2, hk3⟩ := bfFinish_keeps out.2.1.sp path made out.1
        refine ⟨hb.old, ?_, ?_, ?_, ?_⟩
        · show (bfFinish _ path made out.1).2.failFiles = []
          rw [hk2]; exact hb.ff
        · show (bfFinish _ path made out.1).2.failSubs = []
          rw [hk3]; exact hb.fsb
        · intro p hp
          show p ∈ (bfFinish _ path made out.1).2.claimedFiles
          rw [bfFinish_claimed]
          apply hb.claimed
          show p ∈ sp1.claimedFiles
          rw [hsp1]; exact List.mem_cons_of_mem _ hp
        · intro p b m hg hc
          show (bfFinish _ path made out.1).2.fs.get p = some (.file b m)
          have hne : p ≠ path := fun e => hnc (e ▸ hc)
          apply bfFinish_file_other _ _ _ _ _ _ _ hne
          apply hb.files p b m
          · show sp1.fs.get p = _
            rw [hsp1]; exact setupState_file_other _ _ _ _ _ _ hne hg
          · show p ∈ sp1.claimedFiles
            rw [hsp1]; exact List.mem_cons_of_mem _ hc
      have hk := ihk (bfFinish out.2.1.sp path made out.1).1 t (withSp out.2.1 (bfFinish out.2.1.sp path made out.1).2)
        (by rw [show (withSp out.2.1 (bfFinish out.2.1.sp path made out.1).2).old = out.2.1.old from rfl, hb.old]; exact h0) hs3.ff hs3.fsb
      exact hs3.trans hk
  | subbuild fname args kwargs body k ihb ihk =>
    intro t s h0 h1 h2
    have hfs : s.sp.failSubs.any (heq (subKey fname args kwargs)) = false := by simp [h2]
    by_cases hc : s.sp.claimedSubs.any (heq (subKey fname args kwargs)) = true
    · have hrun : (Impl.run (.subbuild fname args kwargs body k) t s).2.1 =
          (Impl.run (k (.error (.runtime .dupSub))) t s).2.1 := by
        simp only [Impl.run, hc, if_true]
      rw [hrun]
      exact ihk _ t s h0 h1 h2
    · have hc' : s.sp.claimedSubs.any (heq (subKey fname args kwargs)) = false := by simpa using hc
      have hlook := lookupSub_empty (subClaim s (subKey fname args kwargs)) h0 fname args kwargs
      rw [run_sb_miss s t fname args kwargs body k hc' hfs hlook]
      simp only
      have hb := ihb none (Impl.subStart (subClaim s (subKey fname args kwargs)) ⟨fname, none, args, kwargs⟩) h0 h1 h2
      generalize hout : Impl.run body none (Impl.subStart (subClaim s (subKey fname args kwargs)) ⟨fname, none, args, kwargs⟩) = out at hb
      have hs2 : FirstKeeps s out.2.1 := ⟨hb.old, hb.ff, hb.fsb, hb.claimed, hb.files⟩
      have hk := ihk out.1 t out.2.1 (by rw [hs2.old]; exact h0) hs2.ff hs2.fsb
      exact hs2.trans hk


theorem targetsDeep_bfRecord (path : Path) (cmp : Cmp) (fname : String) (args kwargs : Json) (subs : List Op)
    (rb r' : CallRes) (s3 : KSt) :
    targetsDeep (bfRecord path cmp fname args kwargs subs rb r' s3) = targetsDeepL subs ++ [path] := by
  unfold bfRecord
  cases r' <;> simp [targetsDeep]

/-- the record of a `subbuild` call whose function ran -/
def sbRecord (fname : String) (args kwargs : Json) (subs : List Op) : CallRes → Op
  | .ok j => Op.subbuild fname args kwargs subs j false false
  | .error _ => Op.subbuild fname args kwargs subs .null true false

theorem run_sb_miss' (s : KSt) (t : Option Path) (fname : String) (args kwargs : Json) (body : Prog) (k : CallRes → Prog)
    (h1 : s.sp.claimedSubs.any (heq (subKey fname args kwargs)) = false)
    (h2 : s.sp.failSubs.any (heq (subKey fname args kwargs)) = false)
    (hlook : lookupSub (subClaim s (subKey fname args kwargs)) fname args kwargs = none) :
    Impl.run (.subbuild fname args kwargs body k) t s =
      (let out := Impl.run body none (Impl.subStart (subClaim s (subKey fname args kwargs)) ⟨fname, none, args, kwargs⟩)
       let rest := Impl.run (k out.1) t out.2.1
       (rest.1, rest.2.1, sbRecord fname args kwargs out.2.2 out.1 :: rest.2.2)) := by
  rw [run_sb_miss s t fname args kwargs body k h1 h2 hlook]
  simp only
  generalize Impl.run body none (Impl.subStart (subClaim s (subKey fname args kwargs)) ⟨fname, none, args, kwargs⟩) = out
  obtain ⟨r, s2, subs⟩ := out
  cases r <;> rfl

theorem targetsDeep_sbRecord (fname : String) (args kwargs : Json) (subs : List Op) (r : CallRes) :
    targetsDeep (sbRecord fname args kwargs subs r) = targetsDeepL subs := by
  cases r <;> simp [sbRecord, targetsDeep]

theorem bfFinish_absent (sp : SpecSt) (path : Path) (made : List Path) (r : CallRes) (q : Path)
    (hq : q ≠ path) (h : sp.fs.get q = none) : (bfFinish sp path made r).2.fs.get q = none := by
  unfold bfFinish
  cases r with
  | error e => exact rmEmpty_none _ _ q h
  | ok j =>
    simp only
    split
    · simp only; rw [get_set_ne _ _ _ _ hq]; exact h
    · exact rmEmpty_none _ _ q h

theorem setupState_absent (sp : SpecSt) (path : Path) (made : List Path) (q : Path)
    (hq : q ≠ path) (hm : q ∉ made) (h : sp.fs.get q = none) : (setupState sp path made).fs.get q = none := by
  unfold setupState
  simp only
  have h1 : (mkdirs sp.fs made).get q = none := by
    rcases Rollback.mkdirs_get_mem made sp.fs q with h' | ⟨hmem, _, _⟩
    · rw [h', h]
    · exact absurd hmem hm
  split
  · rw [get_erase_ne _ _ _ hq]; exact h1
  · exact h1

/-- a run creates entries only at its targets and at the directories above them -/
theorem run_absent (prog : Prog) : ∀ (t : Option Path) (s : KSt) (q : Path), s.old.roots = [] → s.sp.failFiles = [] →
    s.sp.failSubs = [] → s.sp.fs.get q = none → (∀ p ∈ targetsDeepL (Impl.run prog t s).2.2, ¬ q <+: p) →
    (Impl.run prog t s).2.1.sp.fs.get q = none := by
  induction prog with
  | ret v => intro t s q _ _ _ h _; simp only [Impl.run]; split <;> exact h
  | raise e => intro t s q _ _ _ h _; simp only [Impl.run]; exact h
  | query qq k ih =>
    intro t s q h0 h1 h2 h hp
    simp only [Impl.run] at hp ⊢
    apply ih _ t s q h0 h1 h2 h
    intro p hpm
    apply hp p
    rw [targetsDeepL_cons]
    split <;> simp [targetsDeep, hpm]
  | write b mt k ih =>
    intro t s q h0 h1 h2 h hp
    simp only [Impl.run] at hp ⊢
    cases t with
    | none => exact ih none s q h0 h1 h2 h hp
    | some p => exact ih (some p) _ q h0 h1 h2 h hp
  | buildFile path cmp fname args kwargs body k ihb ihk =>
    intro t s q h0 h1 h2 h hp
    cases hsetup : bfSetup s.sp path with
    | error e =>
      simp only [Impl.run, hsetup] at hp ⊢
      apply ihk (.error e) t (liftSp s fun sp => Spec.setupFailState sp path e) q h0
        (by simp only [liftSp, setupFailState, h1]; split <;> simp) h2 h
      intro p hpm
      apply hp p
      rw [targetsDeepL_cons]
      simp [targetsDeep, targetsDeepL, hpm]
    | ok x =>
      obtain ⟨sp1, made⟩ := x
      obtain ⟨hsp1, hnc, _, _, hdm, _⟩ := bfSetup_ok_fields s.sp sp1 path made hsetup
      have hlook := lookupFile_empty (afterSetup s sp1 path made) h0 path cmp fname args kwargs made
      rw [run_bf_miss s t path cmp fname args kwargs body k sp1 made hsetup hlook] at hp ⊢
      simp only at hp ⊢
      have hkb := run_keeps body (some path) (missStart (afterSetup s sp1 path made) path ⟨fname, some path, args, kwargs⟩) h0
        (by show sp1.failFiles = []; rw [hsp1]; exact h1) (by show sp1.failSubs = []; rw [hsp1]; exact h2)
      generalize hout : Impl.run body (some path) (missStart (afterSetup s sp1 path made) path ⟨fname, some path, args, kwargs⟩) = out at hp hkb
      rw [targetsDeepL_cons, targetsDeep_bfRecord] at hp
      have hqp : ¬ q <+: path := hp path (by simp)
      have hqne : q ≠ path := fun e => hqp (e ▸ List.prefix_refl _)
      have hqm : q ∉ made := by
        intro hm
        have := Backups.dirsToMake_prefix _ _ _ _ _ _ rfl hdm q hm
        exact hqp (this.trans (List.dropLast_prefix path))
      have hb : out.2.1.sp.fs.get q = none := by
        rw [← hout]
        apply ihb (some path) (missStart (afterSetup s sp1 path made) path ⟨fname, some path, args, kwargs⟩) q h0 (by show sp1.failFiles = []; rw [hsp1]; exact h1) (by show sp1.failSubs = []; rw [hsp1]; exact h2)
        · show sp1.fs.get q = none
          rw [hsp1]; exact setupState_absent _ _ _ _ hqne hqm h
        · intro p hpm
          apply hp p
          rw [hout] at hpm
          simp [hpm]
      have h3 : (withSp out.2.1 (bfFinish out.2.1.sp path made out.1).2).sp.fs.get q = none :=
        bfFinish_absent _ _ _ _ _ hqne hb
      obtain ⟨_, hk2, hk3⟩ := bfFinish_keeps out.2.1.sp path made out.1
      apply ihk _ t _ q (by show out.2.1.old.roots = []; rw [hkb.old]; exact h0)
        (by show (bfFinish _ path made out.1).2.failFiles = []; rw [hk2]; exact hkb.ff)
        (by show (bfFinish _ path made out.1).2.failSubs = []; rw [hk3]; exact hkb.fsb) h3
      intro p hpm
      apply hp p
      simp [hpm]
  | subbuild fname args kwargs body k ihb ihk =>
    intro t s q h0 h1 h2 h hp
    have hfs : s.sp.failSubs.any (heq (subKey fname args kwargs)) = false := by simp [h2]
    by_cases hc : s.sp.claimedSubs.any (heq (subKey fname args kwargs)) = true
    · simp only [Impl.run, hc, if_true] at hp ⊢
      apply ihk _ t s q h0 h1 h2 h
      intro p hpm
      apply hp p
      rw [targetsDeepL_cons]
      simp [targetsDeep, targetsDeepL, hpm]
    · have hc' : s.sp.claimedSubs.any (heq (subKey fname args kwargs)) = false := by simpa using hc
      have hlook := lookupSub_empty (subClaim s (subKey fname args kwargs)) h0 fname args kwargs
      rw [run_sb_miss' s t fname args kwargs body k hc' hfs hlook] at hp ⊢
      simp only at hp ⊢
      have hkb := run_keeps body none (Impl.subStart (subClaim s (subKey fname args kwargs)) ⟨fname, none, args, kwargs⟩) h0 h1 h2
      generalize hout : Impl.run body none (Impl.subStart (subClaim s (subKey fname args kwargs)) ⟨fname, none, args, kwargs⟩) = out at hp hkb
      rw [targetsDeepL_cons, targetsDeep_sbRecord] at hp
      have hb : out.2.1.sp.fs.get q = none := by
        rw [← hout]
        apply ihb none (Impl.subStart (subClaim s (subKey fname args kwargs)) ⟨fname, none, args, kwargs⟩) q h0 h1 h2 h
        intro p hpm
        apply hp p
        rw [hout] at hpm
        simp [hpm]
      apply ihk _ t _ q (by rw [hkb.old]; exact h0) hkb.ff hkb.fsb hb
      intro p hpm
      apply hp p
      simp [hpm]


/-- the state in which the records nested in a reused `build_file` record are replayed -/
def bfReplayStart (s : KSt) (path : Path) (made : List Path) : KSt :=
  { s with shelf := s.shelf.filter (fun x => !(made.contains x.1)), sp := { s.sp with fs := Spec.mkdirs s.sp.fs made, claimedFiles := path :: s.sp.claimedFiles, inProg := path :: s.sp.inProg } }

theorem replayOp_bf (s : KSt) (path : Path) (cmp : Cmp) (fname : String) (args kwargs : Json) (subs : List Op)
    (ret cmpRes : Json) (content : String) (made : List Path)
    (hv : versionOk s fname = true) (hom : outputMatches s path cmp cmpRes = true)
    (hcl : path ∉ s.sp.claimedFiles) (hcf : path ≠ s.sp.cacheFile) (habs : s.sp.fs.get path = none)
    (hdm : Spec.dirsToMake (Spec.visible s.sp) s.sp.cacheFile s.sp.inProg path.dropLast = .ok made)
    (hlong : made.any Path.tooLong = false) :
    replayOp (.buildFile path cmp fname args kwargs subs ret cmpRes false false content) s =
      match replayOps subs (bfReplayStart s path made) with
      | none => none
      | some s2 => some (adopt s2 path made) := by
  have hcl' : s.sp.claimedFiles.contains path = false := by simpa using hcl
  have hcf' : (path == s.sp.cacheFile) = false := by simpa using hcf
  simp only [replayOp, hv, hom, hcl', hcf', habs, hdm, hlong, Bool.not_true, Bool.false_eq_true, if_false,
    Bool.not_false, Bool.true_and, Bool.or_self, Option.isSome_none, bfReplayStart]
  rfl

theorem replayOp_sb (s : KSt) (fname : String) (args kwargs : Json) (subs : List Op) (ret : Json)
    (hv : versionOk s fname = true) (hcl : s.sp.claimedSubs.any (heq (subKey fname args kwargs)) = false) :
    replayOp (.subbuild fname args kwargs subs ret false false) s =
      replayOps subs (subClaim s (subKey fname args kwargs)) := by
  simp only [replayOp, hv, hcl, Bool.not_true, Bool.false_eq_true, Bool.or_self, if_false]
  rfl

theorem fnamesDeep_bfRecord (path : Path) (cmp : Cmp) (fname : String) (args kwargs : Json) (subs : List Op)
    (rb r' : CallRes) (s3 : KSt) :
    fnamesDeep (bfRecord path cmp fname args kwargs subs rb r' s3) = fname :: fnamesDeepL subs := by
  unfold bfRecord
  cases r' <;> simp [fnamesDeep]

theorem fnamesDeep_sbRecord (fname : String) (args kwargs : Json) (subs : List Op) (r : CallRes) :
    fnamesDeep (sbRecord fname args kwargs subs r) = fname :: fnamesDeepL subs := by
  cases r <;> simp [sbRecord, fnamesDeep]

/-- what replaying the records of a run does to the replaying state, beyond `Same` -/
structure Replayed (s' s'' : KSt) (tg : List Path) : Prop where
  old : s''.old = s'.old
  nv : s''.newVersions = s'.newVersions
  inv : s''.sp.invLog = s'.sp.invLog
  shelf : ∀ q, (∀ p ∈ tg, ¬ q <+: p) → s''.shelf.get q = s'.shelf.get q

theorem Antichain.ne_of_mem_append {l r : List Path} (h : Antichain (l ++ r)) {a b : Path} (ha : a ∈ l) (hb : b ∈ r) :
    a ≠ b ∧ ¬ a <+: b ∧ ¬ b <+: a := by
  unfold Antichain at h
  rw [List.pairwise_append] at h
  exact h.2.2 a ha b hb

theorem Antichain.left {l r : List Path} (h : Antichain (l ++ r)) : Antichain l := by
  unfold Antichain at h ⊢; rw [List.pairwise_append] at h; exact h.1

theorem Antichain.right {l r : List Path} (h : Antichain (l ++ r)) : Antichain r := by
  unfold Antichain at h ⊢; rw [List.pairwise_append] at h; exact h.2.1

theorem shelf_filter_made (shelf : FS) (made : List Path) (q : Path) (hq : q ∉ made) :
    FS.get (shelf.filter (fun x => !(made.contains x.1))) q = FS.get shelf q := by
  apply get_filter_keep
  intro e
  simp [hq]

theorem okDeep_bfRecord (path : Path) (cmp : Cmp) (fname : String) (args kwargs : Json) (subs : List Op)
    (rb r' : CallRes) (s3 : KSt) (h : okDeep (bfRecord path cmp fname args kwargs subs rb r' s3) = true) :
    (∃ j, r' = .ok j) ∧ okDeepL subs = true := by
  unfold bfRecord at h
  cases r' with
  | ok j => simp [okDeep] at h; exact ⟨⟨j, rfl⟩, h⟩
  | error e => simp [okDeep] at h

theorem okDeep_sbRecord (fname : String) (args kwargs : Json) (subs : List Op) (r : CallRes)
    (h : okDeep (sbRecord fname args kwargs subs r) = true) : (∃ j, r = .ok j) ∧ okDeepL subs = true := by
  cases r with
  | ok j => simp [sbRecord, okDeep] at h; exact ⟨⟨j, rfl⟩, h⟩
  | error e => simp [sbRecord, okDeep] at h

/-- **replay completeness for arbitrary nesting**: the records of a first run in which every call succeeded are
    accepted again, in order, by a state that looks the same and whose shelf holds the run's outputs — and the
    replay leaves that state looking like the state after the run -/
theorem replay_run (prog : Prog) : ∀ (t : Option Path) (s s' fin : KSt),
    s.old.roots = [] → Same s s' → (∀ f ∈ fnamesDeepL (Impl.run prog t s).2.2, versionOk s' f = true) →
    okDeepL (Impl.run prog t s).2.2 = true →
    Antichain (targetsDeepL (Impl.run prog t s).2.2) →
    (∀ p ∈ targetsDeepL (Impl.run prog t s).2.2, s.sp.fs.get p = none) →
    FirstKeeps (Impl.run prog t s).2.1 fin →
    (∀ p ∈ targetsDeepL (Impl.run prog t s).2.2, s'.shelf.get p = fin.sp.fs.get p) →
    ∃ s'', replayOps (Impl.run prog t s).2.2 s' = some s'' ∧ Same (Impl.run prog t s).2.1 s'' ∧
      Replayed s' s'' (targetsDeepL (Impl.run prog t s).2.2) := by
  induction prog with
  | ret v =>
    intro t s s' fin _ hsame _ _ _ _ _ _
    simp only [Impl.run]
    split <;> exact ⟨s', by simp [replayOps], hsame, rfl, rfl, rfl, fun _ _ => rfl⟩
  | raise e =>
    intro t s s' fin _ hsame _ _ _ _ _ _
    simp only [Impl.run]
    exact ⟨s', by simp [replayOps], hsame, rfl, rfl, rfl, fun _ _ => rfl⟩
  | query q k ih =>
    intro t s s' fin h0 hsame hv hok hanti habs hfin hsup
    simp only [Impl.run] at hv hok hanti habs hfin hsup ⊢
    have hrec : replayOp (recordOf s'.sp.dirSize (visible s'.sp) q) s' = some s' := replay_simple_complete s' q
    rw [hsame.visible, hsame.dirSize] at hrec
    unfold recordOf at hrec
    cases hrv : View.recVal s.sp.dirSize (visible s.sp) q with
    | ok v =>
      simp only [hrv] at hv hok hanti habs hsup hrec ⊢
      rw [fnamesDeepL_cons] at hv
      simp only [fnamesDeep, List.nil_append] at hv
      rw [targetsDeepL_cons] at hanti habs hsup ⊢
      simp only [targetsDeep, List.nil_append] at hanti habs hsup ⊢
      rw [okDeepL_cons] at hok
      simp only [okDeep, Bool.true_and] at hok
      obtain ⟨s'', h1, h2, h3⟩ := ih _ t s s' fin h0 hsame hv hok hanti habs hfin hsup
      exact ⟨s'', by simp only [replayOps, hrec]; exact h1, h2, h3⟩
    | error e =>
      simp only [hrv] at hv hok hanti habs hsup hrec ⊢
      rw [fnamesDeepL_cons] at hv
      simp only [fnamesDeep, List.nil_append] at hv
      rw [targetsDeepL_cons] at hanti habs hsup ⊢
      simp only [targetsDeep, List.nil_append] at hanti habs hsup ⊢
      rw [okDeepL_cons] at hok
      simp only [okDeep, Bool.true_and] at hok
      obtain ⟨s'', h1, h2, h3⟩ := ih _ t s s' fin h0 hsame hv hok hanti habs hfin hsup
      exact ⟨s'', by simp only [replayOps, hrec]; exact h1, h2, h3⟩
  | write b mt k ih =>
    intro t s s' fin h0 hsame hv hok hanti habs hfin hsup
    simp only [Impl.run] at hv hok hanti habs hfin hsup ⊢
    cases t with
    | none => exact ih none s s' fin h0 hsame hv hok hanti habs hfin hsup
    | some p =>
      simp only at hv hok hanti habs hfin hsup ⊢
      exact ih (some p) _ s' fin h0 ⟨hsame.fs, hsame.cacheFile, hsame.dirSize, hsame.claimedFiles, hsame.claimedSubs, hsame.inProg,
        hsame.ff, hsame.ff', hsame.fsb, hsame.fsb'⟩ hv hok hanti habs hfin hsup
  | buildFile path cmp fname args kwargs body k ihb ihk =>
    intro t s s' fin h0 hsame hv hok hanti habs hfin hsup
    cases hsetup : bfSetup s.sp path with
    | error e =>
      exfalso
      have := run_bf_setupfail s t path cmp fname args kwargs body k e hsetup
      cases hops : (Impl.run (.buildFile path cmp fname args kwargs body k) t s).2.2 with
      | nil => rw [hops] at this; cases this
      | cons o os =>
        rw [hops] at this hok
        simp only [List.head?_cons, Option.some.injEq] at this
        subst this
        simp [okDeepL, okDeep] at hok
    | ok x =>
      obtain ⟨sp1, made⟩ := x
      obtain ⟨hsp1, hnc, hncf, hnd, hdm, _⟩ := bfSetup_ok_fields s.sp sp1 path made hsetup
      have hpne : path ≠ [] := by intro e; subst e; simp [FS.isDir, get_nil] at hnd
      have hlook := lookupFile_empty (afterSetup s sp1 path made) h0 path cmp fname args kwargs made
      rw [run_bf_miss s t path cmp fname args kwargs body k sp1 made hsetup hlook] at hv hok hanti habs hfin hsup ⊢
      simp only at hv hok hanti habs hfin hsup ⊢
      -- the run of the function
      have hk1ff : (missStart (afterSetup s sp1 path made) path ⟨fname, some path, args, kwargs⟩).sp.failFiles = [] := by
        show sp1.failFiles = []; rw [hsp1]; exact hsame.ff
      have hk1fs : (missStart (afterSetup s sp1 path made) path ⟨fname, some path, args, kwargs⟩).sp.failSubs = [] := by
        show sp1.failSubs = []; rw [hsp1]; exact hsame.fsb
      have hkb := run_keeps body (some path) (missStart (afterSetup s sp1 path made) path ⟨fname, some path, args, kwargs⟩) h0 hk1ff hk1fs
      have hab := run_absent body (some path) (missStart (afterSetup s sp1 path made) path ⟨fname, some path, args, kwargs⟩)
      have ihb' := ihb (some path) (missStart (afterSetup s sp1 path made) path ⟨fname, some path, args, kwargs⟩) (bfReplayStart s' path made)
      generalize hout : Impl.run body (some path) (missStart (afterSetup s sp1 path made) path ⟨fname, some path, args, kwargs⟩) = out
        at hv hok hanti habs hfin hsup hkb hab ihb' ⊢
      rw [fnamesDeepL_cons, fnamesDeep_bfRecord] at hv
      rw [targetsDeepL_cons, targetsDeep_bfRecord] at hanti habs hsup ⊢
      rw [okDeepL_cons, Bool.and_eq_true] at hok
      obtain ⟨⟨⟨j, hj⟩, hoksubs⟩, hokrest⟩ := And.intro (okDeep_bfRecord _ _ _ _ _ _ _ _ _ hok.1) hok.2
      obtain ⟨c, m, hpf, hrb, hfinOk⟩ := bfFinish_ok_inv out.2.1.sp path made out.1 j hj
      -- targets: nested ones, then `path`, then the later ones
      have hanti_sub : Antichain (targetsDeepL out.2.2) := hanti.left.left
      have hsub_path : ∀ p ∈ targetsDeepL out.2.2, p ≠ path ∧ ¬ p <+: path ∧ ¬ path <+: p := by
        intro p hp
        have := Antichain.ne_of_mem_append hanti.left hp (List.mem_singleton.mpr rfl)
        exact this
      have hmade_pre : ∀ d ∈ made, d <+: path := fun d hd =>
        (Backups.dirsToMake_prefix _ _ _ _ _ _ rfl hdm d hd).trans (List.dropLast_prefix path)
      have hpath_made : path ∉ made := by
        intro hm
        have := Backups.dirsToMake_prefix _ _ _ _ _ _ rfl hdm path hm
        have hl := this.length_le
        simp [List.length_dropLast] at hl
        have : path.length ≠ 0 := by simpa using hpne
        omega
      have habs_path : s.sp.fs.get path = none := habs path (by simp)
      -- the state the function starts in, and the state its records are replayed in, look the same
      have hk1fs' : sp1.fs = Spec.mkdirs s.sp.fs made := by
        rw [hsp1]; unfold setupState; simp only
        have : (Spec.mkdirs s.sp.fs made).get path = none := by
          rcases Rollback.mkdirs_get_mem made s.sp.fs path with h' | ⟨hm, _, _⟩
          · rw [h', habs_path]
          · exact absurd hm hpath_made
        simp [FS.isFile, this]
      have hsame1 : Same (missStart (afterSetup s sp1 path made) path ⟨fname, some path, args, kwargs⟩) (bfReplayStart s' path made) := by
        refine ⟨?_, ?_, ?_, ?_, ?_, ?_, hk1ff, hsame.ff', hk1fs, hsame.fsb'⟩
        · show Spec.mkdirs s'.sp.fs made = sp1.fs
          rw [hk1fs', hsame.fs]
        · show s'.sp.cacheFile = sp1.cacheFile
          rw [hsp1]; exact hsame.cacheFile
        · show s'.sp.dirSize = sp1.dirSize
          rw [hsp1]; exact hsame.dirSize
        · show path :: s'.sp.claimedFiles = sp1.claimedFiles
          rw [hsp1, hsame.claimedFiles]; rfl
        · show s'.sp.claimedSubs = sp1.claimedSubs
          rw [hsp1]; exact hsame.claimedSubs
        · show path :: s'.sp.inProg = sp1.inProg
          rw [hsp1, hsame.inProg]; rfl
      have hv1 : ∀ f ∈ fnamesDeepL out.2.2, versionOk (bfReplayStart s' path made) f = true := fun f hf => by
        exact (versionOk_congr (b := s') rfl rfl f).trans (hv f (by simp [hf]))
      -- nested targets are absent when the function starts, and stay on the shelf
      have hnot_made : ∀ p, ¬ p <+: path → p ∉ made := fun p hp hm => hp (hmade_pre p hm)
      have habs1 : ∀ p ∈ targetsDeepL out.2.2, (missStart (afterSetup s sp1 path made) path ⟨fname, some path, args, kwargs⟩).sp.fs.get p = none := by
        intro p hp
        show sp1.fs.get p = none
        rw [hsp1]
        exact setupState_absent _ _ _ _ (hsub_path p hp).1 (hnot_made p (hsub_path p hp).2.1) (habs p (by simp [hp]))
      -- the state after the call, and the rest of the run
      have hs3fs : (withSp out.2.1 (bfFinish out.2.1.sp path made out.1).2).sp.fs = out.2.1.sp.fs.set path (.file c m) := by
        show (bfFinish out.2.1.sp path made out.1).2.fs = _
        rw [hfinOk]; rfl
      have hpath_out : out.2.1.sp.fs.get path = none := by
        apply hab path h0 hk1ff hk1fs
        · show sp1.fs.get path = none
          rw [hk1fs']
          rcases Rollback.mkdirs_get_mem made s.sp.fs path with h' | ⟨hm, _, _⟩
          · rw [h', habs_path]
          · exact absurd hm hpath_made
        · intro p hp; exact (hsub_path p hp).2.2
      obtain ⟨_, hk2, hk3⟩ := bfFinish_keeps out.2.1.sp path made out.1
      have hk3old : (withSp out.2.1 (bfFinish out.2.1.sp path made out.1).2).old.roots = [] := by
        show out.2.1.old.roots = []; rw [hkb.old]; exact h0
      have hk3ff : (withSp out.2.1 (bfFinish out.2.1.sp path made out.1).2).sp.failFiles = [] := by
        show (bfFinish _ path made out.1).2.failFiles = []; rw [hk2]; exact hkb.ff
      have hk3fs : (withSp out.2.1 (bfFinish out.2.1.sp path made out.1).2).sp.failSubs = [] := by
        show (bfFinish _ path made out.1).2.failSubs = []; rw [hk3]; exact hkb.fsb
      have hkeep3 := run_keeps (k (bfFinish out.2.1.sp path made out.1).1) t (withSp out.2.1 (bfFinish out.2.1.sp path made out.1).2) hk3old hk3ff hk3fs
      have hfin3 : FirstKeeps (withSp out.2.1 (bfFinish out.2.1.sp path made out.1).2) fin := hkeep3.trans hfin
      have hfin2 : FirstKeeps out.2.1 fin := by
        have h23 : FirstKeeps out.2.1 (withSp out.2.1 (bfFinish out.2.1.sp path made out.1).2) := by
          refine ⟨rfl, hk3ff, hk3fs, ?_, ?_⟩
          · intro p hp
            show p ∈ (bfFinish _ path made out.1).2.claimedFiles
            rw [bfFinish_claimed]; exact hp
          · intro p b' m' hg _
            have hne : p ≠ path := by intro e; rw [e, hpath_out] at hg; cases hg
            rw [hs3fs, get_set_ne _ _ _ _ hne]; exact hg
        exact h23.trans hfin3
      have hpath_fin : fin.sp.fs.get path = some (.file c m) := by
        apply hfin3.files path c m
        · rw [hs3fs]; exact get_set_self _ _ _ hpne
        · show path ∈ (bfFinish _ path made out.1).2.claimedFiles
          rw [bfFinish_claimed]
          apply hkb.claimed
          show path ∈ sp1.claimedFiles
          rw [hsp1]; simp [setupState]
      have hshelf_path : s'.shelf.get path = some (.file c m) := by rw [hsup path (by simp), hpath_fin]
      -- replay of the nested records
      obtain ⟨s2', hrep2, hsame2, hR2⟩ := ihb' fin h0 hsame1 hv1 hoksubs hanti_sub habs1 hfin2 (by
        intro p hp
        show FS.get (s'.shelf.filter (fun x => !(made.contains x.1))) p = _
        rw [shelf_filter_made _ _ _ (hnot_made p (hsub_path p hp).2.1)]
        exact hsup p (by simp [hp]))
      -- the record of the call itself
      have hcmpB : cmpBuilt (withSp out.2.1 (bfFinish out.2.1.sp path made out.1).2) path cmp = View.cmpResult cmp c m := by
        unfold cmpBuilt; rw [hs3fs, get_set_self _ _ _ hpne]
      have hrec : bfRecord path cmp fname args kwargs out.2.2 out.1 (bfFinish out.2.1.sp path made out.1).1
          (withSp out.2.1 (bfFinish out.2.1.sp path made out.1).2) =
          Op.buildFile path cmp fname args kwargs out.2.2 j (View.cmpResult cmp c m) false false c := by
        unfold bfRecord
        rw [hj]
        simp only [hcmpB, hs3fs, get_set_self _ _ _ hpne]
      have hom : outputMatches s' path cmp (View.cmpResult cmp c m) = true := by
        unfold outputMatches cmpShelf
        simp only [hshelf_path, hpne, if_false]
        exact cmpResult_refl cmp c m
      have hdm' : Spec.dirsToMake (Spec.visible s'.sp) s'.sp.cacheFile s'.sp.inProg path.dropLast = .ok made := by
        rw [hsame.visible, hsame.cacheFile, hsame.inProg]; exact hdm
      have hlong : made.any Path.tooLong = false := by
        have hs := hsetup
        unfold bfSetup at hs
        simp only [show s.sp.claimedFiles.contains path = false from by simpa using hnc, hncf, hnd, hdm, Bool.false_eq_true, if_false,
          show s.sp.failFiles.contains path = false from by simp [hsame.ff]] at hs
        by_cases hl : made.any Path.tooLong = true
        · simp [hl] at hs
        · simpa using hl
      have hreplay : replayOp (bfRecord path cmp fname args kwargs out.2.2 out.1 (bfFinish out.2.1.sp path made out.1).1
          (withSp out.2.1 (bfFinish out.2.1.sp path made out.1).2)) s' = some (adopt s2' path made) := by
        rw [hrec, replayOp_bf s' path cmp fname args kwargs out.2.2 j _ c made (hv fname (by simp)) hom
          (by rw [hsame.claimedFiles]; exact hnc) (by rw [hsame.cacheFile]; exact hncf) (by rw [hsame.fs]; exact habs_path) hdm' hlong, hrep2]
      -- after the replayed call
      have hshelf2_path : s2'.shelf.get path = some (.file c m) := by
        rw [hR2.shelf path (fun p hp => (hsub_path p hp).2.2)]
        show FS.get (s'.shelf.filter (fun x => !(made.contains x.1))) path = _
        rw [shelf_filter_made _ _ _ hpath_made]; exact hshelf_path
      have hsame3 : Same (withSp out.2.1 (bfFinish out.2.1.sp path made out.1).2) (adopt s2' path made) := by
        refine ⟨?_, ?_, ?_, ?_, ?_, ?_, hk3ff, hsame2.ff', hk3fs, hsame2.fsb'⟩
        · show (adopt s2' path made).sp.fs = _
          rw [hs3fs]
          simp only [adopt, hshelf2_path, hpne, if_false]
          rw [hsame2.fs]
        · show s2'.sp.cacheFile = (bfFinish _ path made out.1).2.cacheFile
          rw [hfinOk]; exact hsame2.cacheFile
        · show s2'.sp.dirSize = (bfFinish _ path made out.1).2.dirSize
          rw [hfinOk]; exact hsame2.dirSize
        · show s2'.sp.claimedFiles = (bfFinish _ path made out.1).2.claimedFiles
          rw [hfinOk]; exact hsame2.claimedFiles
        · show s2'.sp.claimedSubs = (bfFinish _ path made out.1).2.claimedSubs
          rw [hfinOk]; exact hsame2.claimedSubs
        · show s2'.sp.inProg.erase path = (bfFinish _ path made out.1).2.inProg
          rw [hfinOk, hsame2.inProg]; rfl
      have hv3 : ∀ f ∈ fnamesDeepL (Impl.run (k (bfFinish out.2.1.sp path made out.1).1) t (withSp out.2.1 (bfFinish out.2.1.sp path made out.1).2)).2.2,
          versionOk (adopt s2' path made) f = true := fun f hf => by
        rw [versionOk_congr (b := s') (show (adopt s2' path made).old = s'.old from hR2.old) (show (adopt s2' path made).newVersions = s'.newVersions from hR2.nv)]
        exact hv f (by simp [hf])
      have hrest_path : ∀ p ∈ targetsDeepL (Impl.run (k (bfFinish out.2.1.sp path made out.1).1) t (withSp out.2.1 (bfFinish out.2.1.sp path made out.1).2)).2.2,
          p ≠ path ∧ ¬ p <+: path ∧ ¬ path <+: p := by
        intro p hp
        have := Antichain.ne_of_mem_append hanti (List.mem_append_right _ (List.mem_singleton.mpr rfl)) hp
        exact ⟨fun e => this.1 e.symm, this.2.2, this.2.1⟩
      have hrest_sub : ∀ p ∈ targetsDeepL (Impl.run (k (bfFinish out.2.1.sp path made out.1).1) t (withSp out.2.1 (bfFinish out.2.1.sp path made out.1).2)).2.2,
          ∀ p' ∈ targetsDeepL out.2.2, ¬ p <+: p' := by
        intro p hp p' hp'
        exact (Antichain.ne_of_mem_append hanti (List.mem_append_left _ hp') hp).2.2
      have habs3 : ∀ p ∈ targetsDeepL (Impl.run (k (bfFinish out.2.1.sp path made out.1).1) t (withSp out.2.1 (bfFinish out.2.1.sp path made out.1).2)).2.2,
          (withSp out.2.1 (bfFinish out.2.1.sp path made out.1).2).sp.fs.get p = none := by
        intro p hp
        apply bfFinish_absent _ _ _ _ _ (hrest_path p hp).1
        apply hab p h0 hk1ff hk1fs
        · show sp1.fs.get p = none
          rw [hsp1]
          exact setupState_absent _ _ _ _ (hrest_path p hp).1 (hnot_made p (hrest_path p hp).2.1) (habs p (by simp [hp]))
        · exact hrest_sub p hp
      obtain ⟨s'', hrep3, hsame4, hR3⟩ := ihk (bfFinish out.2.1.sp path made out.1).1 t (withSp out.2.1 (bfFinish out.2.1.sp path made out.1).2)
        (adopt s2' path made) fin hk3old hsame3 hv3 hokrest hanti.right habs3 hfin (by
          intro p hp
          show (s2'.shelf.erase path).get p = _
          rw [get_erase_ne _ _ _ (hrest_path p hp).1, hR2.shelf p (hrest_sub p hp)]
          show FS.get (s'.shelf.filter (fun x => !(made.contains x.1))) p = _
          rw [shelf_filter_made _ _ _ (hnot_made p (hrest_path p hp).2.1)]
          exact hsup p (by simp [hp]))
      refine ⟨s'', ?_, hsame4, ?_, ?_, ?_, ?_⟩
      · simp only [replayOps, hreplay]; exact hrep3
      · rw [hR3.old]; exact hR2.old
      · rw [hR3.nv]; exact hR2.nv
      · rw [hR3.inv]; exact hR2.inv
      · intro q hq
        have hq1 : ∀ p ∈ targetsDeepL out.2.2, ¬ q <+: p := fun p hp => hq p (by simp [hp])
        have hq2 : ¬ q <+: path := hq path (by simp)
        have hq3 : ∀ p ∈ targetsDeepL (Impl.run (k (bfFinish out.2.1.sp path made out.1).1) t (withSp out.2.1 (bfFinish out.2.1.sp path made out.1).2)).2.2, ¬ q <+: p :=
          fun p hp => hq p (by simp [hp])
        rw [hR3.shelf q hq3]
        show (s2'.shelf.erase path).get q = _
        rw [get_erase_ne _ _ _ (fun e => hq2 (by rw [e]; exact List.prefix_refl _)), hR2.shelf q hq1]
        show FS.get (s'.shelf.filter (fun x => !(made.contains x.1))) q = _
        exact shelf_filter_made _ _ _ (hnot_made q hq2)
  | subbuild fname args kwargs body k ihb ihk =>
    intro t s s' fin h0 hsame hv hok hanti habs hfin hsup
    have hfs : s.sp.failSubs.any (heq (subKey fname args kwargs)) = false := by simp [hsame.fsb]
    by_cases hc : s.sp.claimedSubs.any (heq (subKey fname args kwargs)) = true
    · exfalso
      simp only [Impl.run, hc, if_true] at hok
      simp [okDeepL, okDeep] at hok
    · have hc' : s.sp.claimedSubs.any (heq (subKey fname args kwargs)) = false := by simpa using hc
      have hlook := lookupSub_empty (subClaim s (subKey fname args kwargs)) h0 fname args kwargs
      rw [run_sb_miss' s t fname args kwargs body k hc' hfs hlook] at hv hok hanti habs hfin hsup ⊢
      simp only at hv hok hanti habs hfin hsup ⊢
      have hkb := run_keeps body none (Impl.subStart (subClaim s (subKey fname args kwargs)) ⟨fname, none, args, kwargs⟩) h0 hsame.ff hsame.fsb
      have hab := run_absent body none (Impl.subStart (subClaim s (subKey fname args kwargs)) ⟨fname, none, args, kwargs⟩)
      have ihb' := ihb none (Impl.subStart (subClaim s (subKey fname args kwargs)) ⟨fname, none, args, kwargs⟩) (subClaim s' (subKey fname args kwargs))
      generalize hout : Impl.run body none (Impl.subStart (subClaim s (subKey fname args kwargs)) ⟨fname, none, args, kwargs⟩) = out
        at hv hok hanti habs hfin hsup hkb hab ihb' ⊢
      rw [fnamesDeepL_cons, fnamesDeep_sbRecord] at hv
      rw [targetsDeepL_cons, targetsDeep_sbRecord] at hanti habs hsup ⊢
      rw [okDeepL_cons, Bool.and_eq_true] at hok
      obtain ⟨⟨j, hj⟩, hoksubs⟩ := okDeep_sbRecord _ _ _ _ _ hok.1
      have hokrest := hok.2
      have hsame1 : Same (Impl.subStart (subClaim s (subKey fname args kwargs)) ⟨fname, none, args, kwargs⟩) (subClaim s' (subKey fname args kwargs)) := by
        refine ⟨hsame.fs, hsame.cacheFile, hsame.dirSize, hsame.claimedFiles, ?_, hsame.inProg, hsame.ff, hsame.ff', hsame.fsb, hsame.fsb'⟩
        show subKey fname args kwargs :: s'.sp.claimedSubs = subKey fname args kwargs :: s.sp.claimedSubs
        rw [hsame.claimedSubs]
      have hv1 : ∀ f ∈ fnamesDeepL out.2.2, versionOk (subClaim s' (subKey fname args kwargs)) f = true := fun f hf => by
        exact (versionOk_congr (b := s') rfl rfl f).trans (hv f (by simp [hf]))
      have hkeep3 := run_keeps (k out.1) t out.2.1 (by rw [hkb.old]; exact h0) hkb.ff hkb.fsb
      have hfin2 : FirstKeeps out.2.1 fin := hkeep3.trans hfin
      obtain ⟨s2', hrep2, hsame2, hR2⟩ := ihb' fin h0 hsame1 hv1 hoksubs hanti.left
        (fun p hp => habs p (by simp [hp])) hfin2 (fun p hp => hsup p (by simp [hp]))
      have hreplay : replayOp (sbRecord fname args kwargs out.2.2 out.1) s' = some s2' := by
        rw [hj]
        show replayOp (.subbuild fname args kwargs out.2.2 j false false) s' = _
        rw [replayOp_sb s' fname args kwargs out.2.2 j (hv fname (by simp)) (by rw [hsame.claimedSubs]; exact hc'), hrep2]
      have hv3 : ∀ f ∈ fnamesDeepL (Impl.run (k out.1) t out.2.1).2.2, versionOk s2' f = true := fun f hf => by
        rw [versionOk_congr (b := s') hR2.old hR2.nv]; exact hv f (by simp [hf])
      have hrest_sub : ∀ p ∈ targetsDeepL (Impl.run (k out.1) t out.2.1).2.2, ∀ p' ∈ targetsDeepL out.2.2, ¬ p <+: p' := by
        intro p hp p' hp'
        exact (Antichain.ne_of_mem_append hanti hp' hp).2.2
      have habs3 : ∀ p ∈ targetsDeepL (Impl.run (k out.1) t out.2.1).2.2, out.2.1.sp.fs.get p = none := by
        intro p hp
        exact hab p h0 hsame.ff hsame.fsb (habs p (by simp [hp])) (hrest_sub p hp)
      obtain ⟨s'', hrep3, hsame4, hR3⟩ := ihk out.1 t out.2.1 s2' fin (by rw [hkb.old]; exact h0) hsame2 hv3 hokrest hanti.right habs3 hfin (by
        intro p hp
        rw [hR2.shelf p (hrest_sub p hp)]
        exact hsup p (by simp [hp]))
      refine ⟨s'', ?_, hsame4, ?_, ?_, ?_, ?_⟩
      · simp only [replayOps, hreplay]; exact hrep3
      · rw [hR3.old]; exact hR2.old
      · rw [hR3.nv]; exact hR2.nv
      · rw [hR3.inv]; exact hR2.inv
      · intro q hq
        rw [hR3.shelf q (fun p hp => hq p (by simp [hp])), hR2.shelf q (fun p hp => hq p (by simp [hp]))]
        rfl

theorem lookupFile_hit' (st st2 : KSt) (path : Path) (cmp : Cmp) (fname : String) (args kwargs : Json) (made : List Path)
    (subs : List Op) (ret cmpRes : Json) (content : String) (b : String) (m : Nat) (b2 : String) (m2 : Nat)
    (hold : st.old.getFile path = some (.buildFile path cmp fname args kwargs subs ret cmpRes false false content))
    (hver : versionOk st fname = true) (ha : isEqual args args = true) (hk : isEqual kwargs kwargs = true)
    (hne : path ≠ []) (hshelf : st.shelf.get path = some (.file b m))
    (hcr : isEqual cmpRes (View.cmpResult cmp b m) = true) (hrep : replayOps subs st = some st2)
    (hshelf2 : st2.shelf.get path = some (.file b2 m2)) :
    lookupFile st path cmp fname args kwargs made =
      some (.buildFile path cmp fname args kwargs subs ret (View.cmpResult cmp b2 m2) false false content, adopt st2 path made) := by
  unfold lookupFile
  rw [hold]
  have hcs : cmpShelf st path cmp = View.cmpResult cmp b m := by simp [cmpShelf, hshelf, hne]
  have hcs2 : cmpShelf st2 path cmp = View.cmpResult cmp b2 m2 := by simp [cmpShelf, hshelf2, hne]
  simp only [hver, ha, hk, outputMatches, hcs, hcr, decide_true, Bool.and_self, Bool.true_and, if_true, hrep, hcs2]
  have := cmpResult_ne_null cmp b2 m2
  cases hc : View.cmpResult cmp b2 m2 <;> first | exact absurd hc this | rfl

theorem lookupSub_hit (st st2 : KSt) (fname : String) (args kwargs : Json) (subs : List Op) (ret : Json)
    (hold : st.old.getSub (subKey fname args kwargs) = some (.subbuild fname args kwargs subs ret false false))
    (hver : versionOk st fname = true) (hrep : replayOps subs st = some st2) :
    lookupSub st fname args kwargs = some (.subbuild fname args kwargs subs ret false false, st2) := by
  unfold lookupSub
  rw [hold]
  simp only [hver, if_true, hrep]

/-- the arguments of the top-level calls compare equal to themselves (true of every sanitised value) -/
def argsRefl : Op → Bool
  | .buildFile _ _ _ a k _ _ _ _ _ _ => isEqual a a && isEqual k k
  | _ => true

/-- **C05 for arbitrary nesting (no failing call)**: if a first run (empty cache) of ANY program — calls nested to
    any depth — had every call succeed, then a second run of the same program in a state that looks the same,
    whose cache holds the records of the first and whose shelf still holds the outputs as the first build left them,
    invokes NO user function and returns the same value. -/
theorem nested_second_run (prog : Prog) : ∀ (t : Option Path) (s s' fin : KSt),
    s.old.roots = [] → Same s s' → (∀ f ∈ fnamesDeepL (Impl.run prog t s).2.2, versionOk s' f = true) →
    okDeepL (Impl.run prog t s).2.2 = true →
    (∀ o ∈ (Impl.run prog t s).2.2, cachedIn s'.old o ∧ argsRefl o = true) →
    Antichain (targetsDeepL (Impl.run prog t s).2.2) →
    (∀ p ∈ targetsDeepL (Impl.run prog t s).2.2, s.sp.fs.get p = none) →
    FirstKeeps (Impl.run prog t s).2.1 fin →
    (∀ p ∈ targetsDeepL (Impl.run prog t s).2.2, s'.shelf.get p = fin.sp.fs.get p) →
    (Impl.run prog t s').1 = (Impl.run prog t s).1 ∧
    (Impl.run prog t s').2.1.sp.invLog = s'.sp.invLog ∧
    Same (Impl.run prog t s).2.1 (Impl.run prog t s').2.1 ∧
    (Impl.run prog t s').2.1.old = s'.old ∧ (Impl.run prog t s').2.1.newVersions = s'.newVersions := by
  induction prog with
  | ret v =>
    intro t s s' fin _ hsame _ _ _ _ _ _ _
    simp only [Impl.run]
    split <;> (refine ⟨?_, ?_, hsame, ?_, ?_⟩ <;> first | rfl | trivial)
  | raise e =>
    intro t s s' fin _ hsame _ _ _ _ _ _ _
    simp only [Impl.run]
    refine ⟨?_, ?_, hsame, ?_, ?_⟩ <;> first | rfl | trivial
  | query q k ih =>
    intro t s s' fin h0 hsame hv hok hc hanti habs hfin hsup
    simp only [Impl.run] at hv hok hc hanti habs hfin hsup ⊢
    rw [hsame.visible, hsame.dirSize]
    cases hrv : View.recVal s.sp.dirSize (visible s.sp) q with
    | ok v =>
      simp only [hrv] at hv hok hc hanti habs hsup
      rw [fnamesDeepL_cons] at hv
      simp only [fnamesDeep, List.nil_append] at hv
      rw [targetsDeepL_cons] at hanti habs hsup
      simp only [targetsDeep, List.nil_append] at hanti habs hsup
      rw [okDeepL_cons] at hok
      simp only [okDeep, Bool.true_and] at hok
      exact ih _ t s s' fin h0 hsame hv hok (fun o ho => hc o (List.mem_cons_of_mem _ ho)) hanti habs hfin hsup
    | error e =>
      simp only [hrv] at hv hok hc hanti habs hsup
      rw [fnamesDeepL_cons] at hv
      simp only [fnamesDeep, List.nil_append] at hv
      rw [targetsDeepL_cons] at hanti habs hsup
      simp only [targetsDeep, List.nil_append] at hanti habs hsup
      rw [okDeepL_cons] at hok
      simp only [okDeep, Bool.true_and] at hok
      exact ih _ t s s' fin h0 hsame hv hok (fun o ho => hc o (List.mem_cons_of_mem _ ho)) hanti habs hfin hsup
  | write b mt k ih =>
    intro t s s' fin h0 hsame hv hok hc hanti habs hfin hsup
    simp only [Impl.run] at hv hok hc hanti habs hfin hsup ⊢
    cases t with
    | none => exact ih none s s' fin h0 hsame hv hok hc hanti habs hfin hsup
    | some p =>
      simp only at hv hok hc hanti habs hfin hsup ⊢
      have := ih (some p) (liftSp s fun sp => { sp with pending := (p, b, mt.getD sp.clock) :: sp.pending, clock := sp.clock + 1 })
        (liftSp s' fun sp => { sp with pending := (p, b, mt.getD sp.clock) :: sp.pending, clock := sp.clock + 1 }) fin h0
        ⟨hsame.fs, hsame.cacheFile, hsame.dirSize, hsame.claimedFiles, hsame.claimedSubs, hsame.inProg,
          hsame.ff, hsame.ff', hsame.fsb, hsame.fsb'⟩ (fun f hf => by exact (versionOk_congr (b := s') rfl rfl f).trans (hv f hf)) hok hc hanti habs hfin hsup
      exact this
  | buildFile path cmp fname args kwargs body k ihb ihk =>
    intro t s s' fin h0 hsame hv hok hc hanti habs hfin hsup
    cases hsetup : bfSetup s.sp path with
    | error e =>
      exfalso
      have := run_bf_setupfail s t path cmp fname args kwargs body k e hsetup
      cases hops : (Impl.run (.buildFile path cmp fname args kwargs body k) t s).2.2 with
      | nil => rw [hops] at this; cases this
      | cons o os =>
        rw [hops] at this hok
        simp only [List.head?_cons, Option.some.injEq] at this
        subst this
        simp [okDeepL, okDeep] at hok
    | ok x =>
      obtain ⟨sp1, made⟩ := x
      obtain ⟨hsp1, hnc, hncf, hnd, hdm, _⟩ := bfSetup_ok_fields s.sp sp1 path made hsetup
      have hpne : path ≠ [] := by intro e; subst e; simp [FS.isDir, get_nil] at hnd
      have hlook := lookupFile_empty (afterSetup s sp1 path made) h0 path cmp fname args kwargs made
      rw [run_bf_miss s t path cmp fname args kwargs body k sp1 made hsetup hlook] at hv hok hc hanti habs hfin hsup ⊢
      simp only at hv hok hc hanti habs hfin hsup ⊢
      have hk1ff : (missStart (afterSetup s sp1 path made) path ⟨fname, some path, args, kwargs⟩).sp.failFiles = [] := by
        show sp1.failFiles = []; rw [hsp1]; exact hsame.ff
      have hk1fs : (missStart (afterSetup s sp1 path made) path ⟨fname, some path, args, kwargs⟩).sp.failSubs = [] := by
        show sp1.failSubs = []; rw [hsp1]; exact hsame.fsb
      have hkb := run_keeps body (some path) (missStart (afterSetup s sp1 path made) path ⟨fname, some path, args, kwargs⟩) h0 hk1ff hk1fs
      have hab := run_absent body (some path) (missStart (afterSetup s sp1 path made) path ⟨fname, some path, args, kwargs⟩)
      have hrr := replay_run body (some path) (missStart (afterSetup s sp1 path made) path ⟨fname, some path, args, kwargs⟩)
        (afterSetup s' (setupState s'.sp path made) path made)
      generalize hout : Impl.run body (some path) (missStart (afterSetup s sp1 path made) path ⟨fname, some path, args, kwargs⟩) = out
        at hv hok hc hanti habs hfin hsup hkb hab hrr ⊢
      rw [fnamesDeepL_cons, fnamesDeep_bfRecord] at hv
      rw [targetsDeepL_cons, targetsDeep_bfRecord] at hanti habs hsup
      rw [okDeepL_cons, Bool.and_eq_true] at hok
      obtain ⟨⟨⟨j, hj⟩, hoksubs⟩, hokrest⟩ := And.intro (okDeep_bfRecord _ _ _ _ _ _ _ _ _ hok.1) hok.2
      obtain ⟨c, m, hpf, hrb, hfinOk⟩ := bfFinish_ok_inv out.2.1.sp path made out.1 j hj
      have hanti_sub : Antichain (targetsDeepL out.2.2) := hanti.left.left
      have hsub_path : ∀ p ∈ targetsDeepL out.2.2, p ≠ path ∧ ¬ p <+: path ∧ ¬ path <+: p := by
        intro p hp
        exact Antichain.ne_of_mem_append hanti.left hp (List.mem_singleton.mpr rfl)
      have hmade_pre : ∀ d ∈ made, d <+: path := fun d hd =>
        (Backups.dirsToMake_prefix _ _ _ _ _ _ rfl hdm d hd).trans (List.dropLast_prefix path)
      have hpath_made : path ∉ made := by
        intro hm
        have := Backups.dirsToMake_prefix _ _ _ _ _ _ rfl hdm path hm
        have hl := this.length_le
        simp [List.length_dropLast] at hl
        have : path.length ≠ 0 := by simpa using hpne
        omega
      have hnot_made : ∀ p, ¬ p <+: path → p ∉ made := fun p hp hm => hp (hmade_pre p hm)
      have habs_path : s.sp.fs.get path = none := habs path (by simp)
      have hk1fs' : sp1.fs = Spec.mkdirs s.sp.fs made := by
        rw [hsp1]; unfold setupState; simp only
        have : (Spec.mkdirs s.sp.fs made).get path = none := by
          rcases Rollback.mkdirs_get_mem made s.sp.fs path with h' | ⟨hm, _, _⟩
          · rw [h', habs_path]
          · exact absurd hm hpath_made
        simp [FS.isFile, this]
      -- second run: the same set-up
      have hsetup' := bfSetup_same hsame path sp1 made hsetup
      have hsame1 : Same (missStart (afterSetup s sp1 path made) path ⟨fname, some path, args, kwargs⟩)
          (afterSetup s' (setupState s'.sp path made) path made) := by
        refine ⟨?_, ?_, ?_, ?_, ?_, ?_, hk1ff, hsame.ff', hk1fs, hsame.fsb'⟩
        · show (setupState s'.sp path made).fs = sp1.fs
          rw [hsp1]; exact setupState_fs _ _ path made hsame.fs
        · show s'.sp.cacheFile = sp1.cacheFile
          rw [hsp1]; exact hsame.cacheFile
        · show s'.sp.dirSize = sp1.dirSize
          rw [hsp1]; exact hsame.dirSize
        · show path :: s'.sp.claimedFiles = sp1.claimedFiles
          rw [hsp1, hsame.claimedFiles]; rfl
        · show s'.sp.claimedSubs = sp1.claimedSubs
          rw [hsp1]; exact hsame.claimedSubs
        · show path :: s'.sp.inProg = sp1.inProg
          rw [hsp1, hsame.inProg]; rfl
      have hv1 : ∀ f ∈ fname :: fnamesDeepL out.2.2, versionOk (afterSetup s' (setupState s'.sp path made) path made) f = true := fun f hf => by
        exact (versionOk_congr (b := s') rfl rfl f).trans (hv f (by simp at hf; rcases hf with hf | hf <;> simp [hf]))
      have habs1 : ∀ p ∈ targetsDeepL out.2.2, (missStart (afterSetup s sp1 path made) path ⟨fname, some path, args, kwargs⟩).sp.fs.get p = none := by
        intro p hp
        show sp1.fs.get p = none
        rw [hsp1]
        exact setupState_absent _ _ _ _ (hsub_path p hp).1 (hnot_made p (hsub_path p hp).2.1) (habs p (by simp [hp]))
      have hs3fs : (withSp out.2.1 (bfFinish out.2.1.sp path made out.1).2).sp.fs = out.2.1.sp.fs.set path (.file c m) := by
        show (bfFinish out.2.1.sp path made out.1).2.fs = _
        rw [hfinOk]; rfl
      have hpath_out : out.2.1.sp.fs.get path = none := by
        apply hab path h0 hk1ff hk1fs
        · show sp1.fs.get path = none
          rw [hk1fs']
          rcases Rollback.mkdirs_get_mem made s.sp.fs path with h' | ⟨hm, _, _⟩
          · rw [h', habs_path]
          · exact absurd hm hpath_made
        · intro p hp; exact (hsub_path p hp).2.2
      obtain ⟨_, hk2, hk3⟩ := bfFinish_keeps out.2.1.sp path made out.1
      have hk3old : (withSp out.2.1 (bfFinish out.2.1.sp path made out.1).2).old.roots = [] := by
        show out.2.1.old.roots = []; rw [hkb.old]; exact h0
      have hk3ff : (withSp out.2.1 (bfFinish out.2.1.sp path made out.1).2).sp.failFiles = [] := by
        show (bfFinish _ path made out.1).2.failFiles = []; rw [hk2]; exact hkb.ff
      have hk3fs : (withSp out.2.1 (bfFinish out.2.1.sp path made out.1).2).sp.failSubs = [] := by
        show (bfFinish _ path made out.1).2.failSubs = []; rw [hk3]; exact hkb.fsb
      have hkeep3 := run_keeps (k (bfFinish out.2.1.sp path made out.1).1) t (withSp out.2.1 (bfFinish out.2.1.sp path made out.1).2) hk3old hk3ff hk3fs
      have hfin3 : FirstKeeps (withSp out.2.1 (bfFinish out.2.1.sp path made out.1).2) fin := hkeep3.trans hfin
      have hfin2 : FirstKeeps out.2.1 fin := by
        have h23 : FirstKeeps out.2.1 (withSp out.2.1 (bfFinish out.2.1.sp path made out.1).2) := by
          refine ⟨rfl, hk3ff, hk3fs, ?_, ?_⟩
          · intro p hp
            show p ∈ (bfFinish _ path made out.1).2.claimedFiles
            rw [bfFinish_claimed]; exact hp
          · intro p b' m' hg _
            have hne : p ≠ path := by intro e; rw [e, hpath_out] at hg; cases hg
            rw [hs3fs, get_set_ne _ _ _ _ hne]; exact hg
        exact h23.trans hfin3
      have hpath_fin : fin.sp.fs.get path = some (.file c m) := by
        apply hfin3.files path c m
        · rw [hs3fs]; exact get_set_self _ _ _ hpne
        · show path ∈ (bfFinish _ path made out.1).2.claimedFiles
          rw [bfFinish_claimed]
          apply hkb.claimed
          show path ∈ sp1.claimedFiles
          rw [hsp1]; simp [setupState]
      have hshelf_path : s'.shelf.get path = some (.file c m) := by rw [hsup path (by simp), hpath_fin]
      have hcw : ∀ q, ¬ path <+: q ∨ q = path → q ∉ made →
          (afterSetup s' (setupState s'.sp path made) path made).shelf.get q = s'.shelf.get q := by
        intro q hq hqm
        show (clearWay s'.shelf path made).get q = _
        apply clearWay_get
        · rcases hq with hq | hq
          · simp [properAncestor, hq]
          · simp [properAncestor, hq]
        · simpa using hqm
      have hshelf1_path : (afterSetup s' (setupState s'.sp path made) path made).shelf.get path = some (.file c m) := by
        rw [hcw path (Or.inr rfl) hpath_made]; exact hshelf_path
      -- replay of the nested records inside the look-up
      obtain ⟨s2', hrep2, hsame2, hR2⟩ := hrr fin h0 hsame1 (fun f hf => hv1 f (List.mem_cons_of_mem _ hf)) hoksubs hanti_sub habs1 hfin2 (by
        intro p hp
        rw [hcw p (Or.inl (hsub_path p hp).2.2) (hnot_made p (hsub_path p hp).2.1)]
        exact hsup p (by simp [hp]))
      have hshelf2_path : s2'.shelf.get path = some (.file c m) := by
        rw [hR2.shelf path (fun p hp => (hsub_path p hp).2.2)]; exact hshelf1_path
      have hcmpB : cmpBuilt (withSp out.2.1 (bfFinish out.2.1.sp path made out.1).2) path cmp = View.cmpResult cmp c m := by
        unfold cmpBuilt; rw [hs3fs, get_set_self _ _ _ hpne]
      have hrec : bfRecord path cmp fname args kwargs out.2.2 out.1 (bfFinish out.2.1.sp path made out.1).1
          (withSp out.2.1 (bfFinish out.2.1.sp path made out.1).2) =
          Op.buildFile path cmp fname args kwargs out.2.2 j (View.cmpResult cmp c m) false false c := by
        unfold bfRecord
        rw [hj]
        simp only [hcmpB, hs3fs, get_set_self _ _ _ hpne]
      rw [hrec] at hc
      obtain ⟨hold', hargs⟩ := hc _ (List.mem_cons_self ..)
      simp only [cachedIn] at hold'
      simp only [argsRefl, Bool.and_eq_true] at hargs
      have hlook' := lookupFile_hit' (afterSetup s' (setupState s'.sp path made) path made) s2' path cmp fname args kwargs made
        out.2.2 j (View.cmpResult cmp c m) c c m c m hold' (hv1 fname (List.mem_cons_self ..)) hargs.1 hargs.2 hpne hshelf1_path (cmpResult_refl cmp c m) hrep2 hshelf2_path
      rw [run_bf_hit s' t path cmp fname args kwargs body k _ made _ _ hsetup' hlook']
      simp only [opRet]
      have hsame3 : Same (withSp out.2.1 (bfFinish out.2.1.sp path made out.1).2) (adopt s2' path made) := by
        refine ⟨?_, ?_, ?_, ?_, ?_, ?_, hk3ff, hsame2.ff', hk3fs, hsame2.fsb'⟩
        · show (adopt s2' path made).sp.fs = _
          rw [hs3fs]
          simp only [adopt, hshelf2_path, hpne, if_false]
          rw [hsame2.fs]
        · show s2'.sp.cacheFile = (bfFinish _ path made out.1).2.cacheFile
          rw [hfinOk]; exact hsame2.cacheFile
        · show s2'.sp.dirSize = (bfFinish _ path made out.1).2.dirSize
          rw [hfinOk]; exact hsame2.dirSize
        · show s2'.sp.claimedFiles = (bfFinish _ path made out.1).2.claimedFiles
          rw [hfinOk]; exact hsame2.claimedFiles
        · show s2'.sp.claimedSubs = (bfFinish _ path made out.1).2.claimedSubs
          rw [hfinOk]; exact hsame2.claimedSubs
        · show s2'.sp.inProg.erase path = (bfFinish _ path made out.1).2.inProg
          rw [hfinOk, hsame2.inProg]; rfl
      have hold3 : (adopt s2' path made).old = s'.old := hR2.old
      have hnv3 : (adopt s2' path made).newVersions = s'.newVersions := hR2.nv
      have hv3 : ∀ f ∈ fnamesDeepL (Impl.run (k (bfFinish out.2.1.sp path made out.1).1) t (withSp out.2.1 (bfFinish out.2.1.sp path made out.1).2)).2.2,
          versionOk (adopt s2' path made) f = true := fun f hf => by
        rw [versionOk_congr (b := s') hold3 hnv3]; exact hv f (by simp [hf])
      have hrest_path : ∀ p ∈ targetsDeepL (Impl.run (k (bfFinish out.2.1.sp path made out.1).1) t (withSp out.2.1 (bfFinish out.2.1.sp path made out.1).2)).2.2,
          p ≠ path ∧ ¬ p <+: path ∧ ¬ path <+: p := by
        intro p hp
        have := Antichain.ne_of_mem_append hanti (List.mem_append_right _ (List.mem_singleton.mpr rfl)) hp
        exact ⟨fun e => this.1 e.symm, this.2.2, this.2.1⟩
      have hrest_sub : ∀ p ∈ targetsDeepL (Impl.run (k (bfFinish out.2.1.sp path made out.1).1) t (withSp out.2.1 (bfFinish out.2.1.sp path made out.1).2)).2.2,
          ∀ p' ∈ targetsDeepL out.2.2, ¬ p <+: p' := by
        intro p hp p' hp'
        exact (Antichain.ne_of_mem_append hanti (List.mem_append_left _ hp') hp).2.2
      have habs3 : ∀ p ∈ targetsDeepL (Impl.run (k (bfFinish out.2.1.sp path made out.1).1) t (withSp out.2.1 (bfFinish out.2.1.sp path made out.1).2)).2.2,
          (withSp out.2.1 (bfFinish out.2.1.sp path made out.1).2).sp.fs.get p = none := by
        intro p hp
        apply bfFinish_absent _ _ _ _ _ (hrest_path p hp).1
        apply hab p h0 hk1ff hk1fs
        · show sp1.fs.get p = none
          rw [hsp1]
          exact setupState_absent _ _ _ _ (hrest_path p hp).1 (hnot_made p (hrest_path p hp).2.1) (habs p (by simp [hp]))
        · exact hrest_sub p hp
      generalize hr : (bfFinish out.2.1.sp path made out.1).1 = r at *
      subst hj
      have hih := ihk (.ok j) t (withSp out.2.1 (bfFinish out.2.1.sp path made out.1).2) (adopt s2' path made) fin
        hk3old hsame3 hv3 hokrest
        (fun o ho => by rw [hold3]; exact hc o (List.mem_cons_of_mem _ ho)) hanti.right
        habs3 hfin (by
          intro p hp
          show (s2'.shelf.erase path).get p = _
          rw [get_erase_ne _ _ _ (hrest_path p hp).1, hR2.shelf p (hrest_sub p hp),
            hcw p (Or.inl (hrest_path p hp).2.2) (hnot_made p (hrest_path p hp).2.1)]
          exact hsup p (by simp [hp]))
      obtain ⟨i1, i2, i3, i4, i5⟩ := hih
      refine ⟨i1, ?_, i3, ?_, ?_⟩
      · rw [i2]
        show s2'.sp.invLog = s'.sp.invLog
        exact hR2.inv
      · rw [i4]; exact hold3
      · rw [i5]; exact hnv3
  | subbuild fname args kwargs body k ihb ihk =>
    intro t s s' fin h0 hsame hv hok hc hanti habs hfin hsup
    have hfs : s.sp.failSubs.any (heq (subKey fname args kwargs)) = false := by simp [hsame.fsb]
    have hfs' : s'.sp.failSubs.any (heq (subKey fname args kwargs)) = false := by simp [hsame.fsb']
    by_cases hcl : s.sp.claimedSubs.any (heq (subKey fname args kwargs)) = true
    · exfalso
      simp only [Impl.run, hcl, if_true] at hok
      simp [okDeepL, okDeep] at hok
    · have hcl0 : s.sp.claimedSubs.any (heq (subKey fname args kwargs)) = false := by simpa using hcl
      have hcl' : s'.sp.claimedSubs.any (heq (subKey fname args kwargs)) = false := by rw [hsame.claimedSubs]; exact hcl0
      have hlook := lookupSub_empty (subClaim s (subKey fname args kwargs)) h0 fname args kwargs
      rw [run_sb_miss' s t fname args kwargs body k hcl0 hfs hlook] at hv hok hc hanti habs hfin hsup ⊢
      simp only at hv hok hc hanti habs hfin hsup ⊢
      have hkb := run_keeps body none (Impl.subStart (subClaim s (subKey fname args kwargs)) ⟨fname, none, args, kwargs⟩) h0 hsame.ff hsame.fsb
      have hab := run_absent body none (Impl.subStart (subClaim s (subKey fname args kwargs)) ⟨fname, none, args, kwargs⟩)
      have hrr := replay_run body none (Impl.subStart (subClaim s (subKey fname args kwargs)) ⟨fname, none, args, kwargs⟩) (subClaim s' (subKey fname args kwargs))
      generalize hout : Impl.run body none (Impl.subStart (subClaim s (subKey fname args kwargs)) ⟨fname, none, args, kwargs⟩) = out
        at hv hok hc hanti habs hfin hsup hkb hab hrr ⊢
      rw [fnamesDeepL_cons, fnamesDeep_sbRecord] at hv
      rw [targetsDeepL_cons, targetsDeep_sbRecord] at hanti habs hsup
      rw [okDeepL_cons, Bool.and_eq_true] at hok
      obtain ⟨⟨j, hj⟩, hoksubs⟩ := okDeep_sbRecord _ _ _ _ _ hok.1
      have hokrest := hok.2
      have hsame1 : Same (Impl.subStart (subClaim s (subKey fname args kwargs)) ⟨fname, none, args, kwargs⟩) (subClaim s' (subKey fname args kwargs)) := by
        refine ⟨hsame.fs, hsame.cacheFile, hsame.dirSize, hsame.claimedFiles, ?_, hsame.inProg, hsame.ff, hsame.ff', hsame.fsb, hsame.fsb'⟩
        show subKey fname args kwargs :: s'.sp.claimedSubs = subKey fname args kwargs :: s.sp.claimedSubs
        rw [hsame.claimedSubs]
      have hv1 : ∀ f ∈ fname :: fnamesDeepL out.2.2, versionOk (subClaim s' (subKey fname args kwargs)) f = true := fun f hf => by
        exact (versionOk_congr (b := s') rfl rfl f).trans (hv f (by simp at hf; rcases hf with hf | hf <;> simp [hf]))
      have hkeep3 := run_keeps (k out.1) t out.2.1 (by rw [hkb.old]; exact h0) hkb.ff hkb.fsb
      have hfin2 : FirstKeeps out.2.1 fin := hkeep3.trans hfin
      obtain ⟨s2', hrep2, hsame2, hR2⟩ := hrr fin h0 hsame1 (fun f hf => hv1 f (List.mem_cons_of_mem _ hf)) hoksubs hanti.left
        (fun p hp => habs p (by simp [hp])) hfin2 (fun p hp => hsup p (by simp [hp]))
      obtain ⟨r0, s20, subs0⟩ := out
      simp only at hv hv1 hok hc hanti habs hfin hsup hkb hab hrr hj hoksubs hokrest hkeep3 hfin2 hrep2 hsame2 hR2 ⊢
      subst hj
      obtain ⟨hold', _⟩ := hc _ (List.mem_cons_self ..)
      simp only [sbRecord, cachedIn] at hold'
      have hlook' := lookupSub_hit (subClaim s' (subKey fname args kwargs)) s2' fname args kwargs subs0 j hold' (hv1 fname (List.mem_cons_self ..)) hrep2
      rw [run_sb_hit s' t fname args kwargs body k _ _ hcl' hfs' hlook']
      simp only [opRet]
      have hv3 : ∀ f ∈ fnamesDeepL (Impl.run (k (.ok j)) t s20).2.2, versionOk s2' f = true := fun f hf => by
        rw [versionOk_congr (b := s') hR2.old hR2.nv]; exact hv f (by simp [hf])
      have hrest_sub : ∀ p ∈ targetsDeepL (Impl.run (k (.ok j)) t s20).2.2, ∀ p' ∈ targetsDeepL subs0, ¬ p <+: p' := by
        intro p hp p' hp'
        exact (Antichain.ne_of_mem_append hanti hp' hp).2.2
      have habs3 : ∀ p ∈ targetsDeepL (Impl.run (k (.ok j)) t s20).2.2, s20.sp.fs.get p = none := by
        intro p hp
        exact hab p h0 hsame.ff hsame.fsb (habs p (by simp [hp])) (hrest_sub p hp)
      have hih := ihk (.ok j) t s20 s2' fin (by rw [hkb.old]; exact h0) hsame2 hv3 hokrest
        (fun o ho => by rw [hR2.old]; exact hc o (List.mem_cons_of_mem _ ho)) hanti.right habs3 hfin (by
          intro p hp
          rw [hR2.shelf p (hrest_sub p hp)]
          exact hsup p (by simp [hp]))
      obtain ⟨i1, i2, i3, i4, i5⟩ := hih
      refine ⟨i1, ?_, i3, ?_, ?_⟩
      · rw [i2]; exact hR2.inv
      · rw [i4]; exact hR2.old
      · rw [i5]; exact hR2.nv

/-! ### non-vacuity: a subbuild whose function calls `build_file` (nesting depth 2); first run from an empty state,
    second run with the records in the cache and the output on the shelf -/

def nRoot : Prog := .subbuild "g" .null .null exRoot (fun _ => .ret .null)
def nOps : List Op := (Impl.run nRoot none fxS).2.2
def nS' : KSt := { sp := { fs := [], cacheFile := ["c"], dirSize := 4096, clock := 99 },
                   old := { buildName := "n", roots := nOps }, shelf := [(["x"], .file "o" 7)] }

set_option maxRecDepth 4000 in
theorem n_first : (Impl.run nRoot none fxS).2.2 =
      [.subbuild "g" .null .null [.buildFile ["x"] .hash "f" .null .null [] .null (.str "sha:o") false false "o"] .null false false] ∧
    (Impl.run nRoot none fxS).2.1.sp.fs.get ["x"] = some (.file "o" 7) ∧ (Impl.run nRoot none fxS).2.1.sp.invLog.length = 2 := by
  have h : dirsToMake (visible fxS.sp) fxS.sp.cacheFile fxS.sp.inProg [] = .ok [] := by rw [dirsToMake]; simp
  simp [nRoot, exRoot, exBody, Impl.run, bfSetup, fxS, FS.isDir, FS.get, lookupFile, lookupSub, CacheRec.getFile, CacheRec.getSub, registeredL,
    afterSetup, missStart, liftSp, sanitize, bfFinish, pendingFind, withSp, cmpBuilt, View.cmpResult, setupState, mkdirs,
    FS.isFile, FS.set, FS.erase, clearWay, subClaim, Impl.subStart, Spec.visible] at h ⊢
  rw [h]
  simp [pendingFind, FS.set, FS.erase, FS.get, cmpBuilt, View.cmpResult, withSp]

example : (Impl.run nRoot none nS').2.1.sp.invLog = [] ∧ (Impl.run nRoot none fxS).2.1.sp.invLog.length = 2 := by
  obtain ⟨hops, hfs, hlen⟩ := n_first
  have hkeep := run_keeps nRoot none fxS rfl rfl rfl
  have h := nested_second_run nRoot none fxS nS' (Impl.run nRoot none fxS).2.1 rfl
    ⟨rfl, rfl, rfl, rfl, rfl, rfl, rfl, rfl, rfl, rfl⟩
    (fun f _ => by simp [versionOk, nS', verOf, isEqual])
    (by rw [hops]; simp [okDeepL, okDeep])
    (by rw [hops]; intro o ho; simp at ho; subst ho
        simp [cachedIn, argsRefl, nS', nOps, CacheRec.getSub, hops, registeredL, registered, Op.isSubWith, FB.heq, FB.heqL, subKey, toH, toHL, Num.eq, isEqual])
    (by rw [hops]; simp [targetsDeepL, targetsDeep, Antichain])
    (by rw [hops]; intro p hp; simp [targetsDeepL, targetsDeep] at hp; subst hp; simp [fxS, FS.get])
    (FirstKeeps.refl _ hkeep.ff hkeep.fsb)
    (by
      rw [hops]; intro p hp; simp [targetsDeepL, targetsDeep] at hp; subst hp
      rw [hfs]; simp [nS', FS.get])
  exact ⟨h.2.1, hlen⟩


/-- **C06, the other direction** ("operations that do not depend on it stay cached"): a change of the version of a
    function that occurs nowhere in the record tree of the first run invalidates nothing — the second run still
    invokes no user function.  (`nested_second_run` asks for equal versions only of the functions in `fnamesDeepL`.) -/
theorem C06_unrelated_versions_stay_cached (prog : Prog) (t : Option Path) (s s' fin : KSt)
    (h0 : s.old.roots = []) (hsame : Same s s')
    (hv : ∀ f ∈ fnamesDeepL (Impl.run prog t s).2.2, isEqual (verOf s'.old.versions f) (verOf s'.newVersions f) = true)
    (hok : okDeepL (Impl.run prog t s).2.2 = true)
    (hc : ∀ o ∈ (Impl.run prog t s).2.2, cachedIn s'.old o ∧ argsRefl o = true)
    (hanti : Antichain (targetsDeepL (Impl.run prog t s).2.2))
    (habs : ∀ p ∈ targetsDeepL (Impl.run prog t s).2.2, s.sp.fs.get p = none)
    (hfin : FirstKeeps (Impl.run prog t s).2.1 fin)
    (hsup : ∀ p ∈ targetsDeepL (Impl.run prog t s).2.2, s'.shelf.get p = fin.sp.fs.get p) :
    (Impl.run prog t s').1 = (Impl.run prog t s).1 ∧ (Impl.run prog t s').2.1.sp.invLog = s'.sp.invLog :=
  let h := nested_second_run prog t s s' fin h0 hsame hv hok hc hanti habs hfin hsup
  ⟨h.1, h.2.1⟩

/-- the same second run as above, but the build was given a new version for a function `h` the program never calls -/
def nS'' : KSt := { nS' with old := { nS'.old with versions := [("h", .num (.int 1))] }, newVersions := [("h", .num (.int 2))] }

example : (Impl.run nRoot none nS'').2.1.sp.invLog = [] ∧ versionOk nS'' "h" = false := by
  obtain ⟨hops, hfs, hlen⟩ := n_first
  have hkeep := run_keeps nRoot none fxS rfl rfl rfl
  have h := C06_unrelated_versions_stay_cached nRoot none fxS nS'' (Impl.run nRoot none fxS).2.1 rfl
    ⟨rfl, rfl, rfl, rfl, rfl, rfl, rfl, rfl, rfl, rfl⟩
    (by rw [hops]; intro f hf; simp [fnamesDeepL, fnamesDeep] at hf; rcases hf with rfl | rfl <;> simp [nS'', nS', verOf, isEqual])
    (by rw [hops]; simp [okDeepL, okDeep])
    (by rw [hops]; intro o ho; simp at ho; subst ho
        simp [cachedIn, argsRefl, nS'', nS', nOps, CacheRec.getSub, hops, registeredL, registered, Op.isSubWith, FB.heq, FB.heqL, subKey, toH, toHL, Num.eq, isEqual])
    (by rw [hops]; simp [targetsDeepL, targetsDeep, Antichain])
    (by rw [hops]; intro p hp; simp [targetsDeepL, targetsDeep] at hp; subst hp; simp [fxS, FS.get])
    (FirstKeeps.refl _ hkeep.ff hkeep.fsb)
    (by
      rw [hops]; intro p hp; simp [targetsDeepL, targetsDeep] at hp; subst hp
      rw [hfs]; simp [nS'', nS', FS.get])
  exact ⟨h.2, by simp [versionOk, nS'', nS', verOf, isEqual, Num.eq, Num.key]⟩

end FB
