/-
  C04 — the scan of `build_dirs.py` decides what the property says.

  "Every query answers as if … the directories that build had created and that are now empty were already gone."
  `Gone` states that declaratively: an old directory is gone iff it is absent, or it is a directory every entry
  of which is an old output that is (still) not a directory, or an old directory that is itself gone.

  `isRemoved_spec`: on a fixed tree, starting from `BuildDirs(old_dirs, old_files)` and through any sequence of
  `is_removed_norm_case` / `handle_norm_cased_dir_exists` calls (the latter for paths that exist and are not
  gone — what `SimpleOperationExecutor.is_dir/is_file` pass), the memoised recursive scan
  (`_check_maybe_removed_dir`, with its three caches) answers `true` exactly for the old directories that are
  `Gone`, and keeps the invariant `QInv` that makes the caches sound.  This is the phase of a build before the
  first `build_file`; the reservation counts of the later phase are covered by `run_inv` and the tie only.
-/
import FB.BuildDirs
import FB.Props.BuildDirsInv
import FB.Lemmas.Sim
namespace FB
namespace BuildDirs
open FS

/-- parents of bound paths are directories -/
def TreeWF (fs : FS) : Prop := ∀ p, p ≠ [] → fs.get p ≠ none → fs.isDir p.dropLast = true

theorem mem_listdir (fs : FS) (d : Path) (n : String) : n ∈ fs.listdir d ↔ fs.get (d ++ [n]) ≠ none := by
  unfold FS.listdir
  rw [mem_sortStrs', FB.mem_childNames]
  constructor
  · rintro ⟨e, he⟩ hn
    have := get_isSome_of_mem fs _ e he
    rw [hn] at this; cases this
  · intro hne
    cases hg : fs.get (d ++ [n]) with
    | none => exact absurd hg hne
    | some e => exact ⟨e, mem_of_get fs _ e (by simp) hg⟩

/-- `os.listdir(d)` fails with ENOTDIR because a proper ancestor of `d` is a regular file -/
def underFile (fs : FS) (d : Path) : Bool := (List.range d.length).any (fun k => fs.isFile (d.take k))

theorem underFile_iff (fs : FS) (d : Path) : underFile fs d = true ↔ ∃ g, g <+: d ∧ g ≠ d ∧ fs.isFile g = true := by
  unfold underFile
  simp only [List.any_eq_true, List.mem_range]
  constructor
  · rintro ⟨k, hk, hf⟩
    refine ⟨d.take k, List.take_prefix _ _, ?_, hf⟩
    intro e
    have := congrArg List.length e
    simp at this; omega
  · rintro ⟨g, hp, hne, hf⟩
    refine ⟨g.length, ?_, ?_⟩
    · have := hp.length_le
      rcases Nat.lt_or_ge g.length d.length with h | h
      · exact h
      · exact absurd (hp.eq_of_length_le h) hne
    · rw [List.prefix_iff_eq_take.mp hp] at hf; exact hf

/-- an old directory that is virtually gone -/
inductive Gone (fs : FS) (oldDirs oldFiles : List Path) : Path → Prop
  | absent (d : Path) : underFile fs d = false → fs.get d = none → Gone fs oldDirs oldFiles d
  | empty (d : Path) : underFile fs d = false → fs.get d = some .dir →
      (∀ n, n ∈ fs.listdir d → (d ++ [n]) ∈ oldDirs → Gone fs oldDirs oldFiles (d ++ [n])) →
      (∀ n, n ∈ fs.listdir d → (d ++ [n]) ∉ oldDirs → (d ++ [n]) ∈ oldFiles ∧ fs.isDir (d ++ [n]) = false) →
      Gone fs oldDirs oldFiles d

variable (fs : FS) (oldDirs oldFiles : List Path)

/-- an entry that does not keep its directory alive -/
def GoneChild (x : Path) : Prop :=
  (x ∈ oldDirs ∧ Gone fs oldDirs oldFiles x) ∨ (x ∉ oldDirs ∧ x ∈ oldFiles ∧ fs.isDir x = false)

theorem Gone.not_file {d : Path} (h : Gone fs oldDirs oldFiles d) : fs.isFile d = false := by
  cases h with
  | absent _ _ hg => simp [FS.isFile, hg]
  | empty _ _ hg _ _ => simp [FS.isFile, hg]

theorem Gone.not_underFile {d : Path} (h : Gone fs oldDirs oldFiles d) : underFile fs d = false := by
  cases h with
  | absent _ h _ => exact h
  | empty _ h _ _ _ => exact h

/-- the entries of a gone directory are gone -/
theorem Gone.children (hwf : TreeWF fs) {d : Path} (h : Gone fs oldDirs oldFiles d) (n : String)
    (hn : fs.get (d ++ [n]) ≠ none) : GoneChild fs oldDirs oldFiles (d ++ [n]) := by
  cases h with
  | absent _ _ hg =>
    have := hwf (d ++ [n]) (by simp) hn
    simp [FS.isDir, hg] at this
  | empty _ _ _ hc1 hc2 =>
    have hm := (mem_listdir fs d n).mpr hn
    by_cases ho : (d ++ [n]) ∈ oldDirs
    · exact Or.inl ⟨ho, hc1 n hm ho⟩
    · exact Or.inr ⟨ho, hc2 n hm ho⟩

/-- … and so is everything below it that exists -/
theorem Gone.descend (hwf : TreeWF fs) : ∀ (k : Nat) (d x : Path), Gone fs oldDirs oldFiles d → d <+: x → x.length = d.length + k + 1 →
    fs.get x ≠ none → GoneChild fs oldDirs oldFiles x := by
  intro k
  induction k with
  | zero =>
    intro d x hg hp hl hx
    obtain ⟨t, rfl⟩ := hp
    have : t.length = 1 := by simp at hl; omega
    obtain ⟨n, rfl⟩ := List.length_eq_one_iff.mp this
    exact hg.children fs oldDirs oldFiles hwf n hx
  | succ k ih =>
    intro d x hg hp hl hx
    obtain ⟨t, rfl⟩ := hp
    cases t with
    | nil => simp at hl; omega
    | cons n r =>
      -- the child on the way to `x` exists and is a directory
      have hx' : d ++ n :: r = (d ++ [n]) ++ r := by simp
      have hrne : r ≠ [] := by intro e; subst e; simp at hl
      have hex : ∀ (m : Nat) (r : List String), r.length = m → fs.get ((d ++ [n]) ++ r) ≠ none → r ≠ [] → fs.isDir (d ++ [n]) = true := by
        intro m
        induction m with
        | zero => intro r h0 _ hne; exact absurd (List.length_eq_zero_iff.mp h0) hne
        | succ m ihm =>
          intro r hlr hgr _
          have hd := hwf ((d ++ [n]) ++ r) (by simp) hgr
          have hr' : r ≠ [] := by intro e; subst e; simp at hlr
          rw [List.dropLast_append_of_ne_nil hr'] at hd
          by_cases hdl : r.dropLast = []
          · rw [hdl, List.append_nil] at hd; exact hd
          · exact ihm r.dropLast (by simp [hlr]) (by intro hnone; rw [FS.isDir, hnone] at hd; cases hd) hdl
      rw [hx'] at hx
      have hdir := hex r.length r rfl hx hrne
      have hc := hg.children fs oldDirs oldFiles hwf n (by intro hnone; rw [FS.isDir, hnone] at hdir; cases hdir)
      rcases hc with ⟨_, hgc⟩ | ⟨_, _, hnd⟩
      · rw [hx']
        exact ih (d ++ [n]) ((d ++ [n]) ++ r) hgc (List.prefix_append _ _) (by simp at hl ⊢; omega) hx
      · rw [hdir] at hnd; cases hnd


/-- the caches of `BuildDirs` are sound with respect to `Gone`; the directories in `S` are being scanned right
    now (their verdict is still open) -/
structure QInvBut (S : List Path) (b : BD) : Prop where
  counts : b.counts = []
  rf_sub : ∀ p ∈ b.removedFiles, p ∈ oldFiles
  rf_cov : ∀ p ∈ oldFiles, p ∈ b.removedFiles ∨ fs.isDir p = true
  rd : ∀ d ∈ b.removedDirs, d ∈ oldDirs ∧ Gone fs oldDirs oldFiles d
  mr_sub : ∀ d ∈ b.maybeRemoved, d ∈ oldDirs
  cov : ∀ d ∈ oldDirs, d ∉ S → d ∈ b.maybeRemoved ∨ d ∈ b.removedDirs ∨ ¬ Gone fs oldDirs oldFiles d
  disj : ∀ d ∈ b.maybeRemoved, d ∉ b.removedDirs

/-- `x` and everything above it is alive: what `handle_norm_cased_dir_exists(x)` is entitled to assume -/
structure Anchor (x : Path) : Prop where
  dirs : ∀ a, a <+: x → a ∈ oldDirs → ¬ Gone fs oldDirs oldFiles a
  files : ∀ a, a <+: x → a ∈ oldFiles → fs.isDir a = true

theorem existsUp_same : ∀ (n : Nat) (parent : Path) (b : BD), parent.length = n →
    (existsUp b parent).counts = b.counts ∧ (existsUp b parent).removedDirs = b.removedDirs ∧
      (existsUp b parent).maybeRemoved = b.maybeRemoved ∧ (existsUp b parent).removedFiles = b.removedFiles := by
  intro n
  induction n with
  | zero =>
    intro parent b hl
    have hp : parent = [] := List.length_eq_zero_iff.mp hl
    subst hp
    rw [existsUp]
    split
    · exact ⟨rfl, rfl, rfl, rfl⟩
    · simp only [dite_true]; exact ⟨trivial, trivial, trivial, trivial⟩
  | succ n ih =>
    intro parent b hl
    have hpne : parent ≠ [] := by intro e; subst e; simp at hl
    rw [existsUp]
    split
    · exact ⟨rfl, rfl, rfl, rfl⟩
    · simp only [hpne, dite_false]
      exact ih parent.dropLast _ (by simp [List.length_dropLast, hl])

theorem Anchor.dropLast {x : Path} (h : Anchor fs oldDirs oldFiles x) : Anchor fs oldDirs oldFiles x.dropLast :=
  ⟨fun a ha => h.dirs a (ha.trans (List.dropLast_prefix x)), fun a ha => h.files a (ha.trans (List.dropLast_prefix x))⟩

theorem handleDirExists_qinv (S : List Path) : ∀ (n : Nat) (x : Path) (b : BD), x.length = n →
    QInvBut fs oldDirs oldFiles S b → Anchor fs oldDirs oldFiles x →
    QInvBut fs oldDirs oldFiles S (handleDirExists b x) ∧
      (∀ y ∈ (handleDirExists b x).maybeRemoved, y ∈ b.maybeRemoved) ∧
      (∀ y ∈ (handleDirExists b x).removedDirs, y ∈ b.removedDirs) := by
  intro n
  induction n with
  | zero =>
    intro x b hl h ha
    have hp : x = [] := List.length_eq_zero_iff.mp hl
    subst hp
    rw [handleDirExists]
    split
    · obtain ⟨h1, h2, h3, h4⟩ := existsUp_same _ [] b rfl
      refine ⟨⟨by rw [h1]; exact h.counts, by rw [h4]; exact h.rf_sub, by rw [h4]; exact h.rf_cov, by rw [h2]; exact h.rd,
        by rw [h3]; exact h.mr_sub, by rw [h3, h2]; exact h.cov, by rw [h3, h2]; exact h.disj⟩, by rw [h3]; exact fun y hy => hy,
        by rw [h2]; exact fun y hy => hy⟩
    · simp only [dite_true]
      refine ⟨⟨h.counts, ?_, ?_, ?_, ?_, ?_, ?_⟩, ?_, ?_⟩
      · intro p hp; exact h.rf_sub p ((mem_discard _ _ _).mp hp).1
      · intro p hp
        by_cases hpx : p = []
        · right; subst hpx; exact ha.files [] (List.prefix_refl _) hp
        · rcases h.rf_cov p hp with h' | h'
          · left; exact (mem_discard _ _ _).mpr ⟨h', hpx⟩
          · right; exact h'
      · intro d hd; exact h.rd d ((mem_discard _ _ _).mp hd).1
      · intro d hd; exact h.mr_sub d ((mem_discard _ _ _).mp hd).1
      · intro d hd hS
        by_cases hdx : d = []
        · right; right; subst hdx; exact ha.dirs [] (List.prefix_refl _) hd
        · rcases h.cov d hd hS with h' | h' | h'
          · left; exact (mem_discard _ _ _).mpr ⟨h', hdx⟩
          · right; left; exact (mem_discard _ _ _).mpr ⟨h', hdx⟩
          · right; right; exact h'
      · intro d hd hr
        exact h.disj d ((mem_discard _ _ _).mp hd).1 ((mem_discard _ _ _).mp hr).1
      · intro y hy; exact ((mem_discard _ _ _).mp hy).1
      · intro y hy; exact ((mem_discard _ _ _).mp hy).1
  | succ n ih =>
    intro x b hl h ha
    have hpne : x ≠ [] := by intro e; subst e; simp at hl
    rw [handleDirExists]
    split
    · obtain ⟨h1, h2, h3, h4⟩ := existsUp_same _ x b rfl
      refine ⟨⟨by rw [h1]; exact h.counts, by rw [h4]; exact h.rf_sub, by rw [h4]; exact h.rf_cov, by rw [h2]; exact h.rd,
        by rw [h3]; exact h.mr_sub, by rw [h3, h2]; exact h.cov, by rw [h3, h2]; exact h.disj⟩, by rw [h3]; exact fun y hy => hy,
        by rw [h2]; exact fun y hy => hy⟩
    · simp only [hpne, dite_false]
      have hb1 : QInvBut fs oldDirs oldFiles S
          { b with removedDirs := discard b.removedDirs x, maybeRemoved := discard b.maybeRemoved x,
                   removedFiles := discard b.removedFiles x, existsDirs := x :: b.existsDirs } := by
        refine ⟨h.counts, ?_, ?_, ?_, ?_, ?_, ?_⟩
        · intro p hp; exact h.rf_sub p ((mem_discard _ _ _).mp hp).1
        · intro p hp
          by_cases hpx : p = x
          · right; subst hpx; exact ha.files p (List.prefix_refl _) hp
          · rcases h.rf_cov p hp with h' | h'
            · left; exact (mem_discard _ _ _).mpr ⟨h', hpx⟩
            · right; exact h'
        · intro d hd; exact h.rd d ((mem_discard _ _ _).mp hd).1
        · intro d hd; exact h.mr_sub d ((mem_discard _ _ _).mp hd).1
        · intro d hd hS
          by_cases hdx : d = x
          · right; right; subst hdx; exact ha.dirs d (List.prefix_refl _) hd
          · rcases h.cov d hd hS with h' | h' | h'
            · left; exact (mem_discard _ _ _).mpr ⟨h', hdx⟩
            · right; left; exact (mem_discard _ _ _).mpr ⟨h', hdx⟩
            · right; right; exact h'
        · intro d hd hr
          exact h.disj d ((mem_discard _ _ _).mp hd).1 ((mem_discard _ _ _).mp hr).1
      obtain ⟨r1, r2, r3⟩ := ih x.dropLast _ (by simp [List.length_dropLast, hl]) hb1 (ha.dropLast fs oldDirs oldFiles)
      exact ⟨r1, fun y hy => ((mem_discard _ _ _).mp (r2 y hy)).1, fun y hy => ((mem_discard _ _ _).mp (r3 y hy)).1⟩


theorem Gone.descend' (hwf : TreeWF fs) {a x : Path} (hg : Gone fs oldDirs oldFiles a) (hp : a <+: x) (hne : a ≠ x)
    (hx : fs.get x ≠ none) : GoneChild fs oldDirs oldFiles x := by
  have hlt : a.length < x.length := by
    rcases Nat.lt_or_ge a.length x.length with h | h
    · exact h
    · exact absurd (hp.eq_of_length_le h) hne
  exact Gone.descend fs oldDirs oldFiles hwf (x.length - a.length - 1) a x hg hp (by omega) hx

/-- a valid cache: no output file of the previous build lies on the path to one of its directories -/
def Valid : Prop := ∀ f ∈ oldFiles, ∀ d ∈ oldDirs, ¬ f <+: d

/-- something that exists and is not gone keeps everything above it alive -/
theorem anchor_of_live (hwf : TreeWF fs) {x : Path} (hx : fs.get x ≠ none) (hng : ¬ GoneChild fs oldDirs oldFiles x)
    (hxf : x ∈ oldFiles → fs.isDir x = true) (habove : ∀ a, a <+: x → a ≠ x → a ∉ oldFiles) :
    Anchor fs oldDirs oldFiles x := by
  constructor
  · intro a ha hao hg
    by_cases hax : a = x
    · subst hax; exact hng (Or.inl ⟨hao, hg⟩)
    · exact hng (hg.descend' fs oldDirs oldFiles hwf ha hax hx)
  · intro a ha hao
    by_cases hax : a = x
    · subst hax; exact hxf hao
    · exact absurd hao (habove a ha hax)

structure Mono (b b' : BD) : Prop where
  mr : ∀ y ∈ b'.maybeRemoved, y ∈ b.maybeRemoved
  rd : ∀ y ∈ b'.removedDirs, y ∈ b.removedDirs ∨ y ∈ b.maybeRemoved

/-- … except that `d` itself may have been added to `removedDirs` -/
structure MonoBut (d : Path) (b b' : BD) : Prop where
  mr : ∀ y ∈ b'.maybeRemoved, y ∈ b.maybeRemoved
  rd : ∀ y ∈ b'.removedDirs, y = d ∨ y ∈ b.removedDirs ∨ y ∈ b.maybeRemoved

theorem Mono.but {b b' : BD} (h : Mono b b') (d : Path) : MonoBut d b b' := ⟨h.mr, fun y hy => Or.inr (h.rd y hy)⟩

theorem Mono.transBut {a b c : BD} {d : Path} (h1 : Mono a b) (h2 : MonoBut d b c) : MonoBut d a c :=
  ⟨fun y hy => h1.mr y (h2.mr y hy), fun y hy => by
    rcases h2.rd y hy with h | h | h
    · exact Or.inl h
    · exact Or.inr (h1.rd y h)
    · exact Or.inr (Or.inr (h1.mr y h))⟩

theorem Mono.refl (b : BD) : Mono b b := ⟨fun _ h => h, fun _ h => Or.inl h⟩

theorem Mono.trans {a b c : BD} (h1 : Mono a b) (h2 : Mono b c) : Mono a c :=
  ⟨fun y hy => h1.mr y (h2.mr y hy), fun y hy => by
    rcases h2.rd y hy with h | h
    · exact h1.rd y h
    · exact Or.inr (h1.mr y h)⟩

theorem QInvBut.opened {S : List Path} {b : BD} (h : QInvBut fs oldDirs oldFiles S b) (d : Path) :
    QInvBut fs oldDirs oldFiles (d :: S) b :=
  ⟨h.counts, h.rf_sub, h.rf_cov, h.rd, h.mr_sub, fun x hx hS => h.cov x hx (fun hm => hS (List.mem_cons_of_mem _ hm)), h.disj⟩

theorem QInvBut.closed {S : List Path} {b : BD} {d : Path} (h : QInvBut fs oldDirs oldFiles (d :: S) b)
    (hd : d ∈ b.maybeRemoved ∨ d ∈ b.removedDirs ∨ ¬ Gone fs oldDirs oldFiles d) :
    QInvBut fs oldDirs oldFiles S b :=
  ⟨h.counts, h.rf_sub, h.rf_cov, h.rd, h.mr_sub, fun x hx hS => by
    by_cases hxd : x = d
    · subst hxd; exact hd
    · exact h.cov x hx (by simp [hxd, hS]), h.disj⟩


theorem prefix_of_prefix_concat_ne {a d : Path} {n : String} (h : a <+: d ++ [n]) (hne : a ≠ d ++ [n]) : a <+: d := by
  have hl : a.length ≤ (d ++ [n]).length := h.length_le
  have hlt : a.length ≤ d.length := by
    rcases Nat.lt_or_ge d.length a.length with h' | h'
    · exfalso; apply hne; exact h.eq_of_length_le (by simp; omega)
    · exact h'
  exact List.prefix_of_prefix_length_le h (List.prefix_append d [n]) hlt

/-- the `for subfile in subfiles` loop of `_check_maybe_removed_dir`, given the recursive calls -/
theorem checkLoop_spec (hwf : TreeWF fs) (hv : Valid oldDirs oldFiles) (fuel : Nat)
    (hcm : ∀ (S : List Path) (b : BD) (d : Path) (b' : BD) (r : Bool), QInvBut fs oldDirs oldFiles S b → d ∈ b.maybeRemoved →
      (∀ s ∈ S, s.length < d.length) → checkMaybeRemoved fs fuel b d = some (b', r) →
      QInvBut fs oldDirs oldFiles S b' ∧ Mono b b' ∧ (r = true ↔ Gone fs oldDirs oldFiles d)) :
    ∀ (rest : List String) (S : List Path) (b : BD) (d : Path) (b' : BD) (r : Bool),
      QInvBut fs oldDirs oldFiles (d :: S) b → d ∈ oldDirs → d ∉ b.maybeRemoved → d ∉ b.removedDirs →
      (∀ s ∈ S, s.length < d.length) → underFile fs d = false → fs.get d = some .dir →
      (∀ n ∈ rest, n ∈ fs.listdir d) →
      (∀ n ∈ fs.listdir d, n ∉ rest → GoneChild fs oldDirs oldFiles (d ++ [n])) →
      checkLoop fs fuel b d rest = some (b', r) →
      QInvBut fs oldDirs oldFiles S b' ∧ MonoBut d b b' ∧ (r = true ↔ Gone fs oldDirs oldFiles d) := by
  intro rest
  induction rest with
  | nil =>
    intro S b d b' r h hdo hdm hdr hS hu hg _ hdone hrun
    rw [checkLoop] at hrun
    simp only [Option.some.injEq, Prod.mk.injEq] at hrun
    obtain ⟨hb, hr⟩ := hrun
    subst hb hr
    have hgone : Gone fs oldDirs oldFiles d := by
      refine Gone.empty d hu hg ?_ ?_
      · intro n hn ho
        rcases hdone n hn (by simp) with ⟨_, h'⟩ | ⟨h', _⟩
        · exact h'
        · exact absurd ho h'
      · intro n hn ho
        rcases hdone n hn (by simp) with ⟨h', _⟩ | ⟨_, h'⟩
        · exact absurd h' ho
        · exact h'
    refine ⟨?_, ⟨fun y hy => hy, fun y hy => ?_⟩, fun _ => hgone, fun _ => rfl⟩
    · refine ⟨h.counts, h.rf_sub, h.rf_cov, ?_, h.mr_sub, ?_, ?_⟩
      · intro x hx
        rcases (mem_add _ _ _).mp hx with rfl | hx
        · exact ⟨hdo, hgone⟩
        · exact h.rd x hx
      · intro x hx hxS
        by_cases hxd : x = d
        · right; left; exact (mem_add _ _ _).mpr (Or.inl hxd)
        · rcases h.cov x hx (by simp [hxd, hxS]) with h' | h' | h'
          · exact Or.inl h'
          · exact Or.inr (Or.inl ((mem_add _ _ _).mpr (Or.inr h')))
          · exact Or.inr (Or.inr h')
      · intro x hx hxr
        rcases (mem_add _ _ _).mp hxr with rfl | hxr
        · exact hdm hx
        · exact h.disj x hx hxr
    · rcases (mem_add _ _ _).mp hy with hy | hy
      · exact Or.inl hy
      · exact Or.inr (Or.inl hy)
  | cons n rest ih =>
    intro S b d b' r h hdo hdm hdr hS hu hg hrest hdone hrun
    have hn : n ∈ fs.listdir d := hrest n (List.mem_cons_self ..)
    have hex : fs.get (d ++ [n]) ≠ none := (mem_listdir fs d n).mp hn
    have hrest' : ∀ m ∈ rest, m ∈ fs.listdir d := fun m hm => hrest m (List.mem_cons_of_mem _ hm)
    -- once the entry `n` is known to be gone, the loop goes on
    have hdone' : GoneChild fs oldDirs oldFiles (d ++ [n]) →
        ∀ m ∈ fs.listdir d, m ∉ rest → GoneChild fs oldDirs oldFiles (d ++ [m]) := by
      intro hgc m hm hmr
      by_cases hmn : m = n
      · subst hmn; exact hgc
      · exact hdone m hm (by simp [hmn, hmr])
    -- an entry that is alive keeps `d` alive
    have hnotgone : ¬ GoneChild fs oldDirs oldFiles (d ++ [n]) → ¬ Gone fs oldDirs oldFiles d :=
      fun hng hgd => hng (hgd.children fs oldDirs oldFiles hwf n hex)
    have habove : ∀ a, a <+: d ++ [n] → a ≠ d ++ [n] → a ∉ oldFiles := by
      intro a ha hne hao
      exact hv a hao d hdo (prefix_of_prefix_concat_ne ha hne)
    have hfalse : ∀ (x : Path), Anchor fs oldDirs oldFiles x → ¬ Gone fs oldDirs oldFiles d →
        b' = handleDirExists b x → r = false →
        QInvBut fs oldDirs oldFiles S b' ∧ MonoBut d b b' ∧ (r = true ↔ Gone fs oldDirs oldFiles d) := by
      intro x hax hngd hb hr
      obtain ⟨q1, q2, q3⟩ := handleDirExists_qinv fs oldDirs oldFiles (d :: S) _ x b rfl h hax
      subst hb hr
      exact ⟨q1.closed fs oldDirs oldFiles (Or.inr (Or.inr hngd)), ⟨q2, fun y hy => Or.inr (Or.inl (q3 y hy))⟩,
        (fun hh => nomatch hh), (fun hgd => absurd hgd hngd)⟩
    rw [checkLoop] at hrun
    by_cases hA : b.removedDirs.contains (d ++ [n]) = true
    · -- already known to be gone
      have hmem : (d ++ [n]) ∈ b.removedDirs := by simpa using hA
      obtain ⟨ho, hgs⟩ := h.rd _ hmem
      have hnf := hgs.not_file fs oldDirs oldFiles
      simp only [hA, if_true, hnf, Bool.false_eq_true, if_false] at hrun
      exact ih S b d b' r h hdo hdm hdr hS hu hg hrest' (hdone' (Or.inl ⟨ho, hgs⟩)) hrun
    · simp only [hA, Bool.false_eq_true, if_false] at hrun
      by_cases hB : b.removedFiles.contains (d ++ [n]) = true
      · have hmem : (d ++ [n]) ∈ b.removedFiles := by simpa using hB
        have hof := h.rf_sub _ hmem
        have hnod : (d ++ [n]) ∉ oldDirs := fun hod => hv _ hof _ hod (List.prefix_refl _)
        simp only [hB, if_true] at hrun
        by_cases hD : fs.isDir (d ++ [n]) = true
        · simp only [hD, if_true, Option.some.injEq, Prod.mk.injEq] at hrun
          have hng : ¬ GoneChild fs oldDirs oldFiles (d ++ [n]) := by
            rintro (⟨h1, _⟩ | ⟨_, _, h3⟩)
            · exact hnod h1
            · rw [hD] at h3; cases h3
          exact hfalse _ (anchor_of_live fs oldDirs oldFiles hwf hex hng (fun _ => hD) habove) (hnotgone hng) hrun.1.symm hrun.2.symm
        · have hD' : fs.isDir (d ++ [n]) = false := by simpa using hD
          simp only [hD', Bool.false_eq_true, if_false] at hrun
          exact ih S b d b' r h hdo hdm hdr hS hu hg hrest' (hdone' (Or.inr ⟨hnod, hof, hD'⟩)) hrun
      · simp only [hB, Bool.false_eq_true, if_false] at hrun
        by_cases hC : b.maybeRemoved.contains (d ++ [n]) = true
        · have hmem : (d ++ [n]) ∈ b.maybeRemoved := by simpa using hC
          simp only [hC, if_true] at hrun
          have hlen : ∀ s ∈ d :: S, s.length < (d ++ [n]).length := by
            intro s hs
            rcases List.mem_cons.mp hs with rfl | hs
            · simp
            · have := hS s hs; simp; omega
          cases hsub : checkMaybeRemoved fs fuel b (d ++ [n]) with
          | none => rw [hsub] at hrun; cases hrun
          | some res =>
            obtain ⟨b1, r1⟩ := res
            obtain ⟨q1, q2, q3⟩ := hcm (d :: S) b (d ++ [n]) b1 r1 h hmem hlen hsub
            rw [hsub] at hrun
            cases r1 with
            | true =>
              simp only at hrun
              have hgs : Gone fs oldDirs oldFiles (d ++ [n]) := q3.mp rfl
              have hdm1 : d ∉ b1.maybeRemoved := fun hh => hdm (q2.mr d hh)
              have hdr1 : d ∉ b1.removedDirs := by
                intro hh
                rcases q2.rd d hh with h' | h'
                · exact hdr h'
                · exact hdm h'
              obtain ⟨p1, p2, p3⟩ := ih S b1 d b' r q1 hdo hdm1 hdr1 hS hu hg hrest'
                (hdone' (Or.inl ⟨h.mr_sub _ hmem, hgs⟩)) hrun
              exact ⟨p1, q2.transBut p2, p3⟩
            | false =>
              simp only [Option.some.injEq, Prod.mk.injEq] at hrun
              obtain ⟨hb, hr⟩ := hrun
              subst hb hr
              have hngs : ¬ Gone fs oldDirs oldFiles (d ++ [n]) := fun hh => by
                have := q3.mpr hh; cases this
              have hng : ¬ GoneChild fs oldDirs oldFiles (d ++ [n]) := by
                rintro (⟨_, h2⟩ | ⟨h1, _, _⟩)
                · exact hngs h2
                · exact h1 (h.mr_sub _ hmem)
              exact ⟨q1.closed fs oldDirs oldFiles (Or.inr (Or.inr (hnotgone hng))), q2.but d,
                (fun hh => nomatch hh), (fun hgd => absurd hgd (hnotgone hng))⟩
        · simp only [hC, Bool.false_eq_true, if_false, Option.some.injEq, Prod.mk.injEq] at hrun
          have hnA : (d ++ [n]) ∉ b.removedDirs := by simpa using hA
          have hnB : (d ++ [n]) ∉ b.removedFiles := by simpa using hB
          have hnC : (d ++ [n]) ∉ b.maybeRemoved := by simpa using hC
          have hnS : (d ++ [n]) ∉ d :: S := by
            intro hs
            rcases List.mem_cons.mp hs with h' | h'
            · have := congrArg List.length h'; simp at this
            · have := hS _ h'; simp at this
          have hng : ¬ GoneChild fs oldDirs oldFiles (d ++ [n]) := by
            rintro (⟨h1, h2⟩ | ⟨_, h2, h3⟩)
            · rcases h.cov _ h1 hnS with h' | h' | h'
              · exact hnC h'
              · exact hnA h'
              · exact h' h2
            · rcases h.rf_cov _ h2 with h' | h'
              · exact hnB h'
              · rw [h'] at h3; cases h3
          by_cases hD : fs.isDir (d ++ [n]) = true
          · simp only [hD, if_true] at hrun
            exact hfalse _ (anchor_of_live fs oldDirs oldFiles hwf hex hng (fun _ => hD) habove) (hnotgone hng) hrun.1.symm hrun.2.symm
          · simp only [hD, Bool.false_eq_true, if_false] at hrun
            have hngd := hnotgone hng
            have had : Anchor fs oldDirs oldFiles d := by
              refine anchor_of_live fs oldDirs oldFiles hwf (by rw [hg]; simp) ?_ ?_ ?_
              · rintro (⟨_, h2⟩ | ⟨h1, _, _⟩)
                · exact hngd h2
                · exact h1 hdo
              · intro hof; exact absurd (List.prefix_refl d) (hv d hof d hdo)
              · intro a ha _ hao; exact hv a hao d hdo ha
            exact hfalse _ had hngd hrun.1.symm hrun.2.symm


theorem dropLast_ne_of_ne_nil {d : Path} (hd : d ≠ []) {a : Path} (ha : a <+: d.dropLast) : a ≠ d := by
  intro e
  have h1 := ha.length_le
  rw [e, List.length_dropLast] at h1
  have : d.length ≠ 0 := by simpa using hd
  omega

/-- **the scan decides `Gone`**: `_check_maybe_removed_dir(d)` -/
theorem checkMaybeRemoved_spec (hwf : TreeWF fs) (hv : Valid oldDirs oldFiles) : ∀ (fuel : Nat)
    (S : List Path) (b : BD) (d : Path) (b' : BD) (r : Bool), QInvBut fs oldDirs oldFiles S b → d ∈ b.maybeRemoved →
      (∀ s ∈ S, s.length < d.length) → checkMaybeRemoved fs fuel b d = some (b', r) →
      QInvBut fs oldDirs oldFiles S b' ∧ Mono b b' ∧ (r = true ↔ Gone fs oldDirs oldFiles d) := by
  intro fuel
  induction fuel with
  | zero => intro S b d b' r _ _ _ hrun; rw [checkMaybeRemoved] at hrun; cases hrun
  | succ fuel ih =>
    intro S b d b' r h hdm hS hrun
    rw [checkMaybeRemoved] at hrun
    have hc : b.maybeRemoved.contains d = true := by simpa using hdm
    simp only [hc, Bool.not_true, Bool.false_eq_true, if_false] at hrun
    have hdo := h.mr_sub d hdm
    have hdr : d ∉ b.removedDirs := h.disj d hdm
    -- the state during the scan of `d`
    have h1 : QInvBut fs oldDirs oldFiles (d :: S) { b with maybeRemoved := discard b.maybeRemoved d } := by
      refine ⟨h.counts, h.rf_sub, h.rf_cov, h.rd, ?_, ?_, ?_⟩
      · intro x hx; exact h.mr_sub x ((mem_discard _ _ _).mp hx).1
      · intro x hx hxS
        have hxd : x ≠ d := fun e => hxS (by simp [e])
        rcases h.cov x hx (fun hm => hxS (List.mem_cons_of_mem _ hm)) with h' | h' | h'
        · exact Or.inl ((mem_discard _ _ _).mpr ⟨h', hxd⟩)
        · exact Or.inr (Or.inl h')
        · exact Or.inr (Or.inr h')
      · intro x hx; exact h.disj x ((mem_discard _ _ _).mp hx).1
    have hfalse : Anchor fs oldDirs oldFiles d.dropLast → ¬ Gone fs oldDirs oldFiles d →
        b' = handleDirExists { b with maybeRemoved := discard b.maybeRemoved d } d.dropLast → r = false →
        QInvBut fs oldDirs oldFiles S b' ∧ Mono b b' ∧ (r = true ↔ Gone fs oldDirs oldFiles d) := by
      intro hax hngd hb hr
      obtain ⟨q1, q2, q3⟩ := handleDirExists_qinv fs oldDirs oldFiles (d :: S) _ d.dropLast _ rfl h1 hax
      subst hb hr
      exact ⟨q1.closed fs oldDirs oldFiles (Or.inr (Or.inr hngd)),
        ⟨fun y hy => ((mem_discard _ _ _).mp (q2 y hy)).1, fun y hy => Or.inl (q3 y hy)⟩,
        (fun hh => nomatch hh), (fun hgd => absurd hgd hngd)⟩
    have hfilesV : ∀ a, a <+: d.dropLast → a ∈ oldFiles → fs.isDir a = true := by
      intro a ha hao
      exact absurd (ha.trans (List.dropLast_prefix d)) (hv a hao d hdo)
    by_cases hu : (List.range d.length).any (fun k => fs.isFile (d.take k)) = true
    · -- ENOTDIR: a proper ancestor is a regular file
      simp only [hu, if_true, Option.some.injEq, Prod.mk.injEq] at hrun
      have hu' : underFile fs d = true := hu
      obtain ⟨g, hgp, hgne, hgf⟩ := (underFile_iff fs d).mp hu'
      have hgex : fs.get g ≠ none := by intro e; simp [FS.isFile, e] at hgf
      have hax : Anchor fs oldDirs oldFiles d.dropLast := by
        refine ⟨?_, hfilesV⟩
        intro a ha hao hga
        have had : a <+: d := ha.trans (List.dropLast_prefix d)
        rcases List.prefix_or_prefix_of_prefix had hgp with hag | hga'
        · by_cases he : a = g
          · subst he; have := hga.not_file fs oldDirs oldFiles; rw [hgf] at this; cases this
          · rcases hga.descend' fs oldDirs oldFiles hwf hag he hgex with ⟨_, h2⟩ | ⟨_, h2, _⟩
            · have := h2.not_file fs oldDirs oldFiles; rw [hgf] at this; cases this
            · exact hv g h2 d hdo hgp
        · by_cases he : g = a
          · subst he; have := hga.not_file fs oldDirs oldFiles; rw [hgf] at this; cases this
          · have : underFile fs a = true := (underFile_iff fs a).mpr ⟨g, hga', he, hgf⟩
            rw [hga.not_underFile fs oldDirs oldFiles] at this; cases this
      refine hfalse hax ?_ hrun.1.symm hrun.2.symm
      intro hgd; rw [hgd.not_underFile fs oldDirs oldFiles] at hu'; cases hu'
    · simp only [hu, Bool.false_eq_true, if_false] at hrun
      have hu' : underFile fs d = false := by simpa [underFile] using hu
      cases hget : fs.get d with
      | none =>
        rw [hget] at hrun
        simp only [Option.some.injEq, Prod.mk.injEq] at hrun
        obtain ⟨hb, hr⟩ := hrun
        subst hb hr
        have hgone : Gone fs oldDirs oldFiles d := Gone.absent d hu' hget
        refine ⟨?_, ⟨fun y hy => ((mem_discard _ _ _).mp hy).1, fun y hy => ?_⟩, fun _ => hgone, fun _ => rfl⟩
        · refine ⟨h.counts, h.rf_sub, h.rf_cov, ?_, ?_, ?_, ?_⟩
          · intro x hx
            rcases (mem_add _ _ _).mp hx with rfl | hx
            · exact ⟨hdo, hgone⟩
            · exact h.rd x hx
          · intro x hx; exact h.mr_sub x ((mem_discard _ _ _).mp hx).1
          · intro x hx hxS
            by_cases hxd : x = d
            · right; left; exact (mem_add _ _ _).mpr (Or.inl hxd)
            · rcases h.cov x hx hxS with h' | h' | h'
              · exact Or.inl ((mem_discard _ _ _).mpr ⟨h', hxd⟩)
              · exact Or.inr (Or.inl ((mem_add _ _ _).mpr (Or.inr h')))
              · exact Or.inr (Or.inr h')
          · intro x hx hxr
            obtain ⟨hx1, hx2⟩ := (mem_discard _ _ _).mp hx
            rcases (mem_add _ _ _).mp hxr with h' | h'
            · exact hx2 h'
            · exact h.disj x hx1 h'
        · rcases (mem_add _ _ _).mp hy with rfl | hy
          · exact Or.inr hdm
          · exact Or.inl hy
      | some e =>
        cases e with
        | file c m =>
          rw [hget] at hrun
          simp only [Option.some.injEq, Prod.mk.injEq] at hrun
          have hdne : d ≠ [] := by intro e; subst e; rw [get_nil] at hget; cases hget
          have hdf : fs.isFile d = true := by simp [FS.isFile, hget]
          have hax : Anchor fs oldDirs oldFiles d.dropLast := by
            refine ⟨?_, hfilesV⟩
            intro a ha hao hga
            have hne := dropLast_ne_of_ne_nil hdne ha
            rcases hga.descend' fs oldDirs oldFiles hwf (ha.trans (List.dropLast_prefix d)) hne (by rw [hget]; simp) with ⟨_, h2⟩ | ⟨h1, _, _⟩
            · have := h2.not_file fs oldDirs oldFiles; rw [hdf] at this; cases this
            · exact h1 hdo
          refine hfalse hax ?_ hrun.1.symm hrun.2.symm
          intro hgd; have := hgd.not_file fs oldDirs oldFiles; rw [hdf] at this; cases this
        | dir =>
          rw [hget] at hrun
          simp only at hrun
          have hdm1 : d ∉ discard b.maybeRemoved d := fun hh => ((mem_discard _ _ _).mp hh).2 rfl
          obtain ⟨p1, p2, p3⟩ := checkLoop_spec fs oldDirs oldFiles hwf hv fuel ih (fs.listdir d) S
            { b with maybeRemoved := discard b.maybeRemoved d } d b' r h1 hdo hdm1 hdr hS hu' hget
            (fun n hn => hn) (fun n hn hnn => absurd hn hnn) hrun
          refine ⟨p1, ⟨fun y hy => ((mem_discard _ _ _).mp (p2.mr y hy)).1, fun y hy => ?_⟩, p3⟩
          rcases p2.rd y hy with rfl | h' | h'
          · exact Or.inr hdm
          · exact Or.inl h'
          · exact Or.inr ((mem_discard _ _ _).mp h').1


theorem TreeWF.isDir_prefix {fs : FS} (hwf : TreeWF fs) : ∀ (k : Nat) (a x : Path), a <+: x → x.length = a.length + k + 1 →
    fs.get x ≠ none → fs.isDir a = true := by
  intro k
  induction k with
  | zero =>
    intro a x hp hl hx
    have hxne : x ≠ [] := by intro e; subst e; simp at hl
    have := hwf x hxne hx
    have hd : x.dropLast = a := by
      obtain ⟨t, rfl⟩ := hp
      have : t.length = 1 := by simp at hl; omega
      obtain ⟨n, rfl⟩ := List.length_eq_one_iff.mp this
      simp
    rw [hd] at this; exact this
  | succ k ih =>
    intro a x hp hl hx
    have hxne : x ≠ [] := by intro e; subst e; simp at hl
    have hd := hwf x hxne hx
    have hpa : a <+: x.dropLast := by
      obtain ⟨t, rfl⟩ := hp
      have htne : t ≠ [] := by intro e; subst e; simp at hl; omega
      rw [List.dropLast_append_of_ne_nil htne]
      exact List.prefix_append _ _
    exact ih a x.dropLast hpa (by simp [List.length_dropLast]; omega) (by intro e; simp [FS.isDir, e] at hd)

/-- what exists and is not gone keeps everything above it alive -/
theorem anchor_of_exists (hwf : TreeWF fs) {x : Path} (hx : fs.get x ≠ none) (hng : ¬ GoneChild fs oldDirs oldFiles x)
    (hxf : x ∈ oldFiles → fs.isDir x = true) : Anchor fs oldDirs oldFiles x := by
  constructor
  · intro a ha hao hg
    by_cases hax : a = x
    · subst hax; exact hng (Or.inl ⟨hao, hg⟩)
    · exact hng (hg.descend' fs oldDirs oldFiles hwf ha hax hx)
  · intro a ha hao
    by_cases hax : a = x
    · subst hax; exact hxf hao
    · have hlt : a.length < x.length := by
        rcases Nat.lt_or_ge a.length x.length with h | h
        · exact h
        · exact absurd (ha.eq_of_length_le h) hax
      exact hwf.isDir_prefix (x.length - a.length - 1) a x ha (by omega) hx

/-- the caches are sound -/
abbrev QInv (b : BD) : Prop := QInvBut fs oldDirs oldFiles [] b

theorem mem_foldl_add (l acc : List Path) (x : Path) : x ∈ l.foldl add acc ↔ x ∈ acc ∨ x ∈ l := by
  induction l generalizing acc with
  | nil => simp
  | cons y r ih =>
    simp only [List.foldl, ih, mem_add, List.mem_cons]
    constructor
    · rintro ((rfl | h) | h)
      · exact Or.inr (Or.inl rfl)
      · exact Or.inl h
      · exact Or.inr (Or.inr h)
    · rintro (h | rfl | h)
      · exact Or.inl (Or.inr h)
      · exact Or.inl (Or.inl rfl)
      · exact Or.inr h

theorem init_qinv : QInv fs oldDirs oldFiles (init oldDirs oldFiles) := by
  refine ⟨rfl, ?_, ?_, ?_, ?_, ?_, ?_⟩
  · intro p hp; simpa [init, mem_foldl_add] using hp
  · intro p hp; left; simpa [init, mem_foldl_add] using hp
  · intro d hd; simp [init] at hd
  · intro d hd; simpa [init, mem_foldl_add] using hd
  · intro d hd _; left; simpa [init, mem_foldl_add] using hd
  · intro d _ hr; simp [init] at hr

/-- **`is_removed_norm_case(d)` answers `True` exactly for the old directories that are gone**, and keeps the
    caches sound -/
theorem isRemoved_spec (hwf : TreeWF fs) (hv : Valid oldDirs oldFiles) (b : BD) (d : Path) (b' : BD) (r : Bool)
    (h : QInv fs oldDirs oldFiles b) (hrun : isRemoved fs b d = some (b', r)) :
    QInv fs oldDirs oldFiles b' ∧ (r = true ↔ d ∈ oldDirs ∧ Gone fs oldDirs oldFiles d) := by
  unfold isRemoved at hrun
  have hcnt : hasCount b d = false := by simp [hasCount, h.counts]
  simp only [hcnt, Bool.false_eq_true, if_false] at hrun
  by_cases hA : b.removedDirs.contains d = true
  · simp only [hA, if_true, Option.some.injEq, Prod.mk.injEq] at hrun
    obtain ⟨hb, hr⟩ := hrun
    subst hb hr
    exact ⟨h, fun _ => h.rd d (by simpa using hA), fun _ => rfl⟩
  · simp only [hA, Bool.false_eq_true, if_false] at hrun
    by_cases hC : b.maybeRemoved.contains d = true
    · simp only [hC, Bool.not_true, Bool.false_eq_true, if_false] at hrun
      have hmem : d ∈ b.maybeRemoved := by simpa using hC
      obtain ⟨q1, _, q3⟩ := checkMaybeRemoved_spec fs oldDirs oldFiles hwf hv 64 [] b d b' r h hmem (fun s hs => nomatch hs) hrun
      exact ⟨q1, fun hr => ⟨h.mr_sub d hmem, q3.mp hr⟩, fun hh => q3.mpr hh.2⟩
    · simp only [hC, Bool.not_false, if_true, Option.some.injEq, Prod.mk.injEq] at hrun
      obtain ⟨hb, hr⟩ := hrun
      subst hb hr
      refine ⟨h, (fun hh => nomatch hh), ?_⟩
      rintro ⟨hdo, hg⟩
      rcases h.cov d hdo (fun hh => nomatch hh) with h' | h' | h'
      · exact absurd (by simpa using h') hC
      · exact absurd (by simpa using h') hA
      · exact absurd hg h'

/-- what `SimpleOperationExecutor.is_dir` passes to `handle_norm_cased_dir_exists`: a real directory that
    `is_removed_norm_case` has just declared alive -/
theorem anchor_of_isDir (hwf : TreeWF fs) (x : Path) (hd : fs.isDir x = true)
    (hnr : ¬ (x ∈ oldDirs ∧ Gone fs oldDirs oldFiles x)) : Anchor fs oldDirs oldFiles x := by
  refine anchor_of_exists fs oldDirs oldFiles hwf (by intro e; simp [FS.isDir, e] at hd) ?_ (fun _ => hd)
  rintro (h1 | ⟨_, _, h3⟩)
  · exact hnr h1
  · rw [hd] at h3; cases h3

/-- … and `is_file`: the parent of a real regular file that is not an old output -/
theorem anchor_of_isFile (hwf : TreeWF fs) (p : Path) (hf : fs.isFile p = true) (hno : p ∉ oldFiles) :
    Anchor fs oldDirs oldFiles p.dropLast := by
  refine Anchor.dropLast fs oldDirs oldFiles (anchor_of_exists fs oldDirs oldFiles hwf (by intro e; simp [FS.isFile, e] at hf) ?_ (fun h => absurd h hno))
  rintro (⟨_, h2⟩ | ⟨_, h2, _⟩)
  · have := h2.not_file fs oldDirs oldFiles; rw [hf] at this; cases this
  · exact hno h2

/-- the states of a `BuildDirs` object between its construction and the first `build_file` of the build -/
inductive QReach : BD → Prop
  | init : QReach (init oldDirs oldFiles)
  | removed (b : BD) (d : Path) (b' : BD) (r : Bool) : QReach b → isRemoved fs b d = some (b', r) → QReach b'
  | dirExists (b : BD) (x : Path) : QReach b → Anchor fs oldDirs oldFiles x → QReach (handleDirExists b x)

theorem qreach_qinv (hwf : TreeWF fs) (hv : Valid oldDirs oldFiles) {b : BD} (h : QReach fs oldDirs oldFiles b) :
    QInv fs oldDirs oldFiles b := by
  induction h with
  | init => exact init_qinv fs oldDirs oldFiles
  | removed b d b' r _ hrun ih => exact (isRemoved_spec fs oldDirs oldFiles hwf hv b d b' r ih hrun).1
  | dirExists b x _ ha ih => exact (handleDirExists_qinv fs oldDirs oldFiles [] _ x b rfl ih ha).1

/-- **C04, old directories**: whatever was asked before, `is_removed_norm_case(d)` says that `d` is gone iff the
    previous build created `d` and it is absent, or holds nothing but that build's outputs and directories
    that are gone themselves -/
theorem C04_isRemoved_iff_gone (hwf : TreeWF fs) (hv : Valid oldDirs oldFiles) {b : BD} (h : QReach fs oldDirs oldFiles b)
    (d : Path) (b' : BD) (r : Bool) (hrun : isRemoved fs b d = some (b', r)) :
    r = true ↔ d ∈ oldDirs ∧ Gone fs oldDirs oldFiles d :=
  (isRemoved_spec fs oldDirs oldFiles hwf hv b d b' r (qreach_qinv fs oldDirs oldFiles hwf hv h) hrun).2


/-! ### non-vacuity: a tree with one old directory that holds only an old output (gone) and one that holds
    a foreign file (alive); the hypotheses hold and the scan says so -/

def exFS : FS := [(["o"], .dir), (["o", "x"], .file "1" 1), (["k"], .dir), (["k", "foreign"], .file "f" 3)]
def exDirs : List Path := [["o"], ["k"]]
def exFiles : List Path := [["o", "x"], ["k", "x"]]

theorem exFS_wf : TreeWF exFS := by
  intro p hne hg
  cases hg' : exFS.get p with
  | none => exact absurd hg' hg
  | some e =>
    have hm := mem_of_get exFS p e hne hg'
    simp only [exFS, List.mem_cons, Prod.mk.injEq, List.not_mem_nil, or_false] at hm
    rcases hm with ⟨rfl, _⟩ | ⟨rfl, _⟩ | ⟨rfl, _⟩ | ⟨rfl, _⟩ <;> decide

theorem ex_valid : Valid exDirs exFiles := by
  intro f hf d hd
  simp only [exFiles, exDirs, List.mem_cons, List.not_mem_nil, or_false] at hf hd
  rcases hf with rfl | rfl <;> rcases hd with rfl | rfl <;> decide

set_option maxRecDepth 4000 in
example : (isRemoved exFS (init exDirs exFiles) ["o"]).map (·.2) = some true ∧
    (isRemoved exFS (init exDirs exFiles) ["k"]).map (·.2) = some false ∧
    (Gone exFS exDirs exFiles ["o"]) ∧ ¬ (Gone exFS exDirs exFiles ["k"]) := by
  have h1 : (isRemoved exFS (init exDirs exFiles) ["o"]).map (·.2) = some true := by
    simp [isRemoved, hasCount, init, add, exDirs, exFiles, checkMaybeRemoved, checkLoop, discard, exFS, FS.isFile, FS.isDir, FS.get,
      FS.listdir, FS.childNames, sortStrs, insertStr, parent]
  have h2 : (isRemoved exFS (init exDirs exFiles) ["k"]).map (·.2) = some false := by
    simp [isRemoved, hasCount, init, add, exDirs, exFiles, checkMaybeRemoved, checkLoop, discard, exFS, FS.isFile, FS.isDir, FS.get,
      FS.listdir, FS.childNames, sortStrs, insertStr, parent]
  refine ⟨h1, h2, ?_, ?_⟩
  · cases hr : isRemoved exFS (init exDirs exFiles) ["o"] with
    | none => rw [hr] at h1; cases h1
    | some x =>
      obtain ⟨b', r⟩ := x
      rw [hr] at h1; simp at h1; subst h1
      exact ((C04_isRemoved_iff_gone exFS exDirs exFiles exFS_wf ex_valid (QReach.init) _ _ _ hr).mp rfl).2
  · cases hr : isRemoved exFS (init exDirs exFiles) ["k"] with
    | none => rw [hr] at h2; cases h2
    | some x =>
      obtain ⟨b', r⟩ := x
      rw [hr] at h2; simp at h2; subst h2
      intro hg
      have := (C04_isRemoved_iff_gone exFS exDirs exFiles exFS_wf ex_valid (QReach.init) _ _ _ hr).mpr ⟨by decide, hg⟩
      cases this

end BuildDirs
end FB
