/-
  C10/C14 — `_make_dirs` leaves nothing behind when it fails part-way: whatever `mkdir` fails (the injected one, a
  missing parent, a regular file in the way), after the `except OSError` branch no directory exists that was not
  there before, every directory that was there is still there, and every regular file is still there unless it was
  moved to the undo log (from where a rollback restores it).
-/
import FB.MakeDirs
import FB.Props.C02Rollback
namespace FB
namespace MakeDirs
open FS Spec BuildDirs

/-- the loop invariant: `made` are directories that were absent at the start and hold only each other; everything
    else is as it was, or is a regular file that was moved to the undo log -/
structure Inv (fs0 : FS) (st : St) : Prop where
  made_new : ∀ d ∈ st.made, d ≠ [] ∧ (fs0.get d = none ∨ ∃ c m, fs0.get d = some (.file c m)) ∧ st.fs.get d = some .dir
  others : ∀ q, q ∉ st.made → st.fs.get q = fs0.get q ∨ ((∃ c m, fs0.get q = some (.file c m)) ∧ st.fs.get q = none)
  closed : ∀ d ∈ st.made, ∀ n, st.fs.get (d ++ [n]) ≠ none → (d ++ [n]) ∈ st.made
  parent : ∀ d ∈ st.made, st.fs.isDir d.dropLast = true

theorem Inv.unwind {fs0 : FS} {st : St} (h : Inv fs0 st) :
    ∀ q, (rmEmpty st.fs st.made).get q = fs0.get q ∨ ((∃ c m, fs0.get q = some (.file c m)) ∧ (rmEmpty st.fs st.made).get q = none) := by
  have hgone := Rollback.rmEmpty_removes (fun d => d ∈ st.made) st.fs st.made
    (fun d hd => ⟨(h.made_new d hd).1, Or.inr (h.made_new d hd).2.2⟩) h.closed (fun d hd _ => hd)
  intro q
  by_cases hq : q ∈ st.made
  · rcases (h.made_new q hq).2.1 with h0 | h0
    · left; rw [hgone q hq, h0]
    · right; exact ⟨h0, hgone q hq⟩
  · rcases rmEmpty_get st.made st.fs q with h1 | ⟨h1, _, _⟩
    · rw [h1]; exact h.others q hq
    · exact absurd h1 hq

/-- **no leftovers**: in whichever way `_make_dirs` fails, the tree it leaves differs from the one it found only by
    regular files that are now in the undo log -/
theorem loop_error (oldCreated : List Path) (failAt : Option Nat) (fs0 : FS) (hwf : TreeWF fs0) :
    ∀ (dirs : List Path) (i : Nat) (st st' : St), Inv fs0 st → loop oldCreated failAt dirs i st = .error st' →
    ∀ q, st'.fs.get q = fs0.get q ∨ ((∃ c m, fs0.get q = some (.file c m)) ∧ st'.fs.get q = none) := by
  intro dirs
  induction dirs with
  | nil => intro i st st' _ h; simp [loop] at h
  | cons d rest ih =>
    intro i st st' hinv h
    simp only [loop] at h
    -- the state after a possible move to the undo log
    generalize hst1 : (if st.fs.isFile d && oldCreated.contains d then
        ({ st with fs := (Backups.backUpAndRemove st.fs st.bk d).1, bk := (Backups.backUpAndRemove st.fs st.bk d).2.1 } : St)
      else st) = st1 at h
    have hinv1 : Inv fs0 st1 := by
      rw [← hst1]
      split
      · rename_i hc
        simp only [Bool.and_eq_true] at hc
        obtain ⟨c, m, hg⟩ : ∃ c m, st.fs.get d = some (.file c m) := by
          have := hc.1
          unfold FS.isFile at this
          cases hg : st.fs.get d with
          | none => simp [hg] at this
          | some e => cases e with
            | dir => simp [hg] at this
            | file c m => exact ⟨c, m, rfl⟩
        have hdm : d ∉ st.made := fun hm => by rw [(hinv.made_new d hm).2.2] at hg; cases hg
        have hdne : d ≠ [] := by intro e; rw [e, get_nil] at hg; cases hg
        have hfs : (Backups.backUpAndRemove st.fs st.bk d).1 = st.fs.erase d := by simp [Backups.backUpAndRemove, hg]
        refine ⟨?_, ?_, ?_, ?_⟩
        · intro x hx
          obtain ⟨h1, h2, h3⟩ := hinv.made_new x hx
          refine ⟨h1, h2, ?_⟩
          show (Backups.backUpAndRemove st.fs st.bk d).1.get x = _
          rw [hfs, get_erase_ne _ _ _ (fun e => hdm (by subst e; exact hx))]; exact h3
        · intro q hq
          show (Backups.backUpAndRemove st.fs st.bk d).1.get q = _ ∨ _
          rw [hfs]
          by_cases hqd : q = d
          · subst hqd
            right
            refine ⟨?_, get_erase_self _ _ hdne⟩
            rcases hinv.others q hq with h1 | ⟨_, h1⟩
            · exact ⟨c, m, by rw [← h1, hg]⟩
            · rw [hg] at h1; cases h1
          · rw [get_erase_ne _ _ _ hqd]; exact hinv.others q hq
        · intro x hx n hn
          apply hinv.closed x hx n
          intro e
          apply hn
          show (Backups.backUpAndRemove st.fs st.bk d).1.get _ = none
          rw [hfs]
          by_cases hqd : x ++ [n] = d
          · rw [hqd]; exact get_erase_self _ _ hdne
          · rw [get_erase_ne _ _ _ hqd]; exact e
        · intro x hx
          have hp := hinv.parent x hx
          show FS.isDir (Backups.backUpAndRemove st.fs st.bk d).1 x.dropLast = true
          rw [hfs]
          have hne : x.dropLast ≠ d := by
            intro e
            rw [e] at hp
            simp [FS.isDir, hg] at hp
          unfold FS.isDir at hp ⊢
          rw [get_erase_ne _ _ _ hne]; exact hp
      · exact hinv
    by_cases hf : failAt = some i
    · simp only [hf, if_true, Except.error.injEq] at h
      rw [← h]
      exact hinv1.unwind
    · simp only [hf, if_false] at h
      cases hm : st1.fs.mkdir d with
      | error e =>
        rw [hm] at h
        cases e with
        | fileExists => exact ih (i + 1) st1 st' hinv1 h
        | notFound => simp only [Except.error.injEq] at h; rw [← h]; exact hinv1.unwind
        | notADir => simp only [Except.error.injEq] at h; rw [← h]; exact hinv1.unwind
        | isADir => simp only [Except.error.injEq] at h; rw [← h]; exact hinv1.unwind
        | other => simp only [Except.error.injEq] at h; rw [← h]; exact hinv1.unwind
      | ok fs' =>
        rw [hm] at h
        apply ih (i + 1) _ st' ?_ h
        -- `mkdir d` succeeded: `d` was absent, its parent is a directory
        have hget := get_mkdir st1.fs fs' d
        have habs := mkdir_absent st1.fs fs' d hm
        have hdne : d ≠ [] := by intro e; subst e; simp [FS.mkdir] at hm
        have hdm : d ∉ st1.made := fun hx => by rw [(hinv1.made_new d hx).2.2] at habs; cases habs
        have hd0 : fs0.get d = none ∨ ∃ c m, fs0.get d = some (.file c m) := by
          rcases hinv1.others d hdm with h1 | ⟨h1, _⟩
          · left; rw [← h1]; exact habs
          · right; exact h1
        -- nothing of the start tree lies below `d`
        have hbelow0 : ∀ n, fs0.get (d ++ [n]) = none := by
          intro n
          by_contra hc
          have := hwf (d ++ [n]) (by simp) hc
          rw [show (d ++ [n]).dropLast = d by simp] at this
          rcases hd0 with h0 | ⟨c, m, h0⟩ <;> simp [FS.isDir, h0] at this
        have hpard : st1.fs.isDir d.dropLast = true := by
          unfold FS.mkdir at hm
          simp only [hdne, if_false] at hm
          unfold FS.isDir
          cases hpg : st1.fs.get (FS.parent d) with
          | none => simp [hpg] at hm
          | some e => cases e with
            | dir => have hpg' : st1.fs.get d.dropLast = some .dir := hpg
                     simp [hpg']
            | file c m => simp [hpg] at hm
        refine ⟨?_, ?_, ?_, ?_⟩
        · intro x hx
          rcases List.mem_append.mp hx with hx' | hx'
          · obtain ⟨h1, h2, h3⟩ := hinv1.made_new x hx'
            refine ⟨h1, h2, ?_⟩
            show fs'.get x = _
            rw [hget x hm]
            have : x ≠ d := fun e => hdm (by subst e; exact hx')
            simp [this, h3]
          · simp at hx'; subst hx'
            refine ⟨hdne, hd0, ?_⟩
            show fs'.get x = _
            rw [hget x hm]; simp
        · intro q hq
          have hq1 : q ∉ st1.made := fun hx => hq (List.mem_append_left _ hx)
          have hqd : q ≠ d := fun e => hq (by subst e; simp)
          show fs'.get q = _ ∨ _
          rw [hget q hm]
          simp only [hqd, if_false]
          exact hinv1.others q hq1
        · intro x hx n hn
          have hn' : fs'.get (x ++ [n]) ≠ none := hn
          rw [hget (x ++ [n]) hm] at hn'
          rcases List.mem_append.mp hx with hx' | hx'
          · by_cases he : x ++ [n] = d
            · rw [he]; simp
            · simp only [he, if_false] at hn'
              exact List.mem_append_left _ (hinv1.closed x hx' n hn')
          · simp at hx'; subst hx'
            -- an entry of the directory just made: there is none
            exfalso
            have he : x ++ [n] ≠ x := by intro e; have := congrArg List.length e; simp at this
            simp only [he, if_false] at hn'
            by_cases hmm : (x ++ [n]) ∈ st1.made
            · have hpp := hinv1.parent _ hmm
              rw [show (x ++ [n]).dropLast = x by simp] at hpp
              simp [FS.isDir, habs] at hpp
            · rcases hinv1.others _ hmm with h1 | ⟨_, h1⟩
              · rw [h1, hbelow0 n] at hn'; exact hn' rfl
              · exact hn' h1
        · intro x hx
          show fs'.isDir x.dropLast = true
          unfold FS.isDir
          rw [hget x.dropLast hm]
          by_cases he : x.dropLast = d
          · simp [he]
          · simp only [he, if_false]
            rcases List.mem_append.mp hx with hx' | hx'
            · exact hinv1.parent x hx'
            · simp at hx'; subst hx'; exact hpard

/-- the same, from the first `mkdir` on -/
theorem makeDirs_error (fs : FS) (bk : Backups.BK) (dirs oldCreated : List Path) (failAt : Option Nat) (hwf : TreeWF fs)
    (st' : St) (h : makeDirs fs bk dirs oldCreated failAt = .error st') :
    ∀ q, st'.fs.get q = fs.get q ∨ ((∃ c m, fs.get q = some (.file c m)) ∧ st'.fs.get q = none) :=
  loop_error oldCreated failAt fs hwf dirs 0 _ st'
    ⟨(fun d hd => by simp at hd), (fun q _ => Or.inl rfl), (fun d hd => by simp at hd), (fun d hd => by simp at hd)⟩ h

end MakeDirs
end FB
