/-
  C12 — clean removes exactly what the last build created (model: `Spec.clean` = `Impl.clean`,
  both `preClean` of the recorded outputs / created directories).
-/
import FB.Lemmas.Spec
import FB.Impl
namespace FB
open FS Spec

theorem foldl_eraseFiles_get (ps : List Path) (fs : FS) (q : Path) :
    (ps.foldl (fun fs p => if fs.isFile p then fs.erase p else fs) fs).get q = fs.get q ∨
    (q ∈ ps ∧ (∃ b m, fs.get q = some (.file b m)) ∧
      (ps.foldl (fun fs p => if fs.isFile p then fs.erase p else fs) fs).get q = none) := by
  induction ps generalizing fs with
  | nil => simp
  | cons p r ih =>
    simp only [List.foldl]
    by_cases hf : fs.isFile p = true
    · simp only [hf, if_true]
      have hp : p ≠ [] := by
        intro e; subst e; simp [isFile, get_nil] at hf
      rcases ih (fs.erase p) with h | ⟨hm, ⟨b, m, h1⟩, h2⟩
      · by_cases hq : q = p
        · subst hq
          right
          refine ⟨by simp, ?_, by rw [h, get_erase_self _ _ hp]⟩
          unfold isFile at hf
          split at hf
          · rename_i b m hg; exact ⟨b, m, hg⟩
          · cases hf
        · left; rw [h, get_erase_ne _ _ _ hq]
      · by_cases hq : q = p
        · subst hq; rw [get_erase_self _ _ hp] at h1; cases h1
        · right; exact ⟨by simp [hm], ⟨b, m, by rw [← get_erase_ne _ _ _ hq, h1]⟩, h2⟩
    · simp only [hf]
      rcases ih fs with h | ⟨hm, h1, h2⟩
      · left; simpa using h
      · right; exact ⟨by simp [hm], h1, by simpa using h2⟩

/-- C12 ("and nothing else"): whatever `clean` changes is a recorded output file, the cache file, or a
    recorded created directory — and it changes them only by removing them. -/
theorem C12_preClean_frame (fs : FS) (cf : Path) (r : Rec) (q : Path) :
    (preClean fs cf r).get q = fs.get q ∨
    ((preClean fs cf r).get q = none ∧
      ((q ∈ r.outputs ∧ ∃ b m, fs.get q = some (.file b m)) ∨
       (q = cf ∧ ∃ b m, fs.get q = some (.file b m)) ∨
       (q ∈ r.createdDirs ∧ fs.get q = some .dir))) := by
  unfold preClean
  simp only
  generalize hfs1 : (r.outputs.foldl (fun fs p => if fs.isFile p then fs.erase p else fs) fs) = fs1
  have h1 := foldl_eraseFiles_get r.outputs fs q
  rw [hfs1] at h1
  generalize hfs2 : (if fs1.isFile cf then fs1.erase cf else fs1) = fs2
  have h2 : fs2.get q = fs1.get q ∨ (q = cf ∧ (∃ b m, fs1.get q = some (.file b m)) ∧ fs2.get q = none) := by
    rw [← hfs2]
    by_cases hf : fs1.isFile cf = true
    · simp only [hf, if_true]
      have hp : cf ≠ [] := by intro e; subst e; simp [isFile, get_nil] at hf
      by_cases hq : q = cf
      · subst hq; right
        refine ⟨rfl, ?_, get_erase_self _ _ hp⟩
        unfold isFile at hf
        split at hf
        · rename_i b m hg; exact ⟨b, m, hg⟩
        · cases hf
      · left; exact get_erase_ne _ _ _ hq
    · simp [hf]
  rcases rmEmpty_get r.createdDirs fs2 q with h3 | ⟨hm, hd, hn⟩
  · rw [h3]
    rcases h2 with h2 | ⟨he, ⟨b, m, hb⟩, hn2⟩
    · rw [h2]
      rcases h1 with h1 | ⟨hm1, hb1, hn1⟩
      · left; exact h1
      · right; exact ⟨hn1, Or.inl ⟨hm1, hb1⟩⟩
    · rcases h1 with h1 | ⟨hm1, hb1, hn1⟩
      · right; exact ⟨hn2, Or.inr (Or.inl ⟨he, b, m, by rw [← h1, hb]⟩)⟩
      · rw [hn1] at hb; cases hb
  · right
    refine ⟨hn, Or.inr (Or.inr ⟨hm, ?_⟩)⟩
    rcases h2 with h2 | ⟨_, _, hn2⟩
    · rcases h1 with h1 | ⟨_, _, hn1⟩
      · rw [← h1, ← h2, hd]
      · rw [h2, hn1] at hd; cases hd
    · rw [hn2] at hd; cases hd

/-- after `preClean` the cache file is gone -/
theorem preClean_cf_gone (fs : FS) (cf : Path) (r : Rec) (b : String) (m : Nat)
    (h : fs.get cf = some (.file b m)) : (preClean fs cf r).get cf = none := by
  rcases C12_preClean_frame fs cf r cf with h' | ⟨hn, _⟩
  · -- unchanged is impossible: the cache file is a regular file, so it is erased
    exfalso
    unfold preClean at h'
    simp only at h'
    generalize hfs1 : (r.outputs.foldl (fun fs p => if fs.isFile p then fs.erase p else fs) fs) = fs1 at h'
    have h1 := foldl_eraseFiles_get r.outputs fs cf
    rw [hfs1] at h1
    have hp : cf ≠ [] := by intro e; subst e; rw [get_nil] at h; cases h
    rcases h1 with h1 | ⟨_, _, hn1⟩
    · have hf : fs1.isFile cf = true := by simp [isFile, h1, h]
      simp only [hf, if_true] at h'
      rw [rmEmpty_none _ _ _ (get_erase_self _ _ hp), h] at h'
      cases h'
    · have : (if fs1.isFile cf = true then fs1.erase cf else fs1).get cf = none := by
        by_cases hf : fs1.isFile cf = true
        · simp [hf, get_erase_self _ _ hp]
        · simp [hf, hn1]
      rw [rmEmpty_none _ _ _ this, h] at h'
      cases h'
  · exact hn

/-- C12: with no cache file, `clean` does nothing. -/
theorem C12_clean_noop_without_cache (w : World) (cf : Path) (n : Option String)
    (h : w.fs.get cf = none) : (Spec.clean w cf n).world = w ∧ (Spec.clean w cf n).res = .ok .null := by
  simp [Spec.clean, World.cacheState, h]

/-- C12: calling `clean` twice equals calling it once. -/
theorem C12_clean_idempotent (w : World) (cf : Path) (n : Option String) :
    (Spec.clean (Spec.clean w cf n).world cf n).world = (Spec.clean w cf n).world := by
  cases hc : w.cacheState cf with
  | absent => simp [Spec.clean, hc]
  | isDir => simp [Spec.clean, hc]
  | corrupt => simp [Spec.clean, hc]
  | valid r =>
    by_cases hn : n.isSome ∧ n ≠ some r.buildName
    · simp [Spec.clean, hc, hn]
    · have hfile : ∃ b m, w.fs.get cf = some (.file b m) := by
        unfold World.cacheState at hc
        split at hc <;> try cases hc
        rename_i b m hg
        exact ⟨b, m, hg⟩
      obtain ⟨b, m, hg⟩ := hfile
      have hgone := preClean_cf_gone w.fs cf r b m hg
      have : (Spec.clean w cf n).world = { w with fs := preClean w.fs cf r } := by
        simp [Spec.clean, hc, hn]
      rw [this]
      simp [Spec.clean, World.cacheState, hgone]

/-- the implementation model cleans with the same function on the record's projection -/
theorem C12_impl_clean_is_preClean (w : KWorld) (cf : Path) (r : CacheRec)
    (h : w.cacheState cf = .valid r) :
    (Impl.clean w cf none).world.fs = preClean w.fs cf r.toRec := by
  simp [Impl.clean, h]

end FB
