/-
  C01 — cache transparency of a whole run.  With any old cache whose records are *valid* (each record
  that can be looked up is one the function it names can produce — `CacheOK`), running a program through
  the cache logic (`Impl.run`: lookups, replays, reuse, re-execution on a miss, any nesting) returns what
  running it from scratch (`Spec.run`) returns, and ends in the same state up to modification times.
-/
import FB.Lemmas.RunRefine
import FB.Props.C03Impl
import FB.Props.C06
namespace FB
open FS Spec

/-- `Reach p c`: running `p` can get to the sub-program `c` (along some answers and results) -/
inductive Reach : Prog → Prog → Prop
  | here (p : Prog) : Reach p p
  | query (q k a c) : Reach (k a) c → Reach (.query q k) c
  | write (b mt k c) : Reach k c → Reach (.write b mt k) c
  | bfBody (path cmp fname args kwargs body k c) : Reach body c →
      Reach (.buildFile path cmp fname args kwargs body k) c
  | bfCont (path cmp fname args kwargs body k r c) : Reach (k r) c →
      Reach (.buildFile path cmp fname args kwargs body k) c
  | sbBody (fname args kwargs body k c) : Reach body c → Reach (.subbuild fname args kwargs body k) c
  | sbCont (fname args kwargs body k r c) : Reach (k r) c → Reach (.subbuild fname args kwargs body k) c

theorem Reach.trans {a b c : Prog} (h1 : Reach a b) (h2 : Reach b c) : Reach a c := by
  induction h1 with
  | here => exact h2
  | query q k a _ _ ih => exact .query q k a _ (ih h2)
  | write b mt k _ _ ih => exact .write b mt k _ (ih h2)
  | bfBody path cmp fname args kwargs body k _ _ ih => exact .bfBody _ _ _ _ _ _ _ _ (ih h2)
  | bfCont path cmp fname args kwargs body k r _ _ ih => exact .bfCont _ _ _ _ _ _ _ r _ (ih h2)
  | sbBody fname args kwargs body k _ _ ih => exact .sbBody _ _ _ _ _ _ (ih h2)
  | sbCont fname args kwargs body k r _ _ ih => exact .sbCont _ _ _ _ _ r _ (ih h2)

/-- no function mentioned in the record trees changed its version -/
def VersionsOk (old : CacheRec) (nv : List (String × Json)) (subs : List Op) : Prop :=
  ∀ f, Op.mentionsL f subs = true → isEqual (verOf old.versions f) (verOf nv f) = true

/-- Validity of the old cache for the program being run: a record that a call of the program can look
    up, whose functions have unchanged versions, is a record the called function can produce ("function
    bodies change only together with their version"; arguments that are JSON-equal are the same
    arguments), and the comparison results recorded in it identify contents (automatic for HASH; the
    user's assumption for METADATA). -/
structure CacheOK (ds : Nat) (old : CacheRec) (nv : List (String × Json)) (prog : Prog) : Prop where
  file : ∀ path cmp fname args kwargs body k, Reach prog (.buildFile path cmp fname args kwargs body k) →
    ∀ p' rcmp rargs rkwargs subs ret cmpRes sf content,
      old.getFile path = some (.buildFile p' rcmp fname rargs rkwargs subs ret cmpRes false sf content) →
      isEqual rargs args = true → isEqual rkwargs kwargs = true →
      isEqual (verOf old.versions fname) (verOf nv fname) = true → VersionsOk old nv subs →
      Follows ds body (some path) subs (.ok ret) (some content) ∧
      FaithfulOps (fun _ _ _ => True) subs ∧
      (∃ m0, cmpRes = View.cmpResult rcmp content m0) ∧
      (∀ b m, isEqual cmpRes (View.cmpResult rcmp b m) = true → b = content)
  sub : ∀ fname args kwargs body k, Reach prog (.subbuild fname args kwargs body k) →
    ∀ f a kk subs ret sf,
      old.getSub (subKey fname args kwargs) = some (.subbuild f a kk subs ret false sf) →
      isEqual (verOf old.versions fname) (verOf nv fname) = true → VersionsOk old nv subs →
      ∃ wb, Follows ds body none subs (.ok ret) wb ∧ FaithfulOps (fun _ _ _ => True) subs

theorem CacheOK.of_reach {ds old nv} {p c : Prog} (h : CacheOK ds old nv p) (hr : Reach p c) : CacheOK ds old nv c :=
  ⟨fun path cmp fname args kwargs body k hc => h.file path cmp fname args kwargs body k (hr.trans hc),
   fun fname args kwargs body k hc => h.sub fname args kwargs body k (hr.trans hc)⟩

/-- what a successful `_build_file_cache_lookup` means -/
theorem lookupFile_full (s : KSt) (path : Path) (cmp : Cmp) (fname : String) (args kwargs : Json)
    (made : List Path) (op : Op) (s2 : KSt)
    (h : Impl.lookupFile s path cmp fname args kwargs made = some (op, s2)) :
    ∃ p' rcmp rargs rkwargs subs ret cmpRes sf content s2',
      s.old.getFile path = some (.buildFile p' rcmp fname rargs rkwargs subs ret cmpRes false sf content) ∧
      Impl.versionOk s fname = true ∧ isEqual rargs args = true ∧ isEqual rkwargs kwargs = true ∧
      Impl.outputMatches s path rcmp cmpRes = true ∧ Impl.replayOps subs s = some s2' ∧
      Impl.cmpShelf s2' path cmp ≠ .null ∧
      op = .buildFile path cmp fname args kwargs subs ret (Impl.cmpShelf s2' path cmp) false false content ∧
      s2 = Impl.adopt s2' path made := by
  unfold Impl.lookupFile at h
  split at h
  · rename_i p' rcmp rfname rargs rkwargs subs ret cmpRes sf content hget
    split at h
    · rename_i hc
      simp only [Bool.and_eq_true, decide_eq_true_eq] at hc
      obtain ⟨⟨⟨⟨hfn, hv⟩, ha⟩, hk⟩, hom⟩ := hc
      subst hfn
      split at h
      · cases h
      · rename_i s2' hs2
        split at h
        · cases h
        · rename_i hnn
          simp only [Option.some.injEq, Prod.mk.injEq] at h
          exact ⟨p', rcmp, rargs, rkwargs, subs, ret, cmpRes, sf, content, s2', hget, hv, ha, hk, hom, hs2,
            (by intro e; exact hnn e), h.1.symm, h.2.symm⟩
    · cases h
  · cases h

/-- a record tree that replays mentions only functions whose version is unchanged -/
theorem versionsOk_of_replay (subs : List Op) (s s' : KSt) (hwf : s.WF)
    (h : Impl.replayOps subs s = some s') : VersionsOk s.old s.newVersions subs := by
  intro f hm
  cases hv : Impl.versionOk s f with
  | true => exact hv
  | false =>
    rw [C06_changed_invalidatesL subs s f hwf hv hm] at h; cases h

/-- how the two final states of a run are related -/
structure RunRel (ds : Nat) (sp' : SpecSt) (s s' : KSt) : Prop where
  sim : SpecSt.Sim sp' s'.sp
  pc : PendClaimed sp'
  ps : PendSim sp' s'.sp
  dsz : sp'.dirSize = ds
  ff : sp'.failFiles = []
  fsb : sp'.failSubs = []
  old : s'.old = s.old
  nv : s'.newVersions = s.newVersions
  wf : s'.WF
  claimed : ∀ p ∈ s.sp.claimedFiles, p ∈ s'.sp.claimedFiles
  inProg : s'.sp.inProg = s.sp.inProg

theorem RunRel.rebase {ds : Nat} {sp' : SpecSt} {s s1 s' : KSt} (h : RunRel ds sp' s1 s')
    (ho : s1.old = s.old) (hn : s1.newVersions = s.newVersions)
    (hc : ∀ p ∈ s.sp.claimedFiles, p ∈ s1.sp.claimedFiles) (hi : s1.sp.inProg = s.sp.inProg) :
    RunRel ds sp' s s' :=
  ⟨h.sim, h.pc, h.ps, h.dsz, h.ff, h.fsb, h.old.trans ho, h.nv.trans hn, h.wf,
    fun p hp => h.claimed p (hc p hp), h.inProg.trans hi⟩

theorem PendSim.cons {a b : SpecSt} (h : PendSim a b) (p : Path) (c : String) (m m' : Nat) (a' b' : SpecSt)
    (ha : a'.pending = (p, c, m) :: a.pending) (hb : b'.pending = (p, c, m') :: b.pending) : PendSim a' b' := by
  intro q
  rw [ha, hb]
  by_cases hq : p = q
  · subst hq; rw [pendingFind_cons_self, pendingFind_cons_self]; rfl
  · rw [pendingFind_cons_ne _ _ _ _ _ hq, pendingFind_cons_ne _ _ _ _ _ hq]; exact h q

/-- **C01, cache transparency of a run.**  For every program, every target, every pair of states that
    agree up to modification times, every old cache that is valid for the program: the cache logic
    returns what the from-scratch semantics returns, and the final states agree up to modification
    times. -/
theorem run_refines {ds : Nat} (prog : Prog) : ∀ (t : Option Path) (sp : SpecSt) (s : KSt),
    SpecSt.Sim sp s.sp → sp.dirSize = ds → sp.failFiles = [] → sp.failSubs = [] → s.WF →
    PendClaimed sp → PendSim sp s.sp → (∀ p, t = some p → p ∈ s.sp.claimedFiles) →
    CacheOK ds s.old s.newVersions prog →
    (run prog t sp).1 = (Impl.run prog t s).1 ∧ RunRel ds (run prog t sp).2.1 s (Impl.run prog t s).2.1 := by
  induction prog with
  | ret v =>
    intro t sp s hsim hds hff hfs hwf hpc hps _ _
    cases hv : sanitize v <;> simp only [run, Impl.run, hv] <;>
      exact ⟨trivial, hsim, hpc, hps, hds, hff, hfs, rfl, rfl, hwf, fun _ h => h, rfl⟩
  | raise e =>
    intro t sp s hsim hds hff hfs hwf hpc hps _ _
    exact ⟨rfl, hsim, hpc, hps, hds, hff, hfs, rfl, rfl, hwf, fun _ h => h, rfl⟩
  | query q k ih =>
    intro t sp s hsim hds hff hfs hwf hpc hps htc hok
    simp only [run, Impl.run]
    rw [View.sim_answer (sim_visible hsim), hsim.dirSize]
    exact ih _ t sp s hsim hds hff hfs hwf hpc hps htc
      (hok.of_reach (.query q k _ _ (.here _)))
  | write b mt k ih =>
    intro t sp s hsim hds hff hfs hwf hpc hps htc hok
    have hok' := hok.of_reach (.write b mt k _ (.here _))
    cases t with
    | none => simp only [run, Impl.run]; exact ih none sp s hsim hds hff hfs hwf hpc hps htc hok'
    | some p =>
      simp only [run, Impl.run]
      have hpcl : p ∈ sp.claimedFiles := by rw [hsim.claimedFiles]; exact htc p rfl
      generalize hsp' : ({ sp with pending := (p, b, mt.getD sp.clock) :: sp.pending, clock := sp.clock + 1 } : SpecSt) = sp'
      generalize hs' : (Impl.liftSp s fun sp => { sp with pending := (p, b, mt.getD sp.clock) :: sp.pending, clock := sp.clock + 1 }) = s'
      have hsim' : SpecSt.Sim sp' s'.sp := by
        subst hsp' hs'
        exact ⟨hsim.fs, hsim.cacheFile, hsim.dirSize, hsim.claimedFiles, hsim.claimedSubs, hsim.inProg,
          hsim.outputs, hsim.createdDirs, hsim.failFiles, hsim.failSubs⟩
      have hpc' : PendClaimed sp' := by
        subst hsp'
        intro q hq
        have hne : p ≠ q := fun e => hq (e ▸ hpcl)
        show pendingFind ((p, b, mt.getD sp.clock) :: sp.pending) q = none
        rw [pendingFind_cons_ne _ _ _ _ _ hne]; exact hpc q hq
      have hps' : PendSim sp' s'.sp := by
        subst hsp' hs'
        exact hps.cons p b _ _ _ _ rfl rfl
      have := ih (some p) sp' s' hsim' (by subst hsp'; exact hds) (by subst hsp'; exact hff) (by subst hsp'; exact hfs)
        (by subst hs'; exact hwf) hpc' hps' (by subst hs'; exact htc) (by subst hs'; exact hok')
      exact ⟨this.1, this.2.rebase (by subst hs'; rfl) (by subst hs'; rfl) (by subst hs'; exact fun _ h => h) (by subst hs'; rfl)⟩
  | buildFile path cmp fname args kwargs body k ihb ihk =>
    intro t sp s hsim hds hff hfs hwf hpc hps htc hok
    have hokB := hok.of_reach (.bfBody path cmp fname args kwargs body k _ (.here _))
    have hokK := fun r => hok.of_reach (.bfCont path cmp fname args kwargs body k r _ (.here _))
    rcases sim_bfSetup hsim path with ⟨e, hea, heb⟩ | ⟨a1, b1, made, ha, hb, hsim1, hpa, hpb⟩
    · -- the setup is refused in both semantics
      simp only [run, Impl.run, hea, heb]
      have := ihk (.error e) t (setupFailState sp path e) (Impl.liftSp s fun sp => setupFailState sp path e)
        ⟨hsim.fs, hsim.cacheFile, hsim.dirSize, hsim.claimedFiles, hsim.claimedSubs, hsim.inProg, hsim.outputs,
          hsim.createdDirs, by simp [setupFailState, Impl.liftSp, hsim.failFiles], hsim.failSubs⟩
        hds (by simp [setupFailState, hff]) hfs hwf hpc hps htc (hokK _)
      exact ⟨this.1, this.2.rebase rfl rfl (fun _ h => h) rfl⟩
    · obtain ⟨hb1, hncl, hcf, hnd, hdm, _⟩ := bfSetup_ok_fields _ _ _ _ hb
      obtain ⟨ha1, hnclA, _, _, _, _⟩ := bfSetup_ok_fields _ _ _ _ ha
      subst hb1
      simp only [Impl.run, hb]
      generalize hk1 : Impl.afterSetup s (setupState s.sp path made) path made = k1
      have hk1sp : k1.sp = setupState s.sp path made := by subst hk1; rfl
      have hk1old : k1.old = s.old := by subst hk1; rfl
      have hk1nv : k1.newVersions = s.newVersions := by subst hk1; rfl
      have hwfk1 : k1.WF := by
        intro p hp
        rw [hk1sp] at hp ⊢
        simp only [setupState, List.mem_cons] at hp ⊢
        rcases hp with rfl | hp
        · exact Or.inl rfl
        · exact Or.inr (hwf p hp)
      have hclk1 : path ∈ k1.sp.claimedFiles := by rw [hk1sp]; simp [setupState]
      have hcl01 : ∀ p ∈ s.sp.claimedFiles, p ∈ k1.sp.claimedFiles := by
        intro p hp; rw [hk1sp]; simp [setupState, hp]
      have hip1 : k1.sp.inProg = path :: s.sp.inProg := by rw [hk1sp]; rfl
      have hpk1 : k1.sp.pending = s.sp.pending := by rw [hk1sp]; rfl
      -- the from-scratch side: the state in which the function starts
      obtain ⟨s1', hs1'⟩ : ∃ x : SpecSt, x = { a1 with invLog := ⟨fname, some path, args, kwargs⟩ :: a1.invLog } := ⟨_, rfl⟩
      have hcl1 : s1'.claimedFiles = path :: sp.claimedFiles := by rw [hs1', ha1]; rfl
      have hpend1 : s1'.pending = sp.pending := by rw [hs1']; exact hpa
      have hsim1' : SpecSt.Sim s1' k1.sp := by
        rw [hs1', hk1sp]
        exact ⟨hsim1.fs, hsim1.cacheFile, hsim1.dirSize, hsim1.claimedFiles, hsim1.claimedSubs, hsim1.inProg,
          hsim1.outputs, hsim1.createdDirs, hsim1.failFiles, hsim1.failSubs⟩
      have hds1 : s1'.dirSize = ds := by rw [hsim1'.dirSize, hk1sp]; show s.sp.dirSize = ds; rw [← hsim.dirSize, hds]
      have hff1 : s1'.failFiles = [] := by rw [hsim1'.failFiles, hk1sp]; show s.sp.failFiles = []; rw [← hsim.failFiles, hff]
      have hfs1 : s1'.failSubs = [] := by rw [hsim1'.failSubs, hk1sp]; show s.sp.failSubs = []; rw [← hsim.failSubs, hfs]
      have hpc1 : PendClaimed s1' := by
        intro q hq
        rw [hpend1]; apply hpc q
        intro hc; apply hq; rw [hcl1]; exact List.mem_cons_of_mem _ hc
      have hps1 : PendSim s1' k1.sp := by
        intro q; rw [hpend1, hpk1]; exact hps q
      have hpath0 : pendingFind sp.pending path = none := hpc path hnclA
      cases hl : Impl.lookupFile k1 path cmp fname args kwargs made with
      | some r =>
        -- served from the cache
        obtain ⟨op, s2⟩ := r
        obtain ⟨p', rcmp, rargs, rkwargs, subs, ret, cmpRes, sf, content, s2', hget, hv, hia, hik, hom, hrep, hnn, hop, hs2⟩ :=
          lookupFile_full _ _ _ _ _ _ _ _ _ hl
        subst hop
        have hvok := versionsOk_of_replay subs k1 s2' hwfk1 hrep
        rw [hk1old, hk1nv] at hvok
        rw [hk1old] at hget
        obtain ⟨hF, hfa, ⟨m0, hcr⟩, houtF⟩ := hok.file path cmp fname args kwargs body k (.here _) p' rcmp rargs rkwargs subs ret
          cmpRes sf content hget hia hik (by rw [← hk1old, ← hk1nv]; exact hv) hvok
        subst hcr
        obtain ⟨hpne, bb, mm, hshelf, heqq⟩ := outputMatches_shelf k1 path rcmp content m0 hom
        have hbc : bb = content := houtF bb mm heqq
        have hsound := replay_sound hF s1' k1 s2' hsim1' hds1 hff1 hfs1 hwfk1 hpc1
          (fun p hp => by injection hp with hp; subst hp; exact hclk1)
          (FaithfulOps.mono (fun _ _ _ _ => trivial) subs hfa) hrep
        obtain ⟨hrb, hsim2, hpc2, hpend2⟩ := hsound
        obtain ⟨_, hwritten⟩ := hpend2 path rfl
        obtain ⟨mw, hwr⟩ := hwritten content rfl
        have k12 := replayOps_keeps subs k1 s2' hwfk1 hrep
        have hshelf2 : s2'.shelf.get path = some (.file bb mm) := by
          rw [k12.shelfInProg path (by rw [hip1]; simp)]; exact hshelf
        have hrp := run_pending body (some path) s1' hpc1 (fun p hp => by injection hp with hp; subst hp; rw [hcl1]; simp)
        generalize hrbdef : run body (some path) s1' = rb at hrb hsim2 hpc2 hwr hrp
        obtain ⟨r2, sp2, tr2⟩ := rb
        simp only at hrb hsim2 hpc2 hwr hrp
        subst hrb
        have hfin : bfFinish sp2 path made (.ok ret) =
            (.ok ret, { sp2 with inProg := sp2.inProg.erase path,
                                 pending := sp2.pending.filter (fun x => x.1 ≠ path),
                                 fs := sp2.fs.set path (.file content mw), outputs := path :: sp2.outputs,
                                 createdDirs := made ++ sp2.createdDirs }) := by
          unfold bfFinish
          simp only [hwr]
        have hsim3 : SpecSt.Sim (bfFinish sp2 path made (.ok ret)).2 s2.sp := by
          rw [hfin, hs2]
          simp only [Impl.adopt, hshelf2, hpne, if_false]
          exact ⟨hsim2.fs.set path _ _ (by simp [Entry.sim, hbc]), hsim2.cacheFile, hsim2.dirSize,
            hsim2.claimedFiles, hsim2.claimedSubs, by simp [hsim2.inProg], by simp [hsim2.outputs],
            by simp [hsim2.createdDirs], hsim2.failFiles, hsim2.failSubs⟩
        have hpc3 : PendClaimed (bfFinish sp2 path made (.ok ret)).2 := by
          intro q hq
          rw [bfFinish_claimed] at hq
          rw [bfFinish_pending, pendingFind_filter]
          split
          · rfl
          · exact hpc2 q hq
        have hs2pend : s2.sp.pending = s.sp.pending := by
          rw [hs2]; simp only [Impl.adopt]
          rw [replayOps_pending subs k1 s2' hrep, hpk1]
        have hps3 : PendSim (bfFinish sp2 path made (.ok ret)).2 s2.sp := by
          intro q
          rw [bfFinish_pending, pendingFind_filter, hs2pend]
          split
          · rename_i e; subst e
            have := hps q; rw [hpath0] at this; exact this
          · rename_i hq
            rw [hrp.2 q (fun e => hq (by injection e with e; exact e.symm)), hpend1]; exact hps q
        have hold2 : s2.old = s.old := by rw [hs2]; simp only [Impl.adopt]; rw [k12.old, hk1old]
        have hnv2 : s2.newVersions = s.newVersions := by rw [hs2]; simp only [Impl.adopt]; rw [k12.newVersions, hk1nv]
        have hip2 : s2.sp.inProg = s.sp.inProg := by
          rw [hs2]; simp only [Impl.adopt]; rw [k12.inProg, hip1]; simp [List.erase_cons_head]
        have hcl2 : ∀ p ∈ s.sp.claimedFiles, p ∈ s2.sp.claimedFiles := by
          intro p hp; rw [hs2]; simp only [Impl.adopt]; exact k12.claimed p (hcl01 p hp)
        have hwf2 : s2.WF := by
          intro p hp; rw [hip2] at hp; exact hcl2 p (hwf p hp)
        have hds3 : (bfFinish sp2 path made (.ok ret)).2.dirSize = ds := by
          rw [hfin]; show sp2.dirSize = ds
          rw [hsim2.dirSize, k12.dirSize, hk1sp]; show s.sp.dirSize = ds; rw [← hsim.dirSize, hds]
        have hff3 : (bfFinish sp2 path made (.ok ret)).2.failFiles = [] := by
          rw [hfin]; show sp2.failFiles = []
          rw [hsim2.failFiles, k12.failFiles, hk1sp]; show s.sp.failFiles = []; rw [← hsim.failFiles, hff]
        have hfs3 : (bfFinish sp2 path made (.ok ret)).2.failSubs = [] := by
          rw [hfin]; show sp2.failSubs = []
          rw [hsim2.failSubs, k12.failSubs, hk1sp]; show s.sp.failSubs = []; rw [← hsim.failSubs, hfs]
        have hcont := ihk (.ok ret) t (bfFinish sp2 path made (.ok ret)).2 s2 hsim3 hds3 hff3 hfs3 hwf2 hpc3 hps3
          (fun p hp => hcl2 p (htc p hp)) (by rw [hold2, hnv2]; exact hokK _)
        have hfin1 : (bfFinish sp2 path made (.ok ret)).1 = .ok ret := by rw [hfin]
        obtain ⟨hp1, hp2⟩ := run_buildFile_proj path cmp fname args kwargs body k t sp a1 s1' made ha hs1'
          (.ok ret) sp2 tr2 hrbdef
        rw [hfin1] at hp1 hp2
        rw [hp1, hp2]
        exact ⟨hcont.1, hcont.2.rebase hold2 hnv2 hcl2 hip2⟩
      | none =>
        -- not served: the function runs in both semantics
        simp only
        generalize hk1' : Impl.missStart k1 path ⟨fname, some path, args, kwargs⟩ = k1'
        have hk1'sp : k1'.sp.fs = k1.sp.fs ∧ k1'.sp.pending = k1.sp.pending ∧ k1'.sp.claimedFiles = k1.sp.claimedFiles ∧
            k1'.sp.inProg = k1.sp.inProg ∧ k1'.old = k1.old ∧ k1'.newVersions = k1.newVersions := by
          subst hk1'; exact ⟨rfl, rfl, rfl, rfl, rfl, rfl⟩
        have hsimk1' : SpecSt.Sim s1' k1'.sp := by
          subst hk1'
          exact ⟨hsim1'.fs, hsim1'.cacheFile, hsim1'.dirSize, hsim1'.claimedFiles, hsim1'.claimedSubs, hsim1'.inProg,
            hsim1'.outputs, hsim1'.createdDirs, hsim1'.failFiles, hsim1'.failSubs⟩
        have hwfk1' : k1'.WF := by subst hk1'; exact hwfk1
        have hps1' : PendSim s1' k1'.sp := by
          intro q; rw [hk1'sp.2.1]; exact hps1 q
        have hb := ihb (some path) s1' k1' hsimk1' hds1 hff1 hfs1 hwfk1' hpc1 hps1'
          (fun p hp => by injection hp with hp; subst hp; rw [hk1'sp.2.2.1]; exact hclk1)
          (by rw [hk1'sp.2.2.2.2.1, hk1'sp.2.2.2.2.2, hk1old, hk1nv]; exact hokB)
        have hrp := run_pending body (some path) s1' hpc1 (fun p hp => by injection hp with hp; subst hp; rw [hcl1]; simp)
        generalize hrbdef : run body (some path) s1' = rb at hb hrp
        obtain ⟨r2, sp2, tr2⟩ := rb
        generalize hkb : Impl.run body (some path) k1' = kb at hb ⊢
        obtain ⟨r2', s2, subs2⟩ := kb
        simp only at hb hrp ⊢
        obtain ⟨hreq, hrel⟩ := hb
        subst hreq
        obtain ⟨hfe, hsim3, hps3⟩ := sim_bfFinish hrel.sim hrel.ps path made r2
        have hcl3 : (bfFinish sp2 path made r2).2.claimedFiles = sp2.claimedFiles := bfFinish_claimed _ _ _ _
        have hpc3 : PendClaimed (bfFinish sp2 path made r2).2 := by
          intro q hq
          rw [hcl3] at hq
          rw [bfFinish_pending, pendingFind_filter]
          split
          · rfl
          · exact hrel.pc q hq
        have hds3 : (bfFinish sp2 path made r2).2.dirSize = ds := by
          have : (bfFinish sp2 path made r2).2.dirSize = sp2.dirSize := by
            unfold bfFinish; cases r2 with
            | error e => rfl
            | ok j => simp only; split <;> rfl
          rw [this]; exact hrel.dsz
        have hff3 : (bfFinish sp2 path made r2).2.failFiles = [] := by
          have : (bfFinish sp2 path made r2).2.failFiles = sp2.failFiles := by
            unfold bfFinish; cases r2 with
            | error e => rfl
            | ok j => simp only; split <;> rfl
          rw [this]; exact hrel.ff
        have hfs3 : (bfFinish sp2 path made r2).2.failSubs = [] := by
          have : (bfFinish sp2 path made r2).2.failSubs = sp2.failSubs := by
            unfold bfFinish; cases r2 with
            | error e => rfl
            | ok j => simp only; split <;> rfl
          rw [this]; exact hrel.fsb
        have hclK : (bfFinish s2.sp path made r2).2.claimedFiles = s2.sp.claimedFiles := bfFinish_claimed _ _ _ _
        have hipK : (bfFinish s2.sp path made r2).2.inProg = s.sp.inProg := by
          rw [bfFinish_inProg, hrel.inProg, hk1'sp.2.2.2.1, hip1]; simp [List.erase_cons_head]
        generalize hfinK : bfFinish s2.sp path made r2 = finK at hfe hsim3 hps3 hclK hipK ⊢
        obtain ⟨r3', sp3'⟩ := finK
        simp only at hfe hsim3 hps3 hclK hipK ⊢
        generalize hs3 : Impl.withSp s2 sp3' = s3
        have hs3sp : s3.sp = sp3' := by subst hs3; rfl
        have hs3old : s3.old = s.old := by subst hs3; show s2.old = s.old; rw [hrel.old, hk1'sp.2.2.2.2.1, hk1old]
        have hs3nv : s3.newVersions = s.newVersions := by
          subst hs3; show s2.newVersions = s.newVersions; rw [hrel.nv, hk1'sp.2.2.2.2.2, hk1nv]
        have hcl03 : ∀ p ∈ s.sp.claimedFiles, p ∈ s3.sp.claimedFiles := by
          intro p hp; rw [hs3sp, hclK]
          exact hrel.claimed p (by rw [hk1'sp.2.2.1]; exact hcl01 p hp)
        have hip3 : s3.sp.inProg = s.sp.inProg := by rw [hs3sp]; exact hipK
        have hwf3 : s3.WF := by
          intro p hp; rw [hip3] at hp; exact hcl03 p (hwf p hp)
        have hcont := ihk (bfFinish sp2 path made r2).1 t (bfFinish sp2 path made r2).2 s3
          (by rw [hs3sp]; exact hsim3) hds3 hff3 hfs3 hwf3 hpc3 (by rw [hs3sp]; exact hps3)
          (fun p hp => hcl03 p (htc p hp)) (by rw [hs3old, hs3nv]; exact hokK _)
        obtain ⟨hp1, hp2⟩ := run_buildFile_proj path cmp fname args kwargs body k t sp a1 s1' made ha hs1'
          r2 sp2 tr2 hrbdef
        rw [hp1, hp2, ← hfe]
        exact ⟨hcont.1, hcont.2.rebase hs3old hs3nv hcl03 hip3⟩
  | subbuild fname args kwargs body k ihb ihk =>
    intro t sp s hsim hds hff hfs hwf hpc hps htc hok
    have hokB := hok.of_reach (.sbBody fname args kwargs body k _ (.here _))
    have hokK := fun r => hok.of_reach (.sbCont fname args kwargs body k r _ (.here _))
    have hfsK : s.sp.failSubs = [] := by rw [← hsim.failSubs, hfs]
    by_cases hdup : sp.claimedSubs.any (heq (subKey fname args kwargs)) = true
    · have hdupK : s.sp.claimedSubs.any (heq (subKey fname args kwargs)) = true := by rw [← hsim.claimedSubs]; exact hdup
      simp only [run, Impl.run, hdup, hdupK, if_true]
      have := ihk (.error (.runtime .dupSub)) t sp s hsim hds hff hfs hwf hpc hps htc (hokK _)
      exact this
    · have hdupK : ¬ s.sp.claimedSubs.any (heq (subKey fname args kwargs)) = true := by rw [← hsim.claimedSubs]; exact hdup
      have hdup' : sp.claimedSubs.any (heq (subKey fname args kwargs)) = false := by simpa using hdup
      simp only [Impl.run, hdupK, if_false, hfsK, List.any_nil, Bool.false_eq_true]
      generalize hk1 : Impl.subClaim s (subKey fname args kwargs) = k1
      have hk1f : k1.sp.fs = s.sp.fs ∧ k1.sp.pending = s.sp.pending ∧ k1.sp.claimedFiles = s.sp.claimedFiles ∧
          k1.sp.inProg = s.sp.inProg ∧ k1.old = s.old ∧ k1.newVersions = s.newVersions := by
        subst hk1; exact ⟨rfl, rfl, rfl, rfl, rfl, rfl⟩
      have hwfk1 : k1.WF := by subst hk1; exact hwf
      obtain ⟨s1, hs1⟩ : ∃ x : SpecSt, x = subStart sp fname args kwargs := ⟨_, rfl⟩
      have hsim1 : SpecSt.Sim s1 k1.sp := by
        subst hk1; rw [hs1]
        exact ⟨hsim.fs, hsim.cacheFile, hsim.dirSize, hsim.claimedFiles, by simp [subStart, Impl.subClaim, Impl.liftSp, hsim.claimedSubs],
          hsim.inProg, hsim.outputs, hsim.createdDirs, hsim.failFiles, hsim.failSubs⟩
      have hds1 : s1.dirSize = ds := by rw [hs1]; exact hds
      have hff1 : s1.failFiles = [] := by rw [hs1]; exact hff
      have hfs1 : s1.failSubs = [] := by rw [hs1]; exact hfs
      have hpc1 : PendClaimed s1 := by rw [hs1]; exact hpc
      have hpend1 : s1.pending = sp.pending := by rw [hs1]; rfl
      have hps1 : PendSim s1 k1.sp := by intro q; rw [hpend1, hk1f.2.1]; exact hps q
      have hrp := run_pending body none s1 hpc1 (fun p hp => by cases hp)
      cases hl : Impl.lookupSub k1 fname args kwargs with
      | some r =>
        obtain ⟨op, s2⟩ := r
        obtain ⟨f, a, kk, subs, ret, sf, hget, hv, hrep, hop⟩ := lookupSub_some _ _ _ _ _ _ hl
        subst hop
        have hvok := versionsOk_of_replay subs k1 s2 hwfk1 hrep
        rw [hk1f.2.2.2.2.1, hk1f.2.2.2.2.2] at hvok
        rw [hk1f.2.2.2.2.1] at hget
        obtain ⟨wb, hF, hfa⟩ := hok.sub fname args kwargs body k (.here _) f a kk subs ret sf hget
          (by rw [← hk1f.2.2.2.2.1, ← hk1f.2.2.2.2.2]; exact hv) hvok
        have hsound := replay_sound hF s1 k1 s2 hsim1 hds1 hff1 hfs1 hwfk1 hpc1 (fun p hp => nomatch hp)
          (FaithfulOps.mono (fun _ _ _ _ => trivial) subs hfa) hrep
        obtain ⟨hrb, hsim2, hpc2, _⟩ := hsound
        have k12 := replayOps_keeps subs k1 s2 hwfk1 hrep
        generalize hrbdef : run body none s1 = rb at hrb hsim2 hpc2 hrp
        obtain ⟨r2, sp2, tr2⟩ := rb
        simp only at hrb hsim2 hpc2 hrp
        subst hrb
        have hps2 : PendSim sp2 s2.sp := by
          intro q
          rw [hrp.2 q (by simp), hpend1, replayOps_pending subs k1 s2 hrep, hk1f.2.1]; exact hps q
        have hcont := ihk (.ok ret) t sp2 s2 hsim2
          (by rw [hsim2.dirSize, k12.dirSize]; subst hk1; show s.sp.dirSize = ds; rw [← hsim.dirSize, hds])
          (by rw [hsim2.failFiles, k12.failFiles]; subst hk1; show s.sp.failFiles = []; rw [← hsim.failFiles, hff])
          (by rw [hsim2.failSubs, k12.failSubs]; subst hk1; exact hfsK)
          (k12.wf hwfk1) hpc2 hps2
          (fun p hp => k12.claimed p (by rw [hk1f.2.2.1]; exact htc p hp))
          (by rw [k12.old, k12.newVersions, hk1f.2.2.2.2.1, hk1f.2.2.2.2.2]; exact hokK _)
        obtain ⟨hp1, hp2⟩ := run_subbuild_proj fname args kwargs body k t sp s1 hdup' hfs hs1 (.ok ret) sp2 tr2 hrbdef
        rw [hp1, hp2]
        exact ⟨hcont.1, hcont.2.rebase (k12.old.trans hk1f.2.2.2.2.1) (k12.newVersions.trans hk1f.2.2.2.2.2)
          (fun p hp => k12.claimed p (by rw [hk1f.2.2.1]; exact hp)) (k12.inProg.trans hk1f.2.2.2.1)⟩
      | none =>
        simp only
        generalize hk1' : Impl.subStart k1 ⟨fname, none, args, kwargs⟩ = k1'
        have hk1'f : k1'.sp.pending = k1.sp.pending ∧ k1'.sp.claimedFiles = k1.sp.claimedFiles ∧
            k1'.sp.inProg = k1.sp.inProg ∧ k1'.old = k1.old ∧ k1'.newVersions = k1.newVersions := by
          subst hk1'; exact ⟨rfl, rfl, rfl, rfl, rfl⟩
        have hsim1' : SpecSt.Sim s1 k1'.sp := by
          subst hk1'
          exact ⟨hsim1.fs, hsim1.cacheFile, hsim1.dirSize, hsim1.claimedFiles, hsim1.claimedSubs, hsim1.inProg,
            hsim1.outputs, hsim1.createdDirs, hsim1.failFiles, hsim1.failSubs⟩
        have hwfk1' : k1'.WF := by subst hk1'; exact hwfk1
        have hps1' : PendSim s1 k1'.sp := by intro q; rw [hk1'f.1]; exact hps1 q
        have hb := ihb none s1 k1' hsim1' hds1 hff1 hfs1 hwfk1' hpc1 hps1' (fun p hp => nomatch hp)
          (by rw [hk1'f.2.2.2.1, hk1'f.2.2.2.2, hk1f.2.2.2.2.1, hk1f.2.2.2.2.2]; exact hokB)
        generalize hrbdef : run body none s1 = rb at hb
        obtain ⟨r2, sp2, tr2⟩ := rb
        generalize hkb : Impl.run body none k1' = kb at hb ⊢
        obtain ⟨r2', s2, subs2⟩ := kb
        simp only at hb ⊢
        obtain ⟨hreq, hrel⟩ := hb
        subst hreq
        have hold2 : s2.old = s.old := by rw [hrel.old, hk1'f.2.2.2.1, hk1f.2.2.2.2.1]
        have hnv2 : s2.newVersions = s.newVersions := by rw [hrel.nv, hk1'f.2.2.2.2, hk1f.2.2.2.2.2]
        have hcl2 : ∀ p ∈ s.sp.claimedFiles, p ∈ s2.sp.claimedFiles := by
          intro p hp; exact hrel.claimed p (by rw [hk1'f.2.1, hk1f.2.2.1]; exact hp)
        have hip2 : s2.sp.inProg = s.sp.inProg := by rw [hrel.inProg, hk1'f.2.2.1, hk1f.2.2.2.1]
        have hcont := ihk r2 t sp2 s2 hrel.sim hrel.dsz hrel.ff hrel.fsb hrel.wf hrel.pc hrel.ps
          (fun p hp => hcl2 p (htc p hp)) (by rw [hold2, hnv2]; exact hokK _)
        obtain ⟨hp1, hp2⟩ := run_subbuild_proj fname args kwargs body k t sp s1 hdup' hfs hs1 r2 sp2 tr2 hrbdef
        rw [hp1, hp2]
        exact ⟨hcont.1, hcont.2.rebase hold2 hnv2 hcl2 hip2⟩

end FB
