/-
  C02 — the step lemmas of `C02Steps` / `C02StepsRoom` as one closure theorem: the disk-changing steps of a build
  form a small language (`Steps`); every state reachable by it is `Undoable` (`steps_undoable`), hence `_roll_back`
  restores the regular files the build found (`steps_rollback`).  Which real operation is which step is what the
  ties check (`rbcheck` evaluates `Undoable` on every real rollback the harness provokes; `mdcheck`, `mrcheck`,
  `bkcheck` tie `_make_dirs`, `_make_room`, `FileBackups` to the models these steps are taken from).
-/
import FB.Props.C02Steps
import FB.Props.C02StepsRoom
import FB.Props.C14PrepareF
namespace FB
namespace Rollback
open FS Spec Backups BuildDirs

/-- **the disk-changing steps of a build**, as a language: what `_make_dirs`, `_make_room`, `back_up_and_remove`,
    the user functions' writes, the clean-up after a failed call, the unwinding of directories - and the whole set-up of a
    `build_file` under an injected fault - do to the tree `P`
    and to the undo bookkeeping `r`, from the tree `P0` the build found -/
inductive Steps (P0 : FS) (oldOutputs oldCreatedDirs : List Path) : FS → RB → Prop
  | start : Steps P0 oldOutputs oldCreatedDirs P0 { oldOutputs := oldOutputs, oldCreatedDirs := oldCreatedDirs }
  | mkdir (P r d) : Steps P0 oldOutputs oldCreatedDirs P r → P.get d = none → d ≠ [] →
      Steps P0 oldOutputs oldCreatedDirs (P.set d .dir) { r with createdDirs := d :: r.createdDirs }
  | moveAside (P r p c0 m0) : Steps P0 oldOutputs oldCreatedDirs P r → P.get p = some (.file c0 m0) → p ∉ r.newOutputs →
      p ∉ r.bk.saved.map (·.1) → Steps P0 oldOutputs oldCreatedDirs (P.erase p) (afterMoveAside r p (.file c0 m0))
  | overwrite (P r p c0 m0 c m) : Steps P0 oldOutputs oldCreatedDirs P r → p ≠ [] → P.get p = some (.file c0 m0) →
      p ∉ r.newOutputs → p ∉ r.bk.saved.map (·.1) →
      Steps P0 oldOutputs oldCreatedDirs ((P.erase p).set p (.file c m)) (afterOverwrite r p (.file c0 m0))
  | writeNew (P r p c m) : Steps P0 oldOutputs oldCreatedDirs P r → p ≠ [] → P.get p = none → p ∉ r.bk.saved.map (·.1) →
      Steps P0 oldOutputs oldCreatedDirs (P.set p (.file c m)) (afterWriteNew r p)
  | dropOutput (P r p) : Steps P0 oldOutputs oldCreatedDirs P r → (P0.isFile p = true → p ∈ r.bk.saved.map (·.1)) →
      Steps P0 oldOutputs oldCreatedDirs (P.erase p) r
  | rmEmpty (P r ds) : Steps P0 oldOutputs oldCreatedDirs P r → Steps P0 oldOutputs oldCreatedDirs (Spec.rmEmpty P ds) r
  | eraseDir (P r d) : Steps P0 oldOutputs oldCreatedDirs P r → P.get d = some .dir →
      Steps P0 oldOutputs oldCreatedDirs (P.erase d) r
  /-- the whole set-up of a `build_file` (`_prepare_file_creation`: `_make_room` where needed, then `_make_dirs`), hit by
      an `OSError` at ANY of its mutating calls or by none (`FB.PrepareF`), whatever its outcome -/
  | prepare (P r) (vd vf : Path → Bool) (oldCreated : List Path) (fa : Option Nat) (fuel : Nat) (target : Path) (dirs : List Path) :
      Steps P0 oldOutputs oldCreatedDirs P r →
      (∀ q, target <+: q → q ∉ r.newOutputs ∧ q ∉ r.bk.saved.map (·.1)) → dirs.Nodup →
      (∀ d ∈ dirs, d ∉ r.newOutputs ∧ d ∉ r.bk.saved.map (·.1) ∧ ¬ target <+: d) →
      Steps P0 oldOutputs oldCreatedDirs (PrepareF.prepare vd vf oldCreated fa fuel P r.bk target dirs).st.fs
        (rbOf r (PrepareF.prepare vd vf oldCreated fa fuel P r.bk target dirs).st)

/-- every state a build reaches by such steps can be undone -/
theorem steps_undoable {P0 : FS} {oo ocd : List Path} {P : FS} {r : RB} (h : Steps P0 oo ocd P r) : Undoable P0 P r := by
  induction h with
  | start => exact Undoable.start P0 oo ocd
  | mkdir P r d _ hd hne ih => exact ih.mkdir d hd hne
  | moveAside P r p c0 m0 _ hg hn hs ih => exact ih.moveAside p c0 m0 hg hn hs
  | overwrite P r p c0 m0 c m _ hne hg hn hs ih => exact ih.overwrite p c0 m0 c m hne hg hn hs
  | writeNew P r p c m _ hne hg hs ih => exact ih.writeNew p c m hne hg hs
  | dropOutput P r p _ hsv ih => exact ih.dropOutput p hsv
  | rmEmpty P r ds _ ih => exact ih.rmEmpty ds
  | eraseDir P r d _ hd ih => exact ih.eraseDir d hd
  | prepare P r vd vf oldCreated fa fuel target dirs _ hbelow hnd hdirs ih =>
    exact prepare_undoable vd vf oldCreated fa fuel P0 r P target dirs ih hbelow hnd hdirs

/-- **C02 over the step language**: wherever a build made of such steps is abandoned, `_roll_back` gives back every
    regular file of the tree the build found — same bytes, same modification time — and leaves no other -/
theorem steps_rollback {P0 : FS} {oo ocd : List Path} {P : FS} {r : RB} (hwf0 : TreeWF P0) (h : Steps P0 oo ocd P r) :
    ∀ p c m, P0.get p = some (.file c m) ↔ (rollBack P r).get p = some (.file c m) :=
  undoable_rollback hwf0 (steps_undoable h)

theorem wf_single : TreeWF [((["f"] : Path), Entry.file "old" 1)] := by
  intro p hp hg
  have : p = ["f"] := by
    by_contra hne
    apply hg
    have h2 : ¬ (["f"] : Path) = p := fun e => hne e.symm
    simp [FS.get, hp, h2]
  subst this
  simp [FS.isDir, FS.get]

/-- non-vacuity: a build that made a directory, overwrote a foreign file and wrote a new one -/
example : ∃ P r, Steps [(["f"], .file "old" 1)] [] [] P r ∧ P.get ["f"] = some (.file "new" 9) ∧ P.get ["d", "n"] = some (.file "n" 3) ∧
    (rollBack P r).get ["f"] = some (.file "old" 1) ∧ (rollBack P r).get ["d", "n"] ≠ some (.file "n" 3) := by
  have s0 : Steps [(["f"], .file "old" 1)] [] [] _ _ := Steps.start
  have s1 := Steps.mkdir _ _ ["d"] s0 (by decide) (by decide)
  have s2 := Steps.overwrite _ _ ["f"] "old" 1 "new" 9 s1 (by decide) (by decide) (by decide) (by decide)
  have s3 := Steps.writeNew _ _ ["d", "n"] "n" 3 s2 (by decide) (by decide) (by decide)
  refine ⟨_, _, s3, by decide, by decide, ?_, ?_⟩
  · exact (steps_rollback wf_single s3 ["f"] "old" 1).mp (by decide)
  · intro hc
    have := (steps_rollback wf_single s3 ["d", "n"] "n" 3).mpr hc
    revert this; decide

end Rollback
end FB
