/-
  C14 — `_make_dirs` under a fault at any of its mutating calls (`FB.MakeDirsF`: the mkdirs AND the renames that move
  old outputs out of directory positions): in whichever way it fails, the tree it leaves differs from the one it found
  only by regular files that are now in the undo log (`makeDirsF_error`); without a fault, and where the fault strikes
  a `mkdir` of a run that moves nothing aside, the model is `FB.MakeDirs` (`loop_none`).
-/
import FB.MakeDirsF
import FB.Props.C10MakeDirs
namespace FB
namespace MakeDirsF
open FS Spec BuildDirs
open MakeDirs (St)

/-- moving a regular file to the undo log keeps the loop invariant of `FB.MakeDirs` -/
theorem inv_backup {fs0 : FS} {st : St} (hinv : MakeDirs.Inv fs0 st) (d : Path) (hfile : st.fs.isFile d = true) :
    MakeDirs.Inv fs0 { st with fs := (Backups.backUpAndRemove st.fs st.bk d).1, bk := (Backups.backUpAndRemove st.fs st.bk d).2.1 } := by
  obtain ⟨c, m, hg⟩ : ∃ c m, st.fs.get d = some (.file c m) := by
    unfold FS.isFile at hfile
    cases hg : st.fs.get d with
    | none => simp [hg] at hfile
    | some e => cases e with
      | dir => simp [hg] at hfile
      | file c m => exact ⟨c, m, rfl⟩
  have hdm : d ∉ st.made := fun hm => by rw [(hinv.made_new d hm).2.2] at hg; cases hg
  have hdne : d ≠ [] := by intro e; rw [e, get_nil] at hg; cases hg
  have hfs : (Backups.backUpAndRemove st.fs st.bk d).1 = st.fs.erase d := by simp [Backups.backUpAndRemove, hg]
  refine ⟨?_, ?_, ?_, ?_⟩
  · intro x hx
    obtain ⟨h1, h2, h3⟩ := hinv.made_new x hx
    refine ⟨h1, h2, ?_⟩
    show (Backups.backUpAndRemove st.fs st.bk d).1.get x = _
    rw [hfs, get_erase_ne _ _ _ (fun e => hdm (by subst e; exact hx))]; exact h3
  · intro q hq
    show (Backups.backUpAndRemove st.fs st.bk d).1.get q = _ ∨ _
    rw [hfs]
    by_cases hqd : q = d
    · subst hqd
      right
      refine ⟨?_, get_erase_self _ _ hdne⟩
      rcases hinv.others q hq with h1 | ⟨_, h1⟩
      · exact ⟨c, m, by rw [← h1, hg]⟩
      · rw [hg] at h1; cases h1
    · rw [get_erase_ne _ _ _ hqd]; exact hinv.others q hq
  · intro x hx n hn
    apply hinv.closed x hx n
    intro e
    apply hn
    show (Backups.backUpAndRemove st.fs st.bk d).1.get _ = none
    rw [hfs]
    by_cases hqd : x ++ [n] = d
    · rw [hqd]; exact get_erase_self _ _ hdne
    · rw [get_erase_ne _ _ _ hqd]; exact e
  · intro x hx
    have hp := hinv.parent x hx
    show FS.isDir (Backups.backUpAndRemove st.fs st.bk d).1 x.dropLast = true
    rw [hfs]
    have hne : x.dropLast ≠ d := by
      intro e
      rw [e] at hp
      simp [FS.isDir, hg] at hp
    unfold FS.isDir at hp ⊢
    rw [get_erase_ne _ _ _ hne]; exact hp

/-- a `mkdir` that succeeds keeps it -/
theorem inv_mkdir {fs0 : FS} (hwf : TreeWF fs0) {st1 : St} (hinv1 : MakeDirs.Inv fs0 st1) (d : Path) (fs' : FS)
    (hm : st1.fs.mkdir d = .ok fs') : MakeDirs.Inv fs0 { st1 with fs := fs', made := st1.made ++ [d] } := by
  have hget := get_mkdir st1.fs fs' d
  have habs := mkdir_absent st1.fs fs' d hm
  have hdne : d ≠ [] := by intro e; subst e; simp [FS.mkdir] at hm
  have hdm : d ∉ st1.made := fun hx => by rw [(hinv1.made_new d hx).2.2] at habs; cases habs
  have hd0 : fs0.get d = none ∨ ∃ c m, fs0.get d = some (.file c m) := by
    rcases hinv1.others d hdm with h1 | ⟨h1, _⟩
    · left; rw [← h1]; exact habs
    · right; exact h1
  have hbelow0 : ∀ n, fs0.get (d ++ [n]) = none := by
    intro n
    by_contra hc
    have := hwf (d ++ [n]) (by simp) hc
    rw [show (d ++ [n]).dropLast = d by simp] at this
    rcases hd0 with h0 | ⟨c, m, h0⟩ <;> simp [FS.isDir, h0] at this
  have hpard : st1.fs.isDir d.dropLast = true := by
    unfold FS.mkdir at hm
    simp only [hdne, if_false] at hm
    unfold FS.isDir
    cases hpg : st1.fs.get (FS.parent d) with
    | none => simp [hpg] at hm
    | some e => cases e with
      | dir => have hpg' : st1.fs.get d.dropLast = some .dir := hpg
               simp [hpg']
      | file c m => simp [hpg] at hm
  refine ⟨?_, ?_, ?_, ?_⟩
  · intro x hx
    rcases List.mem_append.mp hx with hx' | hx'
    · obtain ⟨h1, h2, h3⟩ := hinv1.made_new x hx'
      refine ⟨h1, h2, ?_⟩
      show fs'.get x = _
      rw [hget x hm]
      have : x ≠ d := fun e => hdm (by subst e; exact hx')
      simp [this, h3]
    · simp at hx'; subst hx'
      refine ⟨hdne, hd0, ?_⟩
      show fs'.get x = _
      rw [hget x hm]; simp
  · intro q hq
    have hq1 : q ∉ st1.made := fun hx => hq (List.mem_append_left _ hx)
    have hqd : q ≠ d := fun e => hq (by subst e; simp)
    show fs'.get q = _ ∨ _
    rw [hget q hm]
    simp only [hqd, if_false]
    exact hinv1.others q hq1
  · intro x hx n hn
    have hn' : fs'.get (x ++ [n]) ≠ none := hn
    rw [hget (x ++ [n]) hm] at hn'
    rcases List.mem_append.mp hx with hx' | hx'
    · by_cases he : x ++ [n] = d
      · rw [he]; simp
      · simp only [he, if_false] at hn'
        exact List.mem_append_left _ (hinv1.closed x hx' n hn')
    · simp at hx'; subst hx'
      exfalso
      have he : x ++ [n] ≠ x := by intro e; have := congrArg List.length e; simp at this
      simp only [he, if_false] at hn'
      by_cases hmm : (x ++ [n]) ∈ st1.made
      · have hpp := hinv1.parent _ hmm
        rw [show (x ++ [n]).dropLast = x by simp] at hpp
        simp [FS.isDir, habs] at hpp
      · rcases hinv1.others _ hmm with h1 | ⟨_, h1⟩
        · rw [h1, hbelow0 n] at hn'; exact hn' rfl
        · exact hn' h1
  · intro x hx
    show fs'.isDir x.dropLast = true
    unfold FS.isDir
    rw [hget x.dropLast hm]
    by_cases he : x.dropLast = d
    · simp [he]
    · simp only [he, if_false]
      rcases List.mem_append.mp hx with hx' | hx'
      · exact hinv1.parent x hx'
      · simp at hx'; subst hx'; exact hpard

/-- the move-aside step: the invariant is kept when it goes through, and the error state is an unwound invariant state -/
theorem aside_spec {fs0 : FS} (oldCreated : List Path) (failAt : Option Nat) (d : Path) (i : Nat) (st : St) (hinv : MakeDirs.Inv fs0 st) :
    (∀ st1 i1, aside oldCreated failAt d i st = .ok (st1, i1) → MakeDirs.Inv fs0 st1) ∧
    (∀ e, aside oldCreated failAt d i st = .error e → e.1 = unwound st) := by
  unfold aside
  by_cases hc : (st.fs.isFile d && oldCreated.contains d) = true
  · simp only [hc, if_true]
    by_cases hf : failAt = some i
    · simp only [hf, if_true]
      exact ⟨(fun _ _ h => by cases h), fun e h => by simp only [Except.error.injEq] at h; rw [← h]⟩
    · simp only [hf, if_false]
      refine ⟨fun st1 i1 h => ?_, (fun e h => by cases h)⟩
      simp only [Except.ok.injEq, Prod.mk.injEq] at h
      rw [← h.1]
      simp only [Bool.and_eq_true] at hc
      exact inv_backup hinv d hc.1
  · simp only [hc, Bool.false_eq_true, if_false]
    refine ⟨fun st1 i1 h => ?_, (fun e h => by cases h)⟩
    simp only [Except.ok.injEq, Prod.mk.injEq] at h
    rw [← h.1]; exact hinv

/-- **no leftovers, whichever call fails**: a rename that moves an old output aside, a mkdir, an injected fault at
    either - the tree `_make_dirs` leaves differs from the one it found only by regular files now in the undo log -/
theorem loop_error (oldCreated : List Path) (failAt : Option Nat) (fs0 : FS) (hwf : TreeWF fs0) :
    ∀ (dirs : List Path) (i : Nat) (st : St) (e : St × Nat), MakeDirs.Inv fs0 st → loop oldCreated failAt dirs i st = .error e →
    ∀ q, e.1.fs.get q = fs0.get q ∨ ((∃ c m, fs0.get q = some (.file c m)) ∧ e.1.fs.get q = none) := by
  intro dirs
  induction dirs with
  | nil => intro i st e _ h; simp [loop] at h
  | cons d rest ih =>
    intro i st e hinv h
    rw [loop] at h
    have hspec := aside_spec (fs0 := fs0) oldCreated failAt d i st hinv
    cases ha : aside oldCreated failAt d i st with
    | error e1 =>
      rw [ha] at h
      simp only [Except.error.injEq] at h
      rw [← h, hspec.2 e1 ha]
      exact hinv.unwind
    | ok p =>
      obtain ⟨st1, i1⟩ := p
      rw [ha] at h
      simp only at h
      have hinv1 := hspec.1 st1 i1 ha
      by_cases hf : failAt = some i1
      · simp only [hf, if_true, Except.error.injEq] at h
        rw [← h]; exact hinv1.unwind
      · simp only [hf, if_false] at h
        cases hm : st1.fs.mkdir d with
        | error err =>
          rw [hm] at h
          cases err with
          | fileExists => exact ih (i1 + 1) st1 e hinv1 h
          | notFound => simp only [Except.error.injEq] at h; rw [← h]; exact hinv1.unwind
          | notADir => simp only [Except.error.injEq] at h; rw [← h]; exact hinv1.unwind
          | isADir => simp only [Except.error.injEq] at h; rw [← h]; exact hinv1.unwind
          | other => simp only [Except.error.injEq] at h; rw [← h]; exact hinv1.unwind
        | ok fs' =>
          rw [hm] at h
          exact ih (i1 + 1) _ e (inv_mkdir hwf hinv1 d fs' hm) h

/-- the same, from the first call on -/
theorem makeDirsF_error (fs : FS) (bk : Backups.BK) (dirs oldCreated : List Path) (failAt : Option Nat) (hwf : TreeWF fs)
    (e : St × Nat) (h : makeDirs fs bk dirs oldCreated failAt = .error e) :
    ∀ q, e.1.fs.get q = fs.get q ∨ ((∃ c m, fs.get q = some (.file c m)) ∧ e.1.fs.get q = none) :=
  loop_error oldCreated failAt fs hwf dirs 0 _ e
    ⟨(fun d hd => by simp at hd), (fun q _ => Or.inl rfl), (fun d hd => by simp at hd), (fun d hd => by simp at hd)⟩ h

/-- forget the call counter -/
def proj : Except (St × Nat) (St × Nat) → Except St St
  | .ok p => .ok p.1
  | .error p => .error p.1

/-- **without a fault the model is `FB.MakeDirs.loop`** (whose tie and theorems therefore carry over) -/
theorem loop_none (oldCreated : List Path) : ∀ (dirs : List Path) (i j : Nat) (st : St),
    proj (loop oldCreated none dirs i st) = MakeDirs.loop oldCreated none dirs j st := by
  intro dirs
  induction dirs with
  | nil => intro i j st; simp [loop, MakeDirs.loop, proj]
  | cons d rest ih =>
    intro i j st
    rw [loop, MakeDirs.loop]
    unfold aside
    by_cases hc : (st.fs.isFile d && oldCreated.contains d) = true
    · simp only [hc, if_true]
      have hf : ∀ k : Nat, ¬ ((none : Option Nat) = some k) := by intro k; simp
      simp only [hf, if_false]
      cases hm : ((Backups.backUpAndRemove st.fs st.bk d).1).mkdir d with
      | ok fs' => exact ih _ _ _
      | error err => cases err <;> first | exact ih _ _ _ | rfl
    · simp only [hc, Bool.false_eq_true, if_false]
      have hf : ∀ k : Nat, ¬ ((none : Option Nat) = some k) := by intro k; simp
      simp only [hf, if_false]
      cases hm : st.fs.mkdir d with
      | ok fs' => exact ih _ _ _
      | error err => cases err <;> first | exact ih _ _ _ | rfl

end MakeDirsF
end FB
