/-
  `build_dirs.py` in general (with failed builds around), on top of `created_files.py`:
  * the reservation counts of `BuildDirs` evolve exactly like the started-counts of `CreatedFiles` (`Shadow`,
    `started_shadow`, `error_shadow`: both run the same two loops, `countsStarted` / `countsError`), so the proved
    invariant of `CreatedFiles` transfers — `hasCount_iff_live`: within the protocol a directory is reserved exactly
    if a live output lies below it;
  * `started_general` / `error_general`: what the two calls do to the sets "created" and "created, then virtually
    removed" whatever these hold.
-/
import FB.Props.BuildDirsStarted
import FB.Props.CreatedFilesInv
namespace FB
namespace BuildDirs

def lookupCount (cnt : List (Path × Nat)) (d : Path) : Nat :=
  match cnt.find? (fun x => x.1 = d) with
  | some (_, n) => n
  | none => 0

/-- what the loop of `started_building_file` does to the reservation counts (the same loop in `build_dirs.py`
    and `created_files.py`) -/
def countsStarted (cnt : List (Path × Nat)) (parent : Path) : List (Path × Nat) :=
  if lookupCount cnt parent > 0 then setCount cnt parent (lookupCount cnt parent + 1)
  else if h : parent = [] then setCount cnt parent (lookupCount cnt parent + 1)
  else countsStarted (setCount cnt parent (lookupCount cnt parent + 1)) parent.dropLast
termination_by parent.length
decreasing_by
  simp only [List.length_dropLast]
  have : parent.length ≠ 0 := by simpa using h
  omega

theorem startedLoop_counts (cds : List Path) : ∀ (n : Nat) (parent : Path) (b : BD) (locked : List Path),
    parent.length = n → (startedLoop b cds parent locked).1.counts = countsStarted b.counts parent := by
  intro n
  induction n with
  | zero =>
    intro parent b locked hl
    have hp : parent = [] := List.length_eq_zero_iff.mp hl
    subst hp
    rw [startedLoop, countsStarted]
    have hg : getCount b [] = lookupCount b.counts [] := rfl
    rw [hg]
    split
    · rfl
    · simp only [dite_true]
      split <;> rfl
  | succ n ih =>
    intro parent b locked hl
    have hpne : parent ≠ [] := by intro e; subst e; simp at hl
    rw [startedLoop, countsStarted]
    have hg : getCount b parent = lookupCount b.counts parent := rfl
    rw [hg]
    split
    · rfl
    · simp only [hpne, dite_false]
      split
      · simp only
        rw [ih _ _ _ (by simp [List.length_dropLast, hl])]
      · rw [ih _ _ _ (by simp [List.length_dropLast, hl])]

theorem cf_startedLoop_counts : ∀ (n : Nat) (parent : Path) (c : CreatedFiles.CF),
    parent.length = n → (CreatedFiles.startedLoop c parent).count = countsStarted c.count parent := by
  intro n
  induction n with
  | zero =>
    intro parent c hl
    have hp : parent = [] := List.length_eq_zero_iff.mp hl
    subst hp
    rw [CreatedFiles.startedLoop, countsStarted]
    have hg : CreatedFiles.getCount c [] = lookupCount c.count [] := rfl
    rw [hg]
    split
    · rfl
    · simp only [dite_true]
      rw [(CreatedFiles.addToSub_fields _ _).2.1]
      rfl
  | succ n ih =>
    intro parent c hl
    have hpne : parent ≠ [] := by intro e; subst e; simp at hl
    rw [CreatedFiles.startedLoop, countsStarted]
    have hg : CreatedFiles.getCount c parent = lookupCount c.count parent := rfl
    rw [hg]
    split
    · rfl
    · simp only [hpne, dite_false]
      rw [ih _ _ (by simp [List.length_dropLast, hl]), (CreatedFiles.addToSub_fields _ _).2.1]
      rfl

theorem registerUp_counts (cds : List Path) : ∀ (n : Nat) (parent : Path) (b : BD) (locked : List Path),
    parent.length = n → (registerUp b cds parent locked).1.counts = b.counts := by
  intro n
  induction n with
  | zero =>
    intro parent b locked hl
    have hp : parent = [] := List.length_eq_zero_iff.mp hl
    subst hp
    rw [registerUp]
    by_cases hc : ((cds.contains [] || b.errorCreated.contains []) && !b.created.contains [] && hasCount b []) = true
    · simp only [hc, if_true, dite_true]
    · simp only [hc, dite_true]; rfl
  | succ n ih =>
    intro parent b locked hl
    have hpne : parent ≠ [] := by intro e; subst e; simp at hl
    rw [registerUp]
    by_cases hc : ((cds.contains parent || b.errorCreated.contains parent) && !b.created.contains parent && hasCount b parent) = true
    · simp only [hc, if_true, hpne, dite_false]
      rw [ih _ _ _ (by simp [List.length_dropLast, hl])]
    · simp only [hc, hpne, dite_false]
      rw [ih _ _ _ (by simp [List.length_dropLast, hl])]; rfl

/-- the reservation counts of `BuildDirs` evolve exactly like the started-counts of `CreatedFiles` -/
def Shadow (b : BD) (c : CreatedFiles.CF) : Prop := b.counts = c.count

theorem started_shadow (b : BD) (c : CreatedFiles.CF) (p : Path) (cds : List Path) (hs : Shadow b c) :
    Shadow (started b p cds).1 (CreatedFiles.started c p) := by
  unfold started CreatedFiles.started
  cases p with
  | nil => exact hs
  | cons a r =>
    have h1 := startedLoop_counts cds _ (a :: r).dropLast { b with removedFiles := discard b.removedFiles (a :: r) } [] rfl
    have h2 := cf_startedLoop_counts _ (a :: r).dropLast c rfl
    simp only
    unfold Shadow
    split
    · rw [h1, h2]; show countsStarted b.counts _ = _; rw [hs]
    · rw [registerUp_counts cds _ _ _ _ rfl, h1, h2]; show countsStarted b.counts _ = _; rw [hs]




/-- what the loop of `error_building_file` does to the reservation counts; `none`: `KeyError` -/
def countsError (cnt : List (Path × Nat)) (parent : Path) : Option (List (Path × Nat)) :=
  match cnt.find? (fun x => x.1 = parent) with
  | none => none
  | some (_, n) =>
    if n - 1 > 0 then some (setCount cnt parent (n - 1))
    else if h : parent = [] then some (cnt.filter (fun x => x.1 ≠ parent))
    else countsError (cnt.filter (fun x => x.1 ≠ parent)) parent.dropLast
termination_by parent.length
decreasing_by
  simp only [List.length_dropLast]
  have : parent.length ≠ 0 := by simpa using h
  omega

theorem errorLoop_counts : ∀ (n : Nat) (parent : Path) (b : BD), parent.length = n →
    (errorLoop b parent).map (·.counts) = countsError b.counts parent := by
  intro n
  induction n with
  | zero =>
    intro parent b hl
    have hp : parent = [] := List.length_eq_zero_iff.mp hl
    subst hp
    rw [errorLoop, countsError]
    cases hf : b.counts.find? (fun x => x.1 = ([] : Path)) with
    | none => rfl
    | some x =>
      obtain ⟨_, k⟩ := x
      simp only
      by_cases hk : k - 1 > 0
      · simp only [hk, if_true, Option.map_some]
      · simp only [hk, if_false, dite_true, Option.map_some]
        split <;> rfl
  | succ n ih =>
    intro parent b hl
    have hpne : parent ≠ [] := by intro e; subst e; simp at hl
    rw [errorLoop, countsError]
    cases hf : b.counts.find? (fun x => x.1 = parent) with
    | none => rfl
    | some x =>
      obtain ⟨_, k⟩ := x
      simp only
      by_cases hk : k - 1 > 0
      · simp only [hk, if_true, Option.map_some]
      · simp only [hk, if_false, hpne, dite_false]
        split
        · rw [ih _ _ (by simp [List.length_dropLast, hl])]
        · rw [ih _ _ (by simp [List.length_dropLast, hl])]

theorem removeFromSub_count (c c2 : CreatedFiles.CF) (p : Path) (h : CreatedFiles.removeFromSub c p = some c2) :
    c2.count = c.count := by
  unfold CreatedFiles.removeFromSub at h
  split at h
  · simp at h; subst h; rfl
  · simp only at h
    split at h
    · cases h
    · split at h
      · simp at h; subst h; rfl
      · cases h

theorem cf_errorLoop_counts : ∀ (n : Nat) (parent : Path) (c c' : CreatedFiles.CF), parent.length = n →
    CreatedFiles.errorLoop c parent = some c' → countsError c.count parent = some c'.count := by
  intro n
  induction n with
  | zero =>
    intro parent c c' hl he
    have hp : parent = [] := List.length_eq_zero_iff.mp hl
    subst hp
    rw [CreatedFiles.errorLoop] at he
    rw [countsError]
    cases hf : c.count.find? (fun x => x.1 = ([] : Path)) with
    | none => rw [hf] at he; cases he
    | some x =>
      obtain ⟨_, k⟩ := x
      rw [hf] at he
      simp only at he ⊢
      by_cases hk : k - 1 > 0
      · simp only [hk, if_true, Option.some.injEq] at he ⊢
        subst he; rfl
      · simp only [hk, if_false, dite_true] at he ⊢
        split at he
        · cases he
        · split at he
          · cases he
          · rename_i c2 hr
            simp only [Option.some.injEq] at he
            subst he
            rw [removeFromSub_count _ _ _ hr]
            rfl
  | succ n ih =>
    intro parent c c' hl he
    have hpne : parent ≠ [] := by intro e; subst e; simp at hl
    rw [CreatedFiles.errorLoop] at he
    rw [countsError]
    cases hf : c.count.find? (fun x => x.1 = parent) with
    | none => rw [hf] at he; cases he
    | some x =>
      obtain ⟨_, k⟩ := x
      rw [hf] at he
      simp only at he ⊢
      by_cases hk : k - 1 > 0
      · simp only [hk, if_true, Option.some.injEq] at he ⊢
        subst he; rfl
      · simp only [hk, if_false, hpne, dite_false] at he ⊢
        split at he
        · cases he
        · split at he
          · cases he
          · rename_i c2 hr
            have := ih _ _ _ (by simp [List.length_dropLast, hl]) he
            rw [removeFromSub_count _ _ _ hr] at this
            exact this

theorem error_shadow (b : BD) (c c' : CreatedFiles.CF) (p : Path) (hs : Shadow b c)
    (he : CreatedFiles.error c p = some c') : ∃ b', error b p = some b' ∧ Shadow b' c' := by
  unfold error
  unfold CreatedFiles.error at he
  cases p with
  | nil => simp only [Option.some.injEq] at he; subst he; exact ⟨b, rfl, hs⟩
  | cons a r =>
    simp only at he ⊢
    have h1 := errorLoop_counts _ (a :: r).dropLast b rfl
    have h2 := cf_errorLoop_counts _ (a :: r).dropLast c c' rfl he
    rw [hs, h2] at h1
    cases hb : errorLoop b (a :: r).dropLast with
    | none => rw [hb] at h1; cases h1
    | some b' =>
      rw [hb] at h1
      simp only [Option.map_some, Option.some.injEq] at h1
      exact ⟨b', rfl, h1⟩

/-! ### what `started_building_file` and `error_building_file` do to the sets of created directories, in general -/

structure SLG (cds : List Path) (b b' : BD) (parent : Path) : Prop where
  sub : ∀ d ∈ b.created, d ∈ b'.created
  src : ∀ d ∈ b'.created, d ∈ b.created ∨ (d ∈ cds ∧ d <+: parent)
  errSub : ∀ d ∈ b'.errorCreated, d ∈ b.errorCreated
  errGone : ∀ d ∈ b.errorCreated, d ∈ b'.errorCreated ∨ d ∈ b'.created

theorem SLG.refl (cds : List Path) (b : BD) (parent : Path) : SLG cds b b parent :=
  ⟨fun _ h => h, fun _ h => Or.inl h, fun _ h => h, fun _ h => Or.inl h⟩

theorem startedLoop_general (cds : List Path) : ∀ (n : Nat) (parent : Path) (b : BD) (locked : List Path),
    parent.length = n → SLG cds b (startedLoop b cds parent locked).1 parent := by
  intro n
  induction n with
  | zero =>
    intro parent b locked hl
    have hp : parent = [] := List.length_eq_zero_iff.mp hl
    subst hp
    rw [startedLoop]
    split
    · exact ⟨fun _ h => h, fun _ h => Or.inl h, fun _ h => h, fun _ h => Or.inl h⟩
    · simp only [dite_true]
      split
      · rename_i hcon
        simp only
        refine ⟨fun d hd => (mem_add _ _ _).mpr (Or.inr hd), ?_, fun d hd => ((mem_discard _ _ _).mp hd).1, ?_⟩
        · intro d hd
          rcases (mem_add _ _ _).mp hd with rfl | hd
          · right; exact ⟨by simpa using hcon, List.prefix_refl _⟩
          · exact Or.inl hd
        · intro d hd
          by_cases hdn : d = []
          · right; subst hdn; exact (mem_add _ _ _).mpr (Or.inl rfl)
          · left; exact (mem_discard _ _ _).mpr ⟨hd, hdn⟩
      · exact ⟨fun _ h => h, fun _ h => Or.inl h, fun _ h => h, fun _ h => Or.inl h⟩
  | succ n ih =>
    intro parent b locked hl
    have hpne : parent ≠ [] := by intro e; subst e; simp at hl
    rw [startedLoop]
    split
    · exact ⟨fun _ h => h, fun _ h => Or.inl h, fun _ h => h, fun _ h => Or.inl h⟩
    · simp only [hpne, dite_false]
      split
      · rename_i hcon
        simp only
        have := ih parent.dropLast (regState { b with counts := setCount b.counts parent (getCount b parent + 1) } parent)
          (locked ++ [parent]) (by simp [List.length_dropLast, hl])
        simp only [regState] at this
        refine ⟨fun d hd => this.sub d ((mem_add _ _ _).mpr (Or.inr hd)), ?_, fun d hd => ((mem_discard _ _ _).mp (this.errSub d hd)).1, ?_⟩
        · intro d hd
          rcases this.src d hd with h | ⟨h1, h2⟩
          · rcases (mem_add _ _ _).mp h with rfl | h
            · right; exact ⟨by simpa using hcon, List.prefix_refl _⟩
            · exact Or.inl h
          · exact Or.inr ⟨h1, h2.trans (List.dropLast_prefix _)⟩
        · intro d hd
          by_cases hdn : d = parent
          · right; subst hdn; exact this.sub d ((mem_add _ _ _).mpr (Or.inl rfl))
          · exact this.errGone d ((mem_discard _ _ _).mpr ⟨hd, hdn⟩)
      · have := ih parent.dropLast { b with counts := setCount b.counts parent (getCount b parent + 1) }
          locked (by simp [List.length_dropLast, hl])
        refine ⟨this.sub, ?_, this.errSub, this.errGone⟩
        intro d hd
        rcases this.src d hd with h | ⟨h1, h2⟩
        · exact Or.inl h
        · exact Or.inr ⟨h1, h2.trans (List.dropLast_prefix _)⟩

structure RUG (cds : List Path) (b b' : BD) (parent : Path) : Prop where
  sub : ∀ d ∈ b.created, d ∈ b'.created
  src : ∀ d ∈ b'.created, d ∈ b.created ∨ ((d ∈ cds ∨ d ∈ b.errorCreated) ∧ d <+: parent)
  errSub : ∀ d ∈ b'.errorCreated, d ∈ b.errorCreated
  errGone : ∀ d ∈ b.errorCreated, d ∈ b'.errorCreated ∨ d ∈ b'.created
  reg : ∀ d, d <+: parent → (d ∈ cds ∨ d ∈ b.errorCreated) → hasCount b d = true → d ∈ b'.created

theorem registerUp_general (cds : List Path) : ∀ (n : Nat) (parent : Path) (b : BD) (locked : List Path),
    parent.length = n → RUG cds b (registerUp b cds parent locked).1 parent := by
  intro n
  induction n with
  | zero =>
    intro parent b locked hl
    have hp : parent = [] := List.length_eq_zero_iff.mp hl
    subst hp
    rw [registerUp]
    by_cases hc : ((cds.contains [] || b.errorCreated.contains []) && !b.created.contains [] && hasCount b []) = true
    · simp only [hc, if_true, dite_true]
      simp only [Bool.and_eq_true, Bool.or_eq_true] at hc
      refine ⟨fun d hd => (mem_add _ _ _).mpr (Or.inr hd), ?_, fun d hd => ((mem_discard _ _ _).mp hd).1, ?_, ?_⟩
      · intro d hd
        rcases (mem_add _ _ _).mp hd with rfl | hd
        · right
          refine ⟨?_, List.prefix_refl _⟩
          rcases hc.1.1 with h | h
          · left; simpa using h
          · right; simpa using h
        · exact Or.inl hd
      · intro d hd
        by_cases hdn : d = []
        · right; subst hdn; exact (mem_add _ _ _).mpr (Or.inl rfl)
        · left; exact (mem_discard _ _ _).mpr ⟨hd, hdn⟩
      · intro d hd _ _
        rw [List.prefix_nil.mp hd]; exact (mem_add _ _ _).mpr (Or.inl rfl)
    · simp only [hc, dite_true]
      refine ⟨fun _ h => h, fun _ h => Or.inl h, fun _ h => h, fun _ h => Or.inl h, ?_⟩
      intro d hd hcd hhas
      have hdn : d = [] := List.prefix_nil.mp hd
      subst hdn
      have h1 : (cds.contains ([] : Path) || b.errorCreated.contains ([] : Path)) = true := by
        rcases hcd with h | h <;> simp [h]
      simp only [h1, hhas, Bool.and_true, Bool.true_and, Bool.not_eq_true', Bool.not_eq_false'] at hc
      simpa using hc
  | succ n ih =>
    intro parent b locked hl
    have hpne : parent ≠ [] := by intro e; subst e; simp at hl
    rw [registerUp]
    by_cases hc : ((cds.contains parent || b.errorCreated.contains parent) && !b.created.contains parent && hasCount b parent) = true
    · simp only [hc, if_true, hpne, dite_false]
      have := ih parent.dropLast (regState b parent) (locked ++ [parent]) (by simp [List.length_dropLast, hl])
      simp only [regState] at this
      simp only [Bool.and_eq_true, Bool.or_eq_true] at hc
      refine ⟨fun d hd => this.sub d ((mem_add _ _ _).mpr (Or.inr hd)), ?_, fun d hd => ((mem_discard _ _ _).mp (this.errSub d hd)).1, ?_, ?_⟩
      · intro d hd
        rcases this.src d hd with h | ⟨h1, h2⟩
        · rcases (mem_add _ _ _).mp h with rfl | h
          · right
            refine ⟨?_, List.prefix_refl _⟩
            rcases hc.1.1 with h | h
            · left; simpa using h
            · right; simpa using h
          · exact Or.inl h
        · right
          refine ⟨?_, h2.trans (List.dropLast_prefix _)⟩
          rcases h1 with h | h
          · exact Or.inl h
          · exact Or.inr ((mem_discard _ _ _).mp h).1
      · intro d hd
        by_cases hdn : d = parent
        · right; subst hdn; exact this.sub d ((mem_add _ _ _).mpr (Or.inl rfl))
        · exact this.errGone d ((mem_discard _ _ _).mpr ⟨hd, hdn⟩)
      · intro d hd hcd hhas
        by_cases hdp : d = parent
        · subst hdp; exact this.sub d ((mem_add _ _ _).mpr (Or.inl rfl))
        · apply this.reg d (prefix_dropLast_of_ne hd hdp)
          · rcases hcd with h | h
            · exact Or.inl h
            · exact Or.inr ((mem_discard _ _ _).mpr ⟨h, hdp⟩)
          · exact hhas
    · simp only [hc, hpne, dite_false]
      have := ih parent.dropLast b locked (by simp [List.length_dropLast, hl])
      refine ⟨this.sub, ?_, this.errSub, this.errGone, ?_⟩
      · intro d hd
        rcases this.src d hd with h | ⟨h1, h2⟩
        · exact Or.inl h
        · exact Or.inr ⟨h1, h2.trans (List.dropLast_prefix _)⟩
      · intro d hd hcd hhas
        by_cases hdp : d = parent
        · subst hdp
          have h1 : (cds.contains d || b.errorCreated.contains d) = true := by
            rcases hcd with h | h <;> simp [h]
          simp only [h1, hhas, Bool.and_true, Bool.true_and, Bool.not_eq_true', Bool.not_eq_false'] at hc
          exact this.sub d (by simpa using hc)
        · exact this.reg d (prefix_dropLast_of_ne hd hdp) hcd hhas

/-- **`started_building_file`, in general** (with failed builds around): provided every directory above the file has
    a reservation afterwards (true within the protocol: `hasCount_iff_live`), the call leaves the recorded sets as
    they were, except that every directory above the file that the caller made (`cds`) or that was virtually removed
    (`_error_created_dirs`) is now recorded as created -/
structure StartedGen (cds : List Path) (b b' : BD) (p : Path) : Prop where
  sub : ∀ d ∈ b.created, d ∈ b'.created
  src : ∀ d ∈ b'.created, d ∈ b.created ∨ ((d ∈ cds ∨ d ∈ b.errorCreated) ∧ d <+: p.dropLast)
  errSub : ∀ d ∈ b'.errorCreated, d ∈ b.errorCreated
  errGone : ∀ d ∈ b.errorCreated, d ∈ b'.errorCreated ∨ d ∈ b'.created
  reg : ∀ d, d <+: p.dropLast → (d ∈ cds ∨ d ∈ b.errorCreated) → d ∈ b'.created

theorem started_general (b : BD) (p : Path) (cds : List Path) (hp : p ≠ [])
    (hall : ∀ d, d <+: p.dropLast → hasCount (started b p cds).1 d = true) :
    StartedGen cds b (started b p cds).1 p := by
  unfold started at hall ⊢
  cases p with
  | nil => exact absurd rfl hp
  | cons a r =>
    have h1 := startedLoop_general cds _ (a :: r).dropLast { b with removedFiles := discard b.removedFiles (a :: r) } [] rfl
    simp only at hall ⊢
    split
    · rename_i hskip
      rw [if_pos hskip] at hall
      simp only [Bool.and_eq_true, List.isEmpty_iff] at hskip
      refine ⟨h1.sub, ?_, h1.errSub, h1.errGone, ?_⟩
      · intro d hd
        rcases h1.src d hd with h | ⟨h, h'⟩
        · exact Or.inl h
        · exact Or.inr ⟨Or.inl h, h'⟩
      · intro d _ hcd
        rcases hcd with h | h
        · rw [hskip.1] at h; cases h
        · rcases h1.errGone d h with h' | h'
          · rw [hskip.2] at h'; cases h'
          · exact h'
    · rename_i hskip
      rw [if_neg hskip] at hall
      have h2 := registerUp_general cds _ (a :: r).dropLast
        (startedLoop { b with removedFiles := discard b.removedFiles (a :: r) } cds (a :: r).dropLast []).1
        (startedLoop { b with removedFiles := discard b.removedFiles (a :: r) } cds (a :: r).dropLast []).2 rfl
      have hcnt := registerUp_counts cds _ (a :: r).dropLast
        (startedLoop { b with removedFiles := discard b.removedFiles (a :: r) } cds (a :: r).dropLast []).1
        (startedLoop { b with removedFiles := discard b.removedFiles (a :: r) } cds (a :: r).dropLast []).2 rfl
      refine ⟨fun d hd => h2.sub d (h1.sub d hd), ?_, fun d hd => h1.errSub d (h2.errSub d hd), ?_, ?_⟩
      · intro d hd
        rcases h2.src d hd with h | ⟨h, h'⟩
        · rcases h1.src d h with h'' | ⟨h'', h3⟩
          · exact Or.inl h''
          · exact Or.inr ⟨Or.inl h'', h3⟩
        · right
          refine ⟨?_, h'⟩
          rcases h with h | h
          · exact Or.inl h
          · exact Or.inr (h1.errSub d h)
      · intro d hd
        rcases h1.errGone d hd with h | h
        · exact h2.errGone d h
        · exact Or.inr (h2.sub d h)
      · intro d hpre hcd
        have hhas : hasCount (startedLoop { b with removedFiles := discard b.removedFiles (a :: r) } cds (a :: r).dropLast []).1 d = true := by
          rw [← hasCount_congr hcnt]; exact hall d hpre
        rcases hcd with h | h
        · exact h2.reg d hpre (Or.inl h) hhas
        · rcases h1.errGone d h with h' | h'
          · exact h2.reg d hpre (Or.inr h') hhas
          · exact h2.sub d h'

/-- **`error_building_file`, in general**: directories move from "created" to "created, then virtually removed" only,
    exactly those whose last reservation went; reservations only go -/
structure ErrorGen (b b' : BD) : Prop where
  sub : ∀ d ∈ b'.created, d ∈ b.created
  moved : ∀ d ∈ b.created, d ∈ b'.created ∨ (d ∈ b'.errorCreated ∧ hasCount b' d = false)
  errSub : ∀ d ∈ b.errorCreated, d ∈ b'.errorCreated
  errSrc : ∀ d ∈ b'.errorCreated, d ∈ b.errorCreated ∨ (d ∈ b.created ∧ hasCount b' d = false)
  cnt : ∀ d, hasCount b' d = true → hasCount b d = true

theorem hasCount_filter_self (b b' : BD) (d : Path) (h : b'.counts = b.counts.filter (fun x => x.1 ≠ d)) :
    hasCount b' d = false := by
  simp [hasCount, h, List.any_filter]

theorem hasCount_of_find (b : BD) (d : Path) (y : Path × Nat) (hf : b.counts.find? (fun x => x.1 = d) = some y) :
    hasCount b d = true := by
  unfold hasCount
  have hm := List.mem_of_find?_eq_some hf
  have hp := List.find?_some hf
  exact List.any_eq_true.mpr ⟨y, hm, hp⟩

/-- one round of the loop of `error_building_file` at a directory whose last reservation goes -/
def dropDir (b : BD) (parent : Path) : BD :=
  if b.created.contains parent then { b with counts := b.counts.filter (fun x => x.1 ≠ parent), created := discard b.created parent, errorCreated := add b.errorCreated parent, maybeRemoved := add b.maybeRemoved parent, existsDirs := [] }
  else { b with counts := b.counts.filter (fun x => x.1 ≠ parent) }

theorem dropDir_gen (b : BD) (parent : Path) : ErrorGen b (dropDir b parent) ∧ hasCount (dropDir b parent) parent = false := by
  unfold dropDir
  split
  · rename_i hcon
    have hmem : parent ∈ b.created := by simpa using hcon
    refine ⟨⟨fun d hd => ((mem_discard _ _ _).mp hd).1, ?_, fun d hd => (mem_add _ _ _).mpr (Or.inr hd), ?_, ?_⟩, hasCount_filter_self b _ parent rfl⟩
    · intro d hd
      by_cases hdp : d = parent
      · right; subst hdp; exact ⟨(mem_add _ _ _).mpr (Or.inl rfl), hasCount_filter_self b _ d rfl⟩
      · left; exact (mem_discard _ _ _).mpr ⟨hd, hdp⟩
    · intro d hd
      rcases (mem_add _ _ _).mp hd with rfl | hd
      · right; exact ⟨hmem, hasCount_filter_self b _ d rfl⟩
      · exact Or.inl hd
    · intro d hd
      by_cases hdp : d = parent
      · subst hdp; rw [hasCount_filter_self b _ d rfl] at hd; cases hd
      · rw [hasCount_filter b _ parent d rfl hdp] at hd; exact hd
  · refine ⟨⟨fun _ h => h, fun _ h => Or.inl h, fun _ h => h, fun _ h => Or.inl h, ?_⟩, hasCount_filter_self b _ parent rfl⟩
    intro d hd
    by_cases hdp : d = parent
    · subst hdp; rw [hasCount_filter_self b _ d rfl] at hd; cases hd
    · rw [hasCount_filter b _ parent d rfl hdp] at hd; exact hd

theorem ErrorGen.trans {a b c : BD} (h1 : ErrorGen a b) (h2 : ErrorGen b c) : ErrorGen a c := by
  refine ⟨fun d hd => h1.sub d (h2.sub d hd), ?_, fun d hd => h2.errSub d (h1.errSub d hd), ?_, fun d hd => h1.cnt d (h2.cnt d hd)⟩
  · intro d hd
    rcases h1.moved d hd with h | ⟨h, hc⟩
    · exact h2.moved d h
    · right
      refine ⟨h2.errSub d h, ?_⟩
      cases hcc : hasCount c d with
      | false => rfl
      | true => rw [h2.cnt d hcc] at hc; cases hc
  · intro d hd
    rcases h2.errSrc d hd with h | ⟨h, hc⟩
    · rcases h1.errSrc d h with h' | ⟨h', hc'⟩
      · exact Or.inl h'
      · right
        refine ⟨h', ?_⟩
        cases hcc : hasCount c d with
        | false => rfl
        | true => rw [h2.cnt d hcc] at hc'; cases hc'
    · exact Or.inr ⟨h1.sub d h, hc⟩

theorem errorLoop_unfold (b : BD) (parent : Path) (k : Nat) (x0 : Path)
    (hf : b.counts.find? (fun x => x.1 = parent) = some (x0, k)) (hk : ¬ k - 1 > 0) :
    errorLoop b parent = if parent = [] then some (dropDir b parent) else errorLoop (dropDir b parent) parent.dropLast := by
  rw [errorLoop, hf]
  simp only [hk, if_false]
  unfold dropDir
  by_cases hp : parent = []
  · subst hp
    simp only [dite_true, if_true]
  · simp only [hp, dite_false, if_false]

theorem errorLoop_general : ∀ (n : Nat) (parent : Path) (b b' : BD), parent.length = n →
    errorLoop b parent = some b' → ErrorGen b b' := by
  intro n
  induction n with
  | zero =>
    intro parent b b' hl he
    have hp : parent = [] := List.length_eq_zero_iff.mp hl
    subst hp
    cases hf : b.counts.find? (fun x => x.1 = ([] : Path)) with
    | none => rw [errorLoop, hf] at he; cases he
    | some x =>
      obtain ⟨x0, k⟩ := x
      by_cases hk : k - 1 > 0
      · rw [errorLoop, hf] at he
        simp only [hk, if_true, Option.some.injEq] at he
        subst he
        refine ⟨fun _ h => h, fun _ h => Or.inl h, fun _ h => h, fun _ h => Or.inl h, ?_⟩
        intro d hd
        rw [hasCount_setCount b.counts [] d _ _ b rfl rfl] at hd
        by_cases hdn : d = []
        · subst hdn; exact hasCount_of_find b _ _ hf
        · simpa [hdn] using hd
      · rw [errorLoop_unfold b [] k x0 hf hk] at he
        simp only [if_true, Option.some.injEq] at he
        subst he
        exact (dropDir_gen b []).1
  | succ n ih =>
    intro parent b b' hl he
    have hpne : parent ≠ [] := by intro e; subst e; simp at hl
    cases hf : b.counts.find? (fun x => x.1 = parent) with
    | none => rw [errorLoop, hf] at he; cases he
    | some x =>
      obtain ⟨x0, k⟩ := x
      by_cases hk : k - 1 > 0
      · rw [errorLoop, hf] at he
        simp only [hk, if_true, Option.some.injEq] at he
        subst he
        refine ⟨fun _ h => h, fun _ h => Or.inl h, fun _ h => h, fun _ h => Or.inl h, ?_⟩
        intro d hd
        rw [hasCount_setCount b.counts parent d _ _ b rfl rfl] at hd
        by_cases hdn : d = parent
        · subst hdn; exact hasCount_of_find b _ _ hf
        · simpa [hdn] using hd
      · rw [errorLoop_unfold b parent k x0 hf hk] at he
        simp only [hpne, if_false] at he
        exact (dropDir_gen b parent).1.trans (ih _ _ _ (by simp [List.length_dropLast, hl]) he)

theorem error_general (b b' : BD) (p : Path) (he : error b p = some b') : ErrorGen b b' := by
  unfold error at he
  cases p with
  | nil =>
    simp only [Option.some.injEq] at he; subst he
    exact ⟨fun _ h => h, fun _ h => Or.inl h, fun _ h => h, fun _ h => Or.inl h, fun _ h => h⟩
  | cons a r => exact errorLoop_general _ _ b b' rfl he

theorem getCount_pos_of_hasCount (b : BD) (hpos : ∀ x ∈ b.counts, 0 < x.2) (d : Path) (h : hasCount b d = true) :
    0 < getCount b d := by
  unfold hasCount at h
  unfold getCount
  obtain ⟨y, hy, hyd⟩ := List.any_eq_true.mp h
  cases hf : b.counts.find? (fun x => x.1 = d) with
  | none =>
    have := List.find?_eq_none.mp hf y hy
    exact absurd hyd this
  | some z =>
    obtain ⟨z1, z2⟩ := z
    exact hpos _ (List.mem_of_find?_eq_some hf)

/-- **within the protocol, a directory is reserved exactly if a live output lies below it** -/
theorem hasCount_iff_live (b : BD) (c : CreatedFiles.CF) (L : List Path) (hs : Shadow b c) (hf : CreatedFiles.Full c L)
    (hpos : ∀ x ∈ b.counts, 0 < x.2) (d : Path) :
    hasCount b d = true ↔ ∃ q ∈ L, CreatedFiles.properAnc d q := by
  have hg : getCount b d = CreatedFiles.getCount c d := by
    unfold getCount CreatedFiles.getCount; rw [hs]; cases c.count.find? (fun x => x.1 = d) <;> rfl
  rw [← hf.inv.dirs d, ← hf.inv.pos d, ← hg]
  exact ⟨getCount_pos_of_hasCount b hpos d, getCount_pos b d⟩

end BuildDirs
end FB
