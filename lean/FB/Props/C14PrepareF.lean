/-
  C14 — the whole set-up of a `build_file` (`_prepare_file_creation` = `_make_room` where needed, then `_make_dirs`)
  under a fault at any of its mutating calls: the bookkeeping of the build stays `Undoable`, so the rollback that
  follows an uncaught fault restores exactly the pre-build regular files (`C14_prepare_fault_rollback`).
-/
import FB.PrepareF
import FB.Props.C14MakeRoomFUndo
import FB.Props.C14MakeDirsFUndo
namespace FB
namespace Rollback
open FS Spec Backups BuildDirs
open MakeRoomF (C)

/-- what `_make_room` adds to the undo log lies below the directory it clears -/
theorem entriesF_saved_below (vd vf : Path → Bool) (fa : Option Nat) (fuel : Nat)
    (hmr : ∀ (c c' : C) (d : Path), (MakeRoomF.makeRoom vd vf fa fuel c d = .ok c' ∨ MakeRoomF.makeRoom vd vf fa fuel c d = .error c') →
      ∀ x ∈ c'.st.bk.saved, x ∈ c.st.bk.saved ∨ d <+: x.1) :
    ∀ (l : List String) (c c' : C) (d : Path),
      (MakeRoomF.entries vd vf fa fuel c d l = .ok c' ∨ MakeRoomF.entries vd vf fa fuel c d l = .error c') →
      ∀ x ∈ c'.st.bk.saved, x ∈ c.st.bk.saved ∨ d <+: x.1 := by
  intro l
  induction l with
  | nil =>
    intro c c' d hr x hx
    rw [MakeRoomF.entries] at hr
    rcases hr with hr | hr
    · simp only [Except.ok.injEq] at hr; rw [← hr] at hx; exact Or.inl hx
    · cases hr
  | cons n rest ih =>
    intro c c' d hr x hx
    rw [MakeRoomF.entries] at hr
    simp only at hr
    by_cases hd : c.st.fs.isDir (d ++ [n]) = true
    · simp only [hd, if_true] at hr
      by_cases hv : vd (d ++ [n]) = true
      · simp only [hv, if_true] at hr
        rcases hr with hr | hr
        · cases hr
        · simp only [Except.error.injEq] at hr; rw [← hr] at hx; exact Or.inl hx
      · have hv' : vd (d ++ [n]) = false := by simpa using hv
        simp only [hv', Bool.false_eq_true, if_false] at hr
        cases hm : MakeRoomF.makeRoom vd vf fa fuel c (d ++ [n]) with
        | error c1 =>
          rw [hm] at hr
          rcases hr with hr | hr
          · cases hr
          · simp only [Except.error.injEq] at hr; rw [← hr] at hx
            rcases hmr c c1 _ (Or.inr hm) x hx with h | h
            · exact Or.inl h
            · exact Or.inr ((List.prefix_append d [n]).trans h)
        | ok c1 =>
          rw [hm] at hr
          rcases ih c1 c' d hr x hx with h | h
          · rcases hmr c c1 _ (Or.inl hm) x h with h | h
            · exact Or.inl h
            · exact Or.inr ((List.prefix_append d [n]).trans h)
          · exact Or.inr h
    · have hd' : c.st.fs.isDir (d ++ [n]) = false := by simpa using hd
      simp only [hd', Bool.false_eq_true, if_false] at hr
      by_cases hv : vf (d ++ [n]) = true
      · simp only [hv, if_true] at hr
        rcases hr with hr | hr
        · cases hr
        · simp only [Except.error.injEq] at hr; rw [← hr] at hx; exact Or.inl hx
      · have hv' : vf (d ++ [n]) = false := by simpa using hv
        simp only [hv', Bool.false_eq_true, if_false] at hr
        by_cases hf : fa = some c.n
        · simp only [hf, if_true] at hr
          rcases hr with hr | hr
          · cases hr
          · simp only [Except.error.injEq] at hr; rw [← hr] at hx; exact Or.inl hx
        · simp only [hf, if_false] at hr
          rcases ih _ c' d hr x hx with h | h
          · -- the log after one `back_up_and_remove`
            have hsv : ∀ y ∈ (Backups.backUpAndRemove c.st.fs c.st.bk (d ++ [n])).2.1.saved,
                y ∈ c.st.bk.saved ∨ y.1 = d ++ [n] := by
              intro y hy
              unfold Backups.backUpAndRemove at hy
              split at hy
              · exact Or.inl hy
              · simp only [List.mem_append, List.mem_singleton] at hy
                rcases hy with hy | hy
                · exact Or.inl hy
                · right; rw [hy]
              · exact Or.inl hy
            rcases hsv x h with h | h
            · exact Or.inl h
            · right; rw [h]; exact List.prefix_append d [n]
          · exact Or.inr h

theorem makeRoomF_saved_below (vd vf : Path → Bool) (fa : Option Nat) : ∀ (fuel : Nat) (c c' : C) (d : Path),
    (MakeRoomF.makeRoom vd vf fa fuel c d = .ok c' ∨ MakeRoomF.makeRoom vd vf fa fuel c d = .error c') →
    ∀ x ∈ c'.st.bk.saved, x ∈ c.st.bk.saved ∨ d <+: x.1 := by
  intro fuel
  induction fuel with
  | zero =>
    intro c c' d hr x hx
    rw [MakeRoomF.makeRoom] at hr
    rcases hr with hr | hr
    · cases hr
    · simp only [Except.error.injEq] at hr; rw [← hr] at hx; exact Or.inl hx
  | succ fuel ihf =>
    intro c c' d hr x hx
    rw [MakeRoomF.makeRoom] at hr
    have hen := entriesF_saved_below vd vf fa fuel ihf (c.st.fs.listdir d) c
    cases he : MakeRoomF.entries vd vf fa fuel c d (c.st.fs.listdir d) with
    | error c1 =>
      rw [he] at hr
      rcases hr with hr | hr
      · cases hr
      · simp only [Except.error.injEq] at hr; rw [← hr] at hx; exact hen c1 d (Or.inr he) x hx
    | ok c1 =>
      rw [he] at hr
      simp only at hr
      have h1 := hen c1 d (Or.inl he)
      by_cases hf : fa = some c1.n
      · simp only [hf, if_true] at hr
        rcases hr with hr | hr
        · cases hr
        · simp only [Except.error.injEq] at hr; rw [← hr] at hx; exact h1 x hx
      · simp only [hf, if_false] at hr
        cases hrm : c1.st.fs.rmdir d with
        | error e =>
          rw [hrm] at hr
          rcases hr with hr | hr
          · cases hr
          · simp only [Except.error.injEq] at hr; rw [← hr] at hx; exact h1 x hx
        | ok fs' =>
          rw [hrm] at hr
          rcases hr with hr | hr
          · simp only [Except.ok.injEq] at hr; rw [← hr] at hx; exact h1 x hx
          · cases hr

/-- **the set-up of a `build_file` keeps the bookkeeping `Undoable` wherever an `OSError` strikes** - in `_make_room`,
    in `_make_dirs`, at a rename, an rmdir or a mkdir -, provided the parents to be made are not below the target, are
    distinct, and neither they nor anything below the target is an output of this build or in the undo log already -/
theorem prepare_undoable (vd vf : Path → Bool) (oldCreated : List Path) (fa : Option Nat) (fuel : Nat)
    (P0 : FS) (r : RB) (fs : FS) (target : Path) (dirs : List Path)
    (h : Undoable P0 fs r)
    (hbelow : ∀ q, target <+: q → q ∉ r.newOutputs ∧ q ∉ r.bk.saved.map (·.1))
    (hnd : dirs.Nodup)
    (hdirs : ∀ d ∈ dirs, d ∉ r.newOutputs ∧ d ∉ r.bk.saved.map (·.1) ∧ ¬ target <+: d) :
    let o := PrepareF.prepare vd vf oldCreated fa fuel fs r.bk target dirs
    Undoable P0 o.st.fs (rbOf r o.st) := by
  intro o
  have hstart : RoomOK P0 r target { fs := fs, bk := r.bk } :=
    ⟨h, fun q hq hm => absurd hm (hbelow q hq).2⟩
  -- the second phase, from any state the first phase can leave
  have hsecond : ∀ (st1 : MakeRoom.St) (n1 : Nat), RoomOK P0 r target st1 →
      (∀ x ∈ st1.bk.saved, x ∈ r.bk.saved ∨ target <+: x.1) →
      ∀ out, (MakeDirsF.loop oldCreated fa dirs n1 { fs := st1.fs, bk := st1.bk } = .ok out ∨
              MakeDirsF.loop oldCreated fa dirs n1 { fs := st1.fs, bk := st1.bk } = .error out) →
      Undoable P0 out.1.fs (rbOf r out.1) := by
    intro st1 n1 hok hsv out hout
    have := makeDirsF_undoable oldCreated fa P0 (rbOfR r st1) dirs n1 { fs := st1.fs, bk := st1.bk } out hnd
      (by
        intro d hd
        obtain ⟨g1, g2, g3⟩ := hdirs d hd
        refine ⟨g1, ?_⟩
        intro hm
        simp only [List.mem_map] at hm
        obtain ⟨x, hx, hxe⟩ := hm
        rcases hsv x hx with hx' | hx'
        · exact g2 (List.mem_map.mpr ⟨x, hx', hxe⟩)
        · exact g3 (hxe ▸ hx'))
      hok.1 hout
    exact this
  show Undoable P0 (PrepareF.prepare vd vf oldCreated fa fuel fs r.bk target dirs).st.fs
    (rbOf r (PrepareF.prepare vd vf oldCreated fa fuel fs r.bk target dirs).st)
  unfold PrepareF.prepare
  by_cases hd : fs.isDir target = true
  · simp only [hd, if_true]
    by_cases hv : vd target = true
    · simp only [hv, if_true]; exact h
    · have hv' : vd target = false := by simpa using hv
      simp only [hv', Bool.false_eq_true, if_false]
      cases hm : MakeRoomF.makeRoom vd vf fa fuel { st := { fs := fs, bk := r.bk } } target with
      | error c =>
        simp only
        exact (makeRoomF_undoable vd vf fa P0 r target (fun q hq => (hbelow q hq).1) fuel _ c target (List.prefix_refl _) hstart (Or.inr hm)).1
      | ok c =>
        simp only
        have hok := makeRoomF_undoable vd vf fa P0 r target (fun q hq => (hbelow q hq).1) fuel _ c target (List.prefix_refl _) hstart (Or.inl hm)
        have hsv := makeRoomF_saved_below vd vf fa fuel _ c target (Or.inl hm)
        cases hl : MakeDirsF.loop oldCreated fa dirs c.n { fs := c.st.fs, bk := c.st.bk } with
        | ok out => obtain ⟨st2, n2⟩ := out; simp only; exact hsecond c.st c.n hok hsv (st2, n2) (Or.inl hl)
        | error out => obtain ⟨st2, n2⟩ := out; simp only; exact hsecond c.st c.n hok hsv (st2, n2) (Or.inr hl)
  · simp only [hd, Bool.false_eq_true, if_false]
    cases hl : MakeDirsF.loop oldCreated fa dirs 0 { fs := fs, bk := r.bk } with
    | ok out => obtain ⟨st2, n2⟩ := out; simp only; exact hsecond { fs := fs, bk := r.bk } 0 hstart (fun x hx => Or.inl hx) (st2, n2) (Or.inl hl)
    | error out => obtain ⟨st2, n2⟩ := out; simp only; exact hsecond { fs := fs, bk := r.bk } 0 hstart (fun x hx => Or.inl hx) (st2, n2) (Or.inr hl)

/-- **C14 for the set-up of a `build_file`, end to end** -/
theorem C14_prepare_fault_rollback (vd vf : Path → Bool) (oldCreated : List Path) (fa : Option Nat) (fuel : Nat)
    (P0 : FS) (hwf0 : TreeWF P0) (r : RB) (fs : FS) (target : Path) (dirs : List Path)
    (h : Undoable P0 fs r)
    (hbelow : ∀ q, target <+: q → q ∉ r.newOutputs ∧ q ∉ r.bk.saved.map (·.1))
    (hnd : dirs.Nodup)
    (hdirs : ∀ d ∈ dirs, d ∉ r.newOutputs ∧ d ∉ r.bk.saved.map (·.1) ∧ ¬ target <+: d) :
    let o := PrepareF.prepare vd vf oldCreated fa fuel fs r.bk target dirs
    (∀ p c m, P0.get p = some (.file c m) → (rollBack o.st.fs (rbOf r o.st)).get p = some (.file c m)) ∧
    (∀ p c m, (rollBack o.st.fs (rbOf r o.st)).get p = some (.file c m) → P0.get p = some (.file c m)) ∧
    (∀ d, (rollBack o.st.fs (rbOf r o.st)).isDir d = true → P0.isDir d = true ∨ d ∈ r.oldCreatedDirs) := by
  intro o
  exact rollBack_restores_files P0 o.st.fs (rbOf r o.st) hwf0
    (prepare_undoable vd vf oldCreated fa fuel P0 r fs target dirs h hbelow hnd hdirs)

end Rollback
end FB
