/-
  C14 — the whole set-up of a `build_file` (`_prepare_file_creation` = `_make_room` where needed, then `_make_dirs`)
  under a fault at any of its mutating calls: the bookkeeping of the build stays `Undoable`, so the rollback that
  follows an uncaught fault restores exactly the pre-build regular files (`C14_prepare_fault_rollback`); and a set-up that
  fails leaves nothing new in the tree (`prepare_failure_leaves_nothing`, with `makeRoomF_wf`).
-/
import FB.PrepareF
import FB.Props.C14MakeRoomFUndo
import FB.Props.C14MakeDirsFUndo
import FB.Props.C04WellFormed
namespace FB
namespace Rollback
open FS Spec Backups BuildDirs
open MakeRoomF (C)

/-- what `_make_room` adds to the undo log lies below the directory it clears -/
theorem entriesF_saved_below (vd vf : Path → Bool) (fa : Option Nat) (fuel : Nat)
    (hmr : ∀ (c c' : C) (d : Path), (MakeRoomF.makeRoom vd vf fa fuel c d = .ok c' ∨ MakeRoomF.makeRoom vd vf fa fuel c d = .error c') →
      ∀ x ∈ c'.st.bk.saved, x ∈ c.st.bk.saved ∨ d <+: x.1) :
    ∀ (l : List String) (c c' : C) (d : Path),
      (MakeRoomF.entries vd vf fa fuel c d l = .ok c' ∨ MakeRoomF.entries vd vf fa fuel c d l = .error c') →
      ∀ x ∈ c'.st.bk.saved, x ∈ c.st.bk.saved ∨ d <+: x.1 := by
  intro l
  induction l with
  | nil =>
    intro c c' d hr x hx
    rw [MakeRoomF.entries] at hr
    rcases hr with hr | hr
    · simp only [Except.ok.injEq] at hr; rw [← hr] at hx; exact Or.inl hx
    · cases hr
  | cons n rest ih =>
    intro c c' d hr x hx
    rw [MakeRoomF.entries] at hr
    simp only at hr
    by_cases hd : c.st.fs.isDir (d ++ [n]) = true
    · simp only [hd, if_true] at hr
      by_cases hv : vd (d ++ [n]) = true
      · simp only [hv, if_true] at hr
        rcases hr with hr | hr
        · cases hr
        · simp only [Except.error.injEq] at hr; rw [← hr] at hx; exact Or.inl hx
      · have hv' : vd (d ++ [n]) = false := by simpa using hv
        simp only [hv', Bool.false_eq_true, if_false] at hr
        cases hm : MakeRoomF.makeRoom vd vf fa fuel c (d ++ [n]) with
        | error c1 =>
          rw [hm] at hr
          rcases hr with hr | hr
          · cases hr
          · simp only [Except.error.injEq] at hr; rw [← hr] at hx
            rcases hmr c c1 _ (Or.inr hm) x hx with h | h
            · exact Or.inl h
            · exact Or.inr ((List.prefix_append d [n]).trans h)
        | ok c1 =>
          rw [hm] at hr
          rcases ih c1 c' d hr x hx with h | h
          · rcases hmr c c1 _ (Or.inl hm) x h with h | h
            · exact Or.inl h
            · exact Or.inr ((List.prefix_append d [n]).trans h)
          · exact Or.inr h
    · have hd' : c.st.fs.isDir (d ++ [n]) = false := by simpa using hd
      simp only [hd', Bool.false_eq_true, if_false] at hr
      by_cases hv : vf (d ++ [n]) = true
      · simp only [hv, if_true] at hr
        rcases hr with hr | hr
        · cases hr
        · simp only [Except.error.injEq] at hr; rw [← hr] at hx; exact Or.inl hx
      · have hv' : vf (d ++ [n]) = false := by simpa using hv
        simp only [hv', Bool.false_eq_true, if_false] at hr
        by_cases hf : fa = some c.n
        · simp only [hf, if_true] at hr
          rcases hr with hr | hr
          · cases hr
          · simp only [Except.error.injEq] at hr; rw [← hr] at hx; exact Or.inl hx
        · simp only [hf, if_false] at hr
          rcases ih _ c' d hr x hx with h | h
          · -- the log after one `back_up_and_remove`
            have hsv : ∀ y ∈ (Backups.backUpAndRemove c.st.fs c.st.bk (d ++ [n])).2.1.saved,
                y ∈ c.st.bk.saved ∨ y.1 = d ++ [n] := by
              intro y hy
              unfold Backups.backUpAndRemove at hy
              split at hy
              · exact Or.inl hy
              · simp only [List.mem_append, List.mem_singleton] at hy
                rcases hy with hy | hy
                · exact Or.inl hy
                · right; rw [hy]
              · exact Or.inl hy
            rcases hsv x h with h | h
            · exact Or.inl h
            · right; rw [h]; exact List.prefix_append d [n]
          · exact Or.inr h

theorem makeRoomF_saved_below (vd vf : Path → Bool) (fa : Option Nat) : ∀ (fuel : Nat) (c c' : C) (d : Path),
    (MakeRoomF.makeRoom vd vf fa fuel c d = .ok c' ∨ MakeRoomF.makeRoom vd vf fa fuel c d = .error c') →
    ∀ x ∈ c'.st.bk.saved, x ∈ c.st.bk.saved ∨ d <+: x.1 := by
  intro fuel
  induction fuel with
  | zero =>
    intro c c' d hr x hx
    rw [MakeRoomF.makeRoom] at hr
    rcases hr with hr | hr
    · cases hr
    · simp only [Except.error.injEq] at hr; rw [← hr] at hx; exact Or.inl hx
  | succ fuel ihf =>
    intro c c' d hr x hx
    rw [MakeRoomF.makeRoom] at hr
    have hen := entriesF_saved_below vd vf fa fuel ihf (c.st.fs.listdir d) c
    cases he : MakeRoomF.entries vd vf fa fuel c d (c.st.fs.listdir d) with
    | error c1 =>
      rw [he] at hr
      rcases hr with hr | hr
      · cases hr
      · simp only [Except.error.injEq] at hr; rw [← hr] at hx; exact hen c1 d (Or.inr he) x hx
    | ok c1 =>
      rw [he] at hr
      simp only at hr
      have h1 := hen c1 d (Or.inl he)
      by_cases hf : fa = some c1.n
      · simp only [hf, if_true] at hr
        rcases hr with hr | hr
        · cases hr
        · simp only [Except.error.injEq] at hr; rw [← hr] at hx; exact h1 x hx
      · simp only [hf, if_false] at hr
        cases hrm : c1.st.fs.rmdir d with
        | error e =>
          rw [hrm] at hr
          rcases hr with hr | hr
          · cases hr
          · simp only [Except.error.injEq] at hr; rw [← hr] at hx; exact h1 x hx
        | ok fs' =>
          rw [hrm] at hr
          rcases hr with hr | hr
          · simp only [Except.ok.injEq] at hr; rw [← hr] at hx; exact h1 x hx
          · cases hr

/-- **the set-up of a `build_file` keeps the bookkeeping `Undoable` wherever an `OSError` strikes** - in `_make_room`,
    in `_make_dirs`, at a rename, an rmdir or a mkdir -, provided the parents to be made are not below the target, are
    distinct, and neither they nor anything below the target is an output of this build or in the undo log already -/
theorem prepare_undoable (vd vf : Path → Bool) (oldCreated : List Path) (fa : Option Nat) (fuel : Nat)
    (P0 : FS) (r : RB) (fs : FS) (target : Path) (dirs : List Path)
    (h : Undoable P0 fs r)
    (hbelow : ∀ q, target <+: q → q ∉ r.newOutputs ∧ q ∉ r.bk.saved.map (·.1))
    (hnd : dirs.Nodup)
    (hdirs : ∀ d ∈ dirs, d ∉ r.newOutputs ∧ d ∉ r.bk.saved.map (·.1) ∧ ¬ target <+: d) :
    let o := PrepareF.prepare vd vf oldCreated fa fuel fs r.bk target dirs
    Undoable P0 o.st.fs (rbOf r o.st) := by
  intro o
  have hstart : RoomOK P0 r target { fs := fs, bk := r.bk } :=
    ⟨h, fun q hq hm => absurd hm (hbelow q hq).2⟩
  -- the second phase, from any state the first phase can leave
  have hsecond : ∀ (st1 : MakeRoom.St) (n1 : Nat), RoomOK P0 r target st1 →
      (∀ x ∈ st1.bk.saved, x ∈ r.bk.saved ∨ target <+: x.1) →
      ∀ out, (MakeDirsF.loop oldCreated fa dirs n1 { fs := st1.fs, bk := st1.bk } = .ok out ∨
              MakeDirsF.loop oldCreated fa dirs n1 { fs := st1.fs, bk := st1.bk } = .error out) →
      Undoable P0 out.1.fs (rbOf r out.1) := by
    intro st1 n1 hok hsv out hout
    have := makeDirsF_undoable oldCreated fa P0 (rbOfR r st1) dirs n1 { fs := st1.fs, bk := st1.bk } out hnd
      (by
        intro d hd
        obtain ⟨g1, g2, g3⟩ := hdirs d hd
        refine ⟨g1, ?_⟩
        intro hm
        simp only [List.mem_map] at hm
        obtain ⟨x, hx, hxe⟩ := hm
        rcases hsv x hx with hx' | hx'
        · exact g2 (List.mem_map.mpr ⟨x, hx', hxe⟩)
        · exact g3 (hxe ▸ hx'))
      hok.1 hout
    exact this
  show Undoable P0 (PrepareF.prepare vd vf oldCreated fa fuel fs r.bk target dirs).st.fs
    (rbOf r (PrepareF.prepare vd vf oldCreated fa fuel fs r.bk target dirs).st)
  unfold PrepareF.prepare
  by_cases hd : fs.isDir target = true
  · simp only [hd, if_true]
    by_cases hv : vd target = true
    · simp only [hv, if_true]; exact h
    · have hv' : vd target = false := by simpa using hv
      simp only [hv', Bool.false_eq_true, if_false]
      cases hm : MakeRoomF.makeRoom vd vf fa fuel { st := { fs := fs, bk := r.bk } } target with
      | error c =>
        simp only
        exact (makeRoomF_undoable vd vf fa P0 r target (fun q hq => (hbelow q hq).1) fuel _ c target (List.prefix_refl _) hstart (Or.inr hm)).1
      | ok c =>
        simp only
        have hok := makeRoomF_undoable vd vf fa P0 r target (fun q hq => (hbelow q hq).1) fuel _ c target (List.prefix_refl _) hstart (Or.inl hm)
        have hsv := makeRoomF_saved_below vd vf fa fuel _ c target (Or.inl hm)
        cases hl : MakeDirsF.loop oldCreated fa dirs c.n { fs := c.st.fs, bk := c.st.bk } with
        | ok out => obtain ⟨st2, n2⟩ := out; simp only; exact hsecond c.st c.n hok hsv (st2, n2) (Or.inl hl)
        | error out => obtain ⟨st2, n2⟩ := out; simp only; exact hsecond c.st c.n hok hsv (st2, n2) (Or.inr hl)
  · simp only [hd, Bool.false_eq_true, if_false]
    cases hl : MakeDirsF.loop oldCreated fa dirs 0 { fs := fs, bk := r.bk } with
    | ok out => obtain ⟨st2, n2⟩ := out; simp only; exact hsecond { fs := fs, bk := r.bk } 0 hstart (fun x hx => Or.inl hx) (st2, n2) (Or.inl hl)
    | error out => obtain ⟨st2, n2⟩ := out; simp only; exact hsecond { fs := fs, bk := r.bk } 0 hstart (fun x hx => Or.inl hx) (st2, n2) (Or.inr hl)

/-- **C14 for the set-up of a `build_file`, end to end** -/
theorem C14_prepare_fault_rollback (vd vf : Path → Bool) (oldCreated : List Path) (fa : Option Nat) (fuel : Nat)
    (P0 : FS) (hwf0 : TreeWF P0) (r : RB) (fs : FS) (target : Path) (dirs : List Path)
    (h : Undoable P0 fs r)
    (hbelow : ∀ q, target <+: q → q ∉ r.newOutputs ∧ q ∉ r.bk.saved.map (·.1))
    (hnd : dirs.Nodup)
    (hdirs : ∀ d ∈ dirs, d ∉ r.newOutputs ∧ d ∉ r.bk.saved.map (·.1) ∧ ¬ target <+: d) :
    let o := PrepareF.prepare vd vf oldCreated fa fuel fs r.bk target dirs
    (∀ p c m, P0.get p = some (.file c m) → (rollBack o.st.fs (rbOf r o.st)).get p = some (.file c m)) ∧
    (∀ p c m, (rollBack o.st.fs (rbOf r o.st)).get p = some (.file c m) → P0.get p = some (.file c m)) ∧
    (∀ d, (rollBack o.st.fs (rbOf r o.st)).isDir d = true → P0.isDir d = true ∨ d ∈ r.oldCreatedDirs) := by
  intro o
  exact rollBack_restores_files P0 o.st.fs (rbOf r o.st) hwf0
    (prepare_undoable vd vf oldCreated fa fuel P0 r fs target dirs h hbelow hnd hdirs)

/-- the premises of `C14_prepare_fault_rollback` are met (non-vacuity): the set-up of the FIRST `build_file` of a build,
    on any well-formed tree, any target, any distinct parents that do not lie below the target, the fault anywhere -/
theorem C14_prepare_fault_rollback_first_step (vd vf : Path → Bool) (oldCreated : List Path) (fa : Option Nat) (fuel : Nat)
    (P0 : FS) (hwf0 : TreeWF P0) (oldOutputs oldCreatedDirs : List Path) (target : Path) (dirs : List Path)
    (hnd : dirs.Nodup) (hnb : ∀ d ∈ dirs, ¬ target <+: d) :
    let r : RB := { oldOutputs := oldOutputs, oldCreatedDirs := oldCreatedDirs }
    let o := PrepareF.prepare vd vf oldCreated fa fuel P0 r.bk target dirs
    ∀ p c m, P0.get p = some (.file c m) → (rollBack o.st.fs (rbOf r o.st)).get p = some (.file c m) := by
  intro r o
  exact (C14_prepare_fault_rollback vd vf oldCreated fa fuel P0 hwf0 r P0 target dirs
    (Undoable.start P0 oldOutputs oldCreatedDirs)
    (fun _ _ => ⟨(fun h => nomatch h), (fun h => nomatch h)⟩) hnd
    (fun d hd => ⟨(fun h => nomatch h), (fun h => nomatch h), hnb d hd⟩)).1

/-- `_make_room` keeps the tree well-formed (parents of entries are directories), wherever it stops -/
theorem entriesF_wf (vd vf : Path → Bool) (fa : Option Nat) (fuel : Nat)
    (hmr : ∀ (c c' : C) (d : Path), TreeWF c.st.fs →
      (MakeRoomF.makeRoom vd vf fa fuel c d = .ok c' ∨ MakeRoomF.makeRoom vd vf fa fuel c d = .error c') → TreeWF c'.st.fs) :
    ∀ (l : List String) (c c' : C) (d : Path), TreeWF c.st.fs →
      (MakeRoomF.entries vd vf fa fuel c d l = .ok c' ∨ MakeRoomF.entries vd vf fa fuel c d l = .error c') → TreeWF c'.st.fs := by
  intro l
  induction l with
  | nil =>
    intro c c' d h hr
    rw [MakeRoomF.entries] at hr
    rcases hr with hr | hr
    · simp only [Except.ok.injEq] at hr; rw [← hr]; exact h
    · cases hr
  | cons n rest ih =>
    intro c c' d h hr
    rw [MakeRoomF.entries] at hr
    simp only at hr
    by_cases hd : c.st.fs.isDir (d ++ [n]) = true
    · simp only [hd, if_true] at hr
      by_cases hv : vd (d ++ [n]) = true
      · simp only [hv, if_true] at hr
        rcases hr with hr | hr
        · cases hr
        · simp only [Except.error.injEq] at hr; rw [← hr]; exact h
      · have hv' : vd (d ++ [n]) = false := by simpa using hv
        simp only [hv', Bool.false_eq_true, if_false] at hr
        cases hm : MakeRoomF.makeRoom vd vf fa fuel c (d ++ [n]) with
        | error c1 =>
          rw [hm] at hr
          rcases hr with hr | hr
          · cases hr
          · simp only [Except.error.injEq] at hr; rw [← hr]; exact hmr c c1 _ h (Or.inr hm)
        | ok c1 =>
          rw [hm] at hr
          exact ih c1 c' d (hmr c c1 _ h (Or.inl hm)) hr
    · have hd' : c.st.fs.isDir (d ++ [n]) = false := by simpa using hd
      simp only [hd', Bool.false_eq_true, if_false] at hr
      by_cases hv : vf (d ++ [n]) = true
      · simp only [hv, if_true] at hr
        rcases hr with hr | hr
        · cases hr
        · simp only [Except.error.injEq] at hr; rw [← hr]; exact h
      · have hv' : vf (d ++ [n]) = false := by simpa using hv
        simp only [hv', Bool.false_eq_true, if_false] at hr
        by_cases hf : fa = some c.n
        · simp only [hf, if_true] at hr
          rcases hr with hr | hr
          · cases hr
          · simp only [Except.error.injEq] at hr; rw [← hr]; exact h
        · simp only [hf, if_false] at hr
          refine ih _ c' d ?_ hr
          show TreeWF (Backups.backUpAndRemove c.st.fs c.st.bk (d ++ [n])).1
          unfold Backups.backUpAndRemove
          cases hg : c.st.fs.get (d ++ [n]) with
          | none => exact h
          | some e =>
            cases e with
            | dir => simp [FS.isDir, hg] at hd'
            | file b m => exact wf_erase_nondir _ _ h hd'

theorem makeRoomF_wf (vd vf : Path → Bool) (fa : Option Nat) : ∀ (fuel : Nat) (c c' : C) (d : Path), TreeWF c.st.fs →
    (MakeRoomF.makeRoom vd vf fa fuel c d = .ok c' ∨ MakeRoomF.makeRoom vd vf fa fuel c d = .error c') → TreeWF c'.st.fs := by
  intro fuel
  induction fuel with
  | zero =>
    intro c c' d h hr
    rw [MakeRoomF.makeRoom] at hr
    rcases hr with hr | hr
    · cases hr
    · simp only [Except.error.injEq] at hr; rw [← hr]; exact h
  | succ fuel ihf =>
    intro c c' d h hr
    rw [MakeRoomF.makeRoom] at hr
    have hen := entriesF_wf vd vf fa fuel ihf (c.st.fs.listdir d) c
    cases he : MakeRoomF.entries vd vf fa fuel c d (c.st.fs.listdir d) with
    | error c1 =>
      rw [he] at hr
      rcases hr with hr | hr
      · cases hr
      · simp only [Except.error.injEq] at hr; rw [← hr]; exact hen c1 d h (Or.inr he)
    | ok c1 =>
      rw [he] at hr
      simp only at hr
      have h1 := hen c1 d h (Or.inl he)
      by_cases hf : fa = some c1.n
      · simp only [hf, if_true] at hr
        rcases hr with hr | hr
        · cases hr
        · simp only [Except.error.injEq] at hr; rw [← hr]; exact h1
      · simp only [hf, if_false] at hr
        cases hrm : c1.st.fs.rmdir d with
        | error e =>
          rw [hrm] at hr
          rcases hr with hr | hr
          · cases hr
          · simp only [Except.error.injEq] at hr; rw [← hr]; exact h1
        | ok fs' =>
          rw [hrm] at hr
          rcases hr with hr | hr
          · simp only [Except.ok.injEq] at hr
            rw [← hr]
            have := wf_rmdirStep c1.st.fs d h1
            unfold rmdirStep at this
            rw [hrm] at this
            exact this
          · cases hr

/-- **C10/C14 for the whole set-up: a set-up that fails leaves nothing new** - whichever call fails, in `_make_room` or
    in `_make_dirs`, by itself or by the injected fault: every entry of the tree it leaves was there before, unchanged
    (what is gone is in the undo log or was an unknown directory: `makeRoomF_moved`, `prepare_undoable`) -/
theorem prepare_failure_leaves_nothing (vd vf : Path → Bool) (oldCreated : List Path) (fa : Option Nat) (fuel : Nat)
    (fs : FS) (bk : Backups.BK) (target : Path) (dirs : List Path) (hwf : TreeWF fs)
    (hfail : (PrepareF.prepare vd vf oldCreated fa fuel fs bk target dirs).kind ≠ .ok) :
    ∀ q, (PrepareF.prepare vd vf oldCreated fa fuel fs bk target dirs).st.fs.get q ≠ none →
      (PrepareF.prepare vd vf oldCreated fa fuel fs bk target dirs).st.fs.get q = fs.get q := by
  -- the second phase on top of any well-formed tree that has only lost entries
  have hsecond : ∀ (st1 : MakeRoom.St) (n1 : Nat) (e : MakeDirs.St × Nat), TreeWF st1.fs →
      (∀ q, st1.fs.get q ≠ none → st1.fs.get q = fs.get q) →
      MakeDirsF.loop oldCreated fa dirs n1 { fs := st1.fs, bk := st1.bk } = .error e →
      ∀ q, e.1.fs.get q ≠ none → e.1.fs.get q = fs.get q := by
    intro st1 n1 e hwf1 h1 hl q hq
    have := MakeDirsF.loop_error oldCreated fa st1.fs hwf1 dirs n1 { fs := st1.fs, bk := st1.bk } e
      ⟨(fun d hd => by simp at hd), (fun q _ => Or.inl rfl), (fun d hd => by simp at hd), (fun d hd => by simp at hd)⟩ hl q
    rcases this with h | ⟨_, h⟩
    · rw [h]; exact h1 q (by rw [← h]; exact hq)
    · exact absurd h hq
  have hmoved : ∀ (c : C), MakeRoom.Moved vd vf target { fs := fs, bk := bk } c.st →
      ∀ q, c.st.fs.get q ≠ none → c.st.fs.get q = fs.get q := by
    intro c hm q hq
    rcases hm.tree q with h | ⟨h, _⟩
    · exact h
    · exact absurd h hq
  intro q hq
  unfold PrepareF.prepare at hfail hq ⊢
  by_cases hd : fs.isDir target = true
  · simp only [hd, if_true] at hfail hq ⊢
    by_cases hv : vd target = true
    · simp only [hv, if_true] at hfail hq ⊢
    · have hv' : vd target = false := by simpa using hv
      simp only [hv', Bool.false_eq_true, if_false] at hfail hq ⊢
      cases hm : MakeRoomF.makeRoom vd vf fa fuel { st := { fs := fs, bk := bk } } target with
      | error c =>
        simp only [hm] at hfail hq ⊢
        exact hmoved c (MakeRoomF.makeRoomF_moved vd vf fa fuel _ target c (Or.inr hm)) q hq
      | ok c =>
        simp only [hm] at hfail hq ⊢
        have hmv := MakeRoomF.makeRoomF_moved vd vf fa fuel _ target c (Or.inl hm)
        have hwf1 := makeRoomF_wf vd vf fa fuel _ c target hwf (Or.inl hm)
        cases hl : MakeDirsF.loop oldCreated fa dirs c.n { fs := c.st.fs, bk := c.st.bk } with
        | ok out => obtain ⟨st2, n2⟩ := out; simp only [hl] at hfail; exact absurd rfl hfail
        | error out =>
          obtain ⟨st2, n2⟩ := out
          simp only [hl] at hq ⊢
          exact hsecond c.st c.n (st2, n2) hwf1 (hmoved c hmv) hl q hq
  · simp only [hd, Bool.false_eq_true, if_false] at hfail hq ⊢
    cases hl : MakeDirsF.loop oldCreated fa dirs 0 { fs := fs, bk := bk } with
    | ok out => obtain ⟨st2, n2⟩ := out; simp only [hl] at hfail; exact absurd rfl hfail
    | error out =>
      obtain ⟨st2, n2⟩ := out
      simp only [hl] at hq ⊢
      exact hsecond { fs := fs, bk := bk } 0 (st2, n2) hwf (fun _ _ => rfl) hl q hq

end Rollback
end FB
